import FCA.Proofs.Bits
import Mathlib.Data.Finset.Card
/-
The heap loop of `lindig.lattice` reduced to what determines the emission order: the heap of
extents, the keys of the mapping (`seen`) and the emitted order, over an abstract neighbor function.
-/
namespace FCA

theorem minBy_spec (key : Nat → Nat) (l : List Nat) :
    (l = [] ∧ minBy key l = none) ∨ ∃ c, minBy key l = some c ∧ c ∈ l ∧ ∀ x ∈ l, key c ≤ key x := by
  induction l with
  | nil => left; simp [minBy]
  | cons a l ih =>
    right
    rcases ih with ⟨rfl, h⟩ | ⟨b, hb, hbl, hmin⟩
    · exact ⟨a, by simp [minBy], by simp, by simp⟩
    · simp only [minBy, hb]
      by_cases h : key b < key a
      · refine ⟨b, by simp [h], by simp [hbl], ?_⟩
        intro x hx
        rcases List.mem_cons.mp hx with rfl | hx
        · exact le_of_lt h
        · exact hmin x hx
      · refine ⟨a, by simp [h], by simp, ?_⟩
        intro x hx
        rcases List.mem_cons.mp hx with rfl | hx
        · exact le_rfl
        · exact le_trans (not_lt.mp h) (hmin x hx)

namespace LindigAbs

def lloop (nb : Nat → List Nat) (key : Nat → Nat) : Nat → List Nat → List Nat → List Nat → List Nat
  | 0, _, _, order => order.reverse
  | fuel+1, heap, seen, order =>
    match minBy key heap with
    | none => order.reverse
    | some e =>
      let new := (nb e).filter (fun x => decide (x ∉ seen))
      lloop nb key fuel (heap.erase e ++ new) (seen ++ new) (e :: order)

inductive Reach (nb : Nat → List Nat) : Nat → Nat → Prop
  | refl (a) : Reach nb a a
  | step {a d x} : Reach nb a d → x ∈ nb d → Reach nb a x

variable (nb : Nat → List Nat) (key : Nat → Nat) (bot N : Nat)

structure Hyp : Prop where
  inj : ∀ x y, Reach nb bot x → Reach nb bot y → key x = key y → x = y
  mono : ∀ e, Reach nb bot e → ∀ x ∈ nb e, key e < key x
  nodup : ∀ e, Reach nb bot e → (nb e).Nodup
  bound : ∀ e, Reach nb bot e → e < N

structure Inv (heap seen order : List Nat) : Prop where
  seenNodup : seen.Nodup
  heapNodup : heap.Nodup
  split : ∀ x, x ∈ seen ↔ x ∈ heap ∨ x ∈ order
  disj : ∀ x, x ∈ heap → x ∉ order
  closedNb : ∀ e ∈ order, ∀ x ∈ nb e, x ∈ seen
  reach : ∀ x ∈ seen, Reach nb bot x
  sorted : order.Pairwise (fun a b => key b < key a)
  above : ∀ h ∈ heap, ∀ e ∈ order, key e < key h
  hasBot : bot ∈ seen

theorem inv_init : Inv nb key bot [bot] [bot] [] where
  seenNodup := by simp
  heapNodup := by simp
  split := by simp
  disj := by simp
  closedNb := by simp
  reach := by simp; exact Reach.refl _
  sorted := List.Pairwise.nil
  above := by simp
  hasBot := by simp

theorem inv_step (H : Hyp nb key bot N) {heap seen order : List Nat} {e : Nat}
    (I : Inv nb key bot heap seen order) (he : e ∈ heap) (hmin : ∀ x ∈ heap, key e ≤ key x) :
    Inv nb key bot (heap.erase e ++ (nb e).filter (fun x => decide (x ∉ seen)))
      (seen ++ (nb e).filter (fun x => decide (x ∉ seen))) (e :: order) := by
  set new := (nb e).filter (fun x => decide (x ∉ seen)) with hnew
  have heseen : e ∈ seen := (I.split e).mpr (Or.inl he)
  have hRe : Reach nb bot e := I.reach e heseen
  have new_mem : ∀ x, x ∈ new ↔ x ∈ nb e ∧ x ∉ seen := by
    intro x; simp [hnew, List.mem_filter]
  have new_nodup : new.Nodup := (H.nodup e hRe).filter _
  have erase_mem : ∀ x, x ∈ heap.erase e ↔ x ∈ heap ∧ x ≠ e := by
    intro x; exact I.heapNodup.mem_erase_iff.trans ⟨fun ⟨a, b⟩ => ⟨b, a⟩, fun ⟨a, b⟩ => ⟨b, a⟩⟩
  constructor
  · rw [List.nodup_append]
    refine ⟨I.seenNodup, new_nodup, ?_⟩
    intro a ha b hb hab
    subst hab
    exact ((new_mem a).mp hb).2 ha
  · rw [List.nodup_append]
    refine ⟨I.heapNodup.erase e, new_nodup, ?_⟩
    intro a ha b hb hab
    subst hab
    have := ((erase_mem a).mp ha).1
    exact ((new_mem a).mp hb).2 ((I.split a).mpr (Or.inl this))
  · intro x
    simp only [List.mem_append, List.mem_cons, erase_mem, I.split x]
    constructor
    · rintro ((h | h) | h)
      · by_cases hxe : x = e
        · exact Or.inr (Or.inl hxe)
        · exact Or.inl (Or.inl ⟨h, hxe⟩)
      · exact Or.inr (Or.inr h)
      · exact Or.inl (Or.inr h)
    · rintro ((⟨h, _⟩ | h) | (rfl | h))
      · exact Or.inl (Or.inl h)
      · exact Or.inr h
      · exact Or.inl (Or.inl he)
      · exact Or.inl (Or.inr h)
  · intro x hx hxo
    rcases List.mem_append.mp hx with h | h
    · obtain ⟨hxh, hxe⟩ := (erase_mem x).mp h
      rcases List.mem_cons.mp hxo with rfl | hxo
      · exact hxe rfl
      · exact I.disj x hxh hxo
    · obtain ⟨hxnb, hxs⟩ := (new_mem x).mp h
      rcases List.mem_cons.mp hxo with rfl | hxo
      · exact hxs heseen
      · exact hxs ((I.split x).mpr (Or.inr hxo))
  · intro a ha x hx
    rcases List.mem_cons.mp ha with rfl | ha
    · by_cases hxs : x ∈ seen
      · exact List.mem_append.mpr (Or.inl hxs)
      · exact List.mem_append.mpr (Or.inr ((new_mem x).mpr ⟨hx, hxs⟩))
    · exact List.mem_append.mpr (Or.inl (I.closedNb a ha x hx))
  · intro x hx
    rcases List.mem_append.mp hx with h | h
    · exact I.reach x h
    · exact Reach.step hRe ((new_mem x).mp h).1
  · refine List.Pairwise.cons ?_ I.sorted
    intro a ha
    exact I.above e he a ha
  · intro h hh a ha
    have hea : ∀ a ∈ order, key a < key e := fun a ha => I.above e he a ha
    rcases List.mem_append.mp hh with hh | hh
    · obtain ⟨hhh, hne⟩ := (erase_mem h).mp hh
      rcases List.mem_cons.mp ha with rfl | ha
      · have hle := hmin h hhh
        rcases lt_or_eq_of_le hle with hlt | heq
        · exact hlt
        · exact absurd (H.inj _ _ hRe (I.reach h ((I.split h).mpr (Or.inl hhh))) heq).symm hne
      · exact I.above h hhh a ha
    · have hlt : key e < key h := H.mono e hRe h ((new_mem h).mp hh).1
      rcases List.mem_cons.mp ha with rfl | ha
      · exact hlt
      · exact lt_trans (hea a ha) hlt
  · exact List.mem_append.mpr (Or.inl I.hasBot)

theorem length_le_of_nodup_bound {l : List Nat} (hn : l.Nodup) (hb : ∀ x ∈ l, x < N) : l.length ≤ N := by
  have h1 : l.toFinset ⊆ Finset.range N := by
    intro x hx; simp at hx; simpa using hb x hx
  have h2 := Finset.card_le_card h1
  rwa [List.toFinset_card_of_nodup hn, Finset.card_range] at h2

/-- final state of the loop: reached with an empty heap -/
structure Final (out : List Nat) : Prop where
  sorted : out.Pairwise (fun a b => key a < key b)
  mem : ∀ x, x ∈ out ↔ Reach nb bot x

theorem lloop_correct (H : Hyp nb key bot N) :
    ∀ (fuel : Nat) (heap seen order : List Nat), Inv nb key bot heap seen order →
      N + 1 ≤ fuel + order.length → order.Nodup →
      Final nb key bot (lloop nb key fuel heap seen order) := by
  intro fuel
  induction fuel with
  | zero =>
    intro heap seen order I hf hnd
    exfalso
    have h1 : order.length ≤ N := length_le_of_nodup_bound N hnd
      (fun x hx => H.bound x (I.reach x ((I.split x).mpr (Or.inr hx))))
    omega
  | succ fuel ih =>
    intro heap seen order I hf hnd
    unfold lloop
    rcases minBy_spec key heap with ⟨rfl, hnone⟩ | ⟨e, hsome, he, hmin⟩
    · simp only [hnone]
      refine ⟨by rw [List.pairwise_reverse]; exact I.sorted, fun x => ?_⟩
      rw [List.mem_reverse]
      have hseen : ∀ y, y ∈ seen ↔ y ∈ order := fun y => by simpa using I.split y
      constructor
      · exact fun hx => I.reach x ((hseen x).mpr hx)
      · intro hx
        induction hx with
        | refl => exact (hseen _).mp I.hasBot
        | step _ hxd ih2 => exact (hseen _).mp (I.closedNb _ ih2 _ hxd)
    · simp only [hsome]
      have hnd' : (e :: order).Nodup := List.nodup_cons.mpr ⟨I.disj e he, hnd⟩
      exact ih _ _ _ (inv_step nb key bot N H I he hmin) (by simp; omega) hnd'

/-- started at the bottom with fuel `N + 1`, the loop emits exactly the `nb`-reachable sets, in
strictly increasing key order -/
theorem lindig_order (H : Hyp nb key bot N) :
    Final nb key bot (lloop nb key (N + 1) [bot] [bot] []) :=
  lloop_correct nb key bot N H (N + 1) [bot] [bot] [] (inv_init nb key bot) (by simp) (by simp)

end LindigAbs
end FCA
