import re,glob,os
for f in sorted(glob.glob('/verif/lean/FCA/Props/C*.lean')):
    s=open(f).read()
    s=re.sub(r'/-.*?-/','',s,flags=re.S)
    names=re.findall(r'^\s*theorem\s+(C\d\d_\w+)',s,flags=re.M)
    print(os.path.basename(f)[:-5], len(names), ' '.join(n.split('_',1)[1] for n in names))
