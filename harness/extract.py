"""Regenerate lean/FCA/Generated/*.lean from the source under test (filled in below)."""
import os

def regenerate(log):
    return {'status': 'not-implemented-yet'}
