import FCA.Generated.Annotate
import FCA.Model.Lattice
/-
C10 over the regenerated source: which names each labelling loop of `Lattice._annotate` enumerates, which concept it looks
up for a name and which attribute collects the names — read from the current `lattices.py` — give the model's
`objectLabels` / `propertyLabels` (about which `C10_*` are proved; the append-or-create loop itself is `C10_annotate_loop_*`).
-/
namespace FCA

/-- a labelling loop read off its regenerated configuration: `(attribute, names collected at the concept with extent e)` -/
def C10_labelsOfCfg (K : Ctx) (e : Nat) (cfg : String × String × String) : Option (String × List Nat) :=
  let width : Option Nat := match cfg.1 with
    | "objects" => some K.n
    | "properties" => some K.m
    | _ => none
  let concept : Option (Nat → Nat) := match cfg.2.1 with
    | "objectConcept" => some fun o => K.extentOf (K.intentOf (2 ^ o))      -- extension(intension([o]))
    | "attributeConcept" => some fun p => K.extentOf (2 ^ p)               -- extension([p])
    | _ => none
  match width, concept with
  | some w, some f => some (cfg.2.2, (List.range w).filter fun x => f x == e)
  | _, _ => none

/-- `_annotate` of the current source writes, at the concept with extent `e`, the model's object labels into `objects` and
the model's property labels into `properties` -/
theorem C10_generated_annotate (K : Ctx) (e : Nat) :
    Generated.annotate_cfg.map (C10_labelsOfCfg K e) =
      [some ("objects", objectLabels K e), some ("properties", propertyLabels K e)] := by
  simp [Generated.annotate_cfg, C10_labelsOfCfg, objectLabels, propertyLabels]

end FCA
#print axioms FCA.C10_generated_annotate
