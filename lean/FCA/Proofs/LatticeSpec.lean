import FCA.Proofs.Assemble
import FCA.Proofs.Keys
/-
`Context.lattice` of the model (`mkLattice K = assemble K (lindigLattice K)`): a complete
characterisation `LatticeSpec K L` of the list of concepts, their positions and their neighbor / atom /
index / dindex / label fields, and `mkLattice_spec : K.WF → LatticeSpec K (mkLattice K)`.

Auxiliary list lemmas live in `FCA.LatSpecAux`; the API is `FCA.LatticeSpec` + `FCA.LatticeSpec.*`.
-/
namespace FCA

namespace LatSpecAux

theorem nodup_of_sorted {key : Nat → Nat} {E : List Nat}
    (h : E.Pairwise (fun a b => key a < key b)) : E.Nodup :=
  h.imp (fun hlt heq => by rw [heq] at hlt; exact lt_irrefl _ hlt)

theorem getD_of_get {E : List Nat} {i a : Nat} (h : E[i]? = some a) : E.getD i 0 = a := by
  simp [h]

theorem get_of_lt {E : List Nat} {i : Nat} (h : i < E.length) : E[i]? = some (E.getD i 0) := by
  simp [h]

theorem lt_of_get {α : Type} {E : List α} {i : Nat} {a : α} (h : E[i]? = some a) : i < E.length := by
  by_contra hn
  rw [List.getElem?_eq_none (by omega)] at h
  exact absurd h (by simp)

/-- in a list strictly sorted by `key`, earlier position = smaller key -/
theorem key_lt_of_pos_lt {key : Nat → Nat} {E : List Nat} (h : E.Pairwise (fun a b => key a < key b))
    {i j a b : Nat} (hi : E[i]? = some a) (hj : E[j]? = some b) (hij : i < j) : key a < key b := by
  have hi' := lt_of_get hi
  have hj' := lt_of_get hj
  have := List.pairwise_iff_getElem.mp h i j hi' hj' hij
  rw [List.getElem?_eq_getElem hi'] at hi
  rw [List.getElem?_eq_getElem hj'] at hj
  simp only [Option.some.injEq] at hi hj
  rwa [hi, hj] at this

theorem pos_lt_iff {key : Nat → Nat} {E : List Nat} (h : E.Pairwise (fun a b => key a < key b))
    {i j a b : Nat} (hi : E[i]? = some a) (hj : E[j]? = some b) : i < j ↔ key a < key b := by
  constructor
  · exact key_lt_of_pos_lt h hi hj
  · intro hk
    by_contra hn
    rcases Nat.lt_or_ge j i with hlt | hge
    · have := key_lt_of_pos_lt h hj hi hlt; omega
    · have : i = j := by omega
      subst this
      rw [hi] at hj
      simp only [Option.some.injEq] at hj
      subst hj; omega

theorem pos_inj {E : List Nat} (hnd : E.Nodup) {i j a : Nat} (hi : E[i]? = some a) (hj : E[j]? = some a) :
    i = j := by
  have h1 := indexOf?_get_nodup hnd hi
  have h2 := indexOf?_get_nodup hnd hj
  rw [h1] at h2
  simpa using h2

theorem indexOf?_iff {E : List Nat} (hnd : E.Nodup) (x k : Nat) : indexOf? x E = some k ↔ E[k]? = some x :=
  ⟨indexOf?_some_get, indexOf?_get_nodup hnd⟩

theorem mem_toIndexes {E xs : List Nat} (hnd : E.Nodup) (j : Nat) :
    j ∈ toIndexes E xs ↔ ∃ d, E[j]? = some d ∧ d ∈ xs := by
  unfold toIndexes extentIndex
  rw [List.mem_filterMap]
  constructor
  · rintro ⟨d, hd, hj⟩; exact ⟨d, indexOf?_some_get hj, hd⟩
  · rintro ⟨d, hj, hd⟩; exact ⟨d, hd, indexOf?_get_nodup hnd hj⟩

theorem toIndexes_nodup {E xs : List Nat} (hxs : xs.Nodup) : (toIndexes E xs).Nodup := by
  unfold toIndexes extentIndex
  refine List.Nodup.filterMap ?_ hxs
  intro a a' b hb hb'
  have h1 := indexOf?_some_get (Option.mem_def.mp hb)
  have h2 := indexOf?_some_get (Option.mem_def.mp hb')
  rw [h1] at h2
  simpa using h2

theorem toIndexes_lt {E xs : List Nat} {j : Nat} (h : j ∈ toIndexes E xs) : j < E.length := by
  unfold toIndexes extentIndex at h
  obtain ⟨d, _, hj⟩ := List.mem_filterMap.mp h
  exact indexOf?_some_lt hj

/-- sorting positions by the key of their element, in a list strictly sorted by that key,
is sorting the positions -/
theorem sortBy_pos_sorted {key : Nat → Nat} {E : List Nat} (hs : E.Pairwise (fun a b => key a < key b))
    {U : List Nat} (hlt : ∀ j ∈ U, j < E.length) :
    (sortBy (fun i => key (E.getD i 0)) U).Pairwise (· ≤ ·) := by
  have h1 := sortBy_sorted (fun i => key (E.getD i 0)) U
  refine List.Pairwise.imp_of_mem ?_ h1
  intro a b ha hb hab
  have ha' := hlt a ((mem_sortBy _ _ _).mp ha)
  have hb' := hlt b ((mem_sortBy _ _ _).mp hb)
  by_contra hn
  have := key_lt_of_pos_lt hs (get_of_lt hb') (get_of_lt ha') (by omega)
  omega

theorem sortBy_pos_strict {key : Nat → Nat} {E : List Nat} (hs : E.Pairwise (fun a b => key a < key b))
    {U : List Nat} (hU : U.Nodup) (hlt : ∀ j ∈ U, j < E.length) :
    (sortBy (fun i => key (E.getD i 0)) U).Pairwise (· < ·) := by
  have h1 := sortBy_pos_sorted hs hlt
  have h2 := sortBy_nodup (fun i => key (E.getD i 0)) hU
  exact (h1.and h2).imp (fun ⟨hle, hne⟩ => lt_of_le_of_ne hle hne)

theorem full_closed {K : Ctx} (h : K.WF) : closedObj K (full K.n) :=
  ⟨bounded_full _, sub_antisymm (bounded_iff_sub_full.mp (bounded_extentOf h _)) (sub_extent_intent h (bounded_full _))⟩

/-! ### rank of a position in the list of positions sorted by a key -/

section rank
variable (key : Nat → Nat) (n : Nat)

theorem sortRange_perm : (sortBy key (List.range n)).Perm (List.range n) := sortBy_perm _ _
theorem sortRange_length : (sortBy key (List.range n)).length = n := by
  rw [(sortRange_perm key n).length_eq, List.length_range]
theorem sortRange_nodup : (sortBy key (List.range n)).Nodup := sortBy_nodup _ List.nodup_range
theorem mem_sortRange (k : Nat) : k ∈ sortBy key (List.range n) ↔ k < n := by
  rw [mem_sortBy, List.mem_range]

/-- position of `k` among `0..n-1` sorted by `key` -/
def rank (k : Nat) : Nat := (indexOf? k (sortBy key (List.range n))).getD 0

variable {key n}

theorem rank_get {k : Nat} (hk : k < n) : (sortBy key (List.range n))[rank key n k]? = some k := by
  obtain ⟨p, hp⟩ := indexOf?_of_mem ((mem_sortRange key n k).mpr hk)
  unfold rank
  rw [hp]
  exact indexOf?_some_get hp

theorem rank_lt {k : Nat} (hk : k < n) : rank key n k < n := by
  have := lt_of_get (rank_get (key := key) hk)
  rwa [sortRange_length] at this

theorem rank_of_get {p k : Nat} (h : (sortBy key (List.range n))[p]? = some k) : rank key n k = p := by
  unfold rank
  rw [indexOf?_get_nodup (sortRange_nodup key n) h]
  rfl

theorem rank_inj {a b : Nat} (ha : a < n) (hb : b < n) (h : rank key n a = rank key n b) : a = b := by
  have h1 := rank_get (key := key) ha
  have h2 := rank_get (key := key) hb
  rw [h, h2] at h1
  simpa using h1.symm

theorem rank_surj {i : Nat} (hi : i < n) : ∃ k, k < n ∧ rank key n k = i := by
  have hi' : i < (sortBy key (List.range n)).length := by rwa [sortRange_length]
  refine ⟨(sortBy key (List.range n))[i], ?_, ?_⟩
  · exact (mem_sortRange key n _).mp (List.getElem_mem hi')
  · exact rank_of_get (List.getElem?_eq_getElem hi')

theorem sortRange_strict (hinj : ∀ a, a < n → ∀ b, b < n → key a = key b → a = b) :
    (sortBy key (List.range n)).Pairwise (fun a b => key a < key b) :=
  sortBy_strict key List.nodup_range
    (fun a ha b hb => hinj a (List.mem_range.mp ha) b (List.mem_range.mp hb))

theorem rank_lt_iff (hinj : ∀ a, a < n → ∀ b, b < n → key a = key b → a = b) {a b : Nat} (ha : a < n) (hb : b < n) :
    key a < key b ↔ rank key n a < rank key n b :=
  (pos_lt_iff (key := key) (sortRange_strict hinj) (rank_get ha) (rank_get hb)).symm

/-- in a list strictly sorted by `key`, the position of `x` is the number of elements of smaller key -/
theorem countP_of_sorted {l : List Nat} (hs : l.Pairwise (fun a b => key a < key b)) {p x : Nat}
    (hp : l[p]? = some x) : l.countP (fun y => decide (key y < key x)) = p := by
  induction l generalizing p with
  | nil => simp at hp
  | cons a l ih =>
    rw [List.pairwise_cons] at hs
    cases p with
    | zero =>
      simp only [List.getElem?_cons_zero, Option.some.injEq] at hp
      subst hp
      rw [List.countP_cons_of_neg (by simp)]
      rw [List.countP_eq_zero]
      intro y hy
      have := hs.1 y hy
      simp only [decide_eq_true_eq]; omega
    | succ p =>
      simp only [List.getElem?_cons_succ] at hp
      have hx : x ∈ l := List.mem_of_getElem? hp
      rw [List.countP_cons_of_pos (by simpa using hs.1 x hx), ih hs.2 hp]

theorem rank_eq_count (hinj : ∀ a, a < n → ∀ b, b < n → key a = key b → a = b) {k : Nat} (hk : k < n) :
    rank key n k = (List.range n).countP (fun y => decide (key y < key k)) := by
  rw [← (sortRange_perm key n).countP_eq]
  exact (countP_of_sorted (sortRange_strict hinj) (rank_get hk)).symm

end rank

end LatSpecAux

open LatSpecAux

/-- the positions `0..len-1` of `L` in long-lexicographic order of their extents
(`sorted(self._concepts, key=lambda c: c._extent.longlex())`) -/
def LatticeSpec.dorder (K : Ctx) (L : Lattice) : List Nat :=
  sortBy (fun i => longlexKey K.n ((L.map (·.extent)).getD i 0)) (List.range L.length)

/-- What `Context.lattice` builds, with `E := L.map (·.extent)` the extents in iteration order.
All neighbor / atom references are positions in `L` (equivalently in `E`). -/
structure LatticeSpec (K : Ctx) (L : Lattice) : Prop where
  wf : K.WF
  /-- iteration order = strictly increasing shortlex key of the extents -/
  sorted : (L.map (·.extent)).Pairwise (fun a b => shortlexKey K.n a < shortlexKey K.n b)
  /-- the extents are exactly the closed object sets -/
  mem : ∀ x, x ∈ L.map (·.extent) ↔ closedObj K x
  index : ∀ {k : Nat} {c : LConcept}, L[k]? = some c → c.index = k
  intent : ∀ {k : Nat} {c : LConcept}, L[k]? = some c → c.intent = K.intentOf c.extent
  upper_nodup : ∀ {k : Nat} {c : LConcept}, L[k]? = some c → c.upper.Nodup
  mem_upper : ∀ {k : Nat} {c : LConcept}, L[k]? = some c →
    ∀ j, j ∈ c.upper ↔ ∃ d, (L.map (·.extent))[j]? = some d ∧ covers K c.extent d
  /-- positions ascending, i.e. shortlex order of the extents (see `LatticeSpec.upper_shortlex`) -/
  upper_sorted : ∀ {k : Nat} {c : LConcept}, L[k]? = some c → c.upper.Pairwise (· < ·)
  lower_nodup : ∀ {k : Nat} {c : LConcept}, L[k]? = some c → c.lower.Nodup
  mem_lower : ∀ {k : Nat} {c : LConcept}, L[k]? = some c →
    ∀ j, j ∈ c.lower ↔ ∃ d, (L.map (·.extent))[j]? = some d ∧ closedObj K d ∧ covers K d c.extent
  lower_sorted : ∀ {k : Nat} {c : LConcept}, L[k]? = some c →
    c.lower.Pairwise (fun a b => longlexKey K.n ((L.map (·.extent)).getD a 0) < longlexKey K.n ((L.map (·.extent)).getD b 0))
  objects : ∀ {k : Nat} {c : LConcept}, L[k]? = some c → c.objects = objectLabels K c.extent
  properties : ∀ {k : Nat} {c : LConcept}, L[k]? = some c → c.properties = propertyLabels K c.extent
  /-- `Concept.atoms`: the upper neighbors of the first concept that are below the concept -/
  atoms : ∀ {k : Nat} {c : LConcept}, L[k]? = some c →
    c.atoms = (L.upperAt 0).filter (fun a => c.extent ||| (L.map (·.extent)).getD a 0 == c.extent)
  /-- `Concept.dindex`: position in the longlex-sorted list of positions -/
  dindex : ∀ {k : Nat} {c : LConcept}, L[k]? = some c → c.dindex = (indexOf? k (LatticeSpec.dorder K L)).getD 0

namespace LatticeSpec

variable {K : Ctx} {L : Lattice}

theorem nodup (S : LatticeSpec K L) : (L.map (·.extent)).Nodup := nodup_of_sorted S.sorted

theorem length_extents (_S : LatticeSpec K L) : L.length = (L.map (·.extent)).length := by simp

theorem extent_get (_S : LatticeSpec K L) {k : Nat} {c : LConcept} (h : L[k]? = some c) :
    (L.map (·.extent))[k]? = some c.extent := by
  simp [h]

/-- every position of `E` is the extent of the concept at that position -/
theorem get_of_extent (_S : LatticeSpec K L) {k e : Nat} (h : (L.map (·.extent))[k]? = some e) :
    ∃ c, L[k]? = some c ∧ c.extent = e := by
  simpa using h

theorem getD_extent (_S : LatticeSpec K L) {k : Nat} {c : LConcept} (h : L[k]? = some c) :
    (L.map (·.extent)).getD k 0 = c.extent := by
  simp [h]

theorem extentAt_eq (L : Lattice) (k : Nat) : L.extentAt k = (L.map (·.extent)).getD k 0 := by
  unfold Lattice.extentAt; simp

theorem lt_length (_S : LatticeSpec K L) {k : Nat} {c : LConcept} (h : L[k]? = some c) : k < L.length :=
  lt_of_get h

theorem closed (S : LatticeSpec K L) {k : Nat} {c : LConcept} (h : L[k]? = some c) : closedObj K c.extent :=
  (S.mem _).mp (List.mem_of_getElem? (S.extent_get h))

theorem bounded (S : LatticeSpec K L) {k : Nat} {c : LConcept} (h : L[k]? = some c) : Bounded K.n c.extent :=
  (S.closed h).1

/-- position order = shortlex key order -/
theorem pos_lt_iff (S : LatticeSpec K L) {i j : Nat} {c d : LConcept} (hi : L[i]? = some c) (hj : L[j]? = some d) :
    i < j ↔ shortlexKey K.n c.extent < shortlexKey K.n d.extent :=
  LatSpecAux.pos_lt_iff S.sorted (S.extent_get hi) (S.extent_get hj)

/-- concepts are determined by their extent -/
theorem pos_inj (S : LatticeSpec K L) {i j : Nat} {c d : LConcept} (hi : L[i]? = some c) (hj : L[j]? = some d)
    (he : c.extent = d.extent) : i = j :=
  LatSpecAux.pos_inj S.nodup (S.extent_get hi) (he ▸ S.extent_get hj)

/-- `lattice._mapping[extent]` -/
theorem find_iff (S : LatticeSpec K L) (e k : Nat) : L.find e = some k ↔ (L.map (·.extent))[k]? = some e :=
  indexOf?_iff S.nodup e k

theorem find_of_closed (S : LatticeSpec K L) {e : Nat} (he : closedObj K e) : ∃ k, L.find e = some k :=
  indexOf?_of_mem ((S.mem e).mpr he)

theorem find_get (S : LatticeSpec K L) {k : Nat} {c : LConcept} (h : L[k]? = some c) : L.find c.extent = some k :=
  (S.find_iff _ _).mpr (S.extent_get h)

theorem find_some (S : LatticeSpec K L) {e k : Nat} (h : L.find e = some k) :
    ∃ c, L[k]? = some c ∧ c.extent = e :=
  S.get_of_extent ((S.find_iff e k).mp h)

theorem find_none (S : LatticeSpec K L) {e : Nat} (h : ¬ closedObj K e) : L.find e = none :=
  indexOf?_eq_none (fun hm => h ((S.mem e).mp hm))

/-! #### first and last concept -/

theorem bot_mem (S : LatticeSpec K L) : K.doubleObj 0 ∈ L.map (·.extent) := (S.mem _).mpr (bot_closed S.wf)

theorem ne_nil (S : LatticeSpec K L) : L ≠ [] := by
  intro h0
  have := S.bot_mem
  rw [h0] at this
  simp at this

theorem length_pos (S : LatticeSpec K L) : 0 < L.length := List.length_pos_iff.mpr S.ne_nil

/-- a proper subset comes earlier -/
theorem pos_lt_of_ssub (S : LatticeSpec K L) {i j : Nat} {c d : LConcept} (hi : L[i]? = some c) (hj : L[j]? = some d)
    (hs : c.extent ⊆ᵇ d.extent) (hne : c.extent ≠ d.extent) : i < j :=
  (S.pos_lt_iff hi hj).mpr (shortlexKey_lt_of_ssub hs (S.bounded hj) hne)

theorem pos_le_of_sub (S : LatticeSpec K L) {i j : Nat} {c d : LConcept} (hi : L[i]? = some c) (hj : L[j]? = some d)
    (hs : c.extent ⊆ᵇ d.extent) : i ≤ j := by
  by_cases hne : c.extent = d.extent
  · exact le_of_eq (S.pos_inj hi hj hne)
  · exact le_of_lt (S.pos_lt_of_ssub hi hj hs hne)

/-- `lattice.infimum` is the first concept -/
theorem get_zero (S : LatticeSpec K L) : ∃ c, L[0]? = some c ∧ c.extent = K.doubleObj 0 := by
  obtain ⟨k, hk⟩ := List.getElem?_of_mem S.bot_mem
  obtain ⟨c, hc, hce⟩ := S.get_of_extent hk
  have h0 : 0 < L.length := S.length_pos
  have hc0 : L[0]? = some L[0] := List.getElem?_eq_getElem h0
  have hle := S.pos_le_of_sub hc hc0 (by rw [hce]; exact bot_least S.wf (S.closed hc0))
  have : k = 0 := by omega
  subst this
  exact ⟨c, hc, hce⟩

theorem head (S : LatticeSpec K L) : (L.map (·.extent)).head? = some (K.doubleObj 0) := by
  obtain ⟨c, hc, hce⟩ := S.get_zero
  rw [List.head?_eq_getElem?, S.extent_get hc, hce]

/-- `lattice.supremum` is the last concept -/
theorem get_last (S : LatticeSpec K L) : ∃ c, L[L.length - 1]? = some c ∧ c.extent = full K.n := by
  obtain ⟨k, hk⟩ := List.getElem?_of_mem ((S.mem _).mpr (full_closed S.wf))
  obtain ⟨c, hc, hce⟩ := S.get_of_extent hk
  have h0 : L.length - 1 < L.length := by have := S.length_pos; omega
  have hc0 : L[L.length - 1]? = some L[L.length - 1] := List.getElem?_eq_getElem h0
  have hle := S.pos_le_of_sub hc0 hc (by rw [hce]; exact bounded_iff_sub_full.mp (S.bounded hc0))
  have hk' := S.lt_length hc
  have : k = L.length - 1 := by omega
  subst this
  exact ⟨c, hc, hce⟩

theorem last (S : LatticeSpec K L) : (L.map (·.extent)).getLast? = some (full K.n) := by
  obtain ⟨c, hc, hce⟩ := S.get_last
  rw [List.getLast?_eq_getElem?, List.length_map, S.extent_get hc, hce]

/-! #### neighbors -/

theorem upper_get (S : LatticeSpec K L) {k : Nat} {c : LConcept} (h : L[k]? = some c) {j : Nat} (hj : j ∈ c.upper) :
    ∃ d, L[j]? = some d ∧ covers K c.extent d.extent := by
  obtain ⟨e, he, hcv⟩ := (S.mem_upper h j).mp hj
  obtain ⟨d, hd, rfl⟩ := S.get_of_extent he
  exact ⟨d, hd, hcv⟩

theorem lower_get (S : LatticeSpec K L) {k : Nat} {c : LConcept} (h : L[k]? = some c) {j : Nat} (hj : j ∈ c.lower) :
    ∃ d, L[j]? = some d ∧ covers K d.extent c.extent := by
  obtain ⟨e, he, _, hcv⟩ := (S.mem_lower h j).mp hj
  obtain ⟨d, hd, rfl⟩ := S.get_of_extent he
  exact ⟨d, hd, hcv⟩

/-- neighbor links are converse to each other -/
theorem mem_upper_iff_mem_lower (S : LatticeSpec K L) {i j : Nat} {c d : LConcept} (hi : L[i]? = some c)
    (hj : L[j]? = some d) : j ∈ c.upper ↔ i ∈ d.lower := by
  rw [S.mem_upper hi, S.mem_lower hj]
  constructor
  · rintro ⟨e, he, hcv⟩
    rw [S.extent_get hj] at he
    simp only [Option.some.injEq] at he
    subst he
    exact ⟨c.extent, S.extent_get hi, S.closed hi, hcv⟩
  · rintro ⟨e, he, _, hcv⟩
    rw [S.extent_get hi] at he
    simp only [Option.some.injEq] at he
    subst he
    exact ⟨d.extent, S.extent_get hj, hcv⟩

theorem upper_gt (S : LatticeSpec K L) {k : Nat} {c : LConcept} (h : L[k]? = some c) {j : Nat} (hj : j ∈ c.upper) :
    k < j ∧ j < L.length := by
  obtain ⟨d, hd, hcv⟩ := S.upper_get h hj
  exact ⟨S.pos_lt_of_ssub h hd hcv.2.1 hcv.2.2.1, S.lt_length hd⟩

theorem lower_lt (S : LatticeSpec K L) {k : Nat} {c : LConcept} (h : L[k]? = some c) {j : Nat} (hj : j ∈ c.lower) :
    j < k := by
  obtain ⟨d, hd, hcv⟩ := S.lower_get h hj
  exact S.pos_lt_of_ssub hd h hcv.2.1 hcv.2.2.1

/-- every `upper_neighbors` tuple is in shortlex order of the extents -/
theorem upper_shortlex (S : LatticeSpec K L) {k : Nat} {c : LConcept} (h : L[k]? = some c) :
    c.upper.Pairwise (fun a b => shortlexKey K.n ((L.map (·.extent)).getD a 0) < shortlexKey K.n ((L.map (·.extent)).getD b 0)) := by
  refine List.Pairwise.imp_of_mem ?_ (S.upper_sorted h)
  intro a b ha hb hab
  obtain ⟨d, hd, _⟩ := S.upper_get h ha
  obtain ⟨d', hd', _⟩ := S.upper_get h hb
  rw [S.getD_extent hd, S.getD_extent hd']
  exact (S.pos_lt_iff hd hd').mp hab

/-! #### atoms -/

theorem upperAt_zero (S : LatticeSpec K L) :
    ∃ c0, L[0]? = some c0 ∧ c0.extent = K.doubleObj 0 ∧ L.upperAt 0 = c0.upper := by
  obtain ⟨c0, h0, he⟩ := S.get_zero
  exact ⟨c0, h0, he, by unfold Lattice.upperAt; rw [h0]; rfl⟩

/-- `Concept.atoms`: the upper covers of the infimum that are below the concept -/
theorem mem_atoms (S : LatticeSpec K L) {k : Nat} {c : LConcept} (h : L[k]? = some c) (a : Nat) :
    a ∈ c.atoms ↔ ∃ d, (L.map (·.extent))[a]? = some d ∧ covers K (K.doubleObj 0) d ∧ d ⊆ᵇ c.extent := by
  obtain ⟨c0, h0, he, hu⟩ := S.upperAt_zero
  rw [S.atoms h, List.mem_filter, hu, S.mem_upper h0, he, beq_iff_eq, or_eq_left_iff]
  constructor
  · rintro ⟨⟨d, hd, hcv⟩, hs⟩
    rw [getD_of_get hd] at hs
    exact ⟨d, hd, hcv, hs⟩
  · rintro ⟨d, hd, hcv, hs⟩
    rw [getD_of_get hd]
    exact ⟨⟨d, hd, hcv⟩, hs⟩

/-! #### dindex -/

theorem llkey_inj (S : LatticeSpec K L) : ∀ a, a < L.length → ∀ b, b < L.length →
    longlexKey K.n ((L.map (·.extent)).getD a 0) = longlexKey K.n ((L.map (·.extent)).getD b 0) → a = b := by
  intro a ha b hb hab
  have ha' : L[a]? = some L[a] := List.getElem?_eq_getElem ha
  have hb' : L[b]? = some L[b] := List.getElem?_eq_getElem hb
  rw [S.getD_extent ha', S.getD_extent hb'] at hab
  exact S.pos_inj ha' hb' (longlexKey_inj (S.bounded ha') (S.bounded hb') hab)

theorem dindex_eq_rank (S : LatticeSpec K L) {k : Nat} {c : LConcept} (h : L[k]? = some c) :
    c.dindex = rank (fun i => longlexKey K.n ((L.map (·.extent)).getD i 0)) L.length k := S.dindex h

theorem dorder_perm (_S : LatticeSpec K L) : (dorder K L).Perm (List.range L.length) := sortBy_perm _ _

theorem dorder_length (_S : LatticeSpec K L) : (dorder K L).length = L.length := sortRange_length _ _

/-- the longlex-sorted list of positions is strictly sorted by the longlex key -/
theorem dorder_sorted (S : LatticeSpec K L) : (dorder K L).Pairwise (fun a b =>
    longlexKey K.n ((L.map (·.extent)).getD a 0) < longlexKey K.n ((L.map (·.extent)).getD b 0)) :=
  sortRange_strict S.llkey_inj

/-- `c.dindex` is the position of (the position of) `c` in the longlex-sorted list -/
theorem dorder_get (S : LatticeSpec K L) {k : Nat} {c : LConcept} (h : L[k]? = some c) :
    (dorder K L)[c.dindex]? = some k := by
  rw [S.dindex_eq_rank h]
  exact rank_get (S.lt_length h)

theorem dindex_of_dorder (S : LatticeSpec K L) {k p : Nat} {c : LConcept} (h : L[k]? = some c)
    (hp : (dorder K L)[p]? = some k) : c.dindex = p := by
  rw [S.dindex_eq_rank h]
  exact rank_of_get hp

theorem dindex_lt (S : LatticeSpec K L) {k : Nat} {c : LConcept} (h : L[k]? = some c) : c.dindex < L.length := by
  rw [S.dindex_eq_rank h]
  exact rank_lt (S.lt_length h)

theorem dindex_inj (S : LatticeSpec K L) {i j : Nat} {c d : LConcept} (hi : L[i]? = some c) (hj : L[j]? = some d)
    (he : c.dindex = d.dindex) : i = j := by
  rw [S.dindex_eq_rank hi, S.dindex_eq_rank hj] at he
  exact rank_inj (S.lt_length hi) (S.lt_length hj) he

theorem dindex_surj (S : LatticeSpec K L) {i : Nat} (hi : i < L.length) : ∃ (k : Nat) (c : LConcept), L[k]? = some c ∧ c.dindex = i := by
  obtain ⟨k, hk, hr⟩ := rank_surj (key := fun i => longlexKey K.n ((L.map (·.extent)).getD i 0)) hi
  exact ⟨k, L[k], List.getElem?_eq_getElem hk, by rw [S.dindex_eq_rank (List.getElem?_eq_getElem hk), hr]⟩

/-- `dindex` order = longlex key order -/
theorem dindex_lt_iff (S : LatticeSpec K L) {i j : Nat} {c d : LConcept} (hi : L[i]? = some c) (hj : L[j]? = some d) :
    longlexKey K.n c.extent < longlexKey K.n d.extent ↔ c.dindex < d.dindex := by
  rw [S.dindex_eq_rank hi, S.dindex_eq_rank hj, ← rank_lt_iff S.llkey_inj (S.lt_length hi) (S.lt_length hj),
    S.getD_extent hi, S.getD_extent hj]

theorem map_getD_range (E : List Nat) : (List.range E.length).map (fun i => E.getD i 0) = E := by
  apply List.ext_getElem
  · simp
  · intro i h1 h2
    simp [List.getElem?_eq_getElem h2]

/-- `c.dindex` = number of concepts strictly before `c` in longlex order -/
theorem dindex_eq_count (S : LatticeSpec K L) {k : Nat} {c : LConcept} (h : L[k]? = some c) :
    c.dindex = L.countP (fun d => decide (longlexKey K.n d.extent < longlexKey K.n c.extent)) := by
  rw [S.dindex_eq_rank h, rank_eq_count S.llkey_inj (S.lt_length h), S.getD_extent h]
  have h1 : L.countP (fun d => decide (longlexKey K.n d.extent < longlexKey K.n c.extent)) =
      (L.map (·.extent)).countP (fun e => decide (longlexKey K.n e < longlexKey K.n c.extent)) := by
    rw [List.countP_map]; rfl
  rw [h1]
  conv_rhs => rw [← map_getD_range (L.map (·.extent)), List.countP_map, List.length_map]
  rfl

/-- a proper superset comes earlier in `dindex` order -/
theorem dindex_lt_of_ssub (S : LatticeSpec K L) {i j : Nat} {c d : LConcept} (hi : L[i]? = some c) (hj : L[j]? = some d)
    (hs : c.extent ⊆ᵇ d.extent) (hne : c.extent ≠ d.extent) : d.dindex < c.dindex :=
  (S.dindex_lt_iff hj hi).mp (longlexKey_lt_of_ssub hs (S.bounded hj) hne)

end LatticeSpec

/-! ### `assemble` on the records of `lindig.lattice` -/

namespace LatSpecAux

theorem mkConcept_upper {K : Ctx} {recs : List Rec} {k : Nat} {r : Rec} (hr : recs[k]? = some r) :
    (mkConcept K recs k r).upper =
      sortBy (fun i => shortlexKey K.n ((recs.map (·.extent)).getD i 0)) (toIndexes (recs.map (·.extent)) r.upper) := by
  simp [mkConcept, hr]

theorem assemble_upperAt0 (K : Ctx) (recs : List Rec) :
    (assemble K recs).upperAt 0 =
      (recs.map fun r => sortBy (fun i => shortlexKey K.n ((recs.map (·.extent)).getD i 0))
        (toIndexes (recs.map (·.extent)) r.upper)).headD [] := by
  unfold Lattice.upperAt
  rw [assemble_get]
  cases recs with
  | nil => rfl
  | cons r0 t => simp [mkConcept]

theorem assemble_get_some {K : Ctx} {recs : List Rec} {k : Nat} {c : LConcept}
    (h : (assemble K recs)[k]? = some c) : ∃ r, recs[k]? = some r ∧ r ∈ recs ∧ c = mkConcept K recs k r := by
  rw [assemble_get] at h
  obtain ⟨r, hr, rfl⟩ := Option.map_eq_some_iff.mp h
  exact ⟨r, hr, List.mem_of_getElem? hr, rfl⟩

end LatSpecAux

theorem assemble_spec {K : Ctx} (h : K.WF) {recs : List Rec} (S : LindigSpec K recs) :
    LatticeSpec K (assemble K recs) := by
  have hnd : (recs.map (·.extent)).Nodup := nodup_of_sorted S.sorted
  have hbd : ∀ {i a}, (recs.map (·.extent))[i]? = some a → Bounded K.n a :=
    fun hi => ((S.mem _).mp (List.mem_of_getElem? hi)).1
  refine
    { wf := h
      sorted := by rw [assemble_extents]; exact S.sorted
      mem := by rw [assemble_extents]; exact S.mem
      index := ?_, intent := ?_, upper_nodup := ?_, mem_upper := ?_, upper_sorted := ?_
      lower_nodup := ?_, mem_lower := ?_, lower_sorted := ?_, objects := ?_, properties := ?_
      atoms := ?_, dindex := ?_ }
  · intro k c hc
    obtain ⟨r, hr, hrm, rfl⟩ := assemble_get_some hc
    rfl
  · intro k c hc
    obtain ⟨r, hr, hrm, rfl⟩ := assemble_get_some hc
    exact S.intent r hrm
  · intro k c hc
    obtain ⟨r, hr, hrm, rfl⟩ := assemble_get_some hc
    rw [mkConcept_upper hr]
    apply sortBy_nodup
    apply toIndexes_nodup
    rw [S.upper r hrm]
    exact (neighbors_spec h ((S.mem _).mp (List.mem_map_of_mem hrm))).1
  · intro k c hc j
    obtain ⟨r, hr, hrm, rfl⟩ := assemble_get_some hc
    have hcl : closedObj K r.extent := (S.mem _).mp (List.mem_map_of_mem hrm)
    rw [mkConcept_upper hr, mem_sortBy, mem_toIndexes hnd, assemble_extents, S.upper r hrm]
    constructor
    · rintro ⟨d, hd, hm⟩; exact ⟨d, hd, (mem_nbExt h hcl d).mp hm⟩
    · rintro ⟨d, hd, hm⟩; exact ⟨d, hd, (mem_nbExt h hcl d).mpr hm⟩
  · intro k c hc
    obtain ⟨r, hr, hrm, rfl⟩ := assemble_get_some hc
    rw [mkConcept_upper hr]
    apply sortBy_pos_strict S.sorted
    · apply toIndexes_nodup
      rw [S.upper r hrm]
      exact (neighbors_spec h ((S.mem _).mp (List.mem_map_of_mem hrm))).1
    · intro j hj; exact toIndexes_lt hj
  · intro k c hc
    obtain ⟨r, hr, hrm, rfl⟩ := assemble_get_some hc
    show (sortBy _ (toIndexes (recs.map (·.extent)) r.lower)).Nodup
    apply sortBy_nodup
    apply toIndexes_nodup
    rw [S.lower r hrm]
    exact hnd.filter _
  · intro k c hc j
    obtain ⟨r, hr, hrm, rfl⟩ := assemble_get_some hc
    show j ∈ sortBy _ (toIndexes (recs.map (·.extent)) r.lower) ↔ _
    rw [mem_sortBy, mem_toIndexes hnd, assemble_extents, S.lower r hrm]
    constructor
    · rintro ⟨d, hd, hm⟩
      rw [List.mem_filter, S.mem, decide_eq_true_eq] at hm
      exact ⟨d, hd, hm.1, (mem_nbExt h hm.1 _).mp hm.2⟩
    · rintro ⟨d, hd, hcl, hcv⟩
      refine ⟨d, hd, ?_⟩
      rw [List.mem_filter, S.mem, decide_eq_true_eq]
      exact ⟨hcl, (mem_nbExt h hcl _).mpr hcv⟩
  · intro k c hc
    obtain ⟨r, hr, hrm, rfl⟩ := assemble_get_some hc
    rw [assemble_extents]
    show (sortBy (fun i => longlexKey K.n ((recs.map (·.extent)).getD i 0))
      (toIndexes (recs.map (·.extent)) r.lower)).Pairwise _
    apply sortBy_strict
    · apply toIndexes_nodup
      rw [S.lower r hrm]
      exact hnd.filter _
    · intro a ha b hb hab
      have ha' := get_of_lt (toIndexes_lt ha)
      have hb' := get_of_lt (toIndexes_lt hb)
      have := longlexKey_inj (hbd ha') (hbd hb') hab
      rw [this] at ha'
      exact LatSpecAux.pos_inj hnd ha' hb'
  · intro k c hc
    obtain ⟨r, hr, hrm, rfl⟩ := assemble_get_some hc
    rfl
  · intro k c hc
    obtain ⟨r, hr, hrm, rfl⟩ := assemble_get_some hc
    rfl
  · intro k c hc
    obtain ⟨r, hr, hrm, rfl⟩ := assemble_get_some hc
    rw [assemble_upperAt0, assemble_extents]
    rfl
  · intro k c hc
    obtain ⟨r, hr, hrm, rfl⟩ := assemble_get_some hc
    unfold LatticeSpec.dorder
    rw [assemble_extents, assemble_length]
    rfl

/-- `Context.lattice` of a well-formed context satisfies the specification -/
theorem mkLattice_spec {K : Ctx} (h : K.WF) : LatticeSpec K (mkLattice K) :=
  assemble_spec h (lindigLattice_spec h)

end FCA
