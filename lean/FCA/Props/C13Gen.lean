import FCA.Generated.Defn
import FCA.Proofs.Defn
/-
C13 over the regenerated source: nine of the fifteen `Definition` mutators (`__setitem__`, `move_*`, `add_*`, `set_*`,
`union_update`, `intersection_update`), translated statement by statement from the current `definitions.py`, are the
corresponding cases of the model's `Defn.step` — about which `C13_*` are proved. (`rename_*`, `remove_*`, `remove_empty_*` use
comprehensions with side effects / `difference_update`; they are tied by the correspondence only.)
-/
namespace FCA

theorem C13_uIor_uniq (l xs : List Name) : uIor l (uniq xs) = uIor l xs := by
  induction xs generalizing l with
  | nil => rfl
  | cons x xs ih =>
    simp only [uniq, uIor, List.foldl_cons] at ih ⊢
    -- adding the later copies of `x` again changes nothing
    have key : ∀ (ys : List Name) (l : List Name), l.contains x = true →
        (ys.filter (· != x)).foldl uAdd l = ys.foldl uAdd l := by
      intro ys
      induction ys with
      | nil => intro l _; rfl
      | cons y ys ihy =>
        intro l hl
        by_cases hy : y = x
        · subst hy
          simp only [List.filter_cons, bne_self_eq_false, Bool.false_eq_true, if_false, List.foldl_cons]
          have : uAdd l y = l := by simp only [uAdd, hl, if_true]
          rw [this]; exact ihy l hl
        · have : (y != x) = true := by simpa using hy
          simp only [List.filter_cons, this, if_true, List.foldl_cons]
          apply ihy
          unfold uAdd; split
          · exact hl
          · simp only [List.contains_iff_mem, List.mem_append] at hl ⊢; exact Or.inl hl
    have hx : (uAdd l x).contains x = true := by
      unfold uAdd; split
      · assumption
      · simp
    rw [key (uniq xs) (uAdd l x) hx]
    exact ih (uAdd l x)

theorem C13_contains_uniq (xs : List Name) (p : Name) : (uniq xs).contains p = xs.contains p := by
  rw [Bool.eq_iff_iff]; simp [mem_uniq]

theorem C13_generated_setitem (d : Defn) (o p : Name) (v : Bool) :
    Generated.defn_setitem d.objs d.props d.pairs o p v = (d.step (.setItem o p v)).map (·.1) := by
  cases v <;> rfl

theorem C13_generated_move_object (d : Defn) (o : Name) (i : Int) :
    Generated.defn_move_object d.objs d.props d.pairs o i = (d.step (.moveObject o i)).map (·.1) := by
  simp only [Generated.defn_move_object, Defn.step]
  cases uMove d.objs o i <;> rfl

theorem C13_generated_move_property (d : Defn) (p : Name) (i : Int) :
    Generated.defn_move_property d.objs d.props d.pairs p i = (d.step (.moveProperty p i)).map (·.1) := by
  simp only [Generated.defn_move_property, Defn.step]
  cases uMove d.props p i <;> rfl

theorem C13_generated_add_object (d : Defn) (o : Name) (ps : List Name) :
    Generated.defn_add_object d.objs d.props d.pairs o ps = (d.step (.addObject o ps)).map (·.1) := rfl

theorem C13_generated_add_property (d : Defn) (p : Name) (os : List Name) :
    Generated.defn_add_property d.objs d.props d.pairs p os = (d.step (.addProperty p os)).map (·.1) := rfl

/-- `set_object` of the current source (which first wraps the argument in `tools.Unique`, the D1 repair) -/
theorem C13_generated_set_object (d : Defn) (o : Name) (ps : List Name) :
    Generated.defn_set_object d.objs d.props d.pairs o ps = (d.step (.setObject o ps)).map (·.1) := by
  simp only [Generated.defn_set_object, Defn.step, C13_uIor_uniq, C13_contains_uniq]
  rfl

theorem C13_generated_set_property (d : Defn) (p : Name) (os : List Name) :
    Generated.defn_set_property d.objs d.props d.pairs p os = (d.step (.setProperty p os)).map (·.1) := by
  simp only [Generated.defn_set_property, Defn.step, C13_uIor_uniq, C13_contains_uniq]
  rfl

theorem C13_generated_union_update (d other : Defn) (ig : Bool) :
    Generated.defn_union_update d.objs d.props d.pairs other ig = (d.step (.unionUpdate other ig)).map (·.1) := by
  simp only [Generated.defn_union_update, Defn.step]
  split <;> rfl

theorem C13_generated_intersection_update (d other : Defn) (ig : Bool) :
    Generated.defn_intersection_update d.objs d.props d.pairs other ig = (d.step (.intersectionUpdate other ig)).map (·.1) := by
  simp only [Generated.defn_intersection_update, Defn.step]
  split <;> rfl

end FCA
#print axioms FCA.C13_generated_setitem
#print axioms FCA.C13_generated_move_object
#print axioms FCA.C13_generated_move_property
#print axioms FCA.C13_generated_add_object
#print axioms FCA.C13_generated_add_property
#print axioms FCA.C13_generated_set_object
#print axioms FCA.C13_generated_set_property
#print axioms FCA.C13_generated_union_update
#print axioms FCA.C13_generated_intersection_update
