"""Source pins: a normalised AST hash of every source file a property's model mirrors. A changed pin is
not an alarm: it tells the check that the modelled code was edited, so it explores thorough-size inputs
(under a time limit) even in the quick tier. Pins are (re)written only by `python harness/pins.py --write`."""
import ast
import hashlib
import json
import os
import sys

HERE = os.path.dirname(os.path.abspath(__file__))
PINS = os.path.join(HERE, 'source_pins.json')

FILES = {
    'C01': ['matrices.py', 'contexts.py'],
    'C02': ['matrices.py', 'contexts.py', 'lattices.py'],
    'C03': ['algorithms/lindig.py', 'lattices.py', 'matrices.py', 'contexts.py'],
    'C04': ['algorithms/fcbo.py', 'algorithms/__init__.py', '_common.py', 'matrices.py'],
    'C05': ['algorithms/lindig.py', 'lattices.py', 'contexts.py', 'matrices.py'],
    'C06': ['algorithms/lindig.py', 'lattices.py'],
    'C07': ['lattices.py', 'lattice_members.py', 'matrices.py'],
    'C08': ['lattice_members.py'],
    'C09': ['algorithms/common.py', 'lattices.py', 'lattice_members.py', 'tools.py'],
    'C10': ['lattices.py', 'lattice_members.py', 'contexts.py'],
    'C11': ['contexts.py', 'lattices.py', 'matrices.py', 'formats/python_literal.py', 'formats/base.py', 'tools.py', 'lattice_members.py'],
    'C12': ['formats/table.py', 'formats/cxt.py', 'formats/csv_context.py', 'formats/python_literal.py', 'formats/fimi.py',
            'formats/wiki_table.py', 'formats/base.py', 'formats/__init__.py', 'contexts.py', '__init__.py', '_common.py', 'tools.py'],
    'C13': ['definitions.py', 'tools.py'],
    'C14': ['definitions.py', 'contexts.py', 'tools.py', '_common.py'],
    'C15': ['matrices.py', 'algorithms/lindig.py', 'algorithms/fcbo.py', 'lattices.py', 'definitions.py', 'junctors.py', 'lattice_members.py'],
    'C16': ['junctors.py', 'contexts.py'],
    'C17': ['definitions.py', 'tools.py', 'lattices.py', 'junctors.py', 'contexts.py', 'lattice_members.py', 'algorithms/common.py'],
    'C18': ['contexts.py', 'lattice_members.py'],
    'C19': ['contexts.py'],
    'C20': ['visualize.py', 'lattices.py'],
}


class _Strip(ast.NodeTransformer):
    def _body(self, node):
        self.generic_visit(node)
        b = node.body
        if b and isinstance(b[0], ast.Expr) and isinstance(getattr(b[0], 'value', None), ast.Constant) and isinstance(b[0].value.value, str):
            node.body = b[1:] or [ast.Pass()]
        return node
    visit_FunctionDef = visit_AsyncFunctionDef = visit_ClassDef = visit_Module = _body


def file_hash(path):
    try:
        tree = ast.parse(open(path).read())
    except (OSError, SyntaxError) as e:
        return 'unreadable: %s' % type(e).__name__
    tree = _Strip().visit(tree)
    return hashlib.sha1(ast.dump(tree, annotate_fields=False, include_attributes=False).encode()).hexdigest()


def current(repo):
    files = sorted({f for l in FILES.values() for f in l})
    return {f: file_hash(os.path.join(repo, 'concepts', f)) for f in files}


def changed(repo, pid):
    """Files of `pid` whose normalised AST differs from the pinned one."""
    try:
        pinned = json.load(open(PINS))['files']
    except OSError:
        return []
    cur = current(repo)
    return [f for f in FILES.get(pid, []) if pinned.get(f) != cur.get(f)]


if __name__ == '__main__':
    repo = os.environ.get('VERIF_REPO', '/repo')
    if '--write' in sys.argv:
        json.dump({'comment': 'normalised AST hashes (docstrings stripped) of the files the models mirror; written by harness/pins.py --write',
                   'files': current(repo)}, open(PINS, 'w'), indent=1, sort_keys=True)
    print({p: changed(repo, p) for p in FILES})
