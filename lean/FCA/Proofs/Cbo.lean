import FCA.Model.Fcbo
import FCA.Proofs.Bits
import FCA.Proofs.Galois
/-
Fast Close-by-One (`fcboNode`) over an abstract side: the inner loop computes exactly the
canonical children of plain Close-by-One (the `sets` pruning test never rejects a canonical
child), and the recursion emits, without duplicates, exactly the closed sets `D` with
`own ⊆ D` and `D ∩ [0, idx) ⊆ own`.
-/
namespace FCA
namespace Cbo

variable (S : Side) (der : Nat → Nat)

/-- the closure operator on the `own` side: `prime ∘ der` -/
def cl (a : Nat) : Nat := S.prime (der a)

/-- what the generic algorithm needs from a side; `der` is the derivation `own → other` -/
structure SideOK : Prop where
  ext' : ∀ a, Bounded S.width a → a ⊆ᵇ cl S der a
  mono : ∀ a b, a ⊆ᵇ b → cl S der a ⊆ᵇ cl S der b
  idem : ∀ a, cl S der (cl S der a) = cl S der a
  bdd : ∀ a, Bounded S.width (cl S der a)
  inter : ∀ B j, j < S.width → der B &&& S.col j = der (B ||| 2 ^ j)
  der_cl : ∀ a, Bounded S.width a → der (cl S der a) = der a
  empty : ∀ B, cl S der B = B → der B = 0 → ∀ j, j < S.width → j ∈ᵇ B

/-- the child of plain Close-by-One for generator `j` (no `sets` pruning) -/
def child (nd : FNode) (j : Nat) : Option (Nat × FNode) :=
  if 2 ^ j &&& nd.own ≠ 0 then none else
  let jOther := nd.other &&& S.col j
  let jOwn := S.prime jOther
  if (jOwn &&& (2 ^ j - 1)) &&& nd.own = jOwn &&& (2 ^ j - 1) then some (j, ⟨jOwn, jOther⟩) else none

/-- invariant of the `next_property_sets` list at a node with closed set `B` -/
def SetsInv (B : Nat) (sets : Array Nat) : Prop :=
  ∀ j, j < S.width → sets[j]! ⊆ᵇ cl S der (B ||| 2 ^ j)

theorem getElem!_set! (a : Array Nat) (j k v : Nat) :
    (a.set! j v)[k]! = if j = k ∧ j < a.size then v else a[k]! := by
  by_cases hjk : j = k
  · subst hjk
    by_cases hj : j < a.size
    · simp [hj]
    · simp [hj]
  · simp [hjk, Array.getElem!_eq_getD, Array.getD_eq_getD_getElem?, Array.getElem?_setIfInBounds_ne hjk]

theorem low_sub_iff {a j b : Nat} : (a &&& (2 ^ j - 1)) &&& b = a &&& (2 ^ j - 1) ↔
    ∀ i, i < j → i ∈ᵇ a → i ∈ᵇ b := by
  rw [and_eq_left_iff]
  change (∀ i, i ∈ᵇ (a &&& full j) → i ∈ᵇ b) ↔ _
  simp only [mem_and, mem_full]
  exact ⟨fun h i hij hi => h i ⟨hi, hij⟩, fun h i hi => h i hi.2 hi.1⟩

theorem pow_and_ne_zero_iff {j b : Nat} : 2 ^ j &&& b ≠ 0 ↔ j ∈ᵇ b := by
  rw [and_ne_zero_iff]
  simp

variable {S der}

theorem fcboInner_spec (ok : SideOK S der) (nd : FNode) (hother : nd.other = der nd.own) :
    ∀ (js : List Nat) (sets : Array Nat) (acc : List (Nat × FNode)),
      (∀ j ∈ js, j < S.width) → SetsInv S der nd.own sets →
      (fcboInner S nd js sets acc).1 = acc.reverse ++ js.filterMap (child S nd) ∧
      SetsInv S der nd.own (fcboInner S nd js sets acc).2 := by
  intro js
  induction js with
  | nil => intro sets acc _ hinv; simp [fcboInner, hinv]
  | cons j js ih =>
    intro sets acc hjs hinv
    have hjw : j < S.width := hjs j (by simp)
    have hjs' : ∀ k ∈ js, k < S.width := fun k hk => hjs k (by simp [hk])
    have hprime : S.prime (nd.other &&& S.col j) = cl S der (nd.own ||| 2 ^ j) := by
      rw [hother, ok.inter _ _ hjw]; rfl
    have hstep : fcboInner S nd (j :: js) sets acc =
        if 2 ^ j &&& nd.own ≠ 0 then fcboInner S nd js sets acc else
        if (sets[j]! &&& (2 ^ j - 1)) &&& nd.own = sets[j]! &&& (2 ^ j - 1) then
          if (S.prime (nd.other &&& S.col j) &&& (2 ^ j - 1)) &&& nd.own =
              S.prime (nd.other &&& S.col j) &&& (2 ^ j - 1) then
            fcboInner S nd js sets
              ((j, ⟨S.prime (nd.other &&& S.col j), nd.other &&& S.col j⟩) :: acc)
          else fcboInner S nd js (sets.set! j (S.prime (nd.other &&& S.col j))) acc
        else fcboInner S nd js sets acc := by
      rw [fcboInner]
    rw [hstep]
    by_cases h1 : 2 ^ j &&& nd.own ≠ 0
    · have hc : child S nd j = none := by rw [child, if_pos h1]
      rw [if_pos h1]
      simp only [List.filterMap_cons, hc]
      exact ih sets acc hjs' hinv
    · rw [if_neg h1]
      by_cases h3 : (S.prime (nd.other &&& S.col j) &&& (2 ^ j - 1)) &&& nd.own =
            S.prime (nd.other &&& S.col j) &&& (2 ^ j - 1)
      · have hc : child S nd j =
            some (j, ⟨S.prime (nd.other &&& S.col j), nd.other &&& S.col j⟩) := by
          rw [child, if_neg h1]; simp only [h3, if_true]
        have h2 : (sets[j]! &&& (2 ^ j - 1)) &&& nd.own = sets[j]! &&& (2 ^ j - 1) := by
          rw [low_sub_iff] at h3 ⊢
          intro i hij hi
          exact h3 i hij (by rw [hprime]; exact hinv j hjw i hi)
        simp only [h2, h3, if_true, List.filterMap_cons, hc]
        obtain ⟨e1, e2⟩ := ih sets
          ((j, ⟨S.prime (nd.other &&& S.col j), nd.other &&& S.col j⟩) :: acc) hjs' hinv
        refine ⟨?_, e2⟩
        rw [e1]; simp
      · have hc : child S nd j = none := by
          rw [child, if_neg h1]; simp only [h3, if_false]
        simp only [h3, if_false, List.filterMap_cons, hc]
        by_cases h2 : (sets[j]! &&& (2 ^ j - 1)) &&& nd.own = sets[j]! &&& (2 ^ j - 1)
        · simp only [h2, if_true]
          refine ih _ acc hjs' ?_
          intro k hk
          rw [getElem!_set!]
          split
          · rename_i hjk; rw [← hjk.1, hprime]; exact sub_refl _
          · exact hinv k hk
        · simp only [h2, if_false]
          exact ih sets acc hjs' hinv

/-- canonicity of generator `j` over the closed set `B` -/
def Canon (S : Side) (der : Nat → Nat) (B j : Nat) : Prop :=
  ∀ i, i < j → i ∈ᵇ cl S der (B ||| 2 ^ j) → i ∈ᵇ B

theorem bounded_or_pow {w B j : Nat} (hB : Bounded w B) (hj : j < w) : Bounded w (B ||| 2 ^ j) := by
  intro i hi
  rcases mem_or.mp hi with h | h
  · exact hB i h
  · rw [mem_pow.mp h]; exact hj

theorem child_cases (ok : SideOK S der) (nd : FNode) (hother : nd.other = der nd.own)
    (hcl : cl S der nd.own = nd.own) (j : Nat) (hj : j < S.width) :
    (child S nd j = none ∧ (j ∈ᵇ nd.own ∨ ¬ Canon S der nd.own j)) ∨
    (child S nd j = some (j, ⟨cl S der (nd.own ||| 2 ^ j), der (cl S der (nd.own ||| 2 ^ j))⟩) ∧
      ¬ j ∈ᵇ nd.own ∧ Canon S der nd.own j) := by
  have hB : Bounded S.width nd.own := by rw [← hcl]; exact ok.bdd _
  have hprime : S.prime (nd.other &&& S.col j) = cl S der (nd.own ||| 2 ^ j) := by
    rw [hother, ok.inter _ _ hj]; rfl
  have hoth : nd.other &&& S.col j = der (cl S der (nd.own ||| 2 ^ j)) := by
    rw [hother, ok.inter _ _ hj, ok.der_cl _ (bounded_or_pow hB hj)]
  by_cases h1 : 2 ^ j &&& nd.own ≠ 0
  · left
    exact ⟨by rw [child, if_pos h1], Or.inl (pow_and_ne_zero_iff.mp h1)⟩
  · have hjB : ¬ j ∈ᵇ nd.own := fun h => h1 (pow_and_ne_zero_iff.mpr h)
    by_cases h3 : (S.prime (nd.other &&& S.col j) &&& (2 ^ j - 1)) &&& nd.own =
          S.prime (nd.other &&& S.col j) &&& (2 ^ j - 1)
    · right
      refine ⟨?_, hjB, ?_⟩
      · rw [child, if_neg h1]; simp only [h3, if_true]
        rw [hprime, hoth]
      · rw [low_sub_iff, hprime] at h3; exact h3
    · left
      refine ⟨?_, Or.inr ?_⟩
      · rw [child, if_neg h1]; simp only [h3, if_false]
      · rw [low_sub_iff, hprime] at h3; exact h3

theorem flatMap_filterMap' {α β γ : Type} (f : α → Option β) (g : β → List γ) (l : List α) :
    (l.filterMap f).flatMap g = l.flatMap (fun a => match f a with | none => [] | some b => g b) := by
  induction l with
  | nil => rfl
  | cons a l ih =>
    rw [List.filterMap_cons, List.flatMap_cons]
    cases h : f a with
    | none => simp only [ih]; rfl
    | some b => simp only [List.flatMap_cons, ih]

/-- one recursion step, with the inner loop replaced by the plain Close-by-One children -/
theorem fcboNode_succ (ok : SideOK S der) (nd : FNode) (hother : nd.other = der nd.own)
    (hcl : cl S der nd.own = nd.own) (fuel idx : Nat) (sets : Array Nat)
    (hinv : SetsInv S der nd.own sets) :
    ∃ sets', SetsInv S der nd.own sets' ∧
      fcboNode S (fuel + 1) nd idx sets = nd :: (List.range' idx (S.width - idx)).flatMap
        (fun j => match child S nd j with
          | none => []
          | some p => fcboNode S fuel p.2 (p.1 + 1) sets') := by
  have hrange : ∀ j ∈ (List.range' idx (S.width - idx)).reverse, j < S.width := by
    intro j hj
    rw [List.mem_reverse, List.mem_range'_1] at hj; omega
  obtain ⟨e1, e2⟩ := fcboInner_spec ok nd hother _ sets [] hrange hinv
  rcases h : fcboInner S nd (List.range' idx (S.width - idx)).reverse sets [] with ⟨children, sets'⟩
  rw [h] at e1 e2
  simp only at e1 e2
  refine ⟨sets', e2, ?_⟩
  rw [fcboNode]
  simp only [h]
  congr 1
  by_cases hcut : idx = S.width ∨ nd.other = 0
  · rw [if_pos hcut]
    symm
    rw [List.flatMap_eq_nil_iff]
    intro j hj
    rw [List.mem_range'_1] at hj
    rcases hcut with hw | h0
    · omega
    · have hjw : j < S.width := by omega
      have : j ∈ᵇ nd.own := ok.empty _ hcl (by rw [← hother]; exact h0) j hjw
      rcases child_cases ok nd hother hcl j hjw with ⟨hc, _⟩ | ⟨_, hn, _⟩
      · rw [hc]
      · exact absurd this hn
  · rw [if_neg hcut, e1]
    simp only [List.reverse_nil, List.nil_append, List.filterMap_reverse, List.reverse_reverse]
    rw [flatMap_filterMap']
    congr 1; funext j
    cases child S nd j with
    | none => rfl
    | some p => rfl

/-- the closed sets generated below node `(B, y)` -/
def Sset (S : Side) (der : Nat → Nat) (B y D : Nat) : Prop :=
  cl S der D = D ∧ B ⊆ᵇ D ∧ ∀ i, i < y → i ∈ᵇ D → i ∈ᵇ B

theorem Sset_top (ok : SideOK S der) {B y D : Nat} (hB : cl S der B = B) (hy : S.width ≤ y) :
    Sset S der B y D ↔ D = B := by
  constructor
  · rintro ⟨hD, hsub, hlow⟩
    have hDb : Bounded S.width D := by rw [← hD]; exact ok.bdd _
    exact sub_antisymm (fun i hi => hlow i (lt_of_lt_of_le (hDb i hi) hy) hi) hsub
  · rintro rfl
    exact ⟨hB, sub_refl _, fun _ _ h => h⟩

theorem setsInv_mono (ok : SideOK S der) {B D : Nat} {sets : Array Nat} (hBD : B ⊆ᵇ D)
    (h : SetsInv S der B sets) : SetsInv S der D sets := by
  intro j hj
  refine sub_trans (h j hj) (ok.mono _ _ ?_)
  intro i hi
  rcases mem_or.mp hi with h | h
  · exact mem_or.mpr (Or.inl (hBD i h))
  · exact mem_or.mpr (Or.inr h)

theorem fcboNode_spec (ok : SideOK S der) : ∀ (fuel : Nat) (nd : FNode) (idx : Nat) (sets : Array Nat),
    S.width - idx ≤ fuel → cl S der nd.own = nd.own → nd.other = der nd.own →
    SetsInv S der nd.own sets →
    ((fcboNode S fuel nd idx sets).map (·.own)).Nodup ∧
    (∀ x ∈ fcboNode S fuel nd idx sets, x.other = der x.own) ∧
    ∀ D, D ∈ (fcboNode S fuel nd idx sets).map (·.own) ↔ Sset S der nd.own idx D := by
  intro fuel
  induction fuel with
  | zero =>
    intro nd y sets hf hB hoth _
    have hy : S.width ≤ y := by omega
    refine ⟨by simp [fcboNode], ?_, fun D => ?_⟩
    · intro x hx; simp only [fcboNode, List.mem_singleton] at hx; rw [hx]; exact hoth
    · rw [Sset_top ok hB hy]; simp [fcboNode]
  | succ fuel ih =>
    intro nd y sets hf hB hoth hinv
    obtain ⟨sets', hinv', hnode⟩ := fcboNode_succ ok nd hoth hB fuel y sets hinv
    have hBb : Bounded S.width nd.own := by rw [← hB]; exact ok.bdd _
    -- the children, as lists of nodes
    set childL : Nat → List FNode := fun j => match child S nd j with
      | none => []
      | some p => fcboNode S fuel p.2 (p.1 + 1) sets' with hchildL
    set Dj : Nat → Nat := fun j => cl S der (nd.own ||| 2 ^ j) with hDj
    have hsubD : ∀ j, j < S.width → nd.own ⊆ᵇ Dj j := fun j hj i hi =>
      ok.ext' _ (bounded_or_pow hBb hj) i (mem_or.mpr (Or.inl hi))
    have hjD : ∀ j, j < S.width → j ∈ᵇ Dj j := fun j hj =>
      ok.ext' _ (bounded_or_pow hBb hj) j (mem_or.mpr (Or.inr (mem_pow.mpr rfl)))
    have hchild : ∀ j, j < S.width →
        (childL j = [] ∧ (j ∈ᵇ nd.own ∨ ¬ Canon S der nd.own j)) ∨
        (childL j = fcboNode S fuel ⟨Dj j, der (Dj j)⟩ (j + 1) sets' ∧
          ¬ j ∈ᵇ nd.own ∧ Canon S der nd.own j) := by
      intro j hj
      rcases child_cases ok nd hoth hB j hj with ⟨hc, h⟩ | ⟨hc, h⟩
      · left; exact ⟨by simp only [hchildL, hc], h⟩
      · right; exact ⟨by simp only [hchildL, hc, hDj], h⟩
    have hih : ∀ j, y ≤ j → j < S.width →
        ((fcboNode S fuel ⟨Dj j, der (Dj j)⟩ (j + 1) sets').map (·.own)).Nodup ∧
        (∀ x ∈ fcboNode S fuel ⟨Dj j, der (Dj j)⟩ (j + 1) sets', x.other = der x.own) ∧
        ∀ D, D ∈ (fcboNode S fuel ⟨Dj j, der (Dj j)⟩ (j + 1) sets').map (·.own) ↔
          Sset S der (Dj j) (j + 1) D := by
      intro j hyj hj
      exact ih ⟨Dj j, der (Dj j)⟩ (j + 1) sets' (by omega) (ok.idem _) rfl
        (setsInv_mono ok (hsubD j hj) hinv')
    have child_mem : ∀ j, y ≤ j → j < S.width → ∀ D, D ∈ (childL j).map (·.own) ↔
        (¬ j ∈ᵇ nd.own ∧ Canon S der nd.own j ∧ Sset S der (Dj j) (j + 1) D) := by
      intro j hyj hj D
      rcases hchild j hj with ⟨hc, h⟩ | ⟨hc, h1, h2⟩
      · rw [hc]
        simp only [List.map_nil, List.not_mem_nil, false_iff]
        rintro ⟨h1, h2, _⟩
        rcases h with h | h
        · exact h1 h
        · exact h h2
      · rw [hc, (hih j hyj hj).2.2 D]
        exact ⟨fun h => ⟨h1, h2, h⟩, fun h => h.2.2⟩
    have child_nodup : ∀ j, y ≤ j → j < S.width → ((childL j).map (·.own)).Nodup := by
      intro j hyj hj
      rcases hchild j hj with ⟨hc, _⟩ | ⟨hc, _, _⟩
      · rw [hc]; exact List.nodup_nil
      · rw [hc]; exact (hih j hyj hj).1
    have child_other : ∀ j, y ≤ j → j < S.width → ∀ x ∈ childL j, x.other = der x.own := by
      intro j hyj hj x hx
      rcases hchild j hj with ⟨hc, _⟩ | ⟨hc, _, _⟩
      · rw [hc] at hx; exact absurd hx List.not_mem_nil
      · rw [hc] at hx; exact (hih j hyj hj).2.1 x hx
    have range_mem : ∀ j, j ∈ List.range' y (S.width - y) ↔ y ≤ j ∧ j < S.width := by
      intro j; rw [List.mem_range'_1]; omega
    have child_has_j : ∀ j, y ≤ j → j < S.width → ∀ D, D ∈ (childL j).map (·.own) →
        j ∈ᵇ D ∧ ¬ j ∈ᵇ nd.own := by
      intro j hyj hjm D hD
      obtain ⟨hjB, _, _, hsub, _⟩ := (child_mem j hyj hjm D).mp hD
      exact ⟨hsub j (hjD j hjm), hjB⟩
    have hmap : (fcboNode S (fuel + 1) nd y sets).map (·.own) =
        nd.own :: (List.range' y (S.width - y)).flatMap (fun j => (childL j).map (·.own)) := by
      rw [hnode, List.map_cons, List.map_flatMap]
    refine ⟨?_, ?_, ?_⟩
    · -- Nodup
      rw [hmap, List.nodup_cons]
      constructor
      · intro hmem
        obtain ⟨j, hj, hBj⟩ := List.mem_flatMap.mp hmem
        obtain ⟨hyj, hjm⟩ := (range_mem j).mp hj
        obtain ⟨h1, h2⟩ := child_has_j j hyj hjm _ hBj
        exact h2 h1
      · rw [List.nodup_flatMap]
        refine ⟨fun j hj => child_nodup j ((range_mem j).mp hj).1 ((range_mem j).mp hj).2, ?_⟩
        have hpw : (List.range' y (S.width - y)).Pairwise (· < ·) := List.pairwise_lt_range'
        have hpw2 : (List.range' y (S.width - y)).Pairwise
            (fun a b => a < b ∧ a ∈ List.range' y (S.width - y) ∧
              b ∈ List.range' y (S.width - y)) := by
          rw [List.pairwise_iff_forall_sublist] at hpw ⊢
          intro a b hab
          exact ⟨hpw hab, (hab.subset (by simp)), (hab.subset (by simp))⟩
        refine hpw2.imp ?_
        rintro j j' ⟨hlt, hj, hj'⟩
        obtain ⟨hyj, hjm⟩ := (range_mem j).mp hj
        obtain ⟨hyj', hjm'⟩ := (range_mem j').mp hj'
        intro D hDj hDj'
        obtain ⟨hjD', hjB⟩ := child_has_j j hyj hjm D hDj
        obtain ⟨_, hc', _, _, hlow'⟩ := (child_mem j' hyj' hjm' D).mp hDj'
        have : j ∈ᵇ Dj j' := hlow' j (by omega) hjD'
        exact hjB (hc' j hlt this)
    · -- other = der own
      intro x hx
      rw [hnode, List.mem_cons, List.mem_flatMap] at hx
      rcases hx with rfl | ⟨j, hj, hx⟩
      · exact hoth
      · exact child_other j ((range_mem j).mp hj).1 ((range_mem j).mp hj).2 x hx
    · -- membership
      intro D
      rw [hmap, List.mem_cons, List.mem_flatMap]
      constructor
      · rintro (rfl | ⟨j, hj, hDj⟩)
        · exact ⟨hB, sub_refl _, fun _ _ h => h⟩
        · obtain ⟨hyj, hjm⟩ := (range_mem j).mp hj
          obtain ⟨_, hc, hcl, hsub, hlow⟩ := (child_mem j hyj hjm D).mp hDj
          refine ⟨hcl, ?_, ?_⟩
          · exact sub_trans (hsubD j hjm) hsub
          · intro i hiy hiD
            have hi1 : i ∈ᵇ Dj j := hlow i (by omega) hiD
            exact hc i (by omega) hi1
      · rintro ⟨hcl, hsub, hlow⟩
        have hb : Bounded S.width D := by rw [← hcl]; exact ok.bdd _
        by_cases hDB : D = nd.own
        · exact Or.inl hDB
        · right
          have hex : ∃ i, i ∈ᵇ D ∧ ¬ i ∈ᵇ nd.own := by
            by_contra hne
            push Not at hne
            exact hDB (sub_antisymm hne hsub)
          classical
          let j := Nat.find hex
          have hj : j ∈ᵇ D ∧ ¬ j ∈ᵇ nd.own := Nat.find_spec hex
          have hjmin : ∀ i, i < j → i ∈ᵇ D → i ∈ᵇ nd.own := by
            intro i hij hiD
            by_contra hiB
            exact Nat.find_min hex hij ⟨hiD, hiB⟩
          have hyj : y ≤ j := by
            by_contra hlt
            exact hj.2 (hlow j (by omega) hj.1)
          have hjm : j < S.width := hb j hj.1
          have hD1sub : Dj j ⊆ᵇ D := by
            have : (nd.own ||| 2 ^ j) ⊆ᵇ D := by
              intro i hi
              rcases mem_or.mp hi with h | h
              · exact hsub i h
              · rw [mem_pow.mp h]; exact hj.1
            have := ok.mono _ _ this
            rwa [hcl] at this
          refine ⟨j, (range_mem j).mpr ⟨hyj, hjm⟩,
            (child_mem j hyj hjm D).mpr ⟨hj.2, ?_, hcl, hD1sub, ?_⟩⟩
          · exact fun i hij hi1 => hjmin i hij (hD1sub i hi1)
          · intro i hij hiD
            by_cases hieq : i = j
            · rw [hieq]; exact hjD j hjm
            · exact hsubD j hjm i (hjmin i (by omega) hiD)

end Cbo
end FCA
