#!/usr/bin/env python3
"""Copy the verified round-3 candidates (detected in .work/round7.log) to seeded/Cxx-r3mK."""
import json, os, re, shutil
log = open('/verif/.work/round7.log').read().splitlines()
for line in log:
    m = re.match(r'(C\d\d) (C\d\d)/(m\d): demo clean=(\d+) mutated=(\d+) suite=\[(.*?)\] check=\[(.*)\]', line)
    if not m:
        print('??', line[:100]); continue
    pid, _, k, clean, mut, suite, check = m.groups()
    ok = clean == '0' and mut != '0' and suite.startswith('301 passed') and 'VIOLATION' in check
    src = '/tmp/mut/out7/%s/%s' % (pid, k)
    dst = '/verif/seeded/%s-r7%s' % (pid, k)
    if not ok:
        print('NOT STORED', line[:160]); continue
    os.makedirs(dst, exist_ok=True)
    shutil.copy(src + '/patch.diff', dst + '/patch.diff')
    shutil.copy(src + '/demo.py', dst + '/demo.py')
    meta = json.load(open(src + '/meta.json'))
    meta['verified'] = {'ran': 'dev/try2.sh <mutant dir> %s in a private scratch worktree: clean tree demo exit 0; patch applied: pytest %s, '
                               'demo exit %s; VERIF_REPO=<worktree> ./check %s --tier quick -> %s' % (pid, suite, mut, pid, check.strip())}
    json.dump(meta, open(dst + '/meta.json', 'w'), indent=1)
    print('stored', dst)
