import FCA.Proofs.Bits
import Mathlib.Data.Finset.Card
/-
`membersW`, `card`, `ofMembers`, `reinv` and the shortlex / longlex keys.
-/
namespace FCA

theorem mem_membersAux (w off s x : Nat) :
    x ∈ membersAux w off s ↔ ∃ k, k < w ∧ x = off + k ∧ k ∈ᵇ s := by
  induction w generalizing off s with
  | zero => simp [membersAux]
  | succ w ih =>
    unfold membersAux
    have hbit : (s % 2 = 1) ↔ 0 ∈ᵇ s := by simp [mem, Nat.testBit_zero]
    have hshift : ∀ k, k ∈ᵇ (s / 2) ↔ (k + 1) ∈ᵇ s := by
      intro k; simp [mem, Nat.testBit_succ]
    split
    · rename_i h
      simp only [List.mem_cons, ih]
      constructor
      · rintro (rfl | ⟨k, hk, rfl, hm⟩)
        · exact ⟨0, by omega, by omega, hbit.mp h⟩
        · exact ⟨k + 1, by omega, by omega, (hshift k).mp hm⟩
      · rintro ⟨k, hk, rfl, hm⟩
        cases k with
        | zero => left; rfl
        | succ k => right; exact ⟨k, by omega, by omega, (hshift k).mpr hm⟩
    · rename_i h
      simp only [ih]
      constructor
      · rintro ⟨k, hk, rfl, hm⟩
        exact ⟨k + 1, by omega, by omega, (hshift k).mp hm⟩
      · rintro ⟨k, hk, rfl, hm⟩
        cases k with
        | zero => exact absurd (hbit.mpr hm) h
        | succ k => exact ⟨k, by omega, by omega, (hshift k).mpr hm⟩

theorem membersAux_lb (w off s x : Nat) (h : x ∈ membersAux w off s) : off ≤ x := by
  obtain ⟨k, _, rfl, _⟩ := (mem_membersAux w off s x).mp h; omega

theorem membersAux_sorted (w off s : Nat) : (membersAux w off s).Pairwise (· < ·) := by
  induction w generalizing off s with
  | zero => simp [membersAux]
  | succ w ih =>
    unfold membersAux
    split
    · refine List.Pairwise.cons ?_ (ih _ _)
      intro x hx
      have := membersAux_lb _ _ _ _ hx
      omega
    · exact ih _ _

/-- `members()` lists exactly the members below the width … -/
theorem mem_membersW {w s x : Nat} : x ∈ membersW w s ↔ x < w ∧ x ∈ᵇ s := by
  unfold membersW
  rw [mem_membersAux]
  constructor
  · rintro ⟨k, hk, rfl, hm⟩; simp only [Nat.zero_add]; exact ⟨hk, hm⟩
  · rintro ⟨h1, h2⟩; exact ⟨x, h1, by omega, h2⟩

/-- … once each, in ascending (context) order -/
theorem membersW_sorted (w s : Nat) : (membersW w s).Pairwise (· < ·) := membersAux_sorted w 0 s

theorem membersW_nodup (w s : Nat) : (membersW w s).Nodup :=
  (membersW_sorted w s).imp (fun h => Nat.ne_of_lt h)

theorem mem_foldl_or_pow (l : List Nat) (init i : Nat) :
    i ∈ᵇ l.foldl (fun a k => a ||| 2 ^ k) init ↔ i ∈ᵇ init ∨ i ∈ l := by
  induction l generalizing init with
  | nil => simp
  | cons a l ih =>
    simp only [List.foldl_cons, ih, mem_or, mem_pow, List.mem_cons]
    tauto

/-- `frommembers`: the mask of the *set* of given indexes -/
theorem mem_ofMembers {l : List Nat} {i : Nat} : i ∈ᵇ ofMembers l ↔ i ∈ l := by
  unfold ofMembers; rw [mem_foldl_or_pow]; simp

theorem ofMembers_membersW {w s : Nat} (h : Bounded w s) : ofMembers (membersW w s) = s := by
  apply ext; intro i
  rw [mem_ofMembers, mem_membersW]
  exact ⟨fun h' => h'.2, fun h' => ⟨h i h', h'⟩⟩

/-- cardinality as a `Finset` card -/
theorem card_eq (w s : Nat) : card w s = ((Finset.range w).filter (fun i => i ∈ᵇ s)).card := by
  unfold card
  rw [← List.toFinset_card_of_nodup (membersW_nodup w s)]
  congr 1
  ext x
  simp [mem_membersW]

theorem card_le_of_sub {w a b : Nat} (h : a ⊆ᵇ b) : card w a ≤ card w b := by
  rw [card_eq, card_eq]
  apply Finset.card_le_card
  intro x hx
  simp only [Finset.mem_filter] at hx ⊢
  exact ⟨hx.1, h x hx.2⟩

theorem card_lt_of_ssub {w a b : Nat} (h : a ⊆ᵇ b) (hb : Bounded w b) (hne : a ≠ b) : card w a < card w b := by
  rw [card_eq, card_eq]
  apply Finset.card_lt_card
  rw [Finset.ssubset_iff_of_subset]
  · have : ∃ i, i ∈ᵇ b ∧ ¬ i ∈ᵇ a := by
      by_contra hcon
      push Not at hcon
      exact hne (sub_antisymm h hcon)
    obtain ⟨i, hib, hia⟩ := this
    exact ⟨i, by simp [hb i hib, hib], by simp [hia]⟩
  · intro x hx
    simp only [Finset.mem_filter] at hx ⊢
    exact ⟨hx.1, h x hx.2⟩

theorem card_le_width (w s : Nat) : card w s ≤ w := by
  rw [card_eq]
  calc _ ≤ (Finset.range w).card := Finset.card_filter_le _ _
    _ = w := Finset.card_range w

theorem mem_foldl_reinv (w s : Nat) (l : List Nat) (init x : Nat) :
    x ∈ᵇ l.foldl (fun acc i => if s.testBit i then acc else acc ||| 2 ^ (w - 1 - i)) init ↔
      x ∈ᵇ init ∨ ∃ i ∈ l, ¬ i ∈ᵇ s ∧ x = w - 1 - i := by
  induction l generalizing init with
  | nil => simp
  | cons a l ih =>
    simp only [List.foldl_cons, ih, List.mem_cons]
    by_cases ha : s.testBit a = true
    · rw [if_pos ha]
      constructor
      · rintro (h | ⟨i, hi, h1, h2⟩)
        · exact Or.inl h
        · exact Or.inr ⟨i, Or.inr hi, h1, h2⟩
      · rintro (h | ⟨i, rfl | hi, h1, h2⟩)
        · exact Or.inl h
        · exact absurd ha h1
        · exact Or.inr ⟨i, hi, h1, h2⟩
    · rw [if_neg ha]
      simp only [mem_or, mem_pow]
      constructor
      · rintro ((h | rfl) | ⟨i, hi, h1, h2⟩)
        · exact Or.inl h
        · exact Or.inr ⟨a, Or.inl rfl, ha, rfl⟩
        · exact Or.inr ⟨i, Or.inr hi, h1, h2⟩
      · rintro (h | ⟨i, rfl | hi, h1, h2⟩)
        · exact Or.inl (Or.inl h)
        · exact Or.inl (Or.inr h2)
        · exact Or.inr ⟨i, hi, h1, h2⟩

/-- `reinverted`: bit `w-1-i` is set iff `i < w` is not a member -/
theorem mem_reinv {w s x : Nat} : x ∈ᵇ reinv w s ↔ x < w ∧ ¬ (w - 1 - x) ∈ᵇ s := by
  unfold reinv
  rw [mem_foldl_reinv]
  simp only [not_mem_zero, false_or, List.mem_range]
  constructor
  · rintro ⟨i, hi, h1, rfl⟩
    refine ⟨by omega, ?_⟩
    rwa [show w - 1 - (w - 1 - i) = i by omega]
  · rintro ⟨h1, h2⟩
    exact ⟨w - 1 - x, by omega, h2, by omega⟩

theorem reinv_lt (w s : Nat) : reinv w s < 2 ^ w :=
  bounded_iff_lt.mp (fun _ hx => (mem_reinv.mp hx).1)

theorem reinv_inj {w a b : Nat} (ha : Bounded w a) (hb : Bounded w b) (h : reinv w a = reinv w b) : a = b := by
  apply ext; intro i
  by_cases hi : i < w
  · have h1 := @mem_reinv w a (w - 1 - i)
    have h2 := @mem_reinv w b (w - 1 - i)
    rw [h] at h1
    rw [show w - 1 - (w - 1 - i) = i by omega] at h1 h2
    have : (¬ i ∈ᵇ a) ↔ (¬ i ∈ᵇ b) := by
      constructor
      · intro hna
        exact (h2.mp (h1.mpr ⟨by omega, hna⟩)).2
      · intro hnb
        exact (h1.mp (h2.mpr ⟨by omega, hnb⟩)).2
    tauto
  · constructor
    · intro h'; exact absurd (ha i h') hi
    · intro h'; exact absurd (hb i h') hi

theorem shortlexKey_lt_of_card_lt {w a b : Nat} (h : card w a < card w b) : shortlexKey w a < shortlexKey w b := by
  unfold shortlexKey
  have h1 := reinv_lt w a
  calc card w a * 2 ^ w + reinv w a < card w a * 2 ^ w + 2 ^ w := by omega
    _ = (card w a + 1) * 2 ^ w := by ring
    _ ≤ card w b * 2 ^ w := Nat.mul_le_mul_right _ h
    _ ≤ card w b * 2 ^ w + reinv w b := Nat.le_add_right _ _

theorem key_decompose {w c c' r r' : Nat} (hr : r < 2 ^ w) (hr' : r' < 2 ^ w)
    (h : c * 2 ^ w + r = c' * 2 ^ w + r') : c = c' ∧ r = r' := by
  have hpos : 0 < 2 ^ w := Nat.two_pow_pos w
  have h1 : (c * 2 ^ w + r) / 2 ^ w = c := by
    rw [Nat.add_comm, Nat.add_mul_div_right _ _ hpos, Nat.div_eq_of_lt hr]; simp
  have h2 : (c' * 2 ^ w + r') / 2 ^ w = c' := by
    rw [Nat.add_comm, Nat.add_mul_div_right _ _ hpos, Nat.div_eq_of_lt hr']; simp
  have hc : c = c' := by rw [← h1, ← h2, h]
  subst hc
  exact ⟨rfl, by omega⟩

theorem shortlexKey_inj {w a b : Nat} (ha : Bounded w a) (hb : Bounded w b)
    (h : shortlexKey w a = shortlexKey w b) : a = b :=
  reinv_inj ha hb (key_decompose (reinv_lt w a) (reinv_lt w b) h).2

theorem longlexKey_lt_of_card_gt {w a b : Nat} (h : card w b < card w a) : longlexKey w a < longlexKey w b := by
  unfold longlexKey
  have h1 := reinv_lt w a
  have ha := card_le_width w a
  have hb := card_le_width w b
  have : w - card w a + 1 ≤ w - card w b := by omega
  calc (w - card w a) * 2 ^ w + reinv w a < (w - card w a) * 2 ^ w + 2 ^ w := by omega
    _ = (w - card w a + 1) * 2 ^ w := by ring
    _ ≤ (w - card w b) * 2 ^ w := Nat.mul_le_mul_right _ this
    _ ≤ (w - card w b) * 2 ^ w + reinv w b := Nat.le_add_right _ _

theorem longlexKey_inj {w a b : Nat} (ha : Bounded w a) (hb : Bounded w b)
    (h : longlexKey w a = longlexKey w b) : a = b :=
  reinv_inj ha hb (key_decompose (reinv_lt w a) (reinv_lt w b) h).2

/-- a proper superset comes later in shortlex order and earlier in longlex order -/
theorem shortlexKey_lt_of_ssub {w a b : Nat} (h : a ⊆ᵇ b) (hb : Bounded w b) (hne : a ≠ b) :
    shortlexKey w a < shortlexKey w b := shortlexKey_lt_of_card_lt (card_lt_of_ssub h hb hne)

theorem longlexKey_lt_of_ssub {w a b : Nat} (h : a ⊆ᵇ b) (hb : Bounded w b) (hne : a ≠ b) :
    longlexKey w b < longlexKey w a := longlexKey_lt_of_card_gt (card_lt_of_ssub h hb hne)

end FCA
