import FCA.Model.PyLiteral
import Mathlib.Tactic
/-
`repr` of a `str` (`pyReprStr`, CPython's `unicode_repr`) is read back by the string-literal reader
`parseStrLit` for every string and every printability table; decimal ints likewise.
-/
namespace FCA

/-! ### hex escapes -/

theorem litHexVal_hexDigit {d : Nat} (h : d < 16) : litHexVal (litHexDigit d) = some d := by
  interval_cases d <;> rfl

/-- the end of a hex escape -/
def litEmit (o : Option Char) (x : Option (Str × Str)) : Option (Str × Str) :=
  match o with
  | none => none
  | some ch => litConsFst ch x

theorem litStrBody_hex (q : Char) (k acc n : Nat) (r : Str) :
    litStrBody q (.hex k acc) (litHex (k + 1) n ++ r) =
      litEmit (litChar? (acc * 16 ^ (k + 1) + n % 16 ^ (k + 1))) (litStrBody q .normal r) := by
  induction k generalizing acc with
  | zero =>
    simp only [litHex, List.cons_append, List.nil_append, litStrBody,
      litHexVal_hexDigit (Nat.mod_lt _ (by norm_num : 16 > 0))]
    have : 16 * acc + n / 16 ^ 0 % 16 = acc * 16 ^ (0 + 1) + n % 16 ^ (0 + 1) := by
      simp; ring
    rw [this]
    cases litChar? (acc * 16 ^ (0 + 1) + n % 16 ^ (0 + 1)) <;> rfl
  | succ k ih =>
    rw [litHex, List.cons_append, litStrBody]
    simp only [litHexVal_hexDigit (Nat.mod_lt _ (by norm_num : 16 > 0))]
    rw [ih]
    have : (16 * acc + n / 16 ^ (k + 1) % 16) * 16 ^ (k + 1) + n % 16 ^ (k + 1) =
        acc * 16 ^ (k + 1 + 1) + n % 16 ^ (k + 1 + 1) := by
      rw [Nat.mod_pow_succ (b := 16) (k := k + 1)]
      ring
    rw [this]

theorem litChar?_toNat (c : Char) : litChar? c.toNat = some c := by
  simp [litChar?, Char.ofNat_toNat]

theorem litStrBody_hex_char (q : Char) (k : Nat) (c : Char) (r : Str) (h : c.toNat < 16 ^ (k + 1)) :
    litStrBody q (.hex k 0) (litHex (k + 1) c.toNat ++ r) = litConsFst c (litStrBody q .normal r) := by
  rw [litStrBody_hex, Nat.zero_mul, Nat.zero_add, Nat.mod_eq_of_lt h, litChar?_toNat]
  rfl

/-! ### one code point -/

theorem litStrBody_bs (q : Char) (hq : q = '\'' ∨ q = '"') (r : Str) :
    litStrBody q .normal ('\\' :: r) = litStrBody q .esc r := by
  rcases hq with rfl | rfl <;> simp [litStrBody]

theorem litStrBody_plain (q c : Char) (r : Str) (h1 : c ≠ q) (h2 : c ≠ '\\') (h3 : c ≠ '\n')
    (h4 : c ≠ '\r') :
    litStrBody q .normal (c :: r) = litConsFst c (litStrBody q .normal r) := by
  simp [litStrBody, h1, h2, h3, h4]

theorem litStrBody_esc_x (q : Char) (hq : q = '\'' ∨ q = '"') (r : Str) :
    litStrBody q .normal ('\\' :: 'x' :: r) = litStrBody q (.hex 1 0) r := by
  rw [litStrBody_bs q hq]; simp [litStrBody]

theorem litStrBody_esc_u (q : Char) (hq : q = '\'' ∨ q = '"') (r : Str) :
    litStrBody q .normal ('\\' :: 'u' :: r) = litStrBody q (.hex 3 0) r := by
  rw [litStrBody_bs q hq]; simp [litStrBody]

theorem litStrBody_esc_U (q : Char) (hq : q = '\'' ∨ q = '"') (r : Str) :
    litStrBody q .normal ('\\' :: 'U' :: r) = litStrBody q (.hex 7 0) r := by
  rw [litStrBody_bs q hq]; simp [litStrBody]

theorem litStrBody_escChar (printable : Nat → Bool) (q : Char) (hq : q = '\'' ∨ q = '"') (c : Char)
    (r : Str) :
    litStrBody q .normal (pyEscChar printable q c ++ r) = litConsFst c (litStrBody q .normal r) := by
  unfold pyEscChar
  by_cases h1 : (c == q || c == '\\') = true
  · rw [if_pos h1, List.cons_append, litStrBody_bs q hq]
    have : (c == '\'' || c == '"' || c == '\\') = true := by
      simp only [Bool.or_eq_true, beq_iff_eq] at h1 ⊢
      rcases h1 with h | h
      · rcases hq with rfl | rfl
        · exact Or.inl (Or.inl h)
        · exact Or.inl (Or.inr h)
      · exact Or.inr h
    simp only [List.cons_append, List.nil_append, litStrBody, this, if_true]
  · rw [if_neg h1]
    simp only [Bool.or_eq_true, beq_iff_eq, not_or] at h1
    by_cases h2 : c = '\t'
    · subst h2
      simp [litStrBody_bs q hq, litStrBody]
    by_cases h3 : c = '\n'
    · subst h3
      simp [litStrBody_bs q hq, litStrBody]
    by_cases h4 : c = '\r'
    · subst h4
      simp [litStrBody_bs q hq, litStrBody]
    simp only [beq_iff_eq, h2, h3, h4, if_false]
    have hplain := litStrBody_plain q c r h1.1 h1.2 h3 h4
    have hU : c.toNat < 16 ^ (7 + 1) := by
      have := c.valid
      simp only [UInt32.isValidChar, Nat.isValidChar] at this
      show c.val.toNat < _
      omega
    split
    · rename_i h
      have hlt : c.toNat < 16 ^ (1 + 1) := by
        simp only [Bool.or_eq_true, decide_eq_true_eq, beq_iff_eq] at h
        omega
      rw [List.cons_append, List.cons_append, litStrBody_esc_x q hq, litStrBody_hex_char q 1 c r hlt]
    · split
      · exact hplain
      · split
        · exact hplain
        · split
          · rename_i h
            rw [List.cons_append, List.cons_append, litStrBody_esc_x q hq,
              litStrBody_hex_char q 1 c r (by omega)]
          · split
            · rename_i h
              rw [List.cons_append, List.cons_append, litStrBody_esc_u q hq,
                litStrBody_hex_char q 3 c r (by omega)]
            · rw [List.cons_append, List.cons_append, litStrBody_esc_U q hq,
                litStrBody_hex_char q 7 c r hU]

/-! ### `repr(str)` -/

theorem pyQuote_cases (s : Str) : pyQuote s = '\'' ∨ pyQuote s = '"' := by
  unfold pyQuote
  split
  · exact Or.inr rfl
  · exact Or.inl rfl

theorem litStrBody_escape (printable : Nat → Bool) (q : Char) (hq : q = '\'' ∨ q = '"') (s r : Str) :
    litStrBody q .normal (s.flatMap (pyEscChar printable q) ++ q :: r) = some (s, r) := by
  induction s with
  | nil => simp [litStrBody]
  | cons c s ih =>
    rw [List.flatMap_cons, List.append_assoc, litStrBody_escChar printable q hq, ih]
    rfl

/-- the string-literal reader inverts `repr` in front of any text -/
theorem parseStrLit_repr (printable : Nat → Bool) (s r : Str) :
    parseStrLit (pyReprStr printable s ++ r) = some (s, r) := by
  have hq := pyQuote_cases s
  unfold pyReprStr
  rw [List.cons_append, parseStrLit]
  have : (pyQuote s == '\'' || pyQuote s == '"') = true := by
    rcases hq with h | h <;> rw [h] <;> rfl
  rw [if_pos this, List.append_assoc, List.singleton_append, litStrBody_escape printable _ hq]

/-- the first character of `repr(s)` is a quote -/
theorem pyReprStr_head (printable : Nat → Bool) (s : Str) :
    ∃ t, pyReprStr printable s = pyQuote s :: t := ⟨_, rfl⟩

end FCA
