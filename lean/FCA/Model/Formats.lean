import FCA.Model.Misc
/-
Model of `concepts/formats/{table,cxt,csv_context,wiki_table,fimi}.py` on code-point strings
(`List Char`): the dumpers produce the exact text, the loaders mirror the hand-written splitters.
Python string primitives used by the code are re-implemented here with their Python semantics;
the csv reader is a transcription of CPython's `_csv.c` (`parse_process_char`, `Reader_iternext`)
for the excel dialect, including the end-of-line events, the empty record of a blank line,
`_csv.Error` and the field size limit. `strictTable`, `strictCxt`, `strictCsv` are independent
strict readers written from the format descriptions (they share no code with the loaders).
-/
namespace FCA

abbrev Str := List Char

/-- `str.isspace()` of CPython (extracted set is compared with this list on every run) -/
def pyWhitespace : List Nat :=
  [0x09, 0x0A, 0x0B, 0x0C, 0x0D, 0x1C, 0x1D, 0x1E, 0x1F, 0x20, 0x85, 0xA0, 0x1680,
   0x2000, 0x2001, 0x2002, 0x2003, 0x2004, 0x2005, 0x2006, 0x2007, 0x2008, 0x2009, 0x200A,
   0x2028, 0x2029, 0x202F, 0x205F, 0x3000]

def isSpace (c : Char) : Bool := pyWhitespace.contains c.toNat

def lstripBy (p : Char → Bool) (s : Str) : Str := s.dropWhile p
def rstripBy (p : Char → Bool) (s : Str) : Str := (s.reverse.dropWhile p).reverse
def stripBy (p : Char → Bool) (s : Str) : Str := rstripBy p (lstripBy p s)
/-- `s.strip()` -/
def strip (s : Str) : Str := stripBy isSpace s
/-- `s.strip('|')` -/
def stripBar (s : Str) : Str := stripBy (· == '|') s

/-- `s.split(sep)` for a one-character separator -/
def splitChar (sep : Char) : Str → List Str
  | [] => [[]]
  | c :: cs =>
    match splitChar sep cs with
    | [] => [[]]   -- unreachable
    | hd :: tl => if c == sep then [] :: hd :: tl else (c :: hd) :: tl

/-- `s.partition(sep)` → (before, found, after) -/
def partitionChar (sep : Char) : Str → Str × Bool × Str
  | [] => ([], false, [])
  | c :: cs =>
    if c == sep then ([], true, cs)
    else let (a, f, b) := partitionChar sep cs; (c :: a, f, b)

/-- `'%-<w>s' % s` -/
def ljust (w : Nat) (s : Str) : Str := s ++ List.replicate (w - s.length) ' '

/-- `sep.join(parts)` -/
def joinWith (sep : Str) : List Str → Str
  | [] => []
  | [x] => x
  | x :: xs => x ++ sep ++ joinWith sep xs

/-- text written by `print(line, file=f)` for every line -/
def unlines (ls : List Str) : Str := ls.flatMap (· ++ ['\n'])

/-- `s.split('\n\n')` -/
def splitBlank : Str → List Str
  | [] => [[]]
  | '\n' :: '\n' :: cs => [] :: splitBlank cs
  | c :: cs =>
    match splitBlank cs with
    | [] => [[]]
    | hd :: tl => (c :: hd) :: tl

/-- `s.split()` (runs of whitespace) -/
def splitWs (s : Str) : List Str :=
  let rec go : Str → Str → List Str
    | [], cur => if cur.isEmpty then [] else [cur.reverse]
    | c :: cs, cur =>
      if isSpace c then (if cur.isEmpty then go cs [] else cur.reverse :: go cs [])
      else go cs (c :: cur)
  go s []

/-- `int(s)` for plain decimal digit strings (what the dumpers write); `none` otherwise -/
def parseNat? (s : Str) : Option Nat :=
  if s.isEmpty || !(s.all Char.isDigit) then none else some (s.foldl (fun a c => 10 * a + (c.toNat - 48)) 0)

abbrev Triple := List Str × List Str × List (List Bool)

/-! ### table -/

/-- `Table.dumps(objects, properties, bools, indent=…)` (with the final `rstrip()`) -/
def dumpTable (indent : Nat) (objects properties : List Str) (bools : List (List Bool)) : Str :=
  let wd := (objects.foldl (fun m o => max m o.length) 0) :: properties.map (·.length)
  let fmt := fun (cells : List Str) =>
    List.replicate indent ' ' ++ joinWith ['|'] ((wd.zip cells).map fun (w, c) => ljust w c) ++ ['|']
  let header := fmt ([] :: properties)
  let rows := (objects.zip bools).map fun (o, row) => fmt (o :: row.map fun b => if b then ['X'] else [])
  rstripBy isSpace (unlines (header :: rows))

/-- `table.load_file` -/
def loadTable (source : Str) : Except Err Triple :=
  let lines := ((splitChar '\n' source).map fun l => strip (partitionChar '#' l).1).filter (!·.isEmpty)
  match lines with
  | [] => .error .indexError
  | first :: rest =>
    let properties := (splitChar '|' (stripBar first)).map strip
    let table := rest.map fun objflags =>
      let (obj, _, flags) := partitionChar '|' objflags
      (strip obj, (splitChar '|' (stripBar flags)).map fun f => !(strip f).isEmpty)
    if table.isEmpty then .error .valueError
    else .ok (table.map (·.1), properties, table.map (·.2))

/-! ### cxt -/

def dumpCxt (objects properties : List Str) (bools : List (List Bool)) : Str :=
  unlines (['B'] :: [] :: (toString objects.length).toList :: (toString properties.length).toList :: [] ::
    (objects ++ properties ++ bools.map fun row => row.map fun b => if b then 'X' else '.'))

/-- `Cxt.loadf` -/
def loadCxt (source : Str) : Except Err Triple :=
  match splitBlank (strip source) with
  | [_b, yx, table] =>
    match (splitWs yx).map parseNat? with
    | [some y, some x] =>
      let lines := (splitChar '\n' (strip table)).map strip
      let rows := (lines.drop (y + x)).map fun l => l.map fun c =>
        if c == 'X' then some true else if c == '.' then some false else none
      if rows.all (·.all Option.isSome) then
        .ok (lines.take y, (lines.drop y).take x, rows.map (·.map (·.getD false)))
      else .error .keyError
    | _ => .error .valueError
  | _ => .error .valueError

/-! ### csv (excel dialect) -/

/-- `csv.writer` field, `QUOTE_MINIMAL`, delimiter `,`, quotechar `"`, lineterminator `\r\n` -/
def csvField (s : Str) : Str :=
  if s.any fun c => c == ',' || c == '"' || c == '\r' || c == '\n' then
    ['"'] ++ s.flatMap (fun c => if c == '"' then ['"', '"'] else [c]) ++ ['"']
  else s

def csvRow (fields : List Str) : Str :=
  (match fields with
   | [[]] => ['"', '"']          -- a single empty field is written quoted
   | _ => joinWith [','] (fields.map csvField)) ++ ['\r', '\n']

/-- `Csv.dumps(objects, properties, bools, bools_as_int=…)`, `object_header=None` -/
def dumpCsv (asInt : Bool) (objects properties : List Str) (bools : List (List Bool)) : Str :=
  let sym := fun (b : Bool) => if asInt then (if b then ['1'] else ['0']) else (if b then ['X'] else [])
  csvRow ([] :: properties) ++
    ((objects.zip bools).flatMap fun (o, row) => csvRow (o :: row.map sym))

inductive CsvState where
  | startRecord | startField | inField | inQuoted | quoteInQuoted | eatCrnl
deriving DecidableEq, Repr

/-- `csv.field_size_limit()` (default; module-global in CPython) -/
def csvFieldLimit : Nat := 131072

/-- the reader object between two characters: automaton state, characters of the pending field
(most recent first), fields of the pending record -/
structure CsvSt where
  state : CsvState
  field : Str
  row : List Str

/-- `parse_reset` -/
def CsvSt.init : CsvSt := ⟨.startRecord, [], []⟩

/-- `parse_add_char` (`none` = `_csv.Error`: field larger than field limit), then `state := st` -/
def CsvSt.add (s : CsvSt) (c : Char) (st : CsvState) : Option CsvSt :=
  if csvFieldLimit ≤ s.field.length then none else some ⟨st, c :: s.field, s.row⟩

/-- `parse_save_field`, then `state := st` -/
def CsvSt.save (s : CsvSt) (st : CsvState) : CsvSt := ⟨st, [], s.row ++ [s.field.reverse]⟩

/-- `parse_process_char` in state `START_FIELD` (also reached by fall-through from `START_RECORD`) -/
def csvStartField (s : CsvSt) : Option Char → Option CsvSt
  | none => some (s.save .startRecord)
  | some c =>
    if c == '\n' || c == '\r' then some (s.save .eatCrnl)
    else if c == '"' then some { s with state := .inQuoted }
    else if c == ',' then some (s.save .startField)
    else s.add c .inField

/-- `parse_process_char` of `_csv.c` for the excel dialect (delimiter `,`, quotechar `"`,
doublequote, no escapechar, no skipinitialspace, not strict). The character `none` is the
end-of-line event `EOL`; the result `none` is `_csv.Error`. -/
def csvChar (s : CsvSt) (c : Option Char) : Option CsvSt :=
  match s.state, c with
  | .startRecord, none => some s                      -- empty line: the record `[]`
  | .startRecord, some ch =>
    if ch == '\n' || ch == '\r' then some { s with state := .eatCrnl } else csvStartField s c
  | .startField, _ => csvStartField s c
  | .inField, none => some (s.save .startRecord)
  | .inField, some ch =>
    if ch == '\n' || ch == '\r' then some (s.save .eatCrnl)
    else if ch == ',' then some (s.save .startField)
    else s.add ch .inField                            -- a `"` in the middle is literal
  | .inQuoted, none => some s
  | .inQuoted, some ch =>
    if ch == '"' then some { s with state := .quoteInQuoted } else s.add ch .inQuoted
  | .quoteInQuoted, none => some (s.save .startRecord)
  | .quoteInQuoted, some ch =>
    if ch == '"' then s.add ch .inQuoted
    else if ch == ',' then some (s.save .startField)
    else if ch == '\n' || ch == '\r' then some (s.save .eatCrnl)
    else s.add ch .inField                            -- not strict
  | .eatCrnl, none => some { s with state := .startRecord }
  | .eatCrnl, some ch =>
    if ch == '\n' || ch == '\r' then some s else none -- new-line character seen in unquoted field

/-- the lines yielded by iterating `io.StringIO(source)`: split after every `\n` (only), the
line break is kept; the last line may lack it; there is no empty line -/
def csvLines : Str → List Str
  | [] => []
  | c :: cs =>
    if c == '\n' then [c] :: csvLines cs
    else match csvLines cs with
      | [] => [[c]]
      | l :: ls => (c :: l) :: ls

/-- the body of the loop of `Reader_iternext` for one line: every character, then `EOL` -/
def csvLine (s : CsvSt) : Str → Option CsvSt
  | [] => csvChar s none
  | c :: cs => (csvChar s (some c)).bind fun s' => csvLine s' cs

/-- iterating a `csv.reader` over the given lines to exhaustion, starting in the middle of a
record (`s`): the records yielded, and whether the iteration ended with `_csv.Error` (`true`)
instead of `StopIteration`. A record is yielded when the state after a line is `START_RECORD`;
at the end of the input a pending field (or an open quoted field) is saved and the record yielded. -/
def csvRecords (s : CsvSt) : List Str → List (List Str) × Bool
  | [] =>
    if !s.field.isEmpty || s.state == .inQuoted then ([(s.save .startRecord).row], false)
    else ([], false)
  | l :: ls =>
    match csvLine s l with
    | none => ([], true)
    | some s' =>
      if s'.state == .startRecord then
        let (rs, e) := csvRecords .init ls
        (s'.row :: rs, e)
      else csvRecords s' ls

/-- `csv.reader(io.StringIO(text))` consumed lazily: rows before the end / the error -/
def csvRead (text : Str) : List (List Str) × Bool := csvRecords .init (csvLines text)

/-- `list(csv.reader(io.StringIO(text)))`; `none` for `_csv.Error` -/
def csvParse (text : Str) : Option (List (List Str)) :=
  match csvRead text with
  | (rows, false) => some rows
  | (_, true) => none

/-- cell values of `Csv.values[as_int]` -/
def csvValue (asInt : Bool) (s : Str) : Option Bool :=
  if asInt then (if s == ['1'] then some true else if s == ['0'] then some false else none)
  else (if s == ['X'] then some true else if s == [] then some false else none)

/-- `for obj, *symbols in rows: …` — rows are consumed one by one, so the first failing row
decides the exception; when the rows run out the reader's own end (`bad`: `_csv.Error`) shows -/
def csvLoop (asInt : Bool) (bad : Bool) : List (List Str) → Except String (List Str × List (List Bool))
  | [] => if bad then .error "Error" else .ok ([], [])
  | [] :: _ => .error "ValueError"
  | (obj :: symbols) :: rest =>
    if (symbols.map (csvValue asInt)).all Option.isSome then
      match csvLoop asInt bad rest with
      | .ok (os, bs) => .ok (obj :: os, (symbols.map fun s => (csvValue asInt s).getD false) :: bs)
      | .error e => .error e
    else .error "KeyError"

/-- `Csv.loads(source)` with `bools_as_int=None` (symbols sniffed from the first data row).
The error is the name of the exception class: `StopIteration` (leaked from `next(reader)`),
`Error` (`_csv.Error`), `ValueError` (unpacking an empty row, unknown symbols), `KeyError`. -/
def loadCsvE (source : Str) : Except String Triple :=
  let (rows, bad) := csvRead source
  let stop := if bad then "Error" else "StopIteration"
  match rows with
  | [] => .error stop
  | [] :: _ => .error "ValueError"
  | (_ :: _) :: [] => .error stop
  | (_ :: _) :: [] :: _ => .error "ValueError"
  | (_ :: properties) :: (first :: firstSyms) :: rest =>
    let asInt? : Option Bool :=
      if firstSyms.all fun s => s == [] || s == ['X'] then some false
      else if firstSyms.all fun s => s == ['0'] || s == ['1'] then some true
      else none
    match asInt? with
    | none => .error "ValueError"
    | some asInt =>
      match csvLoop asInt bad ((first :: firstSyms) :: rest) with
      | .ok (objects, bools) => .ok (objects, properties, bools)
      | .error e => .error e

/-! ### independent strict readers

Written from the descriptions of the formats alone (layout of an ASCII-art table, the Burmeister
`.cxt` line layout, RFC 4180), not from the library's loaders: they share no code with
`loadTable`/`loadCxt`/`loadCsvE` and accept only the exact layout. -/

/-- all or nothing -/
def seqOpt {α : Type} : List (Option α) → Option (List α)
  | [] => some []
  | none :: _ => none
  | some a :: l => match seqOpt l with
    | some as => some (a :: as)
    | none => none

/-- remove the padding blanks (U+0020 only) at the right end of a cell -/
def rtrimSp (s : Str) : Str := (s.reverse.dropWhile (· == ' ')).reverse

/-- the cells of one table line: `indent` blanks, then cells each followed by `|` -/
def strictCells (indent : Nat) (line : Str) : Option (List Str) :=
  if line.take indent != List.replicate indent ' ' then none else
  let cells := splitChar '|' (line.drop indent)
  if cells.getLast? != some [] then none else some cells.dropLast

/-- a data cell is exactly `X` or blank (up to padding) -/
def strictFlag (cell : Str) : Option Bool :=
  if rtrimSp cell == ['X'] then some true else if rtrimSp cell == [] then some false else none

/-- strict reader of the ASCII-art table: lines separated by `\n` (no final line break); every line is
`indent` blanks followed by cells that are each closed by `|`; all lines have their `|` in the same
columns; a cell is its text padded with blanks on the right; the first cell of the header is blank,
the others are the (non-blank) properties; a data line has the (non-blank) object in the first
cell and `X` or blank in each of the other cells, one per property; at least one property and one
object -/
def strictTable (indent : Nat) (src : Str) : Option Triple :=
  match seqOpt ((splitChar '\n' src).map (strictCells indent)) with
  | some ((corner :: props) :: rows) =>
    if rtrimSp corner != [] || props.isEmpty || rows.isEmpty then none else
    if rows.any fun r => r.map (·.length) != (corner :: props).map (·.length) then none else
    let properties := props.map rtrimSp
    let objects := rows.map fun r => rtrimSp (r.headD [])
    if properties.any (·.isEmpty) || objects.any (·.isEmpty) then none else
    match seqOpt (rows.map fun r => seqOpt ((r.drop 1).map strictFlag)) with
    | some bools => some (objects, properties, bools)
    | none => none
  | _ => none

/-- one more decimal digit -/
def strictDigit (acc : Option Nat) (c : Char) : Option Nat :=
  match acc with
  | none => none
  | some a => if '0' ≤ c ∧ c ≤ '9' then some (10 * a + (c.toNat - '0'.toNat)) else none

/-- a decimal number: one or more ASCII digits -/
def strictNat (s : Str) : Option Nat :=
  if s.isEmpty then none else s.foldl strictDigit (some 0)

/-- strict reader of the Burmeister format: every line ends with `\n`; the lines are `B`, an empty
line, the number `n` of objects, the number `m` of properties, an empty line, `n` object lines,
`m` property lines, `n` lines of exactly `m` characters `X` or `.`; nothing else -/
def strictCxt (src : Str) : Option Triple :=
  match splitChar '\n' src with
  | b :: e1 :: ns :: ms :: e2 :: rest =>
    if b != ['B'] || e1 != [] || e2 != [] then none else
    match strictNat ns, strictNat ms with
    | some n, some m =>
      -- the final `\n` leaves an empty piece after the last line
      if rest.length != n + m + n + 1 || rest.getLast? != some [] then none else
      let rows := ((rest.drop (n + m)).take n).map fun r =>
        if r.length != m then none
        else seqOpt (r.map fun c => if c == 'X' then some true else if c == '.' then some false else none)
      match seqOpt rows with
      | some bools => some (rest.take n, (rest.drop n).take m, bools)
      | none => none
    | _, _ => none
  | _ => none

inductive RfcState where
  | recStart    -- at the beginning of a record
  | fieldStart  -- after a comma
  | plain       -- inside a non-escaped field
  | quoted      -- inside an escaped field
  | quoteSeen   -- after a `"` inside an escaped field: the closing quote or the first of a doubled one
  | crSeen      -- after the CR that follows a complete field
deriving DecidableEq, Repr

/-- strict RFC 4180 automaton: `record = field *("," field)`, every record is terminated by CR LF,
`field = escaped / non-escaped`, an escaped field is enclosed in `"` and may contain anything with
`"` doubled, a non-escaped field contains no `,` `"` CR LF; an empty line is not a record.
`fld` holds the characters of the pending field (most recent first), `row` the pending record. -/
def rfcGo : RfcState → Str → List Str → Str → Option (List (List Str))
  | st, _, _, [] => if st = .recStart then some [] else none
  | .crSeen, _, row, c :: cs =>
    if c == '\n' then (rfcGo .recStart [] [] cs).map (row :: ·) else none
  | .quoted, fld, row, c :: cs =>
    if c == '"' then rfcGo .quoteSeen fld row cs else rfcGo .quoted (c :: fld) row cs
  | .quoteSeen, fld, row, c :: cs =>
    if c == '"' then rfcGo .quoted ('"' :: fld) row cs
    else if c == ',' then rfcGo .fieldStart [] (row ++ [fld.reverse]) cs
    else if c == '\r' then rfcGo .crSeen [] (row ++ [fld.reverse]) cs
    else none
  | .plain, fld, row, c :: cs =>
    if c == ',' then rfcGo .fieldStart [] (row ++ [fld.reverse]) cs
    else if c == '\r' then rfcGo .crSeen [] (row ++ [fld.reverse]) cs
    else if c == '"' || c == '\n' then none
    else rfcGo .plain (c :: fld) row cs
  | .fieldStart, _, row, c :: cs =>
    if c == '"' then rfcGo .quoted [] row cs
    else if c == ',' then rfcGo .fieldStart [] (row ++ [[]]) cs
    else if c == '\r' then rfcGo .crSeen [] (row ++ [[]]) cs
    else if c == '\n' then none
    else rfcGo .plain [c] row cs
  | .recStart, _, row, c :: cs =>
    if c == '"' then rfcGo .quoted [] row cs
    else if c == ',' then rfcGo .fieldStart [] (row ++ [[]]) cs
    else if c == '\r' || c == '\n' then none
    else rfcGo .plain [c] row cs

/-- the records of an RFC 4180 text -/
def rfcRecords (text : Str) : Option (List (List Str)) := rfcGo .recStart [] [] text

/-- a cell of the csv table for a symbol set (`asInt`: `1`/`0`, otherwise `X`/empty) -/
def strictCsvCell (asInt : Bool) (s : Str) : Option Bool :=
  if s == (if asInt then ['1'] else ['X']) then some true
  else if s == (if asInt then ['0'] else []) then some false else none

/-- a data record: the object, then one cell for each of the `m` properties -/
def strictCsvRow (asInt : Bool) (m : Nat) : List Str → Option (Str × List Bool)
  | [] => none
  | obj :: cells =>
    if cells.length != m then none else
    match seqOpt (cells.map (strictCsvCell asInt)) with
    | some bs => some (obj, bs)
    | none => none

/-- strict reader of the csv table of a context for a given symbol set: RFC 4180 text; the first
record is the header with an empty first field followed by the properties; every other record is
an object followed by one cell per property -/
def strictCsv (asInt : Bool) (src : Str) : Option Triple :=
  match rfcRecords src with
  | some (([] :: properties) :: rows) =>
    match seqOpt (rows.map (strictCsvRow asInt properties.length)) with
    | some t => some (t.map (·.1), properties, t.map (·.2))
    | none => none
  | _ => none

/-! ### wiki table, FIMI -/

def dumpWiki (objects properties : List Str) (bools : List (List Bool)) : Str :=
  let wp := properties.map (·.length)
  let body := (objects.zip bools).flatMap fun (o, row) =>
    [['|', '-'], '!' :: o,
     '|' :: joinWith ['|', '|'] ((wp.zip row).map fun (w, b) => ljust w (if b then ['X'] else []))]
  rstripBy isSpace (unlines (["{| class=\"featuresystem\"".toList, ['!'],
    '!' :: joinWith ['!', '!'] properties] ++ body ++ [['|', '}']]))

/-- `iter_fimi_rows` -/
def fimiRows (bools : List (List Bool)) : List (List Nat) :=
  bools.map fun row => (row.zipIdx).filterMap fun (b, j) => if b then some j else none

/-- `Fimi.dumps`: space separated indexes, `\n` terminated -/
def dumpFimi (bools : List (List Bool)) : Str :=
  (fimiRows bools).flatMap fun r => joinWith [' '] (r.map fun j => (toString j).toList) ++ ['\n']

/-! ### driver glue -/

def hexOfStr (s : Str) : String :=
  if s.isEmpty then "_" else ".".intercalate (s.map fun c => String.ofList (Nat.toDigits 16 c.toNat))

def hexVal (c : Char) : Nat :=
  if c.isDigit then c.toNat - 48 else if 'a' ≤ c ∧ c ≤ 'f' then c.toNat - 87 else 0

def strOfHex (h : String) : Str :=
  if h == "_" then [] else (h.splitOn ".").map fun t => Char.ofNat (t.toList.foldl (fun a c => 16 * a + hexVal c) 0)

def strListOfHex (h : String) : List Str := if h == "-" then [] else (h.splitOn ",").map strOfHex
def hexOfStrList (l : List Str) : String := if l.isEmpty then "-" else ",".intercalate (l.map hexOfStr)

def boolsOfStr (s : String) : List (List Bool) :=
  if s == "-" then [] else (s.splitOn "/").map fun row => if row == "." then [] else row.toList.map (· == '1')
def strOfBools (b : List (List Bool)) : String :=
  if b.isEmpty then "-" else "/".intercalate (b.map fun row =>
    if row.isEmpty then "." else String.ofList (row.map fun x => if x then '1' else '0'))

def showTriple : Except Err Triple → String
  | .ok (o, p, b) => s!"ok {hexOfStrList o} {hexOfStrList p} {strOfBools b}"
  | .error e => e.name

def showTripleE : Except String Triple → String
  | .ok (o, p, b) => s!"ok {hexOfStrList o} {hexOfStrList p} {strOfBools b}"
  | .error e => e

def showOptTriple : Option Triple → String
  | some (o, p, b) => s!"ok {hexOfStrList o} {hexOfStrList p} {strOfBools b}"
  | none => "none"

def fmtRequest : List String → String
  | ["dump", "table", indent, os, ps, bs] =>
    hexOfStr (dumpTable indent.toNat! (strListOfHex os) (strListOfHex ps) (boolsOfStr bs))
  | ["dump", "cxt", os, ps, bs] => hexOfStr (dumpCxt (strListOfHex os) (strListOfHex ps) (boolsOfStr bs))
  | ["dump", "csv", asInt, os, ps, bs] =>
    hexOfStr (dumpCsv (asInt == "1") (strListOfHex os) (strListOfHex ps) (boolsOfStr bs))
  | ["dump", "wiki", os, ps, bs] => hexOfStr (dumpWiki (strListOfHex os) (strListOfHex ps) (boolsOfStr bs))
  | ["dump", "fimi", bs] => hexOfStr (dumpFimi (boolsOfStr bs))
  | ["load", "table", src] => showTriple (loadTable (strOfHex src))
  | ["load", "cxt", src] => showTriple (loadCxt (strOfHex src))
  | ["load", "csv", src] => showTripleE (loadCsvE (strOfHex src))
  | ["strict", "table", indent, src] => showOptTriple (strictTable indent.toNat! (strOfHex src))
  | ["strict", "cxt", src] => showOptTriple (strictCxt (strOfHex src))
  | ["strict", "csv", asInt, src] => showOptTriple (strictCsv (asInt == "1") (strOfHex src))
  | ["strip", s] => hexOfStr (strip (strOfHex s))
  | _ => "bad-request"

end FCA
