"""C07 - join and meet are the least upper and greatest lower bounds."""
from core import guard
from props import lat
import gen


def run(run):
    run.rule = ('contexts as C03 (<= 60 concepts: all ordered pairs, else 400 sampled pairs) plus empty, singleton and sampled '
                'multisets with repeats; observables: Lattice.join/meet, Concept.join/meet, | and &; the result must be a member '
                'object of the lattice whose extent is the model\'s')
    d = run.driver
    rng = run.rng
    for tab, pc in lat.contexts(run, exh_quick=8, rand_quick=250, wide_quick=12, exh_thorough=13, nmax=8, mmax=8):
        if min(pc.n, pc.m) > 8:
            continue
        extra = {'objects': pc.objects, 'properties': pc.properties, 'bools': pc.bools}
        with guard(run, 'lattice', [pc.line]):
            L = pc.ctx.lattice
            cs = list(L)
            E = [pc.omask(c.extent) for c in cs]
        pos = {id(c): k for k, c in enumerate(cs)}
        full = (1 << pc.n) - 1
        k = len(cs)
        pairs = [(a, b) for a in range(k) for b in range(k)] if k <= (25 if run.tier == 'quick' else 60) else \
            [(rng.randrange(k), rng.randrange(k)) for _ in range(300)]
        lists = [[], [0], [k - 1]] + [[rng.randrange(k) for _ in range(rng.randint(1, 5))] for _ in range(6)]
        reqs, cases = [], []
        nt = gen.nontrivial(tab)

        def member(c, what, r):
            if id(c) not in pos:
                run.fail('%s is not a member object of the lattice' % what, repr(c), None, [pc.line, r], extra)
            return E[pos[id(c)]]

        for a, b in pairs:
            ju, mi = E[a] | E[b], E[a] & E[b]
            rj, rm = 'dblo %d' % ju, 'dblo %d' % mi
            with guard(run, 'binary join/meet of concepts %d, %d' % (a, b), [pc.line, rj, rm]):
                x, y = cs[a], cs[b]
                try:
                    j1, j2, m1, m2 = x.join(y), x | y, x.meet(y), x & y
                except TypeError as e:       # raised by the operator protocol in this very frame
                    run.fail('| / & of concepts %d, %d' % (a, b), 'raised TypeError: %s' % e, 'a concept', [pc.line, rj, rm], extra)
                for res_, name_ in ((j1, 'join'), (m1, 'meet')):
                    if res_ is NotImplemented or not hasattr(res_, 'extent'):
                        run.fail('Concept.%s of concepts %d, %d does not return a concept' % (name_, a, b), repr(res_), 'a concept', [pc.line, rj, rm], extra)
                # x <= y  iff  x | y is y  iff  x & y is x   (operators and named methods)
                le = E[a] & E[b] == E[a]
                facts = {'x <= y': bool(x <= y), 'x.implies(y)': bool(x.implies(y)) if x.implies(y) is not NotImplemented else 'NotImplemented',
                         'y >= x': bool(y >= x), 'y.subsumes(x)': bool(y.subsumes(x)) if y.subsumes(x) is not NotImplemented else 'NotImplemented',
                         '(x | y) is y': j2 is y, '(x & y) is x': m2 is x}
                if any(v != le for v in facts.values()):
                    run.fail('order and join / meet disagree for concepts %d, %d (extent inclusion: %r)' % (a, b, le), facts, le, [pc.line, rj, rm], extra)
                if j1 is not j2 or m1 is not m2:
                    run.fail('method and operator disagree for concepts %d, %d' % (a, b), None, None, [pc.line], extra)
                jl, ml = L.join([x, y]), L.meet([x, y])
                if jl is not j1 or ml is not m1:
                    run.fail('Lattice.join/meet and Concept.join/meet disagree for concepts %d, %d' % (a, b),
                             [repr(jl), repr(ml)], [repr(j1), repr(m1)], [pc.line, rj, rm], extra)
                ej, em = member(j1, 'join', rj), member(m1, 'meet', rm)
            reqs += [rj, rm]
            cases += [('join of concepts %d,%d' % (a, b), ej), ('meet of concepts %d,%d' % (a, b), em)]
        for l in lists:
            ju, mi = 0, full
            for c in l:
                ju |= E[c]
                mi &= E[c]
            rj, rm = 'dblo %d' % ju, 'dblo %d' % mi
            with guard(run, 'Lattice.join/meet(%r)' % (l,), [pc.line, rj, rm]):
                ej = member(L.join(iter([cs[c] for c in l])) if len(l) % 2 else L.join([cs[c] for c in l]), 'join', rj)
                em = member(L.meet(iter([cs[c] for c in l])), 'meet', rm)
                if not l and (L.join([]) is not cs[0] or L.meet([]) is not cs[-1]):
                    run.fail('empty join/meet is not infimum/supremum', None, None, [pc.line], extra)
            reqs += [rj, rm]
            cases += [('Lattice.join(%r)' % (l,), ej), ('Lattice.meet(%r)' % (l,), em)]
        for (what, got), r, ans in zip(cases, reqs, d.ask_many(reqs)):
            run.case(pc.line + '|' + what, nt, {'context': pc.line, 'call': what, 'extent': got})
            if str(got) != ans:
                run.fail(what, got, ans, [pc.line, r], extra)
            if what.startswith(('meet', 'Lattice.meet')) and r != 'dblo %s' % ans:
                run.fail('model: meet extent is not the plain intersection', r, ans, [pc.line, r], extra)
        run.count('contexts')
