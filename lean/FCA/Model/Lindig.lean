import FCA.Model.Galois
/-
Model of `concepts/algorithms/lindig.py` (`neighbors`, `lattice`).
-/
namespace FCA

/-- body of `for add in Objects.atomic(minimal)` in `lindig.neighbors`.

`minimal = ~objects` is a negative Python int; only its bits below `n` can meet `extent`, so the
model keeps `minimal` as the in-domain mask `full n & ~objects`.  The candidate list is fixed when
the loop starts (`filter(minimal.__and__, atoms)` is bound to the *original* `~objects`). -/
def neighborsLoop (K : Ctx) (objects : Nat) : List Nat → Nat → List (Nat × Nat) → List (Nat × Nat)
  | [], _, acc => acc.reverse
  | g :: gs, minimal, acc =>
    let add := 2 ^ g
    let objectsAndAdd := objects ||| add
    let (extent, intent) := K.dpObj objectsAndAdd
    if andNot extent objectsAndAdd &&& minimal ≠ 0 then
      neighborsLoop K objects gs (andNot minimal add) acc
    else
      neighborsLoop K objects gs minimal ((extent, intent) :: acc)

/-- `lindig.neighbors(objects, Objects=...)`: the yielded `(extent, intent)` pairs in order -/
def neighbors (K : Ctx) (objects : Nat) : List (Nat × Nat) :=
  let minimal := andNot (full K.n) objects
  neighborsLoop K objects (membersW K.n minimal) minimal []

/-- the mutable 4-tuple `(extent, intent, upper, lower)` of `lindig.lattice` -/
structure Rec where
  extent : Nat
  intent : Nat
  upper : List Nat
  lower : List Nat
deriving Repr, BEq

def recFind (recs : List Rec) (e : Nat) : Option Rec := recs.find? (·.extent == e)

def appendUpper (recs : List Rec) (e x : Nat) : List Rec :=
  recs.map fun r => if r.extent == e then { r with upper := r.upper ++ [x] } else r

def appendLower (recs : List Rec) (e x : Nat) : List Rec :=
  recs.map fun r => if r.extent == e then { r with lower := r.lower ++ [x] } else r

/-- the `for n_extent, n_intent in neighbors(...)` body -/
def linkNeighbors (e : Nat) : List (Nat × Nat) → List Rec → List Nat → List Rec × List Nat
  | [], recs, heap => (recs, heap)
  | (ne, ni) :: rest, recs, heap =>
    let recs := appendUpper recs e ne
    if (recFind recs ne).isSome then
      linkNeighbors e rest (appendLower recs ne e) heap
    else
      linkNeighbors e rest (recs ++ [⟨ne, ni, [], [e]⟩]) (heap ++ [ne])

/-- `while heap:` of `lindig.lattice`. State: the heap (extents, popped by shortlex key), the
`mapping` (records in insertion order) and the emission order (reversed). -/
def lindigLoop (K : Ctx) : Nat → List Nat → List Rec → List Nat → List Rec × List Nat
  | 0, _, recs, order => (recs, order.reverse)
  | fuel+1, heap, recs, order =>
    match minBy (shortlexKey K.n) heap with
    | none => (recs, order.reverse)
    | some e =>
      let (recs', heap') := linkNeighbors e (neighbors K e) recs (heap.erase e)
      lindigLoop K fuel heap' recs' (e :: order)

/-- `lindig.lattice(Objects, infimum=())` run to exhaustion: the yielded records in yield order,
with their `upper`/`lower` lists as they are *after* exhaustion (this is what `Lattice.__init__`
reads, because it materialises the generator first). -/
def lindigLattice (K : Ctx) : List Rec :=
  let (e0, i0) := K.dpObj 0
  let (recs, order) := lindigLoop K (2 ^ K.n + 1) [e0] [⟨e0, i0, [], []⟩] []
  order.filterMap (recFind recs)

end FCA
