import FCA.Model.DefnHeap
import FCA.Proofs.DefnDerive
/-
The heap model of `Definition` objects refines the value model, derived objects are fresh, and
mutating one object never changes another one.
-/
namespace FCA

/-- the three addresses exist and are pairwise different -/
def DRef.Valid (h : Heap) (r : DRef) : Prop :=
  r.ao < h.length ∧ r.ap < h.length ∧ r.ac < h.length ∧ r.ao ≠ r.ap ∧ r.ao ≠ r.ac ∧ r.ap ≠ r.ac

instance (h : Heap) (r : DRef) : Decidable (r.Valid h) := by unfold DRef.Valid; infer_instance

/-- the address sets are disjoint -/
def DRef.Disjoint (r r' : DRef) : Prop := ∀ a ∈ r.addrs, a ∉ r'.addrs

instance (r r' : DRef) : Decidable (r.Disjoint r') := by unfold DRef.Disjoint; infer_instance

theorem DRef.Disjoint.symm {r r' : DRef} (h : r.Disjoint r') : r'.Disjoint r :=
  fun a ha ha' => h a ha' ha

/-- the operand of an in-place union / intersection is the object itself or a separate object -/
def HOpG.Compat (r : DRef) : HOpG DRef → Prop
  | .plain _ => True
  | .unionUpdate other _ => other = r ∨ r.Disjoint other
  | .intersectionUpdate other _ => other = r ∨ r.Disjoint other

/-! ### reading after writing -/

theorem namesAt_congr {h h' : Heap} {a : Nat} (e : h'[a]? = h[a]?) : h'.namesAt a = h.namesAt a := by
  simp only [Heap.namesAt, e]

theorem cellsAt_congr {h h' : Heap} {a : Nat} (e : h'[a]? = h[a]?) : h'.cellsAt a = h.cellsAt a := by
  simp only [Heap.cellsAt, e]

theorem read_congr {h h' : Heap} {r : DRef} (e : ∀ a ∈ r.addrs, h'[a]? = h[a]?) :
    h'.read r = h.read r := by
  simp only [Heap.read]
  rw [namesAt_congr (e r.ao (by simp [DRef.addrs])), namesAt_congr (e r.ap (by simp [DRef.addrs])),
    cellsAt_congr (e r.ac (by simp [DRef.addrs]))]

theorem namesAt_set_ne (h : Heap) {a b : Nat} (o : HObj) (hab : a ≠ b) :
    Heap.namesAt (h.set a o) b = h.namesAt b :=
  namesAt_congr (List.getElem?_set_ne hab)

theorem cellsAt_set_ne (h : Heap) {a b : Nat} (o : HObj) (hab : a ≠ b) :
    Heap.cellsAt (h.set a o) b = h.cellsAt b :=
  cellsAt_congr (List.getElem?_set_ne hab)

theorem namesAt_set_self (h : Heap) {a : Nat} (l : List Name) (ha : a < h.length) :
    Heap.namesAt (h.set a (.names l)) a = l := by
  simp [Heap.namesAt, List.getElem?_set_self ha]

theorem cellsAt_set_self (h : Heap) {a : Nat} (l : List (Name × Name)) (ha : a < h.length) :
    Heap.cellsAt (h.set a (.cells l)) a = l := by
  simp [Heap.cellsAt, List.getElem?_set_self ha]

theorem write_length (h : Heap) (r : DRef) (d : Defn) : (h.write r d).length = h.length := by
  simp [Heap.write]

theorem write_untouched (h : Heap) (r : DRef) (d : Defn) {a : Nat} (ha : a ∉ r.addrs) :
    (h.write r d)[a]? = h[a]? := by
  simp only [DRef.addrs, List.mem_cons, List.not_mem_nil, or_false, not_or] at ha
  simp only [Heap.write]
  rw [List.getElem?_set_ne (Ne.symm ha.2.2), List.getElem?_set_ne (Ne.symm ha.2.1),
    List.getElem?_set_ne (Ne.symm ha.1)]

theorem read_write_self {h : Heap} {r : DRef} (hv : r.Valid h) (d : Defn) :
    (h.write r d).read r = d := by
  obtain ⟨h1, h2, h3, n1, n2, n3⟩ := hv
  cases d with
  | mk os ps cs =>
    simp only [Heap.read, Heap.write, Defn.mk.injEq]
    refine ⟨?_, ?_, ?_⟩
    · rw [namesAt_set_ne _ _ (Ne.symm n2), namesAt_set_ne _ _ (Ne.symm n1), namesAt_set_self _ _ h1]
    · rw [namesAt_set_ne _ _ (Ne.symm n3), namesAt_set_self _ _ (by simpa using h2)]
    · rw [cellsAt_set_self _ _ (by simpa using h3)]

/-! ### allocation -/

theorem new_prefix (h : Heap) (d : Defn) {a : Nat} (ha : a < h.length) : (h.new d).1[a]? = h[a]? := by
  simp only [Heap.new]
  exact List.getElem?_append_left ha

theorem new_length (h : Heap) (d : Defn) : (h.new d).1.length = h.length + 3 := by
  simp [Heap.new]

theorem read_new (h : Heap) (d : Defn) : (h.new d).1.read (h.new d).2 = d := by
  cases d with
  | mk os ps cs =>
    simp [Heap.new, Heap.read, Heap.namesAt, Heap.cellsAt]

theorem valid_new (h : Heap) (d : Defn) : (h.new d).2.Valid (h.new d).1 := by
  simp only [DRef.Valid, Heap.new, List.length_append, List.length_cons, List.length_nil]
  omega

theorem valid_mono {h h' : Heap} {r : DRef} (hv : r.Valid h) (hl : h.length ≤ h'.length) :
    r.Valid h' := by
  unfold DRef.Valid at *
  omega

theorem disjoint_new {h : Heap} {r : DRef} (hv : r.Valid h) (d : Defn) : r.Disjoint (h.new d).2 := by
  intro a ha ha'
  simp only [DRef.addrs, Heap.new, List.mem_cons, List.not_mem_nil, or_false] at ha ha'
  unfold DRef.Valid at hv
  omega

/-- an object that existed before an allocation still denotes the same value -/
theorem read_new_old {h : Heap} {r : DRef} (hv : r.Valid h) (d : Defn) :
    (h.new d).1.read r = h.read r := by
  apply read_congr
  intro a ha
  apply new_prefix
  simp only [DRef.addrs, List.mem_cons, List.not_mem_nil, or_false] at ha
  unfold DRef.Valid at hv
  omega

/-! ### mutators -/

/-- a mutator keeps the heap size and writes only to the three objects of its receiver -/
theorem step_untouched {h h' : Heap} {r : DRef} {op : HOp} {ret : List Name}
    (hs : h.step r op = .ok (h', ret)) :
    h'.length = h.length ∧ ∀ a, a ∉ r.addrs → h'[a]? = h[a]? := by
  cases op with
  | plain op =>
    simp only [Heap.step] at hs
    split at hs
    · cases hs
      exact ⟨write_length _ _ _, fun a ha => write_untouched _ _ _ ha⟩
    · cases hs
  | unionUpdate other ig =>
    simp only [Heap.step] at hs
    split at hs
    · cases hs
    · cases hs
      refine ⟨by simp, fun a ha => ?_⟩
      simp only [DRef.addrs, List.mem_cons, List.not_mem_nil, or_false, not_or] at ha
      rw [List.getElem?_set_ne (Ne.symm ha.2.2), List.getElem?_set_ne (Ne.symm ha.2.1),
        List.getElem?_set_ne (Ne.symm ha.1)]
  | intersectionUpdate other ig =>
    simp only [Heap.step] at hs
    split at hs
    · cases hs
    · cases hs
      refine ⟨by simp, fun a ha => ?_⟩
      simp only [DRef.addrs, List.mem_cons, List.not_mem_nil, or_false, not_or] at ha
      rw [List.getElem?_set_ne (Ne.symm ha.2.2), List.getElem?_set_ne (Ne.symm ha.2.1),
        List.getElem?_set_ne (Ne.symm ha.1)]

theorem step_frame {h h' : Heap} {r r' : DRef} {op : HOp} {ret : List Name} (hd : r.Disjoint r')
    (hs : h.step r op = .ok (h', ret)) : h'.read r' = h.read r' :=
  read_congr fun a ha => (step_untouched hs).2 a fun ha' => hd a ha' ha

/-- what the three statements of `union_update` / `intersection_update` leave in the three objects -/
theorem seq3_read {h : Heap} {r other : DRef} (hv : r.Valid h) (hc : other = r ∨ r.Disjoint other)
    (f g : List Name → List Name → List Name) (k : List Cell → List Cell → List Cell) :
    Heap.read
      (((h.set r.ao (.names (f (h.namesAt r.ao) (h.namesAt other.ao)))).set r.ap
        (.names (g (Heap.namesAt (h.set r.ao (.names (f (h.namesAt r.ao) (h.namesAt other.ao)))) r.ap)
          (Heap.namesAt (h.set r.ao (.names (f (h.namesAt r.ao) (h.namesAt other.ao)))) other.ap)))).set r.ac
        (.cells (k
          (Heap.cellsAt ((h.set r.ao (.names (f (h.namesAt r.ao) (h.namesAt other.ao)))).set r.ap
            (.names (g (Heap.namesAt (h.set r.ao (.names (f (h.namesAt r.ao) (h.namesAt other.ao)))) r.ap)
              (Heap.namesAt (h.set r.ao (.names (f (h.namesAt r.ao) (h.namesAt other.ao)))) other.ap)))) r.ac)
          (Heap.cellsAt ((h.set r.ao (.names (f (h.namesAt r.ao) (h.namesAt other.ao)))).set r.ap
            (.names (g (Heap.namesAt (h.set r.ao (.names (f (h.namesAt r.ao) (h.namesAt other.ao)))) r.ap)
              (Heap.namesAt (h.set r.ao (.names (f (h.namesAt r.ao) (h.namesAt other.ao)))) other.ap)))) other.ac)))) r =
    ⟨f (h.read r).objs (h.read other).objs, g (h.read r).props (h.read other).props,
      k (h.read r).pairs (h.read other).pairs⟩ := by
  obtain ⟨h1, h2, h3, n1, n2, n3⟩ := hv
  have m1 : r.ao ≠ other.ap := by
    rcases hc with rfl | hc
    · exact n1
    · exact fun e => hc r.ao (by simp [DRef.addrs]) (by simp [DRef.addrs, e])
  have m2 : r.ao ≠ other.ac := by
    rcases hc with rfl | hc
    · exact n2
    · exact fun e => hc r.ao (by simp [DRef.addrs]) (by simp [DRef.addrs, e])
  have m3 : r.ap ≠ other.ac := by
    rcases hc with rfl | hc
    · exact n3
    · exact fun e => hc r.ap (by simp [DRef.addrs]) (by simp [DRef.addrs, e])
  simp only [Heap.read, Defn.mk.injEq]
  refine ⟨?_, ?_, ?_⟩
  · rw [namesAt_set_ne _ _ (Ne.symm n2), namesAt_set_ne _ _ (Ne.symm n1), namesAt_set_self _ _ h1]
  · rw [namesAt_set_ne _ _ (Ne.symm n3), namesAt_set_self _ _ (by simpa using h2),
      namesAt_set_ne _ _ n1, namesAt_set_ne _ _ m1]
  · rw [cellsAt_set_self _ _ (by simpa using h3), cellsAt_set_ne _ _ n3, cellsAt_set_ne _ _ n2,
      cellsAt_set_ne _ _ m3, cellsAt_set_ne _ _ m2]

/-- every mutator call on the heap, read back, is the value-level call -/
theorem step_refines {h : Heap} {r : DRef} {op : HOp} (hv : r.Valid h) (hc : op.Compat r) :
    (h.step r op).map (fun x => (x.1.read r, x.2)) = (h.read r).step (op.toOp h.read) := by
  cases op with
  | plain op =>
    simp only [Heap.step, HOpG.toOp]
    cases (h.read r).step op with
    | error e => rfl
    | ok x => simp only [Except.map, read_write_self hv]
  | unionUpdate other ig =>
    simp only [Heap.step, HOpG.toOp, Defn.step]
    split
    · rfl
    · simp only [Except.map]
      rw [seq3_read hv hc uIor uIor (fun a b => b.foldl pAdd a)]
  | intersectionUpdate other ig =>
    simp only [Heap.step, HOpG.toOp, Defn.step]
    split
    · rfl
    · simp only [Except.map]
      rw [seq3_read hv hc uIand uIand (fun a b => a.filter b.contains)]

/-! ### deriving methods -/

theorem copy_eq (d : Defn) : d.copy = d := by cases d; rfl

/-- the update applied to the fresh copy, read back, is the value-level update of the source -/
theorem copy_step_refines {h : Heap} {r : DRef} {op : HOp} (hor : ∀ o ∈ op.refs, o.Valid h) :
    ((h.copy r).1.step (h.copy r).2 op).map (fun x => (x.1.read (h.copy r).2, x.2)) =
      (h.read r).step (op.toOp h.read) := by
  have hc : op.Compat (h.copy r).2 := by
    cases op with
    | plain op => trivial
    | unionUpdate o ig => exact Or.inr (disjoint_new (hor o (by simp [HOpG.refs])) _).symm
    | intersectionUpdate o ig => exact Or.inr (disjoint_new (hor o (by simp [HOpG.refs])) _).symm
  have key := step_refines (h := (h.copy r).1) (r := (h.copy r).2) (op := op) (valid_new _ _) hc
  rw [key]
  have e1 : (h.copy r).1.read (h.copy r).2 = h.read r := by
    simp only [Heap.copy, read_new, copy_eq]
  have e2 : op.toOp (h.copy r).1.read = op.toOp h.read := by
    cases op with
    | plain op => rfl
    | unionUpdate o ig =>
      simp only [HOpG.toOp, Heap.copy, read_new_old (hor o (by simp [HOpG.refs]))]
    | intersectionUpdate o ig =>
      simp only [HOpG.toOp, Heap.copy, read_new_old (hor o (by simp [HOpG.refs]))]
  rw [e1, e2]

theorem union_eq (h : Heap) (r other : DRef) (ig : Bool) :
    h.union r other ig =
      match (h.copy r).1.step (h.copy r).2 (.unionUpdate other ig) with
      | .ok (h2, _) => .ok (h2, (h.copy r).2)
      | .error e => .error e := rfl

theorem intersection_eq (h : Heap) (r other : DRef) (ig : Bool) :
    h.intersection r other ig =
      match (h.copy r).1.step (h.copy r).2 (.intersectionUpdate other ig) with
      | .ok (h2, _) => .ok (h2, (h.copy r).2)
      | .error e => .error e := rfl

theorem union_refines {h : Heap} {r other : DRef} {ig : Bool} (ho : other.Valid h) :
    (h.union r other ig).map (fun x => x.1.read x.2) = (h.read r).union (h.read other) ig := by
  have key := copy_step_refines (h := h) (r := r) (op := .unionUpdate other ig)
    (by intro o ho'; simp only [HOpG.refs, List.mem_singleton] at ho'; exact ho' ▸ ho)
  simp only [HOpG.toOp] at key
  unfold Defn.union
  rw [← key, union_eq]
  cases (h.copy r).1.step (h.copy r).2 (.unionUpdate other ig) with
  | error e => rfl
  | ok x => rfl

theorem intersection_refines {h : Heap} {r other : DRef} {ig : Bool} (ho : other.Valid h) :
    (h.intersection r other ig).map (fun x => x.1.read x.2) =
      (h.read r).intersection (h.read other) ig := by
  have key := copy_step_refines (h := h) (r := r) (op := .intersectionUpdate other ig)
    (by intro o ho'; simp only [HOpG.refs, List.mem_singleton] at ho'; exact ho' ▸ ho)
  simp only [HOpG.toOp] at key
  unfold Defn.intersection
  rw [← key, intersection_eq]
  cases (h.copy r).1.step (h.copy r).2 (.intersectionUpdate other ig) with
  | error e => rfl
  | ok x => rfl

/-- every deriving call on the heap, read back, is the value-level call -/
theorem derive_refines {h : Heap} {r : DRef} {op : DOp} (hor : ∀ o ∈ op.refs, o.Valid h) :
    (h.derive r op).map (fun x => x.1.read x.2) = (h.read r).derive h.read op := by
  cases op with
  | copy => simp only [Heap.derive, Defn.derive, Except.map, Heap.copy, read_new]
  | inverted => simp only [Heap.derive, Defn.derive, Except.map, Heap.inverted, read_new]
  | transposed => simp only [Heap.derive, Defn.derive, Except.map, Heap.transposed, read_new]
  | take a b ro =>
    simp only [Heap.derive, Defn.derive, Heap.take]
    cases (h.read r).take a b ro with
    | error e => rfl
    | ok d => simp only [Except.map, read_new]
  | union o ig =>
    simp only [Heap.derive, Defn.derive]
    rw [← union_refines (hor o (by simp [DOpG.refs]))]
    cases h.union r o ig <;> rfl
  | intersection o ig =>
    simp only [Heap.derive, Defn.derive]
    rw [← intersection_refines (hor o (by simp [DOpG.refs]))]
    cases h.intersection r o ig <;> rfl

/-- the returned object consists of the three next addresses; everything that existed is untouched -/
theorem derive_fresh {h h' : Heap} {r res : DRef} {op : DOp} (hs : h.derive r op = .ok (h', res)) :
    res = ⟨h.length, h.length + 1, h.length + 2⟩ ∧ h'.length = h.length + 3 ∧
    ∀ a, a < h.length → h'[a]? = h[a]? := by
  have hnew : ∀ d : Defn, (h.new d).2 = ⟨h.length, h.length + 1, h.length + 2⟩ ∧
      (h.new d).1.length = h.length + 3 ∧ ∀ a, a < h.length → (h.new d).1[a]? = h[a]? :=
    fun d => ⟨rfl, new_length h d, fun a ha => new_prefix h d ha⟩
  have hupd : ∀ (uop : HOp) (h2 : Heap) (ret : List Name),
      (h.copy r).1.step (h.copy r).2 uop = .ok (h2, ret) →
      h2.length = h.length + 3 ∧ ∀ a, a < h.length → h2[a]? = h[a]? := by
    intro uop h2 ret hs2
    obtain ⟨l, u⟩ := step_untouched hs2
    refine ⟨l.trans (new_length _ _), fun a ha => ?_⟩
    rw [u a, Heap.copy, new_prefix _ _ ha]
    simp only [Heap.copy, Heap.new, DRef.addrs, List.mem_cons, List.not_mem_nil, or_false]
    omega
  cases op with
  | copy => cases hs; exact hnew _
  | inverted => cases hs; exact hnew _
  | transposed => cases hs; exact hnew _
  | take a b ro =>
    simp only [Heap.derive, Heap.take] at hs
    split at hs
    · cases hs; exact hnew _
    · cases hs
  | union o ig =>
    simp only [Heap.derive, union_eq] at hs
    cases hs2 : (h.copy r).1.step (h.copy r).2 (.unionUpdate o ig) with
    | error e => rw [hs2] at hs; cases hs
    | ok x =>
      rw [hs2] at hs
      cases hs
      exact ⟨rfl, hupd _ _ _ hs2⟩
  | intersection o ig =>
    simp only [Heap.derive, intersection_eq] at hs
    cases hs2 : (h.copy r).1.step (h.copy r).2 (.intersectionUpdate o ig) with
    | error e => rw [hs2] at hs; cases hs
    | ok x =>
      rw [hs2] at hs
      cases hs
      exact ⟨rfl, hupd _ _ _ hs2⟩

/-! ### histories -/

theorem run_untouched (h : Heap) (steps : List (DRef × HOp)) :
    (h.run steps).length = h.length ∧
    ∀ a, (∀ s ∈ steps, a ∉ s.1.addrs) → (h.run steps)[a]? = h[a]? := by
  induction steps generalizing h with
  | nil => exact ⟨rfl, fun _ _ => rfl⟩
  | cons s rest ih =>
    obtain ⟨r, op⟩ := s
    unfold Heap.run
    split
    · rename_i h' ret hs
      obtain ⟨l1, u1⟩ := step_untouched hs
      obtain ⟨l2, u2⟩ := ih h'
      refine ⟨l2.trans l1, fun a ha => ?_⟩
      rw [u2 a (fun s hs' => ha s (List.mem_cons_of_mem _ hs')), u1 a (ha (r, op) List.mem_cons_self)]
    · obtain ⟨l2, u2⟩ := ih h
      exact ⟨l2, fun a ha => u2 a (fun s hs' => ha s (List.mem_cons_of_mem _ hs'))⟩

/-! ### programs: reference semantics = value semantics -/

/-- all variables name existing objects, and no two variables share an object -/
def PState.WF (s : PState) : Prop :=
  (∀ r ∈ s.vars, r.Valid s.heap) ∧ s.vars.Pairwise DRef.Disjoint

/-- the values the variables denote -/
def PState.vals (s : PState) : List Defn := s.vars.map s.heap.read

theorem toOp_mapRef {ρ σ : Type} (op : HOpG ρ) (f : ρ → σ) (val : σ → Defn) (val' : ρ → Defn)
    (h : ∀ j ∈ op.refs, val (f j) = val' j) : (op.mapRef f).toOp val = op.toOp val' := by
  cases op with
  | plain op => rfl
  | unionUpdate o ig => simp only [HOpG.mapRef, HOpG.toOp, h o (by simp [HOpG.refs])]
  | intersectionUpdate o ig => simp only [HOpG.mapRef, HOpG.toOp, h o (by simp [HOpG.refs])]

theorem derive_mapRef {ρ σ : Type} (d : Defn) (op : DOpG ρ) (f : ρ → σ) (val : σ → Defn)
    (val' : ρ → Defn) (h : ∀ j ∈ op.refs, val (f j) = val' j) :
    d.derive val (op.mapRef f) = d.derive val' op := by
  cases op with
  | copy => rfl
  | inverted => rfl
  | transposed => rfl
  | take a b r => rfl
  | union o ig => simp only [DOpG.mapRef, Defn.derive, h o (by simp [DOpG.refs])]
  | intersection o ig => simp only [DOpG.mapRef, Defn.derive, h o (by simp [DOpG.refs])]

theorem refs_mapRef_h {ρ σ : Type} (op : HOpG ρ) (f : ρ → σ) : (op.mapRef f).refs = op.refs.map f := by
  cases op <;> rfl

theorem refs_mapRef_d {ρ σ : Type} (op : DOpG ρ) (f : ρ → σ) : (op.mapRef f).refs = op.refs.map f := by
  cases op <;> rfl

theorem PState.var_eq (s : PState) {i : Nat} (hi : i < s.vars.length) : s.var i = s.vars[i] := by
  simp [PState.var, List.getD_eq_getElem?_getD, hi]

theorem PState.vals_getD (s : PState) {i : Nat} (hi : i < s.vars.length) :
    s.vals.getD i Defn.empty = s.heap.read (s.var i) := by
  simp [PState.vals, List.getD_eq_getElem?_getD, hi, PState.var]

theorem PState.WF.disjoint {s : PState} (hw : s.WF) {i j : Nat} (hi : i < s.vars.length)
    (hj : j < s.vars.length) (hij : i ≠ j) : s.vars[i].Disjoint s.vars[j] := by
  have hp := hw.2
  rw [List.pairwise_iff_getElem] at hp
  rcases Nat.lt_or_gt_of_ne hij with h | h
  · exact hp i j hi hj h
  · exact (hp j i hj hi h).symm

theorem wf_append {s : PState} (hw : s.WF) {h' : Heap} {res : DRef}
    (hres : res = ⟨s.heap.length, s.heap.length + 1, s.heap.length + 2⟩)
    (hl : h'.length = s.heap.length + 3) : PState.WF ⟨h', s.vars ++ [res]⟩ := by
  constructor
  · intro r hr
    simp only [List.mem_append, List.mem_singleton] at hr
    rcases hr with hr | rfl
    · exact valid_mono (hw.1 r hr) (by show s.heap.length ≤ h'.length; omega)
    · subst hres; simp only [DRef.Valid]; omega
  · simp only
    rw [List.pairwise_append]
    refine ⟨hw.2, List.pairwise_singleton _ _, ?_⟩
    intro a ha b hb
    simp only [List.mem_singleton] at hb
    subst hb hres
    have := hw.1 a ha
    intro x hx hx'
    simp only [DRef.addrs, List.mem_cons, List.not_mem_nil, or_false] at hx hx'
    unfold DRef.Valid at this
    omega

theorem vals_append {s : PState} (hw : s.WF) {h' : Heap} {res : DRef}
    (hu : ∀ a, a < s.heap.length → h'[a]? = s.heap[a]?) :
    PState.vals ⟨h', s.vars ++ [res]⟩ = s.vals ++ [h'.read res] := by
  simp only [PState.vals, List.map_append, List.map_cons, List.map_nil, List.append_cancel_right_eq]
  apply List.map_congr_left
  intro r hr
  apply read_congr
  intro a ha
  apply hu
  have := hw.1 r hr
  simp only [DRef.addrs, List.mem_cons, List.not_mem_nil, or_false] at ha
  unfold DRef.Valid at this
  omega

/-- one command: the heap-level run and the value-level run stay in step, and show the same -/
theorem exec_sim {s : PState} (hw : s.WF) (c : Cmd) :
    (s.exec c).1.WF ∧ (s.exec c).1.vals = (vexec s.vals c).1 ∧ (s.exec c).2 = (vexec s.vals c).2 := by
  have hlen : s.vals.length = s.vars.length := by simp [PState.vals]
  cases c with
  | create os ps bs =>
    simp only [PState.exec, vexec]
    cases Defn.ofTriple os ps bs with
    | error e => exact ⟨hw, rfl, rfl⟩
    | ok d =>
      refine ⟨wf_append hw rfl (new_length _ _), ?_, rfl⟩
      rw [vals_append hw (fun a ha => new_prefix _ _ ha), read_new]
  | mutate i op =>
    simp only [PState.exec, vexec, hlen]
    split
    · rename_i hg
      simp only [Bool.and_eq_true, decide_eq_true_eq, List.all_eq_true] at hg
      obtain ⟨hi, hrefs⟩ := hg
      have hv : (s.var i).Valid s.heap := by
        rw [s.var_eq hi]; exact hw.1 _ (List.getElem_mem hi)
      have hc : (op.mapRef s.var).Compat (s.var i) := by
        have key : ∀ j, j < s.vars.length → s.var j = s.var i ∨ (s.var i).Disjoint (s.var j) := by
          intro j hj
          by_cases hij : i = j
          · subst hij; exact Or.inl rfl
          · rw [s.var_eq hi, s.var_eq hj]; exact Or.inr (hw.disjoint hi hj hij)
        cases op with
        | plain op => trivial
        | unionUpdate o ig => exact key o (hrefs o (by simp [HOpG.refs]))
        | intersectionUpdate o ig => exact key o (hrefs o (by simp [HOpG.refs]))
      have href := step_refines hv hc
      rw [toOp_mapRef op s.var s.heap.read (fun j => s.vals.getD j Defn.empty)
        (fun j hj => (s.vals_getD (hrefs j hj)).symm), ← s.vals_getD hi] at href
      cases hs : s.heap.step (s.var i) (op.mapRef s.var) with
      | error e =>
        rw [hs] at href
        simp only [Except.map] at href
        rw [← href]
        exact ⟨hw, rfl, rfl⟩
      | ok x =>
        obtain ⟨h', ret⟩ := x
        rw [hs] at href
        simp only [Except.map] at href
        rw [← href]
        obtain ⟨hl, hu⟩ := step_untouched hs
        refine ⟨⟨fun r hr => valid_mono (hw.1 r hr) (by show s.heap.length ≤ h'.length; omega), hw.2⟩,
          ?_, rfl⟩
        simp only [PState.vals]
        apply List.ext_getElem
        · simp
        · intro k hk1 hk2
          have hk : k < s.vars.length := by simpa using hk1
          simp only [List.getElem_map, List.getElem_set]
          by_cases hik : i = k
          · subst hik; simp only [if_true, s.var_eq hi]
          · simp only [hik, if_false]
            have hd := hw.disjoint hi hk hik
            rw [← s.var_eq hi] at hd
            exact step_frame hd hs
    · exact ⟨hw, rfl, rfl⟩
  | derive i op =>
    simp only [PState.exec, vexec, hlen]
    split
    · rename_i hg
      simp only [Bool.and_eq_true, decide_eq_true_eq, List.all_eq_true] at hg
      obtain ⟨hi, hrefs⟩ := hg
      have hor : ∀ o ∈ (op.mapRef s.var).refs, o.Valid s.heap := by
        intro o ho
        rw [refs_mapRef_d, List.mem_map] at ho
        obtain ⟨j, hj, rfl⟩ := ho
        rw [s.var_eq (hrefs j hj)]
        exact hw.1 _ (List.getElem_mem _)
      have href := derive_refines (h := s.heap) (r := s.var i) hor
      rw [derive_mapRef _ op s.var s.heap.read (fun j => s.vals.getD j Defn.empty)
        (fun j hj => (s.vals_getD (hrefs j hj)).symm), ← s.vals_getD hi] at href
      cases hs : s.heap.derive (s.var i) (op.mapRef s.var) with
      | error e =>
        rw [hs] at href
        simp only [Except.map] at href
        rw [← href]
        exact ⟨hw, rfl, rfl⟩
      | ok x =>
        obtain ⟨h', res⟩ := x
        rw [hs] at href
        simp only [Except.map] at href
        rw [← href]
        obtain ⟨hres, hl, hu⟩ := derive_fresh hs
        exact ⟨wf_append hw hres hl, vals_append hw hu, rfl⟩
    · exact ⟨hw, rfl, rfl⟩

/-- whole programs -/
theorem execAll_sim {s : PState} (hw : s.WF) (cs : List Cmd) :
    (s.execAll cs).1.WF ∧ (s.execAll cs).1.vals = (vexecAll s.vals cs).1 ∧
    (s.execAll cs).2 = (vexecAll s.vals cs).2 := by
  induction cs generalizing s with
  | nil => exact ⟨hw, rfl, rfl⟩
  | cons c cs ih =>
    obtain ⟨w1, v1, o1⟩ := exec_sim hw c
    obtain ⟨w2, v2, o2⟩ := ih w1
    simp only [PState.execAll, vexecAll]
    rw [← v1, ← o1]
    exact ⟨w2, v2, by rw [o2]⟩

theorem wf_init : PState.WF ⟨[], []⟩ := ⟨by simp, List.Pairwise.nil⟩

end FCA
