import FCA.Model.Defn
import Mathlib.Tactic
import Mathlib.Data.List.Basic
/-
Helper lemmas for the `Definition` model: `tools.Unique` operations on duplicate-free name lists
and the set of true cells.
-/
namespace FCA

/-! ### `bne` / `contains` on names and cells -/

theorem bne_iff {α : Type} [BEq α] [LawfulBEq α] {a b : α} : (a != b) = true ↔ a ≠ b := by
  simp

/-! ### `uniq` -/

@[simp] theorem mem_uniq {x : Name} {l : List Name} : x ∈ uniq l ↔ x ∈ l := by
  induction l with
  | nil => simp [uniq]
  | cons y ys ih =>
    simp only [uniq, List.mem_cons, List.mem_filter, ih, bne_iff]
    by_cases h : x = y <;> simp [h]

theorem nodup_uniq (l : List Name) : (uniq l).Nodup := by
  induction l with
  | nil => simp [uniq]
  | cons y ys ih =>
    simp only [uniq, List.nodup_cons, List.mem_filter, bne_iff]
    exact ⟨fun h => h.2 rfl, ih.filter _⟩

theorem uniq_filter (p : Name → Bool) (l : List Name) : uniq (l.filter p) = (uniq l).filter p := by
  induction l with
  | nil => simp [uniq]
  | cons y ys ih =>
    by_cases h : p y = true
    · simp only [List.filter_cons, h, if_true, uniq, ih, List.filter_filter]
      congr 1
      apply List.filter_congr
      intro x _
      exact Bool.and_comm _ _
    · simp only [List.filter_cons, h, uniq, ih, List.filter_filter]
      simp only [Bool.false_eq_true, if_false]
      rw [ih]
      apply List.filter_congr
      intro x _
      by_cases hx : x = y
      · subst hx; simp [h]
      · simp [hx]

theorem uniq_of_nodup {l : List Name} (h : l.Nodup) : uniq l = l := by
  induction l with
  | nil => simp [uniq]
  | cons y ys ih =>
    rw [List.nodup_cons] at h
    simp only [uniq, ih h.2]
    congr 1
    rw [List.filter_eq_self]
    intro x hx
    simp only [bne_iff]
    rintro rfl
    exact h.1 hx

theorem length_uniq_le (l : List Name) : (uniq l).length ≤ l.length := by
  induction l with
  | nil => simp [uniq]
  | cons y ys ih =>
    simp only [uniq, List.length_cons]
    have := List.length_filter_le (fun x => x != y) (uniq ys)
    omega

theorem length_uniq_eq_iff {l : List Name} : (uniq l).length = l.length ↔ l.Nodup := by
  constructor
  · induction l with
    | nil => simp
    | cons y ys ih =>
      intro h
      simp only [uniq, List.length_cons] at h
      have h1 := List.length_filter_le (fun x => x != y) (uniq ys)
      have h2 := length_uniq_le ys
      have h3 : ((uniq ys).filter (fun x => x != y)).length = (uniq ys).length := by omega
      have h4 : (uniq ys).length = ys.length := by omega
      rw [List.nodup_cons]
      refine ⟨fun hy => ?_, ih h4⟩
      have h5 := List.length_filter_eq_length_iff.mp h3 y (mem_uniq.mpr hy)
      simp at h5
  · intro h; rw [uniq_of_nodup h]

/-! ### `uAdd`, `uIor`, `uIand` -/

@[simp] theorem mem_uAdd {l : List Name} {x y : Name} : y ∈ uAdd l x ↔ y ∈ l ∨ y = x := by
  unfold uAdd
  split
  · rename_i h
    rw [List.contains_iff_mem] at h
    constructor
    · exact Or.inl
    · rintro (h' | rfl) <;> assumption
  · simp

theorem nodup_uAdd {l : List Name} {x : Name} (h : l.Nodup) : (uAdd l x).Nodup := by
  unfold uAdd
  split
  · exact h
  · rename_i hx
    rw [List.contains_iff_mem] at hx
    rw [List.nodup_append]
    refine ⟨h, by simp, ?_⟩
    intro a ha b hb
    simp only [List.mem_singleton] at hb
    subst hb
    rintro rfl
    exact hx ha

theorem uAdd_of_mem {l : List Name} {x : Name} (h : x ∈ l) : uAdd l x = l := by
  simp [uAdd, h]

theorem uAdd_of_not_mem {l : List Name} {x : Name} (h : x ∉ l) : uAdd l x = l ++ [x] := by
  simp [uAdd, h]

/-- new names are appended in the order given -/
theorem uIor_eq (l xs : List Name) :
    uIor l xs = l ++ uniq (xs.filter (fun x => !l.contains x)) := by
  induction xs generalizing l with
  | nil => simp [uIor, uniq]
  | cons x xs ih =>
    have hstep : uIor l (x :: xs) = uIor (uAdd l x) xs := rfl
    rw [hstep, ih]
    by_cases hx : x ∈ l
    · rw [uAdd_of_mem hx]
      simp [List.filter_cons, hx]
    · rw [uAdd_of_not_mem hx]
      simp only [List.filter_cons, List.contains_eq_mem, hx, decide_false, Bool.not_false, if_true,
        uniq, List.append_assoc, List.singleton_append]
      congr 2
      rw [← uniq_filter, List.filter_filter]
      congr 1
      apply List.filter_congr
      intro y _
      by_cases hy : y = x
      · subst hy; simp
      · simp [hy]

@[simp] theorem mem_uIor {l xs : List Name} {y : Name} : y ∈ uIor l xs ↔ y ∈ l ∨ y ∈ xs := by
  rw [uIor_eq]
  simp only [List.mem_append, mem_uniq, List.mem_filter, List.contains_eq_mem, Bool.not_eq_true',
    decide_eq_false_iff_not]
  tauto

theorem nodup_uIor {l xs : List Name} (h : l.Nodup) : (uIor l xs).Nodup := by
  rw [uIor_eq, List.nodup_append]
  refine ⟨h, nodup_uniq _, ?_⟩
  intro a ha b hb
  simp only [mem_uniq, List.mem_filter, List.contains_eq_mem, Bool.not_eq_true',
    decide_eq_false_iff_not] at hb
  rintro rfl
  exact hb.2 ha

@[simp] theorem mem_uIand {l xs : List Name} {y : Name} : y ∈ uIand l xs ↔ y ∈ l ∧ y ∈ xs := by
  simp [uIand]

theorem nodup_uIand {l xs : List Name} (h : l.Nodup) : (uIand l xs).Nodup := h.filter _

/-! ### `uReplace` -/

theorem uReplace_ok {l l' : List Name} {old new : Name} (h : uReplace l old new = .ok l') :
    new ∉ l ∧ old ∈ l ∧ l' = l.map fun x => if x == old then new else x := by
  unfold uReplace at h
  split at h
  · cases h
  · rename_i hn
    split at h
    · rename_i ho
      rw [List.contains_iff_mem] at ho
      rw [List.contains_iff_mem] at hn
      cases h
      exact ⟨hn, ho, rfl⟩
    · cases h

theorem uReplace_error_iff {l : List Name} {old new : Name} :
    (∃ e, uReplace l old new = .error e) ↔ new ∈ l ∨ old ∉ l := by
  unfold uReplace
  by_cases hn : new ∈ l
  · simp [hn]
  · by_cases ho : old ∈ l <;> simp [hn, ho]

theorem mem_replace {l : List Name} {old new y : Name} :
    y ∈ (l.map fun x => if x == old then new else x) ↔ (y ∈ l ∧ y ≠ old) ∨ (y = new ∧ old ∈ l) := by
  simp only [List.mem_map]
  constructor
  · rintro ⟨x, hx, rfl⟩
    by_cases h : x = old
    · subst h; simp [hx]
    · simp [h, hx]
  · rintro (⟨hy, hne⟩ | ⟨rfl, ho⟩)
    · exact ⟨y, hy, by simp [hne]⟩
    · exact ⟨old, ho, by simp⟩

theorem nodup_replace {l : List Name} {old new : Name} (h : l.Nodup) (hn : new ∉ l) :
    (l.map fun x => if x == old then new else x).Nodup := by
  apply List.Nodup.map_on _ h
  intro x hx y hy hxy
  by_cases h1 : x = old <;> by_cases h2 : y = old <;> simp [h1, h2] at hxy
  · rw [h1, h2]
  · subst hxy; exact absurd hy hn
  · subst hxy; exact absurd hx hn
  · exact hxy

/-! ### `uMove` -/

theorem pyInsert_perm (l : List Name) (i : Int) (x : Name) : (pyInsert l i x).Perm (x :: l) := by
  unfold pyInsert
  simp only [List.append_assoc, List.singleton_append]
  refine List.perm_middle.trans ?_
  rw [List.take_append_drop]

theorem uMove_perm {l l' : List Name} {x : Name} {i : Int} (h : uMove l x i = .ok l') :
    l'.Perm l ∧ x ∈ l := by
  unfold uMove at h
  split at h
  · cases h
  · rename_i idx hidx
    rw [List.findIdx?_eq_some_iff_getElem] at hidx
    obtain ⟨hlt, hx, _⟩ := hidx
    have hx' : l[idx] = x := by simpa using hx
    have hmem : x ∈ l := hx' ▸ List.getElem_mem hlt
    split at h
    · cases h; exact ⟨List.Perm.refl _, hmem⟩
    · cases h
      refine ⟨(pyInsert_perm _ _ _).trans ?_, hmem⟩
      rw [← hx']
      exact List.getElem_cons_eraseIdx_perm hlt

theorem uMove_error_iff {l : List Name} {x : Name} {i : Int} :
    (∃ e, uMove l x i = .error e) ↔ x ∉ l := by
  unfold uMove
  split
  · rename_i h
    rw [List.findIdx?_eq_none_iff] at h
    refine ⟨fun _ hx => ?_, fun _ => ⟨_, rfl⟩⟩
    have := h x hx
    simp at this
  · rename_i idx hidx
    rw [List.findIdx?_eq_some_iff_getElem] at hidx
    obtain ⟨hlt, hx, _⟩ := hidx
    have hx' : l[idx] = x := by simpa using hx
    have hmem : x ∈ l := hx' ▸ List.getElem_mem hlt
    split <;> simp [hmem]

/-! ### cells: `pAdd`, `pDiscard` -/

abbrev Cell := Name × Name

@[simp] theorem mem_pAdd {ps : List Cell} {p q : Cell} : q ∈ pAdd ps p ↔ q ∈ ps ∨ q = p := by
  unfold pAdd
  split
  · rename_i h
    rw [List.contains_iff_mem] at h
    constructor
    · exact Or.inl
    · rintro (h' | rfl) <;> assumption
  · simp

theorem nodup_pAdd {ps : List Cell} {p : Cell} (h : ps.Nodup) : (pAdd ps p).Nodup := by
  unfold pAdd
  split
  · exact h
  · rename_i hx
    rw [List.contains_iff_mem] at hx
    rw [List.nodup_append]
    refine ⟨h, by simp, ?_⟩
    intro a ha b hb
    simp only [List.mem_singleton] at hb
    subst hb
    rintro rfl
    exact hx ha

@[simp] theorem mem_pDiscard {ps : List Cell} {p q : Cell} : q ∈ pDiscard ps p ↔ q ∈ ps ∧ q ≠ p := by
  simp [pDiscard]

theorem nodup_pDiscard {ps : List Cell} {p : Cell} (h : ps.Nodup) : (pDiscard ps p).Nodup :=
  h.filter _

theorem mem_foldl_pAdd {xs acc : List Cell} {q : Cell} :
    q ∈ xs.foldl pAdd acc ↔ q ∈ acc ∨ q ∈ xs := by
  induction xs generalizing acc with
  | nil => simp
  | cons x xs ih => simp only [List.foldl_cons, ih, mem_pAdd, List.mem_cons]; tauto

theorem nodup_foldl_pAdd {xs acc : List Cell} (h : acc.Nodup) : (xs.foldl pAdd acc).Nodup := by
  induction xs generalizing acc with
  | nil => simpa
  | cons x xs ih => exact ih (nodup_pAdd h)

theorem mem_foldl_pAdd_row {o : Name} {xs : List Name} {acc : List Cell} {q : Cell} :
    q ∈ xs.foldl (fun acc p => pAdd acc (o, p)) acc ↔ q ∈ acc ∨ (q.1 = o ∧ q.2 ∈ xs) := by
  induction xs generalizing acc with
  | nil => simp
  | cons x xs ih =>
    simp only [List.foldl_cons, ih, mem_pAdd, List.mem_cons]
    obtain ⟨a, b⟩ := q
    simp only [Prod.mk.injEq]
    tauto

theorem nodup_foldl_pAdd_row {o : Name} {xs : List Name} {acc : List Cell} (h : acc.Nodup) :
    (xs.foldl (fun acc p => pAdd acc (o, p)) acc).Nodup := by
  induction xs generalizing acc with
  | nil => simpa
  | cons x xs ih => exact ih (nodup_pAdd h)

theorem mem_foldl_pAdd_col {p : Name} {xs : List Name} {acc : List Cell} {q : Cell} :
    q ∈ xs.foldl (fun acc o => pAdd acc (o, p)) acc ↔ q ∈ acc ∨ (q.2 = p ∧ q.1 ∈ xs) := by
  induction xs generalizing acc with
  | nil => simp
  | cons x xs ih =>
    simp only [List.foldl_cons, ih, mem_pAdd, List.mem_cons]
    obtain ⟨a, b⟩ := q
    simp only [Prod.mk.injEq]
    tauto

theorem nodup_foldl_pAdd_col {p : Name} {xs : List Name} {acc : List Cell} (h : acc.Nodup) :
    (xs.foldl (fun acc o => pAdd acc (o, p)) acc).Nodup := by
  induction xs generalizing acc with
  | nil => simpa
  | cons x xs ih => exact ih (nodup_pAdd h)

/-- the row-assignment loop of `set_object` -/
theorem mem_foldl_setRow {o : Name} {ps L : List Name} {acc : List Cell} {q : Cell} :
    q ∈ L.foldl (fun acc p => if ps.contains p then pAdd acc (o, p) else pDiscard acc (o, p)) acc ↔
      if q.1 = o ∧ q.2 ∈ L then q.2 ∈ ps else q ∈ acc := by
  induction L generalizing acc with
  | nil => simp
  | cons x L ih =>
    simp only [List.foldl_cons, ih, List.mem_cons]
    obtain ⟨a, b⟩ := q
    simp only
    by_cases ha : a = o
    · by_cases hb : b ∈ L
      · simp [ha, hb]
      · by_cases hx : b = x
        · subst hx; subst ha
          by_cases hp : b ∈ ps <;> simp [hb, hp]
        · subst ha
          by_cases hp : x ∈ ps <;> simp [hb, hp, hx]
    · by_cases hp : x ∈ ps <;> simp [ha, hp]

theorem nodup_foldl_setRow {o : Name} {ps L : List Name} {acc : List Cell} (h : acc.Nodup) :
    (L.foldl (fun acc p => if ps.contains p then pAdd acc (o, p) else pDiscard acc (o, p)) acc).Nodup := by
  induction L generalizing acc with
  | nil => simpa
  | cons x L ih =>
    simp only [List.foldl_cons]
    apply ih
    split
    · exact nodup_pAdd h
    · exact nodup_pDiscard h

/-- the column-assignment loop of `set_property` -/
theorem mem_foldl_setCol {p : Name} {os L : List Name} {acc : List Cell} {q : Cell} :
    q ∈ L.foldl (fun acc o => if os.contains o then pAdd acc (o, p) else pDiscard acc (o, p)) acc ↔
      if q.2 = p ∧ q.1 ∈ L then q.1 ∈ os else q ∈ acc := by
  induction L generalizing acc with
  | nil => simp
  | cons x L ih =>
    simp only [List.foldl_cons, ih, List.mem_cons]
    obtain ⟨a, b⟩ := q
    simp only
    by_cases hb : b = p
    · by_cases ha : a ∈ L
      · simp [ha, hb]
      · by_cases hx : a = x
        · subst hx; subst hb
          by_cases hp : a ∈ os <;> simp [ha, hp]
        · subst hb
          by_cases hp : x ∈ os <;> simp [ha, hp, hx]
    · by_cases hp : x ∈ os <;> simp [hb, hp]

theorem nodup_foldl_setCol {p : Name} {os L : List Name} {acc : List Cell} (h : acc.Nodup) :
    (L.foldl (fun acc o => if os.contains o then pAdd acc (o, p) else pDiscard acc (o, p)) acc).Nodup := by
  induction L generalizing acc with
  | nil => simpa
  | cons x L ih =>
    simp only [List.foldl_cons]
    apply ih
    split
    · exact nodup_pAdd h
    · exact nodup_pDiscard h

/-! ### `eraseDups` -/

theorem nodup_eraseDups {α : Type} [BEq α] [LawfulBEq α] (l : List α) : l.eraseDups.Nodup := by
  induction hn : l.length using Nat.strong_induction_on generalizing l with
  | _ n ih =>
    cases l with
    | nil => simp
    | cons a as =>
      rw [List.eraseDups_cons, List.nodup_cons]
      constructor
      · simp [List.mem_eraseDups]
      · subst hn
        exact ih _ (by
          have := List.length_filter_le (fun b => !b == a) as
          simp only [List.length_cons]; omega) _ rfl

theorem zip_map_self {α β : Type} (l : List α) (f : α → β) :
    l.zip (l.map f) = l.map fun x => (x, f x) := by
  induction l with
  | nil => rfl
  | cons x xs ih => simp [ih]

end FCA
