import FCA.Model.Lindig
import Mathlib.Tactic
/-
What the `for n_extent, n_intent in neighbors(...)` body of `lindig.lattice` does to the mapping
and to the heap, as one explicit result.
-/
namespace FCA

def Rec.exts (recs : List Rec) : List Nat := recs.map (·.extent)

theorem recFind_isSome (recs : List Rec) (x : Nat) : (recFind recs x).isSome = true ↔ x ∈ Rec.exts recs := by
  unfold recFind Rec.exts
  rw [List.find?_isSome]
  simp only [beq_iff_eq, List.mem_map]

/-- update of an existing record when `e` is processed with neighbor extents `ns` -/
def Rec.upd (e : Nat) (ns : List Nat) (r : Rec) : Rec :=
  { r with upper := r.upper ++ (if r.extent = e then ns else []),
           lower := r.lower ++ (if r.extent ∈ ns then [e] else []) }

@[simp] theorem Rec.upd_extent (e : Nat) (ns : List Nat) (r : Rec) : (Rec.upd e ns r).extent = r.extent := rfl
@[simp] theorem Rec.upd_intent (e : Nat) (ns : List Nat) (r : Rec) : (Rec.upd e ns r).intent = r.intent := rfl

def stepU (e ne : Nat) (r : Rec) : Rec := if r.extent == e then { r with upper := r.upper ++ [ne] } else r
def stepL (e ne : Nat) (r : Rec) : Rec := if r.extent == ne then { r with lower := r.lower ++ [e] } else r

theorem appendUpper_eq (recs : List Rec) (e ne : Nat) : appendUpper recs e ne = recs.map (stepU e ne) := rfl
theorem appendLower_eq (recs : List Rec) (ne e : Nat) : appendLower recs ne e = recs.map (stepL e ne) := rfl

@[simp] theorem stepU_extent (e ne : Nat) (r : Rec) : (stepU e ne r).extent = r.extent := by
  unfold stepU; split <;> rfl
@[simp] theorem stepL_extent (e ne : Nat) (r : Rec) : (stepL e ne r).extent = r.extent := by
  unfold stepL; split <;> rfl

theorem upd_found (e ne : Nat) (ns : List Nat) (hne : ne ∉ ns) (r : Rec) :
    Rec.upd e ns (stepL e ne (stepU e ne r)) = Rec.upd e (ne :: ns) r := by
  obtain ⟨x, i, u, l⟩ := r
  by_cases h1 : x = e <;> by_cases h2 : x = ne
  · subst h1; subst h2; simp [Rec.upd, stepU, stepL, hne]
  · subst h1; simp [Rec.upd, stepU, stepL, h2]
  · subst h2; simp [Rec.upd, stepU, stepL, h1, hne]
  · simp [Rec.upd, stepU, stepL, h1, h2]

theorem upd_new (e ne : Nat) (ns : List Nat) (r : Rec) (hr : r.extent ≠ ne) :
    Rec.upd e ns (stepU e ne r) = Rec.upd e (ne :: ns) r := by
  obtain ⟨x, i, u, l⟩ := r
  simp only at hr
  by_cases h1 : x = e
  · subst h1; simp [Rec.upd, stepU, hr]
  · simp [Rec.upd, stepU, h1, hr]

theorem Rec.upd_nil (e : Nat) (r : Rec) : Rec.upd e [] r = r := by
  obtain ⟨x, i, u, l⟩ := r; simp [Rec.upd]

/-- the neighbors that are not yet keys of the mapping -/
def newOnes (nbs : List (Nat × Nat)) (recs : List Rec) : List (Nat × Nat) :=
  nbs.filter (fun p => decide (p.1 ∉ Rec.exts recs))

def linkResult (e : Nat) (nbs : List (Nat × Nat)) (recs : List Rec) : List Rec :=
  recs.map (Rec.upd e (nbs.map Prod.fst)) ++ (newOnes nbs recs).map (fun p => ⟨p.1, p.2, [], [e]⟩)

@[simp] theorem exts_map_stepU (recs : List Rec) (e x : Nat) : Rec.exts (recs.map (stepU e x)) = Rec.exts recs := by
  unfold Rec.exts; rw [List.map_map]; apply List.map_congr_left; intro r _; simp
@[simp] theorem exts_map_stepL (recs : List Rec) (e x : Nat) : Rec.exts (recs.map (stepL e x)) = Rec.exts recs := by
  unfold Rec.exts; rw [List.map_map]; apply List.map_congr_left; intro r _; simp

theorem newOnes_congr (nbs : List (Nat × Nat)) (r1 r2 : List Rec) (h : Rec.exts r1 = Rec.exts r2) :
    newOnes nbs r1 = newOnes nbs r2 := by unfold newOnes; rw [h]

theorem linkNeighbors_eq (e : Nat) : ∀ (nbs : List (Nat × Nat)) (recs : List Rec) (heap : List Nat),
    (nbs.map Prod.fst).Nodup → e ∈ Rec.exts recs →
    linkNeighbors e nbs recs heap = (linkResult e nbs recs, heap ++ (newOnes nbs recs).map Prod.fst) := by
  intro nbs
  induction nbs with
  | nil =>
    intro recs heap _ _
    simp only [linkNeighbors, linkResult, newOnes, List.map_nil, List.filter_nil, List.append_nil]
    congr 1
    conv_lhs => rw [← List.map_id recs]
    apply List.map_congr_left
    intro r _
    simp [Rec.upd_nil]
  | cons p rest ih =>
    intro recs heap hnd he
    obtain ⟨ne, ni⟩ := p
    simp only [List.map_cons, List.nodup_cons] at hnd
    obtain ⟨hne_rest, hnd_rest⟩ := hnd
    unfold linkNeighbors
    simp only []
    by_cases hin : ne ∈ Rec.exts recs
    · have hsome : (recFind (appendUpper recs e ne) ne).isSome = true := by
        rw [recFind_isSome, appendUpper_eq, exts_map_stepU]; exact hin
      rw [if_pos hsome, appendUpper_eq, appendLower_eq]
      have hx : Rec.exts ((recs.map (stepU e ne)).map (stepL e ne)) = Rec.exts recs := by
        rw [exts_map_stepL, exts_map_stepU]
      have he' : e ∈ Rec.exts ((recs.map (stepU e ne)).map (stepL e ne)) := by rw [hx]; exact he
      rw [ih _ heap hnd_rest he']
      have hnew : newOnes ((ne, ni) :: rest) recs = newOnes rest recs := by
        unfold newOnes; rw [List.filter_cons]; simp [hin]
      have hnew2 : newOnes rest ((recs.map (stepU e ne)).map (stepL e ne)) = newOnes rest recs :=
        newOnes_congr _ _ _ hx
      rw [hnew, hnew2]
      congr 1
      unfold linkResult
      rw [hnew2, hnew]
      congr 1
      rw [List.map_map, List.map_map]
      apply List.map_congr_left
      intro r _
      simp only [Function.comp, List.map_cons]
      exact upd_found e ne _ hne_rest r
    · have hnone : ¬ (recFind (appendUpper recs e ne) ne).isSome = true := by
        rw [recFind_isSome, appendUpper_eq, exts_map_stepU]; exact hin
      rw [if_neg hnone, appendUpper_eq]
      have hee : ne ≠ e := fun h => hin (h ▸ he)
      have hexts : Rec.exts (recs.map (stepU e ne) ++ [(⟨ne, ni, [], [e]⟩ : Rec)]) = Rec.exts recs ++ [ne] := by
        have := exts_map_stepU recs e ne
        simp only [Rec.exts, List.map_append, List.map_cons, List.map_nil] at this ⊢
        rw [this]
      have he' : e ∈ Rec.exts (recs.map (stepU e ne) ++ [(⟨ne, ni, [], [e]⟩ : Rec)]) := by
        rw [hexts]; simp [he]
      rw [ih _ (heap ++ [ne]) hnd_rest he']
      have hnew : newOnes ((ne, ni) :: rest) recs = (ne, ni) :: newOnes rest recs := by
        unfold newOnes; rw [List.filter_cons]; simp [hin]
      have hnew2 : newOnes rest (recs.map (stepU e ne) ++ [(⟨ne, ni, [], [e]⟩ : Rec)]) = newOnes rest recs := by
        unfold newOnes
        apply List.filter_congr
        intro q hq
        rw [hexts]
        have : q.1 ≠ ne := by
          intro h; exact hne_rest (h ▸ List.mem_map_of_mem hq)
        simp [this]
      rw [hnew, hnew2]
      congr 1
      · unfold linkResult
        rw [hnew2, hnew, List.map_append, List.map_cons, List.map_cons, List.map_nil]
        have hupd : Rec.upd e (rest.map Prod.fst) ⟨ne, ni, [], [e]⟩ = ⟨ne, ni, [], [e]⟩ := by
          simp [Rec.upd, hee, hne_rest]
        rw [hupd]
        simp only [List.append_assoc, List.cons_append, List.nil_append]
        congr 1
        rw [List.map_map]
        apply List.map_congr_left
        intro r hr
        have hrne : r.extent ≠ ne := by
          intro h; exact hin (h ▸ List.mem_map_of_mem hr)
        simp only [Function.comp, List.map_cons]
        exact upd_new e ne _ r hrne
      · simp

theorem exts_linkResult (e : Nat) (nbs : List (Nat × Nat)) (recs : List Rec) :
    Rec.exts (linkResult e nbs recs) = Rec.exts recs ++ (newOnes nbs recs).map Prod.fst := by
  unfold linkResult Rec.exts
  rw [List.map_append, List.map_map, List.map_map]
  congr 1

end FCA
