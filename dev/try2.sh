#!/bin/sh
# usage: dev/try2.sh <mutant dir> <property id> [tier] -- runs in the private worktree /tmp/mut/dev
WT=/tmp/mut/dev; M=$1; P=$2; TIER=${3:-quick}
git -C $WT checkout -q -- . || exit 9
(cd $WT && PYTHONPATH=$WT /venv/bin/python $M/demo.py >/dev/null 2>&1); CLEAN=$?
git -C $WT apply $M/patch.diff || { echo "patch does not apply"; exit 9; }
SUITE=$(cd $WT && /venv/bin/python -m pytest -q -p no:cacheprovider 2>&1 | tail -1)
(cd $WT && PYTHONPATH=$WT /venv/bin/python $M/demo.py >/dev/null 2>&1); MUT=$?
OUT=$(cd /verif && VERIF_REPO=$WT timeout 1500 ./check $P --tier $TIER 2>/dev/null | grep -E "VIOLATION|PASS|INTERNAL|KNOWN" | tr '\n' ' ')
git -C $WT checkout -q -- .
echo "$P $(basename $(dirname $M))/$(basename $M): demo clean=$CLEAN mutated=$MUT suite=[$SUITE] check=[$OUT]"
