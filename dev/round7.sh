#!/bin/sh
# run every round-3 candidate through dev/try2.sh (sequential; private worktree)
for P in C01 C02 C03 C04 C05 C06 C07 C08 C09 C10 C11 C12 C13 C14 C15 C16 C17 C18 C19 C20; do
  for K in m1 m2; do
    [ -f /tmp/mut/out7/$P/$K/patch.diff ] || continue
    sh /verif/dev/try2.sh /tmp/mut/out7/$P/$K $P
  done
done
