import FCA.Model.Junctors
import FCA.Model.Lattice
import FCA.Model.Misc
import FCA.Model.Formats
/-
Model of the text / dispatch pieces that sit on top of the index-level model:

* `Relations.tostring` / `Relations.__str__` (`concepts/junctors.py`), on code-point strings;
* `Concept.minimal` with the `Infimum.minimal` override (`concepts/lattice_members.py`);
* a context together with its names (`Context.objects`, `Context.properties`).
-/
namespace FCA

/-! ### `Relations.tostring` -/

/-- `max((len(str(r.left)) for r in self), default=0)`: over ALL entries of the list (the filter
`exclude_orthogonal` is applied afterwards), `0` for the empty list -/
def relWidth (names : Nat → Str) (items : List RelItem) : Nat :=
  items.foldl (fun m r => max m (names r.left).length) 0

/-- the width computation before fix 8482d94: `max(...)` of an empty sequence raises `ValueError` -/
def relWidthStrict (names : Nat → Str) (items : List RelItem) : Except Err Nat :=
  if items.isEmpty then .error .valueError else .ok (relWidth names items)

/-- `str(r.right)`: the label of the right property, `''` for a unary entry -/
def relRight (names : Nat → Str) (r : RelItem) : Str :=
  match r.right with
  | some p => names p
  | none => []

/-- `'%-<w>s %-12s %s' % (r.left, r.kind, r.right)` -/
def relLine (names : Nat → Str) (w : Nat) (r : RelItem) : Str :=
  ljust w (names r.left) ++ [' '] ++ ljust 12 r.kind.toList ++ [' '] ++ relRight names r

/-- `(r for r in self if r.__class__ is not Orthogonal)` when `exclude_orthogonal`, else `self` -/
def relKept (excludeOrthogonal : Bool) (items : List RelItem) : List RelItem :=
  if excludeOrthogonal then items.filter fun r => r.kind != "orthogonal" else items

/-- `Relations.tostring(exclude_orthogonal)`; `names p` is `str(properties[p])` -/
def relToString (names : Nat → Str) (items : List RelItem) (excludeOrthogonal : Bool) : Str :=
  joinWith ['\n'] ((relKept excludeOrthogonal items).map (relLine names (relWidth names items)))

/-- `Relations.__str__` -/
def relStr (names : Nat → Str) (items : List RelItem) : Str := relToString names items true

/-- `str(context.relations(include_unary=…))` / `.tostring(…)` of a context -/
def relationsToString (T : JTable) (K : Ctx) (names : Nat → Str) (includeUnary excludeOrthogonal : Bool) : Str :=
  relToString names (relations T K includeUnary) excludeOrthogonal

/-! ### `Concept.minimal` / `Infimum.minimal` -/

/-- `lattice[k].minimal()` as a property mask: the concept at position 0 is the `Infimum` instance,
whose override returns the whole intent when its extent is empty; every other case is
`next(_minimize(extent, intent))` -/
def conceptMinimal (K : Ctx) (L : Lattice) (k : Nat) : Option Nat :=
  (L[k]?).bind fun c =>
    if k = 0 ∧ c.extent = 0 then some c.intent
    else (minimize K c.extent c.intent).head?

/-- `lattice[k].attributes()` as property masks -/
def conceptAttributes (K : Ctx) (L : Lattice) (k : Nat) : List Nat :=
  match L[k]? with
  | some c => minimize K c.extent c.intent
  | none => []

/-! ### a context with its names -/

/-- `Context`: the names (`.objects`, `.properties`) and the index-level table -/
structure LCtx where
  objs : List Name
  props : List Name
  K : Ctx
deriving Repr

/-- `Context(objects, properties, bools)` keeping the names -/
def lctxOfTriple (objects properties : List Name) (bools : List (List Bool)) : Except Err LCtx :=
  match ctxOfTriple objects properties bools with
  | .ok K => .ok ⟨objects, properties, K⟩
  | .error e => .error e

/-- `Context.fromdict(d)` up to the constructor call, keeping the names -/
def lctxOfDict (d : SDict) (requireLattice : Bool) : Except Err LCtx :=
  match fromdictCheck d requireLattice with
  | .ok (os, ps, bools) => lctxOfTriple os ps bools
  | .error e => .error e

end FCA
