import FCA.Proofs.Bits
/-
The documented orders of extents, as specifications (no keys involved).
-/
namespace FCA

/-- short-lexicographic order: fewer members first, ties by member position (the first position where
they differ belongs to the smaller one) -/
def shortlexLt (w a b : Nat) : Prop :=
  card w a < card w b ∨
    (card w a = card w b ∧ ∃ i, i ∈ᵇ a ∧ ¬ i ∈ᵇ b ∧ ∀ k, k < i → (k ∈ᵇ a ↔ k ∈ᵇ b))

/-- long-lexicographic order: more members first, same tie-break -/
def longlexLt (w a b : Nat) : Prop :=
  card w b < card w a ∨
    (card w a = card w b ∧ ∃ i, i ∈ᵇ a ∧ ¬ i ∈ᵇ b ∧ ∀ k, k < i → (k ∈ᵇ a ↔ k ∈ᵇ b))

end FCA
