import FCA.Proofs.LatticeSpec
import FCA.Model.Misc
/-
`Lattice._tolist` / `Lattice._fromlist` of the model (`toStored`, `finishLattice`, `fromStored`):
`finishLattice` on the (extent, intent, upper, lower) tuples of a lattice satisfying `LatticeSpec`
rebuilds that lattice, and the re-sorting path of `fromStored` undoes any shuffle of the stored
sequences.
-/
namespace FCA.C11

open FCA.LatSpecAux

/-! ### the two insertion sorts of the model are the same function -/

theorem insertStable_eq (key : Nat → Nat) (x : Nat) (l : List Nat) :
    insertStable key x l = insertBy key x l := by
  induction l with
  | nil => rfl
  | cons y ys ih =>
    unfold insertStable insertBy
    rw [ih]

theorem sortStable_eq (key : Nat → Nat) (l : List Nat) : sortStable key l = sortBy key l := by
  induction l with
  | nil => rfl
  | cons x xs ih =>
    show insertStable key x (sortStable key xs) = insertBy key x (sortBy key xs)
    rw [ih, insertStable_eq]

/-- a strictly sorted list has pairwise different keys -/
theorem key_inj_of_strict {key : Nat → Nat} {t : List Nat} (hs : t.Pairwise (fun a b => key a < key b)) :
    ∀ a ∈ t, ∀ b ∈ t, key a = key b → a = b := by
  intro a ha b hb hab
  by_contra hne
  have h1 : t.Pairwise (fun a b => key a ≠ key b) := hs.imp (fun h => Nat.ne_of_lt h)
  have : Std.Symm (fun a b : Nat => key a ≠ key b) := ⟨fun _ _ h => Ne.symm h⟩
  exact List.Pairwise.forall h1 ha hb hne hab

/-- "a permutation that is strictly sorted is unique": sorting any permutation of a strictly
key-sorted list gives that list -/
theorem sortBy_eq_of_perm {key : Nat → Nat} {l t : List Nat} (hp : l.Perm t)
    (hs : t.Pairwise (fun a b => key a < key b)) : sortBy key l = t := by
  have hinj := key_inj_of_strict hs
  have hp' : (sortBy key l).Perm t := (sortBy_perm key l).trans hp
  refine List.Perm.eq_of_pairwise (le := fun a b => key a ≤ key b) ?_ (sortBy_sorted key l)
    (hs.imp (fun h => Nat.le_of_lt h)) hp'
  intro a b ha hb h1 h2
  exact hinj a (hp'.mem_iff.mp ha) b hb (Nat.le_antisymm h1 h2)

theorem sortStable_eq_of_perm {key : Nat → Nat} {l t : List Nat} (hp : l.Perm t)
    (hs : t.Pairwise (fun a b => key a < key b)) : sortStable key l = t := by
  rw [sortStable_eq]; exact sortBy_eq_of_perm hp hs

/-! ### `frommembers` ignores the order of the indexes -/

theorem ofMembers_perm {l l' : List Nat} (h : l.Perm l') : ofMembers l = ofMembers l' := by
  apply ext; intro i
  rw [mem_ofMembers, mem_ofMembers, h.mem_iff]

/-! ### `_init` / `_annotate` on stored tuples -/

/-- the stored tuple of a concept (with masks instead of index lists) -/
def tup (c : LConcept) : Nat × Nat × List Nat × List Nat := (c.extent, c.intent, c.upper, c.lower)

/-- the concept built by `finishLattice` from tuple `t` at position `k` -/
def mkC (K : Ctx) (cs : List (Nat × Nat × List Nat × List Nat)) (k : Nat)
    (t : Nat × Nat × List Nat × List Nat) : LConcept :=
  let extents := cs.map (·.1)
  let llKey := fun i => longlexKey K.n (extents.getD i 0)
  let dorder := sortStable llKey (List.range cs.length)
  let atoms := ((cs.head?).map (·.2.2.1)).getD []
  let mapIdx := fun e => ((List.range cs.length).reverse.find? fun i => extents.getD i 0 == e)
  { extent := t.1, intent := t.2.1, upper := t.2.2.1, lower := t.2.2.2, index := k
    dindex := (indexOf? k dorder).getD 0
    atoms := atoms.filter fun a => t.1 ||| extents.getD a 0 == t.1
    objects := (List.range K.n).filter fun o => mapIdx (K.extentOf (K.intentOf (2 ^ o))) == some k
    properties := (List.range K.m).filter fun p => mapIdx (K.extentOf (2 ^ p)) == some k }

theorem finishLattice_eq (K : Ctx) (cs : List (Nat × Nat × List Nat × List Nat)) :
    finishLattice K cs = cs.zipIdx.map (fun p => mkC K cs p.2 p.1) := by
  unfold finishLattice
  apply List.map_congr_left
  rintro ⟨⟨e, i, up, lo⟩, k⟩ _
  rfl

theorem finishLattice_get (K : Ctx) (cs : List (Nat × Nat × List Nat × List Nat)) (k : Nat) :
    (finishLattice K cs)[k]? = (cs[k]?).map (mkC K cs k) := by
  rw [finishLattice_eq, List.getElem?_map, List.getElem?_zipIdx]
  cases cs[k]? <;> simp

/-- `mapping[e]` of `_annotate` on duplicate-free extents: the position of `e` -/
theorem mapIdx_iff {E : List Nat} (hnd : E.Nodup) (e k : Nat) :
    (List.range E.length).reverse.find? (fun i => E.getD i 0 == e) = some k ↔ E[k]? = some e := by
  constructor
  · intro h
    have hp := List.find?_some h
    have hm := List.mem_of_find?_eq_some h
    rw [List.mem_reverse, List.mem_range] at hm
    rw [beq_iff_eq] at hp
    rw [get_of_lt hm, hp]
  · intro h
    have hk := lt_of_get h
    cases hf : (List.range E.length).reverse.find? (fun i => E.getD i 0 == e) with
    | none =>
      rw [List.find?_eq_none] at hf
      have := hf k (by rw [List.mem_reverse, List.mem_range]; exact hk)
      rw [getD_of_get h] at this
      simp at this
    | some k' =>
      have hp := List.find?_some hf
      have hm := List.mem_of_find?_eq_some hf
      rw [List.mem_reverse, List.mem_range] at hm
      rw [beq_iff_eq] at hp
      have h' : E[k']? = some e := by rw [get_of_lt hm, hp]
      rw [LatSpecAux.pos_inj hnd h' h]

theorem mapIdx_beq {E : List Nat} (hnd : E.Nodup) {k x : Nat} (hk : E[k]? = some x) (e : Nat) :
    ((List.range E.length).reverse.find? (fun i => E.getD i 0 == e) == some k) = (e == x) := by
  rw [Bool.eq_iff_iff, beq_iff_eq, beq_iff_eq, mapIdx_iff hnd]
  constructor
  · intro h; rw [hk] at h; simpa using h.symm
  · rintro rfl; exact hk

theorem map_tup_extents (L : Lattice) : (L.map tup).map (·.1) = L.map (·.extent) := by
  rw [List.map_map]; rfl

theorem head_tup_upper (L : Lattice) : (((L.map tup).head?).map (·.2.2.1)).getD [] = L.upperAt 0 := by
  cases L <;> rfl

/-- `_init` + `_annotate` recompute every derived field: `finishLattice` on the stored tuples of a
lattice satisfying the specification is that lattice -/
theorem finishLattice_spec {K : Ctx} {L : Lattice} (S : LatticeSpec K L) :
    finishLattice K (L.map tup) = L := by
  apply List.ext_getElem?
  intro k
  rw [finishLattice_get, List.getElem?_map]
  cases hc : L[k]? with
  | none => rfl
  | some c =>
    simp only [Option.map_some]
    congr 1
    have hek := S.extent_get hc
    have eta : c = ⟨c.extent, c.intent, c.upper, c.lower, c.index, c.dindex, c.atoms, c.objects, c.properties⟩ := rfl
    rw [eta]
    unfold mkC
    simp only [map_tup_extents, head_tup_upper, List.length_map, sortStable_eq]
    rw [LConcept.mk.injEq]
    refine ⟨rfl, rfl, rfl, rfl, (S.index hc).symm, (S.dindex hc).symm, (S.atoms hc).symm, ?_, ?_⟩
    · rw [S.objects hc]
      unfold objectLabels
      apply List.filter_congr
      intro o _
      rw [← List.length_map (f := fun c : LConcept => c.extent)]
      exact mapIdx_beq S.nodup hek _
    · rw [S.properties hc]
      unfold propertyLabels
      apply List.filter_congr
      intro p _
      rw [← List.length_map (f := fun c : LConcept => c.extent)]
      exact mapIdx_beq S.nodup hek _

/-! ### the re-sorting path of `_fromlist` -/

/-- the `unordered` branch of `fromStored` on tuples -/
def rawFinish (K : Ctx) (cs : List (Nat × Nat × List Nat × List Nat)) : Lattice :=
  let extents := cs.map (·.1)
  let slKey := fun i => shortlexKey K.n (extents.getD i 0)
  let llKey := fun i => longlexKey K.n (extents.getD i 0)
  let order := sortStable slKey (List.range cs.length)
  let newPos := fun old => (indexOf? old order).getD 0
  let cs' := order.filterMap fun old => (cs[old]?).map fun (e, i, up, lo) =>
    (e, i, (sortStable slKey up).map newPos, (sortStable llKey lo).map newPos)
  finishLattice K cs'

/-- decoding of the stored index lists -/
def decode (st : List Stored) : List (Nat × Nat × List Nat × List Nat) :=
  st.map fun s => (ofMembers s.extent, ofMembers s.intent, s.upper, s.lower)

theorem fromStored_false (K : Ctx) (st : List Stored) : fromStored K st false = finishLattice K (decode st) := rfl

theorem fromStored_true (K : Ctx) (st : List Stored) : fromStored K st true = rawFinish K (decode st) := rfl

/-- a bijection of `0..n-1` permutes `range n` -/
theorem map_range_perm {n : Nat} {σ τ : Nat → Nat} (hτ : ∀ q, q < n → τ q < n)
    (hσ : ∀ p, p < n → σ p < n) (hτσ : ∀ p, p < n → τ (σ p) = p) (hστ : ∀ q, q < n → σ (τ q) = q) :
    (List.range n).Perm ((List.range n).map τ) := by
  rw [List.perm_ext_iff_of_nodup List.nodup_range]
  · intro x
    rw [List.mem_range, List.mem_map]
    constructor
    · intro hx; exact ⟨σ x, List.mem_range.mpr (hσ x hx), hτσ x hx⟩
    · rintro ⟨q, hq, rfl⟩; exact hτ q (List.mem_range.mp hq)
  · apply List.Nodup.map_on _ List.nodup_range
    intro a ha b hb hab
    rw [← hστ a (List.mem_range.mp ha), ← hστ b (List.mem_range.mp hb), hab]

/-- The re-sorting path on any rearrangement of the stored tuples of a lattice satisfying the
specification: position `p` of `cs` holds the tuple of concept number `σ p`, with its neighbor
positions renamed by `τ = σ⁻¹` and arbitrarily permuted. -/
theorem rawFinish_spec {K : Ctx} {L : Lattice} (S : LatticeSpec K L)
    {cs : List (Nat × Nat × List Nat × List Nat)} {σ τ : Nat → Nat}
    (hlen : cs.length = L.length)
    (hσ : ∀ p, p < L.length → σ p < L.length) (hτ : ∀ q, q < L.length → τ q < L.length)
    (hτσ : ∀ p, p < L.length → τ (σ p) = p) (hστ : ∀ q, q < L.length → σ (τ q) = q)
    (hent : ∀ p, p < L.length → ∃ c up lo, L[σ p]? = some c ∧ cs[p]? = some (c.extent, c.intent, up, lo) ∧
      up.Perm (c.upper.map τ) ∧ lo.Perm (c.lower.map τ)) :
    rawFinish K cs = L := by
  -- extents of the rearranged list
  have hE' : ∀ p, p < L.length → (cs.map (·.1)).getD p 0 = (L.map (·.extent)).getD (σ p) 0 := by
    intro p hp
    obtain ⟨c, up, lo, hc, hcs, _, _⟩ := hent p hp
    rw [S.getD_extent hc]
    simp [hcs]
  have hEτ : ∀ q, q < L.length → (cs.map (·.1)).getD (τ q) 0 = (L.map (·.extent)).getD q 0 := by
    intro q hq
    rw [hE' _ (hτ q hq), hστ q hq]
  -- the sorted order of positions
  have horder : sortStable (fun i => shortlexKey K.n ((cs.map (·.1)).getD i 0)) (List.range cs.length) =
      (List.range L.length).map τ := by
    rw [hlen]
    apply sortStable_eq_of_perm (map_range_perm hτ hσ hτσ hστ)
    rw [List.pairwise_map]
    refine List.Pairwise.imp_of_mem ?_ List.pairwise_lt_range
    intro a b ha hb hab
    rw [List.mem_range] at ha hb
    rw [hEτ a ha, hEτ b hb]
    have hlen' : L.length = (L.map (·.extent)).length := by simp
    exact key_lt_of_pos_lt S.sorted (get_of_lt (hlen' ▸ ha)) (get_of_lt (hlen' ▸ hb)) hab
  have hnew : ∀ p, p < L.length → (indexOf? p ((List.range L.length).map τ)).getD 0 = σ p := by
    intro p hp
    have hnd : ((List.range L.length).map τ).Nodup := (map_range_perm hτ hσ hτσ hστ).nodup_iff.mp List.nodup_range
    have hget : ((List.range L.length).map τ)[σ p]? = some p := by
      rw [List.getElem?_map, List.getElem?_range (hσ p hp)]
      simp [hτσ p hp]
    rw [indexOf?_get_nodup hnd hget]
    rfl
  unfold rawFinish
  simp only [horder]
  have hcs' : (((List.range L.length).map τ).filterMap fun old => (cs[old]?).map fun (e, i, up, lo) =>
      (e, i, (sortStable (fun i => shortlexKey K.n ((cs.map (·.1)).getD i 0)) up).map
              (fun old => (indexOf? old ((List.range L.length).map τ)).getD 0),
             (sortStable (fun i => longlexKey K.n ((cs.map (·.1)).getD i 0)) lo).map
              (fun old => (indexOf? old ((List.range L.length).map τ)).getD 0))) = L.map tup := by
    rw [List.filterMap_map]
    have h2 : L.map tup = (List.range L.length).filterMap (fun q => (L[q]?).map ((fun _ c => tup c) q)) := by
      rw [filterMap_range_get]
      have : ((fun p : LConcept × Nat => tup p.1) : LConcept × Nat → _) = tup ∘ Prod.fst := rfl
      show L.map tup = L.zipIdx.map (fun p => tup p.1)
      rw [this, ← List.map_map, List.zipIdx_map_fst]
    rw [h2]
    apply List.filterMap_congr
    intro q hq
    rw [List.mem_range] at hq
    obtain ⟨c, up, lo, hc, hcs, hup, hlo⟩ := hent (τ q) (hτ q hq)
    rw [hστ q hq] at hc
    simp only [Function.comp_apply, hcs, hc, Option.map_some, tup]
    -- upper neighbors
    have hupper : (sortStable (fun i => shortlexKey K.n ((cs.map (·.1)).getD i 0)) up).map
        (fun old => (indexOf? old ((List.range L.length).map τ)).getD 0) = c.upper := by
      have hs : (c.upper.map τ).Pairwise (fun a b => shortlexKey K.n ((cs.map (·.1)).getD a 0) <
          shortlexKey K.n ((cs.map (·.1)).getD b 0)) := by
        rw [List.pairwise_map]
        refine List.Pairwise.imp_of_mem ?_ (S.upper_shortlex hc)
        intro a b ha hb hab
        rw [hEτ a (S.upper_gt hc ha).2, hEτ b (S.upper_gt hc hb).2]
        exact hab
      rw [sortStable_eq_of_perm hup hs, List.map_map]
      conv_rhs => rw [← List.map_id c.upper]
      apply List.map_congr_left
      intro a ha
      have ha' := (S.upper_gt hc ha).2
      simp only [Function.comp_apply, id]
      rw [hnew _ (hτ a ha'), hστ a ha']
    -- lower neighbors
    have hlower : (sortStable (fun i => longlexKey K.n ((cs.map (·.1)).getD i 0)) lo).map
        (fun old => (indexOf? old ((List.range L.length).map τ)).getD 0) = c.lower := by
      have hlt : ∀ a ∈ c.lower, a < L.length := fun a ha => lt_trans (S.lower_lt hc ha) (S.lt_length hc)
      have hs : (c.lower.map τ).Pairwise (fun a b => longlexKey K.n ((cs.map (·.1)).getD a 0) <
          longlexKey K.n ((cs.map (·.1)).getD b 0)) := by
        rw [List.pairwise_map]
        refine List.Pairwise.imp_of_mem ?_ (S.lower_sorted hc)
        intro a b ha hb hab
        rw [hEτ a (hlt a ha), hEτ b (hlt b hb)]
        exact hab
      rw [sortStable_eq_of_perm hlo hs, List.map_map]
      conv_rhs => rw [← List.map_id c.lower]
      apply List.map_congr_left
      intro a ha
      have ha' := hlt a ha
      simp only [Function.comp_apply, id]
      rw [hnew _ (hτ a ha'), hστ a ha']
    rw [hupper, hlower]
  rw [hcs']
  exact finishLattice_spec S

/-! ### stored form of a lattice -/

theorem toStored_get (K : Ctx) (L : Lattice) (k : Nat) :
    (toStored K L)[k]? = (L[k]?).map fun c => ⟨membersW K.n c.extent, membersW K.m c.intent, c.upper, c.lower⟩ := by
  unfold toStored; rw [List.getElem?_map]

theorem bounded_intent {K : Ctx} {L : Lattice} (S : LatticeSpec K L) {k : Nat} {c : LConcept}
    (h : L[k]? = some c) : Bounded K.m c.intent := by
  rw [S.intent h]; exact bounded_intentOf _

theorem decode_toStored {K : Ctx} {L : Lattice} (S : LatticeSpec K L) : decode (toStored K L) = L.map tup := by
  unfold decode toStored
  rw [List.map_map]
  apply List.map_congr_left
  intro c hc
  obtain ⟨k, hk⟩ := List.getElem?_of_mem hc
  simp only [Function.comp_apply, tup]
  rw [ofMembers_membersW (S.bounded hk), ofMembers_membersW (bounded_intent S hk)]

/-- a stored concept as a plain tuple (to compare stored lists by evaluation) -/
def storedTup (s : Stored) : List Nat × List Nat × List Nat × List Nat := (s.extent, s.intent, s.upper, s.lower)

theorem storedTup_inj : Function.Injective storedTup := by
  rintro ⟨a, b, c, d⟩ ⟨a', b', c', d'⟩ h
  simp only [storedTup, Prod.mk.injEq] at h
  obtain ⟨rfl, rfl, rfl, rfl⟩ := h
  rfl

end FCA.C11
