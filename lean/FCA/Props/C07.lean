import FCA.Proofs.JoinMeet
/-
C07 — join and meet are the least upper and greatest lower bounds.

Concepts are ordered by inclusion of their extents.  `lattice.join(cs)` looks up
`reduce_or(extents).double()`, `lattice.meet(cs)` looks up `reduce_and(extents).double()` in the
extent → concept mapping (`Lattice.find`); `Concept.join/meet` (`|`, `&`) do the same for two.

Part 1 is order theory on the closed object sets of a well-formed context (no lattice needed),
part 2 ties it to the lookups in `mkLattice K`, part 3 are the algebraic laws.
-/
namespace FCA
open FCA.C07

/-- binary join on extents: closure of the union -/
def extSup (K : Ctx) (x y : Nat) : Nat := K.doubleObj (x ||| y)
/-- binary meet on extents: the intersection -/
def extInf (x y : Nat) : Nat := x &&& y

/-! ### Part 1: closed sets -/

/-- the closure of the union is closed, an upper bound, and below every closed upper bound -/
theorem C07_join_lub (K : Ctx) (h : K.WF) (xs : List Nat) (hx : ∀ x ∈ xs, closedObj K x) :
    closedObj K (K.doubleObj (xs.foldl (· ||| ·) 0)) ∧
    (∀ x ∈ xs, x ⊆ᵇ K.doubleObj (xs.foldl (· ||| ·) 0)) ∧
    (∀ U, closedObj K U → (∀ x ∈ xs, x ⊆ᵇ U) → K.doubleObj (xs.foldl (· ||| ·) 0) ⊆ᵇ U) := by
  have hb : Bounded K.n (xs.foldl (· ||| ·) 0) := bounded_foldl_or (fun x hxm => (hx x hxm).1)
  refine ⟨doubleObj_closed h _ hb, fun x hxm => ?_, fun U hU hUx => ?_⟩
  · refine sub_trans (fun i hi => ?_) (sub_doubleObj h hb)
    exact (mem_foldl_or xs 0 i).mpr (Or.inr ⟨x, hxm, hi⟩)
  · apply closed_sub_of_sub h hU
    intro i hi
    rcases (mem_foldl_or xs 0 i).mp hi with hi | ⟨x, hxm, hi⟩
    · exact absurd hi not_mem_zero
    · exact hUx x hxm i hi

/-- the intersection of closed sets (inside the set of all objects) is closed: `double()` is the
identity on it -/
theorem C07_meet_closed (K : Ctx) (h : K.WF) (xs : List Nat) (hx : ∀ x ∈ xs, closedObj K x) :
    closedObj K (xs.foldl (· &&& ·) (full K.n)) ∧
    K.doubleObj (xs.foldl (· &&& ·) (full K.n)) = xs.foldl (· &&& ·) (full K.n) :=
  ⟨foldl_and_closed h hx, (foldl_and_closed h hx).2⟩

/-- the intersection is a lower bound and above every closed lower bound -/
theorem C07_meet_glb (K : Ctx) (_h : K.WF) (xs : List Nat) :
    (∀ x ∈ xs, xs.foldl (· &&& ·) (full K.n) ⊆ᵇ x) ∧
    (∀ U, closedObj K U → (∀ x ∈ xs, U ⊆ᵇ x) → U ⊆ᵇ xs.foldl (· &&& ·) (full K.n)) := by
  refine ⟨fun x hxm i hi => ((mem_foldl_and xs _ i).mp hi).2 x hxm, fun U hU hUx i hi => ?_⟩
  exact (mem_foldl_and xs _ i).mpr ⟨mem_full.mpr (hU.1 i hi), fun x hxm => hUx x hxm i hi⟩

/-! ### Part 2: the lookups of the lattice -/

/-- `lattice.join(cs)` never raises `KeyError`: it returns a valid position whose extent is the closure
of the union of the extents (an invalid position contributes the empty set in the model) -/
theorem C07_lookup_defined_join (K : Ctx) (h : K.WF) (cs : List Nat) :
    ∃ k, latticeJoin K (mkLattice K) cs = some k ∧ k < (mkLattice K).length ∧
      (mkLattice K).extentAt k = K.doubleObj ((cs.map (mkLattice K).extentAt).foldl (· ||| ·) 0) := by
  unfold latticeJoin
  rw [join_fold]
  apply find_closed h
  apply doubleObj_closed h
  apply bounded_foldl_or
  intro x hxm
  obtain ⟨c, _, rfl⟩ := List.mem_map.mp hxm
  exact extentAt_bounded h c

/-- `lattice.meet(cs)` never raises `KeyError`; for valid positions the extent of the result is the
plain intersection of the extents -/
theorem C07_lookup_defined_meet (K : Ctx) (h : K.WF) (cs : List Nat) :
    ∃ k, latticeMeet K (mkLattice K) cs = some k ∧ k < (mkLattice K).length ∧
      (mkLattice K).extentAt k = K.doubleObj ((cs.map (mkLattice K).extentAt).foldl (· &&& ·) (full K.n)) ∧
      ((∀ c ∈ cs, c < (mkLattice K).length) →
        (mkLattice K).extentAt k = (cs.map (mkLattice K).extentAt).foldl (· &&& ·) (full K.n)) := by
  unfold latticeMeet
  rw [meet_fold]
  obtain ⟨k, h1, h2, h3⟩ := find_closed h (doubleObj_closed h _ (bounded_foldl_and K.n (cs.map (mkLattice K).extentAt)))
  refine ⟨k, h1, h2, h3, fun hv => ?_⟩
  rw [h3]
  refine (C07_meet_closed K h _ ?_).2
  intro x hxm
  obtain ⟨c, hc, rfl⟩ := List.mem_map.mp hxm
  exact extentAt_closed h (hv c hc)

/-- both lookups are defined -/
theorem C07_lookup_defined (K : Ctx) (h : K.WF) (cs : List Nat) :
    (latticeJoin K (mkLattice K) cs).isSome ∧ (latticeMeet K (mkLattice K) cs).isSome := by
  obtain ⟨k, hk, _⟩ := C07_lookup_defined_join K h cs
  obtain ⟨k', hk', _⟩ := C07_lookup_defined_meet K h cs
  simp [hk, hk']

/-- `lattice.join(cs)` is the least concept of the lattice above all `cs` -/
theorem C07_join_is_lub (K : Ctx) (h : K.WF) (cs : List Nat) (hv : ∀ c ∈ cs, c < (mkLattice K).length) :
    ∃ k, latticeJoin K (mkLattice K) cs = some k ∧ k < (mkLattice K).length ∧
      (∀ c ∈ cs, (mkLattice K).extentAt c ⊆ᵇ (mkLattice K).extentAt k) ∧
      (∀ u, u < (mkLattice K).length → (∀ c ∈ cs, (mkLattice K).extentAt c ⊆ᵇ (mkLattice K).extentAt u) →
        (mkLattice K).extentAt k ⊆ᵇ (mkLattice K).extentAt u) := by
  obtain ⟨k, h1, h2, h3⟩ := C07_lookup_defined_join K h cs
  have hx : ∀ x ∈ cs.map (mkLattice K).extentAt, closedObj K x := by
    intro x hxm
    obtain ⟨c, hc, rfl⟩ := List.mem_map.mp hxm
    exact extentAt_closed h (hv c hc)
  obtain ⟨_, hub, hl⟩ := C07_join_lub K h _ hx
  refine ⟨k, h1, h2, fun c hc => ?_, fun u hu hcu => ?_⟩
  · rw [h3]; exact hub _ (List.mem_map_of_mem hc)
  · rw [h3]
    apply hl _ (extentAt_closed h hu)
    intro x hxm
    obtain ⟨c, hc, rfl⟩ := List.mem_map.mp hxm
    exact hcu c hc

/-- `lattice.meet(cs)` is the greatest concept of the lattice below all `cs` -/
theorem C07_meet_is_glb (K : Ctx) (h : K.WF) (cs : List Nat) (hv : ∀ c ∈ cs, c < (mkLattice K).length) :
    ∃ k, latticeMeet K (mkLattice K) cs = some k ∧ k < (mkLattice K).length ∧
      (∀ c ∈ cs, (mkLattice K).extentAt k ⊆ᵇ (mkLattice K).extentAt c) ∧
      (∀ u, u < (mkLattice K).length → (∀ c ∈ cs, (mkLattice K).extentAt u ⊆ᵇ (mkLattice K).extentAt c) →
        (mkLattice K).extentAt u ⊆ᵇ (mkLattice K).extentAt k) := by
  obtain ⟨k, h1, h2, _, h4⟩ := C07_lookup_defined_meet K h cs
  have h3 := h4 hv
  obtain ⟨hlb, hg⟩ := C07_meet_glb K h (cs.map (mkLattice K).extentAt)
  refine ⟨k, h1, h2, fun c hc => ?_, fun u hu hcu => ?_⟩
  · rw [h3]; exact hlb _ (List.mem_map_of_mem hc)
  · rw [h3]
    apply hg _ (extentAt_closed h hu)
    intro x hxm
    obtain ⟨c, hc, rfl⟩ := List.mem_map.mp hxm
    exact hcu c hc

/-- the empty join is the infimum: concept number `0`, extent `∅''` -/
theorem C07_empty_join (K : Ctx) (h : K.WF) :
    latticeJoin K (mkLattice K) [] = some 0 ∧ (mkLattice K).extentAt 0 = K.doubleObj 0 := by
  refine ⟨?_, extentAt_zero h⟩
  show (mkLattice K).find (K.doubleObj 0) = some 0
  rw [← extentAt_zero h]
  exact find_extentAt h (lattice_ne_nil h)

/-- the empty meet is the supremum: the last concept, extent = all objects -/
theorem C07_empty_meet (K : Ctx) (h : K.WF) :
    latticeMeet K (mkLattice K) [] = some ((mkLattice K).length - 1) ∧
    (mkLattice K).extentAt ((mkLattice K).length - 1) = full K.n := by
  refine ⟨?_, extentAt_last h⟩
  show (mkLattice K).find (K.doubleObj (full K.n)) = some _
  rw [(full_closed h).2, ← extentAt_last h]
  have := lattice_ne_nil h
  exact find_extentAt h (by omega)

/-- `Concept.join` (`a | b`) is `lattice.join([a, b])`, `Concept.meet` (`a & b`) is `lattice.meet([a, b])` -/
theorem C07_binary_agrees (K : Ctx) (h : K.WF) (a b : Nat) :
    conceptJoin K (mkLattice K) a b = latticeJoin K (mkLattice K) [a, b] ∧
    conceptMeet K (mkLattice K) a b = latticeMeet K (mkLattice K) [a, b] := by
  constructor
  · unfold conceptJoin latticeJoin Pinned.join_common
    rw [join_fold]
    simp [List.foldl_cons]
  · unfold conceptMeet latticeMeet Pinned.meet_common
    rw [meet_fold]
    simp only [List.map_cons, List.map_nil, List.foldl_cons, List.foldl_nil]
    congr 2
    have : full K.n &&& (mkLattice K).extentAt a = (mkLattice K).extentAt a := by
      rw [Nat.and_comm]
      exact and_eq_left_iff.mpr (bounded_iff_sub_full.mp (extentAt_bounded h a))
    rw [this]

/-- the join half needs nothing about the lattice -/
theorem C07_binary_agrees_join (K : Ctx) (L : Lattice) (a b : Nat) :
    conceptJoin K L a b = latticeJoin K L [a, b] := by
  unfold conceptJoin latticeJoin Pinned.join_common
  rw [join_fold]
  simp [List.foldl_cons]

/-- the binary operations on positions in terms of `extSup` / `extInf` on extents -/
theorem C07_concept_join_spec (K : Ctx) (h : K.WF) (a b : Nat) :
    ∃ k, conceptJoin K (mkLattice K) a b = some k ∧ k < (mkLattice K).length ∧
      (mkLattice K).extentAt k = extSup K ((mkLattice K).extentAt a) ((mkLattice K).extentAt b) :=
  find_closed h (doubleObj_closed h _ (bounded_or (extentAt_bounded h a) (extentAt_bounded h b)))

theorem C07_concept_meet_spec (K : Ctx) (h : K.WF) (a b : Nat)
    (ha : a < (mkLattice K).length) (hb : b < (mkLattice K).length) :
    ∃ k, conceptMeet K (mkLattice K) a b = some k ∧ k < (mkLattice K).length ∧
      (mkLattice K).extentAt k = extInf ((mkLattice K).extentAt a) ((mkLattice K).extentAt b) := by
  have hc := and_closed h (extentAt_closed h ha) (extentAt_closed h hb)
  unfold conceptMeet Pinned.meet_common
  rw [hc.2]
  exact find_closed h hc

/-! ### Part 3: lattice laws on extents -/

theorem C07_sup_comm (K : Ctx) (x y : Nat) : extSup K x y = extSup K y x := by
  unfold extSup; rw [Nat.or_comm]

theorem C07_inf_comm (x y : Nat) : extInf x y = extInf y x := Nat.and_comm x y

theorem C07_sup_closed (K : Ctx) (h : K.WF) (x y : Nat) (hx : Bounded K.n x) (hy : Bounded K.n y) :
    closedObj K (extSup K x y) := doubleObj_closed h _ (bounded_or hx hy)

theorem C07_inf_closed (K : Ctx) (h : K.WF) (x y : Nat) (hx : closedObj K x) (hy : closedObj K y) :
    closedObj K (extInf x y) := and_closed h hx hy

theorem C07_sup_assoc (K : Ctx) (h : K.WF) (x y z : Nat)
    (hx : Bounded K.n x) (hy : Bounded K.n y) (hz : Bounded K.n z) :
    extSup K (extSup K x y) z = extSup K x (extSup K y z) := by
  unfold extSup
  rw [double_or_absorb h (bounded_or hx hy) hz, Nat.or_comm x (K.doubleObj (y ||| z)),
    double_or_absorb h (bounded_or hy hz) hx, Nat.or_comm (y ||| z) x, Nat.or_assoc]

theorem C07_inf_assoc (x y z : Nat) : extInf (extInf x y) z = extInf x (extInf y z) := Nat.and_assoc x y z

theorem C07_sup_idem (K : Ctx) (x : Nat) (hx : closedObj K x) : extSup K x x = x := by
  unfold extSup; rw [Nat.or_self]; exact hx.2

theorem C07_inf_idem (x : Nat) : extInf x x = x := Nat.and_self x

/-- `x ⊔ (x ⊓ y) = x` -/
theorem C07_absorb_sup_inf (K : Ctx) (x y : Nat) (hx : closedObj K x) : extSup K x (extInf x y) = x := by
  unfold extSup extInf
  have : x ||| (x &&& y) = x := or_eq_left_iff.mpr (fun i hi => (mem_and.mp hi).1)
  rw [this]; exact hx.2

/-- `x ⊓ (x ⊔ y) = x` -/
theorem C07_absorb_inf_sup (K : Ctx) (h : K.WF) (x y : Nat) (hx : Bounded K.n x) (hy : Bounded K.n y) :
    extInf x (extSup K x y) = x := by
  unfold extSup extInf
  rw [and_eq_left_iff]
  exact sub_trans (fun i hi => mem_or.mpr (Or.inl hi)) (sub_doubleObj h (bounded_or hx hy))

/-- `x ≤ y ⇔ x ⊔ y = y ⇔ x ⊓ y = x` -/
theorem C07_order_iff (K : Ctx) (h : K.WF) (x y : Nat) (hx : closedObj K x) (hy : closedObj K y) :
    (x ⊆ᵇ y ↔ extSup K x y = y) ∧ (x ⊆ᵇ y ↔ extInf x y = x) := by
  refine ⟨⟨fun hs => ?_, fun he => ?_⟩, and_eq_left_iff.symm⟩
  · unfold extSup
    have : x ||| y = y := by rw [Nat.or_comm]; exact or_eq_left_iff.mpr hs
    rw [this]; exact hy.2
  · rw [← he]
    exact sub_trans (fun i hi => mem_or.mpr (Or.inl hi)) (sub_doubleObj h (bounded_or hx.1 hy.1))

/-! ### the same laws for the concepts of the lattice (positions; `is` = same position) -/

theorem C07_concept_comm (K : Ctx) (L : Lattice) (a b : Nat) :
    conceptJoin K L a b = conceptJoin K L b a ∧ conceptMeet K L a b = conceptMeet K L b a := by
  unfold conceptJoin conceptMeet Pinned.join_common Pinned.meet_common
  rw [Nat.or_comm, Nat.and_comm]
  exact ⟨rfl, rfl⟩

theorem C07_concept_idem (K : Ctx) (h : K.WF) (a : Nat) (ha : a < (mkLattice K).length) :
    conceptJoin K (mkLattice K) a a = some a ∧ conceptMeet K (mkLattice K) a a = some a := by
  have hc := extentAt_closed h ha
  unfold conceptJoin conceptMeet Pinned.join_common Pinned.meet_common
  rw [Nat.or_self, Nat.and_self, hc.2]
  exact ⟨find_extentAt h ha, find_extentAt h ha⟩

/-- `a <= b` iff `a | b is b` iff `a & b is a` -/
theorem C07_concept_order_iff (K : Ctx) (h : K.WF) (a b : Nat)
    (ha : a < (mkLattice K).length) (hb : b < (mkLattice K).length) :
    ((mkLattice K).extentAt a ⊆ᵇ (mkLattice K).extentAt b ↔ conceptJoin K (mkLattice K) a b = some b) ∧
    ((mkLattice K).extentAt a ⊆ᵇ (mkLattice K).extentAt b ↔ conceptMeet K (mkLattice K) a b = some a) := by
  have hca := extentAt_closed h ha
  have hcb := extentAt_closed h hb
  obtain ⟨o1, o2⟩ := C07_order_iff K h _ _ hca hcb
  obtain ⟨k, hk, _, hke⟩ := C07_concept_join_spec K h a b
  obtain ⟨m, hm, _, hme⟩ := C07_concept_meet_spec K h a b ha hb
  constructor
  · rw [o1, hk]
    constructor
    · intro he
      rw [← hke] at he
      have := find_extentAt h hb
      rw [← he, find_extentAt h (by assumption)] at this
      exact this
    · intro he
      rw [Option.some.injEq] at he
      rw [← hke, he]
  · rw [o2, hm]
    constructor
    · intro he
      rw [← hme] at he
      have := find_extentAt h ha
      rw [← he, find_extentAt h (by assumption)] at this
      exact this
    · intro he
      rw [Option.some.injEq] at he
      rw [← hme, he]

/-- associativity: `(a | b) | c is a | (b | c)`, `(a & b) & c is a & (b & c)` -/
theorem C07_concept_assoc (K : Ctx) (h : K.WF) (a b c : Nat)
    (ha : a < (mkLattice K).length) (hb : b < (mkLattice K).length) (hc : c < (mkLattice K).length) :
    (∃ ab bc, conceptJoin K (mkLattice K) a b = some ab ∧ conceptJoin K (mkLattice K) b c = some bc ∧
      conceptJoin K (mkLattice K) ab c = conceptJoin K (mkLattice K) a bc) ∧
    (∃ ab bc, conceptMeet K (mkLattice K) a b = some ab ∧ conceptMeet K (mkLattice K) b c = some bc ∧
      conceptMeet K (mkLattice K) ab c = conceptMeet K (mkLattice K) a bc) := by
  constructor
  · obtain ⟨ab, h1, _, e1⟩ := C07_concept_join_spec K h a b
    obtain ⟨bc, h2, _, e2⟩ := C07_concept_join_spec K h b c
    refine ⟨ab, bc, h1, h2, ?_⟩
    show (mkLattice K).find (extSup K _ _) = (mkLattice K).find (extSup K _ _)
    rw [e1, e2, C07_sup_assoc K h _ _ _ (extentAt_bounded h a) (extentAt_bounded h b) (extentAt_bounded h c)]
  · obtain ⟨ab, h1, _, e1⟩ := C07_concept_meet_spec K h a b ha hb
    obtain ⟨bc, h2, _, e2⟩ := C07_concept_meet_spec K h b c hb hc
    refine ⟨ab, bc, h1, h2, ?_⟩
    show (mkLattice K).find (K.doubleObj (extInf _ _)) = (mkLattice K).find (K.doubleObj (extInf _ _))
    rw [e1, e2, C07_inf_assoc]

/-- absorption: `a | (a & b) is a`, `a & (a | b) is a` -/
theorem C07_concept_absorb (K : Ctx) (h : K.WF) (a b : Nat)
    (ha : a < (mkLattice K).length) (hb : b < (mkLattice K).length) :
    (∃ m, conceptMeet K (mkLattice K) a b = some m ∧ conceptJoin K (mkLattice K) a m = some a) ∧
    (∃ j, conceptJoin K (mkLattice K) a b = some j ∧ conceptMeet K (mkLattice K) a j = some a) := by
  have hca := extentAt_closed h ha
  constructor
  · obtain ⟨m, h1, _, e1⟩ := C07_concept_meet_spec K h a b ha hb
    refine ⟨m, h1, ?_⟩
    show (mkLattice K).find (extSup K _ _) = some a
    rw [e1, C07_absorb_sup_inf K _ _ hca]
    exact find_extentAt h ha
  · obtain ⟨j, h1, _, e1⟩ := C07_concept_join_spec K h a b
    refine ⟨j, h1, ?_⟩
    show (mkLattice K).find (K.doubleObj (extInf _ _)) = some a
    rw [e1, C07_absorb_inf_sup K h _ _ hca.1 (extentAt_bounded h b), hca.2]
    exact find_extentAt h ha

/-! ### non-vacuity: a concrete context (3 objects, 3 properties; 6 concepts) -/

def C07_exK : Ctx := mkCtx 3 3 #[0b011, 0b001, 0b110]
theorem C07_exK_WF : C07_exK.WF := mkCtx_WF 3 3 _ rfl (by intro i hi; interval_cases i <;> decide)

/-- extents in iteration order -/
example : (mkLattice C07_exK).map (·.extent) = [0, 1, 4, 3, 5, 7] := by decide +kernel
/-- closed sets for part 1 / part 3: `{0}` and `{2}` are closed, their union `{0,2}` too, while `{1}`
is not (`{1}'' = {0,1}`) so that the closure in the join matters -/
example : closedObj C07_exK 1 ∧ closedObj C07_exK 4 ∧ closedObj C07_exK 3 :=
  ⟨⟨bounded_iff_lt.mpr (by decide), by decide +kernel⟩, ⟨bounded_iff_lt.mpr (by decide), by decide +kernel⟩,
   ⟨bounded_iff_lt.mpr (by decide), by decide +kernel⟩⟩
example : ∀ x ∈ [1, 4, 3], closedObj C07_exK x := by
  intro x hx
  simp only [List.mem_cons, List.not_mem_nil, or_false] at hx
  rcases hx with rfl | rfl | rfl <;> exact ⟨bounded_iff_lt.mpr (by decide), by decide +kernel⟩
example : C07_exK.doubleObj ([4, 3].foldl (· ||| ·) 0) = 7 ∧ [4, 3].foldl (· &&& ·) (full C07_exK.n) = 0 := by
  decide +kernel
/-- `{1}` is not closed here (`{1}'' = {0,1}`) -/
example : C07_exK.doubleObj 2 = 3 := by decide +kernel
example : latticeJoin C07_exK (mkLattice C07_exK) [1, 2] = some 4 ∧
    latticeMeet C07_exK (mkLattice C07_exK) [3, 4] = some 1 ∧
    latticeJoin C07_exK (mkLattice C07_exK) [2, 3, 2] = some 5 ∧
    latticeMeet C07_exK (mkLattice C07_exK) [2, 3] = some 0 ∧
    latticeJoin C07_exK (mkLattice C07_exK) [] = some 0 ∧
    latticeMeet C07_exK (mkLattice C07_exK) [] = some 5 ∧
    conceptJoin C07_exK (mkLattice C07_exK) 1 2 = some 4 ∧
    conceptMeet C07_exK (mkLattice C07_exK) 3 4 = some 1 := by decide +kernel
example : ∀ c ∈ [2, 3, 2], c < (mkLattice C07_exK).length := by decide +kernel

/-- a context where the closure in the join matters: the union `{0} ∪ {1}` of two extents is not an
extent, the join is the top concept -/
def C07_exK2 : Ctx := mkCtx 3 3 #[0b101, 0b110, 0b100]
theorem C07_exK2_WF : C07_exK2.WF := mkCtx_WF 3 3 _ rfl (by intro i hi; interval_cases i <;> decide)
example : (mkLattice C07_exK2).map (·.extent) = [0, 1, 2, 7] ∧
    (1 ||| 2 : Nat) = 3 ∧ extSup C07_exK2 1 2 = 7 ∧
    latticeJoin C07_exK2 (mkLattice C07_exK2) [1, 2] = some 3 ∧
    conceptJoin C07_exK2 (mkLattice C07_exK2) 1 2 = some 3 ∧
    conceptMeet C07_exK2 (mkLattice C07_exK2) 1 2 = some 0 := by decide +kernel

end FCA
#print axioms FCA.C07_join_lub
#print axioms FCA.C07_meet_closed
#print axioms FCA.C07_meet_glb
#print axioms FCA.C07_lookup_defined_join
#print axioms FCA.C07_lookup_defined_meet
#print axioms FCA.C07_lookup_defined
#print axioms FCA.C07_join_is_lub
#print axioms FCA.C07_meet_is_glb
#print axioms FCA.C07_empty_join
#print axioms FCA.C07_empty_meet
#print axioms FCA.C07_binary_agrees
#print axioms FCA.C07_sup_assoc
#print axioms FCA.C07_absorb_sup_inf
#print axioms FCA.C07_absorb_inf_sup
#print axioms FCA.C07_order_iff
#print axioms FCA.C07_concept_comm
#print axioms FCA.C07_concept_idem
#print axioms FCA.C07_concept_order_iff
#print axioms FCA.C07_concept_assoc
#print axioms FCA.C07_concept_absorb
