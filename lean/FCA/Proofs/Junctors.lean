import FCA.Model.Junctors
import FCA.Proofs.Galois
/-
Helper lemmas for property C16 (`junctors.py`): pattern codes of columns, table well-formedness,
`combos2`, the stable insertion sort `sortRel`, and the unfolded form of `relations`.
-/
namespace FCA

/-! ### mask helpers -/

theorem andNot_eq_zero_iff {a b : Nat} : andNot a b = 0 ↔ a ⊆ᵇ b := by
  rw [eq_zero_iff]
  constructor
  · intro h i hi
    by_contra hb
    exact h i (mem_andNot.mpr ⟨hi, hb⟩)
  · intro h i hi
    rw [mem_andNot] at hi
    exact hi.2 (h i hi.1)

theorem andNot_ne_zero_iff {a b : Nat} : andNot a b ≠ 0 ↔ ∃ i, i ∈ᵇ a ∧ ¬ i ∈ᵇ b := by
  rw [ne_zero_iff]; simp

theorem bounded_or {n a b : Nat} (ha : Bounded n a) (hb : Bounded n b) : Bounded n (a ||| b) := by
  intro i hi
  rcases mem_or.mp hi with h | h
  · exact ha i h
  · exact hb i h

theorem neither_eq_zero_iff {n l r : Nat} (hl : Bounded n l) (hr : Bounded n r) :
    andNot (full n) (l ||| r) = 0 ↔ l ||| r = full n := by
  rw [andNot_eq_zero_iff]
  constructor
  · intro h
    exact sub_antisymm (bounded_iff_sub_full.mp (bounded_or hl hr)) h
  · intro h; rw [h]; exact sub_refl _

theorem neither_ne_zero_iff {n l r : Nat} :
    andNot (full n) (l ||| r) ≠ 0 ↔ ∃ i, i < n ∧ ¬ i ∈ᵇ l ∧ ¬ i ∈ᵇ r := by
  rw [ne_zero_iff]; simp

theorem exists_not_mem_of_ne_full {n a : Nat} (ha : Bounded n a) (hne : a ≠ full n) :
    ∃ i, i < n ∧ ¬ i ∈ᵇ a := by
  by_contra h
  push Not at h
  apply hne
  apply ext
  intro i
  rw [mem_full]
  exact ⟨fun hi => ha i hi, fun hi => h i hi⟩

/-! ### pattern codes -/

/-- the four occurrence bits packed like `binaryCode` -/
def encode4 (a b c d : Bool) : Nat :=
  (if a then 1 else 0) ||| (if b then 2 else 0) ||| (if c then 4 else 0) ||| (if d then 8 else 0)

theorem binaryCode_eq (n l r : Nat) :
    binaryCode n l r = encode4 (decide (l &&& r ≠ 0)) (decide (andNot l r ≠ 0))
      (decide (andNot r l ≠ 0)) (decide (andNot (full n) (l ||| r) ≠ 0)) := by
  simp only [binaryCode, encode4, decide_eq_true_eq]

theorem encode4_inj {a b c d a' b' c' d' : Bool} :
    encode4 a b c d = encode4 a' b' c' d' ↔ a = a' ∧ b = b' ∧ c = c' ∧ d = d' := by
  revert a b c d a' b' c' d'; decide

theorem binaryCode_eq_iff (n l r : Nat) (a b c d : Bool) :
    binaryCode n l r = encode4 a b c d ↔
      ((l &&& r ≠ 0) ↔ a = true) ∧ ((andNot l r ≠ 0) ↔ b = true) ∧
      ((andNot r l ≠ 0) ↔ c = true) ∧ ((andNot (full n) (l ||| r) ≠ 0) ↔ d = true) := by
  rw [binaryCode_eq, encode4_inj]
  cases a <;> cases b <;> cases c <;> cases d <;> simp

theorem encode4_total : ∀ a b c d : Bool, (a || b) = true → (c || d) = true → (a || c) = true → (b || d) = true →
    encode4 a b c d ∈ [15, 7, 13, 11, 9, 14, 6] := by decide

theorem unaryCode_eq_three_iff {n col : Nat} : unaryCode n col = 3 ↔ col ≠ 0 ∧ col ≠ full n := by
  unfold unaryCode
  split_ifs with h1 h2 h2 <;> simp_all

theorem unaryCode_mem {n col : Nat} (hn : 0 < n) : unaryCode n col ∈ [1, 2, 3] := by
  have hf : full n ≠ 0 := by
    unfold full
    have : 2 ^ 1 ≤ 2 ^ n := Nat.pow_le_pow_right (by norm_num) hn
    omega
  unfold unaryCode
  split_ifs with h1 h2 h2 <;> simp_all

theorem unaryCode_eq_one_iff {n col : Nat} (hn : 0 < n) : unaryCode n col = 1 ↔ col = full n := by
  have hf : full n ≠ 0 := by
    unfold full
    have : 2 ^ 1 ≤ 2 ^ n := Nat.pow_le_pow_right (by norm_num) hn
    omega
  unfold unaryCode
  split_ifs with h1 h2 h2 <;> simp_all

theorem unaryCode_eq_two_iff {n col : Nat} (hn : 0 < n) : unaryCode n col = 2 ↔ col = 0 := by
  have hf : full n ≠ 0 := by
    unfold full
    have : 2 ^ 1 ≤ 2 ^ n := Nat.pow_le_pow_right (by norm_num) hn
    omega
  unfold unaryCode
  split_ifs with h1 h2 h2 <;> simp_all

/-- two contingent bounded columns only produce the seven documented patterns -/
theorem binaryCode_mem {n l r : Nat} (hl : Bounded n l) (hr : Bounded n r)
    (hcl : unaryCode n l = 3) (hcr : unaryCode n r = 3) :
    binaryCode n l r ∈ [15, 7, 13, 11, 9, 14, 6] := by
  rw [unaryCode_eq_three_iff] at hcl hcr
  rw [binaryCode_eq]
  obtain ⟨i1, hi1⟩ := ne_zero_iff.mp hcl.1
  obtain ⟨i2, hi2, hi2'⟩ := exists_not_mem_of_ne_full hl hcl.2
  obtain ⟨i3, hi3⟩ := ne_zero_iff.mp hcr.1
  obtain ⟨i4, hi4, hi4'⟩ := exists_not_mem_of_ne_full hr hcr.2
  apply encode4_total
  · rw [Bool.or_eq_true, decide_eq_true_eq, decide_eq_true_eq, and_ne_zero_iff, andNot_ne_zero_iff]
    by_cases h : i1 ∈ᵇ r
    · exact Or.inl ⟨i1, hi1, h⟩
    · exact Or.inr ⟨i1, hi1, h⟩
  · rw [Bool.or_eq_true, decide_eq_true_eq, decide_eq_true_eq, andNot_ne_zero_iff, neither_ne_zero_iff]
    by_cases h : i2 ∈ᵇ r
    · exact Or.inl ⟨i2, h, hi2'⟩
    · exact Or.inr ⟨i2, hi2, hi2', h⟩
  · rw [Bool.or_eq_true, decide_eq_true_eq, decide_eq_true_eq, and_ne_zero_iff, andNot_ne_zero_iff]
    by_cases h : i3 ∈ᵇ l
    · exact Or.inl ⟨i3, h, hi3⟩
    · exact Or.inr ⟨i3, hi3, h⟩
  · rw [Bool.or_eq_true, decide_eq_true_eq, decide_eq_true_eq, andNot_ne_zero_iff, neither_ne_zero_iff]
    by_cases h : i4 ∈ᵇ l
    · exact Or.inl ⟨i4, h, hi4'⟩
    · exact Or.inr ⟨i4, hi4, h, hi4'⟩

/-- reading a code as the four occurrence facts, in subset language -/
theorem binaryCode_eq_iff' {n l r : Nat} (hl : Bounded n l) (hr : Bounded n r) (a b c d : Bool) :
    binaryCode n l r = encode4 a b c d ↔
      ((l &&& r ≠ 0) ↔ a = true) ∧ ((¬ l ⊆ᵇ r) ↔ b = true) ∧
      ((¬ r ⊆ᵇ l) ↔ c = true) ∧ ((l ||| r ≠ full n) ↔ d = true) := by
  rw [binaryCode_eq_iff]
  simp only [ne_eq, andNot_eq_zero_iff, neither_eq_zero_iff hl hr]

theorem and_self_mask (a : Nat) : a &&& a = a := Nat.and_self a
theorem or_self_mask (a : Nat) : a ||| a = a := Nat.or_self a

section sem
variable {n l r : Nat} (hl : Bounded n l) (hr : Bounded n r)
  (hcl : unaryCode n l = 3) (hcr : unaryCode n r = 3)
include hl hr hcl hcr

theorem code9_iff : binaryCode n l r = 9 ↔ l = r := by
  rw [show (9 : Nat) = encode4 true false false true from rfl, binaryCode_eq_iff' hl hr]
  rw [unaryCode_eq_three_iff] at hcl hcr
  simp only [Bool.false_eq_true, iff_false, iff_true, not_not]
  constructor
  · rintro ⟨_, h1, h2, _⟩; exact sub_antisymm h1 h2
  · rintro rfl
    refine ⟨?_, sub_refl _, sub_refl _, ?_⟩
    · rw [Nat.and_self]; exact hcl.1
    · rw [Nat.or_self]; exact hcl.2

theorem code6_iff : binaryCode n l r = 6 ↔ l &&& r = 0 ∧ l ||| r = full n := by
  rw [show (6 : Nat) = encode4 false true true false from rfl, binaryCode_eq_iff' hl hr]
  rw [unaryCode_eq_three_iff] at hcl hcr
  simp only [Bool.false_eq_true, iff_false, iff_true, not_not]
  constructor
  · rintro ⟨h1, _, _, h2⟩; exact ⟨h1, h2⟩
  · rintro ⟨h1, h2⟩
    refine ⟨h1, ?_, ?_, h2⟩
    · intro hs
      apply hcl.1
      rw [← and_eq_left_iff.mpr hs]; exact h1
    · intro hs
      apply hcr.1
      rw [← and_eq_left_iff.mpr hs, Nat.and_comm]; exact h1

theorem code14_iff : binaryCode n l r = 14 ↔ l &&& r = 0 ∧ l ||| r ≠ full n := by
  rw [show (14 : Nat) = encode4 false true true true from rfl, binaryCode_eq_iff' hl hr]
  rw [unaryCode_eq_three_iff] at hcl hcr
  simp only [Bool.false_eq_true, iff_false, iff_true, not_not]
  constructor
  · rintro ⟨h1, _, _, h2⟩; exact ⟨h1, h2⟩
  · rintro ⟨h1, h2⟩
    refine ⟨h1, ?_, ?_, h2⟩
    · intro hs
      apply hcl.1
      rw [← and_eq_left_iff.mpr hs]; exact h1
    · intro hs
      apply hcr.1
      rw [← and_eq_left_iff.mpr hs, Nat.and_comm]; exact h1

omit hcl hcr in
theorem code7_iff : binaryCode n l r = 7 ↔
    l &&& r ≠ 0 ∧ l ||| r = full n ∧ ¬ l ⊆ᵇ r ∧ ¬ r ⊆ᵇ l := by
  rw [show (7 : Nat) = encode4 true true true false from rfl, binaryCode_eq_iff' hl hr]
  simp only [Bool.false_eq_true, iff_false, iff_true, not_not]
  tauto

omit hcl hcr in
theorem code15_iff : binaryCode n l r = 15 ↔
    l &&& r ≠ 0 ∧ ¬ l ⊆ᵇ r ∧ ¬ r ⊆ᵇ l ∧ l ||| r ≠ full n := by
  rw [show (15 : Nat) = encode4 true true true true from rfl, binaryCode_eq_iff' hl hr]
  simp only [iff_true]

theorem code13_iff : binaryCode n l r = 13 ↔ l ⊆ᵇ r ∧ l ≠ r := by
  rw [show (13 : Nat) = encode4 true false true true from rfl, binaryCode_eq_iff' hl hr]
  rw [unaryCode_eq_three_iff] at hcl hcr
  simp only [Bool.false_eq_true, iff_false, iff_true, not_not]
  constructor
  · rintro ⟨_, h1, h2, _⟩
    exact ⟨h1, fun h => h2 (h ▸ sub_refl _)⟩
  · rintro ⟨h1, h2⟩
    refine ⟨?_, h1, fun h => h2 (sub_antisymm h1 h), ?_⟩
    · rw [and_eq_left_iff.mpr h1]; exact hcl.1
    · have : l ||| r = r := by rw [Nat.or_comm]; exact or_eq_left_iff.mpr h1
      rw [this]; exact hcr.2

theorem code11_iff : binaryCode n l r = 11 ↔ r ⊆ᵇ l ∧ l ≠ r := by
  rw [show (11 : Nat) = encode4 true true false true from rfl, binaryCode_eq_iff' hl hr]
  rw [unaryCode_eq_three_iff] at hcl hcr
  simp only [Bool.false_eq_true, iff_false, iff_true, not_not]
  constructor
  · rintro ⟨_, h1, h2, _⟩
    exact ⟨h2, fun h => h1 (h ▸ sub_refl _)⟩
  · rintro ⟨h1, h2⟩
    refine ⟨?_, fun h => h2 (sub_antisymm h h1), h1, ?_⟩
    · rw [Nat.and_comm, and_eq_left_iff.mpr h1]; exact hcr.1
    · rw [or_eq_left_iff.mpr h1]; exact hcl.2

end sem

/-! ### the table -/

/-- documented kind of a binary pattern (13 and 11 are both reported as implication) -/
def kindOfCode : Nat → String
  | 9 => "equivalent" | 6 => "complement" | 14 => "incompatible" | 13 => "implication"
  | 11 => "implication" | 7 => "subcontrary" | 15 => "orthogonal" | _ => ""

/-- documented sort rank of a binary pattern -/
def rankOfCode : Nat → Int
  | 9 => 1 | 6 => 2 | 14 => 3 | 13 => 4 | 11 => 4 | 7 => 6 | 15 => 7 | _ => 0

def unaryKind : Nat → String
  | 1 => "tautology" | 2 => "contradiction" | 3 => "contingency" | _ => ""

def unaryRank : Nat → Int
  | 1 => -1 | 2 => -2 | 3 => 0 | _ => 0

/-- what `classifyBinary` reads from the entry found for a pattern -/
def JTable.binInfo (T : JTable) (c : Nat) : Option (Bool × String × Int) :=
  (T.binary.find? (·.pattern == c)).map fun e => (e.name == "Replication", e.kind, e.order)

/-- what `classifyUnary` / `relations` read from the entry found for a unary pattern -/
def JTable.unInfo (T : JTable) (c : Nat) : Option (Bool × String × Int) :=
  (T.unary.find? (·.pattern == c)).map fun e => (e.name == "Contingency", e.kind, e.order)

/-- Well-formedness of a pattern table, as weak as the proofs need: looking up each of the six
non-replication patterns two contingent columns can produce finds an entry not named `Replication`
with the documented kind and rank; pattern 11 finds the entry named `Replication`; the entry named
`Implication` exists with kind `implication`, rank 4; the three unary patterns are found with the
documented kind / rank and only pattern 3 is named `Contingency`. -/
def JTable.Good (T : JTable) : Prop :=
  (∀ c ∈ [15, 7, 13, 9, 14, 6], T.binInfo c = some (false, kindOfCode c, rankOfCode c)) ∧
  (T.binInfo 11).map (·.1) = some true ∧
  (T.binary.find? (·.name == "Implication")).map (fun e => (e.kind, e.order)) = some ("implication", 4) ∧
  (∀ c ∈ [1, 2, 3], T.unInfo c = some (c == 3, unaryKind c, unaryRank c))

instance (T : JTable) : Decidable T.Good := by unfold JTable.Good; infer_instance

theorem pinnedTable_good : pinnedTable.Good := by decide

/-- specification of `classifyBinary` -/
def specBinary (n l r cl cr : Nat) : RelItem :=
  if binaryCode n cl cr = 11 then ⟨"implication", r, some l, 4⟩
  else ⟨kindOfCode (binaryCode n cl cr), l, some r, rankOfCode (binaryCode n cl cr)⟩

/-- specification of the item of `classifyUnary` -/
def specUnary (n p col : Nat) : RelItem :=
  ⟨unaryKind (unaryCode n col), p, none, unaryRank (unaryCode n col)⟩

theorem classifyBinary_eq {T : JTable} (hT : T.Good) {n cl cr : Nat} (l r : Nat)
    (hc : binaryCode n cl cr ∈ [15, 7, 13, 11, 9, 14, 6]) :
    classifyBinary T n l r cl cr = some (specBinary n l r cl cr) := by
  obtain ⟨h6, h11, himp, _⟩ := hT
  unfold classifyBinary specBinary
  by_cases hc11 : binaryCode n cl cr = 11
  · rw [hc11] at *
    simp only [JTable.binInfo, Option.map_map] at h11
    rw [Option.map_eq_some_iff] at h11 himp
    obtain ⟨e, he, hen⟩ := h11
    obtain ⟨imp, hi, hik⟩ := himp
    simp only [Function.comp] at hen
    simp only [Prod.mk.injEq] at hik
    rw [he]
    simp only [hen, if_true, hi, Option.map_some, hik.1, hik.2]
  · have hc6 : binaryCode n cl cr ∈ [15, 7, 13, 9, 14, 6] := by
      simp only [List.mem_cons, List.not_mem_nil, or_false] at hc ⊢
      tauto
    have := h6 _ hc6
    simp only [JTable.binInfo] at this
    rw [Option.map_eq_some_iff] at this
    obtain ⟨e, he, hen⟩ := this
    simp only [Prod.mk.injEq] at hen
    rw [he]
    simp only [hen.1, Bool.false_eq_true, if_false, hc11, hen.2.1, hen.2.2]

theorem classifyUnary_snd {T : JTable} (hT : T.Good) {n : Nat} (hn : 0 < n) (p col : Nat) :
    (classifyUnary T n p col).map (·.2) = some (specUnary n p col) := by
  obtain ⟨_, _, _, hu⟩ := hT
  have := hu _ (unaryCode_mem (n := n) (col := col) hn)
  simp only [JTable.unInfo] at this
  rw [Option.map_eq_some_iff] at this
  obtain ⟨e, he, hen⟩ := this
  simp only [Prod.mk.injEq] at hen
  unfold classifyUnary specUnary
  rw [he]
  simp only [Option.map_some, hen.2.1, hen.2.2]

theorem classifyUnary_contingent {T : JTable} (hT : T.Good) {n : Nat} (hn : 0 < n) (p col : Nat) :
    ((classifyUnary T n p col).bind fun x => if x.1.name == "Contingency" then some x.2.left else none) =
      if unaryCode n col = 3 then some p else none := by
  obtain ⟨_, _, _, hu⟩ := hT
  have := hu _ (unaryCode_mem (n := n) (col := col) hn)
  simp only [JTable.unInfo] at this
  rw [Option.map_eq_some_iff] at this
  obtain ⟨e, he, hen⟩ := this
  simp only [Prod.mk.injEq] at hen
  unfold classifyUnary
  rw [he]
  simp only [Option.map_some, Option.bind_some]
  rw [hen.1]
  simp only [beq_iff_eq]

/-! ### `combos2` -/

theorem mem_combos2_cons {a b x : Nat} {xs : List Nat} :
    (a, b) ∈ combos2 (x :: xs) ↔ (a = x ∧ b ∈ xs) ∨ (a, b) ∈ combos2 xs := by
  simp only [combos2, List.mem_append, List.mem_map, Prod.mk.injEq]
  constructor
  · rintro (⟨y, hy, rfl, rfl⟩ | h)
    · exact Or.inl ⟨rfl, hy⟩
    · exact Or.inr h
  · rintro (⟨rfl, hb⟩ | h)
    · exact Or.inl ⟨b, hb, rfl, rfl⟩
    · exact Or.inr h

/-- `combos2` lists exactly the two-element subsequences -/
theorem mem_combos2_iff_sublist {a b : Nat} {l : List Nat} :
    (a, b) ∈ combos2 l ↔ List.Sublist [a, b] l := by
  induction l with
  | nil => simp [combos2]
  | cons x xs ih =>
    rw [mem_combos2_cons, ih, List.sublist_cons_iff]
    constructor
    · rintro (⟨rfl, hb⟩ | h)
      · exact Or.inr ⟨[b], rfl, List.singleton_sublist.mpr hb⟩
      · exact Or.inl h
    · rintro (h | ⟨r, hr, hs⟩)
      · exact Or.inr h
      · simp only [List.cons.injEq] at hr
        obtain ⟨rfl, rfl⟩ := hr
        exact Or.inl ⟨rfl, List.singleton_sublist.mp hs⟩

theorem mem_of_mem_combos2 {a b : Nat} {l : List Nat} (h : (a, b) ∈ combos2 l) : a ∈ l ∧ b ∈ l := by
  rw [mem_combos2_iff_sublist] at h
  exact ⟨h.subset (by simp), h.subset (by simp)⟩

/-- on a strictly increasing list: every pair `a < b` of members, once -/
theorem mem_combos2_sorted {a b : Nat} {l : List Nat} (hl : l.Pairwise (· < ·)) :
    (a, b) ∈ combos2 l ↔ a ∈ l ∧ b ∈ l ∧ a < b := by
  induction l with
  | nil => simp [combos2]
  | cons x xs ih =>
    rw [List.pairwise_cons] at hl
    rw [mem_combos2_cons, ih hl.2]
    simp only [List.mem_cons]
    constructor
    · rintro (⟨rfl, hb⟩ | ⟨ha, hb, hab⟩)
      · exact ⟨Or.inl rfl, Or.inr hb, hl.1 b hb⟩
      · exact ⟨Or.inr ha, Or.inr hb, hab⟩
    · rintro ⟨rfl | ha, rfl | hb, hab⟩
      · omega
      · exact Or.inl ⟨rfl, hb⟩
      · have := hl.1 a ha; omega
      · exact Or.inr ⟨ha, hb, hab⟩

theorem combos2_nodup {l : List Nat} (hl : l.Nodup) : (combos2 l).Nodup := by
  induction l with
  | nil => simp [combos2]
  | cons x xs ih =>
    rw [List.nodup_cons] at hl
    unfold combos2
    rw [List.nodup_append]
    refine ⟨?_, ih hl.2, ?_⟩
    · exact hl.2.map (fun a b h => by simpa using h)
    · intro p hp q hq hpq
      subst hpq
      rw [List.mem_map] at hp
      obtain ⟨y, _, rfl⟩ := hp
      exact hl.1 (mem_of_mem_combos2 hq).1

theorem combos2_length (l : List Nat) : (combos2 l).length = l.length * (l.length - 1) / 2 := by
  induction l with
  | nil => simp [combos2]
  | cons x xs ih =>
    simp only [combos2, List.length_append, List.length_map, ih, List.length_cons, Nat.add_sub_cancel]
    rcases Nat.even_or_odd' xs.length with ⟨k, hk | hk⟩
    · rw [hk]
      have h1 : 2 * k * (2 * k - 1) = 2 * (k * (2 * k - 1)) := by ring
      have h2 : (2 * k + 1) * (2 * k) = 2 * (k * (2 * k + 1)) := by ring
      rw [h1, h2, Nat.mul_div_cancel_left _ (by norm_num), Nat.mul_div_cancel_left _ (by norm_num)]
      cases k with
      | zero => rfl
      | succ k =>
        have : 2 * (k + 1) - 1 = 2 * k + 1 := by omega
        rw [this]; ring
    · rw [hk]
      have h0 : 2 * k + 1 - 1 = 2 * k := by omega
      have h1 : (2 * k + 1) * (2 * k) = 2 * (k * (2 * k + 1)) := by ring
      have h2 : (2 * k + 1 + 1) * (2 * k + 1) = 2 * ((k + 1) * (2 * k + 1)) := by ring
      rw [h0, h1, h2, Nat.mul_div_cancel_left _ (by norm_num), Nat.mul_div_cancel_left _ (by norm_num)]
      ring

/-! ### `sortRel` -/

theorem insertRel_perm (x : RelItem) (l : List RelItem) : (insertRel x l).Perm (x :: l) := by
  induction l with
  | nil => exact List.Perm.refl _
  | cons y ys ih =>
    unfold insertRel
    split
    · exact List.Perm.refl _
    · exact (List.Perm.cons y ih).trans (List.Perm.swap x y ys)

theorem sortRel_perm (l : List RelItem) : (sortRel l).Perm l := by
  induction l with
  | nil => exact List.Perm.refl _
  | cons x xs ih =>
    show (insertRel x (sortRel xs)).Perm (x :: xs)
    exact (insertRel_perm x _).trans (List.Perm.cons x ih)

theorem insertRel_sorted (x : RelItem) {l : List RelItem} (hl : l.Pairwise (fun a b => a.order ≤ b.order)) :
    (insertRel x l).Pairwise (fun a b => a.order ≤ b.order) := by
  induction l with
  | nil => simp [insertRel]
  | cons y ys ih =>
    rw [List.pairwise_cons] at hl
    unfold insertRel
    split
    · rename_i hxy
      rw [List.pairwise_cons]
      refine ⟨?_, List.pairwise_cons.mpr hl⟩
      intro z hz
      rcases List.mem_cons.mp hz with rfl | hz
      · exact hxy
      · exact le_trans hxy (hl.1 z hz)
    · rename_i hxy
      rw [List.pairwise_cons]
      refine ⟨?_, ih hl.2⟩
      intro z hz
      have := (insertRel_perm x ys).subset hz
      rcases List.mem_cons.mp this with rfl | hz
      · exact le_of_lt (not_le.mp hxy)
      · exact hl.1 z hz

theorem sortRel_sorted (l : List RelItem) : (sortRel l).Pairwise (fun a b => a.order ≤ b.order) := by
  induction l with
  | nil => simp [sortRel]
  | cons x xs ih => exact insertRel_sorted x ih

/-- inserting does not disturb the relative order of the entries of one rank -/
theorem filter_insertRel (k : Int) (x : RelItem) (l : List RelItem) :
    (insertRel x l).filter (fun a => decide (a.order = k)) = (x :: l).filter (fun a => decide (a.order = k)) := by
  induction l with
  | nil => rfl
  | cons y ys ih =>
    unfold insertRel
    split
    · rfl
    · rename_i hxy
      rw [List.filter_cons, ih]
      by_cases hy : y.order = k
      · have hx : ¬ x.order = k := by intro hx; rw [hx, hy] at hxy; exact hxy (le_refl _)
        simp [hy, hx]
      · simp [List.filter_cons, hy]

theorem filter_sortRel (k : Int) (l : List RelItem) :
    (sortRel l).filter (fun a => decide (a.order = k)) = l.filter (fun a => decide (a.order = k)) := by
  induction l with
  | nil => rfl
  | cons x xs ih =>
    show (insertRel x (sortRel xs)).filter _ = _
    rw [filter_insertRel, List.filter_cons, List.filter_cons, ih]

/-! ### `relations` unfolded -/

theorem filterMap_eq_map_of {α β : Type} (f : α → Option β) (g : α → β) (l : List α)
    (h : ∀ x ∈ l, f x = some (g x)) : l.filterMap f = l.map g := by
  induction l with
  | nil => rfl
  | cons a l ih =>
    rw [List.filterMap_cons, h a (by simp), List.map_cons, ih (fun x hx => h x (by simp [hx]))]

theorem filterMap_ite_eq_filter {α : Type} (c : α → Prop) [DecidablePred c] (l : List α) :
    l.filterMap (fun x => if c x then some x else none) = l.filter (fun x => decide (c x)) := by
  induction l with
  | nil => rfl
  | cons a l ih =>
    by_cases h : c a <;> simp [h, ih]

/-- the contingent properties of a context, ascending -/
def contingentProps (K : Ctx) : List Nat :=
  (List.range K.m).filter fun p => decide (unaryCode K.n (K.cols[p]!) = 3)

theorem mem_contingentProps {K : Ctx} {p : Nat} :
    p ∈ contingentProps K ↔ p < K.m ∧ unaryCode K.n (K.cols[p]!) = 3 := by
  simp [contingentProps]

theorem contingentProps_sorted (K : Ctx) : (contingentProps K).Pairwise (· < ·) :=
  List.Pairwise.sublist List.filter_sublist List.pairwise_lt_range

theorem contingentProps_nodup (K : Ctx) : (contingentProps K).Nodup :=
  (contingentProps_sorted K).imp (fun h => Nat.ne_of_lt h)

theorem cols_bounded {K : Ctx} (hK : K.WF) (p : Nat) : Bounded K.n (K.cols[p]!) := by
  intro i hi
  rw [hK.2.2] at hi
  exact ((mem_colsOf _ _ _ i p).mp hi).2.1

/-- the unary items of `relations` -/
def unaryItems (K : Ctx) : List RelItem :=
  (List.range K.m).map fun p => specUnary K.n p (K.cols[p]!)

/-- the binary items of `relations` before sorting -/
def binaryItems (K : Ctx) : List RelItem :=
  (combos2 (contingentProps K)).map fun q => specBinary K.n q.1 q.2 (K.cols[q.1]!) (K.cols[q.2]!)

theorem relations_eq {T : JTable} (hT : T.Good) {K : Ctx} (hK : K.WF) (hn : 0 < K.n) (iu : Bool) :
    relations T K iu = sortRel ((if iu then unaryItems K else []) ++ binaryItems K) := by
  have h1 : ((List.range K.m).filterMap fun p => classifyUnary T K.n p (K.cols[p]!)).map (·.2) = unaryItems K := by
    rw [List.map_filterMap]
    exact filterMap_eq_map_of _ _ _ (fun p _ => classifyUnary_snd hT hn p _)
  have h2 : (((List.range K.m).filterMap fun p => classifyUnary T K.n p (K.cols[p]!)).filterMap
      fun (x : JEntry × RelItem) => match x with
        | (e, it) => if e.name == "Contingency" then some it.left else none) = contingentProps K := by
    rw [List.filterMap_filterMap]
    have : (fun p => (classifyUnary T K.n p (K.cols[p]!)).bind fun (x : JEntry × RelItem) => match x with
        | (e, it) => if e.name == "Contingency" then some it.left else none) =
        fun p => if unaryCode K.n (K.cols[p]!) = 3 then some p else none := by
      funext p
      exact classifyUnary_contingent hT hn p _
    rw [this]
    exact filterMap_ite_eq_filter _ _
  have h3 : ((combos2 (contingentProps K)).filterMap fun (q : Nat × Nat) => match q with
      | (l, r) => classifyBinary T K.n l r (K.cols[l]!) (K.cols[r]!)) = binaryItems K := by
    apply filterMap_eq_map_of
    rintro ⟨l, r⟩ hq
    obtain ⟨hl, hr⟩ := mem_of_mem_combos2 hq
    rw [mem_contingentProps] at hl hr
    exact classifyBinary_eq hT l r (binaryCode_mem (cols_bounded hK l) (cols_bounded hK r) hl.2 hr.2)
  unfold relations
  simp only []
  rw [h2, h3, h1]

/-- the unordered pair of properties a binary entry is about (`none` for a unary entry) -/
def RelItem.pair (x : RelItem) : Option (Nat × Nat) :=
  x.right.map fun r => (min x.left r, max x.left r)

theorem pair_specBinary (n l r cl cr : Nat) :
    (specBinary n l r cl cr).pair = some (min l r, max l r) := by
  unfold specBinary RelItem.pair
  split
  · simp [Nat.min_comm, Nat.max_comm]
  · simp

theorem right_specBinary (n l r cl cr : Nat) : (specBinary n l r cl cr).right.isSome = true := by
  unfold specBinary; split <;> rfl

theorem map_pair_binaryItems (K : Ctx) :
    (binaryItems K).map RelItem.pair = (combos2 (contingentProps K)).map some := by
  unfold binaryItems
  rw [List.map_map]
  apply List.map_congr_left
  rintro ⟨l, r⟩ hq
  have hlt := ((mem_combos2_sorted (contingentProps_sorted K)).mp hq).2.2
  simp only [Function.comp, pair_specBinary]
  rw [Nat.min_eq_left (le_of_lt hlt), Nat.max_eq_right (le_of_lt hlt)]

theorem map_pair_unaryItems (K : Ctx) :
    (unaryItems K).map RelItem.pair = (List.range K.m).map fun _ => none := by
  unfold unaryItems
  rw [List.map_map]
  rfl

end FCA
