import FCA.Proofs.FormatsStr
import FCA.Proofs.PyLiteralDoc
/-
The lines of a python-literal file: no line written by `dumpLiteral` contains a line break (`repr`
escapes it), so the lines of the text are exactly `dumpLiteralLines`.
-/
namespace FCA

theorem splitChar_unlines (ls : List Str) (h : ∀ l ∈ ls, '\n' ∉ l) :
    splitChar '\n' (unlines ls) = ls ++ [[]] := by
  induction ls with
  | nil => simp [unlines, splitChar]
  | cons l ls ih =>
    rw [unlines_cons, splitChar_append_sep (h l (by simp)), ih (fun x hx => h x (by simp [hx]))]
    rfl

theorem litHexDigit_ne_nl {d : Nat} (h : d < 16) : litHexDigit d ≠ '\n' := by
  interval_cases d <;> decide

theorem nl_not_mem_litHex (k n : Nat) : '\n' ∉ litHex k n := by
  induction k with
  | zero => simp [litHex]
  | succ k ih =>
    rw [litHex, List.mem_cons, not_or]
    exact ⟨(litHexDigit_ne_nl (Nat.mod_lt _ (by norm_num))).symm, ih⟩

theorem nl_not_mem_escChar (p : Nat → Bool) (q c : Char) (hq : q = '\'' ∨ q = '"') :
    '\n' ∉ pyEscChar p q c := by
  have hx := nl_not_mem_litHex
  unfold pyEscChar
  split
  · rename_i h
    simp only [Bool.or_eq_true, beq_iff_eq] at h
    rcases h with rfl | rfl
    · rcases hq with rfl | rfl <;> decide
    · decide
  · split
    · decide
    · split
      · decide
      · rename_i hn
        have hn' : '\n' ≠ c := fun e => hn (by rw [← e]; rfl)
        repeat' split
        all_goals first
          | decide
          | (simp only [List.mem_cons, not_or]
             exact ⟨by decide, by decide, hx _ _⟩)
          | (simp only [List.mem_cons, List.not_mem_nil, or_false]; exact hn')

theorem nl_not_mem_reprStr (p : Nat → Bool) (s : Str) : '\n' ∉ pyReprStr p s := by
  have hq := pyQuote_cases s
  have hq' : '\n' ≠ pyQuote s := by rcases hq with h | h <;> rw [h] <;> decide
  unfold pyReprStr
  simp only [List.mem_cons, List.mem_append, List.mem_flatMap, List.not_mem_nil, or_false, not_or,
    not_exists, not_and]
  exact ⟨hq', fun c _ => nl_not_mem_escChar p _ c hq, hq'⟩

theorem nl_not_mem_reprNat (n : Nat) : '\n' ∉ pyReprNat n := by
  intro h
  have := pyReprNat_digits n _ h
  simp at this

theorem nl_not_mem_intTuple (l : List Nat) : '\n' ∉ pyReprIntTuple l := by
  have hj : ∀ l : List Nat, '\n' ∉ joinWith [',', ' '] (l.map pyReprNat) := fun l =>
    not_mem_joinWith (by decide) (by
      intro p hp
      obtain ⟨n, _, rfl⟩ := List.mem_map.mp hp
      exact nl_not_mem_reprNat n)
  match l with
  | [] => decide
  | [a] =>
    have := nl_not_mem_reprNat a
    simp [pyReprIntTuple, this]
  | a :: b :: l =>
    have := hj (a :: b :: l)
    simp only [pyReprIntTuple, List.mem_cons, List.mem_append, List.not_mem_nil, or_false, not_or]
    exact ⟨by decide, this, by decide⟩

theorem nl_not_mem_entry (e : LitEntry4) : '\n' ∉ pyReprEntry e := by
  obtain ⟨a, b, c, d⟩ := e
  have : '\n' ∉ joinWith [',', ' '] [pyReprIntTuple a, pyReprIntTuple b, pyReprIntTuple c,
      pyReprIntTuple d] :=
    not_mem_joinWith (by decide) (by
      intro p hp
      simp only [List.mem_cons, List.not_mem_nil, or_false] at hp
      rcases hp with rfl | rfl | rfl | rfl <;> exact nl_not_mem_intTuple _)
  simp only [pyReprEntry, List.mem_cons, List.mem_append, List.not_mem_nil, or_false, not_or]
  exact ⟨by decide, this, by decide⟩

theorem nl_not_mem_section (key : Str) (o c : Char) (lines : List Str) (hk : '\n' ∉ key)
    (ho : '\n' ≠ o) (hc : '\n' ≠ c) (hl : ∀ l ∈ lines, '\n' ∉ l) :
    ∀ l ∈ litSection key o c (litItemLines lines), '\n' ∉ l := by
  intro l hl'
  simp only [litSection, litItemLines, List.mem_cons, List.mem_append, List.mem_map,
    List.not_mem_nil, or_false] at hl'
  rcases hl' with rfl | ⟨x, hx, rfl⟩ | rfl
  · simp only [List.mem_append, List.mem_cons, List.not_mem_nil, or_false, not_or]
    exact ⟨⟨⟨by decide, by decide⟩, hk⟩, by decide, by decide, ho⟩
  · simp only [List.mem_append, List.mem_cons, List.not_mem_nil, or_false, not_or]
    exact ⟨⟨⟨by decide, by decide, by decide, by decide⟩, hl x hx⟩, by decide⟩
  · simp only [List.mem_cons, List.not_mem_nil, or_false, not_or]
    exact ⟨by decide, by decide, hc, by decide⟩

theorem dumpLiteralLines_no_nl (p : Nat → Bool) (d : LitDoc) :
    ∀ l ∈ dumpLiteralLines p d, '\n' ∉ l := by
  have hnames : ∀ key names, '\n' ∉ key → ∀ l ∈ litNamesSection p key names, '\n' ∉ l := by
    intro key names hk
    refine nl_not_mem_section key '(' ')' _ hk (by decide) (by decide) ?_
    intro l hl
    simp only [List.mem_cons, List.not_mem_nil, or_false] at hl
    subst hl
    exact not_mem_joinWith (by decide) (by
      intro x hx
      obtain ⟨s, _, rfl⟩ := List.mem_map.mp hx
      exact nl_not_mem_reprStr p s)
  have hlist : ∀ key items, '\n' ∉ key → (∀ l ∈ items, '\n' ∉ l) →
      ∀ l ∈ litListSection key items, '\n' ∉ l := by
    intro key items hk hi
    exact nl_not_mem_section key '[' ']' _ hk (by decide) (by decide) hi
  intro l hl
  simp only [dumpLiteralLines, List.mem_append, List.mem_cons, List.not_mem_nil, or_false] at hl
  rcases hl with ((((rfl | hl) | hl) | hl) | hl) | rfl
  · decide
  · exact hnames _ _ (by decide) l hl
  · exact hnames _ _ (by decide) l hl
  · refine hlist _ _ (by decide) ?_ l hl
    intro x hx
    obtain ⟨r, _, rfl⟩ := List.mem_map.mp hx
    exact nl_not_mem_intTuple r
  · cases hlat : d.lattice with
    | none => simp [hlat] at hl
    | some lat =>
      rw [hlat] at hl
      refine hlist _ _ (by decide) ?_ l hl
      intro x hx
      obtain ⟨r, _, rfl⟩ := List.mem_map.mp hx
      exact nl_not_mem_entry r
  · decide

/-- the lines of the text are the lines `dump_file` printed -/
theorem splitChar_dumpLiteral (p : Nat → Bool) (d : LitDoc) :
    splitChar '\n' (dumpLiteral p d) = dumpLiteralLines p d ++ [[]] :=
  splitChar_unlines _ (dumpLiteralLines_no_nl p d)

end FCA
