import FCA.Proofs.FormatsCxt
import FCA.Proofs.FormatsFimi
/-
The strict reader of the Burmeister format (`strictCxt`, written from the line layout alone)
recovers the triple from `dumpCxt`.
-/
namespace FCA

/-! ### `seqOpt` -/

theorem seqOpt_map_some {α : Type} (l : List α) : seqOpt (l.map some) = some l := by
  induction l with
  | nil => rfl
  | cons a l ih => simp [seqOpt, ih]

theorem seqOpt_map_of {α β : Type} {f : α → Option β} {g : α → β} {l : List α}
    (h : ∀ x ∈ l, f x = some (g x)) : seqOpt (l.map f) = some (l.map g) := by
  induction l with
  | nil => rfl
  | cons a l ih =>
    rw [List.map_cons, h a (by simp), seqOpt, ih (fun x hx => h x (by simp [hx]))]
    rfl

/-! ### decimal numbers -/

theorem strictNat_digits (s : Str) (h : s.all Char.isDigit = true) (a : Nat) :
    s.foldl strictDigit (some a) = some (s.foldl (fun a c => 10 * a + (c.toNat - 48)) a) := by
  induction s generalizing a with
  | nil => rfl
  | cons c cs ih =>
    simp only [List.all_cons, Bool.and_eq_true] at h
    have hd : '0' ≤ c ∧ c ≤ '9' := by
      have := h.1
      simp only [Char.isDigit, Bool.and_eq_true, decide_eq_true_eq] at this
      exact ⟨this.1, this.2⟩
    have e : strictDigit (some a) c = some (10 * a + (c.toNat - 48)) := by
      simp only [strictDigit, hd, and_self, if_true]; rfl
    rw [List.foldl_cons, List.foldl_cons, e]
    exact ih h.2 _

/-- `strictNat` reads what `str(n)` writes -/
theorem strictNat_toString (n : Nat) : strictNat (toString n).toList = some n := by
  have hp := parseNat?_toString n
  have hne : (toString n).toList.isEmpty = false := by
    cases h : (toString n).toList with
    | nil => exact absurd h (toString_nat_ne_nil n)
    | cons => rfl
  have hall : (toString n).toList.all Char.isDigit = true := by
    rw [List.all_eq_true]
    intro c hc
    simp only [Nat.toString_eq_repr, Nat.toList_repr] at hc
    exact Nat.isDigit_of_mem_toDigits (by decide) (by decide) hc
  simp only [parseNat?, hne, hall, Bool.not_true, Bool.or_self, Bool.false_eq_true, if_false] at hp
  unfold strictNat
  rw [hne]
  simp only [Bool.false_eq_true, if_false]
  rw [strictNat_digits _ hall, hp]

/-! ### the whole text -/

theorem decode_rowStr_strict (row : List Bool) :
    seqOpt ((rowStr row).map fun c =>
      if c == 'X' then some true else if c == '.' then some false else none) = some row := by
  rw [decode_rowStr, seqOpt_map_some]

/-- the strict reader recovers the triple; labels are arbitrary single-line strings (even empty
or with blanks at the ends), any shape (also no objects or no properties) -/
theorem strictCxt_dumpCxt {objects properties : List Str} {bools : List (List Bool)}
    (hlen : bools.length = objects.length) (hrow : ∀ r ∈ bools, r.length = properties.length)
    (ho : ∀ o ∈ objects, '\n' ∉ o) (hp : ∀ p ∈ properties, '\n' ∉ p) :
    strictCxt (dumpCxt objects properties bools) = some (objects, properties, bools) := by
  have hnl : ∀ n : Nat, '\n' ∉ (toString n).toList := by
    intro n hc; have := toString_nat_nospace n _ hc; simp [isSpace_nl] at this
  have hrs : ∀ r ∈ bools.map rowStr, '\n' ∉ r := by
    intro r hr
    simp only [List.mem_map] at hr
    obtain ⟨row, _, rfl⟩ := hr
    intro hc
    simp only [rowStr, List.mem_map] at hc
    obtain ⟨b, _, hb⟩ := hc
    cases b <;> simp at hb
  have hsplit : splitChar '\n' (dumpCxt objects properties bools) =
      ['B'] :: [] :: (toString objects.length).toList :: (toString properties.length).toList :: [] ::
        (objects ++ properties ++ bools.map rowStr ++ [[]]) := by
    unfold dumpCxt
    rw [splitChar_unlines]
    · simp [rowStr]
    · intro l hl
      simp only [List.mem_cons, List.mem_append, List.mem_map] at hl
      rcases hl with rfl | rfl | rfl | rfl | rfl | (hl | hl) | ⟨row, hr, rfl⟩
      · decide
      · simp
      · exact hnl _
      · exact hnl _
      · simp
      · exact ho l hl
      · exact hp l hl
      · exact hrs _ (List.mem_map_of_mem hr)
  unfold strictCxt
  rw [hsplit]
  simp only [bne_self_eq_false, Bool.or_self, Bool.false_eq_true, if_false, strictNat_toString]
  set rest := objects ++ properties ++ bools.map rowStr ++ [[]] with hrest
  have h1 : rest.length = objects.length + properties.length + objects.length + 1 := by
    simp [hrest, hlen]; omega
  have h2 : rest.getLast? = some [] := by simp [hrest]
  have h3 : rest.take objects.length = objects := by simp [hrest, List.append_assoc]
  have h4 : (rest.drop objects.length).take properties.length = properties := by
    simp [hrest, List.append_assoc]
  have h5 : (rest.drop (objects.length + properties.length)).take objects.length =
      bools.map rowStr := by
    have : rest = (objects ++ properties) ++ (bools.map rowStr ++ [[]]) := by
      simp [hrest, List.append_assoc]
    rw [this, ← List.length_append, List.drop_left, ← hlen]
    simp
  rw [h5, h3, h4]
  simp only [h1, h2, bne_self_eq_false, Bool.or_self, Bool.false_eq_true, if_false, List.map_map]
  have h6 : seqOpt (bools.map ((fun r : Str =>
      if (r.length != properties.length) = true then none
      else seqOpt (r.map fun c => if c == 'X' then some true else if c == '.' then some false else none))
        ∘ rowStr)) = some bools := by
    have := seqOpt_map_of (l := bools) (g := id) (f := (fun r : Str =>
      if (r.length != properties.length) = true then none
      else seqOpt (r.map fun c => if c == 'X' then some true else if c == '.' then some false else none))
        ∘ rowStr) ?_
    · simpa using this
    · intro row hr
      have hl : (rowStr row).length = properties.length := by simp [rowStr, hrow row hr]
      simp only [Function.comp_apply, hl, bne_self_eq_false, Bool.false_eq_true, if_false, id]
      exact decode_rowStr_strict row
  rw [h6]

end FCA
