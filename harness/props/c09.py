"""C09 - upset/downset traversals yield exactly the filters/ideals, once, in rank order."""
from core import guard, show_list
from props import lat
import gen


def run(run):
    run.rule = ('contexts as C03 plus lattices with many diamonds (Boolean, interordinal); every concept\'s upset()/downset(); '
                'upset_union/downset_union for all pairs (<= 14 concepts) or sampled pairs, and sampled multisets with repeats and '
                'comparable members, [] included; the yielded sequence must be strictly increasing in the implementation\'s own '
                'index (dindex) and its set of extents must equal the model\'s')
    d = run.driver
    rng = run.rng
    for tab, pc in lat.contexts(run, exh_quick=8, rand_quick=200, wide_quick=8, exh_thorough=13, nmax=8, mmax=8):
        if min(pc.n, pc.m) > 8:
            continue
        extra = {'objects': pc.objects, 'properties': pc.properties, 'bools': pc.bools}
        with guard(run, 'lattice', [pc.line]):
            L = pc.ctx.lattice
            cs = list(L)
            E = [pc.omask(c.extent) for c in cs]
        model = lat.parse_lattice(d.ask('lattice'))
        mpos = {c['extent']: k for k, c in enumerate(model)}
        if any(e not in mpos for e in E) or len(E) != len(model):
            run.notes.append('concept sets differ (see C03); context skipped')
            continue
        k = len(cs)
        if run.evaluations % 2 == 0:
            # traversals abandoned after a few items must leave nothing behind for later ones
            for kind_ in ('upset', 'downset'):
                it_ = getattr(cs[0] if kind_ == 'upset' else cs[-1], kind_)()
                next(it_, None), next(it_, None), next(it_, None)
                del it_
        seeds = [[a] for a in range(k)]
        seeds += [[a, b] for a in range(k) for b in range(k)] if k <= (9 if run.tier == 'quick' else 16) else \
            [[rng.randrange(k), rng.randrange(k)] for _ in range(60)]
        seeds += [[]] + [[rng.randrange(k) for _ in range(rng.randint(2, 6))] for _ in range(8)]
        seeds += [[a] * rng.randint(2, 3) for a in rng.sample(range(k), min(k, 3))]      # one concept, repeated
        reqs, cases = [], []
        nt = gen.nontrivial(tab)
        for s in seeds:
            ms = show_list(mpos[E[a]] for a in s)
            for kind in ('upset', 'downset'):
                r = '%s %s' % (kind, ms)
                what = 'concept[%d].%s()' % (s[0], kind) if len(s) == 1 and rng.random() < .5 else 'lattice.%s_union(%r)' % (kind, s)
                with guard(run, what, [pc.line, r]):
                    if what.startswith('concept') and rng.random() < .3:
                        # two traversals of the same lattice alive at once, advanced in lockstep, plus a nested one
                        it1, it2 = getattr(cs[s[0]], kind)(), getattr(cs[s[0]], kind)()
                        out, twin = [], []
                        for x, y in zip(it1, it2):
                            out.append(x)
                            twin.append(y)
                            if len(out) == 2:
                                list(getattr(x, kind)())
                        if [id(x) for x in out] != [id(y) for y in twin]:
                            run.fail(what + ': two simultaneous traversals differ', [c.index for c in out], [c.index for c in twin], [pc.line, r], extra)
                        rest = list(it1)
                        if rest:
                            run.fail(what + ': traversal longer than its simultaneous twin', [c.index for c in rest], None, [pc.line, r], extra)
                        run.count('simultaneous traversals')
                    elif what.startswith('concept'):
                        out = list(getattr(cs[s[0]], kind)())
                    elif len(s) % 3 == 2:
                        # the collection is read when the method is called: later edits of the caller's list do not matter
                        buf = [cs[a] for a in s]
                        it = getattr(L, kind + '_union')(buf)
                        buf.clear()
                        out = list(it)
                    else:
                        out = list(getattr(L, kind + '_union')(iter([cs[a] for a in s])))
                    ranks = [c.index if kind == 'upset' else c.dindex for c in out]
                    exts = [pc.omask(c.extent) for c in out]
                    if any(not any(c is x for x in cs) for c in out):
                        run.fail(what + ' yields a non-member', None, None, [pc.line, r], extra)
                if any(a >= b for a, b in zip(ranks, ranks[1:])):
                    run.fail(what + ' is not strictly increasing in %s' % ('index' if kind == 'upset' else 'dindex'),
                             ranks, None, [pc.line, r], dict(extra, extents=exts))
                reqs.append(r)
                cases.append((what, exts))
        for (what, exts), r, ans in zip(cases, reqs, d.ask_many(reqs)):
            want = [] if ans == '-' else [model[int(x)]['extent'] for x in ans.split(',')]
            run.case(pc.line + '|' + what, nt, {'context': pc.line, 'call': what, 'extents': exts[:10]})
            if sorted(exts) != sorted(want):
                run.fail(what + ' (set of yielded concepts)', sorted(exts), sorted(want), [pc.line, r], extra)
            if exts != want:
                run.count('sequence differs from model although set and monotonicity hold (diagnostic)')
        run.count('contexts')
