import FCA.Generated.Defn
import FCA.Proofs.Defn
/-
C13 over the regenerated source: eleven of the fifteen `Definition` mutators (`__setitem__`, `move_*`, `add_*`, `set_*`,
`remove_object/property`, `union_update`, `intersection_update`), translated statement by statement from the current `definitions.py`, are the
corresponding cases of the model's `Defn.step` — about which `C13_*` are proved. (`rename_*` — a comprehension with a side effect — and `remove_empty_*` are tied by the correspondence only.)
-/
namespace FCA

theorem C13_uIor_uniq (l xs : List Name) : uIor l (uniq xs) = uIor l xs := by
  induction xs generalizing l with
  | nil => rfl
  | cons x xs ih =>
    simp only [uniq, uIor, List.foldl_cons] at ih ⊢
    -- adding the later copies of `x` again changes nothing
    have key : ∀ (ys : List Name) (l : List Name), l.contains x = true →
        (ys.filter (· != x)).foldl uAdd l = ys.foldl uAdd l := by
      intro ys
      induction ys with
      | nil => intro l _; rfl
      | cons y ys ihy =>
        intro l hl
        by_cases hy : y = x
        · subst hy
          simp only [List.filter_cons, bne_self_eq_false, Bool.false_eq_true, if_false, List.foldl_cons]
          have : uAdd l y = l := by simp only [uAdd, hl, if_true]
          rw [this]; exact ihy l hl
        · have : (y != x) = true := by simpa using hy
          simp only [List.filter_cons, this, if_true, List.foldl_cons]
          apply ihy
          unfold uAdd; split
          · exact hl
          · simp only [List.contains_iff_mem, List.mem_append] at hl ⊢; exact Or.inl hl
    have hx : (uAdd l x).contains x = true := by
      unfold uAdd; split
      · assumption
      · simp
    rw [key (uniq xs) (uAdd l x) hx]
    exact ih (uAdd l x)

theorem C13_contains_uniq (xs : List Name) (p : Name) : (uniq xs).contains p = xs.contains p := by
  rw [Bool.eq_iff_iff]; simp [mem_uniq]

theorem C13_generated_setitem (d : Defn) (o p : Name) (v : Bool) :
    Generated.defn_setitem d.objs d.props d.pairs o p v = (d.step (.setItem o p v)).map (·.1) := by
  cases v <;> rfl

theorem C13_generated_move_object (d : Defn) (o : Name) (i : Int) :
    Generated.defn_move_object d.objs d.props d.pairs o i = (d.step (.moveObject o i)).map (·.1) := by
  simp only [Generated.defn_move_object, Defn.step]
  cases uMove d.objs o i <;> rfl

theorem C13_generated_move_property (d : Defn) (p : Name) (i : Int) :
    Generated.defn_move_property d.objs d.props d.pairs p i = (d.step (.moveProperty p i)).map (·.1) := by
  simp only [Generated.defn_move_property, Defn.step]
  cases uMove d.props p i <;> rfl

theorem C13_generated_add_object (d : Defn) (o : Name) (ps : List Name) :
    Generated.defn_add_object d.objs d.props d.pairs o ps = (d.step (.addObject o ps)).map (·.1) := rfl

theorem C13_generated_add_property (d : Defn) (p : Name) (os : List Name) :
    Generated.defn_add_property d.objs d.props d.pairs p os = (d.step (.addProperty p os)).map (·.1) := rfl

/-- `set_object` of the current source (which first wraps the argument in `tools.Unique`, the D1 repair) -/
theorem C13_generated_set_object (d : Defn) (o : Name) (ps : List Name) :
    Generated.defn_set_object d.objs d.props d.pairs o ps = (d.step (.setObject o ps)).map (·.1) := by
  simp only [Generated.defn_set_object, Defn.step, C13_uIor_uniq, C13_contains_uniq]
  rfl

theorem C13_generated_set_property (d : Defn) (p : Name) (os : List Name) :
    Generated.defn_set_property d.objs d.props d.pairs p os = (d.step (.setProperty p os)).map (·.1) := by
  simp only [Generated.defn_set_property, Defn.step, C13_uIor_uniq, C13_contains_uniq]
  rfl

theorem C13_contains_row (props : List Name) (o o' p' : Name) :
    (props.map fun p => (o, p)).contains (o', p') = (o' == o && props.contains p') := by
  rw [Bool.eq_iff_iff]
  simp only [List.contains_iff_mem, List.mem_map, Prod.mk.injEq, Bool.and_eq_true, beq_iff_eq]
  constructor
  · rintro ⟨p, hp, rfl, rfl⟩; exact ⟨rfl, hp⟩
  · rintro ⟨rfl, hp⟩; exact ⟨p', hp, rfl, rfl⟩

theorem C13_contains_col (objs : List Name) (p o' p' : Name) :
    (objs.map fun o => (o, p)).contains (o', p') = (p' == p && objs.contains o') := by
  rw [Bool.eq_iff_iff]
  simp only [List.contains_iff_mem, List.mem_map, Prod.mk.injEq, Bool.and_eq_true, beq_iff_eq]
  constructor
  · rintro ⟨o, ho, rfl, rfl⟩; exact ⟨rfl, ho⟩
  · rintro ⟨rfl, ho⟩; exact ⟨o', ho, rfl, rfl⟩

/-- `remove_object`: `Unique.remove` (KeyError for an unknown name), then `difference_update` with the row of the current properties -/
theorem C13_generated_remove_object (d : Defn) (o : Name) :
    Generated.defn_remove_object d.objs d.props d.pairs o = (d.step (.removeObject o)).map (·.1) := by
  simp only [Generated.defn_remove_object, Defn.step, uRemove, pDifference]
  by_cases h : d.objs.contains o = true
  · simp only [h, if_true]
    have : (fun q : Name × Name => !(d.props.map fun p => (o, p)).contains q) =
        (fun x : Name × Name => match x with | (o', p) => !(o' == o && d.props.contains p)) := by
      funext ⟨o', p'⟩; simp only [C13_contains_row]
    simp only [this]; rfl
  · simp only [h]; rfl

theorem C13_generated_remove_property (d : Defn) (p : Name) :
    Generated.defn_remove_property d.objs d.props d.pairs p = (d.step (.removeProperty p)).map (·.1) := by
  simp only [Generated.defn_remove_property, Defn.step, uRemove, pDifference]
  by_cases h : d.props.contains p = true
  · simp only [h, if_true]
    have : (fun q : Name × Name => !(d.objs.map fun o => (o, p)).contains q) =
        (fun x : Name × Name => match x with | (o, p') => !(p' == p && d.objs.contains o)) := by
      funext ⟨o', p'⟩; simp only [C13_contains_col]
    simp only [this]; rfl
  · simp only [h]; rfl

theorem C13_generated_union_update (d other : Defn) (ig : Bool) :
    Generated.defn_union_update d.objs d.props d.pairs other ig = (d.step (.unionUpdate other ig)).map (·.1) := by
  simp only [Generated.defn_union_update, Defn.step]
  split <;> rfl

theorem C13_generated_intersection_update (d other : Defn) (ig : Bool) :
    Generated.defn_intersection_update d.objs d.props d.pairs other ig = (d.step (.intersectionUpdate other ig)).map (·.1) := by
  simp only [Generated.defn_intersection_update, Defn.step]
  split <;> rfl

end FCA
#print axioms FCA.C13_generated_setitem
#print axioms FCA.C13_generated_move_object
#print axioms FCA.C13_generated_move_property
#print axioms FCA.C13_generated_add_object
#print axioms FCA.C13_generated_add_property
#print axioms FCA.C13_generated_set_object
#print axioms FCA.C13_generated_set_property
#print axioms FCA.C13_generated_union_update
#print axioms FCA.C13_generated_intersection_update
#print axioms FCA.C13_generated_remove_object
#print axioms FCA.C13_generated_remove_property
