"""C10 - reduced labelling: every object and property labels exactly its own concept."""
from core import guard
from props import lat
import gen


def run(run):
    run.rule = ('contexts as C03 with emphasis on duplicate rows/columns, full rows, empty and full columns; for every concept: '
                'objects, properties (context order), atoms, str(concept); each object/property in exactly one label')
    d = run.driver
    for tab, pc in lat.contexts(run, exh_quick=10, rand_quick=500, wide_quick=30, exh_thorough=14, nmax=10, mmax=9):
        if min(pc.n, pc.m) > 12:
            continue
        extra = {'objects': pc.objects, 'properties': pc.properties, 'bools': pc.bools}
        with guard(run, 'concept.objects / properties / atoms', [pc.line, 'lattice']):
            if run.evaluations % 2:
                # use the context before its lattice is built: empty and full selections, both directions
                pc.ctx.intension([]), pc.ctx.extension([]), pc.ctx.intension(pc.objects), pc.ctx.extension(pc.properties)
            L = pc.ctx.lattice
            cs = list(L)
            E = [pc.omask(c.extent) for c in cs]
            latoms = list(L.atoms)
            view = []
            for c in cs:
                view.append(([pc.opos[o] for o in c.objects], [pc.ppos[p] for p in c.properties],
                             [pc.omask(a.extent) for a in c.atoms], str(c)))
        reqs = ['labels %d' % e for e in E]
        ans = d.ask_many(reqs)
        def lst(s):
            return [] if s == '-' else [int(x) for x in s.split(',')]
        run.case(pc.line, gen.nontrivial(tab), {'context': pc.line, 'labels': [(v[0], v[1]) for v in view][:8]})
        AE = [pc.omask(a.extent) for a in latoms]
        for k, (c, e, (objs, props, atoms, text), r, a) in enumerate(zip(cs, E, view, reqs, ans)):
            mo, mp = a.split(' ')
            if objs != lst(mo):
                run.fail('objects label of concept %d (extent %d)' % (k, e), objs, lst(mo), [pc.line, r], extra)
            if props != lst(mp):
                run.fail('properties label of concept %d (extent %d)' % (k, e), props, lst(mp), [pc.line, r], extra)
            want_atoms = [x for x in AE if x & e == x]
            if atoms != want_atoms:
                run.fail('atoms of concept %d (extent %d)' % (k, e), atoms, want_atoms, [pc.line, r], extra)
            want_text = '{%s} <-> [%s]%s%s' % (', '.join(c.extent), ' '.join(c.intent),
                                               ' <=> ' + ' '.join(pc.objects[o] for o in lst(mo)) if lst(mo) else '',
                                               ' <=> ' + ' '.join(pc.properties[p] for p in lst(mp)) if lst(mp) else '')
            if text != want_text:
                run.fail('str(concept %d)' % k, text, want_text, [pc.line, r], extra)
        allo = sorted(o for v in view for o in v[0])
        allp = sorted(p for v in view for p in v[1])
        if allo != list(range(pc.n)) or allp != list(range(pc.m)):
            run.fail('an object/property does not label exactly one concept', [allo, allp], [list(range(pc.n)), list(range(pc.m))],
                     [pc.line, 'lattice'], extra)
        # the labelling of a lattice restored from a pickle / deep copy (once and twice) is the same labelling
        if len(cs) <= 120 and run.evaluations % 3 == 0:
            import pickle
            import copy
            with guard(run, 'labels after pickle / deepcopy', [pc.line, 'lattice']):
                L2 = pickle.loads(pickle.dumps(L))
                L3 = pickle.loads(pickle.dumps(L2))
                L4 = copy.deepcopy(L)
                for name, other in (('pickle round trip', L2), ('two pickle round trips', L3), ('copy.deepcopy', L4)):
                    got = [(tuple(c.extent), tuple(c.objects), tuple(c.properties), tuple(tuple(a.extent) for a in c.atoms), str(c))
                           for c in other]
                    want = [(tuple(c.extent), tuple(c.objects), tuple(c.properties), tuple(tuple(a.extent) for a in c.atoms), str(c))
                            for c in cs]
                    if got != want:
                        run.fail('labels / atoms / str of the concepts after %s' % name, got[:6], want[:6], [pc.line, 'lattice'], extra)
            run.count('pickle / deepcopy label comparisons')
        run.count('contexts')
        if any(len(v[0]) > 1 or len(v[1]) > 1 for v in view):
            run.count('several labels on one concept')
        if view[0][0] or view[-1][1]:
            run.count('label on bottom/top')
