import glob,os
root='/verif/lean'
mods=[]
for d in ('Model','Generated','Proofs','Props'):
    for f in sorted(glob.glob(f'{root}/FCA/{d}/*.lean')):
        mods.append('FCA.%s.%s'%(d,os.path.basename(f)[:-5]))
open(f'{root}/FCA.lean','w').write('-- root of the library: every model, proof and property module (regenerate with dev/mkroot.py)\n'+'\n'.join('import '+m for m in mods)+'\n')
print(len(mods))
