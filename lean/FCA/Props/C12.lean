import FCA.Proofs.FormatsTable
import FCA.Proofs.FormatsCsvLoad
import FCA.Proofs.FormatsFimi
import FCA.Proofs.FormatsWiki
/-
Property C12 — text formats round-trip every representable context.

Model: `FCA/Model/Formats.lean` (strings are code-point lists `Str = List Char`).
Helper lemmas: `FCA/Proofs/Formats{Str,Cxt,Table,Csv,CsvLoad,Fimi}.lean`.

For every format the loader of the model (a transcription of the Python splitter code) inverts the
dumper (the exact text written by Python) on every context whose labels are representable:

* `.cxt`   : `C12_cxt_roundtrip`    (labels: `CxtLabel`)
* table    : `C12_table_roundtrip`  (labels: `TableLabel`, every indent)
* csv      : `C12_csv_roundtrip`    (arbitrary labels, both symbol sets, symbols sniffed)
* FIMI     : `C12_fimi_rows`, `C12_fimi_text`
* wiki     : `C12_wiki_readback` (export only; read back by a reference reader `readWiki`)
-/
namespace FCA

/-! ## Label and shape predicates (definitions in `FCA/Proofs/FormatsCxt.lean`, repeated here) -/

example (s : Str) : CxtLabel s ↔
    (s ≠ [] ∧ (∀ c ∈ s.head?, isSpace c = false) ∧ (∀ c ∈ s.getLast?, isSpace c = false) ∧
      '\n' ∉ s) := Iff.rfl

example (s : Str) : TableLabel s ↔
    (s ≠ [] ∧ (∀ c ∈ s.head?, isSpace c = false) ∧ (∀ c ∈ s.getLast?, isSpace c = false) ∧
      '\n' ∉ s ∧ '|' ∉ s ∧ '#' ∉ s) := Iff.rfl

example (objects properties : List Str) (bools : List (List Bool)) :
    Rect objects properties bools ↔
      (objects ≠ [] ∧ properties ≠ [] ∧ bools.length = objects.length ∧
        ∀ r ∈ bools, r.length = properties.length) := Iff.rfl

/-- the predicates are decidable, e.g. labels with inner whitespace, digits, `X`, `.`, delimiters of
the other formats and non-ASCII characters are table labels -/
example : TableLabel ['a', ' ', 'X', '.', ',', '"', '1', 'é', '\t', 'b'] := by decide
example : CxtLabel ['|', '#', ' ', '1', '2'] := by decide
example : ¬ TableLabel [' ', 'a'] := by decide
example : ¬ TableLabel ['a', '|'] := by decide
example : ¬ CxtLabel ['a', '\n', 'b'] := by decide
example : ¬ CxtLabel [] := by decide

/-! ## 1. String primitives -/

/-- `sep.join(parts).split(sep) == parts` if no part contains `sep` (and there is a part) -/
theorem C12_split_join {sep : Char} {parts : List Str} (hne : parts ≠ [])
    (h : ∀ p ∈ parts, sep ∉ p) : splitChar sep (joinWith [sep] parts) = parts :=
  splitChar_joinWith hne h

example : ([['a'], [], ['b', 'c']] : List Str) ≠ [] ∧ ∀ p ∈ ([['a'], [], ['b', 'c']] : List Str), '|' ∉ p := by
  decide

/-- the text `print`ed line by line splits at `\n` into the lines and a final empty string -/
theorem C12_split_unlines {ls : List Str} (h : ∀ l ∈ ls, '\n' ∉ l) :
    splitChar '\n' (unlines ls) = ls ++ [[]] :=
  splitChar_unlines h

/-- `(a + sep + b).partition(sep) == (a, sep, b)` if `sep not in a` -/
theorem C12_partition {sep : Char} {a : Str} (h : sep ∉ a) (b : Str) :
    partitionChar sep (a ++ sep :: b) = (a, true, b) :=
  partitionChar_append_sep h b

/-- `s.partition(sep) == (s, '', '')` if `sep not in s` -/
theorem C12_partition_none {sep : Char} {s : Str} (h : sep ∉ s) :
    partitionChar sep s = (s, false, []) :=
  partitionChar_nosep h

/-- `('%-*s' % (w, s)).strip() == s` for every width when `s` has no leading/trailing whitespace -/
theorem C12_strip_ljust {s : Str} (w : Nat) (hh : ∀ c ∈ s.head?, isSpace c = false)
    (hl : ∀ c ∈ s.getLast?, isSpace c = false) : strip (ljust w s) = s :=
  strip_ljust w hh hl

/-- `(pad + s + pad').strip() == s` for whitespace paddings -/
theorem C12_strip_pad {a b s : Str} (ha : ∀ c ∈ a, isSpace c = true) (hb : ∀ c ∈ b, isSpace c = true)
    (hh : ∀ c ∈ s.head?, isSpace c = false) (hl : ∀ c ∈ s.getLast?, isSpace c = false) :
    strip (a ++ s ++ b) = s :=
  stripBy_pad ha hb hh hl

/-- `('|'*m + s + '|'*n).strip('|') == s` if `s` neither starts nor ends with `|` -/
theorem C12_stripBar {m n : Nat} {s : Str} (hh : ∀ c ∈ s.head?, c ≠ '|')
    (hl : ∀ c ∈ s.getLast?, c ≠ '|') :
    stripBar (List.replicate m '|' ++ s ++ List.replicate n '|') = s := by
  apply stripBy_pad
  · intro c hc; rw [List.eq_of_mem_replicate hc]; rfl
  · intro c hc; rw [List.eq_of_mem_replicate hc]; rfl
  · intro c hc; simpa using hh c hc
  · intro c hc; simpa using hl c hc

/-- `int(str(n)) == n` -/
theorem C12_parseNat_toString (n : Nat) : parseNat? (toString n).toList = some n :=
  parseNat?_toString n

/-! ## 2. `.cxt` -/

/-- `Cxt.loads(Cxt.dumps(objects, properties, bools))` returns the same triple -/
theorem C12_cxt_roundtrip {objects properties : List Str} {bools : List (List Bool)}
    (hr : Rect objects properties bools) (ho : ∀ o ∈ objects, CxtLabel o)
    (hp : ∀ p ∈ properties, CxtLabel p) :
    loadCxt (dumpCxt objects properties bools) = .ok (objects, properties, bools) := by
  obtain ⟨_, hpne, _, hrow⟩ := hr
  apply loadCxt_dumpCxt hpne _ ho hp
  intro r hr' h
  have := hrow r hr'
  rw [h] at this
  exact hpne (List.eq_nil_of_length_eq_zero this.symm)

/-- the same under the weakest shape hypotheses the loader needs: at least one property and no
empty row (no objects at all is fine; the lengths need not even agree) -/
theorem C12_cxt_roundtrip_general {objects properties : List Str} {bools : List (List Bool)}
    (hp : properties ≠ []) (hb : ∀ r ∈ bools, r ≠ [])
    (ho : ∀ o ∈ objects, CxtLabel o) (hpl : ∀ p ∈ properties, CxtLabel p) :
    loadCxt (dumpCxt objects properties bools) = .ok (objects, properties, bools) :=
  loadCxt_dumpCxt hp hb ho hpl

/-- non-vacuity: labels that look like numbers, rows, or contain `X`/`.`/inner whitespace -/
example : loadCxt (dumpCxt [['1'], ['X', '.'], ['a', ' ', 'b']] [['2'], ['.', 'X']]
      [[true, false], [false, false], [true, true]]) =
    .ok ([['1'], ['X', '.'], ['a', ' ', 'b']], [['2'], ['.', 'X']],
      [[true, false], [false, false], [true, true]]) :=
  C12_cxt_roundtrip (by decide) (by decide) (by decide)

/-- the hypotheses are needed: an empty object label is swallowed, … -/
example : loadCxt (dumpCxt [[]] [['p']] [[false]]) = .ok ([['p']], [['.']], []) := by decide
/-- … a leading blank is stripped, … -/
example : loadCxt (dumpCxt [[' ', 'a']] [['p']] [[true]]) = .ok ([['a']], [['p']], [[true]]) := by
  decide
/-- … and with no property the (empty) rows are lost. -/
example : loadCxt (dumpCxt [['a']] [] [[]]) = .ok ([['a']], [], []) := by decide

/-! ## 3. table -/

/-- `Table.loads(Table.dumps(objects, properties, bools, indent=indent))` returns the same triple,
for every indent -/
theorem C12_table_roundtrip {objects properties : List Str} {bools : List (List Bool)}
    (hr : Rect objects properties bools) (ho : ∀ o ∈ objects, TableLabel o)
    (hp : ∀ p ∈ properties, TableLabel p) (indent : Nat) :
    loadTable (dumpTable indent objects properties bools) = .ok (objects, properties, bools) :=
  loadTable_dumpTable hr ho hp indent

/-- non-vacuity (all-blank row and column, labels `X`, digits, inner blank, csv delimiters) -/
example : loadTable (dumpTable 4 [['X'], ['a', ' ', 'b'], ['1', ',', '"']] [['p'], ['X', '.']]
      [[true, false], [false, false], [true, false]]) =
    .ok ([['X'], ['a', ' ', 'b'], ['1', ',', '"']], [['p'], ['X', '.']],
      [[true, false], [false, false], [true, false]]) :=
  C12_table_roundtrip (by decide) (by decide) (by decide) 4

/-- the hypotheses are needed: `|` and `#` in a label are taken for syntax, a leading blank is
stripped, an empty property label shifts the flags -/
example : loadTable (dumpTable 0 [['a', '|']] [['p']] [[true]]) = .ok ([['a']], [['p']], [[true]]) := by
  decide
example : loadTable (dumpTable 0 [['a', '#']] [['p']] [[true]]) = .ok ([['a']], [['p']], [[false]]) := by
  decide
example : loadTable (dumpTable 0 [[' ', 'a']] [['p']] [[true]]) = .ok ([['a']], [['p']], [[true]]) := by
  decide
example : loadTable (dumpTable 0 [['a']] [[], ['p']] [[false, true]]) ≠
    .ok ([['a']], [[], ['p']], [[false, true]]) := by decide

/-! ## 4. FIMI -/

/-- `iter_fimi_rows`: row `i` lists exactly the positions of the true cells of row `i`, ascending -/
theorem C12_fimi_rows (bools : List (List Bool)) :
    (fimiRows bools).length = bools.length ∧
    ∀ (i : Nat) (h : i < bools.length) (h' : i < (fimiRows bools).length),
      (∀ j, j ∈ (fimiRows bools)[i] ↔ bools[i][j]? = some true) ∧
      ((fimiRows bools)[i]).Pairwise (· < ·) := by
  refine ⟨by simp [fimiRows_eq], ?_⟩
  intro i h h'
  have e : (fimiRows bools)[i] = fimiRow bools[i] := by simp [fimiRows_eq]
  rw [e]
  exact ⟨fun j => mem_fimiRow, pairwise_fimiRow _⟩

example : fimiRows [[true, false, true], [], [false, false]] = [[0, 2], [], []] := by decide

/-- `Fimi.dumps`: one line per row, and reading the integers of each line gives back the rows -/
theorem C12_fimi_text (bools : List (List Bool)) :
    (splitChar '\n' (dumpFimi bools)).dropLast.map (fun l => (splitWs l).map parseNat?) =
      (fimiRows bools).map (·.map some) :=
  read_dumpFimi bools

/-! ## 5. csv -/

/-- a single written field of any content (commas, quotes, CR, LF, empty) is read back -/
theorem C12_csv_field_roundtrip (s : Str) : csvParse (csvRow [s]) = some [[s]] := by
  have := csvParse_rows [[s]] (by simp)
  simpa using this

/-- `csv.reader` inverts `csv.writer` on every list of non-empty rows, any field contents -/
theorem C12_csv_rows_roundtrip (rows : List (List Str)) (h : ∀ r ∈ rows, r ≠ []) :
    csvParse (rows.flatMap csvRow) = some rows :=
  csvParse_rows rows h

example : ∀ r ∈ ([[[], [',', '"']], [['\r', '\n'], []], [[]]] : List (List Str)), r ≠ [] := by decide

/-- an empty row is not representable: it is written as an empty line, which the reader skips -/
example : csvParse ([[]].flatMap csvRow) = some [] := by decide

/-- `Csv.loads(Csv.dumps(objects, properties, bools, bools_as_int=asInt))` returns the same
triple for both symbol sets (sniffed by the loader) and arbitrary labels. Only the shape is
restricted (at least one object; zero properties are fine). -/
theorem C12_csv_roundtrip (asInt : Bool) {objects properties : List Str} {bools : List (List Bool)}
    (hone : objects ≠ []) (hlen : bools.length = objects.length)
    (hrow : ∀ r ∈ bools, r.length = properties.length) :
    loadCsv (dumpCsv asInt objects properties bools) = .ok (objects, properties, bools) :=
  loadCsv_dumpCsv asInt hone hlen hrow

/-- the `Rect` form -/
theorem C12_csv_roundtrip_rect (asInt : Bool) {objects properties : List Str}
    {bools : List (List Bool)} (hr : Rect objects properties bools) :
    loadCsv (dumpCsv asInt objects properties bools) = .ok (objects, properties, bools) :=
  loadCsv_dumpCsv asInt hr.1 hr.2.2.1 hr.2.2.2

/-- non-vacuity: all-blank first row with the X/blank symbols; empty label, comma, quote, CR LF -/
example : loadCsv (dumpCsv false [[], ['a', ',', '"'], ['\r', '\n']] [['X'], []]
      [[false, false], [true, false], [false, true]]) =
    .ok ([[], ['a', ',', '"'], ['\r', '\n']], [['X'], []],
      [[false, false], [true, false], [false, true]]) :=
  C12_csv_roundtrip false (by decide) (by decide) (by decide)

example : Rect [[], ['1']] [['0'], ['X']] [[false, false], [true, false]] := by decide

/-- without objects there is no data row to sniff from: the loader refuses the text -/
example : loadCsv (dumpCsv true [] [['p']] []) = .error .valueError := by decide

/-! ## 6. wiki table (export only)

There is no loader in the library; `readWiki` (`FCA/Proofs/FormatsWiki.lean`) is a reader written
from the layout alone: lines 0/1 are `{| …` and `!`, line 2 is `!` + properties joined by `!!`,
then per object the lines `|-`, `!` + object, `|` + cells joined by `||`, last line `|}`;
a cell is true iff it is not blank. -/

example (src : Str) : readWiki src =
    match splitChar '\n' src with
    | _ :: _ :: props :: rest =>
      some ((readWikiBody rest).map (·.1), split2 '!' (props.drop 1), (readWikiBody rest).map (·.2))
    | _ => none := rfl

example (sep o cells : Str) (rest : List Str) : readWikiBody (sep :: o :: cells :: rest) =
    (o.drop 1, (split2 '|' (cells.drop 1)).map fun c => !(strip c).isEmpty) :: readWikiBody rest := rfl

example (s : Str) : WikiLabel s ↔ (s ≠ [] ∧ '\n' ∉ s ∧ '!' ∉ s) := Iff.rfl

/-- the reference reader recovers objects, properties and cells from `WikiTable.dumps`:
objects are arbitrary single-line strings (even empty), property labels are non-empty
single-line strings without `!` -/
theorem C12_wiki_readback {objects properties : List Str} {bools : List (List Bool)}
    (hpne : properties ≠ []) (hlen : bools.length = objects.length)
    (hrow : ∀ r ∈ bools, r.length = properties.length)
    (ho : ∀ o ∈ objects, '\n' ∉ o) (hp : ∀ p ∈ properties, WikiLabel p) :
    readWiki (dumpWiki objects properties bools) = some (objects, properties, bools) :=
  readWiki_dumpWiki hpne hlen hrow ho hp

example : readWiki (dumpWiki [['a', '|'], [], [' ', 'X']] [['p', ' '], ['|', '}']]
      [[true, false], [false, false], [false, true]]) =
    some ([['a', '|'], [], [' ', 'X']], [['p', ' '], ['|', '}']],
      [[true, false], [false, false], [false, true]]) :=
  C12_wiki_readback (by decide) (by decide) (by decide) (by decide) (by decide)

/-- `!` in a property label makes the header line ambiguous -/
example : readWiki (dumpWiki [['a']] [['p', '!'], ['q']] [[true, false]]) =
    some ([['a']], [['p'], ['!', 'q']], [[true, false]]) := by decide

#print axioms C12_split_join
#print axioms C12_split_unlines
#print axioms C12_partition
#print axioms C12_strip_ljust
#print axioms C12_stripBar
#print axioms C12_parseNat_toString
#print axioms C12_cxt_roundtrip
#print axioms C12_cxt_roundtrip_general
#print axioms C12_table_roundtrip
#print axioms C12_fimi_rows
#print axioms C12_fimi_text
#print axioms C12_csv_field_roundtrip
#print axioms C12_csv_rows_roundtrip
#print axioms C12_csv_roundtrip
#print axioms C12_csv_roundtrip_rect
#print axioms C12_wiki_readback

end FCA
