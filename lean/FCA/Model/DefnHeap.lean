import FCA.Model.Defn
/-
Reference model of `Definition` objects: what `Model/Defn.lean` cannot express with value semantics.

A Python `Definition` holds three mutable objects (`_objects`, `_properties`: `tools.Unique`;
`_pairs`: `set`).  Here a heap is a list of such objects, a `Definition` object is the triple of their
addresses.  Deriving methods allocate fresh objects exactly where `definitions.py` does
(`.copy()`, `tools.Unique(...)`, a set comprehension), mutators update the three objects in place
(`Unique.add/replace/move/remove/|=/&=`, `set.add/discard/update/difference_update/|=/&=`); no
mutator ever rebinds `self._objects`, `self._properties` or `self._pairs`.
-/
namespace FCA

/-- a mutable object -/
inductive HObj where
  /-- a `tools.Unique` -/
  | names (l : List Name)
  /-- a `set` of `(object, property)` pairs -/
  | cells (l : List (Name × Name))
deriving Repr, DecidableEq

/-- the heap: address = position; objects are never freed -/
abbrev Heap := List HObj

/-- a `Definition` object: the addresses of `_objects`, `_properties`, `_pairs` -/
structure DRef where
  ao : Nat
  ap : Nat
  ac : Nat
deriving Repr, DecidableEq

def DRef.addrs (r : DRef) : List Nat := [r.ao, r.ap, r.ac]

def Heap.namesAt (h : Heap) (a : Nat) : List Name :=
  match h[a]? with
  | some (.names l) => l
  | _ => []

def Heap.cellsAt (h : Heap) (a : Nat) : List (Name × Name) :=
  match h[a]? with
  | some (.cells l) => l
  | _ => []

/-- the value a reference currently denotes -/
def Heap.read (h : Heap) (r : DRef) : Defn := ⟨h.namesAt r.ao, h.namesAt r.ap, h.cellsAt r.ac⟩

/-- in-place update of the three objects of `r` -/
def Heap.write (h : Heap) (r : DRef) (d : Defn) : Heap :=
  ((h.set r.ao (.names d.objs)).set r.ap (.names d.props)).set r.ac (.cells d.pairs)

/-- `Definition._fromargs(o, p, c)` with three newly created objects `o`, `p`, `c` -/
def Heap.new (h : Heap) (d : Defn) : Heap × DRef :=
  (h ++ [.names d.objs, .names d.props, .cells d.pairs], ⟨h.length, h.length + 1, h.length + 2⟩)

/-- a mutator call; the operand of `union_update` / `intersection_update` is another object, named
by a `ρ` (an address triple `DRef` on the heap, a variable number in a program) -/
inductive HOpG (ρ : Type) where
  /-- one of the calls without a `Definition` operand (or with an operand that lives outside the
  heap: a literal) -/
  | plain (op : Op)
  | unionUpdate (other : ρ) (ig : Bool)
  | intersectionUpdate (other : ρ) (ig : Bool)
deriving Repr

abbrev HOp := HOpG DRef

/-- the value-level call, the operand looked up by `val` -/
def HOpG.toOp {ρ : Type} (val : ρ → Defn) : HOpG ρ → Op
  | .plain op => op
  | .unionUpdate other ig => .unionUpdate (val other) ig
  | .intersectionUpdate other ig => .intersectionUpdate (val other) ig

/-- one mutator call on the object `r`.  `union_update` / `intersection_update` are written as the
three statements of the source, each reading the operand's object at that moment
(`self._objects |= other._objects; self._properties |= other._properties; self._pairs |= other._pairs`);
the other mutators touch only `self`: the three objects get their new contents in place. -/
def Heap.step (h : Heap) (r : DRef) : HOp → Except Err (Heap × List Name)
  | .plain op =>
    match (h.read r).step op with
    | .ok (d', ret) => .ok (h.write r d', ret)
    | .error e => .error e
  | .unionUpdate other ig =>
    if !ig && !(conflicts (h.read r) (h.read other)).isEmpty then .error .valueError
    else
      let h1 : Heap := h.set r.ao (.names (uIor (h.namesAt r.ao) (h.namesAt other.ao)))
      let h2 : Heap := h1.set r.ap (.names (uIor (h1.namesAt r.ap) (h1.namesAt other.ap)))
      let h3 : Heap := h2.set r.ac (.cells ((h2.cellsAt other.ac).foldl pAdd (h2.cellsAt r.ac)))
      .ok (h3, [])
  | .intersectionUpdate other ig =>
    if !ig && !(conflicts (h.read r) (h.read other)).isEmpty then .error .valueError
    else
      let h1 : Heap := h.set r.ao (.names (uIand (h.namesAt r.ao) (h.namesAt other.ao)))
      let h2 : Heap := h1.set r.ap (.names (uIand (h1.namesAt r.ap) (h1.namesAt other.ap)))
      let h3 : Heap := h2.set r.ac (.cells ((h2.cellsAt r.ac).filter (h2.cellsAt other.ac).contains))
      .ok (h3, [])

/-! ### deriving methods: every one of them builds three new objects -/

/-- `copy`: `_fromargs(self._objects.copy(), self._properties.copy(), self._pairs.copy())` -/
def Heap.copy (h : Heap) (r : DRef) : Heap × DRef := h.new (h.read r).copy

/-- `inverted`: two `.copy()` and a set comprehension -/
def Heap.inverted (h : Heap) (r : DRef) : Heap × DRef := h.new (h.read r).inverted

/-- `transposed`: two `.copy()` and a set comprehension -/
def Heap.transposed (h : Heap) (r : DRef) : Heap × DRef := h.new (h.read r).transposed

/-- `take`: `tools.Unique(objects)` or `self._objects.copy()` (then `&=` on the copy), likewise the
properties, and a set comprehension; nothing is created when the `KeyError` is raised -/
def Heap.take (h : Heap) (r : DRef) (objects properties : Option (List Name)) (reorder : Bool) :
    Except (Err × List Name) (Heap × DRef) :=
  match (h.read r).take objects properties reorder with
  | .ok d => .ok (h.new d)
  | .error e => .error e

/-- `union`: `result = self.copy(); result.union_update(other, ignore_conflicts); return result`
(when the update raises, the copy is garbage) -/
def Heap.union (h : Heap) (r other : DRef) (ig : Bool) : Except Err (Heap × DRef) :=
  let (h1, res) := h.copy r
  match h1.step res (.unionUpdate other ig) with
  | .ok (h2, _) => .ok (h2, res)
  | .error e => .error e

/-- `intersection`: `result = self.copy(); result.intersection_update(other, …); return result` -/
def Heap.intersection (h : Heap) (r other : DRef) (ig : Bool) : Except Err (Heap × DRef) :=
  let (h1, res) := h.copy r
  match h1.step res (.intersectionUpdate other ig) with
  | .ok (h2, _) => .ok (h2, res)
  | .error e => .error e

/-- a deriving call -/
inductive DOpG (ρ : Type) where
  | copy | inverted | transposed
  | take (objects properties : Option (List Name)) (reorder : Bool)
  | union (other : ρ) (ig : Bool)
  | intersection (other : ρ) (ig : Bool)
deriving Repr

abbrev DOp := DOpG DRef

/-- a deriving call on the heap: new heap and the returned object -/
def Heap.derive (h : Heap) (r : DRef) : DOp → Except (Err × List Name) (Heap × DRef)
  | .copy => .ok (h.copy r)
  | .inverted => .ok (h.inverted r)
  | .transposed => .ok (h.transposed r)
  | .take objects properties reorder => h.take r objects properties reorder
  | .union other ig => (h.union r other ig).mapError fun e => (e, [])
  | .intersection other ig => (h.intersection r other ig).mapError fun e => (e, [])

/-- the value-level deriving call (`Model/Defn.lean`), the operand looked up by `val` -/
def Defn.derive {ρ : Type} (d : Defn) (val : ρ → Defn) : DOpG ρ → Except (Err × List Name) Defn
  | .copy => .ok d.copy
  | .inverted => .ok d.inverted
  | .transposed => .ok d.transposed
  | .take objects properties reorder => d.take objects properties reorder
  | .union other ig => (d.union (val other) ig).mapError fun e => (e, [])
  | .intersection other ig => (d.intersection (val other) ig).mapError fun e => (e, [])

/-- a history of mutator calls on arbitrary objects; a rejected call changes nothing -/
def Heap.run (h : Heap) : List (DRef × HOp) → Heap
  | [] => h
  | (r, op) :: rest =>
    match h.step r op with
    | .ok (h', _) => Heap.run h' rest
    | .error _ => Heap.run h rest

/-! ### programs: variables bound to objects, mutating and deriving calls in any order -/

def HOpG.refs {ρ : Type} : HOpG ρ → List ρ
  | .plain _ => []
  | .unionUpdate other _ => [other]
  | .intersectionUpdate other _ => [other]

def DOpG.refs {ρ : Type} : DOpG ρ → List ρ
  | .union other _ => [other]
  | .intersection other _ => [other]
  | _ => []

def HOpG.mapRef {ρ σ : Type} (f : ρ → σ) : HOpG ρ → HOpG σ
  | .plain op => .plain op
  | .unionUpdate other ig => .unionUpdate (f other) ig
  | .intersectionUpdate other ig => .intersectionUpdate (f other) ig

def DOpG.mapRef {ρ σ : Type} (f : ρ → σ) : DOpG ρ → DOpG σ
  | .copy => .copy
  | .inverted => .inverted
  | .transposed => .transposed
  | .take a b r => .take a b r
  | .union other ig => .union (f other) ig
  | .intersection other ig => .intersection (f other) ig

/-- `x_i.mutator(…)` or `x_new = x_i.deriving(…)`; variables are numbered in order of creation and
never rebound (so no two variables name the same object) -/
inductive Cmd where
  /-- `x_new = Definition(objects, properties, bools)` -/
  | create (objects properties : List Name) (bools : List (List Bool))
  | mutate (i : Nat) (op : HOpG Nat)
  | derive (i : Nat) (op : DOpG Nat)
deriving Repr

/-- what a command shows: return value, or exception class with its names -/
abbrev Out := Except (Err × List Name) (List Name)

/-- heap-level program state -/
structure PState where
  heap : Heap
  vars : List DRef
deriving Repr

def PState.var (s : PState) (i : Nat) : DRef := s.vars.getD i ⟨0, 0, 0⟩

/-- run one command with reference semantics; a command naming an unknown variable is skipped -/
def PState.exec (s : PState) : Cmd → PState × Out
  | .create os ps bs =>
    match Defn.ofTriple os ps bs with
    | .ok d => (⟨(s.heap.new d).1, s.vars ++ [(s.heap.new d).2]⟩, .ok [])
    | .error e => (s, .error (e, []))
  | .mutate i op =>
    if i < s.vars.length && op.refs.all (· < s.vars.length) then
      match s.heap.step (s.var i) (op.mapRef s.var) with
      | .ok (h', ret) => (⟨h', s.vars⟩, .ok ret)
      | .error e => (s, .error (e, []))
    else (s, .ok [])
  | .derive i op =>
    if i < s.vars.length && op.refs.all (· < s.vars.length) then
      match s.heap.derive (s.var i) (op.mapRef s.var) with
      | .ok (h', res) => (⟨h', s.vars ++ [res]⟩, .ok [])
      | .error e => (s, .error e)
    else (s, .ok [])

/-- the same command with value semantics: the state is just the list of values (this is how the
test driver keeps its definitions) -/
def vexec (vals : List Defn) : Cmd → List Defn × Out
  | .create os ps bs =>
    match Defn.ofTriple os ps bs with
    | .ok d => (vals ++ [d], .ok [])
    | .error e => (vals, .error (e, []))
  | .mutate i op =>
    if i < vals.length && op.refs.all (· < vals.length) then
      match (vals.getD i Defn.empty).step (op.toOp fun j => vals.getD j Defn.empty) with
      | .ok (d', ret) => (vals.set i d', .ok ret)
      | .error e => (vals, .error (e, []))
    else (vals, .ok [])
  | .derive i op =>
    if i < vals.length && op.refs.all (· < vals.length) then
      match (vals.getD i Defn.empty).derive (fun j => vals.getD j Defn.empty) op with
      | .ok d => (vals ++ [d], .ok [])
      | .error e => (vals, .error e)
    else (vals, .ok [])

def PState.execAll (s : PState) : List Cmd → PState × List Out
  | [] => (s, [])
  | c :: cs => let (s', o) := s.exec c; let (s'', os) := PState.execAll s' cs; (s'', o :: os)

def vexecAll (vals : List Defn) : List Cmd → List Defn × List Out
  | [] => (vals, [])
  | c :: cs => let (v', o) := vexec vals c; let (v'', os) := vexecAll v' cs; (v'', o :: os)

end FCA
