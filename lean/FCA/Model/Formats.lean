import FCA.Model.Misc
/-
Model of `concepts/formats/{table,cxt,csv_context,wiki_table,fimi}.py` on code-point strings
(`List Char`): the dumpers produce the exact text, the loaders mirror the hand-written splitters.
Python string primitives used by the code are re-implemented here with their Python semantics.
-/
namespace FCA

abbrev Str := List Char

/-- `str.isspace()` of CPython (extracted set is compared with this list on every run) -/
def pyWhitespace : List Nat :=
  [0x09, 0x0A, 0x0B, 0x0C, 0x0D, 0x1C, 0x1D, 0x1E, 0x1F, 0x20, 0x85, 0xA0, 0x1680,
   0x2000, 0x2001, 0x2002, 0x2003, 0x2004, 0x2005, 0x2006, 0x2007, 0x2008, 0x2009, 0x200A,
   0x2028, 0x2029, 0x202F, 0x205F, 0x3000]

def isSpace (c : Char) : Bool := pyWhitespace.contains c.toNat

def lstripBy (p : Char → Bool) (s : Str) : Str := s.dropWhile p
def rstripBy (p : Char → Bool) (s : Str) : Str := (s.reverse.dropWhile p).reverse
def stripBy (p : Char → Bool) (s : Str) : Str := rstripBy p (lstripBy p s)
/-- `s.strip()` -/
def strip (s : Str) : Str := stripBy isSpace s
/-- `s.strip('|')` -/
def stripBar (s : Str) : Str := stripBy (· == '|') s

/-- `s.split(sep)` for a one-character separator -/
def splitChar (sep : Char) : Str → List Str
  | [] => [[]]
  | c :: cs =>
    match splitChar sep cs with
    | [] => [[]]   -- unreachable
    | hd :: tl => if c == sep then [] :: hd :: tl else (c :: hd) :: tl

/-- `s.partition(sep)` → (before, found, after) -/
def partitionChar (sep : Char) : Str → Str × Bool × Str
  | [] => ([], false, [])
  | c :: cs =>
    if c == sep then ([], true, cs)
    else let (a, f, b) := partitionChar sep cs; (c :: a, f, b)

/-- `'%-<w>s' % s` -/
def ljust (w : Nat) (s : Str) : Str := s ++ List.replicate (w - s.length) ' '

/-- `sep.join(parts)` -/
def joinWith (sep : Str) : List Str → Str
  | [] => []
  | [x] => x
  | x :: xs => x ++ sep ++ joinWith sep xs

/-- text written by `print(line, file=f)` for every line -/
def unlines (ls : List Str) : Str := ls.flatMap (· ++ ['\n'])

/-- `s.split('\n\n')` -/
def splitBlank : Str → List Str
  | [] => [[]]
  | '\n' :: '\n' :: cs => [] :: splitBlank cs
  | c :: cs =>
    match splitBlank cs with
    | [] => [[]]
    | hd :: tl => (c :: hd) :: tl

/-- `s.split()` (runs of whitespace) -/
def splitWs (s : Str) : List Str :=
  let rec go : Str → Str → List Str
    | [], cur => if cur.isEmpty then [] else [cur.reverse]
    | c :: cs, cur =>
      if isSpace c then (if cur.isEmpty then go cs [] else cur.reverse :: go cs [])
      else go cs (c :: cur)
  go s []

/-- `int(s)` for plain decimal digit strings (what the dumpers write); `none` otherwise -/
def parseNat? (s : Str) : Option Nat :=
  if s.isEmpty || !(s.all Char.isDigit) then none else some (s.foldl (fun a c => 10 * a + (c.toNat - 48)) 0)

abbrev Triple := List Str × List Str × List (List Bool)

/-! ### table -/

/-- `Table.dumps(objects, properties, bools, indent=…)` (with the final `rstrip()`) -/
def dumpTable (indent : Nat) (objects properties : List Str) (bools : List (List Bool)) : Str :=
  let wd := (objects.foldl (fun m o => max m o.length) 0) :: properties.map (·.length)
  let fmt := fun (cells : List Str) =>
    List.replicate indent ' ' ++ joinWith ['|'] ((wd.zip cells).map fun (w, c) => ljust w c) ++ ['|']
  let header := fmt ([] :: properties)
  let rows := (objects.zip bools).map fun (o, row) => fmt (o :: row.map fun b => if b then ['X'] else [])
  rstripBy isSpace (unlines (header :: rows))

/-- `table.load_file` -/
def loadTable (source : Str) : Except Err Triple :=
  let lines := ((splitChar '\n' source).map fun l => strip (partitionChar '#' l).1).filter (!·.isEmpty)
  match lines with
  | [] => .error .indexError
  | first :: rest =>
    let properties := (splitChar '|' (stripBar first)).map strip
    let table := rest.map fun objflags =>
      let (obj, _, flags) := partitionChar '|' objflags
      (strip obj, (splitChar '|' (stripBar flags)).map fun f => !(strip f).isEmpty)
    if table.isEmpty then .error .valueError
    else .ok (table.map (·.1), properties, table.map (·.2))

/-! ### cxt -/

def dumpCxt (objects properties : List Str) (bools : List (List Bool)) : Str :=
  unlines (['B'] :: [] :: (toString objects.length).toList :: (toString properties.length).toList :: [] ::
    (objects ++ properties ++ bools.map fun row => row.map fun b => if b then 'X' else '.'))

/-- `Cxt.loadf` -/
def loadCxt (source : Str) : Except Err Triple :=
  match splitBlank (strip source) with
  | [_b, yx, table] =>
    match (splitWs yx).map parseNat? with
    | [some y, some x] =>
      let lines := (splitChar '\n' (strip table)).map strip
      let rows := (lines.drop (y + x)).map fun l => l.map fun c =>
        if c == 'X' then some true else if c == '.' then some false else none
      if rows.all (·.all Option.isSome) then
        .ok (lines.take y, (lines.drop y).take x, rows.map (·.map (·.getD false)))
      else .error .keyError
    | _ => .error .valueError
  | _ => .error .valueError

/-! ### csv (excel dialect) -/

/-- `csv.writer` field, `QUOTE_MINIMAL`, delimiter `,`, quotechar `"`, lineterminator `\r\n` -/
def csvField (s : Str) : Str :=
  if s.any fun c => c == ',' || c == '"' || c == '\r' || c == '\n' then
    ['"'] ++ s.flatMap (fun c => if c == '"' then ['"', '"'] else [c]) ++ ['"']
  else s

def csvRow (fields : List Str) : Str :=
  (match fields with
   | [[]] => ['"', '"']          -- a single empty field is written quoted
   | _ => joinWith [','] (fields.map csvField)) ++ ['\r', '\n']

/-- `Csv.dumps(objects, properties, bools, bools_as_int=…)`, `object_header=None` -/
def dumpCsv (asInt : Bool) (objects properties : List Str) (bools : List (List Bool)) : Str :=
  let sym := fun (b : Bool) => if asInt then (if b then ['1'] else ['0']) else (if b then ['X'] else [])
  csvRow ([] :: properties) ++
    ((objects.zip bools).flatMap fun (o, row) => csvRow (o :: row.map sym))

inductive CsvState where
  | startRecord | startField | inField | inQuoted | quoteInQuoted | eatCrnl
deriving BEq

/-- `csv.reader` (excel dialect, not strict) over the whole text; the file iterator splits lines
at `\n` only (`io.StringIO` default), and a record can span lines only inside quotes.
Returns the rows or `none` for `_csv.Error`. -/
def csvParse (text : Str) : Option (List (List Str)) :=
  let rec go (fuel : Nat) (st : CsvState) (cs : Str) (field : Str) (row : List Str)
      (rows : List (List Str)) : Option (List (List Str)) :=
    match fuel with
    | 0 => none
    | fuel+1 =>
    let endRec := fun (row : List Str) => rows ++ [row]
    match cs with
    | [] =>
      match st with
      | .startRecord => some rows
      | .eatCrnl => some rows
      | .startField => some (endRec (row ++ [[]]))
      | .inField => some (endRec (row ++ [field.reverse]))
      | .quoteInQuoted => some (endRec (row ++ [field.reverse]))
      | .inQuoted => some (endRec (row ++ [field.reverse]))   -- non-strict: unterminated quote at EOF
    | c :: rest =>
      match st with
      | .startRecord =>
        if c == '\n' || c == '\r' then go fuel .eatCrnl cs [] [] rows   -- empty line handled below
        else go fuel .startField cs [] [] rows
      | .startField =>
        if c == '\n' || c == '\r' then go fuel .eatCrnl rest [] [] (endRec (row ++ [[]]))
        else if c == '"' then go fuel .inQuoted rest [] row rows
        else if c == ',' then go fuel .startField rest [] (row ++ [[]]) rows
        else go fuel .inField rest [c] row rows
      | .inField =>
        if c == '\n' || c == '\r' then go fuel .eatCrnl rest [] [] (endRec (row ++ [field.reverse]))
        else if c == ',' then go fuel .startField rest [] (row ++ [field.reverse]) rows
        else go fuel .inField rest (c :: field) row rows
      | .inQuoted =>
        if c == '"' then go fuel .quoteInQuoted rest field row rows
        else go fuel .inQuoted rest (c :: field) row rows
      | .quoteInQuoted =>
        if c == '"' then go fuel .inQuoted rest ('"' :: field) row rows
        else if c == ',' then go fuel .startField rest [] (row ++ [field.reverse]) rows
        else if c == '\n' || c == '\r' then go fuel .eatCrnl rest [] [] (endRec (row ++ [field.reverse]))
        else go fuel .inField rest (c :: field) row rows      -- non-strict
      | .eatCrnl =>
        if c == '\n' || c == '\r' then go fuel .eatCrnl rest [] [] rows
        else go fuel .startRecord cs [] [] rows
  go (2 * text.length + 4) .startRecord text [] [] []

/-- `Csv.loadf` with `bools_as_int=None` (symbols sniffed from the first data row) -/
def loadCsv (source : Str) : Except Err Triple :=
  match csvParse source with
  | none => .error .valueError
  | some [] => .error .valueError
  | some (header :: rows) =>
    match header, rows with
    | [], _ => .error .valueError
    | _ :: _, [] => .error .valueError
    | _ :: properties, first :: _ =>
      if first.isEmpty then .error .valueError else
      let firstSyms := first.drop 1
      let asInt? : Option Bool :=
        if firstSyms.all fun s => s == [] || s == ['X'] then some false
        else if firstSyms.all fun s => s == ['0'] || s == ['1'] then some true
        else none
      match asInt? with
      | none => .error .valueError
      | some asInt =>
        let value := fun (s : Str) =>
          if asInt then (if s == ['1'] then some true else if s == ['0'] then some false else none)
          else (if s == ['X'] then some true else if s == [] then some false else none)
        if rows.any (·.isEmpty) then .error .valueError
        else
          let parsed := rows.map fun r => ((r.headD []), (r.drop 1).map value)
          if parsed.all (·.2.all Option.isSome) then
            .ok (parsed.map (·.1), properties, parsed.map (·.2.map (·.getD false)))
          else .error .keyError

/-! ### wiki table, FIMI -/

def dumpWiki (objects properties : List Str) (bools : List (List Bool)) : Str :=
  let wp := properties.map (·.length)
  let body := (objects.zip bools).flatMap fun (o, row) =>
    [['|', '-'], '!' :: o,
     '|' :: joinWith ['|', '|'] ((wp.zip row).map fun (w, b) => ljust w (if b then ['X'] else []))]
  rstripBy isSpace (unlines (["{| class=\"featuresystem\"".toList, ['!'],
    '!' :: joinWith ['!', '!'] properties] ++ body ++ [['|', '}']]))

/-- `iter_fimi_rows` -/
def fimiRows (bools : List (List Bool)) : List (List Nat) :=
  bools.map fun row => (row.zipIdx).filterMap fun (b, j) => if b then some j else none

/-- `Fimi.dumps`: space separated indexes, `\n` terminated -/
def dumpFimi (bools : List (List Bool)) : Str :=
  (fimiRows bools).flatMap fun r => joinWith [' '] (r.map fun j => (toString j).toList) ++ ['\n']

/-! ### driver glue -/

def hexOfStr (s : Str) : String :=
  if s.isEmpty then "_" else ".".intercalate (s.map fun c => String.ofList (Nat.toDigits 16 c.toNat))

def hexVal (c : Char) : Nat :=
  if c.isDigit then c.toNat - 48 else if 'a' ≤ c ∧ c ≤ 'f' then c.toNat - 87 else 0

def strOfHex (h : String) : Str :=
  if h == "_" then [] else (h.splitOn ".").map fun t => Char.ofNat (t.toList.foldl (fun a c => 16 * a + hexVal c) 0)

def strListOfHex (h : String) : List Str := if h == "-" then [] else (h.splitOn ",").map strOfHex
def hexOfStrList (l : List Str) : String := if l.isEmpty then "-" else ",".intercalate (l.map hexOfStr)

def boolsOfStr (s : String) : List (List Bool) :=
  if s == "-" then [] else (s.splitOn "/").map fun row => if row == "." then [] else row.toList.map (· == '1')
def strOfBools (b : List (List Bool)) : String :=
  if b.isEmpty then "-" else "/".intercalate (b.map fun row =>
    if row.isEmpty then "." else String.ofList (row.map fun x => if x then '1' else '0'))

def showTriple : Except Err Triple → String
  | .ok (o, p, b) => s!"ok {hexOfStrList o} {hexOfStrList p} {strOfBools b}"
  | .error e => e.name

def fmtRequest : List String → String
  | ["dump", "table", indent, os, ps, bs] =>
    hexOfStr (dumpTable indent.toNat! (strListOfHex os) (strListOfHex ps) (boolsOfStr bs))
  | ["dump", "cxt", os, ps, bs] => hexOfStr (dumpCxt (strListOfHex os) (strListOfHex ps) (boolsOfStr bs))
  | ["dump", "csv", asInt, os, ps, bs] =>
    hexOfStr (dumpCsv (asInt == "1") (strListOfHex os) (strListOfHex ps) (boolsOfStr bs))
  | ["dump", "wiki", os, ps, bs] => hexOfStr (dumpWiki (strListOfHex os) (strListOfHex ps) (boolsOfStr bs))
  | ["dump", "fimi", bs] => hexOfStr (dumpFimi (boolsOfStr bs))
  | ["load", "table", src] => showTriple (loadTable (strOfHex src))
  | ["load", "cxt", src] => showTriple (loadCxt (strOfHex src))
  | ["load", "csv", src] => showTriple (loadCsv (strOfHex src))
  | ["strip", s] => hexOfStr (strip (strOfHex s))
  | _ => "bad-request"

end FCA
