import FCA.Model.Galois
import FCA.Proofs.Bits
/-
The derivation operators of the model are the Galois connection of the table.
-/
namespace FCA

/-- the trailing-zero skipping AND loop computes the pointwise intersection of the selected rows -/
theorem primeLoop_spec (other : Array Nat) (fuel bitset i acc j : Nat)
    (hf : bitset < 2 ^ fuel) :
    (primeLoop other fuel bitset i acc).testBit j = true ↔
      (acc.testBit j = true ∧ ∀ k, bitset.testBit k = true → (other[i+k]!).testBit j = true) := by
  induction fuel generalizing bitset i acc with
  | zero =>
    have : bitset = 0 := by simpa using hf
    subst this
    simp [primeLoop]
  | succ fuel ih =>
    unfold primeLoop
    by_cases hb : bitset = 0
    · subst hb; simp
    · simp only [hb, if_false]
      obtain ⟨h1, h2⟩ := tz_spec bitset hb
      by_cases hs : tz bitset = 0
      · simp only [hs, if_true]
        rw [hs] at h1
        have hlt : bitset >>> 1 < 2 ^ fuel := by
          rw [Nat.shiftRight_eq_div_pow]; rw [pow_succ] at hf; omega
        rw [ih _ _ _ hlt]
        simp only [Nat.testBit_and, Nat.testBit_shiftRight, Bool.and_eq_true]
        constructor
        · rintro ⟨⟨ha, h0⟩, hr⟩
          refine ⟨ha, fun k hk => ?_⟩
          cases k with
          | zero => simpa using h0
          | succ k =>
            have := hr k (by rwa [Nat.add_comm 1 k])
            rwa [show i+1+k = i+(k+1) by omega] at this
        · rintro ⟨ha, h⟩
          refine ⟨⟨ha, by simpa using h 0 h1⟩, fun k hk => ?_⟩
          have := h (1+k) hk
          rwa [show i + (1+k) = i+1+k by omega] at this
      · simp only [hs, if_false]
        have hpos : 0 < tz bitset := Nat.pos_of_ne_zero hs
        have hlt : bitset >>> tz bitset < 2 ^ fuel := by
          rw [Nat.shiftRight_eq_div_pow]
          have : 2 ≤ 2 ^ tz bitset := by
            calc 2 = 2^1 := by norm_num
              _ ≤ 2 ^ tz bitset := Nat.pow_le_pow_right (by norm_num) hpos
          have h2f : bitset < 2 * 2^fuel := by rw [pow_succ] at hf; omega
          calc bitset / 2 ^ tz bitset ≤ bitset / 2 := Nat.div_le_div_left this (by norm_num)
            _ < 2 ^ fuel := by omega
        rw [ih _ _ _ hlt]
        simp only [Nat.testBit_shiftRight]
        constructor
        · rintro ⟨ha, h⟩
          refine ⟨ha, fun k hk => ?_⟩
          by_cases hkt : k < tz bitset
          · rw [h2 k hkt] at hk; exact absurd hk (by simp)
          · have := h (k - tz bitset) (by rwa [show tz bitset + (k - tz bitset) = k by omega])
            rwa [show i + tz bitset + (k - tz bitset) = i + k by omega] at this
        · rintro ⟨ha, h⟩
          refine ⟨ha, fun k hk => ?_⟩
          have := h _ hk
          rwa [show i + (tz bitset + k) = i + tz bitset + k by omega] at this

/-- `prime(bitset)`: bit `j` of the result ⇔ bit `j` of `sup` and of every selected `other[k]` -/
theorem mem_primeOf (other : Array Nat) (sup bitset j : Nat) :
    j ∈ᵇ primeOf other sup bitset ↔ j ∈ᵇ sup ∧ ∀ k, k ∈ᵇ bitset → j ∈ᵇ other[k]! := by
  unfold primeOf mem
  rw [primeLoop_spec other bitset bitset 0 sup j Nat.lt_two_pow_self]
  simp

/-- the fuel is irrelevant once it covers the mask: any larger fuel gives the same result -/
theorem primeLoop_fuel_irrelevant (other : Array Nat) (f1 f2 bitset i acc : Nat)
    (h1 : bitset < 2 ^ f1) (h2 : bitset < 2 ^ f2) :
    primeLoop other f1 bitset i acc = primeLoop other f2 bitset i acc := by
  apply Nat.eq_of_testBit_eq; intro j
  have a := primeLoop_spec other f1 bitset i acc j h1
  have b := primeLoop_spec other f2 bitset i acc j h2
  have c := a.trans b.symm
  cases h : (primeLoop other f1 bitset i acc).testBit j <;>
    cases h' : (primeLoop other f2 bitset i acc).testBit j <;> simp_all

/-- incidence: object `i` has property `j` -/
def Ctx.has (K : Ctx) (i j : Nat) : Prop := j ∈ᵇ K.rows[i]!

instance (K : Ctx) (i j : Nat) : Decidable (K.has i j) := by unfold Ctx.has; infer_instance

theorem foldl_or_pow_mem (p : Nat → Bool) (l : List Nat) (init i : Nat) :
    i ∈ᵇ l.foldl (fun acc k => if p k then acc ||| 2 ^ k else acc) init ↔ i ∈ᵇ init ∨ (i ∈ l ∧ p i = true) := by
  induction l generalizing init with
  | nil => simp
  | cons a l ih =>
    simp only [List.foldl_cons, ih, List.mem_cons]
    by_cases hp : p a = true
    · simp only [hp, if_true, mem_or, mem_pow]
      constructor
      · rintro ((h | rfl) | h)
        · exact Or.inl h
        · exact Or.inr ⟨Or.inl rfl, hp⟩
        · exact Or.inr ⟨Or.inr h.1, h.2⟩
      · rintro (h | ⟨rfl | h, h2⟩)
        · exact Or.inl (Or.inl h)
        · exact Or.inl (Or.inr rfl)
        · exact Or.inr ⟨h, h2⟩
    · simp only [hp]
      constructor
      · rintro (h | h)
        · exact Or.inl h
        · exact Or.inr ⟨Or.inr h.1, h.2⟩
      · rintro (h | ⟨rfl | h, h2⟩)
        · exact Or.inl h
        · exact absurd h2 hp
        · exact Or.inr ⟨h, h2⟩

/-- `Relation.__new__`: column `j` holds exactly the objects whose row has bit `j` -/
theorem mem_colsOf (n m : Nat) (rows : Array Nat) (i j : Nat) :
    i ∈ᵇ (colsOf n m rows)[j]! ↔ j < m ∧ i < n ∧ j ∈ᵇ rows[i]! := by
  unfold colsOf
  by_cases hj : j < m
  · have : ((List.map (fun j => List.foldl (fun acc i => if (rows[i]!).testBit j = true then acc ||| 2 ^ i else acc) 0
        (List.range n)) (List.range m)).toArray)[j]! =
        List.foldl (fun acc i => if (rows[i]!).testBit j = true then acc ||| 2 ^ i else acc) 0 (List.range n) := by
      simp [hj]
    rw [this, foldl_or_pow_mem (fun i => (rows[i]!).testBit j)]
    simp [hj, mem]
  · have : ((List.map (fun j => List.foldl (fun acc i => if (rows[i]!).testBit j = true then acc ||| 2 ^ i else acc) 0
        (List.range n)) (List.range m)).toArray)[j]! = 0 := by
      simp [hj]
    rw [this]; simp [hj]

theorem Ctx.WF.has_lt {K : Ctx} (h : K.WF) {i j : Nat} (hij : K.has i j) : i < K.n ∧ j < K.m := by
  obtain ⟨hsz, hrow, _⟩ := h
  unfold Ctx.has at hij
  by_cases hi : i < K.n
  · refine ⟨hi, ?_⟩
    exact bounded_iff_lt.mpr (hrow i hi) j hij
  · have : K.rows[i]! = 0 := by
      simp [getElem!_def, hsz, hi]
    rw [this] at hij; exact absurd hij not_mem_zero

/-- C01 kernel: `Objects.prime` (extent → intent) -/
theorem mem_intentOf {K : Ctx} (A j : Nat) :
    j ∈ᵇ K.intentOf A ↔ j < K.m ∧ ∀ i, i ∈ᵇ A → K.has i j := by
  unfold Ctx.intentOf
  rw [mem_primeOf]; simp [Ctx.has]

/-- C01 kernel: `Properties.prime` (intent → extent) -/
theorem mem_extentOf {K : Ctx} (h : K.WF) (B i : Nat) :
    i ∈ᵇ K.extentOf B ↔ i < K.n ∧ ∀ j, j ∈ᵇ B → K.has i j := by
  unfold Ctx.extentOf
  rw [mem_primeOf, h.2.2]
  simp only [mem_full, mem_colsOf]
  constructor
  · rintro ⟨hi, hall⟩
    exact ⟨hi, fun j hj => (hall j hj).2.2⟩
  · rintro ⟨hi, hall⟩
    refine ⟨hi, fun j hj => ?_⟩
    have := hall j hj
    exact ⟨(h.has_lt this).2, hi, this⟩

theorem bounded_intentOf {K : Ctx} (A : Nat) : Bounded K.m (K.intentOf A) :=
  fun j hj => ((mem_intentOf A j).mp hj).1

theorem bounded_extentOf {K : Ctx} (h : K.WF) (B : Nat) : Bounded K.n (K.extentOf B) :=
  fun i hi => ((mem_extentOf h B i).mp hi).1

theorem intentOf_anti {K : Ctx} {A A' : Nat} (hs : A ⊆ᵇ A') : K.intentOf A' ⊆ᵇ K.intentOf A := by
  intro j hj
  rw [mem_intentOf] at hj ⊢
  exact ⟨hj.1, fun i hi => hj.2 i (hs i hi)⟩

theorem extentOf_anti {K : Ctx} (h : K.WF) {B B' : Nat} (hs : B ⊆ᵇ B') : K.extentOf B' ⊆ᵇ K.extentOf B := by
  intro i hi
  rw [mem_extentOf h] at hi ⊢
  exact ⟨hi.1, fun j hj => hi.2 j (hs j hj)⟩

theorem sub_extent_intent {K : Ctx} (h : K.WF) {A : Nat} (hA : Bounded K.n A) :
    A ⊆ᵇ K.extentOf (K.intentOf A) := by
  intro i hi
  rw [mem_extentOf h]
  exact ⟨hA i hi, fun j hj => ((mem_intentOf A j).mp hj).2 i hi⟩

theorem sub_intent_extent {K : Ctx} (h : K.WF) {B : Nat} (hB : Bounded K.m B) :
    B ⊆ᵇ K.intentOf (K.extentOf B) := by
  intro j hj
  rw [mem_intentOf]
  exact ⟨hB j hj, fun i hi => ((mem_extentOf h B i).mp hi).2 j hj⟩

theorem intent_extent_intent {K : Ctx} (h : K.WF) {A : Nat} (hA : Bounded K.n A) :
    K.intentOf (K.extentOf (K.intentOf A)) = K.intentOf A :=
  sub_antisymm (intentOf_anti (sub_extent_intent h hA)) (sub_intent_extent h (bounded_intentOf A))

theorem extent_intent_extent {K : Ctx} (h : K.WF) {B : Nat} (hB : Bounded K.m B) :
    K.extentOf (K.intentOf (K.extentOf B)) = K.extentOf B :=
  sub_antisymm (extentOf_anti h (sub_intent_extent h hB)) (sub_extent_intent h (bounded_extentOf h B))

/-- a formal concept of `K` on index level -/
def isConcept (K : Ctx) (A B : Nat) : Prop :=
  Bounded K.n A ∧ Bounded K.m B ∧ K.intentOf A = B ∧ K.extentOf B = A

/-- closed object set -/
def closedObj (K : Ctx) (A : Nat) : Prop := Bounded K.n A ∧ K.doubleObj A = A

theorem isConcept_iff_closed {K : Ctx} {A B : Nat} :
    isConcept K A B ↔ closedObj K A ∧ B = K.intentOf A := by
  unfold isConcept closedObj Ctx.doubleObj
  constructor
  · rintro ⟨hA, _, h1, h2⟩
    exact ⟨⟨hA, by rw [h1, h2]⟩, h1.symm⟩
  · rintro ⟨⟨hA, h1⟩, rfl⟩
    exact ⟨hA, bounded_intentOf A, rfl, h1⟩

theorem doubleObj_closed {K : Ctx} (h : K.WF) (A : Nat) (hA : Bounded K.n A) :
    closedObj K (K.doubleObj A) :=
  ⟨bounded_extentOf h _, by unfold Ctx.doubleObj; rw [intent_extent_intent h hA]⟩

theorem doubleObj_mono {K : Ctx} (h : K.WF) {A A' : Nat} (hs : A ⊆ᵇ A') : K.doubleObj A ⊆ᵇ K.doubleObj A' :=
  extentOf_anti h (intentOf_anti hs)

theorem mkCtx_WF (n m : Nat) (rows : Array Nat) (hsz : rows.size = n) (hrow : ∀ i, i < n → rows[i]! < 2 ^ m) :
    (mkCtx n m rows).WF := ⟨hsz, hrow, rfl⟩

/-- transposition swaps the two derivations -/
theorem transpose_WF {K : Ctx} (h : K.WF) : K.transpose.WF := by
  obtain ⟨hsz, hrow, hcols⟩ := h
  refine ⟨?_, ?_, ?_⟩
  · show K.cols.size = K.m
    rw [hcols]; simp [colsOf]
  · intro j hj
    show K.cols[j]! < 2 ^ K.n
    rw [← bounded_iff_lt, hcols]
    intro i hi
    exact ((mem_colsOf _ _ _ i j).mp hi).2.1
  · show K.rows = colsOf K.m K.n K.cols
    apply Array.ext
    · simp [colsOf, hsz]
    · intro i h1 h2
      have hi : i < K.n := by rw [← hsz]; exact h1
      have e1 : K.rows[i] = K.rows[i]! := by simp [getElem!_def, h1]
      have e2 : (colsOf K.m K.n K.cols)[i] = (colsOf K.m K.n K.cols)[i]! := by simp [getElem!_def, h2]
      rw [e1, e2]
      apply ext; intro j
      rw [mem_colsOf, hcols, mem_colsOf]
      constructor
      · intro hj
        have hjm : j < K.m := bounded_iff_lt.mpr (hrow i hi) j hj
        exact ⟨hi, hjm, hjm, hi, hj⟩
      · rintro ⟨_, _, _, _, hj⟩; exact hj

end FCA
