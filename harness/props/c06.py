"""C06 - canonical order: shortlex iteration, index/dindex ranks, bottom first, top last."""
from core import guard, show_list
from props import lat
import gen


def run(run):
    run.rule = ('contexts as C03 (object labels chosen so that label order differs from positional order); the model sorts the '
                'implementation\'s own extents: iteration order, index, dindex, infimum/supremum, atoms, order inside neighbor tuples')
    d = run.driver
    import concepts
    pool = {}       # number of objects -> (table, context, stored form) of the latest context with that many objects
    turn = 0
    for tab, pc0 in lat.contexts(run, exh_quick=10, rand_quick=500, wide_quick=40, exh_thorough=14, nmax=10, mmax=9):
        if min(pc0.n, pc0.m) > 12:
            continue
        # the lattice of this context is built first; then the serialised lattice of the PREVIOUS context (usually of
        # another size) is loaded, so that nothing left behind by building one lattice may leak into loading another
        with guard(run, 'todict', [pc0.line, 'lattice']):
            pc0.ctx.lattice
            dd0 = pc0.ctx.todict()
        check_one(run, d, tab, pc0, None, 0, concepts)
        # an earlier context with ANOTHER number of objects (the same bit patterns mean other object sets there), else any other
        others = [k for k in pool if k != pc0.n]
        if others:
            k = min(others, key=lambda k: (abs(k - pc0.n), k))
            ptab, ppc, pdd = pool[k]
            turn += 1
            check_one(run, d, ptab, ppc, pdd, 1 + turn % 5, concepts)
        pool[pc0.n] = (tab, pc0, dd0)


def check_one(run, d, tab, pc, dd, variant, concepts):
    if True:
        extra = {'objects': pc.objects, 'properties': pc.properties, 'bools': pc.bools}
        w = pc.n
        with guard(run, 'iteration order / index / dindex / neighbor order', [pc.line, 'lattice']):
            if variant == 0:
                L = pc.ctx.lattice
            else:
                def shuf(t):
                    t = list(t)
                    run.rng.shuffle(t)
                    return tuple(t)
                if variant == 2:
                    dd = dict(dd, lattice=[tuple(shuf(x) for x in entry) for entry in dd['lattice']])
                    L = concepts.Context.fromdict(dd, raw=True).lattice
                    run.count('lattice loaded from dict raw with shuffled tuples')
                elif variant == 3:
                    import io
                    import json
                    jd = dict(dd, lattice=[[list(shuf(x)) for x in entry] for entry in dd['lattice']])
                    L = concepts.Context.fromjson(io.StringIO(json.dumps(jd)), raw=True).lattice
                    run.count('lattice loaded from json raw with shuffled tuples')
                elif variant == 4:
                    # the caller scrambles a dict it got from todict(); a later todict() of the same context is loaded as is
                    scratch = pc.ctx.todict()
                    scratch['lattice'].reverse()
                    for k in range(len(scratch['lattice'])):
                        scratch['lattice'][k] = tuple(shuf(x) for x in scratch['lattice'][k])
                    L = concepts.Context.fromdict(pc.ctx.todict()).lattice
                    run.count('lattice loaded from a later todict() after the caller scrambled an earlier one')
                elif variant == 5 and len(dd['lattice']) <= 150:
                    import copy
                    import pickle
                    L = pickle.loads(pickle.dumps(pc.ctx.lattice)) if run.rng.random() < .5 else copy.deepcopy(pc.ctx.lattice)
                    run.count('lattice from a pickle / deepcopy round trip')
                else:
                    L = concepts.Context.fromdict(dd).lattice
                    run.count('lattice loaded from dict')
            cs = list(L)
            E = [pc.omask(c.extent) for c in cs]
            idx = [c.index for c in cs]
            didx = [c.dindex for c in cs]
            ups = [[pc.omask(u.extent) for u in c.upper_neighbors] for c in cs]
            los = [[pc.omask(l.extent) for l in c.lower_neighbors] for c in cs]
            inf_ok = L.infimum is cs[0]
            sup_ok = L.supremum is cs[-1]
            atoms = [pc.omask(a.extent) for a in L.atoms]
        reqs = ['sortsl %d %s' % (w, show_list(E)), 'sortll %d %s' % (w, show_list(E)),
                'mincovers %d %d %s' % (w, E[0], show_list(E))]
        for u in ups:
            reqs.append('sortsl %d %s' % (w, show_list(u)))
        for l in los:
            reqs.append('sortll %d %s' % (w, show_list(l)))
        ans = d.ask_many(reqs)
        def lst(s):
            return [] if s == '-' else [int(x) for x in s.split(',')]
        run.case(pc.line, gen.nontrivial(tab), {'context': pc.line, 'extents in iteration order': E[:12]})
        if E != lst(ans[0]):
            run.fail('iteration order is not shortlex', E, lst(ans[0]), [pc.line, reqs[0]], extra)
        if idx != list(range(len(cs))):
            run.fail('concept.index is not the position in iteration order', idx, list(range(len(cs))), [pc.line], extra)
        ll = lst(ans[1])
        want_d = [ll.index(e) for e in E]
        if didx != want_d:
            run.fail('concept.dindex is not the longlex rank', didx, want_d, [pc.line, reqs[1]], extra)
        if not inf_ok or any(E[0] & e != E[0] for e in E):
            run.fail('lattice.infimum is not the first and least concept', E[0], None, [pc.line], extra)
        if not sup_ok or any(E[-1] | e != E[-1] for e in E):
            run.fail('lattice.supremum is not the last and greatest concept', E[-1], None, [pc.line], extra)
        if atoms != lst(ans[2]):
            run.fail('lattice.atoms are not the upper covers of the infimum (in shortlex order)', atoms, lst(ans[2]), [pc.line, reqs[2]], extra)
        k = len(cs)
        for j in range(k):
            if ups[j] != lst(ans[3 + j]):
                run.fail('upper_neighbors of concept %d not in shortlex order' % j, ups[j], lst(ans[3 + j]), [pc.line, reqs[3 + j]], extra)
            if los[j] != lst(ans[3 + k + j]):
                run.fail('lower_neighbors of concept %d not in longlex order' % j, los[j], lst(ans[3 + k + j]), [pc.line, reqs[3 + k + j]], extra)
        run.count('contexts')
        if any(len({bin(x).count('1') for x in u}) > 1 for u in ups):
            run.count('mixed-size neighbor sets')
