import FCA.Generated.Derive
import FCA.Model.Defn
/-
C14 (and the conflict part of C13 / C17) over the regenerated source: `Definition.copy`, `inverted`, `transposed` and
`conflicting_pairs` (behind `union` / `intersection` / `*_update`), translated from the current `definitions.py` (set
comprehensions as `flatMap` / `filterMap` / `map` over the ordered names; `Unique & Unique` = the right operand's order), are
the model's `Defn.copy`, `Defn.inverted`, `Defn.transposed`, `conflicts` — about which `C14_*`, `C17_conflicts_*` are proved.
`take` is tied by the correspondence only.
-/
namespace FCA

theorem C14_generated_copy (d : Defn) : Generated.defn_copy d = d.copy := rfl

theorem C14_generated_transposed (d : Defn) : Generated.defn_transposed d = d.transposed := rfl

theorem C14_generated_inverted (d : Defn) : Generated.defn_inverted d = d.inverted := by
  have h : (fun o => List.filterMap (fun p => if (!d.pairs.contains (o, p)) = true then some (o, p) else none) d.props) =
      (fun o => List.filterMap (fun p => if d.pairs.contains (o, p) = true then none else some (o, p)) d.props) := by
    funext o
    congr 1
    funext p
    cases d.pairs.contains (o, p) <;> rfl
  simp only [Generated.defn_inverted, Defn.inverted, h]

/-- the pairs listed (and their order) in the `ValueError` of `union` / `intersection` -/
theorem C14_generated_conflicting_pairs (l r : Defn) : Generated.conflicting_pairs l r = conflicts l r := rfl

/-- `ensure_compatible(left, right)` raises iff the model's `step` rejects `union_update` / `intersection_update` without
`ignore_conflicts` -/
theorem C14_generated_ensure_compatible (d other : Defn) :
    ((d.step (.unionUpdate other false)).toOption.isNone ↔ Generated.conflicting_pairs d other ≠ []) ∧
    ((d.step (.intersectionUpdate other false)).toOption.isNone ↔ Generated.conflicting_pairs d other ≠ []) := by
  rw [C14_generated_conflicting_pairs]
  constructor <;>
  · simp only [Defn.step, Bool.not_false, Bool.true_and]
    cases h : conflicts d other <;> simp [Except.toOption]

end FCA
#print axioms FCA.C14_generated_copy
#print axioms FCA.C14_generated_transposed
#print axioms FCA.C14_generated_inverted
#print axioms FCA.C14_generated_conflicting_pairs
#print axioms FCA.C14_generated_ensure_compatible
