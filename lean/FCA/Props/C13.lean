import FCA.Proofs.DefnOps
import FCA.Proofs.DefnMove
import FCA.Proofs.DefnSet
/-
C13 — every edit history of a `Definition` matches the ordered-table model.

The model (`FCA/Model/Defn.lean`) *is* the plain ordered-table model: two ordered name lists and a
list of true cells used as a set.  Proved here: the model is well behaved for every history
(representation invariant `Defn.Inv`), `bools` is always rectangular, a definition satisfying the
invariant equals a fresh one built from its own triple (and a residue cell is visible as an
inequality), removed / renamed names leave nothing behind, new names are appended in the order
given, cell assignment touches exactly one cell, and rejected calls leave the state alone; the cell
list is a set (`C13_pairs_as_set*`: nothing observable depends on its order or on repeats); renaming
keeps the position and the table, removing keeps all other rows / columns.
-/
namespace FCA

/-- a small definition used for the non-vacuity examples -/
def exD : Defn := ⟨["o1", "o2"], ["p1", "p2"], [("o1", "p1"), ("o2", "p2")]⟩
/-- overlaps `exD` on `o2`, `p2` and agrees there -/
def exE : Defn := ⟨["o2", "o3"], ["p2", "p3"], [("o2", "p2"), ("o3", "p3")]⟩
/-- conflicts with `exD` on the shared cell `(o2, p2)` -/
def exF : Defn := ⟨["o2", "o3"], ["p2", "p3"], [("o3", "p3")]⟩

theorem exD_inv : exD.Inv := by
  refine ⟨by decide, by decide, by decide, ?_⟩
  intro o p h
  simp only [exD, List.mem_cons, Prod.mk.injEq, List.not_mem_nil, or_false] at h ⊢
  rcases h with ⟨rfl, rfl⟩ | ⟨rfl, rfl⟩ <;> simp

theorem exE_inv : exE.Inv := by
  refine ⟨by decide, by decide, by decide, ?_⟩
  intro o p h
  simp only [exE, List.mem_cons, Prod.mk.injEq, List.not_mem_nil, or_false] at h ⊢
  rcases h with ⟨rfl, rfl⟩ | ⟨rfl, rfl⟩ <;> simp

theorem exF_inv : exF.Inv := by
  refine ⟨by decide, by decide, by decide, ?_⟩
  intro o p h
  simp only [exF, List.mem_cons, Prod.mk.injEq, List.not_mem_nil, or_false] at h ⊢
  rcases h with ⟨rfl, rfl⟩ <;> simp

/-! ### the invariant -/

/-- a successfully constructed definition satisfies the invariant -/
theorem C13_inv_ofTriple {os ps : List Name} {bs : List (List Bool)} {d : Defn}
    (h : Defn.ofTriple os ps bs = .ok d) : d.Inv := by
  obtain ⟨h1, h2, rfl⟩ := ofTriple_ok h
  refine ⟨h1, h2, nodup_eraseDups _, ?_⟩
  intro o p hop
  rw [List.mem_eraseDups, mem_triple_cells] at hop
  obtain ⟨row, hz1, hz2⟩ := hop
  exact ⟨(List.of_mem_zip hz1).1, (List.of_mem_zip hz2).1⟩

example : Defn.ofTriple ["o1", "o2"] ["p1", "p2"] [[true, false], [false, true]] = .ok exD := by decide

/-- the constructor rejects exactly duplicate names -/
theorem C13_ofTriple_rejects_iff {os ps : List Name} {bs : List (List Bool)} :
    (∃ e, Defn.ofTriple os ps bs = .error e) ↔ ¬os.Nodup ∨ ¬ps.Nodup := ofTriple_error_iff

/-- every accepted mutator call preserves the invariant (all fifteen operations) -/
theorem C13_inv_step {d d' : Defn} {op : Op} {r : List Name} (h : d.Inv) (hop : op.operandInv)
    (hs : d.step op = .ok (d', r)) : d'.Inv := inv_step h hop hs

example : exD.Inv ∧ (Op.unionUpdate exE false).operandInv ∧
    ∃ d' r, exD.step (.unionUpdate exE false) = .ok (d', r) :=
  ⟨exD_inv, exE_inv, _, _, rfl⟩

example : ∃ d' r, exD.step (.renameObject "o1" "o9") = .ok (d', r) := ⟨_, _, rfl⟩

/-- every edit history (rejected calls are skipped: they raise and change nothing) keeps the
invariant -/
theorem C13_inv_history {d : Defn} {ops : List Op} (h : d.Inv) (hops : ∀ op ∈ ops, op.operandInv) :
    (d.runHistory ops).Inv := by
  induction ops generalizing d with
  | nil => exact h
  | cons op ops ih =>
    have hops' : ∀ op' ∈ ops, op'.operandInv := fun op' hm => hops op' (List.mem_cons_of_mem _ hm)
    unfold Defn.runHistory
    split
    · rename_i d' r hs
      exact ih (inv_step h (hops op List.mem_cons_self) hs) hops'
    · exact ih h hops'

/-- the same for histories that stop at the first rejected call -/
theorem C13_inv_history_strict {d d' : Defn} {ops : List Op} (h : d.Inv)
    (hops : ∀ op ∈ ops, op.operandInv) (hr : d.runHistoryStrict ops = .ok d') : d'.Inv := by
  induction ops generalizing d with
  | nil => cases hr; exact h
  | cons op ops ih =>
    have hops' : ∀ op' ∈ ops, op'.operandInv := fun op' hm => hops op' (List.mem_cons_of_mem _ hm)
    unfold Defn.runHistoryStrict at hr
    split at hr
    · rename_i d1 r hs
      exact ih (inv_step h (hops op List.mem_cons_self) hs) hops' hr
    · cases hr

/-- histories starting from the empty definition or from any constructed one -/
theorem C13_inv_history_empty {ops : List Op} (hops : ∀ op ∈ ops, op.operandInv) :
    (Defn.empty.runHistory ops).Inv := C13_inv_history Defn.inv_empty hops

example : (exD.runHistory [.removeObject "o1", .removeObject "nope", .addObject "o1" ["p3"],
    .unionUpdate exF false, .setItem "o7" "p1" true]).objs = ["o2", "o1", "o7"] := by decide

/-! ### `bools` is rectangular -/

/-- one row per object and one cell per property, for every state whatsoever -/
theorem C13_bools_shape (d : Defn) :
    d.bools.length = d.objs.length ∧ ∀ row ∈ d.bools, row.length = d.props.length :=
  ⟨bools_length d, bools_row_length d⟩

/-! ### equality with the fresh definition built from the own triple -/

/-- `d == Definition(*d)` holds exactly when the names are duplicate free and no cell lies outside
`objs × props` -/
theorem C13_freshEq_iff (d : Defn) :
    d.freshEq = true ↔
      d.objs.Nodup ∧ d.props.Nodup ∧ ∀ o p, (o, p) ∈ d.pairs → o ∈ d.objs ∧ p ∈ d.props := by
  unfold Defn.freshEq
  by_cases h1 : d.objs.Nodup
  · by_cases h2 : d.props.Nodup
    · rw [ofTriple_of_nodup d.bools h1 h2]
      simp only [Defn.eqv, Bool.and_eq_true, List.all_eq_true, List.contains_iff_mem, imp_self,
        implies_true, true_and, List.mem_eraseDups, Prod.forall, mem_fresh_cells, h1, h2]
      constructor
      · rintro ⟨ha, _⟩ o p hop
        have := ha o p hop
        exact ⟨this.1, this.2.1⟩
      · intro hc
        refine ⟨fun o p hop => ⟨(hc o p hop).1, (hc o p hop).2, hop⟩, fun o p hop => hop.2.2⟩
    · cases h : Defn.ofTriple d.objs d.props d.bools with
      | error e => simp [h2]
      | ok f => exact absurd (ofTriple_ok h).2.1 h2
  · cases h : Defn.ofTriple d.objs d.props d.bools with
    | error e => simp [h1]
    | ok f => exact absurd (ofTriple_ok h).1 h1

/-- under the invariant the definition equals a fresh one built from its own triple -/
theorem C13_fresh_eq {d : Defn} (h : d.Inv) : d.freshEq = true :=
  (C13_freshEq_iff d).mpr ⟨h.1, h.2.1, h.2.2.2⟩

example : exD.Inv ∧ exD.freshEq = true := ⟨exD_inv, by decide⟩

/-- after every history the definition equals the fresh definition built from its own triple -/
theorem C13_fresh_eq_history {d : Defn} {ops : List Op} (h : d.Inv)
    (hops : ∀ op ∈ ops, op.operandInv) : (d.runHistory ops).freshEq = true :=
  C13_fresh_eq (C13_inv_history h hops)

/-- a residue cell (a true cell of a name that is not listed) makes the comparison fail -/
theorem C13_residue_visible {d : Defn} {o p : Name} (hop : (o, p) ∈ d.pairs)
    (hout : o ∉ d.objs ∨ p ∉ d.props) : d.freshEq = false := by
  rw [Bool.eq_false_iff]
  intro h
  have := ((C13_freshEq_iff d).mp h).2.2 o p hop
  tauto

example : (⟨["o1"], ["p1"], [("o1", "p1"), ("gone", "p1")]⟩ : Defn).freshEq = false := by decide

/-! ### no residue of removed or renamed names -/

theorem C13_no_residue_remove {d d' : Defn} {o : Name} {r : List Name} (h : d.Inv)
    (hs : d.step (.removeObject o) = .ok (d', r)) :
    o ∉ d'.objs ∧ ∀ p, (o, p) ∉ d'.pairs := by
  obtain ⟨_, _, rfl⟩ := step_removeObject_ok hs
  refine ⟨by simp, fun p hp => ?_⟩
  rw [mem_removeObj] at hp
  exact hp.2 ⟨rfl, (h.2.2.2 o p hp.1).2⟩

theorem C13_no_residue_removeProperty {d d' : Defn} {p : Name} {r : List Name} (h : d.Inv)
    (hs : d.step (.removeProperty p) = .ok (d', r)) :
    p ∉ d'.props ∧ ∀ o, (o, p) ∉ d'.pairs := by
  obtain ⟨_, _, rfl⟩ := step_removeProperty_ok hs
  refine ⟨by simp, fun o ho => ?_⟩
  rw [mem_removeProp] at ho
  exact ho.2 ⟨rfl, (h.2.2.2 o p ho.1).1⟩

theorem C13_no_residue_renameObject {d d' : Defn} {old new : Name} {r : List Name}
    (hs : d.step (.renameObject old new) = .ok (d', r)) :
    old ∉ d'.objs ∧ (∀ p, (old, p) ∉ d'.pairs) ∧
    ∀ p, (new, p) ∈ d'.pairs ↔ (old, p) ∈ d.pairs ∨ (new, p) ∈ d.pairs := by
  obtain ⟨hn, ho, _, rfl⟩ := step_renameObject_ok hs
  have hne : new ≠ old := fun e => hn (e ▸ ho)
  refine ⟨?_, ?_, ?_⟩
  · simp only [mem_replace]
    rintro (⟨_, h⟩ | ⟨h, _⟩)
    · exact h rfl
    · exact hne h.symm
  · intro p hp
    rw [mem_renameObj] at hp
    rcases hp with ⟨_, h⟩ | ⟨h, _⟩
    · exact h rfl
    · exact hne h.symm
  · intro p
    rw [mem_renameObj]
    constructor
    · rintro (⟨h, _⟩ | ⟨_, h⟩)
      · exact Or.inr h
      · exact Or.inl h
    · rintro (h | h)
      · exact Or.inr ⟨rfl, h⟩
      · exact Or.inl ⟨h, hne⟩

theorem C13_no_residue_renameProperty {d d' : Defn} {old new : Name} {r : List Name}
    (hs : d.step (.renameProperty old new) = .ok (d', r)) :
    old ∉ d'.props ∧ (∀ o, (o, old) ∉ d'.pairs) ∧
    ∀ o, (o, new) ∈ d'.pairs ↔ (o, old) ∈ d.pairs ∨ (o, new) ∈ d.pairs := by
  obtain ⟨hn, ho, _, rfl⟩ := step_renameProperty_ok hs
  have hne : new ≠ old := fun e => hn (e ▸ ho)
  refine ⟨?_, ?_, ?_⟩
  · simp only [mem_replace]
    rintro (⟨_, h⟩ | ⟨h, _⟩)
    · exact h rfl
    · exact hne h.symm
  · intro o hp
    rw [mem_renameProp] at hp
    rcases hp with ⟨_, h⟩ | ⟨h, _⟩
    · exact h rfl
    · exact hne h.symm
  · intro o
    rw [mem_renameProp]
    constructor
    · rintro (⟨h, _⟩ | ⟨_, h⟩)
      · exact Or.inr h
      · exact Or.inl h
    · rintro (h | h)
      · exact Or.inr ⟨rfl, h⟩
      · exact Or.inl ⟨h, hne⟩

example : exD.Inv ∧ ∃ d' r, exD.step (.removeObject "o1") = .ok (d', r) := ⟨exD_inv, _, _, rfl⟩

/-- adding a name that is not listed (in a state satisfying the invariant) gives an all-false row:
nothing of an earlier life of that name can reappear -/
theorem C13_add_fresh_empty_row {d : Defn} {o : Name} (h : d.Inv) (ho : o ∉ d.objs) :
    ∃ d', d.step (.addObject o []) = .ok (d', []) ∧ d'.objs = d.objs ++ [o] ∧ d'.props = d.props ∧
      d'.bools = d.bools ++ [List.replicate d.props.length false] := by
  refine ⟨_, rfl, ?_, ?_, ?_⟩
  · simp [uAdd, ho]
  · simp [uIor]
  · simp only [Defn.bools, uAdd_of_not_mem ho, uIor, List.foldl_nil, List.map_append, List.map_cons,
      List.map_nil]
    congr 2
    rw [List.eq_replicate_iff]
    refine ⟨by simp, ?_⟩
    intro b hb
    simp only [List.mem_map] at hb
    obtain ⟨p, _, rfl⟩ := hb
    rw [← Bool.not_eq_true, List.contains_iff_mem]
    exact fun hc => ho (h.2.2.2 o p hc).1

/-- remove an object, add it again: its row is all false -/
theorem C13_readd_empty_row {d d1 d2 : Defn} {o : Name} {r1 r2 : List Name} (h : d.Inv)
    (hs1 : d.step (.removeObject o) = .ok (d1, r1)) (hs2 : d1.step (.addObject o []) = .ok (d2, r2)) :
    d2.objs = d1.objs ++ [o] ∧ d2.props = d.props ∧
    d2.bools = d1.bools ++ [List.replicate d.props.length false] ∧
    ∀ p ∈ d2.props, d2.getItem o p = .ok false := by
  have hi1 : d1.Inv := inv_step (op := .removeObject o) h trivial hs1
  have hno := C13_no_residue_remove h hs1
  obtain ⟨d', hd', e1, e2, e3⟩ := C13_add_fresh_empty_row hi1 hno.1
  rw [hd'] at hs2
  cases hs2
  have hp1 : d1.props = d.props := by
    obtain ⟨_, _, rfl⟩ := step_removeObject_ok hs1; rfl
  refine ⟨e1, e2.trans hp1, by rw [e3, hp1], ?_⟩
  intro p hp
  have hcell : (o, p) ∉ d2.pairs := by
    have : d2.pairs = d1.pairs := by cases hd'; rfl
    rw [this]; exact hno.2 p
  simp only [Defn.getItem, e1, List.contains_eq_mem, List.mem_append, List.mem_singleton, or_true,
    decide_true, hp, Bool.and_self, if_true, hcell, decide_false]

example : ∃ d1 r1 d2 r2, exD.step (.removeObject "o1") = .ok (d1, r1) ∧
    d1.step (.addObject "o1" []) = .ok (d2, r2) ∧ d2.bools = [[false, true], [false, false]] :=
  ⟨_, _, _, _, rfl, rfl, by decide⟩

/-- ... also after an arbitrary history in between -/
theorem C13_readd_empty_row_history {d : Defn} {ops : List Op} {o : Name} (h : d.Inv)
    (hops : ∀ op ∈ ops, op.operandInv) (ho : o ∉ (d.runHistory ops).objs) :
    ∃ d', (d.runHistory ops).step (.addObject o []) = .ok (d', []) ∧
      d'.bools = (d.runHistory ops).bools ++ [List.replicate (d.runHistory ops).props.length false] := by
  obtain ⟨d', h1, _, _, h2⟩ := C13_add_fresh_empty_row (C13_inv_history h hops) ho
  exact ⟨d', h1, h2⟩

/-! ### new names are appended in the order given -/

theorem C13_append_order (l xs : List Name) :
    uIor l xs = l ++ uniq (xs.filter (fun x => !l.contains x)) := uIor_eq l xs

example : uIor ["a", "b"] ["c", "b", "d", "c"] = ["a", "b", "c", "d"] := by decide

theorem C13_append_order_uAdd (l : List Name) (x : Name) :
    uAdd l x = l ++ (if x ∈ l then [] else [x]) := by
  by_cases h : x ∈ l <;> simp [uAdd, h]

theorem C13_append_order_addObject {d d' : Defn} {o : Name} {ps r : List Name}
    (hs : d.step (.addObject o ps) = .ok (d', r)) :
    d'.objs = d.objs ++ (if o ∈ d.objs then [] else [o]) ∧
    d'.props = d.props ++ uniq (ps.filter (fun x => !d.props.contains x)) ∧ r = [] := by
  cases hs
  exact ⟨C13_append_order_uAdd _ _, uIor_eq _ _, rfl⟩

theorem C13_append_order_addProperty {d d' : Defn} {p : Name} {os r : List Name}
    (hs : d.step (.addProperty p os) = .ok (d', r)) :
    d'.objs = d.objs ++ uniq (os.filter (fun x => !d.objs.contains x)) ∧
    d'.props = d.props ++ (if p ∈ d.props then [] else [p]) ∧ r = [] := by
  cases hs
  exact ⟨uIor_eq _ _, C13_append_order_uAdd _ _, rfl⟩

theorem C13_append_order_setObject {d d' : Defn} {o : Name} {ps r : List Name}
    (hs : d.step (.setObject o ps) = .ok (d', r)) :
    d'.objs = d.objs ++ (if o ∈ d.objs then [] else [o]) ∧
    d'.props = d.props ++ uniq (ps.filter (fun x => !d.props.contains x)) ∧ r = [] := by
  cases hs
  exact ⟨C13_append_order_uAdd _ _, uIor_eq _ _, rfl⟩

theorem C13_append_order_setProperty {d d' : Defn} {p : Name} {os r : List Name}
    (hs : d.step (.setProperty p os) = .ok (d', r)) :
    d'.objs = d.objs ++ uniq (os.filter (fun x => !d.objs.contains x)) ∧
    d'.props = d.props ++ (if p ∈ d.props then [] else [p]) ∧ r = [] := by
  cases hs
  exact ⟨uIor_eq _ _, C13_append_order_uAdd _ _, rfl⟩

theorem C13_append_order_setItem {d d' : Defn} {o p : Name} {v : Bool} {r : List Name}
    (hs : d.step (.setItem o p v) = .ok (d', r)) :
    d'.objs = d.objs ++ (if o ∈ d.objs then [] else [o]) ∧
    d'.props = d.props ++ (if p ∈ d.props then [] else [p]) ∧ r = [] := by
  cases hs
  exact ⟨C13_append_order_uAdd _ _, C13_append_order_uAdd _ _, rfl⟩

theorem C13_append_order_unionUpdate {d d' other : Defn} {ig : Bool} {r : List Name}
    (hs : d.step (.unionUpdate other ig) = .ok (d', r)) :
    d'.objs = d.objs ++ uniq (other.objs.filter (fun x => !d.objs.contains x)) ∧
    d'.props = d.props ++ uniq (other.props.filter (fun x => !d.props.contains x)) ∧ r = [] := by
  obtain ⟨rfl, rfl⟩ := step_unionUpdate_ok hs
  exact ⟨uIor_eq _ _, uIor_eq _ _, rfl⟩

/-- the cells after `add_object` / `set_object` -/
theorem C13_addObject_cells {d d' : Defn} {o : Name} {ps r : List Name}
    (hs : d.step (.addObject o ps) = .ok (d', r)) (a b : Name) :
    (a, b) ∈ d'.pairs ↔ (a, b) ∈ d.pairs ∨ (a = o ∧ b ∈ ps) := by
  cases hs; exact mem_foldl_pAdd_row

theorem C13_addProperty_cells {d d' : Defn} {p : Name} {os r : List Name}
    (hs : d.step (.addProperty p os) = .ok (d', r)) (a b : Name) :
    (a, b) ∈ d'.pairs ↔ (a, b) ∈ d.pairs ∨ (b = p ∧ a ∈ os) := by
  cases hs; exact mem_foldl_pAdd_col

/-- `set_object`: the row of `o` becomes exactly `ps`, all other rows are unchanged -/
theorem C13_setObject_cells {d d' : Defn} {o : Name} {ps r : List Name} (h : d.Inv)
    (hs : d.step (.setObject o ps) = .ok (d', r)) (a b : Name) :
    (a, b) ∈ d'.pairs ↔ if a = o then b ∈ ps else (a, b) ∈ d.pairs := by
  cases hs
  simp only [mem_foldl_setRow, mem_uIor]
  by_cases ha : a = o
  · subst ha
    simp only [true_and, if_true]
    split
    · rfl
    · rename_i hb
      constructor
      · intro hab; exact absurd (Or.inl (h.2.2.2 a b hab).2) hb
      · intro hb'; exact absurd (Or.inr hb') hb
  · simp [ha]

theorem C13_setProperty_cells {d d' : Defn} {p : Name} {os r : List Name} (h : d.Inv)
    (hs : d.step (.setProperty p os) = .ok (d', r)) (a b : Name) :
    (a, b) ∈ d'.pairs ↔ if b = p then a ∈ os else (a, b) ∈ d.pairs := by
  cases hs
  simp only [mem_foldl_setCol, mem_uIor]
  by_cases hb : b = p
  · subst hb
    simp only [true_and, if_true]
    split
    · rfl
    · rename_i ha
      constructor
      · intro hab; exact absurd (Or.inl (h.2.2.2 a b hab).1) ha
      · intro ha'; exact absurd (Or.inr ha') ha
  · simp [hb]

/-! ### cell assignment -/

/-- `d[o, p] = v`: the cell reads `v` afterwards, every other cell is unchanged (as a set of true
cells, and as read through `d[o', p']` for the old names) -/
theorem C13_setitem_cells {d d' : Defn} {o p : Name} {v : Bool} {r : List Name}
    (hs : d.step (.setItem o p v) = .ok (d', r)) :
    d'.getItem o p = .ok v ∧ r = [] ∧
    (∀ o' p', (o', p') ≠ (o, p) → ((o', p') ∈ d'.pairs ↔ (o', p') ∈ d.pairs)) ∧
    (∀ o' p', o' ∈ d.objs → p' ∈ d.props → (o', p') ≠ (o, p) → d'.getItem o' p' = d.getItem o' p') := by
  cases hs
  have hcells : ∀ o' p', (o', p') ≠ (o, p) →
      ((o', p') ∈ (if v then pAdd d.pairs (o, p) else pDiscard d.pairs (o, p)) ↔ (o', p') ∈ d.pairs) := by
    intro o' p' hne
    cases v
    · simp [hne]
    · simp [hne]
  refine ⟨?_, rfl, hcells, ?_⟩
  · cases v <;> simp [Defn.getItem]
  · intro o' p' ho' hp' hne
    have := hcells o' p' hne
    simp only [Defn.getItem, List.contains_eq_mem, mem_uAdd, ho', hp', true_or, decide_true,
      Bool.and_self, if_true, this]

example : ∃ d' r, exD.step (.setItem "o1" "p2" true) = .ok (d', r) ∧
    d'.getItem "o1" "p2" = .ok true ∧ d'.getItem "o1" "p1" = .ok true :=
  ⟨_, _, rfl, by decide, by decide⟩

/-! ### moving a name -/

/-- `move_object`: exact semantics of `Unique.move` on the object list: the name
must be known; if it already sits at index `i` nothing changes, otherwise it is taken out and
inserted at the clamped index `i` of the remaining names; properties and cells are untouched -/
theorem C13_moveObject {d d' : Defn} {o : Name} {i : Int} {r : List Name} (h : d.Inv)
    (hs : d.step (.moveObject o i) = .ok (d', r)) :
    o ∈ d.objs ∧ d'.props = d.props ∧ d'.pairs = d.pairs ∧ r = [] ∧ d'.objs.Perm d.objs ∧
    d'.objs.filter (· != o) = d.objs.filter (· != o) ∧
    ((d'.objs = d.objs ∧ ∃ idx : Nat, d.objs[idx]? = some o ∧ (idx : Int) = i) ∨
     (d'.objs = (d.objs.filter (· != o)).take (clampIdx (d.objs.length - 1) i) ++
            o :: (d.objs.filter (· != o)).drop (clampIdx (d.objs.length - 1) i) ∧
      ∀ idx : Nat, d.objs[idx]? = some o → (idx : Int) ≠ i)) := by
  obtain ⟨h1, h2, h3, h4, h5⟩ := step_moveObject_ok hs
  simp only [Defn.step, bind, Except.bind] at hs
  cases hu : uMove d.objs o i with
  | error e => rw [hu] at hs; cases hs
  | ok l =>
    rw [hu] at hs
    cases hs
    exact ⟨h2, h3, h4, rfl, h1, uMove_filter hu, (uMove_spec h.1 hu).2⟩

theorem C13_moveProperty {d d' : Defn} {p : Name} {i : Int} {r : List Name} (h : d.Inv)
    (hs : d.step (.moveProperty p i) = .ok (d', r)) :
    p ∈ d.props ∧ d'.objs = d.objs ∧ d'.pairs = d.pairs ∧ r = [] ∧ d'.props.Perm d.props ∧
    d'.props.filter (· != p) = d.props.filter (· != p) ∧
    ((d'.props = d.props ∧ ∃ idx : Nat, d.props[idx]? = some p ∧ (idx : Int) = i) ∨
     (d'.props = (d.props.filter (· != p)).take (clampIdx (d.props.length - 1) i) ++
            p :: (d.props.filter (· != p)).drop (clampIdx (d.props.length - 1) i) ∧
      ∀ idx : Nat, d.props[idx]? = some p → (idx : Int) ≠ i)) := by
  obtain ⟨h1, h2, h3, h4, h5⟩ := step_moveProperty_ok hs
  simp only [Defn.step, bind, Except.bind] at hs
  cases hu : uMove d.props p i with
  | error e => rw [hu] at hs; cases hs
  | ok l =>
    rw [hu] at hs
    cases hs
    exact ⟨h2, h3, h4, rfl, h1, uMove_filter hu, (uMove_spec h.2.1 hu).2⟩

/-- Python's clamping: negative indexes count from the end of the remaining list -/
theorem C13_clampIdx (len : Nat) (i : Int) :
    clampIdx len i ≤ len ∧ (clampIdx len i : Int) = if i < 0 then max 0 (i + len) else min i len :=
  ⟨clampIdx_le len i, clampIdx_spec len i⟩

example : ∃ d' r, (⟨["a", "b", "c", "d"], [], []⟩ : Defn).step (.moveObject "a" (-1)) = .ok (d', r) ∧
    d'.objs = ["b", "c", "a", "d"] := ⟨_, _, rfl, by decide⟩
example : ∃ d' r, (⟨["a", "b", "c", "d"], [], []⟩ : Defn).step (.moveObject "d" 99) = .ok (d', r) ∧
    d'.objs = ["a", "b", "c", "d"] := ⟨_, _, rfl, by decide⟩

/-! ### rejected calls -/

/-- the calls the model rejects: unknown or clashing name, conflicting cells -/
def Op.rejectedBy (d : Defn) : Op → Prop
  | .renameObject old new => new ∈ d.objs ∨ old ∉ d.objs
  | .renameProperty old new => new ∈ d.props ∨ old ∉ d.props
  | .moveObject o _ => o ∉ d.objs
  | .moveProperty p _ => p ∉ d.props
  | .removeObject o => o ∉ d.objs
  | .removeProperty p => p ∉ d.props
  | .unionUpdate other ig => ig = false ∧ Conflict d other
  | .intersectionUpdate other ig => ig = false ∧ Conflict d other
  | _ => False

theorem C13_reject_iff (d : Defn) (op : Op) : (∃ e, d.step op = .error e) ↔ op.rejectedBy d := by
  cases op with
  | setItem o p v => simp [Defn.step, Op.rejectedBy]
  | renameObject old new =>
    simp only [Op.rejectedBy, ← uReplace_error_iff, Defn.step, bind, Except.bind]
    cases uReplace d.objs old new <;> simp
  | renameProperty old new =>
    simp only [Op.rejectedBy, ← uReplace_error_iff, Defn.step, bind, Except.bind]
    cases uReplace d.props old new <;> simp
  | moveObject o i =>
    simp only [Op.rejectedBy, ← uMove_error_iff (i := i), Defn.step, bind, Except.bind]
    cases uMove d.objs o i <;> simp
  | moveProperty p i =>
    simp only [Op.rejectedBy, ← uMove_error_iff (i := i), Defn.step, bind, Except.bind]
    cases uMove d.props p i <;> simp
  | addObject o ps => simp [Defn.step, Op.rejectedBy]
  | addProperty p os => simp [Defn.step, Op.rejectedBy]
  | removeObject o =>
    by_cases h : o ∈ d.objs <;> simp [Defn.step, Op.rejectedBy, h]
  | removeProperty p =>
    by_cases h : p ∈ d.props <;> simp [Defn.step, Op.rejectedBy, h]
  | removeEmptyObjects => simp [Defn.step, Op.rejectedBy]
  | removeEmptyProperties => simp [Defn.step, Op.rejectedBy]
  | setObject o ps => simp [Defn.step, Op.rejectedBy]
  | setProperty p os => simp [Defn.step, Op.rejectedBy]
  | unionUpdate other ig =>
    simp only [Op.rejectedBy, Defn.step, ← guard_iff]
    split <;> simp_all
  | intersectionUpdate other ig =>
    simp only [Op.rejectedBy, Defn.step, ← guard_iff]
    split <;> simp_all

/-- the exception classes: `KeyError` for removing an unknown name, `ValueError` otherwise -/
def Op.errClass : Op → Err
  | .removeObject _ => .keyError
  | .removeProperty _ => .keyError
  | _ => .valueError

theorem uReplace_error_class {l : List Name} {old new : Name} {e : Err}
    (h : uReplace l old new = .error e) : e = .valueError := by
  unfold uReplace at h
  split at h
  · cases h; rfl
  · split at h
    · cases h
    · cases h; rfl

theorem uMove_error_class {l : List Name} {x : Name} {i : Int} {e : Err}
    (h : uMove l x i = .error e) : e = .valueError := by
  unfold uMove at h
  split at h
  · cases h; rfl
  · split at h <;> cases h

theorem C13_reject_class {d : Defn} {op : Op} {e : Err} (h : d.step op = .error e) :
    e = op.errClass := by
  cases op with
  | setItem o p v => cases h
  | renameObject old new =>
    simp only [Defn.step, bind, Except.bind] at h
    cases hu : uReplace d.objs old new with
    | error e' => rw [hu] at h; cases h; exact uReplace_error_class hu
    | ok l => rw [hu] at h; cases h
  | renameProperty old new =>
    simp only [Defn.step, bind, Except.bind] at h
    cases hu : uReplace d.props old new with
    | error e' => rw [hu] at h; cases h; exact uReplace_error_class hu
    | ok l => rw [hu] at h; cases h
  | moveObject o i =>
    simp only [Defn.step, bind, Except.bind] at h
    cases hu : uMove d.objs o i with
    | error e' => rw [hu] at h; cases h; exact uMove_error_class hu
    | ok l => rw [hu] at h; cases h
  | moveProperty p i =>
    simp only [Defn.step, bind, Except.bind] at h
    cases hu : uMove d.props p i with
    | error e' => rw [hu] at h; cases h; exact uMove_error_class hu
    | ok l => rw [hu] at h; cases h
  | addObject o ps => cases h
  | addProperty p os => cases h
  | removeObject o => simp only [Defn.step] at h; split at h <;> cases h; rfl
  | removeProperty p => simp only [Defn.step] at h; split at h <;> cases h; rfl
  | removeEmptyObjects => cases h
  | removeEmptyProperties => cases h
  | setObject o ps => cases h
  | setProperty p os => cases h
  | unionUpdate other ig => simp only [Defn.step] at h; split at h <;> cases h; rfl
  | intersectionUpdate other ig => simp only [Defn.step] at h; split at h <;> cases h; rfl

/-- a rejected call carries no state: the history continues from the unchanged definition, and
the trace records the exception -/
theorem C13_reject_atomic {d : Defn} {op : Op} {e : Err} (ops : List Op) (h : d.step op = .error e) :
    d.runHistory (op :: ops) = d.runHistory ops ∧
    d.runTrace (op :: ops) = ((d.runTrace ops).1, .error e :: (d.runTrace ops).2) ∧
    ∀ x : Defn × List Name, d.step op ≠ .ok x := by
  refine ⟨?_, ?_, ?_⟩
  · simp [Defn.runHistory, h]
  · simp [Defn.runTrace, h]
  · intro x hx; rw [h] at hx; cases hx

example : exD.step (.unionUpdate exF false) = .error .valueError := by decide
example : exD.step (.renameObject "o1" "o2") = .error .valueError := by decide
example : exD.step (.removeProperty "nope") = .error .keyError := by decide

/-- the final state of the trace is the final state of the history, one entry per call -/
theorem C13_trace_history (d : Defn) (ops : List Op) :
    (d.runTrace ops).1 = d.runHistory ops ∧ (d.runTrace ops).2.length = ops.length := by
  induction ops generalizing d with
  | nil => simp [Defn.runTrace, Defn.runHistory]
  | cons op ops ih =>
    unfold Defn.runTrace Defn.runHistory
    cases hs : d.step op with
    | error e => simp [ih d]
    | ok x => obtain ⟨d', r⟩ := x; simp [ih d']

/-- return values: only `remove_empty_*` return something (all other mutators return `None`) -/
def Op.returnsNames : Op → Bool
  | .removeEmptyObjects => true
  | .removeEmptyProperties => true
  | _ => false

theorem C13_return_none {d d' : Defn} {op : Op} {r : List Name} (hs : d.step op = .ok (d', r))
    (h : op.returnsNames = false) : r = [] := by
  cases op with
  | setItem o p v => cases hs; rfl
  | renameObject old new => exact (step_renameObject_ok hs).2.2.1
  | renameProperty old new => exact (step_renameProperty_ok hs).2.2.1
  | moveObject o i => exact (step_moveObject_ok hs).2.2.2.2
  | moveProperty p i => exact (step_moveProperty_ok hs).2.2.2.2
  | addObject o ps => cases hs; rfl
  | addProperty p os => cases hs; rfl
  | removeObject o => exact (step_removeObject_ok hs).2.1
  | removeProperty p => exact (step_removeProperty_ok hs).2.1
  | removeEmptyObjects => cases h
  | removeEmptyProperties => cases h
  | setObject o ps => cases hs; rfl
  | setProperty p os => cases hs; rfl
  | unionUpdate other ig => exact (step_unionUpdate_ok hs).1
  | intersectionUpdate other ig => exact (step_intersectionUpdate_ok hs).1

/-- `remove_empty_objects` returns exactly the listed names without a true cell, in table order,
removes exactly those and keeps the order of the others and all cells -/
theorem C13_removeEmptyObjects {d d' : Defn} {r : List Name}
    (hs : d.step .removeEmptyObjects = .ok (d', r)) :
    r.Sublist d.objs ∧ (∀ o, o ∈ r ↔ o ∈ d.objs ∧ ∀ p, (o, p) ∉ d.pairs) ∧
    d'.objs = d.objs.filter (fun o => !r.contains o) ∧
    (∀ o, o ∈ d'.objs ↔ o ∈ d.objs ∧ ∃ p, (o, p) ∈ d.pairs) ∧
    d'.props = d.props ∧ d'.pairs = d.pairs := by
  cases hs
  have hr : ∀ o, o ∈ (d.objs.filter fun o => !(d.pairs.any fun (o', _) => o' == o)) ↔
      o ∈ d.objs ∧ ∀ p, (o, p) ∉ d.pairs := by
    intro o
    simp only [List.mem_filter, Bool.not_eq_true', List.any_eq_false, Prod.forall, beq_iff_eq]
    constructor
    · rintro ⟨h1, h2⟩; exact ⟨h1, fun p hp => h2 o p hp rfl⟩
    · rintro ⟨h1, h2⟩; exact ⟨h1, fun a b hab e => h2 b (e ▸ hab)⟩
  refine ⟨List.filter_sublist, hr, rfl, ?_, rfl, rfl⟩
  intro o
  simp only [List.mem_filter, List.contains_eq_mem, Bool.not_eq_true', decide_eq_false_iff_not, hr]
  constructor
  · rintro ⟨h1, h2⟩
    refine ⟨h1, ?_⟩
    by_contra hne
    push Not at hne
    exact h2 ⟨h1, hne⟩
  · rintro ⟨h1, p, hp⟩
    exact ⟨h1, fun h => h.2 p hp⟩

theorem C13_removeEmptyProperties {d d' : Defn} {r : List Name}
    (hs : d.step .removeEmptyProperties = .ok (d', r)) :
    r.Sublist d.props ∧ (∀ p, p ∈ r ↔ p ∈ d.props ∧ ∀ o, (o, p) ∉ d.pairs) ∧
    d'.props = d.props.filter (fun p => !r.contains p) ∧
    (∀ p, p ∈ d'.props ↔ p ∈ d.props ∧ ∃ o, (o, p) ∈ d.pairs) ∧
    d'.objs = d.objs ∧ d'.pairs = d.pairs := by
  cases hs
  have hr : ∀ p, p ∈ (d.props.filter fun p => !(d.pairs.any fun (_, p') => p' == p)) ↔
      p ∈ d.props ∧ ∀ o, (o, p) ∉ d.pairs := by
    intro p
    simp only [List.mem_filter, Bool.not_eq_true', List.any_eq_false, Prod.forall, beq_iff_eq]
    constructor
    · rintro ⟨h1, h2⟩; exact ⟨h1, fun o ho => h2 o p ho rfl⟩
    · rintro ⟨h1, h2⟩; exact ⟨h1, fun a b hab e => h2 a (e ▸ hab)⟩
  refine ⟨List.filter_sublist, hr, rfl, ?_, rfl, rfl⟩
  intro p
  simp only [List.mem_filter, List.contains_eq_mem, Bool.not_eq_true', decide_eq_false_iff_not, hr]
  constructor
  · rintro ⟨h1, h2⟩
    refine ⟨h1, ?_⟩
    by_contra hne
    push Not at hne
    exact h2 ⟨h1, hne⟩
  · rintro ⟨h1, o, ho⟩
    exact ⟨h1, fun h => h.2 o ho⟩

example : ∃ d' r, (⟨["o1", "o2", "o3"], ["p1"], [("o2", "p1")]⟩ : Defn).step .removeEmptyObjects
    = .ok (d', r) ∧ r = ["o1", "o3"] ∧ d'.objs = ["o2"] := ⟨_, _, rfl, by decide, by decide⟩

/-! ### the cell list is a set -/

/-- the same definition with its cell set enumerated differently (other order, repeats) -/
def exD' : Defn := ⟨["o1", "o2"], ["p1", "p2"], [("o2", "p2"), ("o1", "p1"), ("o2", "p2")]⟩

theorem exD_sameSet : exD.SameSet exD' := by
  refine ⟨rfl, rfl, ?_⟩
  intro x
  simp only [exD, exD', List.mem_cons, List.not_mem_nil, or_false]
  tauto

/-- every observable of a definition depends only on *membership* in `pairs`, not on the order or
multiplicity of that list (a Python `set`): the table, cell reads, the comparison with a fresh
definition, order-insensitive equality, the conflict list against any other definition, and for
every mutator call (also with a re-enumerated operand): both calls fail with the same exception
class or both succeed with the same names, the same return value and the same set of cells -/
theorem C13_pairs_as_set (d d' : Defn) (ho : d.objs = d'.objs) (hp : d.props = d'.props)
    (hm : ∀ x, x ∈ d.pairs ↔ x ∈ d'.pairs) :
    d.bools = d'.bools ∧ (∀ o p, d.getItem o p = d'.getItem o p) ∧ d.freshEq = d'.freshEq ∧
    (∀ e, d.eqv e = d'.eqv e ∧ e.eqv d = e.eqv d') ∧
    (∀ e, d.conflictList e = d'.conflictList e ∧ e.conflictList d = e.conflictList d') ∧
    (∀ op op', op.SameSet op' →
      match d.step op, d'.step op' with
      | .ok (x, r), .ok (x', r') =>
          x.objs = x'.objs ∧ x.props = x'.props ∧ r = r' ∧ ∀ y, y ∈ x.pairs ↔ y ∈ x'.pairs
      | .error e, .error e' => e = e'
      | _, _ => False) := by
  have h : d.SameSet d' := ⟨ho, hp, hm⟩
  refine ⟨bools_congr h, getItem_congr h, ?_, ?_, ?_, ?_⟩
  · rw [Bool.eq_iff_iff, C13_freshEq_iff, C13_freshEq_iff, ho, hp]
    simp only [hm]
  · exact fun e => ⟨eqv_congr h (.refl e), eqv_congr (.refl e) h⟩
  · exact fun e => ⟨conflicts_congr h (.refl e), conflicts_congr (.refl e) h⟩
  · intro op op' hop
    have := step_sameSet h hop
    rcases h1 : d.step op with e | ⟨x, r⟩ <;> rcases h2 : d'.step op' with e' | ⟨x', r'⟩ <;>
      rw [h1, h2] at this <;> simp only [ResSameSet] at this ⊢
    · exact this
    · exact ⟨this.1.1, this.1.2.1, this.2, this.1.2.2⟩

example : exD.objs = exD'.objs ∧ exD.props = exD'.props ∧ (∀ x, x ∈ exD.pairs ↔ x ∈ exD'.pairs) ∧
    exD.pairs ≠ exD'.pairs := ⟨rfl, rfl, exD_sameSet.2.2, by decide⟩

/-- … and so does every edit history: same final names, same set of cells, same table, and the same
sequence of return values / exception classes -/
theorem C13_pairs_as_set_history (d d' : Defn) (ops ops' : List Op) (ho : d.objs = d'.objs)
    (hp : d.props = d'.props) (hm : ∀ x, x ∈ d.pairs ↔ x ∈ d'.pairs)
    (hops : List.Forall₂ Op.SameSet ops ops') :
    (d.runHistory ops).objs = (d'.runHistory ops').objs ∧
    (d.runHistory ops).props = (d'.runHistory ops').props ∧
    (∀ x, x ∈ (d.runHistory ops).pairs ↔ x ∈ (d'.runHistory ops').pairs) ∧
    (d.runHistory ops).bools = (d'.runHistory ops').bools ∧
    (d.runTrace ops).2 = (d'.runTrace ops').2 := by
  obtain ⟨h1, h2⟩ := runTrace_sameSet (d := d) (d' := d') ⟨ho, hp, hm⟩ hops
  rw [(C13_trace_history d ops).1, (C13_trace_history d' ops').1] at h1
  exact ⟨h1.1, h1.2.1, h1.2.2, bools_congr h1, h2⟩

/-- the deriving operations: `inverted` and `take` do not see the enumeration at all, `transposed`
maps it to another enumeration of the transposed set -/
theorem C13_pairs_as_set_derived (d d' : Defn) (ho : d.objs = d'.objs) (hp : d.props = d'.props)
    (hm : ∀ x, x ∈ d.pairs ↔ x ∈ d'.pairs) :
    d.inverted = d'.inverted ∧ (∀ a b r, d.take a b r = d'.take a b r) ∧
    d.transposed.objs = d'.transposed.objs ∧ d.transposed.props = d'.transposed.props ∧
    (∀ x, x ∈ d.transposed.pairs ↔ x ∈ d'.transposed.pairs) ∧
    d.transposed.bools = d'.transposed.bools :=
  have h : d.SameSet d' := ⟨ho, hp, hm⟩
  ⟨inverted_congr h, take_congr h, (transposed_sameSet h).1, (transposed_sameSet h).2.1,
    (transposed_sameSet h).2.2, bools_congr (transposed_sameSet h)⟩

/-! ### rename keeps the position, remove keeps the rest -/

/-- `rename_object`: the new name sits at the index of the old one, all other names stay where they
are, properties are untouched; cells of other objects are unchanged and the row of the new name is the
row of the old one — under the invariant the whole table is unchanged -/
theorem C13_rename_keeps_position {d d' : Defn} {old new : Name} {r : List Name} (h : d.Inv)
    (hs : d.step (.renameObject old new) = .ok (d', r)) :
    d'.objs.length = d.objs.length ∧
    (∀ i : Nat, d'.objs[i]? = (d.objs[i]?).map fun x => if x = old then new else x) ∧
    d'.objs.idxOf new = d.objs.idxOf old ∧
    d'.props = d.props ∧
    (∀ a b, a ≠ old → a ≠ new → ((a, b) ∈ d'.pairs ↔ (a, b) ∈ d.pairs)) ∧
    (∀ b, (new, b) ∈ d'.pairs ↔ (old, b) ∈ d.pairs) ∧
    (∀ a b, a ∈ d.objs → a ≠ old → d'.getItem a b = d.getItem a b) ∧
    (∀ b, d'.getItem new b = d.getItem old b) ∧
    d'.bools = d.bools := by
  obtain ⟨hn, ho, _, rfl⟩ := step_renameObject_ok hs
  have hne : new ≠ old := fun e => hn (e ▸ ho)
  have hnocell : ∀ b, (new, b) ∉ d.pairs := fun b hb => hn (h.2.2.2 _ _ hb).1
  have hother : ∀ a b, a ≠ old → a ≠ new →
      ((a, b) ∈ (d.pairs.map fun (o, p) => if o == old then (new, p) else (o, p)) ↔ (a, b) ∈ d.pairs) := by
    intro a b h1 h2
    rw [mem_renameObj]; tauto
  have hnew : ∀ b, (new, b) ∈ (d.pairs.map fun (o, p) => if o == old then (new, p) else (o, p)) ↔
      (old, b) ∈ d.pairs := by
    intro b
    rw [mem_renameObj]
    have := hnocell b
    tauto
  refine ⟨by simp, ?_, ?_, rfl, hother, hnew, ?_, ?_, ?_⟩
  · intro i
    simp only [List.getElem?_map, beq_iff_eq]
  · exact idxOf_replace hn ho
  · intro a b ha hao
    have han : a ≠ new := fun e => hn (e ▸ ha)
    have hm : a ∈ (d.objs.map fun x => if x == old then new else x) := by
      rw [mem_replace]; exact Or.inl ⟨ha, hao⟩
    simp only [Defn.getItem, List.contains_eq_mem, hm, ha, hother a b hao han]
  · intro b
    have hm : new ∈ (d.objs.map fun x => if x == old then new else x) := by
      rw [mem_replace]; exact Or.inr ⟨rfl, ho⟩
    simp only [Defn.getItem, List.contains_eq_mem, hm, ho, hnew b]
  · simp only [Defn.bools, List.map_map]
    apply List.map_congr_left
    intro a ha
    apply List.map_congr_left
    intro b _
    rw [Bool.eq_iff_iff, List.contains_iff_mem, List.contains_iff_mem]
    beta_reduce
    by_cases hao : a = old
    · subst hao
      have e : (if (a == a) = true then new else a) = new := by simp
      rw [e]; exact hnew b
    · have han : a ≠ new := fun e => hn (e ▸ ha)
      have e : (if (a == old) = true then new else a) = a := by simp [hao]
      rw [e]; exact hother a b hao han

example : exD.Inv ∧ ∃ d' r, exD.step (.renameObject "o1" "o9") = .ok (d', r) ∧
    d'.objs = ["o9", "o2"] ∧ d'.bools = exD.bools := ⟨exD_inv, _, _, rfl, by decide, by decide⟩

/-- `rename_property`: the column twin -/
theorem C13_rename_keeps_position_property {d d' : Defn} {old new : Name} {r : List Name} (h : d.Inv)
    (hs : d.step (.renameProperty old new) = .ok (d', r)) :
    d'.props.length = d.props.length ∧
    (∀ i : Nat, d'.props[i]? = (d.props[i]?).map fun x => if x = old then new else x) ∧
    d'.props.idxOf new = d.props.idxOf old ∧
    d'.objs = d.objs ∧
    (∀ a b, b ≠ old → b ≠ new → ((a, b) ∈ d'.pairs ↔ (a, b) ∈ d.pairs)) ∧
    (∀ a, (a, new) ∈ d'.pairs ↔ (a, old) ∈ d.pairs) ∧
    (∀ a b, b ∈ d.props → b ≠ old → d'.getItem a b = d.getItem a b) ∧
    (∀ a, d'.getItem a new = d.getItem a old) ∧
    d'.bools = d.bools := by
  obtain ⟨hn, ho, _, rfl⟩ := step_renameProperty_ok hs
  have hne : new ≠ old := fun e => hn (e ▸ ho)
  have hnocell : ∀ a, (a, new) ∉ d.pairs := fun a ha => hn (h.2.2.2 _ _ ha).2
  have hother : ∀ a b, b ≠ old → b ≠ new →
      ((a, b) ∈ (d.pairs.map fun (o, p) => if p == old then (o, new) else (o, p)) ↔ (a, b) ∈ d.pairs) := by
    intro a b h1 h2
    rw [mem_renameProp]; tauto
  have hnew : ∀ a, (a, new) ∈ (d.pairs.map fun (o, p) => if p == old then (o, new) else (o, p)) ↔
      (a, old) ∈ d.pairs := by
    intro a
    rw [mem_renameProp]
    have := hnocell a
    tauto
  refine ⟨by simp, ?_, idxOf_replace hn ho, rfl, hother, hnew, ?_, ?_, ?_⟩
  · intro i
    simp only [List.getElem?_map, beq_iff_eq]
  · intro a b hb hbo
    have hbn : b ≠ new := fun e => hn (e ▸ hb)
    have hm : b ∈ (d.props.map fun x => if x == old then new else x) := by
      rw [mem_replace]; exact Or.inl ⟨hb, hbo⟩
    simp only [Defn.getItem, List.contains_eq_mem, hm, hb, hother a b hbo hbn]
  · intro a
    have hm : new ∈ (d.props.map fun x => if x == old then new else x) := by
      rw [mem_replace]; exact Or.inr ⟨rfl, ho⟩
    simp only [Defn.getItem, List.contains_eq_mem, hm, ho, hnew a]
  · simp only [Defn.bools, List.map_map]
    apply List.map_congr_left
    intro a _
    apply List.map_congr_left
    intro b hb
    rw [Function.comp, Bool.eq_iff_iff, List.contains_iff_mem, List.contains_iff_mem]
    by_cases hbo : b = old
    · subst hbo
      have e : (if (b == b) = true then new else b) = new := by simp
      rw [e]; exact hnew a
    · have hbn : b ≠ new := fun e => hn (e ▸ hb)
      have e : (if (b == old) = true then new else b) = b := by simp [hbo]
      rw [e]; exact hother a b hbo hbn

example : exD.Inv ∧ ∃ d' r, exD.step (.renameProperty "p1" "p9") = .ok (d', r) ∧
    d'.props = ["p9", "p2"] ∧ d'.bools = exD.bools := ⟨exD_inv, _, _, rfl, by decide, by decide⟩

/-- `remove_object`: the other objects keep their order, the properties are untouched, every cell
of another object is unchanged; the table loses exactly the row of the removed object -/
theorem C13_remove_other_rows {d d' : Defn} {o : Name} {r : List Name} (h : d.Inv)
    (hs : d.step (.removeObject o) = .ok (d', r)) :
    d'.objs = d.objs.filter (· != o) ∧ d'.props = d.props ∧
    (∀ a b, (a, b) ∈ d'.pairs ↔ (a, b) ∈ d.pairs ∧ a ≠ o) ∧
    (∀ a b, a ≠ o → d'.getItem a b = d.getItem a b) ∧
    d'.bools = ((d.objs.zip d.bools).filter fun x => x.1 != o).map (·.2) ∧
    d'.bools = d.bools.eraseIdx (d.objs.idxOf o) := by
  obtain ⟨ho, _, rfl⟩ := step_removeObject_ok hs
  have hc : ∀ a b, (a, b) ∈ (d.pairs.filter fun (o', p) => !(o' == o && d.props.contains p)) ↔
      (a, b) ∈ d.pairs ∧ a ≠ o := by
    intro a b
    rw [mem_removeObj]
    constructor
    · rintro ⟨h1, h2⟩; exact ⟨h1, fun e => h2 ⟨e, (h.2.2.2 _ _ h1).2⟩⟩
    · rintro ⟨h1, h2⟩; exact ⟨h1, fun e => h2 e.1⟩
  have hb : Defn.bools ⟨d.objs.filter (· != o), d.props,
        d.pairs.filter fun (o', p) => !(o' == o && d.props.contains p)⟩ =
      ((d.objs.zip d.bools).filter fun x => x.1 != o).map (·.2) := by
    simp only [Defn.bools, zip_map_self, List.filter_map, List.map_map]
    have e1 : ((fun x : Name × List Bool => x.1 != o) ∘ fun x => (x, d.props.map fun p => d.pairs.contains (x, p)))
        = fun x => x != o := rfl
    rw [e1]
    apply List.map_congr_left
    intro a ha
    simp only [Function.comp]
    apply List.map_congr_left
    intro b _
    rw [Bool.eq_iff_iff, List.contains_iff_mem, List.contains_iff_mem, hc]
    have : a ≠ o := by simpa using (List.mem_filter.mp ha).2
    tauto
  refine ⟨rfl, rfl, hc, ?_, hb, ?_⟩
  · intro a b hao
    have e1 : (d.objs.filter (· != o)).contains a = d.objs.contains a := by
      rw [Bool.eq_iff_iff, List.contains_iff_mem, List.contains_iff_mem]; simp [hao]
    have e2 : (d.pairs.filter fun (o', p) => !(o' == o && d.props.contains p)).contains (a, b) =
        d.pairs.contains (a, b) := by
      rw [Bool.eq_iff_iff, List.contains_iff_mem, List.contains_iff_mem, hc]; tauto
    simp only [Defn.getItem, e1, e2]
  · rw [hb]
    exact zip_filter_eraseIdx h.1 (bools_length d).symm

example : exD.Inv ∧ ∃ d' r, exD.step (.removeObject "o1") = .ok (d', r) ∧
    d'.objs = ["o2"] ∧ d'.bools = [[false, true]] := ⟨exD_inv, _, _, rfl, by decide, by decide⟩

/-- `remove_property`: the column twin -/
theorem C13_remove_other_columns {d d' : Defn} {p : Name} {r : List Name} (h : d.Inv)
    (hs : d.step (.removeProperty p) = .ok (d', r)) :
    d'.props = d.props.filter (· != p) ∧ d'.objs = d.objs ∧
    (∀ a b, (a, b) ∈ d'.pairs ↔ (a, b) ∈ d.pairs ∧ b ≠ p) ∧
    (∀ a b, b ≠ p → d'.getItem a b = d.getItem a b) ∧
    d'.bools = (d.bools.map fun row => ((d.props.zip row).filter fun x => x.1 != p).map (·.2)) ∧
    d'.bools = d.bools.map fun row => row.eraseIdx (d.props.idxOf p) := by
  obtain ⟨hp, _, rfl⟩ := step_removeProperty_ok hs
  have hc : ∀ a b, (a, b) ∈ (d.pairs.filter fun (o, p') => !(p' == p && d.objs.contains o)) ↔
      (a, b) ∈ d.pairs ∧ b ≠ p := by
    intro a b
    rw [mem_removeProp]
    constructor
    · rintro ⟨h1, h2⟩; exact ⟨h1, fun e => h2 ⟨e, (h.2.2.2 _ _ h1).1⟩⟩
    · rintro ⟨h1, h2⟩; exact ⟨h1, fun e => h2 e.1⟩
  have hb : Defn.bools ⟨d.objs, d.props.filter (· != p),
        d.pairs.filter fun (o, p') => !(p' == p && d.objs.contains o)⟩ =
      (d.bools.map fun row => ((d.props.zip row).filter fun x => x.1 != p).map (·.2)) := by
    simp only [Defn.bools, List.map_map]
    apply List.map_congr_left
    intro a _
    simp only [Function.comp, zip_map_self, List.filter_map, List.map_map]
    have e1 : ((fun x : Name × Bool => x.1 != p) ∘ fun x => (x, d.pairs.contains (a, x)))
        = fun x => x != p := rfl
    rw [e1]
    apply List.map_congr_left
    intro b hb
    rw [Function.comp, Bool.eq_iff_iff, List.contains_iff_mem, List.contains_iff_mem, hc]
    have : b ≠ p := by simpa using (List.mem_filter.mp hb).2
    tauto
  refine ⟨rfl, rfl, hc, ?_, hb, ?_⟩
  · intro a b hbp
    have e1 : (d.props.filter (· != p)).contains b = d.props.contains b := by
      rw [Bool.eq_iff_iff, List.contains_iff_mem, List.contains_iff_mem]; simp [hbp]
    have e2 : (d.pairs.filter fun (o, p') => !(p' == p && d.objs.contains o)).contains (a, b) =
        d.pairs.contains (a, b) := by
      rw [Bool.eq_iff_iff, List.contains_iff_mem, List.contains_iff_mem, hc]; tauto
    simp only [Defn.getItem, e1, e2]
  · rw [hb]
    apply List.map_congr_left
    intro row hrow
    exact zip_filter_eraseIdx h.2.1 (bools_row_length d row hrow).symm

example : exD.Inv ∧ ∃ d' r, exD.step (.removeProperty "p1") = .ok (d', r) ∧
    d'.props = ["p2"] ∧ d'.bools = [[false], [true]] := ⟨exD_inv, _, _, rfl, by decide, by decide⟩

/-- adding a property that is not listed gives an all-false column -/
theorem C13_add_fresh_empty_col {d : Defn} {p : Name} (h : d.Inv) (hp : p ∉ d.props) :
    ∃ d', d.step (.addProperty p []) = .ok (d', []) ∧ d'.props = d.props ++ [p] ∧ d'.objs = d.objs ∧
      d'.bools = d.bools.map (· ++ [false]) := by
  refine ⟨_, rfl, ?_, ?_, ?_⟩
  · simp [uAdd, hp]
  · simp [uIor]
  · simp only [Defn.bools, uAdd_of_not_mem hp, uIor, List.foldl_nil, List.map_append, List.map_cons,
      List.map_nil, List.map_map]
    apply List.map_congr_left
    intro o _
    simp only [Function.comp]
    congr 2
    rw [← Bool.not_eq_true, List.contains_iff_mem]
    exact fun hc => hp (h.2.2.2 o p hc).2

/-- remove a property, add it again: its column is all false -/
theorem C13_readd_empty_col {d d1 d2 : Defn} {p : Name} {r1 r2 : List Name} (h : d.Inv)
    (hs1 : d.step (.removeProperty p) = .ok (d1, r1)) (hs2 : d1.step (.addProperty p []) = .ok (d2, r2)) :
    d2.props = d1.props ++ [p] ∧ d2.objs = d.objs ∧
    d2.bools = d1.bools.map (· ++ [false]) ∧
    ∀ o ∈ d2.objs, d2.getItem o p = .ok false := by
  have hi1 : d1.Inv := inv_step (op := .removeProperty p) h trivial hs1
  have hno := C13_no_residue_removeProperty h hs1
  obtain ⟨d', hd', e1, e2, e3⟩ := C13_add_fresh_empty_col hi1 hno.1
  rw [hd'] at hs2
  cases hs2
  have ho1 : d1.objs = d.objs := by
    obtain ⟨_, _, rfl⟩ := step_removeProperty_ok hs1; rfl
  refine ⟨e1, e2.trans ho1, e3, ?_⟩
  intro o ho
  have hcell : (o, p) ∉ d2.pairs := by
    have : d2.pairs = d1.pairs := by cases hd'; rfl
    rw [this]; exact hno.2 o
  simp only [Defn.getItem, e1, List.contains_eq_mem, List.mem_append, List.mem_singleton, or_true,
    decide_true, ho, Bool.and_self, if_true, hcell, decide_false]

example : ∃ d1 r1 d2 r2, exD.step (.removeProperty "p1") = .ok (d1, r1) ∧
    d1.step (.addProperty "p1" []) = .ok (d2, r2) ∧ d2.bools = [[false, false], [true, false]] :=
  ⟨_, _, _, _, rfl, rfl, by decide⟩

/-- ... also after an arbitrary history in between -/
theorem C13_readd_empty_col_history {d : Defn} {ops : List Op} {p : Name} (h : d.Inv)
    (hops : ∀ op ∈ ops, op.operandInv) (hp : p ∉ (d.runHistory ops).props) :
    ∃ d', (d.runHistory ops).step (.addProperty p []) = .ok (d', []) ∧
      d'.bools = (d.runHistory ops).bools.map (· ++ [false]) := by
  obtain ⟨d', h1, _, _, h2⟩ := C13_add_fresh_empty_col (C13_inv_history h hops) hp
  exact ⟨d', h1, h2⟩

example : exD.Inv ∧ (∀ op ∈ [Op.removeProperty "p1", Op.setItem "o1" "p2" true], op.operandInv) ∧
    "p1" ∉ (exD.runHistory [.removeProperty "p1", .setItem "o1" "p2" true]).props :=
  ⟨exD_inv, by simp [Op.operandInv], by decide⟩

end FCA

open FCA in
#print axioms C13_inv_ofTriple
open FCA in
#print axioms C13_inv_step
open FCA in
#print axioms C13_inv_history
open FCA in
#print axioms C13_inv_history_strict
open FCA in
#print axioms C13_bools_shape
open FCA in
#print axioms C13_freshEq_iff
open FCA in
#print axioms C13_fresh_eq
open FCA in
#print axioms C13_residue_visible
open FCA in
#print axioms C13_no_residue_remove
open FCA in
#print axioms C13_no_residue_removeProperty
open FCA in
#print axioms C13_no_residue_renameObject
open FCA in
#print axioms C13_no_residue_renameProperty
open FCA in
#print axioms C13_readd_empty_row
open FCA in
#print axioms C13_readd_empty_row_history
open FCA in
#print axioms C13_append_order
open FCA in
#print axioms C13_append_order_unionUpdate
open FCA in
#print axioms C13_setObject_cells
open FCA in
#print axioms C13_setitem_cells
open FCA in
#print axioms C13_moveObject
open FCA in
#print axioms C13_moveProperty
open FCA in
#print axioms C13_reject_iff
open FCA in
#print axioms C13_reject_class
open FCA in
#print axioms C13_reject_atomic
open FCA in
#print axioms C13_return_none
open FCA in
#print axioms C13_removeEmptyObjects
open FCA in
#print axioms C13_removeEmptyProperties
open FCA in
#print axioms C13_pairs_as_set
open FCA in
#print axioms C13_pairs_as_set_history
open FCA in
#print axioms C13_pairs_as_set_derived
open FCA in
#print axioms C13_rename_keeps_position
open FCA in
#print axioms C13_rename_keeps_position_property
open FCA in
#print axioms C13_remove_other_rows
open FCA in
#print axioms C13_remove_other_columns
open FCA in
#print axioms C13_add_fresh_empty_col
open FCA in
#print axioms C13_readd_empty_col
open FCA in
#print axioms C13_readd_empty_col_history
