#!/bin/sh
# development aid: sweep the seeded changes of the given properties, 4 shards, worktrees /tmp/mut/e1..e4 (correspondence only)
cd /verif
ls -d seeded/*/ | sed 's|seeded/||;s|/||' | grep -E "^($1)-" > .work/sweep8.list
for k in 1 2 3 4; do
  ( awk -v k=$k 'NR % 4 == k % 4' .work/sweep8.list | while read id; do
      P=${id%%-*}
      WT=/tmp/mut/e$k dev/try8.sh /verif/seeded/$id $P | sed "s|^|$id :: |"
    done > .work/sweep8.$k.log 2>&1 ) &
done
wait
cat .work/sweep8.[1-4].log > .work/sweep8.log
grep -c VIOLATION .work/sweep8.log; grep -v VIOLATION .work/sweep8.log
