import FCA.Proofs.DefnOps
/-
Helper lemmas for the deriving operations (`take`, `inverted`, `transposed`, `union`,
`intersection`) and `Context(*definition)`.
-/
namespace FCA

/-! ### tables generated row by row -/

theorem mem_genCells {obj prop : List Name} {g : Name → Name → Option Cell} {q : Cell} :
    q ∈ obj.flatMap (fun o => prop.filterMap (g o)) ↔ ∃ o ∈ obj, ∃ p ∈ prop, g o p = some q := by
  simp only [List.mem_flatMap, List.mem_filterMap]

theorem nodup_genCells {obj prop : List Name} {g : Name → Name → Option Cell}
    (hg : ∀ o p q, g o p = some q → q = (o, p)) (ho : obj.Nodup) (hp : prop.Nodup) :
    (obj.flatMap (fun o => prop.filterMap (g o))).Nodup := by
  rw [List.nodup_flatMap]
  constructor
  · intro o _
    apply List.Nodup.filterMap _ hp
    intro a a' b hb hb'
    have h1 := hg o a b (by simpa using hb)
    have h2 := hg o a' b (by simpa using hb')
    rw [h1] at h2
    exact (Prod.mk.inj h2).2
  · apply List.Pairwise.imp _ ho
    intro a b hab q hq1 hq2
    simp only [List.mem_filterMap] at hq1 hq2
    obtain ⟨p1, _, h1⟩ := hq1
    obtain ⟨p2, _, h2⟩ := hq2
    have e1 := hg a p1 q h1
    have e2 := hg b p2 q h2
    rw [e1] at e2
    exact hab (Prod.mk.inj e2).1

/-- the cells of `take` -/
theorem mem_subtable {d : Defn} {obj prop : List Name} {o p : Name} :
    (o, p) ∈ obj.flatMap (fun o => prop.filterMap fun p =>
        if d.pairs.contains (o, p) then some (o, p) else none) ↔
      o ∈ obj ∧ p ∈ prop ∧ (o, p) ∈ d.pairs := by
  rw [mem_genCells]
  constructor
  · rintro ⟨a, ha, b, hb, hif⟩
    split at hif
    · rename_i hc
      rw [List.contains_iff_mem] at hc
      simp only [Option.some.injEq, Prod.mk.injEq] at hif
      obtain ⟨rfl, rfl⟩ := hif
      exact ⟨ha, hb, hc⟩
    · cases hif
  · rintro ⟨ha, hb, hc⟩
    exact ⟨o, ha, p, hb, by rw [if_pos (List.contains_iff_mem.mpr hc)]⟩

theorem nodup_subtable {d : Defn} {obj prop : List Name} (ho : obj.Nodup) (hp : prop.Nodup) :
    (obj.flatMap (fun o => prop.filterMap fun p =>
        if d.pairs.contains (o, p) then some (o, p) else none)).Nodup := by
  apply nodup_genCells _ ho hp
  intro o p q h
  split at h
  · simp only [Option.some.injEq] at h; exact h.symm
  · cases h

/-- the cells of `inverted` -/
theorem mem_invtable {d : Defn} {obj prop : List Name} {o p : Name} :
    (o, p) ∈ obj.flatMap (fun o => prop.filterMap fun p =>
        if d.pairs.contains (o, p) then none else some (o, p)) ↔
      o ∈ obj ∧ p ∈ prop ∧ (o, p) ∉ d.pairs := by
  rw [mem_genCells]
  constructor
  · rintro ⟨a, ha, b, hb, hif⟩
    split at hif
    · cases hif
    · rename_i hc
      rw [List.contains_iff_mem] at hc
      simp only [Option.some.injEq, Prod.mk.injEq] at hif
      obtain ⟨rfl, rfl⟩ := hif
      exact ⟨ha, hb, hc⟩
  · rintro ⟨ha, hb, hc⟩
    refine ⟨o, ha, p, hb, ?_⟩
    rw [if_neg]
    rwa [List.contains_iff_mem]

theorem nodup_invtable {d : Defn} {obj prop : List Name} (ho : obj.Nodup) (hp : prop.Nodup) :
    (obj.flatMap (fun o => prop.filterMap fun p =>
        if d.pairs.contains (o, p) then none else some (o, p))).Nodup := by
  apply nodup_genCells _ ho hp
  intro o p q h
  split at h
  · cases h
  · simp only [Option.some.injEq] at h; exact h.symm

/-! ### order-insensitive equality -/

theorem eqv_iff {a b : Defn} :
    a.eqv b = true ↔ (∀ x, x ∈ a.objs ↔ x ∈ b.objs) ∧ (∀ x, x ∈ a.props ↔ x ∈ b.props) ∧
      (∀ q, q ∈ a.pairs ↔ q ∈ b.pairs) := by
  simp only [Defn.eqv, Bool.and_eq_true, List.all_eq_true, List.contains_iff_mem]
  constructor
  · rintro ⟨⟨⟨⟨⟨h1, h2⟩, h3⟩, h4⟩, h5⟩, h6⟩
    exact ⟨fun x => ⟨h1 x, h2 x⟩, fun x => ⟨h3 x, h4 x⟩, fun q => ⟨h5 q, h6 q⟩⟩
  · rintro ⟨h1, h2, h3⟩
    exact ⟨⟨⟨⟨⟨fun x => (h1 x).1, fun x => (h1 x).2⟩, fun x => (h2 x).1⟩, fun x => (h2 x).2⟩,
      fun q => (h3 q).1⟩, fun q => (h3 q).2⟩

/-! ### `union` / `intersection` as non-mutating versions of the in-place operations -/

theorem union_ok_iff {d e u : Defn} {ig : Bool} :
    d.union e ig = .ok u ↔ ∃ r, d.step (.unionUpdate e ig) = .ok (u, r) := by
  unfold Defn.union
  cases hs : d.step (.unionUpdate e ig) with
  | error err => simp [Except.map]
  | ok x => obtain ⟨u', r⟩ := x; simp [Except.map]

theorem union_error_iff {d e : Defn} {ig : Bool} {err : Err} :
    d.union e ig = .error err ↔ d.step (.unionUpdate e ig) = .error err := by
  unfold Defn.union
  cases hs : d.step (.unionUpdate e ig) with
  | error err => simp [Except.map]
  | ok x => simp [Except.map]

theorem intersection_ok_iff {d e u : Defn} {ig : Bool} :
    d.intersection e ig = .ok u ↔ ∃ r, d.step (.intersectionUpdate e ig) = .ok (u, r) := by
  unfold Defn.intersection
  cases hs : d.step (.intersectionUpdate e ig) with
  | error err => simp [Except.map]
  | ok x => obtain ⟨u', r⟩ := x; simp [Except.map]

theorem intersection_error_iff {d e : Defn} {ig : Bool} {err : Err} :
    d.intersection e ig = .error err ↔ d.step (.intersectionUpdate e ig) = .error err := by
  unfold Defn.intersection
  cases hs : d.step (.intersectionUpdate e ig) with
  | error err => simp [Except.map]
  | ok x => simp [Except.map]

/-- the in-place operations reject exactly on `¬ignore ∧ conflict`, with `ValueError` -/
theorem step_unionUpdate_error_iff {d e : Defn} {ig : Bool} {err : Err} :
    d.step (.unionUpdate e ig) = .error err ↔ err = .valueError ∧ ig = false ∧ Conflict d e := by
  simp only [Defn.step, ← guard_iff]
  split
  · rename_i h; simp [h, eq_comm]
  · rename_i h; simp [h]

theorem step_intersectionUpdate_error_iff {d e : Defn} {ig : Bool} {err : Err} :
    d.step (.intersectionUpdate e ig) = .error err ↔ err = .valueError ∧ ig = false ∧ Conflict d e := by
  simp only [Defn.step, ← guard_iff]
  split
  · rename_i h; simp [h, eq_comm]
  · rename_i h; simp [h]

/-! ### `take`: the guard -/

theorem take_guard_iff {d : Defn} {os ps : List Name} :
    ((!os.isEmpty && !os.all d.objs.contains) || (!ps.isEmpty && !ps.all d.props.contains)) = true ↔
      (∃ x ∈ os, x ∉ d.objs) ∨ (∃ x ∈ ps, x ∉ d.props) := by
  have key : ∀ (l xs : List Name), (!xs.isEmpty && !xs.all l.contains) = true ↔ ∃ x ∈ xs, x ∉ l := by
    intro l xs
    cases xs with
    | nil => simp
    | cons y ys =>
      simp only [List.isEmpty_cons, Bool.not_false, Bool.true_and, Bool.not_eq_true',
        List.all_eq_false, List.contains_iff_mem]
  rw [Bool.or_eq_true, key, key]

theorem uniq_uniq (l : List Name) : uniq (uniq l) = uniq l := uniq_of_nodup (nodup_uniq l)

/-- the names carried by the `KeyError` of `take` -/
theorem take_notfound_eq (d : Defn) (os ps : List Name) :
    uIor (uRsub d.objs os) (uRsub d.props ps) =
      uniq (os.filter (fun x => !d.objs.contains x)) ++
      (uniq (ps.filter (fun x => !d.props.contains x))).filter
        (fun x => !(uniq (os.filter (fun x => !d.objs.contains x))).contains x) := by
  rw [uIor_eq, uRsub, uRsub]
  congr 1
  exact (uniq_filter _ _).trans (by rw [uniq_uniq])

/-! ### `Context(*definition)` -/

theorem defn_ctorAccepts_iff {os ps : List Name} {lens : List Nat} :
    ctorAccepts os ps lens = true ↔
      os ≠ [] ∧ os.Nodup ∧ ps ≠ [] ∧ ps.Nodup ∧ (∀ x ∈ os, x ∉ ps) ∧
      lens.length = os.length ∧ ∀ n ∈ lens, n = ps.length := by
  simp only [ctorAccepts, Bool.and_eq_true, Bool.not_eq_true', List.isEmpty_eq_false_iff,
    defn_hasDup_eq_false_iff, List.any_eq_false, List.contains_iff_mem, beq_iff_eq, List.all_eq_true]
  tauto

theorem defn_getElem!_map_rowMask (bs : List (List Bool)) (i : Nat) :
    (bs.map rowMask).toArray[i]! = rowMask (bs.getD i []) := by
  by_cases hi : i < bs.length
  · simp [hi, List.getD_eq_getElem?_getD]
  · have h1 : bs[i]? = none := List.getElem?_eq_none (by omega)
    simp [List.getD_eq_getElem?_getD, h1, rowMask]

end FCA
