import FCA.Generated.Validate
import FCA.Props.C19
import FCA.Proofs.Defn
/-
C19 over the regenerated source: the chain of `if …: raise ValueError` guards of `Context.__init__`, as translated from
the current `contexts.py` by harness/extract.py, rejects exactly the triples the model's `ctorAccepts` rejects — so the
`C19_*` theorems about `ctorAccepts` / `ctxOfTriple` speak about the guards the source has now.
-/
namespace FCA

theorem uniq_length_bne (l : List Name) : ((uniq l).length != l.length) = hasDup l := by
  cases h : hasDup l
  · have := (hasDup_eq_false_iff l).mp h
    simp [length_uniq_eq_iff.mpr this]
  · have hn : ¬ l.Nodup := fun hnd => by simp [(hasDup_eq_false_iff l).mpr hnd] at h
    have : (uniq l).length ≠ l.length := fun he => hn (length_uniq_eq_iff.mp he)
    simpa using this

theorem any_uniq_contains (a b : List Name) : (uniq a).any b.contains = a.any b.contains := by
  rw [Bool.eq_iff_iff]
  simp only [List.any_eq_true]
  constructor
  · rintro ⟨x, hx, hb⟩; exact ⟨x, mem_uniq.mp hx, hb⟩
  · rintro ⟨x, hx, hb⟩; exact ⟨x, mem_uniq.mpr hx, hb⟩

theorem pySetNe_singleton (lens : List Nat) (k : Nat) (hne : lens ≠ []) :
    pySetNe lens [k] = !(lens.all (· == k)) := by
  unfold pySetNe
  congr 1
  rw [Bool.eq_iff_iff]
  simp only [Bool.and_eq_true, List.all_eq_true, List.contains_iff_mem, List.mem_singleton, beq_iff_eq]
  constructor
  · intro h; exact h.1
  · intro h
    refine ⟨h, ?_⟩
    intro x hx
    subst hx
    obtain ⟨y, ys, rfl⟩ := List.exists_cons_of_ne_nil hne
    have := h y (by simp)
    subst this
    simp

/-- the guard chain of the current source rejects exactly what the model's `ctorAccepts` rejects -/
theorem C19_generated_ctor (os ps : List Name) (bools : List (List Bool)) :
    Generated.ctorRejects os ps bools = !ctorAccepts os ps (bools.map (·.length)) := by
  unfold Generated.ctorRejects ctorAccepts
  rw [uniq_length_bne, uniq_length_bne, any_uniq_contains]
  by_cases ho : os = []
  · subst ho; simp
  · by_cases hl : bools.length = os.length
    · have hne : (bools.map fun b => b.length) ≠ [] := by
        intro h
        have : bools = [] := by simpa using h
        subst this
        exact ho (List.length_eq_zero_iff.mp hl.symm)
      rw [pySetNe_singleton _ _ hne]
      simp only [List.length_map, hl, bne_self_eq_false, Bool.false_or, beq_self_eq_true, Bool.true_and]
      cases os.isEmpty <;> cases hasDup os <;> cases ps.isEmpty <;> cases hasDup ps <;>
        cases os.any ps.contains <;> cases (bools.map fun b => b.length).all (· == ps.length) <;> rfl
    · have : (bools.length != os.length) = true := by simpa using hl
      have h2 : ((bools.map (·.length)).length == os.length) = false := by simpa using hl
      rw [this, h2]
      cases os.isEmpty <;> cases hasDup os <;> cases ps.isEmpty <;> cases hasDup ps <;>
        cases os.any ps.contains <;> simp

/-- `Context(objects, properties, bools)` of the model succeeds iff no guard of the current source raises -/
theorem C19_generated_ctxOfTriple (os ps : List Name) (bools : List (List Bool)) :
    (∃ K, ctxOfTriple os ps bools = .ok K) ↔ Generated.ctorRejects os ps bools = false := by
  rw [C19_generated_ctor]
  unfold ctxOfTriple
  cases ctorAccepts os ps (bools.map (·.length)) <;> simp

end FCA
#print axioms FCA.C19_generated_ctor
#print axioms FCA.C19_generated_ctxOfTriple
