import FCA.Proofs.Galois
import FCA.Proofs.Powerset
import FCA.Proofs.LatticeSpec
import FCA.Model.Render
/-
C18 — `Concept.attributes()` / `Concept.minimal()` (`Context._minimize`, `bitsets` `powerset()`):

For a concept with non-empty extent `attributes()` yields exactly the subsets of its intent whose
common objects are the concept's extent, each once, in shortlex order (size first, then property
position); `minimal()` is the first of them.  For an empty extent it yields just the intent.
-/
namespace FCA

/-! ### `intent.powerset()` (`combos.shortlex`): all subsets, each once, shortlex sorted -/

/-- `intent.powerset()` yields exactly the subsets of `intent` -/
theorem C18_powerset_mem {w intent b : Nat} (hb : Bounded w intent) :
    b ∈ powersetShortlex w intent ↔ b ⊆ᵇ intent := powersetShortlex_mem hb

/-- ... in shortlex order: by size, then by position of the first differing member -/
theorem C18_powerset_sorted (w intent : Nat) :
    (powersetShortlex w intent).Pairwise (shortlexLt w) := powersetShortlex_sorted w intent

/-- ... each once -/
theorem C18_powerset_nodup (w intent : Nat) : (powersetShortlex w intent).Nodup :=
  powersetShortlex_nodup w intent

/-- the fuel of the model is irrelevant: the queue is the concatenation of the levels `0..n`,
level `k` being the closed form `outs k` (unions with `k` atoms, earlier atoms first) -/
theorem C18_powerset_levels (w intent : Nat) :
    powersetShortlex w intent =
      (List.range ((membersW w intent).length + 1)).flatMap
        (fun k => outs k 0 ((membersW w intent).map (2 ^ ·))) := powersetShortlex_eq w intent

example : Bounded 3 0b101 := by rw [bounded_iff_lt]; decide
example : powersetShortlex 3 0b111 = [0b000, 0b001, 0b010, 0b100, 0b011, 0b101, 0b110, 0b111] := by
  decide +kernel

/-! ### `attributes()` -/

/-- `attributes()` (extent non-empty) yields exactly the generating subsets of the intent;
only boundedness of the intent is needed -/
theorem C18_attributes_bounded {K : Ctx} {e i b : Nat} (hi : Bounded K.m i) (he : e ≠ 0) :
    b ∈ minimize K e i ↔ b ⊆ᵇ i ∧ K.extentOf b = e := by
  unfold minimize
  rw [if_neg he, List.mem_filter, powersetShortlex_mem hi]
  simp

/-- `attributes()` of a concept with non-empty extent: exactly the subsets of the intent whose common
objects are the extent -/
theorem C18_attributes {K : Ctx} {e i b : Nat} (_hK : K.WF) (hc : isConcept K e i) (he : e ≠ 0) :
    b ∈ minimize K e i ↔ b ⊆ᵇ i ∧ K.extentOf b = e :=
  C18_attributes_bounded hc.2.1 he

/-- `attributes()` is shortlex sorted (any arguments) -/
theorem C18_sorted (K : Ctx) (e i : Nat) : (minimize K e i).Pairwise (shortlexLt K.m) := by
  unfold minimize
  split
  · simp
  · exact (powersetShortlex_sorted K.m i).filter _

/-- `attributes()` yields nothing twice -/
theorem C18_nodup (K : Ctx) (e i : Nat) : (minimize K e i).Nodup :=
  (C18_sorted K e i).imp (fun {a b} h hab => by subst hab; exact shortlexLt_irrefl K.m a h)

/-- `minimal()`: the head of `attributes()` exists — the intent itself is yielded —, it generates the
concept and every other generating subset of the intent is shortlex-greater -/
theorem C18_minimal_head {K : Ctx} {e i : Nat} (_hK : K.WF) (hc : isConcept K e i) (he : e ≠ 0) :
    i ∈ minimize K e i ∧
    ∃ h, (minimize K e i).head? = some h ∧ h ⊆ᵇ i ∧ K.extentOf h = e ∧
      ∀ b, b ⊆ᵇ i → K.extentOf b = e → b = h ∨ shortlexLt K.m h b := by
  have hi : i ∈ minimize K e i := (C18_attributes_bounded hc.2.1 he).mpr ⟨sub_refl i, hc.2.2.2⟩
  refine ⟨hi, ?_⟩
  have hs := C18_sorted K e i
  cases hl : minimize K e i with
  | nil => rw [hl] at hi; simp at hi
  | cons h t =>
    rw [hl, List.pairwise_cons] at hs
    have hh : h ∈ minimize K e i := by rw [hl]; simp
    obtain ⟨h1, h2⟩ := (C18_attributes_bounded hc.2.1 he).mp hh
    refine ⟨h, rfl, h1, h2, fun b hb1 hb2 => ?_⟩
    have hb : b ∈ minimize K e i := (C18_attributes_bounded hc.2.1 he).mpr ⟨hb1, hb2⟩
    rw [hl, List.mem_cons] at hb
    rcases hb with rfl | hb
    · exact Or.inl rfl
    · exact Or.inr (hs.1 b hb)

/-- empty extent: `attributes()` yields just the given intent (so `minimal()` of an infimum with empty
extent is its full intent) -/
theorem C18_empty_extent (K : Ctx) (i : Nat) : minimize K 0 i = [i] := by
  simp [minimize]

theorem C18_empty_extent_head (K : Ctx) (i : Nat) : (minimize K 0 i).head? = some i := by
  rw [C18_empty_extent]; rfl

/-- every yielded set regenerates the concept (all extents, also the empty one) -/
theorem C18_regenerates {K : Ctx} {e i b : Nat} (hb : b ∈ minimize K e i) (hc : isConcept K e i) :
    K.extentOf b = e := by
  by_cases he : e = 0
  · subst he
    rw [C18_empty_extent, List.mem_singleton] at hb
    subst hb; exact hc.2.2.2
  · exact ((C18_attributes_bounded hc.2.1 he).mp hb).2

/-- ... so `lattice(b)` (`Lattice.__call__`) looks up the concept's extent -/
theorem C18_regenerates_lookup {K : Ctx} {e i b : Nat} (L : Lattice) (hb : b ∈ minimize K e i)
    (hc : isConcept K e i) : lookupProperties K L b = L.find e := by
  unfold lookupProperties; rw [C18_regenerates hb hc]

/-- with a non-empty extent the yielded sets are subsets of the intent with that same closure -/
theorem C18_regenerates_intent {K : Ctx} {e i b : Nat} (hb : b ∈ minimize K e i)
    (hc : isConcept K e i) : K.intentOf (K.extentOf b) = i := by
  rw [C18_regenerates hb hc]; exact hc.2.2.1

/-! ### non-vacuity: objects `0 ↦ {0}`, `1 ↦ {0,1}`, `2 ↦ {1,2}`; concept `({1}, {0,1})` -/

/-- example context -/
def C18_exK : Ctx := mkCtx 3 3 #[0b001, 0b011, 0b110]

example : C18_exK.WF := mkCtx_WF _ _ _ rfl (by decide)
example : isConcept C18_exK 0b010 0b011 := by
  refine ⟨?_, ?_, ?_, ?_⟩
  · rw [bounded_iff_lt]; decide
  · rw [bounded_iff_lt]; decide
  · decide +kernel
  · decide +kernel
example : (0b010 : Nat) ≠ 0 := by decide
/-- `{0,1}` is the only generator of extent `{1}`; the concept `({2}, {1,2})` below has two generators -/
example : minimize C18_exK 0b010 0b011 = [0b011] := by decide +kernel
example : isConcept C18_exK 0b100 0b110 := by
  refine ⟨?_, ?_, ?_, ?_⟩
  · rw [bounded_iff_lt]; decide
  · rw [bounded_iff_lt]; decide
  · decide +kernel
  · decide +kernel
example : minimize C18_exK 0b100 0b110 = [0b100, 0b110] := by decide +kernel
example : (0b110 : Nat) ∈ minimize C18_exK 0b100 0b110 := by decide +kernel
/-- infimum of the example: empty extent, all properties -/
example : isConcept C18_exK 0 0b111 := by
  refine ⟨?_, ?_, ?_, ?_⟩
  · rw [bounded_iff_lt]; decide
  · rw [bounded_iff_lt]; decide
  · decide +kernel
  · decide +kernel
example : minimize C18_exK 0 0b111 = [0b111] := C18_empty_extent _ _

/-! ### the shortlex order is asymmetric: "the first" generator is well defined -/

theorem C18_shortlex_asymm (w a b : Nat) (h : shortlexLt w a b) : ¬ shortlexLt w b a := by
  rintro (h' | ⟨he', j, hj1, hj2, hj3⟩)
  · rcases h with h | ⟨he, _⟩ <;> omega
  · rcases h with h | ⟨_, i, hi1, hi2, hi3⟩
    · omega
    · rcases Nat.lt_trichotomy i j with hij | hij | hij
      · exact hi2 ((hj3 i hij).mpr hi1)
      · subst hij; exact hi2 hj1
      · exact hj2 ((hi3 j hij).mpr hj1)

/-! ### `Concept.minimal()` / `Infimum.minimal()` on the concepts of a lattice (`conceptMinimal`) -/

/-- the concept at a position of `Context.lattice` is a formal concept -/
theorem C18_lattice_isConcept {K : Ctx} (hK : K.WF) {k : Nat} {c : LConcept}
    (hc : (mkLattice K)[k]? = some c) : isConcept K c.extent c.intent := by
  have S := mkLattice_spec hK
  exact isConcept_iff_closed.mpr ⟨S.closed hc, S.intent hc⟩

/-- the intent of an empty extent is the set of all properties -/
theorem C18_intent_of_empty (K : Ctx) : K.intentOf 0 = full K.m := by
  apply ext; intro j
  unfold Ctx.intentOf
  rw [mem_primeOf]
  exact ⟨fun h => h.1, fun h => ⟨h, fun k hk => absurd hk not_mem_zero⟩⟩

/-- only the first concept (the infimum) can have an empty extent, and then its intent is the set of
all properties -/
theorem C18_empty_extent_position {K : Ctx} (hK : K.WF) {k : Nat} {c : LConcept}
    (hc : (mkLattice K)[k]? = some c) (he : c.extent = 0) : k = 0 ∧ c.intent = full K.m := by
  have S := mkLattice_spec hK
  obtain ⟨c0, hc0, hc0e⟩ := S.get_zero
  have hcl := (S.closed hc).2
  rw [he] at hcl
  refine ⟨S.pos_inj hc hc0 (by rw [he, hc0e, hcl]), ?_⟩
  rw [S.intent hc, he]
  exact C18_intent_of_empty K

/-- `minimal()` is the first element of `attributes()`, for every concept of every lattice (list of
concepts) — the `Infimum` override included: it only applies when the extent is empty, where
`attributes()` yields just the intent -/
theorem C18_minimal_eq_head (K : Ctx) (L : Lattice) {k : Nat} {c : LConcept} (hc : L[k]? = some c) :
    conceptMinimal K L k = (minimize K c.extent c.intent).head? ∧
    conceptMinimal K L k = (conceptAttributes K L k).head? := by
  have h1 : conceptMinimal K L k = (minimize K c.extent c.intent).head? := by
    unfold conceptMinimal
    rw [hc, Option.bind_some]
    split
    · rename_i h
      rw [h.2, C18_empty_extent_head]
    · rfl
  refine ⟨h1, ?_⟩
  rw [h1]
  unfold conceptAttributes
  rw [hc]

/-- outside the lattice there is no concept -/
theorem C18_minimal_none (K : Ctx) (L : Lattice) {k : Nat} (hk : L.length ≤ k) :
    conceptMinimal K L k = none := by
  unfold conceptMinimal
  rw [List.getElem?_eq_none hk]
  rfl

/-- `minimal()` of a concept of `Context.lattice`: with a non-empty extent it is the shortlex-least
subset of the intent whose common objects are the extent (every other such subset is
shortlex-greater); with an empty extent it is the whole intent, i.e. all properties -/
theorem C18_minimal_first_attribute {K : Ctx} (hK : K.WF) {k : Nat} {c : LConcept}
    (hc : (mkLattice K)[k]? = some c) :
    (c.extent ≠ 0 → ∃ h, conceptMinimal K (mkLattice K) k = some h ∧ h ⊆ᵇ c.intent ∧
      K.extentOf h = c.extent ∧
      ∀ b, b ⊆ᵇ c.intent → K.extentOf b = c.extent → b = h ∨ shortlexLt K.m h b) ∧
    (c.extent = 0 → conceptMinimal K (mkLattice K) k = some c.intent ∧ c.intent = full K.m) := by
  have hcon := C18_lattice_isConcept hK hc
  rw [(C18_minimal_eq_head K _ hc).1]
  constructor
  · intro he
    obtain ⟨_, h, hh, h1, h2, h3⟩ := C18_minimal_head hK hcon he
    exact ⟨h, hh, h1, h2, h3⟩
  · intro he
    rw [he, C18_empty_extent_head]
    exact ⟨rfl, (C18_empty_extent_position hK hc he).2⟩

/-- the infimum's `minimal()`: all properties when no object has all properties; otherwise the
ordinary shortlex-least generator (the override defers to `Concept.minimal`) -/
theorem C18_infimum_minimal {K : Ctx} (hK : K.WF) :
    ∃ c, (mkLattice K)[0]? = some c ∧ c.extent = K.doubleObj 0 ∧
      (c.extent = 0 → conceptMinimal K (mkLattice K) 0 = some (full K.m)) ∧
      (c.extent ≠ 0 → conceptMinimal K (mkLattice K) 0 = (minimize K c.extent c.intent).head? ∧
        ∃ h, conceptMinimal K (mkLattice K) 0 = some h ∧ K.extentOf h = c.extent ∧
          ∀ b, b ⊆ᵇ c.intent → K.extentOf b = c.extent → b = h ∨ shortlexLt K.m h b) := by
  obtain ⟨c, hc, hce⟩ := (mkLattice_spec hK).get_zero
  obtain ⟨h1, h2⟩ := C18_minimal_first_attribute hK hc
  refine ⟨c, hc, hce, fun he => ?_, fun he => ⟨(C18_minimal_eq_head K _ hc).1, ?_⟩⟩
  · obtain ⟨a, b⟩ := h2 he
    rw [a, b]
  · obtain ⟨h, a, _, b, d⟩ := h1 he
    exact ⟨h, a, b, d⟩

/-- `attributes()` of a concept of `Context.lattice` with non-empty extent: exactly the subsets of its
intent whose common objects are its extent -/
theorem C18_lattice_attributes {K : Ctx} (hK : K.WF) {k : Nat} {c : LConcept}
    (hc : (mkLattice K)[k]? = some c) (he : c.extent ≠ 0) (b : Nat) :
    b ∈ conceptAttributes K (mkLattice K) k ↔ b ⊆ᵇ c.intent ∧ K.extentOf b = c.extent := by
  unfold conceptAttributes
  rw [hc]
  exact C18_attributes hK (C18_lattice_isConcept hK hc) he

/-- every yielded property set regenerates the concept: `lattice(b) is c` -/
theorem C18_lattice_regenerates {K : Ctx} (hK : K.WF) {k : Nat} {c : LConcept}
    (hc : (mkLattice K)[k]? = some c) {b : Nat} (hb : b ∈ conceptAttributes K (mkLattice K) k) :
    lookupProperties K (mkLattice K) b = some k := by
  unfold conceptAttributes at hb
  rw [hc] at hb
  rw [C18_regenerates_lookup _ hb (C18_lattice_isConcept hK hc)]
  exact (mkLattice_spec hK).find_get hc

/-- in particular `lattice(c.minimal()) is c` -/
theorem C18_minimal_regenerates {K : Ctx} (hK : K.WF) {k : Nat} {c : LConcept}
    (hc : (mkLattice K)[k]? = some c) :
    ∃ h, conceptMinimal K (mkLattice K) k = some h ∧ lookupProperties K (mkLattice K) h = some k := by
  rw [(C18_minimal_eq_head K _ hc).2]
  cases hl : conceptAttributes K (mkLattice K) k with
  | nil =>
    exfalso
    have hi : c.intent ∈ conceptAttributes K (mkLattice K) k := by
      unfold conceptAttributes
      rw [hc]
      show c.intent ∈ minimize K c.extent c.intent
      by_cases he : c.extent = 0
      · rw [he, C18_empty_extent]; simp
      · exact (C18_minimal_head hK (C18_lattice_isConcept hK hc) he).1
    rw [hl] at hi
    cases hi
  | cons h t =>
    exact ⟨h, rfl, C18_lattice_regenerates hK hc (by rw [hl]; simp)⟩

/-! ### non-vacuity on lattices -/

/-- the lattice of the example: the infimum has no objects, its `minimal()` is all properties although
`{0, 2}` already has no common object -/
example : (mkLattice C18_exK).map (fun c => (c.extent, c.intent)) =
    [(0b000, 0b111), (0b010, 0b011), (0b100, 0b110), (0b011, 0b001), (0b110, 0b010), (0b111, 0b000)] := by
  decide +kernel
example : (List.range 6).map (conceptMinimal C18_exK (mkLattice C18_exK)) =
    [some 0b111, some 0b011, some 0b100, some 0b001, some 0b010, some 0b000] := by decide +kernel
example : C18_exK.extentOf 0b101 = 0 := by decide +kernel
example : conceptAttributes C18_exK (mkLattice C18_exK) 2 = [0b100, 0b110] := by decide +kernel

/-- an infimum WITH objects (object 3 has every property): here `Infimum.minimal` must defer to
`Concept.minimal` and yields `{3}`, not the full intent -/
def C18_exK2 : Ctx := mkCtx 4 4 #[0b0011, 0b0101, 0b0101, 0b1111]
example : C18_exK2.WF := mkCtx_WF _ _ _ rfl (by decide)
example : ((mkLattice C18_exK2)[0]?).map (fun c => (c.extent, c.intent)) = some (0b1000, 0b1111) := by
  decide +kernel
example : conceptMinimal C18_exK2 (mkLattice C18_exK2) 0 = some 0b1000 := by decide +kernel
example : conceptAttributes C18_exK2 (mkLattice C18_exK2) 0 =
    [0b1000, 0b1001, 0b0110, 0b1010, 0b1100, 0b0111, 0b1011, 0b1101, 0b1110, 0b1111] := by decide +kernel

end FCA

#print axioms FCA.C18_powerset_mem
#print axioms FCA.C18_powerset_sorted
#print axioms FCA.C18_powerset_nodup
#print axioms FCA.C18_powerset_levels
#print axioms FCA.C18_attributes_bounded
#print axioms FCA.C18_attributes
#print axioms FCA.C18_sorted
#print axioms FCA.C18_nodup
#print axioms FCA.C18_minimal_head
#print axioms FCA.C18_empty_extent
#print axioms FCA.C18_empty_extent_head
#print axioms FCA.C18_regenerates
#print axioms FCA.C18_regenerates_lookup
#print axioms FCA.C18_regenerates_intent
#print axioms FCA.C18_shortlex_asymm
#print axioms FCA.C18_empty_extent_position
#print axioms FCA.C18_minimal_eq_head
#print axioms FCA.C18_minimal_first_attribute
#print axioms FCA.C18_infimum_minimal
#print axioms FCA.C18_lattice_attributes
#print axioms FCA.C18_lattice_regenerates
#print axioms FCA.C18_minimal_regenerates
