import FCA.Generated.Defn
import FCA.Generated.Unique
import Mathlib.Data.List.Nodup
import FCA.Proofs.Defn
/-
C13 over the regenerated source: all fifteen `Definition` mutators (`__setitem__`, `move_*`, `add_*`, `set_*`,
`remove_object/property`, `rename_object/property`, `remove_empty_objects/properties`, `union_update`, `intersection_update`), translated statement by statement from the current `definitions.py`, are the
corresponding cases of the model's `Defn.step` — about which `C13_*` are proved. (`rename_*` and `remove_empty_*` under the part of the invariant they need.)
-/
namespace FCA

theorem C13_uIor_uniq (l xs : List Name) : uIor l (uniq xs) = uIor l xs := by
  induction xs generalizing l with
  | nil => rfl
  | cons x xs ih =>
    simp only [uniq, uIor, List.foldl_cons] at ih ⊢
    -- adding the later copies of `x` again changes nothing
    have key : ∀ (ys : List Name) (l : List Name), l.contains x = true →
        (ys.filter (· != x)).foldl uAdd l = ys.foldl uAdd l := by
      intro ys
      induction ys with
      | nil => intro l _; rfl
      | cons y ys ihy =>
        intro l hl
        by_cases hy : y = x
        · subst hy
          simp only [List.filter_cons, bne_self_eq_false, Bool.false_eq_true, if_false, List.foldl_cons]
          have : uAdd l y = l := by simp only [uAdd, hl, if_true]
          rw [this]; exact ihy l hl
        · have : (y != x) = true := by simpa using hy
          simp only [List.filter_cons, this, if_true, List.foldl_cons]
          apply ihy
          unfold uAdd; split
          · exact hl
          · simp only [List.contains_iff_mem, List.mem_append] at hl ⊢; exact Or.inl hl
    have hx : (uAdd l x).contains x = true := by
      unfold uAdd; split
      · assumption
      · simp
    rw [key (uniq xs) (uAdd l x) hx]
    exact ih (uAdd l x)

theorem C13_contains_uniq (xs : List Name) (p : Name) : (uniq xs).contains p = xs.contains p := by
  rw [Bool.eq_iff_iff]; simp [mem_uniq]

theorem C13_generated_setitem (d : Defn) (o p : Name) (v : Bool) :
    Generated.defn_setitem d.objs d.props d.pairs o p v = (d.step (.setItem o p v)).map (·.1) := by
  cases v <;> rfl

theorem C13_generated_move_object (d : Defn) (o : Name) (i : Int) :
    Generated.defn_move_object d.objs d.props d.pairs o i = (d.step (.moveObject o i)).map (·.1) := by
  simp only [Generated.defn_move_object, Defn.step]
  cases uMove d.objs o i <;> rfl

theorem C13_generated_move_property (d : Defn) (p : Name) (i : Int) :
    Generated.defn_move_property d.objs d.props d.pairs p i = (d.step (.moveProperty p i)).map (·.1) := by
  simp only [Generated.defn_move_property, Defn.step]
  cases uMove d.props p i <;> rfl

theorem C13_generated_add_object (d : Defn) (o : Name) (ps : List Name) :
    Generated.defn_add_object d.objs d.props d.pairs o ps = (d.step (.addObject o ps)).map (·.1) := rfl

theorem C13_generated_add_property (d : Defn) (p : Name) (os : List Name) :
    Generated.defn_add_property d.objs d.props d.pairs p os = (d.step (.addProperty p os)).map (·.1) := rfl

/-- `set_object` of the current source (which first wraps the argument in `tools.Unique`, the D1 repair) -/
theorem C13_generated_set_object (d : Defn) (o : Name) (ps : List Name) :
    Generated.defn_set_object d.objs d.props d.pairs o ps = (d.step (.setObject o ps)).map (·.1) := by
  simp only [Generated.defn_set_object, Defn.step, C13_uIor_uniq, C13_contains_uniq]
  rfl

theorem C13_generated_set_property (d : Defn) (p : Name) (os : List Name) :
    Generated.defn_set_property d.objs d.props d.pairs p os = (d.step (.setProperty p os)).map (·.1) := by
  simp only [Generated.defn_set_property, Defn.step, C13_uIor_uniq, C13_contains_uniq]
  rfl

theorem C13_contains_row (props : List Name) (o o' p' : Name) :
    (props.map fun p => (o, p)).contains (o', p') = (o' == o && props.contains p') := by
  rw [Bool.eq_iff_iff]
  simp only [List.contains_iff_mem, List.mem_map, Prod.mk.injEq, Bool.and_eq_true, beq_iff_eq]
  constructor
  · rintro ⟨p, hp, rfl, rfl⟩; exact ⟨rfl, hp⟩
  · rintro ⟨rfl, hp⟩; exact ⟨p', hp, rfl, rfl⟩

theorem C13_contains_col (objs : List Name) (p o' p' : Name) :
    (objs.map fun o => (o, p)).contains (o', p') = (p' == p && objs.contains o') := by
  rw [Bool.eq_iff_iff]
  simp only [List.contains_iff_mem, List.mem_map, Prod.mk.injEq, Bool.and_eq_true, beq_iff_eq]
  constructor
  · rintro ⟨o, ho, rfl, rfl⟩; exact ⟨rfl, ho⟩
  · rintro ⟨rfl, ho⟩; exact ⟨o', ho, rfl, rfl⟩

/-- `remove_object`: `Unique.remove` (KeyError for an unknown name), then `difference_update` with the row of the current properties -/
theorem C13_generated_remove_object (d : Defn) (o : Name) :
    Generated.defn_remove_object d.objs d.props d.pairs o = (d.step (.removeObject o)).map (·.1) := by
  simp only [Generated.defn_remove_object, Defn.step, uRemove, pDifference]
  by_cases h : d.objs.contains o = true
  · simp only [h, if_true]
    have : (fun q : Name × Name => !(d.props.map fun p => (o, p)).contains q) =
        (fun x : Name × Name => match x with | (o', p) => !(o' == o && d.props.contains p)) := by
      funext ⟨o', p'⟩; simp only [C13_contains_row]
    simp only [this]; rfl
  · simp only [h]; rfl

theorem C13_generated_remove_property (d : Defn) (p : Name) :
    Generated.defn_remove_property d.objs d.props d.pairs p = (d.step (.removeProperty p)).map (·.1) := by
  simp only [Generated.defn_remove_property, Defn.step, uRemove, pDifference]
  by_cases h : d.props.contains p = true
  · simp only [h, if_true]
    have : (fun q : Name × Name => !(d.objs.map fun o => (o, p)).contains q) =
        (fun x : Name × Name => match x with | (o, p') => !(p' == p && d.objs.contains o)) := by
      funext ⟨o', p'⟩; simp only [C13_contains_col]
    simp only [this]; rfl
  · simp only [h]; rfl

theorem C13_generated_union_update (d other : Defn) (ig : Bool) :
    Generated.defn_union_update d.objs d.props d.pairs other ig = (d.step (.unionUpdate other ig)).map (·.1) := by
  simp only [Generated.defn_union_update, Defn.step]
  split <;> rfl

theorem C13_generated_intersection_update (d other : Defn) (ig : Bool) :
    Generated.defn_intersection_update d.objs d.props d.pairs other ig = (d.step (.intersectionUpdate other ig)).map (·.1) := by
  simp only [Generated.defn_intersection_update, Defn.step]
  split <;> rfl

/-- `rename_object` of the current source (`Unique.replace`, then the set comprehension that moves the cells of the old row by a
side effect — `pairs.remove` inside the filter — and the in-place union) has the model's effect: same names, the same *set* of true
cells, the same rejections — provided no true cell lies outside the listed properties (part of the invariant every definition
keeps, `C13_inv_history`) -/
theorem C13_generated_rename_object (d : Defn) (old new : Name) (hp : ∀ q ∈ d.pairs, q.2 ∈ d.props) :
    match Generated.defn_rename_object d.objs d.props d.pairs old new, d.step (.renameObject old new) with
    | .ok g, .ok (m, _) => g.objs = m.objs ∧ g.props = m.props ∧ ∀ q, q ∈ g.pairs ↔ q ∈ m.pairs
    | .error e, .error e' => e = e'
    | _, _ => False := by
  simp only [Generated.defn_rename_object, Defn.step]
  cases uReplace d.objs old new with
  | error e => simp [bind, Except.bind]
  | ok objs' =>
    simp only [bind, Except.bind, true_and]
    have hm : ∀ p, (d.props.filter fun p => d.pairs.contains (old, p)).contains p = true ↔ p ∈ d.props ∧ (old, p) ∈ d.pairs := by
      intro p; simp [List.contains_iff_mem, List.mem_filter]
    rintro ⟨o, p⟩
    simp only [mem_foldl_pAdd, pDifference, List.mem_filter, List.mem_map, Prod.mk.injEq, Prod.exists, C13_contains_row,
      Bool.not_eq_true']
    constructor
    · rintro (⟨hq, hno⟩ | ⟨p', hp', rfl, rfl⟩)
      · refine ⟨o, p, hq, ?_⟩
        have : o ≠ old := by
          rintro rfl
          have h1 : (d.props.filter fun p => d.pairs.contains (o, p)).contains p = true := (hm p).mpr ⟨hp _ hq, hq⟩
          simp [h1] at hno
          exact hno (hp _ hq) hq
        simp [this]
      · have := (hm p').mp (by simpa [List.contains_iff_mem] using hp')
        exact ⟨old, p', this.2, by simp⟩
    · rintro ⟨o0, p0, hq0, heq⟩
      by_cases h0 : o0 = old
      · subst h0
        simp only [beq_self_eq_true, if_true, Prod.mk.injEq] at heq
        obtain ⟨rfl, rfl⟩ := heq
        refine Or.inr ⟨p0, ?_, rfl, rfl⟩
        have := (hm p0).mpr ⟨hp _ hq0, hq0⟩
        simpa [List.contains_iff_mem] using this
      · have : (o0 == old) = false := by simpa using h0
        simp only [this, Bool.false_eq_true, if_false, Prod.mk.injEq] at heq
        obtain ⟨rfl, rfl⟩ := heq
        exact Or.inl ⟨hq0, by simp [this]⟩

/-- likewise `rename_property` -/
theorem C13_generated_rename_property (d : Defn) (old new : Name) (hp : ∀ q ∈ d.pairs, q.1 ∈ d.objs) :
    match Generated.defn_rename_property d.objs d.props d.pairs old new, d.step (.renameProperty old new) with
    | .ok g, .ok (m, _) => g.objs = m.objs ∧ g.props = m.props ∧ ∀ q, q ∈ g.pairs ↔ q ∈ m.pairs
    | .error e, .error e' => e = e'
    | _, _ => False := by
  simp only [Generated.defn_rename_property, Defn.step]
  cases uReplace d.props old new with
  | error e => simp [bind, Except.bind]
  | ok props' =>
    simp only [bind, Except.bind, true_and]
    have hm : ∀ o, (d.objs.filter fun o => d.pairs.contains (o, old)).contains o = true ↔ o ∈ d.objs ∧ (o, old) ∈ d.pairs := by
      intro o; simp [List.contains_iff_mem, List.mem_filter]
    rintro ⟨o, p⟩
    simp only [mem_foldl_pAdd, pDifference, List.mem_filter, List.mem_map, Prod.mk.injEq, Prod.exists, C13_contains_col,
      Bool.not_eq_true']
    constructor
    · rintro (⟨hq, hno⟩ | ⟨o', ho', rfl, rfl⟩)
      · refine ⟨o, p, hq, ?_⟩
        have : p ≠ old := by
          rintro rfl
          have h1 : (d.objs.filter fun o => d.pairs.contains (o, p)).contains o = true := (hm o).mpr ⟨hp _ hq, hq⟩
          simp [h1] at hno
          exact hno (hp _ hq) hq
        simp [this]
      · have := (hm o').mp (by simpa [List.contains_iff_mem] using ho')
        exact ⟨o', old, this.2, by simp⟩
    · rintro ⟨o0, p0, hq0, heq⟩
      by_cases h0 : p0 = old
      · subst h0
        simp only [beq_self_eq_true, if_true, Prod.mk.injEq] at heq
        obtain ⟨rfl, rfl⟩ := heq
        refine Or.inr ⟨o0, ?_, rfl, rfl⟩
        have := (hm o0).mpr ⟨hp _ hq0, hq0⟩
        simpa [List.contains_iff_mem] using this
      · have : (p0 == old) = false := by simpa using h0
        simp only [this, Bool.false_eq_true, if_false, Prod.mk.injEq] at heq
        obtain ⟨rfl, rfl⟩ := heq
        exact Or.inl ⟨hq0, by simp [this]⟩

/-- removing, one by one, names that are all present and pairwise different never raises and filters them out -/
theorem C13_foldlM_uRemove : ∀ (es l : List Name), es.Nodup → (∀ x ∈ es, x ∈ l) →
    es.foldlM (fun acc o => uRemove acc o) l = (.ok (l.filter fun x => !es.contains x) : Except Err (List Name)) := by
  intro es
  induction es with
  | nil => intro l _ _; simp; rfl
  | cons e es ih =>
    intro l hnd hsub
    have he : l.contains e = true := by simpa [List.contains_iff_mem] using hsub e (by simp)
    have hnd' := List.nodup_cons.mp hnd
    have h1 : uRemove l e = .ok (l.filter (· != e)) := by simp only [uRemove, he, if_true]
    rw [List.foldlM_cons]
    simp only [h1]
    show List.foldlM (fun acc o => uRemove acc o) (l.filter (· != e)) es = _
    rw [ih (l.filter (· != e)) hnd'.2]
    · congr 1
      rw [List.filter_filter]
      apply List.filter_congr
      intro x _
      by_cases hx : x = e
      · subst hx; simp
      · have : (x != e) = true := by simpa using hx
        simp [hx]
    · intro x hx
      have hne : x ≠ e := by rintro rfl; exact hnd'.1 hx
      simp only [List.mem_filter, bne_iff_ne, ne_eq]
      exact ⟨hsub x (by simp [hx]), hne⟩

theorem C13_any_fst (pairs : List (Name × Name)) (o : Name) :
    (pairs.map fun (o', _) => o').contains o = pairs.any fun (o', _) => o' == o := by
  induction pairs with
  | nil => rfl
  | cons q qs ih =>
    obtain ⟨a, b⟩ := q
    simp only [List.map_cons, List.contains_cons, List.any_cons, ih]
    rw [BEq.comm (a := o)]

theorem C13_any_snd (pairs : List (Name × Name)) (p : Name) :
    (pairs.map fun (_, p') => p').contains p = pairs.any fun (_, p') => p' == p := by
  induction pairs with
  | nil => rfl
  | cons q qs ih =>
    obtain ⟨a, b⟩ := q
    simp only [List.map_cons, List.contains_cons, List.any_cons, ih]
    rw [BEq.comm (a := p)]

/-- `remove_empty_objects` of the current source (names occurring in a true cell, the empty ones in table order, `Unique.remove`
for each, the list returned) is the model's step — given that the object names are pairwise different (the invariant) -/
theorem C13_generated_remove_empty_objects (d : Defn) (hnd : d.objs.Nodup) :
    Generated.defn_remove_empty_objects d.objs d.props d.pairs = d.step .removeEmptyObjects := by
  simp only [Generated.defn_remove_empty_objects, Defn.step, C13_any_fst]
  rw [C13_foldlM_uRemove _ d.objs (hnd.filter _) (fun x hx => (List.mem_filter.mp hx).1)]
  rfl

theorem C13_generated_remove_empty_properties (d : Defn) (hnd : d.props.Nodup) :
    Generated.defn_remove_empty_properties d.objs d.props d.pairs = d.step .removeEmptyProperties := by
  simp only [Generated.defn_remove_empty_properties, Defn.step, C13_any_snd]
  rw [C13_foldlM_uRemove _ d.props (hnd.filter _) (fun x hx => (List.mem_filter.mp hx).1)]
  rfl

/-! ### `tools.Unique` with its two fields explicit (`_seen`, `_items`), translated from the current `tools.py`

`Generated.unique_*` return, when a statement raises, the state reached at that moment. Atomicity of a rejected `replace` / `move`
(the clause "a rejected call leaves no residue" of C13, broken by seeded changes C13-m1 and C13-r8m1, which register the new name
in `_seen` before the failing look-up) is therefore a theorem about the code, and the model's list primitives `uAdd`, `uReplace`,
`uMove` are *derived* from the two-field code under the class invariant `UState.Inv`. -/


theorem C13_inv_contains {u : UState} (h : u.Inv) (x : Name) : u.seen.contains x = u.items.contains x := by
  rw [Bool.eq_iff_iff]; simp only [List.contains_iff_mem]; exact h.2 x

/-- a rejected `replace` / `move` leaves both fields exactly as they were (no hypothesis) -/
theorem C13_generated_unique_replace_atomic (seen items : List Name) (a b : Name) (e : Err) (u' : UState)
    (h : Generated.unique_replace seen items a b = .error (e, u')) : u' = ⟨seen, items⟩ := by
  unfold Generated.unique_replace at h
  split at h
  · cases h; rfl
  · split at h
    · cases h; rfl
    · split at h
      · cases h; rfl
      · cases h

theorem C13_generated_unique_move_atomic (seen items : List Name) (a : Name) (i : Int) (e : Err) (u' : UState)
    (h : Generated.unique_move seen items a i = .error (e, u')) : u' = ⟨seen, items⟩ := by
  unfold Generated.unique_move at h
  split at h
  · cases h; rfl
  · split at h <;> cases h

theorem C13_generated_unique_add_total (seen items : List Name) (a : Name) :
    ∃ u', Generated.unique_add seen items a = .ok u' := by
  unfold Generated.unique_add; split <;> exact ⟨_, rfl⟩

/-- `Unique.add` of the current source is the model's `uAdd` on the items and keeps the invariant -/
theorem C13_generated_unique_add (u : UState) (h : u.Inv) (a : Name) :
    ∃ u', Generated.unique_add u.seen u.items a = .ok u' ∧ u'.items = uAdd u.items a ∧ u'.Inv := by
  unfold Generated.unique_add uAdd
  rw [C13_inv_contains h]
  by_cases hc : u.items.contains a = true
  · simp only [hc, Bool.not_true, Bool.false_eq_true, if_false, if_true]
    exact ⟨_, rfl, rfl, h⟩
  · have hc' : u.items.contains a = false := by simpa using hc
    simp only [hc', Bool.not_false, if_true, Bool.false_eq_true, if_false]
    refine ⟨_, rfl, rfl, ?_, ?_⟩
    · have hn : a ∉ u.items := by simpa [List.contains_iff_mem] using hc'
      simpa [List.nodup_append] using And.intro h.1 (fun x hx => by rintro rfl; exact hn hx)
    · intro x
      have hs : u.seen.contains a = false := by rw [C13_inv_contains h]; exact hc'
      simp only [sAdd, hs, Bool.false_eq_true, if_false, List.mem_append, List.mem_singleton, h.2 x]

theorem C13_getD_of_findIdx {l : List Name} {x : Name} {idx : Nat} (h : l.findIdx? (· == x) = some idx) :
    l.getD idx "" = x := by
  have := List.findIdx?_eq_some_iff_getElem.mp h
  obtain ⟨hlt, hx, _⟩ := this
  simp only [List.getD_eq_getElem?_getD, List.getElem?_eq_getElem hlt, Option.getD_some]
  simpa using hx

/-- `Unique.move` of the current source is the model's `uMove` (no hypothesis needed) -/
theorem C13_generated_unique_move (seen items : List Name) (a : Name) (i : Int) :
    (Generated.unique_move seen items a i).toOption.map (·.items) = (uMove items a i).toOption ∧
    ((Generated.unique_move seen items a i).toOption.isNone ↔ uMove items a i = .error .valueError) := by
  unfold Generated.unique_move uMove lIndex
  cases hf : items.findIdx? (· == a) with
  | none => simp [Except.toOption]
  | some idx =>
    simp only
    by_cases hi : (idx : Int) = i
    · simp [hi, Except.toOption]
    · have : ((idx : Int) != i) = true := by simpa using hi
      simp only [this, if_true, hi, if_false, lPop, C13_getD_of_findIdx hf]
      simp [Except.toOption]



theorem C13_mem_sAdd (s : List Name) (b x : Name) : x ∈ sAdd s b ↔ x ∈ s ∨ x = b := by
  unfold sAdd
  split
  · rename_i hc
    have hb : b ∈ s := by simpa [List.contains_iff_mem] using hc
    constructor
    · exact Or.inl
    · rintro (h | rfl); exact h; exact hb
  · simp

theorem C13_set_eq_map {a b : Name} : ∀ (l : List Name) (idx : Nat), l.Nodup → l.findIdx? (· == a) = some idx →
    l.set idx b = l.map (fun x => if x == a then b else x) := by
  intro l
  induction l with
  | nil => intro idx _ h; simp at h
  | cons y ys ih =>
    intro idx hnd h
    rw [List.findIdx?_cons] at h
    by_cases hy : (y == a) = true
    · simp only [hy, if_true, Option.some.injEq] at h
      subst h
      have hya : y = a := by simpa using hy
      have hnot : a ∉ ys := by rw [← hya]; exact (List.nodup_cons.mp hnd).1
      have : ys.map (fun x => if x == a then b else x) = ys := by
        conv_rhs => rw [← List.map_id ys]
        apply List.map_congr_left
        intro x hx
        have : x ≠ a := by rintro rfl; exact hnot hx
        simp [this]
      simp only [List.set_cons_zero, List.map_cons, hy, if_true, this]
    · have hy' : (y == a) = false := by simpa using hy
      simp only [hy', Bool.false_eq_true, if_false, Option.map_eq_some_iff] at h
      obtain ⟨k, hk, rfl⟩ := h
      simp only [List.set_cons_succ, List.map_cons, hy', Bool.false_eq_true, if_false, ih k (List.nodup_cons.mp hnd).2 hk]

/-- `Unique.replace` of the current source: accepts exactly when the model's `uReplace` does, with the same items, and keeps the
class invariant; every rejection is a `ValueError` -/
theorem C13_generated_unique_replace (u : UState) (h : u.Inv) (a b : Name) :
    match Generated.unique_replace u.seen u.items a b with
    | .ok u' => uReplace u.items a b = .ok u'.items ∧ u'.Inv
    | .error (e, _) => e = .valueError ∧ uReplace u.items a b = .error .valueError := by
  unfold Generated.unique_replace uReplace
  rw [C13_inv_contains h b]
  by_cases hb : u.items.contains b = true
  · simp only [hb, if_true, and_self]
  · have hb' : u.items.contains b = false := by simpa using hb
    have hbn : b ∉ u.items := by simpa [List.contains_iff_mem] using hb'
    simp only [hb', Bool.false_eq_true, if_false, lIndex]
    cases hf : u.items.findIdx? (· == a) with
    | none =>
      have : u.items.contains a = false := by
        rw [List.findIdx?_eq_none_iff] at hf
        rw [Bool.eq_false_iff]; intro hc
        have := hf a (by simpa [List.contains_iff_mem] using hc)
        simp at this
      simp only [this, Bool.false_eq_true, if_false, and_self]
    | some idx =>
      have hmem : a ∈ u.items := by
        obtain ⟨hlt, hx, _⟩ := List.findIdx?_eq_some_iff_getElem.mp hf
        have : u.items[idx] = a := by simpa using hx
        rw [← this]; exact List.getElem_mem hlt
      have hca : u.items.contains a = true := by simpa [List.contains_iff_mem] using hmem
      have hsa : u.seen.contains a = true := by rw [C13_inv_contains h]; exact hca
      simp only [sRemove, hsa, if_true, hca, lSet, C13_set_eq_map u.items idx h.1 hf, true_and]
      constructor
      · -- no repeats after the replacement
        apply List.Nodup.map_on _ h.1
        intro x hx y hy hxy
        by_cases hxa : x = a <;> by_cases hya : y = a
        · rw [hxa, hya]
        · simp only [hxa, beq_self_eq_true, if_true, hya, beq_iff_eq, if_false] at hxy
          exact absurd (hxy ▸ hy) hbn
        · simp only [hya, beq_self_eq_true, if_true, hxa, beq_iff_eq, if_false] at hxy
          exact absurd (hxy ▸ hx) hbn
        · simpa [hxa, hya] using hxy
      · intro x
        rw [C13_mem_sAdd]
        simp only [List.mem_filter, List.mem_map, h.2 x, bne_iff_ne, ne_eq]
        constructor
        · rintro (⟨hx, hxa⟩ | rfl)
          · exact ⟨x, hx, by simp [hxa]⟩
          · exact ⟨a, hmem, by simp⟩
        · rintro ⟨y, hy, rfl⟩
          by_cases hya : y = a
          · right; simp [hya]
          · left; simp [hya, hy]


/-- `Unique.discard` of the current source never raises on a well-formed instance, removes the item and keeps the invariant -/
theorem C13_generated_unique_discard (u : UState) (h : u.Inv) (a : Name) :
    ∃ u', Generated.unique_discard u.seen u.items a = .ok u' ∧ u'.items = u.items.filter (· != a) ∧ u'.Inv := by
  unfold Generated.unique_discard
  rw [C13_inv_contains h a]
  by_cases ha : u.items.contains a = true
  · have hs : u.seen.contains a = true := by rw [C13_inv_contains h]; exact ha
    simp only [ha, if_true, sRemove, hs, lRemove]
    refine ⟨_, rfl, ?_, ?_, ?_⟩
    · exact h.1.erase_eq_filter a
    · exact h.1.erase a
    · intro x
      simp only [List.mem_filter, h.2 x, bne_iff_ne, ne_eq, h.1.mem_erase_iff]
      exact ⟨fun ⟨a, b⟩ => ⟨b, a⟩, fun ⟨a, b⟩ => ⟨b, a⟩⟩
  · have ha' : u.items.contains a = false := by simpa using ha
    have hn : a ∉ u.items := by simpa [List.contains_iff_mem] using ha'
    simp only [ha', Bool.false_eq_true, if_false]
    refine ⟨_, rfl, ?_, h⟩
    symm
    rw [List.filter_eq_self]
    intro x hx
    have : x ≠ a := by rintro rfl; exact hn hx
    simpa using this

theorem C13_unique_init_fold : ∀ (l s it : List Name), (∀ x, x ∈ s ↔ x ∈ it) →
    let r := l.foldl (fun (s : List Name × List Name) item =>
      if !(s.1.contains item) then (sAdd s.1 item, s.2 ++ [item]) else s) (s, it)
    r.2 = it ++ uniq (l.filter fun x => !it.contains x) ∧ ∀ x, x ∈ r.1 ↔ x ∈ r.2 := by
  intro l
  induction l with
  | nil => intro s it h; simpa [uniq] using h
  | cons a l ih =>
    intro s it h
    have hc : s.contains a = it.contains a := by
      rw [Bool.eq_iff_iff]; simp only [List.contains_iff_mem]; exact h a
    simp only [List.foldl_cons]
    by_cases ha : it.contains a = true
    · simp only [hc, ha, Bool.not_true, Bool.false_eq_true, if_false, List.filter_cons]
      exact ih s it h
    · have ha' : it.contains a = false := by simpa using ha
      have hs' : ∀ x, x ∈ sAdd s a ↔ x ∈ it ++ [a] := by
        intro x
        have : s.contains a = false := by rw [hc]; exact ha'
        simp only [sAdd, this, Bool.false_eq_true, if_false, List.mem_append, List.mem_singleton, h x]
      simp only [hc, ha', Bool.not_false, if_true, List.filter_cons]
      obtain ⟨h1, h2⟩ := ih (sAdd s a) (it ++ [a]) hs'
      refine ⟨?_, h2⟩
      rw [h1]
      simp only [uniq, List.append_assoc, List.singleton_append]
      congr 2
      rw [← uniq_filter, List.filter_filter]
      congr 1
      apply List.filter_congr
      intro x _
      rw [Bool.eq_iff_iff]
      simp only [List.contains_iff_mem, List.mem_append, List.mem_singleton, Bool.not_eq_true', Bool.and_eq_true, bne_iff_ne, ne_eq,
        decide_eq_false_iff_not, not_or]
      constructor
      · intro hx
        have : ¬ (x ∈ it ∨ x = a) := by simpa [List.contains_iff_mem] using hx
        exact ⟨fun e => this (Or.inr e), by simpa [List.contains_iff_mem] using fun e => this (Or.inl e)⟩
      · rintro ⟨hne, hni⟩
        have hni' : x ∉ it := by simpa [List.contains_iff_mem] using hni
        simpa [List.contains_iff_mem] using And.intro hni' hne

/-- `Unique(iterable)` of the current source keeps the first occurrences in order (the model's `uniq`) and establishes the invariant -/
theorem C13_generated_unique_init (l : List Name) :
    (Generated.unique_init l).items = uniq l ∧ (Generated.unique_init l).Inv := by
  obtain ⟨h1, h2⟩ := C13_unique_init_fold l [] [] (by simp)
  simp only [List.contains_nil, Bool.not_false, List.filter_true, List.nil_append] at h1
  have hi : (Generated.unique_init l).items = uniq l := h1
  refine ⟨hi, ?_, h2⟩
  rw [hi]; exact nodup_uniq l

end FCA
#print axioms FCA.C13_generated_setitem
#print axioms FCA.C13_generated_move_object
#print axioms FCA.C13_generated_move_property
#print axioms FCA.C13_generated_add_object
#print axioms FCA.C13_generated_add_property
#print axioms FCA.C13_generated_set_object
#print axioms FCA.C13_generated_set_property
#print axioms FCA.C13_generated_union_update
#print axioms FCA.C13_generated_intersection_update
#print axioms FCA.C13_generated_remove_object
#print axioms FCA.C13_generated_remove_property
#print axioms FCA.C13_generated_unique_replace_atomic
#print axioms FCA.C13_generated_unique_move_atomic
#print axioms FCA.C13_generated_unique_add_total
#print axioms FCA.C13_generated_unique_add
#print axioms FCA.C13_generated_unique_move
#print axioms FCA.C13_generated_unique_replace
#print axioms FCA.C13_generated_unique_discard
#print axioms FCA.C13_generated_rename_object
#print axioms FCA.C13_generated_rename_property
#print axioms FCA.C13_generated_remove_empty_objects
#print axioms FCA.C13_generated_remove_empty_properties
#print axioms FCA.C13_generated_unique_init
