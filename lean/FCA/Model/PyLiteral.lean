import FCA.Model.Formats
/-
Model of `concepts/formats/python_literal.py` on code-point strings (`Str = List Char`).

* `dumpLiteral` is the exact text written by `dump_file` (`print(line)` for every line); `repr` of
  a `str` is CPython's `unicode_repr` (`pyReprStr`; printability of the code points ≥ 0x80 comes
  from the Unicode database and is a parameter), `repr` of an int tuple is `pyReprIntTuple`.
* `loadLiteral` is a recursive-descent reader for the subset of Python literals that
  `ast.literal_eval` has to understand for such files: a dict display with `str` keys
  `'objects'`, `'properties'`, `'context'`, `'lattice'` whose values are tuple/list displays of
  str literals, of tuple/list displays of non-negative decimal ints, resp. of 4-element displays of
  those; arbitrary blanks / newlines between the tokens, optional trailing commas, `(x)` is not a
  tuple, `(,)` and `[,]` are syntax errors. It does not depend on the printability table.
  Everything else yields `none`.
-/
namespace FCA

/-! ### `repr` -/

/-- lower-case hex digit -/
def litHexDigit (d : Nat) : Char :=
  if d < 10 then Char.ofNat (48 + d) else Char.ofNat (87 + d)

/-- `'%0<k>x' % n` (the `k` low hex digits of `n`, most significant first) -/
def litHex : Nat → Nat → Str
  | 0, _ => []
  | k + 1, n => litHexDigit (n / 16 ^ k % 16) :: litHex k n

/-- the quote `unicode_repr` chooses: `"` iff the string has a `'` and no `"` -/
def pyQuote (s : Str) : Char :=
  if s.contains '\'' && !s.contains '"' then '"' else '\''

/-- what `unicode_repr` writes for one code point inside the quotes `q` -/
def pyEscChar (printable : Nat → Bool) (q : Char) (c : Char) : Str :=
  if c == q || c == '\\' then ['\\', c]
  else if c == '\t' then ['\\', 't']
  else if c == '\n' then ['\\', 'n']
  else if c == '\r' then ['\\', 'r']
  else if c.toNat < 0x20 || c.toNat == 0x7f then '\\' :: 'x' :: litHex 2 c.toNat
  else if c.toNat < 0x7f then [c]
  else if printable c.toNat then [c]
  else if c.toNat < 0x100 then '\\' :: 'x' :: litHex 2 c.toNat
  else if c.toNat < 0x10000 then '\\' :: 'u' :: litHex 4 c.toNat
  else '\\' :: 'U' :: litHex 8 c.toNat

/-- `repr(s)` for a `str` -/
def pyReprStr (printable : Nat → Bool) (s : Str) : Str :=
  pyQuote s :: (s.flatMap (pyEscChar printable (pyQuote s)) ++ [pyQuote s])

/-- `repr(n)` for a non-negative `int` -/
def pyReprNat (n : Nat) : Str := (toString n).toList

/-- `repr(t)` for a tuple of non-negative ints: `()`, `(3,)`, `(0, 1)` -/
def pyReprIntTuple : List Nat → Str
  | [] => ['(', ')']
  | [a] => '(' :: (pyReprNat a ++ [',', ')'])
  | l => '(' :: (joinWith [',', ' '] (l.map pyReprNat) ++ [')'])

/-- `repr` of a lattice entry `(extent, intent, upper, lower)` (a 4-tuple of int tuples) -/
def pyReprEntry : List Nat × List Nat × List Nat × List Nat → Str
  | (a, b, c, d) =>
    '(' :: (joinWith [',', ' '] [pyReprIntTuple a, pyReprIntTuple b, pyReprIntTuple c, pyReprIntTuple d]
      ++ [')'])

/-! ### `dump_file` -/

abbrev LitEntry4 := List Nat × List Nat × List Nat × List Nat

/-- the `doc` dict of `dump_file` / the result of `ast.literal_eval` in `load_file` -/
structure LitDoc where
  objects : List Str
  properties : List Str
  context : List (List Nat)
  lattice : Option (List LitEntry4)
  deriving DecidableEq, Repr

/-- `itersection(key, lines, value_list)`; `key` is the text of `repr(key)` -/
def litSection (key : Str) (opn cls : Char) (lines : List Str) : List Str :=
  ([' ', ' '] ++ key ++ [':', ' ', opn]) :: (lines ++ [[' ', ' ', cls, ',']])

/-- `[f'{indent * 2}{line},' for line in ...]` -/
def litItemLines (items : List Str) : List Str := items.map fun l => [' ', ' ', ' ', ' '] ++ l ++ [',']

/-- the section of `'objects'` / `'properties'`: one line with `', '.join(map(repr, names))` -/
def litNamesSection (printable : Nat → Bool) (key : Str) (names : List Str) : List Str :=
  litSection key '(' ')' (litItemLines [joinWith [',', ' '] (names.map (pyReprStr printable))])

/-- the section of `'context'` / `'lattice'`: one line per entry -/
def litListSection (key : Str) (items : List Str) : List Str :=
  litSection key '[' ']' (litItemLines items)

/-- `repr(key)` of the four keys -/
def litKeyObjects : Str := "'objects'".toList
def litKeyProperties : Str := "'properties'".toList
def litKeyContext : Str := "'context'".toList
def litKeyLattice : Str := "'lattice'".toList

/-- `iterlines(doc)` -/
def dumpLiteralLines (printable : Nat → Bool) (d : LitDoc) : List Str :=
  [['{']] ++ litNamesSection printable litKeyObjects d.objects
    ++ litNamesSection printable litKeyProperties d.properties
    ++ litListSection litKeyContext (d.context.map pyReprIntTuple)
    ++ (match d.lattice with
        | none => []
        | some l => litListSection litKeyLattice (l.map pyReprEntry))
    ++ [['}']]

/-- the text `dump_file` writes -/
def dumpLiteral (printable : Nat → Bool) (d : LitDoc) : Str := unlines (dumpLiteralLines printable d)

/-! ### reader -/

/-- blanks between tokens (inside brackets newlines are blanks, too) -/
def litIsWs (c : Char) : Bool := c == ' ' || c == '\n' || c == '\t' || c == '\r'

def litSkipWs : Str → Str
  | [] => []
  | c :: cs => if litIsWs c then litSkipWs cs else c :: cs

/-- value of a hex digit (either case) -/
def litHexVal (c : Char) : Option Nat :=
  if '0' ≤ c ∧ c ≤ '9' then some (c.toNat - 48)
  else if 'a' ≤ c ∧ c ≤ 'f' then some (c.toNat - 87)
  else if 'A' ≤ c ∧ c ≤ 'F' then some (c.toNat - 55)
  else none

/-- the code point `n` as a character (`none` for surrogates and values above 0x10ffff) -/
def litChar? (n : Nat) : Option Char :=
  if (Char.ofNat n).toNat == n then some (Char.ofNat n) else none

/-- state of the string-literal reader: plain, after a backslash, inside `\x`/`\u`/`\U` with
`k + 1` hex digits to go and the value `acc` so far -/
inductive LitStrMode
  | normal
  | esc
  | hex (k : Nat) (acc : Nat)
  deriving DecidableEq, Repr

def litConsFst (c : Char) : Option (Str × Str) → Option (Str × Str)
  | some (s, r) => some (c :: s, r)
  | none => none

/-- body of a string literal opened with the quote `q`: the value and the text after the closing
quote. Escapes: `\'` `\"` `\\` `\n` `\r` `\t` `\xNN` `\uNNNN` `\UNNNNNNNN`; a raw newline ends the
line and is an error. -/
def litStrBody (q : Char) : LitStrMode → Str → Option (Str × Str)
  | _, [] => none
  | .normal, c :: cs =>
    if c == q then some ([], cs)
    else if c == '\\' then litStrBody q .esc cs
    else if c == '\n' || c == '\r' then none
    else litConsFst c (litStrBody q .normal cs)
  | .esc, c :: cs =>
    if c == '\'' || c == '"' || c == '\\' then litConsFst c (litStrBody q .normal cs)
    else if c == 'n' then litConsFst '\n' (litStrBody q .normal cs)
    else if c == 'r' then litConsFst '\r' (litStrBody q .normal cs)
    else if c == 't' then litConsFst '\t' (litStrBody q .normal cs)
    else if c == 'x' then litStrBody q (.hex 1 0) cs
    else if c == 'u' then litStrBody q (.hex 3 0) cs
    else if c == 'U' then litStrBody q (.hex 7 0) cs
    else none
  | .hex k acc, c :: cs =>
    match litHexVal c with
    | none => none
    | some d =>
      match k with
      | 0 =>
        match litChar? (16 * acc + d) with
        | none => none
        | some ch => litConsFst ch (litStrBody q .normal cs)
      | k + 1 => litStrBody q (.hex k (16 * acc + d)) cs

/-- a string literal with either quote -/
def parseStrLit : Str → Option (Str × Str)
  | [] => none
  | q :: cs => if q == '\'' || q == '"' then litStrBody q .normal cs else none

/-- a non-negative decimal int literal (a leading zero is only allowed for zero) -/
def parseNatLit (s : Str) : Option (Nat × Str) :=
  let ds := s.takeWhile Char.isDigit
  if ds.isEmpty then none
  else
    let n := ds.foldl (fun a c => 10 * a + (c.toNat - 48)) 0
    if ds.head? == some '0' && n != 0 then none else some (n, s.dropWhile Char.isDigit)

/-- the items of a display after the opening bracket up to `close`: the values, whether the
display ended at an item position (empty display or trailing comma), the remaining text.
`fuel` bounds the number of items (any bound on the length of the text will do). -/
def litSeqLoop {α : Type} (item : Str → Option (α × Str)) (close : Char) :
    Nat → Str → Option (List α × Bool × Str)
  | 0, _ => none
  | fuel + 1, s =>
    match litSkipWs s with
    | [] => none
    | c :: cs =>
      if c == close then some ([], true, cs)
      else
        match item (c :: cs) with
        | none => none
        | some (v, r) =>
          match litSkipWs r with
          | [] => none
          | c' :: r' =>
            if c' == ',' then
              match litSeqLoop item close fuel r' with
              | none => none
              | some (vs, t, r'') => some (v :: vs, t, r'')
            else if c' == close then some ([v], false, r')
            else none

/-- a tuple or list display; `(x)` without a comma is not a tuple -/
def parseSeq {α : Type} (item : Str → Option (α × Str)) (fuel : Nat) : Str → Option (List α × Str)
  | [] => none
  | c :: r =>
    if c == '(' then
      match litSeqLoop item ')' fuel r with
      | none => none
      | some (vs, t, r') => if vs.length == 1 && !t then none else some (vs, r')
    else if c == '[' then
      match litSeqLoop item ']' fuel r with
      | none => none
      | some (vs, _, r') => some (vs, r')
    else none

/-- a lattice entry: a display of exactly four displays of ints -/
def parseEntry4 (fuel : Nat) (s : Str) : Option (LitEntry4 × Str) :=
  match parseSeq (parseSeq parseNatLit fuel) fuel s with
  | some ([a, b, c, d], r) => some ((a, b, c, d), r)
  | _ => none

/-- a `key: value` item of the dict display -/
inductive LitItem
  | objects (v : List Str)
  | properties (v : List Str)
  | context (v : List (List Nat))
  | lattice (v : List LitEntry4)
  deriving DecidableEq, Repr

def litMapFst {α β : Type} (f : α → β) : Option (α × Str) → Option (β × Str)
  | some (v, r) => some (f v, r)
  | none => none

def parseItem (fuel : Nat) (s : Str) : Option (LitItem × Str) :=
  match parseStrLit s with
  | none => none
  | some (key, r) =>
    match litSkipWs r with
    | [] => none
    | c :: r1 =>
      if c != ':' then none
      else if key == "objects".toList then
        litMapFst .objects (parseSeq parseStrLit fuel (litSkipWs r1))
      else if key == "properties".toList then
        litMapFst .properties (parseSeq parseStrLit fuel (litSkipWs r1))
      else if key == "context".toList then
        litMapFst .context (parseSeq (parseSeq parseNatLit fuel) fuel (litSkipWs r1))
      else if key == "lattice".toList then
        litMapFst .lattice (parseSeq (parseEntry4 fuel) fuel (litSkipWs r1))
      else none

/-- the dict built from the items (a later item replaces an earlier one with the same key) -/
structure LitAcc where
  objects : Option (List Str) := none
  properties : Option (List Str) := none
  context : Option (List (List Nat)) := none
  lattice : Option (List LitEntry4) := none

def LitAcc.add (a : LitAcc) : LitItem → LitAcc
  | .objects v => { a with objects := some v }
  | .properties v => { a with properties := some v }
  | .context v => { a with context := some v }
  | .lattice v => { a with lattice := some v }

/-- `args['objects']`, `args['properties']`, `args['context']` must exist -/
def LitAcc.finish (a : LitAcc) : Option LitDoc :=
  match a.objects, a.properties, a.context with
  | some o, some p, some c => some { objects := o, properties := p, context := c, lattice := a.lattice }
  | _, _, _ => none

/-- `ast.literal_eval(text.lstrip(' \t'))` restricted to the documents described above, then the
lookups of `load_file` -/
def loadLiteral (text : Str) : Option LitDoc :=
  let fuel := text.length
  match (text.dropWhile fun c => c == ' ' || c == '\t').dropWhile fun c => c == '\n' || c == '\r' with
  | [] => none
  | c :: r =>
    if c != '{' then none
    else
      match litSeqLoop (parseItem fuel) '}' fuel r with
      | none => none
      | some (items, _, r') =>
        if (litSkipWs r').isEmpty then (items.foldl LitAcc.add {}).finish else none

end FCA
