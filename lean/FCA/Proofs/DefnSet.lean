import FCA.Proofs.DefnDerive
import FCA.Proofs.DefnMove
/-
The cell list of a definition stands for a Python `set`: nothing observable depends on its order or
on repeats.  `Defn.SameSet` relates two representations of the same definition; every mutator maps
related states (and related operands) to related results.
-/
namespace FCA

/-- same names in the same order, same *set* of true cells -/
def Defn.SameSet (d d' : Defn) : Prop :=
  d.objs = d'.objs ∧ d.props = d'.props ∧ ∀ x, x ∈ d.pairs ↔ x ∈ d'.pairs

theorem Defn.SameSet.refl (d : Defn) : d.SameSet d := ⟨rfl, rfl, fun _ => Iff.rfl⟩

theorem Defn.SameSet.symm {d d' : Defn} (h : d.SameSet d') : d'.SameSet d :=
  ⟨h.1.symm, h.2.1.symm, fun x => (h.2.2 x).symm⟩

theorem Defn.SameSet.trans {a b c : Defn} (h : a.SameSet b) (h' : b.SameSet c) : a.SameSet c :=
  ⟨h.1.trans h'.1, h.2.1.trans h'.2.1, fun x => (h.2.2 x).trans (h'.2.2 x)⟩

/-- operations with related operands -/
inductive Op.SameSet : Op → Op → Prop
  | union {e e' : Defn} (ig : Bool) : e.SameSet e' → Op.SameSet (.unionUpdate e ig) (.unionUpdate e' ig)
  | inter {e e' : Defn} (ig : Bool) : e.SameSet e' →
      Op.SameSet (.intersectionUpdate e ig) (.intersectionUpdate e' ig)
  | same (op : Op) : Op.SameSet op op

/-- both calls fail with the same class, or both succeed with related states and equal return value -/
def ResSameSet : Except Err (Defn × List Name) → Except Err (Defn × List Name) → Prop
  | .ok (x, r), .ok (x', r') => x.SameSet x' ∧ r = r'
  | .error e, .error e' => e = e'
  | _, _ => False

theorem contains_congr {α : Type} [BEq α] [LawfulBEq α] {l l' : List α} (h : ∀ x, x ∈ l ↔ x ∈ l')
    (x : α) : l.contains x = l'.contains x := by
  rw [Bool.eq_iff_iff, List.contains_iff_mem, List.contains_iff_mem]; exact h x

theorem conflicts_congr {d d' e e' : Defn} (h : d.SameSet d') (he : e.SameSet e') :
    conflicts d e = conflicts d' e' := by
  obtain ⟨o, p, c⟩ := d; obtain ⟨o', p', c'⟩ := d'
  obtain ⟨eo, ep, ec⟩ := e; obtain ⟨eo', ep', ec'⟩ := e'
  obtain ⟨h1, h2, h3⟩ := h; obtain ⟨g1, g2, g3⟩ := he
  simp only at h1 h2 h3 g1 g2 g3
  subst h1 h2 g1 g2
  simp only [conflicts, contains_congr h3, contains_congr g3]

theorem bools_congr {d d' : Defn} (h : d.SameSet d') : d.bools = d'.bools :=
  (bools_eq_iff h.1 h.2.1).mpr fun o _ p _ => h.2.2 (o, p)

theorem getItem_congr {d d' : Defn} (h : d.SameSet d') (o p : Name) : d.getItem o p = d'.getItem o p := by
  simp only [Defn.getItem, h.1, h.2.1, contains_congr h.2.2]

theorem eqv_congr {d d' e e' : Defn} (h : d.SameSet d') (he : e.SameSet e') : d.eqv e = d'.eqv e' := by
  rw [Bool.eq_iff_iff, eqv_iff, eqv_iff, h.1, h.2.1, he.1, he.2.1]
  simp only [h.2.2, he.2.2]

/-! ### the mutators -/

theorem any_fst_congr {c c' : List Cell} (h : ∀ x, x ∈ c ↔ x ∈ c') (o : Name) :
    (c.any fun (o', _) => o' == o) = (c'.any fun (o', _) => o' == o) := by
  rw [Bool.eq_iff_iff, List.any_eq_true, List.any_eq_true]
  exact ⟨fun ⟨x, hx, hp⟩ => ⟨x, (h x).mp hx, hp⟩, fun ⟨x, hx, hp⟩ => ⟨x, (h x).mpr hx, hp⟩⟩

theorem any_snd_congr {c c' : List Cell} (h : ∀ x, x ∈ c ↔ x ∈ c') (p : Name) :
    (c.any fun (_, p') => p' == p) = (c'.any fun (_, p') => p' == p) := by
  rw [Bool.eq_iff_iff, List.any_eq_true, List.any_eq_true]
  exact ⟨fun ⟨x, hx, hp⟩ => ⟨x, (h x).mp hx, hp⟩, fun ⟨x, hx, hp⟩ => ⟨x, (h x).mpr hx, hp⟩⟩

theorem step_sameSet_same {d d' : Defn} (h : d.SameSet d') (op : Op) :
    ResSameSet (d.step op) (d'.step op) := by
  obtain ⟨os, ps, c⟩ := d; obtain ⟨os', ps', c'⟩ := d'
  obtain ⟨h1, h2, h3⟩ := h
  simp only at h1 h2 h3
  subst h1 h2
  cases op with
  | setItem o p v =>
    refine ⟨⟨rfl, rfl, fun x => ?_⟩, rfl⟩
    cases v
    · simp only [Bool.false_eq_true, if_false, mem_pDiscard, h3]
    · simp only [if_true, mem_pAdd, h3]
  | renameObject old new =>
    simp only [Defn.step, bind, Except.bind]
    cases uReplace os old new with
    | error e => exact rfl
    | ok l =>
      refine ⟨⟨rfl, rfl, ?_⟩, rfl⟩
      rintro ⟨a, b⟩
      simp only [mem_renameObj, h3]
  | renameProperty old new =>
    simp only [Defn.step, bind, Except.bind]
    cases uReplace ps old new with
    | error e => exact rfl
    | ok l =>
      refine ⟨⟨rfl, rfl, ?_⟩, rfl⟩
      rintro ⟨a, b⟩
      simp only [mem_renameProp, h3]
  | moveObject o i =>
    simp only [Defn.step, bind, Except.bind]
    cases uMove os o i with
    | error e => exact rfl
    | ok l => exact ⟨⟨rfl, rfl, h3⟩, rfl⟩
  | moveProperty p i =>
    simp only [Defn.step, bind, Except.bind]
    cases uMove ps p i with
    | error e => exact rfl
    | ok l => exact ⟨⟨rfl, rfl, h3⟩, rfl⟩
  | addObject o qs =>
    refine ⟨⟨rfl, rfl, fun x => ?_⟩, rfl⟩
    simp only [mem_foldl_pAdd_row, h3]
  | addProperty p qs =>
    refine ⟨⟨rfl, rfl, fun x => ?_⟩, rfl⟩
    simp only [mem_foldl_pAdd_col, h3]
  | removeObject o =>
    simp only [Defn.step]
    split
    · refine ⟨⟨rfl, rfl, ?_⟩, rfl⟩
      rintro ⟨a, b⟩
      rw [mem_removeObj (d := ⟨os, ps, c⟩), mem_removeObj (d := ⟨os, ps, c'⟩)]
      simp only [h3]
    · exact rfl
  | removeProperty p =>
    simp only [Defn.step]
    split
    · refine ⟨⟨rfl, rfl, ?_⟩, rfl⟩
      rintro ⟨a, b⟩
      rw [mem_removeProp (d := ⟨os, ps, c⟩), mem_removeProp (d := ⟨os, ps, c'⟩)]
      simp only [h3]
    · exact rfl
  | removeEmptyObjects =>
    simp only [Defn.step, any_fst_congr h3]
    exact ⟨⟨rfl, rfl, h3⟩, rfl⟩
  | removeEmptyProperties =>
    simp only [Defn.step, any_snd_congr h3]
    exact ⟨⟨rfl, rfl, h3⟩, rfl⟩
  | setObject o qs =>
    refine ⟨⟨rfl, rfl, fun x => ?_⟩, rfl⟩
    simp only [mem_foldl_setRow, h3]
  | setProperty p qs =>
    refine ⟨⟨rfl, rfl, fun x => ?_⟩, rfl⟩
    simp only [mem_foldl_setCol, h3]
  | unionUpdate e ig =>
    simp only [Defn.step]
    rw [conflicts_congr (d := ⟨os, ps, c⟩) (d' := ⟨os, ps, c'⟩) ⟨rfl, rfl, h3⟩ (Defn.SameSet.refl e)]
    split
    · exact rfl
    · refine ⟨⟨rfl, rfl, fun x => ?_⟩, rfl⟩
      simp only [mem_foldl_pAdd, h3]
  | intersectionUpdate e ig =>
    simp only [Defn.step]
    rw [conflicts_congr (d := ⟨os, ps, c⟩) (d' := ⟨os, ps, c'⟩) ⟨rfl, rfl, h3⟩ (Defn.SameSet.refl e)]
    split
    · exact rfl
    · refine ⟨⟨rfl, rfl, fun x => ?_⟩, rfl⟩
      simp only [List.mem_filter, h3]

/-- the operand of `union_update` / `intersection_update` may be re-enumerated as well -/
theorem step_sameSet_operand (d : Defn) {op op' : Op} (h : op.SameSet op') :
    ResSameSet (d.step op) (d.step op') := by
  cases h with
  | same op => exact step_sameSet_same (Defn.SameSet.refl d) op
  | union ig he =>
    simp only [Defn.step]
    rw [conflicts_congr (Defn.SameSet.refl d) he]
    split
    · exact rfl
    · refine ⟨⟨?_, ?_, fun x => ?_⟩, rfl⟩
      · simp only [he.1]
      · simp only [he.2.1]
      · simp only [mem_foldl_pAdd, he.2.2]
  | inter ig he =>
    simp only [Defn.step]
    rw [conflicts_congr (Defn.SameSet.refl d) he]
    split
    · exact rfl
    · refine ⟨⟨?_, ?_, fun x => ?_⟩, rfl⟩
      · simp only [he.1]
      · simp only [he.2.1]
      · simp only [List.mem_filter, contains_congr he.2.2]

theorem ResSameSet.trans {a b c : Except Err (Defn × List Name)} (h : ResSameSet a b)
    (h' : ResSameSet b c) : ResSameSet a c := by
  rcases a with e | ⟨x, r⟩ <;> rcases b with e' | ⟨x', r'⟩ <;> rcases c with e'' | ⟨x'', r''⟩ <;>
    simp only [ResSameSet] at h h' ⊢
  · exact h.trans h'
  · exact ⟨h.1.trans h'.1, h.2.trans h'.2⟩

theorem step_sameSet {d d' : Defn} {op op' : Op} (h : d.SameSet d') (hop : op.SameSet op') :
    ResSameSet (d.step op) (d'.step op') :=
  (step_sameSet_same h op).trans (step_sameSet_operand d' hop)

/-- whole histories: related start states and related operands give related final states and the same
trace of return values / exception classes -/
theorem runTrace_sameSet {d d' : Defn} {ops ops' : List Op} (h : d.SameSet d')
    (hops : List.Forall₂ Op.SameSet ops ops') :
    (d.runTrace ops).1.SameSet (d'.runTrace ops').1 ∧ (d.runTrace ops).2 = (d'.runTrace ops').2 := by
  induction hops generalizing d d' with
  | nil => exact ⟨h, rfl⟩
  | @cons op op' ops ops' hop _ ih =>
    have hs := step_sameSet h hop
    unfold Defn.runTrace
    rcases h1 : d.step op with e | ⟨x, r⟩ <;> rcases h2 : d'.step op' with e' | ⟨x', r'⟩ <;>
      rw [h1, h2] at hs <;> simp only [ResSameSet] at hs
    · subst hs
      obtain ⟨i1, i2⟩ := ih h
      exact ⟨i1, by simp only [i2]⟩
    · obtain ⟨i1, i2⟩ := ih hs.1
      exact ⟨i1, by simp only [i2, hs.2]⟩

theorem forall₂_sameSet_refl (ops : List Op) : List.Forall₂ Op.SameSet ops ops := by
  induction ops with
  | nil => exact .nil
  | cons a t ih => exact .cons (.same a) ih

/-! ### deriving operations -/

theorem inverted_congr {d d' : Defn} (h : d.SameSet d') : d.inverted = d'.inverted := by
  obtain ⟨os, ps, c⟩ := d; obtain ⟨os', ps', c'⟩ := d'
  obtain ⟨h1, h2, h3⟩ := h
  simp only at h1 h2 h3
  subst h1 h2
  simp only [Defn.inverted, contains_congr h3]

theorem take_congr {d d' : Defn} (h : d.SameSet d') (a b : Option (List Name)) (r : Bool) :
    d.take a b r = d'.take a b r := by
  obtain ⟨os, ps, c⟩ := d; obtain ⟨os', ps', c'⟩ := d'
  obtain ⟨h1, h2, h3⟩ := h
  simp only at h1 h2 h3
  subst h1 h2
  simp only [Defn.take, contains_congr h3]

theorem transposed_sameSet {d d' : Defn} (h : d.SameSet d') : d.transposed.SameSet d'.transposed := by
  refine ⟨h.2.1, h.1, ?_⟩
  rintro ⟨a, b⟩
  simp only [Defn.transposed, List.mem_map, Prod.exists, Prod.mk.injEq]
  constructor
  · rintro ⟨x, y, hxy, rfl, rfl⟩; exact ⟨x, y, (h.2.2 _).mp hxy, rfl, rfl⟩
  · rintro ⟨x, y, hxy, rfl, rfl⟩; exact ⟨x, y, (h.2.2 _).mpr hxy, rfl, rfl⟩

/-! ### position of a replaced name -/

theorem idxOf_replace {l : List Name} {old new : Name} (hn : new ∉ l) (ho : old ∈ l) :
    (l.map fun x => if x == old then new else x).idxOf new = l.idxOf old := by
  induction l with
  | nil => simp at ho
  | cons x xs ih =>
    simp only [List.map_cons, List.idxOf_cons]
    by_cases hx : x = old
    · simp [hx]
    · have hx' : x ≠ new := fun e => hn (e ▸ List.mem_cons_self)
      have ho' : old ∈ xs := by
        rcases List.mem_cons.mp ho with e | e
        · exact absurd e.symm hx
        · exact e
      have hn' : new ∉ xs := fun e => hn (List.mem_cons_of_mem _ e)
      have e : (if (x == old) = true then new else x) = x := by simp [hx]
      have b1 : (x == new) = false := by simpa using hx'
      have b2 : (x == old) = false := by simpa using hx
      rw [e, b1, b2, cond_false, cond_false, ih hn' ho']

/-! ### erasing a row / column -/

theorem zip_filter_all {β : Type} {l : List Name} {bs : List β} {o : Name} (ho : o ∉ l)
    (hl : l.length = bs.length) : ((l.zip bs).filter fun x => x.1 != o).map (·.2) = bs := by
  rw [List.filter_eq_self.mpr]
  · exact List.map_snd_zip (by omega)
  · intro x hx
    have := (List.of_mem_zip hx).1
    simp only [bne_iff]
    rintro rfl
    exact ho this

/-- dropping the entries paired with `o` = erasing the position of `o` -/
theorem zip_filter_eraseIdx {β : Type} {l : List Name} {bs : List β} {o : Name} (hn : l.Nodup)
    (hl : l.length = bs.length) :
    ((l.zip bs).filter fun x => x.1 != o).map (·.2) = bs.eraseIdx (l.idxOf o) := by
  induction l generalizing bs with
  | nil =>
    cases bs with
    | nil => rfl
    | cons b bs' => simp at hl
  | cons x xs ih =>
    cases bs with
    | nil => simp at hl
    | cons b bs' =>
      have hl' : xs.length = bs'.length := by simpa using hl
      rw [List.nodup_cons] at hn
      by_cases hx : x = o
      · subst hx
        simp only [List.zip_cons_cons, List.filter_cons, bne_self_eq_false, Bool.false_eq_true,
          if_false, List.idxOf_cons_self, List.eraseIdx_zero, List.tail_cons]
        exact zip_filter_all hn.1 hl'
      · have b1 : (x != o) = true := by simpa using hx
        have b2 : (x == o) = false := by simpa using hx
        simp only [List.zip_cons_cons, List.filter_cons, b1, if_true, List.map_cons,
          List.idxOf_cons, b2, cond_false, List.eraseIdx_cons_succ, ih hn.2 hl']
end FCA
