import FCA.Generated.SortKeys
import FCA.Generated.Tolist
import FCA.Model.Misc
/-
C11 over the regenerated source: which orders `Lattice._fromlist(unordered=True)` (the `raw=True` loader) of the current
`lattices.py` uses to sort the stored concepts and their neighbor lists. Loading with the orders *named by the source* is
the model's `fromStored … true` — about which `C11_roundtrip_raw*` are proved.
-/
namespace FCA

def C11_orderOfName (n : Nat) : String → Option (Nat → Nat)
  | "shortlex" => some (shortlexKey n)
  | "longlex" => some (longlexKey n)
  | _ => none

/-- the `raw=True` branch of `fromStored` with the sort orders looked up in a configuration -/
def C11_fromStoredRawCfg (K : Ctx) (st : List Stored) (cfg : List (String × String)) : Option Lattice :=
  match (cfg.lookup "concepts").bind (C11_orderOfName K.n), (cfg.lookup "upper_neighbors").bind (C11_orderOfName K.n),
        (cfg.lookup "lower_neighbors").bind (C11_orderOfName K.n) with
  | some cKey, some upKey, some loKey =>
    let cs := st.map fun s => (ofMembers s.extent, ofMembers s.intent, s.upper, s.lower)
    let extents := cs.map (·.1)
    let order := sortStable (fun i => cKey (extents.getD i 0)) (List.range cs.length)
    let newPos := fun old => (indexOf? old order).getD 0
    let cs' := order.filterMap fun old => (cs[old]?).map fun (e, i, up, lo) =>
      (e, i, (sortStable (fun i => upKey (extents.getD i 0)) up).map newPos,
        (sortStable (fun i => loKey (extents.getD i 0)) lo).map newPos)
    some (finishLattice K cs')
  | _, _, _ => none

/-- with the sort orders the current source names, the `raw=True` loader is the model's `fromStored K st true` -/
theorem C11_generated_fromStored_raw (K : Ctx) (st : List Stored) :
    C11_fromStoredRawCfg K st Generated.fromlist_sort_cfg = some (fromStored K st true) := by
  simp [C11_fromStoredRawCfg, Generated.fromlist_sort_cfg, List.lookup, C11_orderOfName, fromStored]

/-! ### `Lattice._tolist` -/

/-- one part of a stored concept, by (attribute of the concept, conversion): bit sets are listed by `iter_set` (ascending member
indexes, `bitsets` contract), neighbor tuples by the `index` of their members (the model stores neighbors as indexes already) -/
def C11_partOfCfg (K : Ctx) (c : LConcept) : String × String → Option (List Nat)
  | ("_extent", "iter_set") => some (membersW K.n c.extent)
  | ("_intent", "iter_set") => some (membersW K.m c.intent)
  | ("upper_neighbors", "index") => some c.upper
  | ("lower_neighbors", "index") => some c.lower
  | _ => none

/-- `_tolist()` of the current source writes, per concept, the four parts of the model's `toStored`, in its order -/
theorem C11_generated_tolist (K : Ctx) (L : Lattice) :
    L.map (fun c => Generated.tolist_cfg.map (C11_partOfCfg K c)) =
      (toStored K L).map fun s => [some s.extent, some s.intent, some s.upper, some s.lower] := by
  simp [toStored, Generated.tolist_cfg, C11_partOfCfg]

end FCA
#print axioms FCA.C11_generated_fromStored_raw
#print axioms FCA.C11_generated_tolist
