"""C14 - derived definitions are correct and unaliased; Context <-> Definition are inverse."""
import itertools
from core import guard
from props import defs

POOL = [
    (('a',), ('p',), ((True,),)),
    (('a', 'b'), ('p', 'q'), ((True, False), (False, True))),
    (('b', 'a'), ('q', 'p'), ((True, True), (False, True))),
    (('a', 'b'), ('p', 'q'), ((True, False), (True, True))),
    (('a', 'c'), ('q', 'r'), ((False, False), (True, True))),
    (('c', 'd'), ('r', 's'), ((True, False), (True, True))),
    (('a', 'b', 'c'), ('p', 'q', 'r'), ((True, True, False), (False, True, True), (False, False, False))),
    ((), (), ()),
    (('b',), ('q', 'p', 'r'), ((False, True, True),)),
    (('c', 'a'), ('p', 's'), ((False, False), (True, False))),   # adds names but no new true cell to pool[0], pool[1]
    (('e',), ('t',), ((False,),)),                                # names only
]

EDITS = [
    ('setitem', 'a', 'p', False), ('setitem', 'a', 'p', True), ('setitem', 'z', 'w', True),
    ('rename_object', 'a', 'k'), ('rename_property', 'p', 'k'), ('rename_property', 'q', 'k'),
    ('move_object', 'a', 5), ('move_object', 'b', 0), ('move_property', 'q', 0), ('move_property', 'p', 3),
    ('add_object', 'n', ['p', 'new']), ('add_property', 'm', ['a', 'new']),
    ('remove_object', 'a'), ('remove_object', 'b'), ('remove_property', 'p'), ('remove_property', 'q'),
    ('remove_empty_objects',), ('remove_empty_properties',),
    ('set_object', 'a', ['q']), ('set_property', 'p', ['b']),
]


def derive_ops():
    ops = [('copy',), ('inverted',), ('transposed',)]     # deepcopy / pickle are not named by C14: their determinism is checked in C17
    for ig in (False, True):
        ops += [('union', ig), ('intersection', ig)]
    ops += [('op_or',), ('op_and',), ('op_invert',), ('op_neg',)]
    takes = [(None, None), (['a'], None), (None, ['q']), (['b', 'a'], ['q', 'p']), (['a', 'zz'], ['p']),
             ([], None), (['a', 'a'], ['p', 'yy', 'p'])]
    for o, p in takes:
        for reorder in (False, True):
            ops.append(('take', o, p, reorder))
    return ops


def do_derive(op, x, y):
    k = op[0]
    if k == 'copy':
        return x.copy()
    if k == 'deepcopy':
        import copy
        return copy.deepcopy(x)
    if k == 'pickle':
        import pickle
        return pickle.loads(pickle.dumps(x))
    if k == 'inverted':
        return x.inverted()
    if k == 'transposed':
        return x.transposed()
    if k == 'op_invert':
        return ~x
    if k == 'op_neg':
        return -x
    if k == 'union':
        return x.union(y, ignore_conflicts=op[1])
    if k == 'intersection':
        return x.intersection(y, ignore_conflicts=op[1])
    if k == 'op_or':
        return x | y
    if k == 'op_and':
        return x & y
    if k == 'take':
        return x.take(op[1], op[2], reorder=op[3])
    raise AssertionError(k)


def derive_line(op, s, u, t):
    k = op[0]
    if k in ('copy', 'deepcopy', 'pickle'):
        return 'dcopy %d %d' % (s, t)
    if k in ('inverted', 'op_invert'):
        return 'dinverted %d %d' % (s, t)
    if k in ('transposed', 'op_neg'):
        return 'dtransposed %d %d' % (s, t)
    if k == 'union':
        return 'dunion %d %d %d %d' % (s, u, op[1], t)
    if k == 'intersection':
        return 'dinter %d %d %d %d' % (s, u, op[1], t)
    if k == 'op_or':
        return 'dunion %d %d 0 %d' % (s, u, t)
    if k == 'op_and':
        return 'dinter %d %d 0 %d' % (s, u, t)
    if k == 'take':
        return 'dtake %d %s %s %d %d' % (s, 'None' if op[1] is None else defs.names(op[1]),
                                         'None' if op[2] is None else defs.names(op[2]), op[3], t)


def run(run):
    from concepts import Definition, Context
    run.rule = ('all ordered pairs from a pool of 9 small definitions (overlapping / disjoint names, conflicting / compatible cells) x '
                'all deriving operations (copy, union, intersection with and without ignore_conflicts, | & ~ -, take with 7 argument '
                'shapes x reorder, transposed, inverted) x every single follow-up edit (20 edits) applied to a source or to the result; '
                'after the edit ALL definitions are compared with the model\'s value-semantics slots; plus Context <-> Definition round '
                'trips, equality, shape, fill_ratio, table text and crc32; quick tier samples the follow-up edits')
    drv = run.driver
    rng = run.rng
    dops = derive_ops()
    setup = [defs.dnew_line(k, *t) for k, t in enumerate(POOL)]
    pairs = list(itertools.product(range(len(POOL)), repeat=2))
    edits_per = 3 if run.tier == 'quick' else len(EDITS)
    import time
    phase_deadline = None if run.deadline is None else time.time() + 0.6 * (run.deadline - time.time())   # leave time for the tables
    for a, b in pairs:
        if phase_deadline is not None and time.time() > phase_deadline:
            run.notes.append('derive-then-edit stopped at its share of the deadline')
            break
        for op in dops:
            unary = op[0] in ('copy', 'inverted', 'transposed', 'op_invert', 'op_neg', 'take')
            if unary and b != 0:
                continue
            line = derive_line(op, a, b, 50)
            edits = [None] + (EDITS if edits_per == len(EDITS) else rng.sample(EDITS, edits_per))
            for edit in edits:
                for target in ((50, a, b) if edit is not None else (None,)):
                    reqs = [setup[a], setup[b], line]
                    with guard(run, lambda: 'derive %r from pool[%d], pool[%d] then %r on slot %r' % (op, a, b, edit, target), reqs):
                        world = {a: Definition(*POOL[a])}
                        world.setdefault(b, Definition(*POOL[b]))
                        drv.ask_many(reqs[:2])
                        ans = drv.ask(line)
                        try:
                            world[50] = do_derive(op, world[a], world[b])
                            got = 'ok ' + defs.state(world[50])
                        except ValueError as exc:
                            got = 'ValueError'
                            listed = defs.conflict_pairs(str(exc))
                            if listed is not None:
                                rq = 'dconflicts %d %d' % (a, b)
                                wantc = drv.ask(rq)
                                if listed != wantc:
                                    run.fail('pairs listed in the conflict message of %r on pool[%d], pool[%d]' % (op, a, b), listed, wantc, reqs + [rq])
                        except KeyError as e:
                            got = 'KeyError %s' % defs.names(e.args[0])
                        if got != ans:
                            run.fail('result of %r on pool[%d], pool[%d]' % (op, a, b), got, ans, reqs)
                        if edit is not None and target in world:
                            res = defs.apply_op(world[target], edit, world)
                            eline = defs.op_line(target, edit)
                            reqs = reqs + [eline]
                            drv.ask(eline)
                        for slot in sorted(world):
                            m = drv.ask('dget %d' % slot)
                            g = defs.state(world[slot])
                            if g != m:
                                run.fail('slot %d after deriving %r from pool[%d], pool[%d] and editing slot %r with %r'
                                         % (slot, op, a, b, target, edit), g, m, reqs + ['dget %d' % slot])
                    run.case('%d|%d|%r|%r|%r' % (a, b, op, edit, target), True,
                             {'sources': [POOL[a], POOL[b]], 'derive': repr(op), 'edit': repr(edit), 'edited slot': target})
            run.count(op[0])
    # Context <-> Definition
    import gen
    import zlib
    for tab in gen.suite(rng, run.tier, exh_quick=6, rand_quick=150, wide_quick=5, exh_thorough=9, rand_thorough=2000):
        n, m, rows = tab
        if not run.time_left():
            break
        objs = ['o%d' % ((i * 7 + 3) % 10007) for i in range(n)]
        props = ['p%d' % ((j * 5 + 2) % 10009) for j in range(m)]
        bools = [tuple(bool((r >> j) & 1) for j in range(m)) for r in rows]
        line = defs.dnew_line(0, objs, props, bools)
        with guard(run, 'Context <-> Definition round trip', [line, 'dctx 0']):
            d = Definition(objs, props, bools)
            c = Context(*d)
            d2 = c.definition()
            ans = drv.ask(line)
            if 'ok ' + defs.state(d2) != ans:
                run.fail('Context(*d).definition()', defs.state(d2), ans, [line])
            if not (d2 == d) or (d2 != d):
                run.fail('Context(*d).definition() != d', defs.state(d2), defs.state(d), [line])
            c2 = Context(*d2)
            if not (c2 == c) or (c2 != c):
                run.fail('Context(*c.definition()) != c', None, None, [line])
            mans = drv.ask('dctx 0')
            want = 'ok %d %d %s' % (n, m, ','.join(map(str, rows)))
            if mans != want:
                run.fail('model: context of definition', mans, want, [line, 'dctx 0'])
            if tuple(c.shape) != tuple(d.shape) or c.fill_ratio != d.fill_ratio:
                run.fail('shape / fill_ratio differ between context and definition', [tuple(c.shape), c.fill_ratio], [tuple(d.shape), d.fill_ratio], [line])
            msh = drv.ask('dshape 0')
            gsh = '%d %d %d' % (d.shape[0], d.shape[1], d.fill_ratio.numerator * (n * m // d.fill_ratio.denominator))
            if msh != gsh:
                run.fail('shape / number of true cells of the definition', gsh, msh, [line, 'dshape 0'])
            true_cells = sum(bin(r).count('1') for r in rows)
            if tuple(c.shape) != (n, m) or (c.fill_ratio.numerator * n * m != true_cells * c.fill_ratio.denominator):
                run.fail('shape / fill_ratio wrong', [tuple(c.shape), str(c.fill_ratio)], [(n, m), '%d/%d' % (true_cells, n * m)], [line])
            if c.tostring() != d.tostring() or c.crc32() != d.crc32():
                run.fail('table string / crc32 differ between context and definition', c.tostring(), d.tostring(), [line])
            if c.crc32() != '%x' % (zlib.crc32(c.tostring().encode('utf-8')) & 0xffffffff):
                run.fail('crc32 is not the crc of the table text', c.crc32(), None, [line])
            repr(c), str(c)
            for enc in ('utf-16', 'utf-8', 'utf-32'):
                want_crc = '%x' % (zlib.crc32(c.tostring().encode(enc)) & 0xffffffff)
                if c.crc32(enc) != want_crc or d.crc32(encoding=enc) != want_crc:
                    run.fail('crc32(%r) of context / definition' % enc, [c.crc32(enc), d.crc32(encoding=enc)], want_crc, [line])
            # contexts are equal exactly when their triples are equal
            rows2 = list(rows)
            rows2[rng.randrange(n)] ^= 1 << rng.randrange(m)
            c3 = Context(objs, props, [tuple(bool((r >> j) & 1) for j in range(m)) for r in rows2])
            if (c3 == c) or not (c3 != c):
                run.fail('contexts with different tables compare equal', None, None, [line])
            props4 = list(props)
            props4[rng.randrange(m)] = 'renamed'
            c4 = Context(objs, props4, bools)
            c5 = Context(objs, props + ['extra'], [tuple(r) + (False,) for r in bools])
            if (c4 == c) or not (c4 != c) or (c5 == c) or not (c5 != c):
                run.fail('contexts with different property tuples compare equal', None, None, [line])
            objs7 = list(objs)
            objs7[rng.randrange(n)] = 'renamed object'
            c7 = Context(objs7, props, bools)
            if (c7 == c) or not (c7 != c) or (c == c7) or not (c != c7):
                run.fail('contexts with different object tuples compare equal (== / != must be complementary)', None, None, [line])
            if not (Context(objs, props, bools) == c) or (Context(objs, props, bools) != c):
                run.fail('equal contexts: == / != are not complementary', None, None, [line])
            d.shape, d.fill_ratio            # read, edit, read again: cached attributes must not go stale
            d.add_object('fresh-object', [props[0]])
            c6 = Context(*d)
            if tuple(c6.shape) != tuple(d.shape) or c6.fill_ratio != d.fill_ratio or tuple(d.shape) != (n + 1, m):
                run.fail('shape / fill_ratio of an edited definition differ from its context', [tuple(d.shape), str(d.fill_ratio)], [tuple(c6.shape), str(c6.fill_ratio)], [line])
        run.case(line, gen.nontrivial(tab))
        run.count('context<->definition')
