import FCA.Generated.SortKeys
import FCA.Model.Lattice
/-
C06 over the regenerated source: which order of the extents (`shortlex` / `longlex`) `Lattice.__init__` and `_init` of the
current `lattices.py` use to sort the upper neighbors, the lower neighbors and the concepts for `dindex`. Assembling the
lattice with the orders *named by the source* is the model's `assemble` — about which `C06_*` are proved.
-/
namespace FCA

/-- the numeric key of a bitset order, by the name of the `bitsets` method -/
def C06_orderOfName (n : Nat) : String → Option (Nat → Nat)
  | "shortlex" => some (shortlexKey n)
  | "longlex" => some (longlexKey n)
  | _ => none

/-- `assemble` with the three sort orders looked up in a configuration `(what is sorted, order name)` -/
def C06_assembleCfg (K : Ctx) (recs : List Rec) (cfg : List (String × String)) : Option Lattice :=
  match (cfg.lookup "upper_neighbors").bind (C06_orderOfName K.n), (cfg.lookup "lower_neighbors").bind (C06_orderOfName K.n),
        (cfg.lookup "dindex").bind (C06_orderOfName K.n) with
  | some upKey, some loKey, some dKey =>
    let extents := recs.map (·.extent)
    let dorder := sortBy (fun i => dKey (extents.getD i 0)) (List.range recs.length)
    let uppers := recs.map fun r => sortBy (fun i => upKey (extents.getD i 0)) (toIndexes extents r.upper)
    let atoms := uppers.headD []
    some ((List.range recs.length).filterMap fun k =>
      match recs[k]? with
      | none => none
      | some r =>
        some { extent := r.extent, intent := r.intent
               upper := uppers.getD k []
               lower := sortBy (fun i => loKey (extents.getD i 0)) (toIndexes extents r.lower)
               index := k
               dindex := (indexOf? k dorder).getD 0
               atoms := atoms.filter fun a => r.extent ||| extents.getD a 0 == r.extent
               objects := objectLabels K r.extent
               properties := propertyLabels K r.extent })
  | _, _, _ => none

/-- with the sort orders the current source names, `Lattice.__init__` + `_init` is the model's `assemble` -/
theorem C06_generated_assemble (K : Ctx) (recs : List Rec) :
    C06_assembleCfg K recs Generated.init_sort_cfg = some (assemble K recs) := by
  simp only [C06_assembleCfg, Generated.init_sort_cfg, List.lookup, C06_orderOfName, Option.bind, assemble,
    show ("lower_neighbors" == "upper_neighbors") = false from by decide,
    show ("dindex" == "upper_neighbors") = false from by decide, show ("dindex" == "lower_neighbors") = false from by decide,
    show ("upper_neighbors" == "upper_neighbors") = true from by decide, show ("lower_neighbors" == "lower_neighbors") = true from by decide,
    show ("dindex" == "dindex") = true from by decide]
  rfl

/-- hence `context.lattice` -/
theorem C06_generated_mkLattice (K : Ctx) :
    C06_assembleCfg K (lindigLattice K) Generated.init_sort_cfg = some (mkLattice K) :=
  C06_generated_assemble K _

end FCA
#print axioms FCA.C06_generated_assemble
#print axioms FCA.C06_generated_mkLattice
