import FCA.Model.Formats
import Mathlib.Tactic
/-
String primitive lemmas for the text formats (`FCA/Model/Formats.lean`): `splitChar`,
`partitionChar`, `joinWith`, `unlines`, `strip`/`stripBar`, `ljust`, `splitBlank`, `splitWs`,
`parseNat?`.
-/
namespace FCA

/-! ### splitChar -/

theorem splitChar_ne_nil (sep : Char) (s : Str) : splitChar sep s ≠ [] := by
  cases s with
  | nil => simp [splitChar]
  | cons c cs =>
    simp only [splitChar]
    split
    · simp
    · split <;> simp

theorem splitChar_cons_sep (sep : Char) (s : Str) :
    splitChar sep (sep :: s) = [] :: splitChar sep s := by
  have h := splitChar_ne_nil sep s
  simp only [splitChar]
  split
  · contradiction
  · simp_all

theorem splitChar_cons_ne {sep c : Char} (h : c ≠ sep) (s : Str) :
    splitChar sep (c :: s) =
      (c :: (splitChar sep s).headD []) :: (splitChar sep s).tail := by
  have h' := splitChar_ne_nil sep s
  simp only [splitChar]
  split
  · contradiction
  · rename_i hd tl heq
    simp [heq, h]

theorem splitChar_nosep {sep : Char} {s : Str} (h : sep ∉ s) : splitChar sep s = [s] := by
  induction s with
  | nil => simp [splitChar]
  | cons c cs ih =>
    simp only [List.mem_cons, not_or] at h
    rw [splitChar_cons_ne (Ne.symm h.1), ih h.2]
    simp

theorem splitChar_append_sep {sep : Char} {a : Str} (h : sep ∉ a) (b : Str) :
    splitChar sep (a ++ sep :: b) = a :: splitChar sep b := by
  induction a with
  | nil => simpa using splitChar_cons_sep sep b
  | cons c cs ih =>
    simp only [List.mem_cons, not_or] at h
    rw [List.cons_append, splitChar_cons_ne (Ne.symm h.1), ih h.2]
    simp

theorem joinWith_cons_cons (sep x y : Str) (l : List Str) :
    joinWith sep (x :: y :: l) = x ++ sep ++ joinWith sep (y :: l) := by
  simp [joinWith]

/-- `sep.join(parts).split(sep) == parts` when no part contains the separator -/
theorem splitChar_joinWith {sep : Char} {parts : List Str} (hne : parts ≠ [])
    (h : ∀ p ∈ parts, sep ∉ p) : splitChar sep (joinWith [sep] parts) = parts := by
  induction parts with
  | nil => contradiction
  | cons x xs ih =>
    cases xs with
    | nil => simpa [joinWith] using splitChar_nosep (h x (by simp))
    | cons y ys =>
      rw [joinWith_cons_cons, List.append_assoc, List.singleton_append,
        splitChar_append_sep (h x (by simp)), ih (by simp)]
      intro p hp; exact h p (by simp [hp])

theorem not_mem_joinWith {c : Char} {sep : Str} {parts : List Str} (hs : c ∉ sep)
    (h : ∀ p ∈ parts, c ∉ p) : c ∉ joinWith sep parts := by
  induction parts with
  | nil => simp [joinWith]
  | cons x xs ih =>
    cases xs with
    | nil => simpa [joinWith] using h x (by simp)
    | cons y ys =>
      rw [joinWith_cons_cons]
      simp only [List.mem_append, not_or]
      refine ⟨⟨h x (by simp), hs⟩, ih ?_⟩
      intro p hp; exact h p (by simp [hp])

/-! ### unlines -/

theorem unlines_cons (l : Str) (ls : List Str) : unlines (l :: ls) = l ++ '\n' :: unlines ls := by
  simp [unlines]

theorem unlines_nil : unlines [] = [] := rfl

/-- text of `print`ed lines without the last line break is the lines joined with `\n` -/
theorem unlines_eq_joinWith {ls : List Str} (hne : ls ≠ []) :
    unlines ls = joinWith ['\n'] ls ++ ['\n'] := by
  induction ls with
  | nil => contradiction
  | cons x xs ih =>
    cases xs with
    | nil => simp [unlines, joinWith]
    | cons y ys =>
      rw [unlines_cons, ih (by simp), joinWith_cons_cons]
      simp

/-- `'\n'.join(lines).split('\n') == lines` -/
theorem splitChar_nl_joinWith {ls : List Str} (hne : ls ≠ []) (h : ∀ l ∈ ls, '\n' ∉ l) :
    splitChar '\n' (joinWith ['\n'] ls) = ls := splitChar_joinWith hne h

/-! ### partitionChar -/

theorem partitionChar_nosep {sep : Char} {s : Str} (h : sep ∉ s) :
    partitionChar sep s = (s, false, []) := by
  induction s with
  | nil => rfl
  | cons c cs ih =>
    simp only [List.mem_cons, not_or] at h
    simp [partitionChar, Ne.symm h.1, ih h.2]

theorem partitionChar_append_sep {sep : Char} {a : Str} (h : sep ∉ a) (b : Str) :
    partitionChar sep (a ++ sep :: b) = (a, true, b) := by
  induction a with
  | nil => simp [partitionChar]
  | cons c cs ih =>
    simp only [List.mem_cons, not_or] at h
    simp [partitionChar, Ne.symm h.1, ih h.2]

/-! ### strip -/

theorem lstripBy_append_left {p : Char → Bool} {a : Str} (h : ∀ c ∈ a, p c = true) (s : Str) :
    lstripBy p (a ++ s) = lstripBy p s := by
  induction a with
  | nil => rfl
  | cons c cs ih =>
    simp only [List.mem_cons, forall_eq_or_imp] at h
    simp only [lstripBy, List.cons_append, List.dropWhile_cons, h.1, if_true]
    exact ih h.2

theorem lstripBy_of_head {p : Char → Bool} {s : Str} (h : ∀ c ∈ s.head?, p c = false) :
    lstripBy p s = s := by
  cases s with
  | nil => rfl
  | cons c cs =>
    have := h c (by simp)
    simp [lstripBy, this]

theorem rstripBy_append_right {p : Char → Bool} {a : Str} (h : ∀ c ∈ a, p c = true) (s : Str) :
    rstripBy p (s ++ a) = rstripBy p s := by
  unfold rstripBy
  rw [List.reverse_append]
  have := lstripBy_append_left (p := p) (a := a.reverse) (by simpa using h) s.reverse
  simp only [lstripBy] at this
  rw [this]

theorem rstripBy_of_last {p : Char → Bool} {s : Str} (h : ∀ c ∈ s.getLast?, p c = false) :
    rstripBy p s = s := by
  unfold rstripBy
  have := lstripBy_of_head (p := p) (s := s.reverse) (by simpa using h)
  simp only [lstripBy] at this
  rw [this, List.reverse_reverse]

/-- stripping removes a run of strippable characters on each side of a string whose ends are
not strippable -/
theorem stripBy_pad {p : Char → Bool} {a b s : Str} (ha : ∀ c ∈ a, p c = true)
    (hb : ∀ c ∈ b, p c = true) (hh : ∀ c ∈ s.head?, p c = false)
    (hl : ∀ c ∈ s.getLast?, p c = false) : stripBy p (a ++ s ++ b) = s := by
  unfold stripBy
  rw [List.append_assoc, lstripBy_append_left ha]
  cases s with
  | nil =>
    have : lstripBy p ([] ++ b) = [] := by
      have := lstripBy_append_left hb []
      simpa [lstripBy] using this
    rw [this]; rfl
  | cons c cs =>
    rw [lstripBy_of_head (by simpa using hh), rstripBy_append_right hb, rstripBy_of_last hl]

theorem stripBy_id {p : Char → Bool} {s : Str} (hh : ∀ c ∈ s.head?, p c = false)
    (hl : ∀ c ∈ s.getLast?, p c = false) : stripBy p s = s := by
  simpa using stripBy_pad (p := p) (a := []) (b := []) (s := s) (by simp) (by simp) hh hl

theorem stripBy_all {p : Char → Bool} {a : Str} (ha : ∀ c ∈ a, p c = true) : stripBy p a = [] := by
  simpa using stripBy_pad (p := p) (a := a) (b := []) (s := []) ha (by simp) (by simp) (by simp)

theorem isSpace_space : isSpace ' ' = true := by decide
theorem isSpace_nl : isSpace '\n' = true := by decide

/-- `('%-*s' % (w, s)).strip() == s` for a label without leading/trailing whitespace -/
theorem strip_ljust {s : Str} (w : Nat) (hh : ∀ c ∈ s.head?, isSpace c = false)
    (hl : ∀ c ∈ s.getLast?, isSpace c = false) : strip (ljust w s) = s := by
  unfold strip ljust
  have := stripBy_pad (p := isSpace) (a := []) (b := List.replicate (w - s.length) ' ') (s := s)
    (by simp) (by intro c hc; rw [List.eq_of_mem_replicate hc]; exact isSpace_space) hh hl
  simpa using this

theorem strip_replicate_space (n : Nat) : strip (List.replicate n ' ') = [] :=
  stripBy_all (by intro c hc; rw [List.eq_of_mem_replicate hc]; exact isSpace_space)

/-! ### splitBlank -/

theorem splitBlank_ne_nil (s : Str) : splitBlank s ≠ [] := by
  fun_induction splitBlank s <;> simp_all

theorem splitBlank_cons_of_ne {c : Char} (hc : c ≠ '\n') (s : Str) :
    splitBlank (c :: s) = (c :: (splitBlank s).headD []) :: (splitBlank s).tail := by
  have h' := splitBlank_ne_nil s
  rw [splitBlank.eq_def]
  split
  · simp_all
  · simp_all
  · rename_i c' cs hnot heq
    simp only [List.cons.injEq] at heq
    obtain ⟨rfl, rfl⟩ := heq
    split
    · contradiction
    · rename_i hd tl heq2; simp [heq2]

theorem splitBlank_nl_cons_of_ne {c : Char} (hc : c ≠ '\n') (s : Str) :
    splitBlank ('\n' :: c :: s) =
      ('\n' :: (splitBlank (c :: s)).headD []) :: (splitBlank (c :: s)).tail := by
  have h' := splitBlank_ne_nil (c :: s)
  rw [splitBlank.eq_def]
  split
  · simp_all
  · rename_i heq; simp only [List.cons.injEq, true_and] at heq; exact absurd heq.1 hc
  · rename_i c' cs hnot heq
    simp only [List.cons.injEq] at heq
    obtain ⟨rfl, rfl⟩ := heq
    split
    · contradiction
    · rename_i hd tl heq2; simp [heq2]

theorem splitBlank_nl_nl (s : Str) : splitBlank ('\n' :: '\n' :: s) = [] :: splitBlank s := by
  rw [splitBlank]

/-- a text has no blank line inside and does not end with a line break -/
def NoBlank : Str → Prop
  | [] => True
  | ['\n'] => False
  | '\n' :: '\n' :: _ => False
  | _ :: cs => NoBlank cs

theorem NoBlank_cons_of_ne {c : Char} (hc : c ≠ '\n') (s : Str) : NoBlank (c :: s) ↔ NoBlank s := by
  rw [NoBlank.eq_def]
  split <;> simp_all

theorem NoBlank_nl_cons {c : Char} (hc : c ≠ '\n') (s : Str) :
    NoBlank ('\n' :: c :: s) ↔ NoBlank (c :: s) := by
  conv_lhs => rw [NoBlank.eq_def]
  split <;> simp_all

theorem splitBlank_noBlank {s : Str} (h : NoBlank s) : splitBlank s = [s] := by
  induction s with
  | nil => rfl
  | cons c cs ih =>
    by_cases hc : c = '\n'
    · subst hc
      cases cs with
      | nil => simp [NoBlank] at h
      | cons d ds =>
        by_cases hd : d = '\n'
        · subst hd; simp [NoBlank] at h
        · rw [splitBlank_nl_cons_of_ne hd, ih ((NoBlank_nl_cons hd ds).1 h)]; simp
    · rw [splitBlank_cons_of_ne hc, ih ((NoBlank_cons_of_ne hc cs).1 h)]; simp

/-- `(a + '\n\n' + b).split('\n\n') == [a] + b.split('\n\n')` when `a` has no blank line and
`b` does not start with a line break -/
theorem splitBlank_append {a : Str} (h : NoBlank a) (b : Str) :
    splitBlank (a ++ '\n' :: '\n' :: b) = a :: splitBlank b := by
  induction a with
  | nil => simpa using splitBlank_nl_nl b
  | cons c cs ih =>
    by_cases hc : c = '\n'
    · subst hc
      cases cs with
      | nil => simp [NoBlank] at h
      | cons d ds =>
        by_cases hd : d = '\n'
        · subst hd; simp [NoBlank] at h
        · have := ih ((NoBlank_nl_cons hd ds).1 h)
          rw [List.cons_append, List.cons_append, splitBlank_nl_cons_of_ne hd,
            ← List.cons_append, this]; simp
    · rw [List.cons_append, splitBlank_cons_of_ne hc, ih ((NoBlank_cons_of_ne hc cs).1 h)]; simp

theorem NoBlank_of_not_mem {s : Str} (h : '\n' ∉ s) : NoBlank s := by
  induction s with
  | nil => trivial
  | cons c cs ih =>
    simp only [List.mem_cons, not_or] at h
    exact (NoBlank_cons_of_ne (Ne.symm h.1) cs).2 (ih h.2)

/-- non-empty lines without line breaks joined by `\n` contain no blank line -/
theorem NoBlank_joinWith {ls : List Str} (h : ∀ l ∈ ls, l ≠ [] ∧ '\n' ∉ l) :
    NoBlank (joinWith ['\n'] ls) := by
  induction ls with
  | nil => trivial
  | cons x xs ih =>
    cases xs with
    | nil => simpa [joinWith] using NoBlank_of_not_mem (h x (by simp)).2
    | cons y ys =>
      have ih' := ih (by intro l hl; exact h l (by simp [hl]))
      have hy := h y (by simp)
      obtain ⟨hx1, hx2⟩ := h x (by simp)
      rw [joinWith_cons_cons]
      -- the tail starts with a non-newline character
      obtain ⟨d, ds, hd1, hd2⟩ : ∃ d ds, joinWith ['\n'] (y :: ys) = d :: ds ∧ d ≠ '\n' := by
        cases y with
        | nil => exact absurd rfl hy.1
        | cons d ds =>
          have hdn : d ≠ '\n' := by
            intro e; apply hy.2; simp [e]
          cases ys with
          | nil => exact ⟨d, ds, by simp [joinWith], hdn⟩
          | cons z zs => exact ⟨d, ds ++ ['\n'] ++ joinWith ['\n'] (z :: zs), by
              rw [joinWith_cons_cons]; simp, hdn⟩
      rw [hd1] at ih' ⊢
      clear hd1 h ih hy
      induction x with
      | nil => exact absurd rfl hx1
      | cons c cs ihx =>
        simp only [List.mem_cons, not_or] at hx2
        rw [List.cons_append, List.cons_append, NoBlank_cons_of_ne (Ne.symm hx2.1)]
        cases cs with
        | nil => simpa using (NoBlank_nl_cons hd2 ds).2 ih'
        | cons e es => exact ihx (by simp) hx2.2

/-! ### splitWs -/

theorem splitWs_go_nospace {s : Str} (h : ∀ c ∈ s, isSpace c = false) (cur rest : Str) :
    splitWs.go (s ++ rest) cur = splitWs.go rest (s.reverse ++ cur) := by
  induction s generalizing cur with
  | nil => rfl
  | cons c cs ih =>
    simp only [List.mem_cons, forall_eq_or_imp] at h
    simp only [List.cons_append, splitWs.go, h.1, Bool.false_eq_true, if_false]
    rw [ih h.2]; simp

/-- `(a + '\n' + b).split() == [a, b]` for non-empty words without whitespace -/
theorem splitWs_two {a b : Str} (ha : ∀ c ∈ a, isSpace c = false) (hb : ∀ c ∈ b, isSpace c = false)
    (hane : a ≠ []) (hbne : b ≠ []) : splitWs (a ++ '\n' :: b) = [a, b] := by
  unfold splitWs
  rw [splitWs_go_nospace ha]
  have h1 : (a.reverse ++ []).isEmpty = false := by
    cases a with
    | nil => contradiction
    | cons => simp
  simp only [splitWs.go, isSpace_nl, if_true, h1, Bool.false_eq_true, if_false]
  have := splitWs_go_nospace hb [] []
  simp only [List.append_nil] at this
  rw [this]
  have h2 : b.reverse.isEmpty = false := by
    cases b with
    | nil => contradiction
    | cons => simp
  simp [splitWs.go, h2]

/-! ### parseNat? -/

theorem isSpace_of_isDigit {c : Char} (h : c.isDigit = true) : isSpace c = false := by
  simp only [Char.isDigit, Bool.and_eq_true, decide_eq_true_eq] at h
  have h1 : 48 ≤ c.toNat := by
    have := h.1
    rw [ge_iff_le, UInt32.le_iff_toNat_le] at this
    exact this
  have h2 : c.toNat ≤ 57 := by
    have := h.2
    rw [UInt32.le_iff_toNat_le] at this
    exact this
  unfold isSpace pyWhitespace
  generalize c.toNat = n at *
  interval_cases n <;> rfl

/-- `int(str(n)) == n` -/
theorem parseNat?_toString (n : Nat) : parseNat? (toString n).toList = some n := by
  have hne : (Nat.toDigits 10 n).isEmpty = false := by
    have := Nat.toDigits_ne_nil (n := n) (b := 10)
    cases h : Nat.toDigits 10 n with
    | nil => contradiction
    | cons => rfl
  have hall : (Nat.toDigits 10 n).all Char.isDigit = true := by
    rw [List.all_eq_true]
    intro c hc
    exact Nat.isDigit_of_mem_toDigits (by decide) (by decide) hc
  have := Nat.ofDigitChars_ten_toDigits (n := n)
  simp only [Nat.ofDigitChars_eq_foldl] at this
  simp only [parseNat?, Nat.toString_eq_repr, Nat.toList_repr, hne, hall]
  simpa using this

theorem toString_nat_ne_nil (n : Nat) : (toString n).toList ≠ [] := by
  simp

theorem toString_nat_nospace (n : Nat) : ∀ c ∈ (toString n).toList, isSpace c = false := by
  intro c hc
  simp only [Nat.toString_eq_repr, Nat.toList_repr] at hc
  exact isSpace_of_isDigit (Nat.isDigit_of_mem_toDigits (by decide) (by decide) hc)

end FCA
