import FCA.Model.Formats
import FCA.Generated.Formats
/-
C12: the constants the format model is written with are the ones in the current source
(`concepts/formats/*.py`) and in the running CPython (`str.isspace`), regenerated on every run.
-/
namespace FCA

/-- the model's whitespace set is exactly CPython's `str.isspace()` set -/
theorem C12_generated_whitespace : Generated.pyWhitespace = pyWhitespace := by decide

/-- cxt cells are written `X` / `.` -/
theorem C12_generated_cxt_symbols : Generated.cxtSymbols = [(false, "."), (true, "X")] := by decide

/-- csv cells are written `X` / blank, or `1` / `0` with `bools_as_int`; the X/blank set is tried first -/
theorem C12_generated_csv_symbols :
    Generated.csvSymbols = [(false, false, ""), (false, true, "X"), (true, false, "0"), (true, true, "1")] ∧
    Generated.csvValueOrder = [false, true] := by decide

/-- file suffix → format, and which formats strip the trailing newline of the dumped text -/
theorem C12_generated_tables :
    Generated.bySuffix = [(".csv", "csv"), (".cxt", "cxt"), (".dat", "fimi"), (".py", "python-literal"), (".txt", "table")] ∧
    Generated.dumpsRstrip = [("csv", false), ("cxt", false), ("fimi", false), ("python-literal", true), ("table", true),
      ("wiki-table", true), ("wikitable", true)] := by decide

end FCA
#print axioms FCA.C12_generated_whitespace
