import FCA.Generated.Getitem
import FCA.Model.Misc
/-
C02 (and the label dispatch of C01 / C05) over the regenerated source: `Context.__getitem__` of the current `contexts.py` — try the
items as objects, on `KeyError` as properties, `doubleprime` on the family that accepted them, the pair always returned as
(extent, intent) — is the model's `ctxGetitem`; `intension`, `extension` and `Context.neighbors` derive with the operation the
model uses. `Lattice.__getitem__` / `__call__` are compared with the expected statements by the translator.
-/
namespace FCA

theorem C02_generated_getitem (K : Ctx) (objs props items : List Name) :
    Generated.ctx_getitem (labelMask objs) (labelMask props) K.dpObj K.dpProp items = ctxGetitem K objs props items := by
  simp only [Generated.ctx_getitem, ctxGetitem]
  cases labelMask objs items with
  | some A => rfl
  | none =>
    cases labelMask props items with
    | some B => rfl
    | none => rfl

/-- a derivation named by (family that resolves the labels, `Vectors` method) -/
def C02_deriveOfCfg (K : Ctx) : String × String → Option (Nat → Nat)
  | ("O", "prime") => some K.intentOf
  | ("P", "prime") => some K.extentOf
  | ("O", "double") => some K.doubleObj
  | ("P", "double") => some K.doubleProp
  | _ => none

/-- `intension` derives object sets with `'`, `extension` property sets with `'`, `neighbors` starts from `objects''` -/
theorem C02_generated_derivations (K : Ctx) :
    C02_deriveOfCfg K Generated.intension_cfg = some K.intentOf ∧
    C02_deriveOfCfg K Generated.extension_cfg = some K.extentOf ∧
    C02_deriveOfCfg K Generated.neighbors_cfg = some K.doubleObj := by
  refine ⟨rfl, rfl, rfl⟩

/-- hence `Context.neighbors(objects)` of the current source is the model's `contextNeighbors` -/
theorem C02_generated_context_neighbors (K : Ctx) (A : Nat) :
    (C02_deriveOfCfg K Generated.neighbors_cfg).map (fun cl => neighbors K (cl A)) = some (contextNeighbors K A) := rfl

end FCA
#print axioms FCA.C02_generated_getitem
#print axioms FCA.C02_generated_derivations
#print axioms FCA.C02_generated_context_neighbors
