"""Static inventory of the places where the code under test iterates / prints a hash-ordered container
(set, frozenset, set comprehension, dict keyed by objects hashed by id). Heuristic AST scan; the result
is compared with the committed classification harness/hash_sites.json by props/c17.py."""
import ast
import glob
import json
import os
import sys

INSENSITIVE = {'set', 'frozenset', 'sorted', 'sum', 'any', 'all', 'len', 'min', 'max', 'isinstance', 'bool'}
SENSITIVE = {'list', 'tuple', 'iter', 'next', 'map', 'enumerate', 'zip', 'permutations', 'combinations', 'groupby',
             'repr', 'str', 'format', 'print', 'filter', 'chain', 'reversed', 'dict'}


class Scan(ast.NodeVisitor):
    def __init__(self, path, src):
        self.path = path
        self.src = src
        self.set_attrs = set()
        self.sites = []
        self.func = ['<module>']
        self.env = [set()]

    # ---- which expressions are sets
    def is_set(self, node):
        if isinstance(node, (ast.Set, ast.SetComp)):
            return True
        if isinstance(node, ast.Call) and isinstance(node.func, ast.Name) and node.func.id in ('set', 'frozenset'):
            return True
        if isinstance(node, ast.Call) and isinstance(node.func, ast.Attribute) and node.func.attr in (
                'union', 'intersection', 'difference', 'symmetric_difference', 'copy') and self.is_set(node.func.value):
            return True
        if isinstance(node, ast.BinOp) and isinstance(node.op, (ast.BitAnd, ast.BitOr, ast.BitXor, ast.Sub)):
            return self.is_set(node.left) or self.is_set(node.right)
        if isinstance(node, ast.Name):
            return any(node.id in e for e in self.env)
        if isinstance(node, ast.Attribute):
            return node.attr in self.set_attrs
        return False

    def collect_attrs(self, tree):
        for node in ast.walk(tree):
            if isinstance(node, ast.Assign):
                for t in node.targets:
                    if isinstance(t, ast.Attribute) and self.is_set(node.value):
                        self.set_attrs.add(t.attr)
                    if isinstance(t, ast.Attribute) and isinstance(node.value, ast.Name) and node.value.id in ('seen',):
                        self.set_attrs.add(t.attr)

    def site(self, node, how):
        text = ast.get_source_segment(self.src, node) or ast.dump(node)
        self.sites.append({'file': self.path, 'function': '.'.join(self.func[1:]) or '<module>',
                           'how': how, 'code': ' '.join(text.split())[:160], 'line': node.lineno})

    # ---- scopes
    def visit_FunctionDef(self, node):
        self.func.append(node.name)
        self.env.append(set())
        self.generic_visit(node)
        self.env.pop()
        self.func.pop()

    visit_AsyncFunctionDef = visit_FunctionDef

    def visit_ClassDef(self, node):
        self.func.append(node.name)
        self.generic_visit(node)
        self.func.pop()

    def visit_Assign(self, node):
        self.generic_visit(node)
        if self.is_set(node.value):
            for t in node.targets:
                if isinstance(t, ast.Name):
                    self.env[-1].add(t.id)
                elif isinstance(t, ast.Tuple):
                    pass
        else:
            for t in node.targets:
                if isinstance(t, ast.Name):
                    self.env[-1].discard(t.id)

    def visit_AugAssign(self, node):
        if isinstance(node.op, (ast.BitOr, ast.Add)) and self.is_set(node.value) and not self.is_set(node.target):
            self.site(node, 'ordered collection extended from a set')
        self.generic_visit(node)

    # ---- order-sensitive uses
    def visit_For(self, node):
        if self.is_set(node.iter):
            self.site(node.iter, 'for-loop over a set')
        self.generic_visit(node)

    def comp(self, node, insensitive):
        for g in node.generators:
            if self.is_set(g.iter) and not insensitive:
                self.site(g.iter, 'comprehension over a set')
        self.generic_visit(node)

    def visit_ListComp(self, node):
        self.comp(node, False)

    def visit_GeneratorExp(self, node):
        self.comp(node, getattr(node, '_insensitive', False))

    def visit_DictComp(self, node):
        self.comp(node, False)

    def visit_SetComp(self, node):
        self.comp(node, True)

    def visit_Call(self, node):
        name = node.func.id if isinstance(node.func, ast.Name) else (node.func.attr if isinstance(node.func, ast.Attribute) else None)
        if name in INSENSITIVE or name in ('update', 'difference_update', 'intersection_update', 'issubset', 'issuperset', 'isdisjoint'):
            for a in node.args:
                if isinstance(a, ast.GeneratorExp):
                    a._insensitive = True
        elif name in SENSITIVE or name == 'join':
            for a in node.args:
                if self.is_set(a):
                    self.site(a, 'set passed to %s()' % name)
        if name == 'pop' and isinstance(node.func, ast.Attribute) and self.is_set(node.func.value) and not node.args:
            self.site(node, 'set.pop()')
        self.generic_visit(node)

    def visit_FormattedValue(self, node):
        if self.is_set(node.value):
            self.site(node.value, 'set formatted into a string')
        self.generic_visit(node)

    def visit_Return(self, node):
        if node.value is not None and isinstance(node.value, ast.Call) and isinstance(node.value.func, ast.Name) \
                and node.value.func.id == 'iter' and node.value.args and self.is_set(node.value.args[0]):
            pass  # reported by visit_Call
        self.generic_visit(node)


def scan(repo):
    sites = []
    for path in sorted(glob.glob(os.path.join(repo, 'concepts', '**', '*.py'), recursive=True)):
        src = open(path).read()
        try:
            tree = ast.parse(src)
        except SyntaxError:
            continue
        s = Scan(os.path.relpath(path, repo), src)
        s.collect_attrs(tree)
        s.visit(tree)
        sites += s.sites
    return sites


def key(site):
    return '%s::%s::%s' % (site['file'], site['function'], site['code'])


if __name__ == '__main__':
    repo = sys.argv[1] if len(sys.argv) > 1 else os.environ.get('VERIF_REPO', '/repo')
    for s in scan(repo):
        print(key(s), '|', s['how'])
