import FCA.Proofs.FcboStack
/-
C04 for the explicit stack and the shared `next_property_sets` list of `fast_generate_from` / `fcbo_dual`:
the small-step machine of `Model/FcboStack.lean` (heap of lists, stack of `(concept, index, reference)`, one step
per `while stack:` iteration) yields exactly what the recursive model `fcboNode` / `fcbo` / `fcboDual` yields.
No well-formedness of the context is needed: the argument is about control flow and aliasing only.
-/
namespace FCA

/-! ### 1. the inner loop and one machine step -/

/-- the inner `for` loop on the machine (reads and writes through the reference `ref`, pushes carry `ref`) is
`fcboInner` on the contents of the cell: the cell ends with `fcboInner`'s final list, no other cell changes, and
the pushed entries are `fcboInner`'s children, in push order, all with the SAME reference -/
theorem C04_stack_inner (S : Side) (nd : FNode) (ref : Nat) (js : List Nat) (heap : SHeap) (st : List SEntry)
    (href : ref < heap.length) :
    stackInner S nd ref js heap st =
      (heap.set ref (fcboInner S nd js (heap.read ref) []).2,
       st ++ (fcboInner S nd js (heap.read ref) []).1.map (pushed ref)) :=
  stackInner_spec S nd ref js heap st href

example : (3 : Nat) < ([#[0], #[1], #[2], #[5, 6]] : SHeap).length := by decide

/-- one iteration of `while stack:` on a stack whose last entry is `(nd, idx, ref)`: `nd` is yielded; a leaf just
pops; otherwise ONE new cell is allocated, it holds the final list of the parent's loop, and the children are
appended with the new cell's address -/
theorem C04_stack_step (S : Side) (heap : SHeap) (st : List SEntry) (nd : FNode) (idx ref : Nat) :
    stackStep S heap (st ++ [(nd, idx, ref)]) =
      some (nd,
        if idx = S.width ∨ nd.other = 0 then (heap, st) else
          (heap ++ [(fcboInner S nd (List.range' idx (S.width - idx)).reverse (heap.read ref) []).2],
           st ++ (fcboInner S nd (List.range' idx (S.width - idx)).reverse (heap.read ref) []).1.map
             (pushed heap.length))) :=
  stackStep_concat S heap st nd idx ref

/-- a step never modifies an existing cell (it only allocates): the old heap is a prefix of the new one -/
theorem C04_stack_frame (S : Side) (k : Nat) (heap : SHeap) (st : List SEntry) :
    heap <+: (stackAfter S k heap st).1 ∧
    ∀ r, r < heap.length → (stackAfter S k heap st).1.read r = heap.read r :=
  ⟨stackAfter_prefix S k heap st, fun _ hr => SHeap.read_of_prefix (stackAfter_prefix S k heap st) hr⟩

/-- references on the stack stay inside the heap along every run -/
theorem C04_stack_valid (S : Side) (k : Nat) (heap : SHeap) (st : List SEntry) (hv : SValid heap st) :
    SValid (stackAfter S k heap st).1 (stackAfter S k heap st).2 :=
  stackAfter_valid S k heap st hv

/-! ### 2. the key invariant: a popped child sees the parent's FINAL list -/

/-- After the step of a non-leaf parent `(nd, idx, ref)`, every child was pushed with the address `heap.length` of
the parent's `next_property_sets`; that cell holds `sets'` = the second component of `fcboInner` (the list after
the parent's whole loop), and it still holds `sets'` after any number `k` of further steps. In particular, whenever
a later state has such a child `(c, j, heap.length)` on top of its stack, the step that pops it copies exactly
`sets'`: its own loop is `fcboInner … sets'`. -/
theorem C04_stack_child_sees_final (S : Side) (heap : SHeap) (st : List SEntry) (nd : FNode) (idx ref : Nat)
    (hnonleaf : ¬ (idx = S.width ∨ nd.other = 0)) :
    let children := (fcboInner S nd (List.range' idx (S.width - idx)).reverse (heap.read ref) []).1
    let sets' := (fcboInner S nd (List.range' idx (S.width - idx)).reverse (heap.read ref) []).2
    ∃ heap' st', stackStep S heap (st ++ [(nd, idx, ref)]) = some (nd, heap', st') ∧
      st' = st ++ children.map (pushed heap.length) ∧
      heap'.read heap.length = sets' ∧
      (∀ k, (stackAfter S k heap' st').1.read heap.length = sets') ∧
      ∀ k heap'' st'' c j, stackAfter S k heap' st' = (heap'', st'' ++ [(c, j, heap.length)]) →
        heap''.read heap.length = sets' ∧
        stackStep S heap'' (st'' ++ [(c, j, heap.length)]) =
          some (c,
            if j = S.width ∨ c.other = 0 then (heap'', st'') else
              (heap'' ++ [(fcboInner S c (List.range' j (S.width - j)).reverse sets' []).2],
               st'' ++ (fcboInner S c (List.range' j (S.width - j)).reverse sets' []).1.map
                 (pushed heap''.length))) := by
  intro children sets'
  refine ⟨heap ++ [sets'], st ++ children.map (pushed heap.length), ?_, rfl, SHeap.read_append_length _ _, ?_, ?_⟩
  · rw [stackStep_concat, if_neg hnonleaf]
  · intro k
    rw [SHeap.read_of_prefix (stackAfter_prefix S k _ _) (by simp)]
    exact SHeap.read_append_length _ _
  · intro k heap'' st'' c j hk
    have h1 : heap''.read heap.length = sets' := by
      have := SHeap.read_of_prefix (stackAfter_prefix S k (heap ++ [sets']) (st ++ children.map (pushed heap.length)))
        (r := heap.length) (by simp)
      rw [hk] at this
      rw [this]; exact SHeap.read_append_length _ _
    refine ⟨h1, ?_⟩
    rw [stackStep_concat, h1]

/-! ### 3. refinement -/

/-- arbitrary stack: with step fuel at least the number of nodes still to come, the machine yields — from the top
of the stack downwards — the `fcboNode` lists of its entries, each with the current contents of its cell, and it
halts with the empty stack -/
theorem C04_stack_generalised (S : Side) (fuel : Nat) (heap : SHeap) (st : List SEntry)
    (hv : SValid heap st)
    (hfuel : (st.reverse.flatMap fun e => fcboNode S S.width e.1 e.2.1 (heap.read e.2.2)).length ≤ fuel) :
    stackRun S fuel heap st = st.reverse.flatMap (fun e => fcboNode S S.width e.1 e.2.1 (heap.read e.2.2)) ∧
    (stackAfter S fuel heap st).2 = [] :=
  stackRun_denot S fuel heap st hv hfuel

example : SValid [#[0, 0], #[1, 2]] [(⟨0, 3⟩, 0, 0), (⟨1, 1⟩, 1, 1), (⟨2, 1⟩, 2, 1)] := by decide

/-- the recursive model needs depth fuel `width - idx` only; more does not change it -/
theorem C04_stack_depth_fuel (S : Side) (f1 f2 : Nat) (nd : FNode) (idx : Nat) (sets : Array Nat)
    (h1 : S.width - idx ≤ f1) (h2 : S.width - idx ≤ f2) :
    fcboNode S f1 nd idx sets = fcboNode S f2 nd idx sets :=
  fcboNode_fuel_stable S f1 f2 nd idx sets h1 h2

/-- the subtree of a node with index `idx` has at most `2 ^ (width - idx)` nodes (for every depth fuel) -/
theorem C04_stack_length_le (S : Side) (f : Nat) (nd : FNode) (idx : Nat) (sets : Array Nat) :
    (fcboNode S f nd idx sets).length ≤ 2 ^ (S.width - idx) :=
  fcboNode_length_le S f nd idx sets

/-- **the stack machine refines the recursive model**: started from the singleton stack `[(nd, idx, ref)]` on any
heap in which `ref` holds `sets`, with depth fuel `fuel' ≥ width - idx` for the model and step fuel `fuel` ≥ the
number of nodes to be yielded for the machine, the machine yields exactly `fcboNode S fuel' nd idx sets` and halts
with the empty stack -/
theorem C04_stack_refines (S : Side) (nd : FNode) (idx : Nat) (sets : Array Nat) (heap : SHeap) (ref : Nat)
    (fuel' fuel : Nat) (href : ref < heap.length) (hsets : heap.read ref = sets)
    (hdepth : S.width - idx ≤ fuel') (hfuel : (fcboNode S fuel' nd idx sets).length ≤ fuel) :
    stackRun S fuel heap [(nd, idx, ref)] = fcboNode S fuel' nd idx sets ∧
    (stackAfter S fuel heap [(nd, idx, ref)]).2 = [] := by
  have hst : fcboNode S fuel' nd idx sets = fcboNode S S.width nd idx sets :=
    fcboNode_fuel_stable S _ _ _ _ _ hdepth (by omega)
  have := stackRun_denot S fuel heap [(nd, idx, ref)] (by intro e he; simp at he; subst he; exact href)
    (by simpa [denot, hsets, ← hst] using hfuel)
  simpa [denot, hsets, ← hst] using this

/-- the same with an explicit step fuel: `2 ^ (width - idx)` steps are always enough -/
theorem C04_stack_refines_pow (S : Side) (nd : FNode) (idx : Nat) (sets : Array Nat)
    (fuel' fuel : Nat) (hdepth : S.width - idx ≤ fuel') (hfuel : 2 ^ (S.width - idx) ≤ fuel) :
    stackRun S fuel [sets] [(nd, idx, 0)] = fcboNode S fuel' nd idx sets ∧
    (stackAfter S fuel [sets] [(nd, idx, 0)]).2 = [] :=
  C04_stack_refines S nd idx sets [sets] 0 fuel' fuel (by simp) (by simp [SHeap.read]) hdepth
    ((fcboNode_length_le S fuel' nd idx sets).trans hfuel)

/-- more fuel never changes the result once the stack is empty -/
theorem C04_stack_fuel_mono (S : Side) (fuel fuel' : Nat) (heap : SHeap) (st : List SEntry)
    (hdone : (stackAfter S fuel heap st).2 = []) (hle : fuel ≤ fuel') :
    stackRun S fuel' heap st = stackRun S fuel heap st ∧
    stackAfter S fuel' heap st = stackAfter S fuel heap st :=
  stackRun_fuel_mono S fuel fuel' heap st hdone hle

/-! ### 4. the two generators -/

/-- `fast_generate_from` on the stack machine = the recursive model, for every context -/
theorem C04_stack_fcbo (K : Ctx) : fcboStack K = fcbo K := by
  unfold fcboStack fcbo
  dsimp only
  rw [(C04_stack_refines_pow ⟨K.m, fun j => K.cols[j]!, K.intentOf⟩ _ 0 _ (K.m + 1) (2 ^ K.m)
    (by simp) (by simp)).1]

/-- `fcbo_dual` on the stack machine = the recursive model, for every context -/
theorem C04_stack_fcbo_dual (K : Ctx) : fcboDualStack K = fcboDual K := by
  unfold fcboDualStack fcboDual
  dsimp only
  rw [(C04_stack_refines_pow ⟨K.n, fun j => K.rows[j]!, K.extentOf⟩ _ 0 _ (K.n + 1) (2 ^ K.n)
    (by simp) (by simp)).1]

/-- the machine has halted within its fuel in `fcboStack` / `fcboDualStack` -/
theorem C04_stack_fcbo_halts (K : Ctx) :
    (stackAfter ⟨K.m, fun j => K.cols[j]!, K.intentOf⟩ (2 ^ K.m) [Array.replicate K.m 0]
      [(⟨(K.dpObj (full K.n)).2, (K.dpObj (full K.n)).1⟩, 0, 0)]).2 = [] ∧
    (stackAfter ⟨K.n, fun j => K.rows[j]!, K.extentOf⟩ (2 ^ K.n) [Array.replicate K.n 0]
      [(⟨(K.dpObj 0).1, (K.dpObj 0).2⟩, 0, 0)]).2 = [] :=
  ⟨(C04_stack_refines_pow ⟨K.m, fun j => K.cols[j]!, K.intentOf⟩ _ 0 _ (K.m + 1) (2 ^ K.m) (by simp) (by simp)).2,
   (C04_stack_refines_pow ⟨K.n, fun j => K.rows[j]!, K.extentOf⟩ _ 0 _ (K.n + 1) (2 ^ K.n) (by simp) (by simp)).2⟩

/-! ### 5. the docstring example of `fast_generate_from` / `fcbo_dual` -/

/-- rows A = 0,1,2; B = 0,2,3,4,5; C = 0,1,4; D = 1,2 -/
def C04S_K : Ctx := mkCtx 4 6 #[7, 61, 19, 6]

/-- the doctest of `fast_generate_from`, on the machine and on the recursive model -/
example : fcboStack C04S_K = [(15, 0), (7, 1), (5, 3), (1, 7), (0, 63), (4, 19), (3, 5), (2, 61), (6, 17),
    (13, 2), (9, 6), (11, 4)] := by decide +kernel
example : fcbo C04S_K = [(15, 0), (7, 1), (5, 3), (1, 7), (0, 63), (4, 19), (3, 5), (2, 61), (6, 17),
    (13, 2), (9, 6), (11, 4)] := by decide +kernel
/-- the doctest of `fcbo_dual` -/
example : fcboDualStack C04S_K = [(0, 63), (1, 7), (3, 5), (7, 1), (15, 0), (11, 4), (5, 3), (13, 2),
    (9, 6), (2, 61), (6, 17), (4, 19)] := by decide +kernel
example : fcboDual C04S_K = [(0, 63), (1, 7), (3, 5), (7, 1), (15, 0), (11, 4), (5, 3), (13, 2),
    (9, 6), (2, 61), (6, 17), (4, 19)] := by decide +kernel
example : fcboStack C04S_K = fcbo C04S_K ∧ fcboDualStack C04S_K = fcboDual C04S_K := by decide +kernel

/-- the sharing is visible on the example: the run allocates one cell per non-leaf node (11 of the 12 nodes; the
leaf is `('', '012345')`), and after the first step the three children of the root all reference cell 1, which
holds the list after the root's whole loop -/
example : (stackAfter ⟨6, fun j => C04S_K.cols[j]!, C04S_K.intentOf⟩ 64 [Array.replicate 6 0]
    [(⟨0, 15⟩, 0, 0)]).1.length = 12 := by decide +kernel
example : ((stackAfter ⟨6, fun j => C04S_K.cols[j]!, C04S_K.intentOf⟩ 1 [Array.replicate 6 0]
    [(⟨0, 15⟩, 0, 0)]).2.map (·.2.2)) = [1, 1, 1] := by decide +kernel
example : (stackAfter ⟨6, fun j => C04S_K.cols[j]!, C04S_K.intentOf⟩ 1 [Array.replicate 6 0]
    [(⟨0, 15⟩, 0, 0)]).1 = [#[0, 0, 0, 0, 0, 0], #[0, 0, 0, 61, 17, 61]] := by decide +kernel
/-- non-vacuity of the non-leaf hypothesis of `C04_stack_child_sees_final` (root of the example) -/
example : ¬ ((0 : Nat) = (⟨6, fun j => C04S_K.cols[j]!, C04S_K.intentOf⟩ : Side).width ∨
    (⟨0, 15⟩ : FNode).other = 0) := by decide

/-- the aliasing really occurs: in the context with rows `∅, ∅, {2}` over 4 properties the root's loop pushes the
child for `j = 2` when the shared list is `[0, 0, 0, 15]` and afterwards stores `next_property_sets[1] = 15`; the
entry on the stack observes the update because it holds a reference (cell 1), not a copy -/
def C04S_K2 : Ctx := mkCtx 3 4 #[0, 0, 4]

example :
    let S : Side := ⟨4, fun j => C04S_K2.cols[j]!, C04S_K2.intentOf⟩
    let z : Array Nat := Array.replicate 4 0
    let s1 := stackInner S ⟨0, 7⟩ 1 [3, 2] [z, z] []
    let s2 := stackInner S ⟨0, 7⟩ 1 [3, 2, 1, 0] [z, z] []
    s1.1 = [z, #[0, 0, 0, 15]] ∧ s1.2.map (fun e => (e.1.own, e.1.other, e.2.1, e.2.2)) = [(4, 4, 3, 1)] ∧
    s2.1 = [z, #[0, 15, 0, 15]] ∧
      s2.2.map (fun e => (e.1.own, e.1.other, e.2.1, e.2.2)) = [(4, 4, 3, 1), (15, 0, 1, 1)] := by
  decide +kernel
example : fcboStack C04S_K2 = [(7, 0), (0, 15), (4, 4)] ∧ fcbo C04S_K2 = [(7, 0), (0, 15), (4, 4)] := by
  decide +kernel

end FCA
#print axioms FCA.C04_stack_inner
#print axioms FCA.C04_stack_step
#print axioms FCA.C04_stack_frame
#print axioms FCA.C04_stack_valid
#print axioms FCA.C04_stack_child_sees_final
#print axioms FCA.C04_stack_generalised
#print axioms FCA.C04_stack_depth_fuel
#print axioms FCA.C04_stack_length_le
#print axioms FCA.C04_stack_refines
#print axioms FCA.C04_stack_refines_pow
#print axioms FCA.C04_stack_fuel_mono
#print axioms FCA.C04_stack_fcbo
#print axioms FCA.C04_stack_fcbo_dual
#print axioms FCA.C04_stack_fcbo_halts
