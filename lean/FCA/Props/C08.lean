import FCA.Model.Misc
import FCA.Proofs.Galois
import FCA.Proofs.LatticeSpec
/-
C08 — Order and logical-relation predicates on concepts match their extents.

The predicate kernels are expressions over `x = self._extent`, `y = other._extent`,
`t = lattice.supremum._extent`. `PredKernels.Correct` is the specification; it is proved here for the
pinned copy the driver executes and in `C08Gen.lean` for the kernels regenerated from the source.
-/
namespace FCA

structure PredKernels where
  implies : Nat → Nat → Nat → Bool
  subsumes : Nat → Nat → Nat → Bool
  properly_implies : Nat → Nat → Nat → Bool
  properly_subsumes : Nat → Nat → Nat → Bool
  incompatible_with : Nat → Nat → Nat → Bool
  complement_of : Nat → Nat → Nat → Bool
  subcontrary_with : Nat → Nat → Nat → Bool
  orthogonal_to : Nat → Nat → Nat → Bool

/-- what the property demands of the eight predicates, as statements about extents -/
structure PredKernels.Correct (P : PredKernels) : Prop where
  implies : ∀ x y t, P.implies x y t = true ↔ x ⊆ᵇ y
  subsumes : ∀ x y t, P.subsumes x y t = true ↔ y ⊆ᵇ x
  properly_implies : ∀ x y t, P.properly_implies x y t = true ↔ x ⊆ᵇ y ∧ x ≠ y
  properly_subsumes : ∀ x y t, P.properly_subsumes x y t = true ↔ y ⊆ᵇ x ∧ x ≠ y
  incompatible_with : ∀ x y t, P.incompatible_with x y t = true ↔ ¬ ∃ i, i ∈ᵇ x ∧ i ∈ᵇ y
  complement_of : ∀ x y t, P.complement_of x y t = true ↔ (¬ ∃ i, i ∈ᵇ x ∧ i ∈ᵇ y) ∧ x ||| y = t
  subcontrary_with : ∀ x y t, P.subcontrary_with x y t = true ↔ (∃ i, i ∈ᵇ x ∧ i ∈ᵇ y) ∧ x ||| y = t
  orthogonal_to : ∀ x y t, P.orthogonal_to x y t = true ↔
    (∃ i, i ∈ᵇ x ∧ i ∈ᵇ y) ∧ ¬ x ⊆ᵇ y ∧ ¬ y ⊆ᵇ x ∧ x ||| y ≠ t

def Pinned.kernels : PredKernels :=
  ⟨Pinned.implies, Pinned.subsumes, Pinned.properly_implies, Pinned.properly_subsumes,
   Pinned.incompatible_with, Pinned.complement_of, Pinned.subcontrary_with, Pinned.orthogonal_to⟩

theorem and_eq_right_iff' {x y : Nat} : x &&& y = y ↔ y ⊆ᵇ x := by rw [Nat.and_comm]; exact and_eq_left_iff
theorem or_eq_right_iff' {x y : Nat} : x ||| y = y ↔ x ⊆ᵇ y := by rw [Nat.or_comm]; exact or_eq_left_iff
theorem and_eq_zero_iff' {x y : Nat} : x &&& y = 0 ↔ ¬ ∃ i, i ∈ᵇ x ∧ i ∈ᵇ y := by
  rw [← and_ne_zero_iff]; simp

/-- normal-form simp set shared by the pinned and the generated instance: it also re-proves the usual
equivalent rewritings of a kernel (`x | y == y` for `x & y == x`, swapped operands, `== 0` for `not`) -/
macro "pred_norm" : tactic => `(tactic|
  simp [Pinned.kernels, Pinned.implies, Pinned.subsumes, Pinned.properly_implies, Pinned.properly_subsumes,
    Pinned.incompatible_with, Pinned.complement_of, Pinned.subcontrary_with, Pinned.orthogonal_to,
    and_eq_left_iff, or_eq_left_iff, and_eq_right_iff', or_eq_right_iff', and_eq_zero_iff', and_ne_zero_iff, and_assoc])

theorem C08_pinned_correct : Pinned.kernels.Correct where
  implies := by intro x y t; pred_norm
  subsumes := by intro x y t; pred_norm
  properly_implies := by intro x y t; pred_norm
  properly_subsumes := by intro x y t; pred_norm
  incompatible_with := by intro x y t; pred_norm
  complement_of := by intro x y t; pred_norm
  subcontrary_with := by intro x y t; pred_norm
  orthogonal_to := by
    intro x y t
    show ((!(!((x &&& y) != 0))) && ((x &&& y) != x) && ((x &&& y) != y) && ((x ||| y) != t)) = true ↔ _
    rw [← and_ne_zero_iff, ← and_eq_left_iff, ← and_eq_left_iff (x := y) (y := x), Nat.and_comm y x]
    simp [and_assoc]

variable {P : PredKernels}

/-- `x <= y` iff extent(x) ⊆ extent(y) iff intent(y) ⊆ intent(x) -/
theorem C08_intent_dual (K : Ctx) (h : K.WF) (x bx y by' : Nat) (hx : isConcept K x bx) (hy : isConcept K y by') :
    x ⊆ᵇ y ↔ by' ⊆ᵇ bx := by
  obtain ⟨_, _, hx1, hx2⟩ := hx
  obtain ⟨_, _, hy1, hy2⟩ := hy
  constructor
  · intro hs; rw [← hx1, ← hy1]; exact intentOf_anti hs
  · intro hs; rw [← hx2, ← hy2]; exact extentOf_anti h hs

theorem C08_implies_intent (hP : P.Correct) (K : Ctx) (h : K.WF) (x bx y by' t : Nat)
    (hx : isConcept K x bx) (hy : isConcept K y by') : P.implies x y t = true ↔ by' ⊆ᵇ bx := by
  rw [hP.implies]; exact C08_intent_dual K h x bx y by' hx hy

/-- `>=` is the converse of `<=`; `<`, `>` are the strict versions -/
theorem C08_converse_strict (hP : P.Correct) (x y t : Nat) :
    (P.subsumes x y t = P.implies y x t) ∧
    (P.properly_implies x y t = true ↔ P.implies x y t = true ∧ x ≠ y) ∧
    (P.properly_subsumes x y t = true ↔ P.subsumes x y t = true ∧ x ≠ y) := by
  refine ⟨?_, ?_, ?_⟩
  · rw [Bool.eq_iff_iff, hP.subsumes, hP.implies]
  · rw [hP.properly_implies, hP.implies]
  · rw [hP.properly_subsumes, hP.subsumes]

/-- the predicates form a partial order; distinct concepts (= distinct extents) are never mutually `<=` -/
theorem C08_partial_order (hP : P.Correct) (t : Nat) :
    (∀ x, P.implies x x t = true) ∧
    (∀ x y z, P.implies x y t = true → P.implies y z t = true → P.implies x z t = true) ∧
    (∀ x y, P.implies x y t = true → P.implies y x t = true → x = y) := by
  refine ⟨fun x => (hP.implies x x t).mpr (sub_refl x), ?_, ?_⟩
  · intro x y z h1 h2
    exact (hP.implies x z t).mpr (sub_trans ((hP.implies x y t).mp h1) ((hP.implies y z t).mp h2))
  · intro x y h1 h2
    exact sub_antisymm ((hP.implies x y t).mp h1) ((hP.implies y x t).mp h2)

/-- concepts with the same extent are the same concept -/
theorem C08_concept_ext (K : Ctx) (x b b' : Nat) (h1 : isConcept K x b) (h2 : isConcept K x b') : b = b' := by
  rw [← h1.2.2.1, ← h2.2.2.1]

/-- `orthogonal_to`: they share an object, neither contains the other, and some object lies in neither -/
theorem C08_orthogonal_neither (hP : P.Correct) (x y t : Nat) (hx : x ⊆ᵇ t) (hy : y ⊆ᵇ t) :
    P.orthogonal_to x y t = true ↔
      (∃ i, i ∈ᵇ x ∧ i ∈ᵇ y) ∧ ¬ x ⊆ᵇ y ∧ ¬ y ⊆ᵇ x ∧ ∃ i, i ∈ᵇ t ∧ ¬ i ∈ᵇ x ∧ ¬ i ∈ᵇ y := by
  rw [hP.orthogonal_to]
  have : x ||| y ≠ t ↔ ∃ i, i ∈ᵇ t ∧ ¬ i ∈ᵇ x ∧ ¬ i ∈ᵇ y := by
    constructor
    · intro hne
      by_contra hcon
      push Not at hcon
      apply hne
      apply ext; intro i
      rw [mem_or]
      constructor
      · rintro (h | h); exact hx i h; exact hy i h
      · intro hi
        by_cases hix : i ∈ᵇ x
        · exact Or.inl hix
        · exact Or.inr (hcon i hi hix)
    · rintro ⟨i, hit, hix, hiy⟩ heq
      rw [← heq, mem_or] at hit
      tauto
  rw [this]

/-- `complement_of` / `subcontrary_with`: "together contain every object" -/
theorem C08_union_all (x y t : Nat) (hx : x ⊆ᵇ t) (hy : y ⊆ᵇ t) :
    x ||| y = t ↔ ∀ i, i ∈ᵇ t → i ∈ᵇ x ∨ i ∈ᵇ y := by
  constructor
  · intro h i hi; rw [← h, mem_or] at hi; exact hi
  · intro h
    apply ext; intro i; rw [mem_or]
    exact ⟨fun hi => hi.elim (hx i) (hy i), h i⟩

/-! ### on members of the lattice: `t` is the extent of `lattice.supremum`, i.e. all objects -/

/-- the third argument the methods pass, `self.lattice.supremum._extent`, is the set of all objects -/
theorem C08_lattice_supremum (K : Ctx) (h : K.WF) :
    ∃ c, (mkLattice K).supremum = some c ∧ c.extent = full K.n := (mkLattice_spec h).get_last

theorem C08_lattice_complement (hP : P.Correct) (K : Ctx) (h : K.WF) (i j : Nat) (a b : LConcept)
    (ha : (mkLattice K)[i]? = some a) (hb : (mkLattice K)[j]? = some b) :
    P.complement_of a.extent b.extent (full K.n) = true ↔
      (¬ ∃ o, o ∈ᵇ a.extent ∧ o ∈ᵇ b.extent) ∧ ∀ o, o < K.n → o ∈ᵇ a.extent ∨ o ∈ᵇ b.extent := by
  have S := mkLattice_spec h
  rw [hP.complement_of, C08_union_all _ _ _ (bounded_iff_sub_full.mp (S.bounded ha)) (bounded_iff_sub_full.mp (S.bounded hb))]
  simp only [mem_full]

theorem C08_lattice_subcontrary (hP : P.Correct) (K : Ctx) (h : K.WF) (i j : Nat) (a b : LConcept)
    (ha : (mkLattice K)[i]? = some a) (hb : (mkLattice K)[j]? = some b) :
    P.subcontrary_with a.extent b.extent (full K.n) = true ↔
      (∃ o, o ∈ᵇ a.extent ∧ o ∈ᵇ b.extent) ∧ ∀ o, o < K.n → o ∈ᵇ a.extent ∨ o ∈ᵇ b.extent := by
  have S := mkLattice_spec h
  rw [hP.subcontrary_with, C08_union_all _ _ _ (bounded_iff_sub_full.mp (S.bounded ha)) (bounded_iff_sub_full.mp (S.bounded hb))]
  simp only [mem_full]

theorem C08_lattice_orthogonal (hP : P.Correct) (K : Ctx) (h : K.WF) (i j : Nat) (a b : LConcept)
    (ha : (mkLattice K)[i]? = some a) (hb : (mkLattice K)[j]? = some b) :
    P.orthogonal_to a.extent b.extent (full K.n) = true ↔
      (∃ o, o ∈ᵇ a.extent ∧ o ∈ᵇ b.extent) ∧ ¬ a.extent ⊆ᵇ b.extent ∧ ¬ b.extent ⊆ᵇ a.extent ∧
        ∃ o, o < K.n ∧ ¬ o ∈ᵇ a.extent ∧ ¬ o ∈ᵇ b.extent := by
  have S := mkLattice_spec h
  rw [C08_orthogonal_neither hP _ _ _ (bounded_iff_sub_full.mp (S.bounded ha)) (bounded_iff_sub_full.mp (S.bounded hb))]
  simp only [mem_full]

/-- `x <= y` iff extent(x) ⊆ extent(y) iff intent(y) ⊆ intent(x), for members of the lattice -/
theorem C08_lattice_implies (hP : P.Correct) (K : Ctx) (h : K.WF) (i j : Nat) (a b : LConcept) (t : Nat)
    (ha : (mkLattice K)[i]? = some a) (hb : (mkLattice K)[j]? = some b) :
    (P.implies a.extent b.extent t = true ↔ a.extent ⊆ᵇ b.extent) ∧
    (P.implies a.extent b.extent t = true ↔ b.intent ⊆ᵇ a.intent) := by
  have S := mkLattice_spec h
  have ca : isConcept K a.extent a.intent := isConcept_iff_closed.mpr ⟨S.closed ha, S.intent ha⟩
  have cb : isConcept K b.extent b.intent := isConcept_iff_closed.mpr ⟨S.closed hb, S.intent hb⟩
  exact ⟨hP.implies _ _ _, C08_implies_intent hP K h _ _ _ _ t ca cb⟩

/-- distinct members are never mutually `<=`: mutual `<=` forces the same position (the same object) -/
theorem C08_lattice_antisymm (hP : P.Correct) (K : Ctx) (h : K.WF) (i j : Nat) (a b : LConcept) (t : Nat)
    (ha : (mkLattice K)[i]? = some a) (hb : (mkLattice K)[j]? = some b)
    (h1 : P.implies a.extent b.extent t = true) (h2 : P.implies b.extent a.extent t = true) : i = j := by
  have S := mkLattice_spec h
  have he : a.extent = b.extent := (C08_partial_order hP t).2.2 _ _ h1 h2
  have e1 := S.find_get ha
  have e2 := S.find_get hb
  rw [he] at e1
  rw [e1] at e2
  exact Option.some.inj e2

example : Pinned.kernels.orthogonal_to 0b0110 0b0011 0b1111 = true := by decide
example : Pinned.kernels.subcontrary_with 0b110 0b011 0b111 = true := by decide

end FCA
#print axioms FCA.C08_pinned_correct
#print axioms FCA.C08_intent_dual
#print axioms FCA.C08_partial_order
#print axioms FCA.C08_orthogonal_neither
