import FCA.Proofs.Validate
import FCA.Model.Render
/-
Property C19 — ill-formed input raises `ValueError`; accepted input is represented faithfully.
(`Data.__init__` / `Data.fromdict` of `concepts/contexts.py`, model: `ctorAccepts`, `ctxOfTriple`,
`fromdictCheck` in `FCA/Model/Misc.lean`.)
-/
namespace FCA

/-- the documented acceptance condition of `Context(objects, properties, bools)` -/
def TripleOk (os ps : List Name) (bools : List (List Bool)) : Prop :=
  os ≠ [] ∧ os.Nodup ∧ ps ≠ [] ∧ ps.Nodup ∧ (∀ x, x ∈ os → x ∉ ps) ∧
  bools.length = os.length ∧ ∀ row ∈ bools, row.length = ps.length

/-- the duplicate test is exact -/
theorem C19_hasDup_iff (l : List Name) : hasDup l = false ↔ l.Nodup := hasDup_eq_false_iff l

/-- the guard chain of the constructor accepts exactly: both name lists non-empty, duplicate-free,
disjoint; one row (length) per object; every row as long as the property list -/
theorem C19_ctor_iff (os ps : List Name) (lens : List Nat) :
    ctorAccepts os ps lens = true ↔
      os ≠ [] ∧ os.Nodup ∧ ps ≠ [] ∧ ps.Nodup ∧ (∀ x, x ∈ os → x ∉ ps) ∧
      lens.length = os.length ∧ ∀ l ∈ lens, l = ps.length :=
  ctorAccepts_iff os ps lens

example : ctorAccepts ["a", "b"] ["x", "y", "z"] [3, 3] = true := by decide
example : ctorAccepts [] ["x"] [] = false := by decide                        -- no objects
example : ctorAccepts ["a"] [] [0] = false := by decide                       -- no properties
example : ctorAccepts ["a", "a"] ["x"] [1, 1] = false := by decide            -- duplicate object
example : ctorAccepts ["a", "b"] ["x", "x"] [2, 2] = false := by decide       -- duplicate property
example : ctorAccepts ["a", "b"] ["x", "a"] [2, 2] = false := by decide       -- overlap
example : ctorAccepts ["a", "b"] ["x", "y"] [2] = false := by decide          -- row dropped
example : ctorAccepts ["a", "b"] ["x", "y"] [2, 2, 2] = false := by decide    -- row added
example : ctorAccepts ["a", "b"] ["x", "y"] [2, 3] = false := by decide       -- row extended
example : ctorAccepts ["a", "b"] ["x", "y"] [1, 2] = false := by decide       -- cell dropped

theorem tripleOk_iff (os ps : List Name) (bools : List (List Bool)) :
    ctorAccepts os ps (bools.map (·.length)) = true ↔ TripleOk os ps bools := by
  rw [ctorAccepts_iff]; unfold TripleOk
  simp only [List.length_map, List.mem_map, forall_exists_index, and_imp, forall_apply_eq_imp_iff₂]

/-- `Context(...)` succeeds iff the triple is well-formed, and then yields `mkCtx` of the row masks;
otherwise it raises `ValueError` — and never anything else -/
theorem C19_ctxOfTriple_iff (os ps : List Name) (bools : List (List Bool)) :
    (∀ K, ctxOfTriple os ps bools = .ok K ↔
      TripleOk os ps bools ∧ K = mkCtx os.length ps.length (bools.map rowMask).toArray) ∧
    (ctxOfTriple os ps bools = .error .valueError ↔ ¬ TripleOk os ps bools) ∧
    (∀ e, ctxOfTriple os ps bools = .error e → e = .valueError) := by
  unfold ctxOfTriple
  by_cases h : ctorAccepts os ps (bools.map (·.length)) = true
  · have h' := (tripleOk_iff os ps bools).mp h
    simp only [h, if_true]
    refine ⟨fun K => ?_, ?_, ?_⟩
    · constructor
      · intro hK; injection hK with hK; exact ⟨h', hK.symm⟩
      · rintro ⟨_, rfl⟩; rfl
    · constructor
      · intro hK; cases hK
      · intro hn; exact absurd h' hn
    · intro e he; cases he
  · have h' : ¬ TripleOk os ps bools := fun ht => h ((tripleOk_iff os ps bools).mpr ht)
    simp only [h]
    refine ⟨fun K => ?_, ?_, ?_⟩
    · constructor
      · intro hK; cases hK
      · rintro ⟨ht, _⟩; exact absurd ht h'
    · exact ⟨fun _ => h', fun _ => rfl⟩
    · intro e he; injection he with he; exact he.symm

/-- success iff well-formed (existential form) -/
theorem C19_ctxOfTriple_ok_iff (os ps : List Name) (bools : List (List Bool)) :
    (∃ K, ctxOfTriple os ps bools = .ok K) ↔ TripleOk os ps bools := by
  constructor
  · rintro ⟨K, hK⟩; exact (((C19_ctxOfTriple_iff os ps bools).1 K).mp hK).1
  · intro h; exact ⟨_, ((C19_ctxOfTriple_iff os ps bools).1 _).mpr ⟨h, rfl⟩⟩

example : TripleOk ["a", "b"] ["x", "y", "z"] [[true, false, true], [false, false, true]] := by
  unfold TripleOk; simp

/-- bit `j` of a row mask is the truthiness of cell `j` -/
theorem C19_rowMask_spec (row : List Bool) (j : Nat) :
    j ∈ᵇ rowMask row ↔ j < row.length ∧ row[j]! = true := mem_rowMask row j

/-- an accepted triple is reproduced exactly: sizes, rows (`bools()` by objects) and columns -/
theorem C19_faithful {os ps : List Name} {bools : List (List Bool)} {K : Ctx}
    (h : ctxOfTriple os ps bools = .ok K) :
    K.n = os.length ∧ K.m = ps.length ∧ K.rows.size = K.n ∧ K.cols.size = K.m ∧
    (∀ i j, i < K.n → j < K.m → (j ∈ᵇ K.rows[i]! ↔ (bools[i]!)[j]! = true)) ∧
    (∀ i j, i < K.n → j < K.m → (i ∈ᵇ K.cols[j]! ↔ (bools[i]!)[j]! = true)) := by
  obtain ⟨ht, rfl⟩ := ((C19_ctxOfTriple_iff os ps bools).1 K).mp h
  obtain ⟨_, _, _, _, _, hlen, hrow⟩ := ht
  have hcell : ∀ i j, i < os.length → j < ps.length →
      (j ∈ᵇ ((bools.map rowMask).toArray)[i]! ↔ (bools[i]!)[j]! = true) := by
    intro i j hi hj
    rw [getElem!_map_rowMask, mem_rowMask]
    have hi' : i < bools.length := by omega
    have hmem : bools[i]! ∈ bools := by
      rw [getElem!_pos bools i hi']; exact List.getElem_mem hi'
    rw [hrow _ hmem]
    exact ⟨fun h => h.2, fun h => ⟨hj, h⟩⟩
  refine ⟨rfl, rfl, ?_, ?_, hcell, ?_⟩
  · simp [mkCtx, hlen]
  · simp [mkCtx, colsOf]
  · intro i j hi hj
    show i ∈ᵇ (colsOf _ _ _)[j]! ↔ _
    rw [mem_colsOf]
    rw [hcell i j hi hj]
    exact ⟨fun h => h.2.2, fun h => ⟨hj, hi, h⟩⟩

/-- an accepted triple gives a well-formed index-level context -/
theorem C19_establishes_WF {os ps : List Name} {bools : List (List Bool)} {K : Ctx}
    (h : ctxOfTriple os ps bools = .ok K) : K.WF := by
  obtain ⟨ht, rfl⟩ := ((C19_ctxOfTriple_iff os ps bools).1 K).mp h
  obtain ⟨_, _, _, _, _, hlen, hrow⟩ := ht
  apply mkCtx_WF
  · simp [hlen]
  · intro i hi
    rw [getElem!_map_rowMask]
    have hi' : i < bools.length := by omega
    have hmem : bools[i]! ∈ bools := by
      rw [getElem!_pos bools i hi']; exact List.getElem_mem hi'
    rw [← hrow _ hmem]
    exact rowMask_lt _

example : (ctxOfTriple ["a", "b"] ["x", "y", "z"] [[true, false, true], [false, false, true]]).toOption.map
    (fun K => (K.n, K.m, K.rows, K.cols)) = some (2, 3, #[5, 4], #[1, 0, 3]) := by decide

/-! ### `fromdict` -/

/-- `fromdict` never raises anything but `ValueError` -/
theorem C19_fromdict_error (d : SDict) (req : Bool) (e : Err) (h : fromdictCheck d req = .error e) :
    e = .valueError := by
  rcases ho : d.objects with _ | objects
  · rw [fromdictCheck_none (Or.inl ho)] at h; injection h with h; exact h.symm
  rcases hp : d.properties with _ | properties
  · rw [fromdictCheck_none (Or.inr (Or.inl hp))] at h; injection h with h; exact h.symm
  rcases hc : d.context with _ | context
  · rw [fromdictCheck_none (Or.inr (Or.inr hc))] at h; injection h with h; exact h.symm
  rw [fromdictCheck_some ho hp hc] at h
  split at h
  · cases h
  · injection h with h; exact h.symm

/-- acceptance of a serialized dict, in terms of what is stored: all three keys present, every name a
string, as many rows as objects, a lattice entry when one is required and never an empty one, every
row duplicate-free with indexes inside `[0, #properties)`, and the constructor conditions on the names;
the result is then the string names and the rows as Booleans — otherwise `ValueError` -/
theorem C19_fromdict_accepts_iff (d : SDict) (req : Bool) :
    ((∃ res, fromdictCheck d req = .ok res) ↔
      ∃ objects properties context, d.objects = some objects ∧ d.properties = some properties ∧
        d.context = some context ∧
        (∀ v ∈ objects, v.isStr = true) ∧ (∀ v ∈ properties, v.isStr = true) ∧
        context.length = objects.length ∧ (req = true → d.lattice ≠ .absent) ∧ d.lattice ≠ .empty ∧
        (∀ r ∈ context, r.Nodup ∧ ∀ i ∈ r, 0 ≤ i ∧ i < (properties.length : Int)) ∧
        strNames objects ≠ [] ∧ (strNames objects).Nodup ∧ strNames properties ≠ [] ∧
        (strNames properties).Nodup ∧ (∀ x, x ∈ strNames objects → x ∉ strNames properties)) ∧
    ((¬ ∃ res, fromdictCheck d req = .ok res) ↔ fromdictCheck d req = .error .valueError) := by
  constructor
  · constructor
    · rintro ⟨res, h⟩
      rcases ho : d.objects with _ | objects
      · rw [fromdictCheck_none (Or.inl ho)] at h; cases h
      rcases hp : d.properties with _ | properties
      · rw [fromdictCheck_none (Or.inr (Or.inl hp))] at h; cases h
      rcases hc : d.context with _ | context
      · rw [fromdictCheck_none (Or.inr (Or.inr hc))] at h; cases h
      rw [fromdictCheck_some ho hp hc] at h
      split at h
      · rename_i hg
        obtain ⟨h1, h2, h3, h4, h5, h6, h7⟩ := (fromdictGuard_iff _ _ _ _ _).mp hg
        obtain ⟨a, b, c, e, f, _, _⟩ := (ctorAccepts_iff _ _ _).mp h7
        exact ⟨objects, properties, context, rfl, rfl, rfl, h1, h2, h3, h4, h5, h6, a, b, c, e, f⟩
      · cases h
    · rintro ⟨objects, properties, context, ho, hp, hc, h1, h2, h3, h4, h5, h6, a, b, c, e, f⟩
      refine ⟨(strNames objects, strNames properties, boolsOf properties.length context), ?_⟩
      rw [fromdictCheck_some ho hp hc, if_pos]
      rw [fromdictGuard_iff]
      refine ⟨h1, h2, h3, h4, h5, h6, (ctorAccepts_iff _ _ _).mpr ⟨a, b, c, e, f, ?_, ?_⟩⟩
      · rw [List.length_map, (boolsOf_lengths _ _).1, h3, strNames_length _ h1]
      · intro l hl
        rw [(boolsOf_lengths _ _).2 l hl, strNames_length _ h2]
  · constructor
    · intro hno
      rcases hres : fromdictCheck d req with e | res
      · rw [C19_fromdict_error d req e hres]
      · exact absurd ⟨res, hres⟩ hno
    · rintro h ⟨res, hres⟩
      rw [h] at hres; cases hres

/-- the same, as an equation for the result `(objects, properties, bools)` -/
theorem C19_fromdict_iff (d : SDict) (req : Bool) (os ps : List Name) (bools : List (List Bool)) :
    fromdictCheck d req = .ok (os, ps, bools) ↔
      ∃ context, d.objects = some (os.map SName.str) ∧ d.properties = some (ps.map SName.str) ∧
        d.context = some context ∧ context.length = os.length ∧
        (req = true → d.lattice ≠ .absent) ∧ d.lattice ≠ .empty ∧
        (∀ r ∈ context, r.Nodup ∧ ∀ i ∈ r, 0 ≤ i ∧ i < (ps.length : Int)) ∧
        os ≠ [] ∧ os.Nodup ∧ ps ≠ [] ∧ ps.Nodup ∧ (∀ x, x ∈ os → x ∉ ps) ∧
        bools = context.map (fun r => (List.range ps.length).map fun j => r.contains (j : Int)) := by
  constructor
  · intro h
    rcases ho : d.objects with _ | objects
    · rw [fromdictCheck_none (Or.inl ho)] at h; cases h
    rcases hp : d.properties with _ | properties
    · rw [fromdictCheck_none (Or.inr (Or.inl hp))] at h; cases h
    rcases hc : d.context with _ | context
    · rw [fromdictCheck_none (Or.inr (Or.inr hc))] at h; cases h
    rw [fromdictCheck_some ho hp hc] at h
    split at h
    · rename_i hg
      obtain ⟨h1, h2, h3, h4, h5, h6, h7⟩ := (fromdictGuard_iff _ _ _ _ _).mp hg
      obtain ⟨a, b, c, e, f, _, _⟩ := (ctorAccepts_iff _ _ _).mp h7
      injection h with h
      simp only [Prod.mk.injEq] at h
      obtain ⟨rfl, rfl, rfl⟩ := h
      have hpl : (strNames properties).length = properties.length := strNames_length _ h2
      refine ⟨context, by rw [map_str_strNames _ h1], by rw [map_str_strNames _ h2], rfl, ?_, h4, h5, ?_,
        a, b, c, e, f, ?_⟩
      · rw [h3, strNames_length _ h1]
      · rw [hpl]; exact h6
      · rw [hpl]; rfl
    · cases h
  · rintro ⟨context, ho, hp, hc, h3, h4, h5, h6, a, b, c, e, f, rfl⟩
    have hg : fromdictGuard d req (os.map SName.str) (ps.map SName.str) context = true := by
      rw [fromdictGuard_iff]
      refine ⟨by simp [SName.isStr], by simp [SName.isStr], by rw [h3, List.length_map], h4, h5,
        by rw [List.length_map]; exact h6, ?_⟩
      rw [strNames_map_str, strNames_map_str]
      refine (ctorAccepts_iff _ _ _).mpr ⟨a, b, c, e, f, ?_, ?_⟩
      · rw [List.length_map, (boolsOf_lengths _ _).1, h3]
      · intro l hl
        rw [(boolsOf_lengths _ _).2 l hl, List.length_map]
    rw [fromdictCheck_some ho hp hc, if_pos hg, strNames_map_str, strNames_map_str, List.length_map]
    rfl

/-- what `fromdict` accepts is accepted by the constructor, with one row per object, one cell per
property and cell `(i, j)` true exactly when index `j` is stored in row `i` -/
theorem C19_fromdict_faithful {d : SDict} {req : Bool} {os ps : List Name} {bools : List (List Bool)}
    (h : fromdictCheck d req = .ok (os, ps, bools)) :
    ∃ context, d.context = some context ∧ TripleOk os ps bools ∧
      ∀ i j, i < os.length → j < ps.length → ((bools[i]!)[j]! = true ↔ (j : Int) ∈ context[i]!) := by
  obtain ⟨context, _, _, hc, h3, _, _, _, a, b, c, e, f, rfl⟩ := (C19_fromdict_iff d req os ps bools).mp h
  refine ⟨context, hc, ⟨a, b, c, e, f, by rw [List.length_map, h3], ?_⟩, ?_⟩
  · intro row hrow
    rw [List.mem_map] at hrow
    obtain ⟨r, _, rfl⟩ := hrow
    simp
  · intro i j hi hj
    have hi' : i < context.length := by omega
    simp [hi', hj]

example : (fromdictCheck ⟨some [.str "a", .str "b"], some [.str "x", .str "y"], some [[0], [1, 0]], .none⟩ false).toOption
    = some (["a", "b"], ["x", "y"], [[true, false], [true, true]]) := by decide

/-- single corruptions of that dict are all rejected (with `ValueError` by `C19_fromdict_error`) -/
example : (fromdictCheck ⟨none, some [.str "x", .str "y"], some [[0], [1, 0]], .none⟩ false).toOption = none := by decide
example : (fromdictCheck ⟨some [.str "a", .other], some [.str "x", .str "y"], some [[0], [1, 0]], .none⟩ false).toOption = none := by decide
example : (fromdictCheck ⟨some [.str "a", .str "b"], some [.str "x", .str "y"], some [[0]], .none⟩ false).toOption = none := by decide
example : (fromdictCheck ⟨some [.str "a", .str "b"], some [.str "x", .str "y"], some [[0], [2, 0]], .none⟩ false).toOption = none := by decide
example : (fromdictCheck ⟨some [.str "a", .str "b"], some [.str "x", .str "y"], some [[0], [-1, 0]], .none⟩ false).toOption = none := by decide
example : (fromdictCheck ⟨some [.str "a", .str "b"], some [.str "x", .str "y"], some [[0], [0, 0]], .none⟩ false).toOption = none := by decide
example : (fromdictCheck ⟨some [.str "a", .str "b"], some [.str "x", .str "y"], some [[0], [1, 0]], .empty⟩ false).toOption = none := by decide
example : (fromdictCheck ⟨some [.str "a", .str "b"], some [.str "x", .str "y"], some [[0], [1, 0]], .absent⟩ true).toOption = none := by decide
example : (fromdictCheck ⟨some [.str "a", .str "a"], some [.str "x", .str "y"], some [[0], [1, 0]], .none⟩ false).toOption = none := by decide
example : (fromdictCheck ⟨some [.str "a", .str "x"], some [.str "x", .str "y"], some [[0], [1, 0]], .none⟩ false).toOption = none := by decide

/-! ### composites -/

/-- a constructed context has at least one object and one property (the hypothesis `0 < K.n` of C16) -/
theorem C19_nonempty {os ps : List Name} {bools : List (List Bool)} {K : Ctx}
    (h : ctxOfTriple os ps bools = .ok K) : 0 < K.n ∧ 0 < K.m := by
  obtain ⟨ht, rfl⟩ := ((C19_ctxOfTriple_iff os ps bools).1 K).mp h
  obtain ⟨ho, _, hp, _⟩ := ht
  exact ⟨List.length_pos_iff.mpr ho, List.length_pos_iff.mpr hp⟩

/-- what `fromdict` accepts (the validation prefix, through the constructor call) is accepted by the
constructor and gives a well-formed, non-empty index-level context of the stored sizes -/
theorem C19_fromdict_WF {d : SDict} {req : Bool} {os ps : List Name} {bools : List (List Bool)}
    (h : fromdictCheck d req = .ok (os, ps, bools)) :
    ∃ K, ctxOfTriple os ps bools = .ok K ∧ K.WF ∧ K.n = os.length ∧ K.m = ps.length ∧
      0 < K.n ∧ 0 < K.m := by
  obtain ⟨_, _, ht, _⟩ := C19_fromdict_faithful h
  obtain ⟨K, hK⟩ := (C19_ctxOfTriple_ok_iff os ps bools).mpr ht
  obtain ⟨h1, h2, _⟩ := C19_faithful hK
  exact ⟨K, hK, C19_establishes_WF hK, h1, h2, C19_nonempty hK⟩

/-- the context with its names: `Context(objects, properties, bools)` succeeds under the same
condition, `.objects` / `.properties` are the given names, unchanged and in the given order, one per
row / column of the table, and the table is the one of `ctxOfTriple` -/
theorem C19_names_reproduced (os ps : List Name) (bools : List (List Bool)) :
    ((∃ C, lctxOfTriple os ps bools = .ok C) ↔ TripleOk os ps bools) ∧
    (∀ C, lctxOfTriple os ps bools = .ok C →
      C.objs = os ∧ C.props = ps ∧ ctxOfTriple os ps bools = .ok C.K ∧
      C.K.n = C.objs.length ∧ C.K.m = C.props.length ∧ C.objs.Nodup ∧ C.props.Nodup ∧
      (∀ x, x ∈ C.objs → x ∉ C.props) ∧ C.K.WF) ∧
    (∀ e, lctxOfTriple os ps bools = .error e → e = .valueError ∧ ¬ TripleOk os ps bools) := by
  unfold lctxOfTriple
  cases hK : ctxOfTriple os ps bools with
  | ok K =>
    have ht := (((C19_ctxOfTriple_iff os ps bools).1 K).mp hK).1
    obtain ⟨h1, h2, _⟩ := C19_faithful hK
    refine ⟨⟨fun _ => ht, fun _ => ⟨_, rfl⟩⟩, ?_, ?_⟩
    · intro C hC
      injection hC with hC
      subst hC
      exact ⟨rfl, rfl, rfl, h1, h2, ht.2.1, ht.2.2.2.1, ht.2.2.2.2.1, C19_establishes_WF hK⟩
    · intro e he; cases he
  | error e =>
    have hv := (C19_ctxOfTriple_iff os ps bools).2.2 e hK
    subst hv
    have hnot := (C19_ctxOfTriple_iff os ps bools).2.1.mp hK
    refine ⟨⟨?_, fun ht => absurd ht hnot⟩, ?_, ?_⟩
    · rintro ⟨C, hC⟩; cases hC
    · intro C hC; cases hC
    · intro e he
      injection he with he
      exact ⟨he.symm, hnot⟩

/-- `fromdict` reproduces the stored names: the result carries exactly the stored strings -/
theorem C19_fromdict_names (d : SDict) (req : Bool) :
    (∀ C, lctxOfDict d req = .ok C →
      d.objects = some (C.objs.map SName.str) ∧ d.properties = some (C.props.map SName.str) ∧
      C.K.WF ∧ C.K.n = C.objs.length ∧ C.K.m = C.props.length) ∧
    (∀ e, lctxOfDict d req = .error e → e = .valueError) ∧
    ((∃ C, lctxOfDict d req = .ok C) ↔ ∃ res, fromdictCheck d req = .ok res) := by
  unfold lctxOfDict
  cases hres : fromdictCheck d req with
  | error e =>
    have := C19_fromdict_error d req e hres
    subst this
    refine ⟨fun C hC => (by cases hC), fun e he => (by injection he with he; exact he.symm), ?_⟩
    constructor
    · rintro ⟨C, hC⟩; cases hC
    · rintro ⟨res, hr⟩; cases hr
  | ok res =>
    obtain ⟨os, ps, bools⟩ := res
    obtain ⟨K, hK, hWF, h1, h2, _⟩ := C19_fromdict_WF hres
    obtain ⟨_, ho, hp, _⟩ := (C19_fromdict_iff d req os ps bools).mp hres
    have hl : lctxOfTriple os ps bools = .ok ⟨os, ps, K⟩ := by unfold lctxOfTriple; rw [hK]
    simp only [hl]
    refine ⟨?_, fun e he => (by cases he), ⟨fun _ => ⟨_, rfl⟩, fun _ => ⟨_, rfl⟩⟩⟩
    intro C hC
    injection hC with hC
    subst hC
    exact ⟨ho, hp, hWF, h1, h2⟩

example : (lctxOfTriple ["a", "b"] ["x", "y", "z"] [[true, false, true], [false, false, true]]).toOption.map
    (fun C => (C.objs, C.props, C.K.n, C.K.m, C.K.rows)) = some (["a", "b"], ["x", "y", "z"], 2, 3, #[5, 4]) := by
  decide
example : (lctxOfDict ⟨some [.str "a", .str "b"], some [.str "x", .str "y"], some [[0], [1, 0]], .none⟩ false).toOption.map
    (fun C => (C.objs, C.props, C.K.rows)) = some (["a", "b"], ["x", "y"], #[1, 3]) := by decide
example : (lctxOfTriple ["a", "a"] ["x"] [[true], [true]]).toOption.isNone = true := by decide

end FCA

#print axioms FCA.C19_hasDup_iff
#print axioms FCA.C19_ctor_iff
#print axioms FCA.C19_ctxOfTriple_iff
#print axioms FCA.C19_ctxOfTriple_ok_iff
#print axioms FCA.C19_rowMask_spec
#print axioms FCA.C19_faithful
#print axioms FCA.C19_establishes_WF
#print axioms FCA.C19_fromdict_error
#print axioms FCA.C19_fromdict_accepts_iff
#print axioms FCA.C19_fromdict_iff
#print axioms FCA.C19_fromdict_faithful
#print axioms FCA.C19_nonempty
#print axioms FCA.C19_fromdict_WF
#print axioms FCA.C19_names_reproduced
#print axioms FCA.C19_fromdict_names
