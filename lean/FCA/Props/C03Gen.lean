import FCA.Generated.Lindig
import FCA.Generated.LindigLattice
import FCA.Model.Lindig
/-
C03 / C05 over the regenerated source: the body of the `for add in Objects.atomic(minimal)` loop of
`lindig.neighbors`, as translated from the current `lindig.py` by harness/extract.py, run over the candidate
atoms, is the model's `neighborsLoop` — so `C03_*` / `C05_*` (proved about `neighbors`) speak about the loop body
the source has now.
-/
namespace FCA

/-- one pass of the regenerated body is one step of the model's loop -/
theorem C03_generated_neighbors_body (K : Ctx) (objects g minimal : Nat) (acc : List (Nat × Nat)) :
    Generated.neighbors_body K.dpObj objects (2 ^ g) minimal acc =
      if andNot (K.dpObj (objects ||| 2 ^ g)).1 (objects ||| 2 ^ g) &&& minimal ≠ 0 then
        (andNot minimal (2 ^ g), acc)
      else (minimal, K.dpObj (objects ||| 2 ^ g) :: acc) := by
  simp only [Generated.neighbors_body]

/-- the regenerated loop body, folded over the candidates, is the model's loop -/
theorem C03_generated_neighbors_loop (K : Ctx) (objects : Nat) (gs : List Nat) (minimal : Nat)
    (acc : List (Nat × Nat)) :
    neighborsLoop K objects gs minimal acc =
      ((gs.foldl (fun s g => Generated.neighbors_body K.dpObj objects (2 ^ g) s.1 s.2) (minimal, acc)).2).reverse := by
  induction gs generalizing minimal acc with
  | nil => simp [neighborsLoop]
  | cons g gs ih =>
    rw [neighborsLoop, List.foldl_cons, C03_generated_neighbors_body]
    generalize K.dpObj (objects ||| 2 ^ g) = p
    obtain ⟨e, i⟩ := p
    dsimp only
    by_cases h : andNot e (objects ||| 2 ^ g) &&& minimal ≠ 0
    · rw [if_pos h, if_pos h]; exact ih _ _
    · rw [if_neg h, if_neg h]; exact ih _ _

/-- `lindig.neighbors(objects, Objects=...)` of the current source = the model's `neighbors` -/
theorem C03_generated_neighbors (K : Ctx) (objects : Nat) :
    neighbors K objects =
      (((membersW K.n (andNot (full K.n) objects)).foldl
        (fun s g => Generated.neighbors_body K.dpObj objects (2 ^ g) s.1 s.2)
        (andNot (full K.n) objects, [])).2).reverse := by
  simp only [neighbors, C03_generated_neighbors_loop]

end FCA
#print axioms FCA.C03_generated_neighbors_body
#print axioms FCA.C03_generated_neighbors_loop
#print axioms FCA.C03_generated_neighbors

/-! ### `lindig.lattice`: the neighbor loop of the heap loop, regenerated from the current source -/
namespace FCA

/-- the regenerated body of `for n_extent, n_intent in neighbors(extent, Objects=Objects)`, folded over the yielded
neighbors, is the model's `linkNeighbors` (dict + mutable tuples read as the record list, heap as the list of pushed extents) -/
theorem C03_generated_lattice_body (e : Nat) (nbs : List (Nat × Nat)) (recs : List Rec) (heap : List Nat) :
    linkNeighbors e nbs recs heap =
      nbs.foldl (fun s nb => Generated.lattice_body e nb.1 nb.2 s.1 s.2) (recs, heap) := by
  induction nbs generalizing recs heap with
  | nil => simp [linkNeighbors]
  | cons nb nbs ih =>
    obtain ⟨ne, ni⟩ := nb
    rw [linkNeighbors, List.foldl_cons]
    simp only [Generated.lattice_body]
    split <;> exact ih _ _

/-- one iteration of `while heap:` of `lindig.lattice`, with the regenerated neighbor loop -/
theorem C03_generated_lattice_step (K : Ctx) (fuel : Nat) (heap : List Nat) (recs : List Rec) (order : List Nat) :
    lindigLoop K (fuel + 1) heap recs order =
      match minBy (shortlexKey K.n) heap with
      | none => (recs, order.reverse)
      | some e =>
        let s := (neighbors K e).foldl (fun s nb => Generated.lattice_body e nb.1 nb.2 s.1 s.2) (recs, heap.erase e)
        lindigLoop K fuel s.2 s.1 (e :: order) := by
  rw [lindigLoop]
  cases minBy (shortlexKey K.n) heap with
  | none => rfl
  | some e => simp only [C03_generated_lattice_body]

end FCA
#print axioms FCA.C03_generated_lattice_body
#print axioms FCA.C03_generated_lattice_step
