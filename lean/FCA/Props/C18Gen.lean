import FCA.Generated.Minimize
import FCA.Model.Render
/-
C18 over the regenerated source: `Context._minimize(extent, intent)` as translated from the current `contexts.py`
(empty-extent case, the filter over `intent.powerset()`), run with the model's shortlex powerset and derivation, is the
model's `minimize` — about which `C18_*` are proved; hence `attributes()` and `minimal()`.
-/
namespace FCA

theorem C18_generated_minimize (K : Ctx) (extent intent : Nat) :
    Generated.minimize (powersetShortlex K.m) K.extentOf extent intent = minimize K extent intent := by
  simp only [Generated.minimize, minimize]

/-- `lattice[k].attributes()` through the regenerated `_minimize` -/
theorem C18_generated_attributes (K : Ctx) (L : Lattice) (k : Nat) :
    conceptAttributes K L k =
      match L[k]? with
      | some c => Generated.minimize (powersetShortlex K.m) K.extentOf c.extent c.intent
      | none => [] := by
  simp only [conceptAttributes, C18_generated_minimize]
  cases L[k]? <;> rfl

/-- `lattice[k].minimal()` through the regenerated `_minimize` (`Infimum.minimal` override included) -/
theorem C18_generated_minimal (K : Ctx) (L : Lattice) (k : Nat) :
    conceptMinimal K L k =
      (L[k]?).bind fun c =>
        if k = 0 ∧ c.extent = 0 then some c.intent
        else (Generated.minimize (powersetShortlex K.m) K.extentOf c.extent c.intent).head? := by
  simp only [conceptMinimal, C18_generated_minimize]

end FCA
#print axioms FCA.C18_generated_minimize
#print axioms FCA.C18_generated_attributes
#print axioms FCA.C18_generated_minimal
