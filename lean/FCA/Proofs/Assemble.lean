import FCA.Model.Lattice
import FCA.Proofs.ListAux
import FCA.Proofs.Lindig
/-
`Lattice.__init__` / `_init` of the model (`assemble`, `mkLattice`): concept number `k` is built from
record number `k`; neighbor references become positions.
-/
namespace FCA

/-- the concept built from record `r` at position `k` -/
def mkConcept (K : Ctx) (recs : List Rec) (k : Nat) (r : Rec) : LConcept :=
  let extents := recs.map (·.extent)
  let slKey := fun i => shortlexKey K.n (extents.getD i 0)
  let llKey := fun i => longlexKey K.n (extents.getD i 0)
  let dorder := sortBy llKey (List.range recs.length)
  let uppers := recs.map fun r => sortBy slKey (toIndexes extents r.upper)
  let atoms := uppers.headD []
  { extent := r.extent, intent := r.intent
    upper := uppers.getD k []
    lower := sortBy llKey (toIndexes extents r.lower)
    index := k
    dindex := (indexOf? k dorder).getD 0
    atoms := atoms.filter fun a => r.extent ||| extents.getD a 0 == r.extent
    objects := objectLabels K r.extent
    properties := propertyLabels K r.extent }

theorem assemble_eq (K : Ctx) (recs : List Rec) :
    assemble K recs = recs.zipIdx.map (fun p => mkConcept K recs p.2 p.1) := by
  rw [← filterMap_range_get]
  unfold assemble
  simp only
  congr 1
  funext k
  cases recs[k]? <;> rfl

theorem assemble_length (K : Ctx) (recs : List Rec) : (assemble K recs).length = recs.length := by
  rw [assemble_eq]; simp

theorem assemble_get (K : Ctx) (recs : List Rec) (k : Nat) :
    (assemble K recs)[k]? = (recs[k]?).map (mkConcept K recs k) := by
  rw [assemble_eq, List.getElem?_map, List.getElem?_zipIdx]
  cases recs[k]? <;> simp

theorem assemble_extents (K : Ctx) (recs : List Rec) :
    (assemble K recs).map (·.extent) = recs.map (·.extent) := by
  rw [assemble_eq, List.map_map]
  have : ((fun c : LConcept => c.extent) ∘ fun p : Rec × Nat => mkConcept K recs p.2 p.1) = (fun p => p.1.extent) := by
    funext p; rfl
  rw [this]
  have : (fun p : Rec × Nat => p.1.extent) = (fun r : Rec => r.extent) ∘ Prod.fst := rfl
  rw [this, ← List.map_map, List.zipIdx_map_fst]

theorem assemble_pairs (K : Ctx) (recs : List Rec) :
    (assemble K recs).map (fun c => (c.extent, c.intent)) = recs.map (fun r => (r.extent, r.intent)) := by
  rw [assemble_eq, List.map_map]
  have : ((fun c : LConcept => (c.extent, c.intent)) ∘ fun p : Rec × Nat => mkConcept K recs p.2 p.1) =
      (fun r : Rec => (r.extent, r.intent)) ∘ Prod.fst := by
    funext p; rfl
  rw [this, ← List.map_map, List.zipIdx_map_fst]

end FCA
