import FCA.Proofs.Galois
import Mathlib.Data.Finset.Card
import Mathlib.Data.Finset.Prod
/-
Specification-level view of formal concepts: `IsC n m R A B` says that the masks `A`, `B` form a
formal concept of the incidence relation `R` on `[0,n) × [0,m)`.  All invariance statements of C15
(transposition, relabelling, duplicated rows/columns) are proved for `IsC` and transferred to the
model predicate `isConcept` via `isConcept_spec`.
-/
namespace FCA

/-- `(A, B)` is a formal concept of the relation `R` between `[0,n)` and `[0,m)` -/
def IsC (n m : Nat) (R : Nat → Nat → Prop) (A B : Nat) : Prop :=
  Bounded n A ∧ Bounded m B ∧
    (∀ j, j ∈ᵇ B ↔ j < m ∧ ∀ i, i ∈ᵇ A → R i j) ∧
    (∀ i, i ∈ᵇ A ↔ i < n ∧ ∀ j, j ∈ᵇ B → R i j)

/-- the model predicate `isConcept` is the textbook definition over the incidence `K.has` -/
theorem isConcept_spec {K : Ctx} (h : K.WF) {A B : Nat} :
    isConcept K A B ↔ Bounded K.n A ∧ Bounded K.m B ∧
      (∀ j, j ∈ᵇ B ↔ j < K.m ∧ ∀ i, i ∈ᵇ A → K.has i j) ∧
      (∀ i, i ∈ᵇ A ↔ i < K.n ∧ ∀ j, j ∈ᵇ B → K.has i j) := by
  unfold isConcept
  constructor
  · rintro ⟨hA, hB, h1, h2⟩
    refine ⟨hA, hB, fun j => ?_, fun i => ?_⟩
    · rw [← h1]; exact mem_intentOf A j
    · rw [← h2]; exact mem_extentOf h B i
  · rintro ⟨hA, hB, h1, h2⟩
    refine ⟨hA, hB, ext fun j => ?_, ext fun i => ?_⟩
    · rw [h1]; exact mem_intentOf A j
    · rw [h2]; exact mem_extentOf h B i

theorem isConcept_iff_IsC {K : Ctx} (h : K.WF) {A B : Nat} :
    isConcept K A B ↔ IsC K.n K.m K.has A B := isConcept_spec h

/-! ### transposition -/

/-- the incidence of the transposed table -/
theorem transpose_has {K : Ctx} (h : K.WF) (i j : Nat) : K.transpose.has j i ↔ K.has i j := by
  show i ∈ᵇ K.cols[j]! ↔ K.has i j
  rw [h.2.2, mem_colsOf]
  constructor
  · rintro ⟨_, _, hij⟩; exact hij
  · intro hij
    have := h.has_lt hij
    exact ⟨this.2, this.1, hij⟩

theorem IsC_swap {n m : Nat} {R : Nat → Nat → Prop} {A B : Nat} :
    IsC m n (fun j i => R i j) B A ↔ IsC n m R A B := by
  unfold IsC; tauto

theorem IsC_congr {n m : Nat} {R R' : Nat → Nat → Prop} {A B : Nat}
    (hR : ∀ i j, i < n → j < m → (R' i j ↔ R i j)) :
    IsC n m R' A B ↔ IsC n m R A B := by
  unfold IsC
  constructor
  · rintro ⟨hA, hB, h1, h2⟩
    refine ⟨hA, hB, fun j => ?_, fun i => ?_⟩
    · rw [h1]
      constructor
      · rintro ⟨hj, hh⟩; exact ⟨hj, fun i hi => (hR i j (hA i hi) hj).mp (hh i hi)⟩
      · rintro ⟨hj, hh⟩; exact ⟨hj, fun i hi => (hR i j (hA i hi) hj).mpr (hh i hi)⟩
    · rw [h2]
      constructor
      · rintro ⟨hi, hh⟩; exact ⟨hi, fun j hj => (hR i j hi (hB j hj)).mp (hh j hj)⟩
      · rintro ⟨hi, hh⟩; exact ⟨hi, fun j hj => (hR i j hi (hB j hj)).mpr (hh j hj)⟩
  · rintro ⟨hA, hB, h1, h2⟩
    refine ⟨hA, hB, fun j => ?_, fun i => ?_⟩
    · rw [h1]
      constructor
      · rintro ⟨hj, hh⟩; exact ⟨hj, fun i hi => (hR i j (hA i hi) hj).mpr (hh i hi)⟩
      · rintro ⟨hj, hh⟩; exact ⟨hj, fun i hi => (hR i j (hA i hi) hj).mp (hh i hi)⟩
    · rw [h2]
      constructor
      · rintro ⟨hi, hh⟩; exact ⟨hi, fun j hj => (hR i j hi (hB j hj)).mpr (hh j hj)⟩
      · rintro ⟨hi, hh⟩; exact ⟨hi, fun j hj => (hR i j hi (hB j hj)).mp (hh j hj)⟩

/-- concepts of the transposed table = concepts of the table with extent and intent exchanged -/
theorem isConcept_transpose {K : Ctx} (h : K.WF) {A B : Nat} :
    isConcept K.transpose B A ↔ isConcept K A B := by
  rw [isConcept_iff_IsC (transpose_WF h), isConcept_iff_IsC h, ← IsC_swap (R := K.has)]
  exact IsC_congr (fun j i _ _ => transpose_has h i j)

/-- the two descriptions of the concept order agree: bigger extent ⇔ smaller intent -/
theorem IsC_order_dual {n m : Nat} {R : Nat → Nat → Prop} {A₁ B₁ A₂ B₂ : Nat}
    (h1 : IsC n m R A₁ B₁) (h2 : IsC n m R A₂ B₂) : A₁ ⊆ᵇ A₂ ↔ B₂ ⊆ᵇ B₁ := by
  obtain ⟨_, _, hB1, hA1⟩ := h1
  obtain ⟨_, _, hB2, hA2⟩ := h2
  constructor
  · intro hs j hj
    rw [hB2] at hj; rw [hB1]
    exact ⟨hj.1, fun i hi => hj.2 i (hs i hi)⟩
  · intro hs i hi
    rw [hA1] at hi; rw [hA2]
    exact ⟨hi.1, fun j hj => hi.2 j (hs j hj)⟩

theorem concept_order_dual {K : Ctx} (h : K.WF) {A₁ B₁ A₂ B₂ : Nat}
    (h1 : isConcept K A₁ B₁) (h2 : isConcept K A₂ B₂) : A₁ ⊆ᵇ A₂ ↔ B₂ ⊆ᵇ B₁ :=
  IsC_order_dual ((isConcept_iff_IsC h).mp h1) ((isConcept_iff_IsC h).mp h2)

/-- a concept is determined by its extent -/
theorem concept_intent_unique {K : Ctx} {A B B' : Nat}
    (h1 : isConcept K A B) (h2 : isConcept K A B') : B = B' := by
  rw [← h1.2.2.1, ← h2.2.2.1]

/-- a concept is determined by its intent -/
theorem concept_extent_unique {K : Ctx} {A A' B : Nat}
    (h1 : isConcept K A B) (h2 : isConcept K A' B) : A = A' := by
  rw [← h1.2.2.2, ← h2.2.2.2]

/-! ### order notions on the set of concepts (specification level)

Concepts are ordered by inclusion of extents (`Concept.__le__`: `self._extent & other._extent == self._extent`). -/

/-- `(A₁,B₁)` is a lower neighbor of `(A₂,B₂)`: strictly below with no concept strictly between -/
def Covers (K : Ctx) (A₁ B₁ A₂ B₂ : Nat) : Prop :=
  isConcept K A₁ B₁ ∧ isConcept K A₂ B₂ ∧ A₁ ⊆ᵇ A₂ ∧ A₁ ≠ A₂ ∧
    ∀ A B, isConcept K A B → A₁ ⊆ᵇ A → A ⊆ᵇ A₂ → A = A₁ ∨ A = A₂

/-- `(A,B)` is the least upper bound of `(A₁,B₁)` and `(A₂,B₂)` -/
def IsJoin (K : Ctx) (A₁ B₁ A₂ B₂ A B : Nat) : Prop :=
  isConcept K A₁ B₁ ∧ isConcept K A₂ B₂ ∧ isConcept K A B ∧ A₁ ⊆ᵇ A ∧ A₂ ⊆ᵇ A ∧
    ∀ X Y, isConcept K X Y → A₁ ⊆ᵇ X → A₂ ⊆ᵇ X → A ⊆ᵇ X

/-- `(A,B)` is the greatest lower bound of `(A₁,B₁)` and `(A₂,B₂)` -/
def IsMeet (K : Ctx) (A₁ B₁ A₂ B₂ A B : Nat) : Prop :=
  isConcept K A₁ B₁ ∧ isConcept K A₂ B₂ ∧ isConcept K A B ∧ A ⊆ᵇ A₁ ∧ A ⊆ᵇ A₂ ∧
    ∀ X Y, isConcept K X Y → X ⊆ᵇ A₁ → X ⊆ᵇ A₂ → X ⊆ᵇ A

/-! ### relabelling (permutation of rows and columns) -/

/-- `σ` is a bijection of `[0,n)` with inverse `σi` -/
def PermOn (σ σi : Nat → Nat) (n : Nat) : Prop :=
  ∀ i, i < n → σ i < n ∧ σi i < n ∧ σi (σ i) = i ∧ σ (σi i) = i

instance (σ σi : Nat → Nat) (n : Nat) : Decidable (PermOn σ σi n) := by
  unfold PermOn; infer_instance

instance (k a : Nat) : Decidable (Bounded k a) := decidable_of_iff _ bounded_iff_lt.symm

theorem PermOn.symm {σ σi : Nat → Nat} {n : Nat} (h : PermOn σ σi n) : PermOn σi σ n :=
  fun i hi => ⟨(h i hi).2.1, (h i hi).1, (h i hi).2.2.2, (h i hi).2.2.1⟩

/-- `a'` is the image of the mask `a ⊆ [0,n)` under `σ` -/
def Image (σ : Nat → Nat) (n a a' : Nat) : Prop :=
  Bounded n a ∧ Bounded n a' ∧ ∀ i, i < n → (σ i ∈ᵇ a' ↔ i ∈ᵇ a)

instance (σ : Nat → Nat) (n a a' : Nat) : Decidable (Image σ n a a') := by
  unfold Image; infer_instance

theorem Image.symm {σ σi : Nat → Nat} {n a a' : Nat} (hp : PermOn σ σi n) (h : Image σ n a a') :
    Image σi n a' a := by
  refine ⟨h.2.1, h.1, fun i hi => ?_⟩
  have := h.2.2 (σi i) (hp i hi).2.1
  rw [(hp i hi).2.2.2] at this
  exact this.symm

/-- the image mask, computed: `{σ i | i ∈ a, i < n}` -/
def mapMask (σ : Nat → Nat) (n a : Nat) : Nat :=
  (List.range n).foldl (fun acc i => if a.testBit i then acc ||| 2 ^ σ i else acc) 0

theorem foldl_or_pow_map_mem (σ : Nat → Nat) (p : Nat → Bool) (l : List Nat) (init k : Nat) :
    k ∈ᵇ l.foldl (fun acc i => if p i then acc ||| 2 ^ σ i else acc) init ↔
      k ∈ᵇ init ∨ ∃ i, i ∈ l ∧ p i = true ∧ σ i = k := by
  induction l generalizing init with
  | nil => simp
  | cons a l ih =>
    simp only [List.foldl_cons, ih, List.mem_cons]
    by_cases hp : p a = true
    · simp only [hp, if_true, mem_or, mem_pow]
      constructor
      · rintro ((h | rfl) | ⟨i, hi, h2, h3⟩)
        · exact Or.inl h
        · exact Or.inr ⟨a, Or.inl rfl, hp, rfl⟩
        · exact Or.inr ⟨i, Or.inr hi, h2, h3⟩
      · rintro (h | ⟨i, rfl | hi, h2, h3⟩)
        · exact Or.inl (Or.inl h)
        · exact Or.inl (Or.inr h3.symm)
        · exact Or.inr ⟨i, hi, h2, h3⟩
    · simp only [hp]
      constructor
      · rintro (h | ⟨i, hi, h2, h3⟩)
        · exact Or.inl h
        · exact Or.inr ⟨i, Or.inr hi, h2, h3⟩
      · rintro (h | ⟨i, rfl | hi, h2, h3⟩)
        · exact Or.inl h
        · exact absurd h2 hp
        · exact Or.inr ⟨i, hi, h2, h3⟩

theorem mem_mapMask (σ : Nat → Nat) (n a k : Nat) :
    k ∈ᵇ mapMask σ n a ↔ ∃ i, i < n ∧ i ∈ᵇ a ∧ σ i = k := by
  unfold mapMask
  rw [foldl_or_pow_map_mem σ (fun i => a.testBit i)]
  simp [mem]

theorem image_mapMask {σ σi : Nat → Nat} {n a : Nat} (hp : PermOn σ σi n) (ha : Bounded n a) :
    Image σ n a (mapMask σ n a) := by
  refine ⟨ha, ?_, fun i hi => ?_⟩
  · intro k hk
    obtain ⟨i, hi, _, rfl⟩ := (mem_mapMask σ n a k).mp hk
    exact (hp i hi).1
  · rw [mem_mapMask]
    constructor
    · rintro ⟨i', hi', ha', he⟩
      have : i' = i := by
        rw [← (hp i hi).2.2.1, ← (hp i' hi').2.2.1, he]
      rwa [← this]
    · intro h; exact ⟨i, hi, h, rfl⟩

/-- the image is unique -/
theorem Image.unique {σ σi : Nat → Nat} {n a a' a'' : Nat} (hp : PermOn σ σi n)
    (h1 : Image σ n a a') (h2 : Image σ n a a'') : a' = a'' := by
  apply ext; intro k
  constructor
  · intro hk
    have hkn := h1.2.1 k hk
    have e := (hp k hkn).2.2.2
    rw [← e] at hk ⊢
    exact (h2.2.2 _ (hp k hkn).2.1).mpr ((h1.2.2 _ (hp k hkn).2.1).mp hk)
  · intro hk
    have hkn := h2.2.1 k hk
    have e := (hp k hkn).2.2.2
    rw [← e] at hk ⊢
    exact (h1.2.2 _ (hp k hkn).2.1).mpr ((h2.2.2 _ (hp k hkn).2.1).mp hk)

theorem Image.sub_iff {σ σi : Nat → Nat} {n a₁ a₁' a₂ a₂' : Nat} (hp : PermOn σ σi n)
    (h1 : Image σ n a₁ a₁') (h2 : Image σ n a₂ a₂') : a₁ ⊆ᵇ a₂ ↔ a₁' ⊆ᵇ a₂' := by
  constructor
  · intro hs k hk
    have hkn := h1.2.1 k hk
    have e := (hp k hkn).2.2.2
    rw [← e] at hk ⊢
    exact (h2.2.2 _ (hp k hkn).2.1).mpr (hs _ ((h1.2.2 _ (hp k hkn).2.1).mp hk))
  · intro hs i hi
    have hin := h1.1 i hi
    exact (h2.2.2 i hin).mp (hs _ ((h1.2.2 i hin).mpr hi))

/-- half of the concept condition is transported along a pair of bijections -/
theorem perm_half {n m : Nat} {R R' : Nat → Nat → Prop} {σ σi τ τi : Nat → Nat}
    (hσ : PermOn σ σi n) (hτ : PermOn τ τi m)
    (hR : ∀ i j, i < n → j < m → (R' (σ i) (τ j) ↔ R i j))
    {A B A' B' : Nat} (hA : Image σ n A A') (hB : Image τ m B B')
    (h : ∀ j, j ∈ᵇ B ↔ j < m ∧ ∀ i, i ∈ᵇ A → R i j) :
    ∀ j, j ∈ᵇ B' ↔ j < m ∧ ∀ i, i ∈ᵇ A' → R' i j := by
  intro j'
  constructor
  · intro hj'
    have hjm := hB.2.1 j' hj'
    obtain ⟨_, hτi, _, eτ⟩ := hτ j' hjm
    refine ⟨hjm, fun i' hi' => ?_⟩
    have hin := hA.2.1 i' hi'
    obtain ⟨_, hσi, _, eσ⟩ := hσ i' hin
    have hjB : τi j' ∈ᵇ B := (hB.2.2 _ hτi).mp (by rw [eτ]; exact hj')
    have hiA : σi i' ∈ᵇ A := (hA.2.2 _ hσi).mp (by rw [eσ]; exact hi')
    have := (hR _ _ hσi hτi).mpr (((h _).mp hjB).2 _ hiA)
    rwa [eσ, eτ] at this
  · rintro ⟨hjm, hall⟩
    obtain ⟨_, hτi, _, eτ⟩ := hτ j' hjm
    have : τi j' ∈ᵇ B := by
      rw [h]
      refine ⟨hτi, fun i hi => ?_⟩
      have hin := hA.1 i hi
      have := hall (σ i) ((hA.2.2 i hin).mpr hi)
      rw [← eτ] at this
      exact (hR _ _ hin hτi).mp this
    have := (hB.2.2 _ hτi).mpr this
    rwa [eτ] at this

theorem IsC_perm_imp {n m : Nat} {R R' : Nat → Nat → Prop} {σ σi τ τi : Nat → Nat}
    (hσ : PermOn σ σi n) (hτ : PermOn τ τi m)
    (hR : ∀ i j, i < n → j < m → (R' (σ i) (τ j) ↔ R i j))
    {A B A' B' : Nat} (hA : Image σ n A A') (hB : Image τ m B B')
    (h : IsC n m R A B) : IsC n m R' A' B' := by
  obtain ⟨_, _, h1, h2⟩ := h
  refine ⟨hA.2.1, hB.2.1, perm_half hσ hτ hR hA hB h1, ?_⟩
  exact perm_half (R := fun j i => R i j) (R' := fun j i => R' i j) hτ hσ
    (fun j i hj hi => hR i j hi hj) hB hA h2

theorem IsC_perm {n m : Nat} {R R' : Nat → Nat → Prop} {σ σi τ τi : Nat → Nat}
    (hσ : PermOn σ σi n) (hτ : PermOn τ τi m)
    (hR : ∀ i j, i < n → j < m → (R' (σ i) (τ j) ↔ R i j))
    {A B A' B' : Nat} (hA : Image σ n A A') (hB : Image τ m B B') :
    IsC n m R A B ↔ IsC n m R' A' B' := by
  refine ⟨IsC_perm_imp hσ hτ hR hA hB, ?_⟩
  refine IsC_perm_imp hσ.symm hτ.symm (fun i j hi hj => ?_) (hA.symm hσ) (hB.symm hτ)
  have := hR (σi i) (τi j) (hσ i hi).2.1 (hτ j hj).2.1
  rw [(hσ i hi).2.2.2, (hτ j hj).2.2.2] at this
  exact this.symm

/-! ### one more column -/

/-- Adding a column `m` whose object set is `E`: every concept `(A,B)` stays a concept, the new
property joins the intent iff `A ⊆ E`. -/
theorem IsC_addCol_imp {n m : Nat} {R R' : Nat → Nat → Prop} {E : Nat}
    (hold : ∀ i j, i < n → j < m → (R' i j ↔ R i j))
    (hnew : ∀ i, i < n → (R' i m ↔ i ∈ᵇ E))
    {A B B' : Nat} (hB' : ∀ j, j ∈ᵇ B' ↔ j ∈ᵇ B ∨ (j = m ∧ A ⊆ᵇ E))
    (h : IsC n m R A B) : IsC n (m+1) R' A B' := by
  obtain ⟨hA, hB, h1, h2⟩ := h
  refine ⟨hA, ?_, fun j => ?_, fun i => ?_⟩
  · intro j hj
    rcases (hB' j).mp hj with h | ⟨rfl, _⟩
    · have := hB j h; omega
    · omega
  · rw [hB']
    constructor
    · rintro (hj | ⟨rfl, hs⟩)
      · have hjm := hB j hj
        exact ⟨by omega, fun i hi => (hold i j (hA i hi) hjm).mpr (((h1 j).mp hj).2 i hi)⟩
      · exact ⟨by omega, fun i hi => (hnew i (hA i hi)).mpr (hs i hi)⟩
    · rintro ⟨hj, hall⟩
      by_cases hjm : j < m
      · left; rw [h1]
        exact ⟨hjm, fun i hi => (hold i j (hA i hi) hjm).mp (hall i hi)⟩
      · have : j = m := by omega
        subst this
        right; exact ⟨rfl, fun i hi => (hnew i (hA i hi)).mp (hall i hi)⟩
  · constructor
    · intro hi
      have hin := hA i hi
      refine ⟨hin, fun j hj => ?_⟩
      rcases (hB' j).mp hj with h | ⟨rfl, hs⟩
      · exact (hold i j hin (hB j h)).mpr (((h2 i).mp hi).2 j h)
      · exact (hnew i hin).mpr (hs i hi)
    · rintro ⟨hin, hall⟩
      rw [h2]
      refine ⟨hin, fun j hj => ?_⟩
      exact (hold i j hin (hB j hj)).mp (hall j ((hB' j).mpr (Or.inl hj)))

/-- Conversely, if the object set `E` of the new column is an extent of the old table, every
concept of the enlarged table restricts to a concept of the old one with the same extent. -/
theorem IsC_addCol_restrict {n m : Nat} {R R' : Nat → Nat → Prop} {E BE : Nat}
    (hE : IsC n m R E BE)
    (hold : ∀ i j, i < n → j < m → (R' i j ↔ R i j))
    (hnew : ∀ i, i < n → (R' i m ↔ i ∈ᵇ E))
    {A B' : Nat} (h : IsC n (m+1) R' A B') : IsC n m R A (B' &&& full m) := by
  obtain ⟨hA, hB, h1, h2⟩ := h
  obtain ⟨_, hBE, hE1, hE2⟩ := hE
  have key : ∀ j, j ∈ᵇ (B' &&& full m) ↔ j < m ∧ ∀ i, i ∈ᵇ A → R i j := by
    intro j
    rw [mem_and, mem_full, h1]
    constructor
    · rintro ⟨⟨_, hall⟩, hjm⟩
      exact ⟨hjm, fun i hi => (hold i j (hA i hi) hjm).mp (hall i hi)⟩
    · rintro ⟨hjm, hall⟩
      exact ⟨⟨by omega, fun i hi => (hold i j (hA i hi) hjm).mpr (hall i hi)⟩, hjm⟩
  refine ⟨hA, fun j hj => (mem_full.mp (mem_and.mp hj).2), key, fun i => ?_⟩
  constructor
  · intro hi
    have hin := hA i hi
    refine ⟨hin, fun j hj => ?_⟩
    exact ((key j).mp hj).2 i hi
  · rintro ⟨hin, hall⟩
    rw [h2]
    refine ⟨hin, fun j hj => ?_⟩
    by_cases hjm : j < m
    · exact (hold i j hin hjm).mpr (hall j (mem_and.mpr ⟨hj, mem_full.mpr hjm⟩))
    · have : j = m := by have := hB j hj; omega
      subst this
      rw [hnew i hin, hE2]
      refine ⟨hin, fun k hk => ?_⟩
      -- `A ⊆ E`, hence every property of `E` is common to `A`
      have hkm := hBE k hk
      apply hall k
      rw [key]
      refine ⟨hkm, fun i' hi' => ?_⟩
      have hi'E : i' ∈ᵇ E := (hnew i' (hA i' hi')).mp (((h1 _).mp hj).2 i' hi')
      exact ((hE1 k).mp hk).2 i' hi'E

/-- in the enlarged table the new property is in the intent iff the extent is inside `E` -/
theorem IsC_addCol_new_mem {n m : Nat} {R' : Nat → Nat → Prop} {E : Nat}
    (hnew : ∀ i, i < n → (R' i m ↔ i ∈ᵇ E))
    {A B' : Nat} (h : IsC n (m+1) R' A B') : m ∈ᵇ B' ↔ A ⊆ᵇ E := by
  obtain ⟨hA, _, h1, _⟩ := h
  rw [h1]
  constructor
  · rintro ⟨_, hall⟩ i hi; exact (hnew i (hA i hi)).mp (hall i hi)
  · intro hs; exact ⟨by omega, fun i hi => (hnew i (hA i hi)).mpr (hs i hi)⟩

/-! ### the finite set of all concepts -/

open Classical in
/-- the set of all concepts `(extent, intent)` of `K` -/
noncomputable def conceptSet (K : Ctx) : Finset (Nat × Nat) :=
  ((Finset.range (2 ^ K.n)) ×ˢ (Finset.range (2 ^ K.m))).filter fun p => isConcept K p.1 p.2

theorem mem_conceptSet {K : Ctx} {p : Nat × Nat} : p ∈ conceptSet K ↔ isConcept K p.1 p.2 := by
  unfold conceptSet
  simp only [Finset.mem_filter, Finset.mem_product, Finset.mem_range]
  constructor
  · exact fun h => h.2
  · intro h
    exact ⟨⟨bounded_iff_lt.mp h.1, bounded_iff_lt.mp h.2.1⟩, h⟩

/-- a pair of mutually inverse maps between the concepts of two contexts: equally many concepts -/
theorem conceptSet_card_eq {K K' : Ctx} (f g : Nat × Nat → Nat × Nat)
    (hf : ∀ A B, isConcept K A B → isConcept K' (f (A, B)).1 (f (A, B)).2)
    (hg : ∀ A B, isConcept K' A B → isConcept K (g (A, B)).1 (g (A, B)).2)
    (hgf : ∀ A B, isConcept K A B → g (f (A, B)) = (A, B))
    (hfg : ∀ A B, isConcept K' A B → f (g (A, B)) = (A, B)) :
    (conceptSet K).card = (conceptSet K').card := by
  apply Finset.card_bij' (fun p _ => f p) (fun p _ => g p)
  · rintro ⟨A, B⟩ hp; exact mem_conceptSet.mpr (hf A B (mem_conceptSet.mp hp))
  · rintro ⟨A, B⟩ hp; exact mem_conceptSet.mpr (hg A B (mem_conceptSet.mp hp))
  · rintro ⟨A, B⟩ hp; exact hgf A B (mem_conceptSet.mp hp)
  · rintro ⟨A, B⟩ hp; exact hfg A B (mem_conceptSet.mp hp)

end FCA
