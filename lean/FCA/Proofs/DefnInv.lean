import FCA.Proofs.Defn
/-
The representation invariant of the `Definition` model and its preservation by every mutator.
-/
namespace FCA

/-- duplicate-free name lists, duplicate-free cell list, and no cell outside `objs × props` -/
def Defn.Inv (d : Defn) : Prop :=
  d.objs.Nodup ∧ d.props.Nodup ∧ d.pairs.Nodup ∧ ∀ o p, (o, p) ∈ d.pairs → o ∈ d.objs ∧ p ∈ d.props

/-- the operand of an in-place union / intersection is itself a proper definition -/
def Op.operandInv : Op → Prop
  | .unionUpdate other _ => other.Inv
  | .intersectionUpdate other _ => other.Inv
  | _ => True

/-- apply an edit history; a rejected call raises and leaves the definition unchanged -/
def Defn.runHistory (d : Defn) : List Op → Defn
  | [] => d
  | op :: ops =>
    match d.step op with
    | .ok (d', _) => d'.runHistory ops
    | .error _ => d.runHistory ops

/-- apply an edit history, stopping at the first rejected call -/
def Defn.runHistoryStrict (d : Defn) : List Op → Except Err Defn
  | [] => .ok d
  | op :: ops =>
    match d.step op with
    | .ok (d', _) => d'.runHistoryStrict ops
    | .error e => .error e

/-- the history with all return values: one entry per call -/
def Defn.runTrace (d : Defn) : List Op → Defn × List (Except Err (List Name))
  | [] => (d, [])
  | op :: ops =>
    match d.step op with
    | .ok (d', r) => let (d'', rs) := d'.runTrace ops; (d'', .ok r :: rs)
    | .error e => let (d'', rs) := d.runTrace ops; (d'', .error e :: rs)

theorem Defn.inv_empty : Defn.empty.Inv := by simp [Defn.Inv, Defn.empty]

/-! ### cell list after renaming -/

theorem mem_renameObj {pairs : List Cell} {old new a b : Name} :
    (a, b) ∈ pairs.map (fun (o, p) => if o == old then (new, p) else (o, p)) ↔
      ((a, b) ∈ pairs ∧ a ≠ old) ∨ (a = new ∧ (old, b) ∈ pairs) := by
  simp only [List.mem_map, Prod.exists]
  constructor
  · rintro ⟨o, p, hop, heq⟩
    by_cases h : o = old
    · subst h; simp at heq; obtain ⟨rfl, rfl⟩ := heq; exact Or.inr ⟨rfl, hop⟩
    · simp [h] at heq; obtain ⟨rfl, rfl⟩ := heq; exact Or.inl ⟨hop, h⟩
  · rintro (⟨hab, hne⟩ | ⟨rfl, hob⟩)
    · exact ⟨a, b, hab, by simp [hne]⟩
    · exact ⟨old, b, hob, by simp⟩

theorem mem_renameProp {pairs : List Cell} {old new a b : Name} :
    (a, b) ∈ pairs.map (fun (o, p) => if p == old then (o, new) else (o, p)) ↔
      ((a, b) ∈ pairs ∧ b ≠ old) ∨ (b = new ∧ (a, old) ∈ pairs) := by
  simp only [List.mem_map, Prod.exists]
  constructor
  · rintro ⟨o, p, hop, heq⟩
    by_cases h : p = old
    · subst h; simp at heq; obtain ⟨rfl, rfl⟩ := heq; exact Or.inr ⟨rfl, hop⟩
    · simp [h] at heq; obtain ⟨rfl, rfl⟩ := heq; exact Or.inl ⟨hop, h⟩
  · rintro (⟨hab, hne⟩ | ⟨rfl, hob⟩)
    · exact ⟨a, b, hab, by simp [hne]⟩
    · exact ⟨a, old, hob, by simp⟩

theorem nodup_renameObj {pairs : List Cell} {old new : Name} (h : pairs.Nodup)
    (hn : ∀ b, (new, b) ∉ pairs) :
    (pairs.map (fun (o, p) => if o == old then (new, p) else (o, p))).Nodup := by
  apply List.Nodup.map_on _ h
  rintro ⟨o1, p1⟩ h1 ⟨o2, p2⟩ h2 heq
  by_cases e1 : o1 = old <;> by_cases e2 : o2 = old <;> simp [e1, e2] at heq
  · rw [e1, e2, heq]
  · obtain ⟨rfl, rfl⟩ := heq; exact absurd h2 (hn _)
  · obtain ⟨rfl, rfl⟩ := heq; exact absurd h1 (hn _)
  · obtain ⟨rfl, rfl⟩ := heq; rfl

theorem nodup_renameProp {pairs : List Cell} {old new : Name} (h : pairs.Nodup)
    (hn : ∀ a, (a, new) ∉ pairs) :
    (pairs.map (fun (o, p) => if p == old then (o, new) else (o, p))).Nodup := by
  apply List.Nodup.map_on _ h
  rintro ⟨o1, p1⟩ h1 ⟨o2, p2⟩ h2 heq
  by_cases e1 : p1 = old <;> by_cases e2 : p2 = old <;> simp [e1, e2] at heq
  · rw [e1, e2, heq]
  · obtain ⟨rfl, rfl⟩ := heq; exact absurd h2 (hn _)
  · obtain ⟨rfl, rfl⟩ := heq; exact absurd h1 (hn _)
  · obtain ⟨rfl, rfl⟩ := heq; rfl

/-! ### explicit form of a successful step -/

theorem step_renameObject_ok {d d' : Defn} {old new : Name} {r : List Name}
    (h : d.step (.renameObject old new) = .ok (d', r)) :
    new ∉ d.objs ∧ old ∈ d.objs ∧ r = [] ∧
    d' = ⟨d.objs.map fun x => if x == old then new else x, d.props,
          d.pairs.map fun (o, p) => if o == old then (new, p) else (o, p)⟩ := by
  simp only [Defn.step, bind, Except.bind] at h
  cases hu : uReplace d.objs old new with
  | error e => rw [hu] at h; cases h
  | ok l =>
    rw [hu] at h
    obtain ⟨h1, h2, h3⟩ := uReplace_ok hu
    cases h
    exact ⟨h1, h2, rfl, by rw [h3]⟩

theorem step_renameProperty_ok {d d' : Defn} {old new : Name} {r : List Name}
    (h : d.step (.renameProperty old new) = .ok (d', r)) :
    new ∉ d.props ∧ old ∈ d.props ∧ r = [] ∧
    d' = ⟨d.objs, d.props.map fun x => if x == old then new else x,
          d.pairs.map fun (o, p) => if p == old then (o, new) else (o, p)⟩ := by
  simp only [Defn.step, bind, Except.bind] at h
  cases hu : uReplace d.props old new with
  | error e => rw [hu] at h; cases h
  | ok l =>
    rw [hu] at h
    obtain ⟨h1, h2, h3⟩ := uReplace_ok hu
    cases h
    exact ⟨h1, h2, rfl, by rw [h3]⟩

theorem step_moveObject_ok {d d' : Defn} {o : Name} {i : Int} {r : List Name}
    (h : d.step (.moveObject o i) = .ok (d', r)) :
    d'.objs.Perm d.objs ∧ o ∈ d.objs ∧ d'.props = d.props ∧ d'.pairs = d.pairs ∧ r = [] := by
  simp only [Defn.step, bind, Except.bind] at h
  cases hu : uMove d.objs o i with
  | error e => rw [hu] at h; cases h
  | ok l =>
    rw [hu] at h
    obtain ⟨h1, h2⟩ := uMove_perm hu
    cases h
    exact ⟨h1, h2, rfl, rfl, rfl⟩

theorem step_moveProperty_ok {d d' : Defn} {p : Name} {i : Int} {r : List Name}
    (h : d.step (.moveProperty p i) = .ok (d', r)) :
    d'.props.Perm d.props ∧ p ∈ d.props ∧ d'.objs = d.objs ∧ d'.pairs = d.pairs ∧ r = [] := by
  simp only [Defn.step, bind, Except.bind] at h
  cases hu : uMove d.props p i with
  | error e => rw [hu] at h; cases h
  | ok l =>
    rw [hu] at h
    obtain ⟨h1, h2⟩ := uMove_perm hu
    cases h
    exact ⟨h1, h2, rfl, rfl, rfl⟩

theorem step_removeObject_ok {d d' : Defn} {o : Name} {r : List Name}
    (h : d.step (.removeObject o) = .ok (d', r)) :
    o ∈ d.objs ∧ r = [] ∧
    d' = ⟨d.objs.filter (· != o), d.props,
          d.pairs.filter fun (o', p) => !(o' == o && d.props.contains p)⟩ := by
  simp only [Defn.step] at h
  split at h
  · rename_i hc
    rw [List.contains_iff_mem] at hc
    cases h
    exact ⟨hc, rfl, rfl⟩
  · cases h

theorem step_removeProperty_ok {d d' : Defn} {p : Name} {r : List Name}
    (h : d.step (.removeProperty p) = .ok (d', r)) :
    p ∈ d.props ∧ r = [] ∧
    d' = ⟨d.objs, d.props.filter (· != p),
          d.pairs.filter fun (o, p') => !(p' == p && d.objs.contains o)⟩ := by
  simp only [Defn.step] at h
  split at h
  · rename_i hc
    rw [List.contains_iff_mem] at hc
    cases h
    exact ⟨hc, rfl, rfl⟩
  · cases h

theorem step_unionUpdate_ok {d d' other : Defn} {ig : Bool} {r : List Name}
    (h : d.step (.unionUpdate other ig) = .ok (d', r)) :
    r = [] ∧ d' = ⟨uIor d.objs other.objs, uIor d.props other.props, other.pairs.foldl pAdd d.pairs⟩ := by
  simp only [Defn.step] at h
  split at h
  · cases h
  · cases h; exact ⟨rfl, rfl⟩

theorem step_intersectionUpdate_ok {d d' other : Defn} {ig : Bool} {r : List Name}
    (h : d.step (.intersectionUpdate other ig) = .ok (d', r)) :
    r = [] ∧ d' = ⟨uIand d.objs other.objs, uIand d.props other.props,
                   d.pairs.filter other.pairs.contains⟩ := by
  simp only [Defn.step] at h
  split at h
  · cases h
  · cases h; exact ⟨rfl, rfl⟩

/-! ### preservation of the invariant, one mutator at a time -/

theorem inv_setItem {d : Defn} (h : d.Inv) (o p : Name) (v : Bool) :
    Defn.Inv ⟨uAdd d.objs o, uAdd d.props p,
      if v then pAdd d.pairs (o, p) else pDiscard d.pairs (o, p)⟩ := by
  obtain ⟨h1, h2, h3, h4⟩ := h
  refine ⟨nodup_uAdd h1, nodup_uAdd h2, ?_, ?_⟩
  · cases v
    · exact nodup_pDiscard h3
    · exact nodup_pAdd h3
  · intro a b hab
    simp only [mem_uAdd]
    cases v
    · simp only [Bool.false_eq_true, if_false, mem_pDiscard] at hab
      have := h4 a b hab.1; tauto
    · simp only [if_true, mem_pAdd, Prod.mk.injEq] at hab
      rcases hab with hab | ⟨rfl, rfl⟩
      · have := h4 a b hab; tauto
      · tauto

theorem inv_renameObject {d : Defn} (h : d.Inv) {old new : Name} (hn : new ∉ d.objs) :
    Defn.Inv ⟨d.objs.map fun x => if x == old then new else x, d.props,
          d.pairs.map fun (o, p) => if o == old then (new, p) else (o, p)⟩ := by
  obtain ⟨h1, h2, h3, h4⟩ := h
  refine ⟨nodup_replace h1 hn, h2, nodup_renameObj h3 (fun b hb => hn (h4 _ _ hb).1), ?_⟩
  intro a b hab
  rw [mem_renameObj] at hab
  simp only [mem_replace]
  rcases hab with ⟨hab, hne⟩ | ⟨rfl, hob⟩
  · exact ⟨Or.inl ⟨(h4 _ _ hab).1, hne⟩, (h4 _ _ hab).2⟩
  · exact ⟨Or.inr ⟨rfl, (h4 _ _ hob).1⟩, (h4 _ _ hob).2⟩

theorem inv_renameProperty {d : Defn} (h : d.Inv) {old new : Name} (hn : new ∉ d.props) :
    Defn.Inv ⟨d.objs, d.props.map fun x => if x == old then new else x,
          d.pairs.map fun (o, p) => if p == old then (o, new) else (o, p)⟩ := by
  obtain ⟨h1, h2, h3, h4⟩ := h
  refine ⟨h1, nodup_replace h2 hn, nodup_renameProp h3 (fun a ha => hn (h4 _ _ ha).2), ?_⟩
  intro a b hab
  rw [mem_renameProp] at hab
  simp only [mem_replace]
  rcases hab with ⟨hab, hne⟩ | ⟨rfl, hob⟩
  · exact ⟨(h4 _ _ hab).1, Or.inl ⟨(h4 _ _ hab).2, hne⟩⟩
  · exact ⟨(h4 _ _ hob).1, Or.inr ⟨rfl, (h4 _ _ hob).2⟩⟩

theorem inv_addObject {d : Defn} (h : d.Inv) (o : Name) (ps : List Name) :
    Defn.Inv ⟨uAdd d.objs o, uIor d.props ps, ps.foldl (fun acc p => pAdd acc (o, p)) d.pairs⟩ := by
  obtain ⟨h1, h2, h3, h4⟩ := h
  refine ⟨nodup_uAdd h1, nodup_uIor h2, nodup_foldl_pAdd_row h3, ?_⟩
  intro a b hab
  rw [mem_foldl_pAdd_row] at hab
  simp only [mem_uAdd, mem_uIor]
  rcases hab with hab | ⟨rfl, hb⟩
  · have := h4 a b hab; tauto
  · exact ⟨Or.inr rfl, Or.inr hb⟩

theorem inv_addProperty {d : Defn} (h : d.Inv) (p : Name) (os : List Name) :
    Defn.Inv ⟨uIor d.objs os, uAdd d.props p, os.foldl (fun acc o => pAdd acc (o, p)) d.pairs⟩ := by
  obtain ⟨h1, h2, h3, h4⟩ := h
  refine ⟨nodup_uIor h1, nodup_uAdd h2, nodup_foldl_pAdd_col h3, ?_⟩
  intro a b hab
  rw [mem_foldl_pAdd_col] at hab
  simp only [mem_uAdd, mem_uIor]
  rcases hab with hab | ⟨rfl, hb⟩
  · have := h4 a b hab; tauto
  · exact ⟨Or.inr hb, Or.inr rfl⟩

theorem mem_removeObj {d : Defn} {o a b : Name} :
    (a, b) ∈ d.pairs.filter (fun (o', p) => !(o' == o && d.props.contains p)) ↔
      (a, b) ∈ d.pairs ∧ ¬(a = o ∧ b ∈ d.props) := by
  simp only [List.mem_filter, Bool.not_eq_true', Bool.and_eq_false_iff, beq_eq_false_iff_ne,
    List.contains_eq_mem, decide_eq_false_iff_not]
  tauto

theorem mem_removeProp {d : Defn} {p a b : Name} :
    (a, b) ∈ d.pairs.filter (fun (o, p') => !(p' == p && d.objs.contains o)) ↔
      (a, b) ∈ d.pairs ∧ ¬(b = p ∧ a ∈ d.objs) := by
  simp only [List.mem_filter, Bool.not_eq_true', Bool.and_eq_false_iff, beq_eq_false_iff_ne,
    List.contains_eq_mem, decide_eq_false_iff_not]
  tauto

theorem inv_removeObject {d : Defn} (h : d.Inv) (o : Name) :
    Defn.Inv ⟨d.objs.filter (· != o), d.props,
          d.pairs.filter fun (o', p) => !(o' == o && d.props.contains p)⟩ := by
  obtain ⟨h1, h2, h3, h4⟩ := h
  refine ⟨h1.filter _, h2, h3.filter _, ?_⟩
  intro a b hab
  rw [mem_removeObj] at hab
  have := h4 a b hab.1
  simp only [List.mem_filter, bne_iff]
  refine ⟨⟨this.1, fun ha => hab.2 ⟨ha, this.2⟩⟩, this.2⟩

theorem inv_removeProperty {d : Defn} (h : d.Inv) (p : Name) :
    Defn.Inv ⟨d.objs, d.props.filter (· != p),
          d.pairs.filter fun (o, p') => !(p' == p && d.objs.contains o)⟩ := by
  obtain ⟨h1, h2, h3, h4⟩ := h
  refine ⟨h1, h2.filter _, h3.filter _, ?_⟩
  intro a b hab
  rw [mem_removeProp] at hab
  have := h4 a b hab.1
  simp only [List.mem_filter, bne_iff]
  refine ⟨this.1, this.2, fun hb => hab.2 ⟨hb, this.1⟩⟩

theorem inv_removeEmptyObjects {d : Defn} (h : d.Inv) :
    Defn.Inv ⟨d.objs.filter (!(d.objs.filter fun o => !(d.pairs.any fun (o', _) => o' == o)).contains ·),
      d.props, d.pairs⟩ := by
  obtain ⟨h1, h2, h3, h4⟩ := h
  refine ⟨h1.filter _, h2, h3, ?_⟩
  intro a b hab
  have := h4 a b hab
  refine ⟨?_, this.2⟩
  simp only [List.mem_filter, List.contains_eq_mem, Bool.not_eq_true', decide_eq_false_iff_not,
    List.any_eq_true, not_and, not_exists, Prod.forall, Prod.exists]
  refine ⟨this.1, fun _ hno => ?_⟩
  rw [List.any_eq_false] at hno
  have := hno (a, b) hab
  simp at this

theorem inv_removeEmptyProperties {d : Defn} (h : d.Inv) :
    Defn.Inv ⟨d.objs,
      d.props.filter (!(d.props.filter fun p => !(d.pairs.any fun (_, p') => p' == p)).contains ·),
      d.pairs⟩ := by
  obtain ⟨h1, h2, h3, h4⟩ := h
  refine ⟨h1, h2.filter _, h3, ?_⟩
  intro a b hab
  have := h4 a b hab
  refine ⟨this.1, ?_⟩
  simp only [List.mem_filter, List.contains_eq_mem, Bool.not_eq_true', decide_eq_false_iff_not,
    List.any_eq_true, not_and, not_exists, Prod.forall, Prod.exists]
  refine ⟨this.2, fun _ hno => ?_⟩
  rw [List.any_eq_false] at hno
  have := hno (a, b) hab
  simp at this

theorem inv_setObject {d : Defn} (h : d.Inv) (o : Name) (ps : List Name) :
    Defn.Inv ⟨uAdd d.objs o, uIor d.props ps,
      (uIor d.props ps).foldl (fun acc p => if ps.contains p then pAdd acc (o, p) else pDiscard acc (o, p))
        d.pairs⟩ := by
  obtain ⟨h1, h2, h3, h4⟩ := h
  refine ⟨nodup_uAdd h1, nodup_uIor h2, nodup_foldl_setRow h3, ?_⟩
  intro a b hab
  rw [mem_foldl_setRow] at hab
  simp only [mem_uAdd, mem_uIor]
  simp only [mem_uIor] at hab
  split at hab
  · rename_i hc; exact ⟨Or.inr hc.1, Or.inr hab⟩
  · have := h4 a b hab; tauto

theorem inv_setProperty {d : Defn} (h : d.Inv) (p : Name) (os : List Name) :
    Defn.Inv ⟨uIor d.objs os, uAdd d.props p,
      (uIor d.objs os).foldl (fun acc o => if os.contains o then pAdd acc (o, p) else pDiscard acc (o, p))
        d.pairs⟩ := by
  obtain ⟨h1, h2, h3, h4⟩ := h
  refine ⟨nodup_uIor h1, nodup_uAdd h2, nodup_foldl_setCol h3, ?_⟩
  intro a b hab
  rw [mem_foldl_setCol] at hab
  simp only [mem_uAdd, mem_uIor]
  simp only [mem_uIor] at hab
  split at hab
  · rename_i hc; exact ⟨Or.inr hab, Or.inr hc.1⟩
  · have := h4 a b hab; tauto

theorem inv_unionUpdate {d e : Defn} (h : d.Inv) (he : e.Inv) :
    Defn.Inv ⟨uIor d.objs e.objs, uIor d.props e.props, e.pairs.foldl pAdd d.pairs⟩ := by
  obtain ⟨h1, h2, h3, h4⟩ := h
  refine ⟨nodup_uIor h1, nodup_uIor h2, nodup_foldl_pAdd h3, ?_⟩
  intro a b hab
  rw [mem_foldl_pAdd] at hab
  simp only [mem_uIor]
  rcases hab with hab | hab
  · have := h4 a b hab; tauto
  · have := he.2.2.2 a b hab; tauto

theorem inv_intersectionUpdate {d e : Defn} (h : d.Inv) (he : e.Inv) :
    Defn.Inv ⟨uIand d.objs e.objs, uIand d.props e.props, d.pairs.filter e.pairs.contains⟩ := by
  obtain ⟨h1, h2, h3, h4⟩ := h
  refine ⟨nodup_uIand h1, nodup_uIand h2, h3.filter _, ?_⟩
  intro a b hab
  simp only [List.mem_filter, List.contains_iff_mem] at hab
  simp only [mem_uIand]
  have := h4 a b hab.1
  have := he.2.2.2 a b hab.2
  tauto

/-- every successful mutator call preserves the invariant -/
theorem inv_step {d d' : Defn} {op : Op} {r : List Name} (h : d.Inv) (hop : op.operandInv)
    (hs : d.step op = .ok (d', r)) : d'.Inv := by
  cases op with
  | setItem o p v => cases hs; exact inv_setItem h o p v
  | renameObject old new =>
    obtain ⟨h1, _, _, rfl⟩ := step_renameObject_ok hs
    exact inv_renameObject h h1
  | renameProperty old new =>
    obtain ⟨h1, _, _, rfl⟩ := step_renameProperty_ok hs
    exact inv_renameProperty h h1
  | moveObject o i =>
    obtain ⟨h1, _, h2, h3, _⟩ := step_moveObject_ok hs
    obtain ⟨i1, i2, i3, i4⟩ := h
    refine ⟨h1.nodup_iff.mpr i1, h2 ▸ i2, h3 ▸ i3, ?_⟩
    intro a b hab
    rw [h3] at hab
    rw [h2]
    exact ⟨h1.mem_iff.mpr (i4 a b hab).1, (i4 a b hab).2⟩
  | moveProperty p i =>
    obtain ⟨h1, _, h2, h3, _⟩ := step_moveProperty_ok hs
    obtain ⟨i1, i2, i3, i4⟩ := h
    refine ⟨h2 ▸ i1, h1.nodup_iff.mpr i2, h3 ▸ i3, ?_⟩
    intro a b hab
    rw [h3] at hab
    rw [h2]
    exact ⟨(i4 a b hab).1, h1.mem_iff.mpr (i4 a b hab).2⟩
  | addObject o ps => cases hs; exact inv_addObject h o ps
  | addProperty p os => cases hs; exact inv_addProperty h p os
  | removeObject o =>
    obtain ⟨_, _, rfl⟩ := step_removeObject_ok hs
    exact inv_removeObject h o
  | removeProperty p =>
    obtain ⟨_, _, rfl⟩ := step_removeProperty_ok hs
    exact inv_removeProperty h p
  | removeEmptyObjects => cases hs; exact inv_removeEmptyObjects h
  | removeEmptyProperties => cases hs; exact inv_removeEmptyProperties h
  | setObject o ps => cases hs; exact inv_setObject h o ps
  | setProperty p os => cases hs; exact inv_setProperty h p os
  | unionUpdate other ig =>
    obtain ⟨_, rfl⟩ := step_unionUpdate_ok hs
    exact inv_unionUpdate h hop
  | intersectionUpdate other ig =>
    obtain ⟨_, rfl⟩ := step_intersectionUpdate_ok hs
    exact inv_intersectionUpdate h hop

end FCA
