import FCA.Proofs.Galois
import FCA.Proofs.Powerset
/-
C18 — `Concept.attributes()` / `Concept.minimal()` (`Context._minimize`, `bitsets` `powerset()`):

For a concept with non-empty extent `attributes()` yields exactly the subsets of its intent whose
common objects are the concept's extent, each once, in shortlex order (size first, then property
position); `minimal()` is the first of them.  For an empty extent it yields just the intent.
-/
namespace FCA

/-! ### `intent.powerset()` (`combos.shortlex`): all subsets, each once, shortlex sorted -/

/-- `intent.powerset()` yields exactly the subsets of `intent` -/
theorem C18_powerset_mem {w intent b : Nat} (hb : Bounded w intent) :
    b ∈ powersetShortlex w intent ↔ b ⊆ᵇ intent := powersetShortlex_mem hb

/-- ... in shortlex order: by size, then by position of the first differing member -/
theorem C18_powerset_sorted (w intent : Nat) :
    (powersetShortlex w intent).Pairwise (shortlexLt w) := powersetShortlex_sorted w intent

/-- ... each once -/
theorem C18_powerset_nodup (w intent : Nat) : (powersetShortlex w intent).Nodup :=
  powersetShortlex_nodup w intent

/-- the fuel of the model is irrelevant: the queue is the concatenation of the levels `0..n`,
level `k` being the closed form `outs k` (unions with `k` atoms, earlier atoms first) -/
theorem C18_powerset_levels (w intent : Nat) :
    powersetShortlex w intent =
      (List.range ((membersW w intent).length + 1)).flatMap
        (fun k => outs k 0 ((membersW w intent).map (2 ^ ·))) := powersetShortlex_eq w intent

example : Bounded 3 0b101 := by rw [bounded_iff_lt]; decide
example : powersetShortlex 3 0b111 = [0b000, 0b001, 0b010, 0b100, 0b011, 0b101, 0b110, 0b111] := by
  decide +kernel

/-! ### `attributes()` -/

/-- `attributes()` (extent non-empty) yields exactly the generating subsets of the intent;
only boundedness of the intent is needed -/
theorem C18_attributes_bounded {K : Ctx} {e i b : Nat} (hi : Bounded K.m i) (he : e ≠ 0) :
    b ∈ minimize K e i ↔ b ⊆ᵇ i ∧ K.extentOf b = e := by
  unfold minimize
  rw [if_neg he, List.mem_filter, powersetShortlex_mem hi]
  simp

/-- `attributes()` of a concept with non-empty extent: exactly the subsets of the intent whose common
objects are the extent -/
theorem C18_attributes {K : Ctx} {e i b : Nat} (_hK : K.WF) (hc : isConcept K e i) (he : e ≠ 0) :
    b ∈ minimize K e i ↔ b ⊆ᵇ i ∧ K.extentOf b = e :=
  C18_attributes_bounded hc.2.1 he

/-- `attributes()` is shortlex sorted (any arguments) -/
theorem C18_sorted (K : Ctx) (e i : Nat) : (minimize K e i).Pairwise (shortlexLt K.m) := by
  unfold minimize
  split
  · simp
  · exact (powersetShortlex_sorted K.m i).filter _

/-- `attributes()` yields nothing twice -/
theorem C18_nodup (K : Ctx) (e i : Nat) : (minimize K e i).Nodup :=
  (C18_sorted K e i).imp (fun {a b} h hab => by subst hab; exact shortlexLt_irrefl K.m a h)

/-- `minimal()`: the head of `attributes()` exists — the intent itself is yielded —, it generates the
concept and every other generating subset of the intent is shortlex-greater -/
theorem C18_minimal_head {K : Ctx} {e i : Nat} (_hK : K.WF) (hc : isConcept K e i) (he : e ≠ 0) :
    i ∈ minimize K e i ∧
    ∃ h, (minimize K e i).head? = some h ∧ h ⊆ᵇ i ∧ K.extentOf h = e ∧
      ∀ b, b ⊆ᵇ i → K.extentOf b = e → b = h ∨ shortlexLt K.m h b := by
  have hi : i ∈ minimize K e i := (C18_attributes_bounded hc.2.1 he).mpr ⟨sub_refl i, hc.2.2.2⟩
  refine ⟨hi, ?_⟩
  have hs := C18_sorted K e i
  cases hl : minimize K e i with
  | nil => rw [hl] at hi; simp at hi
  | cons h t =>
    rw [hl, List.pairwise_cons] at hs
    have hh : h ∈ minimize K e i := by rw [hl]; simp
    obtain ⟨h1, h2⟩ := (C18_attributes_bounded hc.2.1 he).mp hh
    refine ⟨h, rfl, h1, h2, fun b hb1 hb2 => ?_⟩
    have hb : b ∈ minimize K e i := (C18_attributes_bounded hc.2.1 he).mpr ⟨hb1, hb2⟩
    rw [hl, List.mem_cons] at hb
    rcases hb with rfl | hb
    · exact Or.inl rfl
    · exact Or.inr (hs.1 b hb)

/-- empty extent: `attributes()` yields just the given intent (so `minimal()` of an infimum with empty
extent is its full intent) -/
theorem C18_empty_extent (K : Ctx) (i : Nat) : minimize K 0 i = [i] := by
  simp [minimize]

theorem C18_empty_extent_head (K : Ctx) (i : Nat) : (minimize K 0 i).head? = some i := by
  rw [C18_empty_extent]; rfl

/-- every yielded set regenerates the concept (all extents, also the empty one) -/
theorem C18_regenerates {K : Ctx} {e i b : Nat} (hb : b ∈ minimize K e i) (hc : isConcept K e i) :
    K.extentOf b = e := by
  by_cases he : e = 0
  · subst he
    rw [C18_empty_extent, List.mem_singleton] at hb
    subst hb; exact hc.2.2.2
  · exact ((C18_attributes_bounded hc.2.1 he).mp hb).2

/-- ... so `lattice(b)` (`Lattice.__call__`) looks up the concept's extent -/
theorem C18_regenerates_lookup {K : Ctx} {e i b : Nat} (L : Lattice) (hb : b ∈ minimize K e i)
    (hc : isConcept K e i) : lookupProperties K L b = L.find e := by
  unfold lookupProperties; rw [C18_regenerates hb hc]

/-- with a non-empty extent the yielded sets are subsets of the intent with that same closure -/
theorem C18_regenerates_intent {K : Ctx} {e i b : Nat} (hb : b ∈ minimize K e i)
    (hc : isConcept K e i) : K.intentOf (K.extentOf b) = i := by
  rw [C18_regenerates hb hc]; exact hc.2.2.1

/-! ### non-vacuity: objects `0 ↦ {0}`, `1 ↦ {0,1}`, `2 ↦ {1,2}`; concept `({1}, {0,1})` -/

/-- example context -/
def C18_exK : Ctx := mkCtx 3 3 #[0b001, 0b011, 0b110]

example : C18_exK.WF := mkCtx_WF _ _ _ rfl (by decide)
example : isConcept C18_exK 0b010 0b011 := by
  refine ⟨?_, ?_, ?_, ?_⟩
  · rw [bounded_iff_lt]; decide
  · rw [bounded_iff_lt]; decide
  · decide +kernel
  · decide +kernel
example : (0b010 : Nat) ≠ 0 := by decide
/-- `{0,1}` is the only generator of extent `{1}`; the concept `({2}, {1,2})` below has two generators -/
example : minimize C18_exK 0b010 0b011 = [0b011] := by decide +kernel
example : isConcept C18_exK 0b100 0b110 := by
  refine ⟨?_, ?_, ?_, ?_⟩
  · rw [bounded_iff_lt]; decide
  · rw [bounded_iff_lt]; decide
  · decide +kernel
  · decide +kernel
example : minimize C18_exK 0b100 0b110 = [0b100, 0b110] := by decide +kernel
example : (0b110 : Nat) ∈ minimize C18_exK 0b100 0b110 := by decide +kernel
/-- infimum of the example: empty extent, all properties -/
example : isConcept C18_exK 0 0b111 := by
  refine ⟨?_, ?_, ?_, ?_⟩
  · rw [bounded_iff_lt]; decide
  · rw [bounded_iff_lt]; decide
  · decide +kernel
  · decide +kernel
example : minimize C18_exK 0 0b111 = [0b111] := C18_empty_extent _ _

end FCA

#print axioms FCA.C18_powerset_mem
#print axioms FCA.C18_powerset_sorted
#print axioms FCA.C18_powerset_nodup
#print axioms FCA.C18_powerset_levels
#print axioms FCA.C18_attributes_bounded
#print axioms FCA.C18_attributes
#print axioms FCA.C18_sorted
#print axioms FCA.C18_nodup
#print axioms FCA.C18_minimal_head
#print axioms FCA.C18_empty_extent
#print axioms FCA.C18_empty_extent_head
#print axioms FCA.C18_regenerates
#print axioms FCA.C18_regenerates_lookup
#print axioms FCA.C18_regenerates_intent
