"""Executes a fixed corpus of calls and prints every observable result (one transcript).
Run in separate interpreter processes with different PYTHONHASHSEED values by props/c17.py."""
import io
import json
import os
import random
import re
import sys

sys.path.insert(0, os.path.dirname(os.path.abspath(__file__)))
REPO = os.environ.get('VERIF_REPO', '/repo')
sys.path.insert(0, REPO)

import concepts  # noqa: E402
from concepts import Context, Definition  # noqa: E402
import gen  # noqa: E402
from props import defs  # noqa: E402

ADDR = re.compile(r'0x[0-9a-fA-F]+')
OUT = []


def emit(tag, value):
    OUT.append('%s\t%s' % (tag, ADDR.sub('0x?', value if isinstance(value, str) else repr(value)).replace('\n', '\\n')))


def attempt(tag, f):
    try:
        emit(tag, f())
    except Exception as e:  # noqa: BLE001 - message text is the observable
        emit(tag, 'raised %s: %s' % (type(e).__name__, e))


WORDS = ['zeta', 'alpha', 'mid', 'beta', 'gamma', 'omega', 'delta', 'kappa', 'iota', 'rho', 'tau', 'phi', 'chi', 'psi', 'eta', 'nu']
PWORDS = ['wet', 'dry', 'hot', 'cold', 'big', 'tiny', 'red', 'blue', 'fast', 'slow', 'odd', 'even', 'old', 'new', 'far', 'near']


def main(scale):
    rng = random.Random(20260929)
    tabs = [gen.contranominal(4), gen.interordinal(3), gen.nominal(5), gen.ordinal(4)]
    tabs += [gen.random_table(rng, rng.randint(2, 7), rng.randint(2, 7), rng.choice((.3, .5, .7))) for _ in range(6 * scale)]
    for k, (n, m, rows) in enumerate(tabs):
        objs = rng.sample(WORDS, n) if n <= len(WORDS) else ['o%d' % i for i in range(n)]
        props = rng.sample(PWORDS, m) if m <= len(PWORDS) else ['p%d' % j for j in range(m)]
        bools = [tuple(bool((r >> j) & 1) for j in range(m)) for r in rows]
        c = Context(objs, props, bools)
        t = 'ctx%d ' % k
        for f in ('table', 'cxt', 'csv', 'wiki-table', 'fimi'):
            attempt(t + f, lambda: c.tostring(f))
        attempt(t + 'literal-nolattice', lambda: c.tostring('python-literal'))
        L = c.lattice
        attempt(t + 'str(lattice)', lambda: str(L))
        attempt(t + 'todict', lambda: repr(sorted(c.todict().items())))
        buf = io.StringIO()
        c.tojson(buf, indent=1)
        emit(t + 'json', buf.getvalue())
        attempt(t + 'literal', lambda: c.tostring('python-literal'))
        attempt(t + 'crc32', lambda: c.crc32())
        # one unknown label: the error names it
        attempt(t + 'unknown label', lambda: c.intension(list(objs[:1]) + ['no such object']))
        attempt(t + 'unknown label (extension)', lambda: c.extension(['no such property']))
        attempt(t + 'unknown format', lambda: c.tostring('spam'))
        attempt(t + 'fromdict without keys', lambda: Context.fromdict({}))
        attempt(t + 'fromdict with one key', lambda: Context.fromdict({'properties': list(props)}))
        attempt(t + 'unknown format (definition)', lambda: c.definition().tostring('nope'))
        # several unknown labels: WHICH one the KeyError names comes out of set(members) inside bitsets' frommembers
        # (known finding D7: compared separately in props/c17.py)
        attempt('KNOWN-D7 ' + t + 'intension', lambda: c.intension(['zeta', 'alpha', 'mid', 'beta']))
        attempt('KNOWN-D7 ' + t + 'extension', lambda: c.extension(['zeta', 'alpha', 'mid', 'beta']))
        attempt('KNOWN-D7 ' + t + 'getitem', lambda: c[['zeta', 'alpha', 'mid', 'beta']])
        attempt('KNOWN-D7 ' + t + 'getitem mixed', lambda: c[list(objs[:2]) + list(props[:1])])
        attempt(t + 'repr', lambda: repr(c))
        cs = list(L)
        emit(t + 'order', [(x.index, x.dindex, x.extent, x.intent, [u.index for u in x.upper_neighbors], [l.index for l in x.lower_neighbors],
                            x.objects, x.properties, [a.index for a in x.atoms]) for x in cs])
        for j in range(min(len(cs), 6)):
            x = cs[(j * 5 + 1) % len(cs)]
            emit(t + 'upset%d' % j, [y.index for y in x.upset()])
            emit(t + 'downset%d' % j, [y.index for y in x.downset()])
            emit(t + 'attrs%d' % j, list(x.attributes())[:8] if len(x.intent) < 9 else None)
            emit(t + 'minimal%d' % j, x.minimal())
        for j in range(5):
            seeds = [cs[rng.randrange(len(cs))] for _ in range(rng.randint(2, 5))]
            emit(t + 'upset_union%d' % j, [y.index for y in L.upset_union(seeds)])
            emit(t + 'downset_union%d' % j, [y.index for y in L.downset_union(seeds)])
            emit(t + 'join%d' % j, (L.join(seeds).index, L.meet(seeds).index))
            # seeds with comparable members (bottom and top added): the result does not depend on how a set of concepts iterates
            attempt(t + 'upset_generalization%d' % j, lambda: [y.index for y in L.upset_generalization(seeds + [cs[0], cs[-1]])])
        attempt(t + 'relations', lambda: str(c.relations()))
        attempt(t + 'relations-unary', lambda: c.relations(include_unary=True).tostring())
        attempt(t + 'neighbors', lambda: c.neighbors(objs[:1]))
        attempt(t + 'graphviz', lambda: L.graphviz().source)
        attempt(t + 'definition', lambda: repr(c.definition()))
        attempt(t + 'getitem', lambda: c[objs[:2]])
        attempt(t + 'fcbo', lambda: [(e.members(), i.members()) for e, i in concepts.algorithms.fast_generate_from(c)])
    # error messages listing names
    attempt('err overlap', lambda: Context(['a', 'b', 'c', 'd', 'e', 'f'], ['f', 'e', 'd', 'c', 'b', 'z'], [(1,) * 6] * 6))
    attempt('err dup objects', lambda: Context(['a', 'b', 'a', 'c', 'b'], ['p'], [(1,)] * 5))
    attempt('err dup def', lambda: Definition(['k', 'j', 'k', 'i', 'j'], ['p'], [(1,)] * 5))
    attempt('err missing keys', lambda: Context.fromdict({'objects': ['a']}))
    attempt('err nonstring', lambda: Context.fromdict({'objects': ['a', 1, None], 'properties': ['p'], 'context': [[0], [], []]}))
    # definition histories
    names_o = WORDS[:10]
    names_p = PWORDS[:10]
    for h in range(12 * scale):
        d = Definition()
        world = {}
        hist = []
        for stepno in range(30):
            k = rng.randrange(16)
            ro, rp = rng.choice(names_o), rng.choice(names_p)
            cur_o, cur_p = list(d.objects) or names_o, list(d.properties) or names_p
            if k <= 1:
                op = ('setitem', ro, rp, rng.random() < .7)
            elif k == 2:
                op = ('rename_object', rng.choice(cur_o), ro)
            elif k == 3:
                op = ('rename_property', rng.choice(cur_p), rp)
            elif k == 4:
                op = ('move_object', rng.choice(cur_o), rng.randint(-3, 6))
            elif k == 5:
                op = ('add_object', ro, rng.sample(names_p, rng.randint(0, 6)))
            elif k == 6:
                op = ('add_property', rp, rng.sample(names_o, rng.randint(0, 6)))
            elif k == 7:
                op = ('remove_object', rng.choice(cur_o))
            elif k == 8:
                op = ('remove_property', rng.choice(cur_p))
            elif k == 9:
                op = (rng.choice(['remove_empty_objects', 'remove_empty_properties']),)
            elif k in (10, 11):
                op = ('set_object', ro, rng.sample(names_p, rng.randint(2, 7)))
            elif k in (12, 13):
                op = ('set_property', rp, rng.sample(names_o, rng.randint(2, 7)))
            else:
                other = Definition(rng.sample(names_o, 5), rng.sample(names_p, 5), [[rng.random() < .5 for _ in range(5)] for _ in range(5)])
                world[20] = other
                line = defs.dnew_line(20, other.objects, other.properties, other.bools)
                emit('MODEL h%d' % h, line + '\t' + 'ok ' + defs.state(other))
                op = (rng.choice(['union_update', 'intersection_update']), 20, rng.random() < .6)
                if not op[2]:
                    # message text of the conflict error lists pairs
                    attempt('h%d conflict-msg %d' % (h, stepno), lambda: getattr(d, op[0])(other) or 'no conflict')
                    d = Definition(*d) if False else d
            if not hist:
                emit('MODEL h%d' % h, defs.dnew_line(0, d.objects, d.properties, d.bools) + '\tok ' + defs.state(d))
            before = defs.state(d)
            res = defs.apply_op(d, op, world)
            after = defs.state(d)
            got = ('ok %s %s' % (defs.ret_str(res[1]), after)) if res[0] == 'ok' else '%s %s' % (res[0], after)
            if op[0] in ('union_update', 'intersection_update') and not op[2]:
                # the un-ignored variant was already attempted above on the same object: state may have changed there
                emit('MODEL h%d' % h, defs.dnew_line(0, *defs.triple_of_state(before)[:3]) + '\tok ' + before)
            emit('MODEL h%d' % h, defs.op_line(0, op) + '\t' + got)
            hist.append(op)
        emit('h%d final' % h, repr(d))
        emit('h%d table' % h, d.tostring() if d.objects and d.properties else '')
        a = Definition(rng.sample(names_o, 6), rng.sample(names_p, 6), [[rng.random() < .5 for _ in range(6)] for _ in range(6)])
        b = Definition(rng.sample(names_o, 6), rng.sample(names_p, 6), [[rng.random() < .5 for _ in range(6)] for _ in range(6)])
        attempt('h%d union' % h, lambda: repr(a.union(b, ignore_conflicts=True)))
        attempt('h%d inter' % h, lambda: repr(a.intersection(b, ignore_conflicts=True)))
        attempt('h%d union-conflict' % h, lambda: repr(a | b))
        attempt('h%d take' % h, lambda: repr(a.take(rng.sample(names_o, 4) + ['nope', 'nada'], rng.sample(names_p, 3) + ['zip'])))
        attempt('h%d take-reorder' % h, lambda: repr(a.take(list(a.objects)[::-1][:3], None, reorder=True)))
        attempt('h%d inverted' % h, lambda: repr(~a))
        attempt('h%d transposed' % h, lambda: repr(-a))
        import copy
        import pickle
        attempt('h%d deepcopy' % h, lambda: repr(copy.deepcopy(a)))
        attempt('h%d pickle' % h, lambda: repr(pickle.loads(pickle.dumps(b))))
        attempt('h%d copy-table' % h, lambda: copy.deepcopy(d).tostring() if d.objects and d.properties else '')
    # sparse definitions: many empty rows / columns, few survivors
    for h in range(8 * scale):
        no, npr = rng.randint(6, 12), rng.randint(6, 12)
        objs = rng.sample(WORDS, no)
        props = rng.sample(PWORDS, npr)
        keep_o = rng.sample(range(no), rng.randint(2, 3))
        keep_p = rng.sample(range(npr), rng.randint(2, 3))
        bools = [[(i in keep_o and j in keep_p and rng.random() < .8) for j in range(npr)] for i in range(no)]
        for i in keep_o:
            bools[i][keep_p[0]] = True
        for j in keep_p:
            bools[keep_o[0]][j] = True
        d = Definition(objs, props, bools)
        emit('MODEL s%d' % h, defs.dnew_line(0, d.objects, d.properties, d.bools) + '\tok ' + defs.state(d))
        for op in (('remove_empty_objects',), ('remove_empty_properties',)):
            res = defs.apply_op(d, op, {})
            emit('MODEL s%d' % h, defs.op_line(0, op) + '\t' + 'ok %s %s' % (defs.ret_str(res[1]), defs.state(d)))
        emit('s%d table' % h, d.tostring())
    sys.stdout.write('\n'.join(OUT) + '\n')


if __name__ == '__main__':
    main(int(sys.argv[1]) if len(sys.argv) > 1 else 1)
