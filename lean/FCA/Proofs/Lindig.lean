import FCA.Proofs.Neighbors
import FCA.Proofs.LindigAbs
import FCA.Proofs.Link
/-
`lindig.lattice` of the model: the records it yields are exactly the formal concepts, once each, in
shortlex order, with `upper` = upper covers and `lower` = lower covers (as read after exhaustion).
-/
namespace FCA
open LindigAbs

/-- extents yielded by `neighbors` -/
def nbExt (K : Ctx) (e : Nat) : List Nat := (neighbors K e).map Prod.fst

/-- the least closed extent `∅''` -/
def Ctx.bot (K : Ctx) : Nat := K.doubleObj 0

theorem bot_closed {K : Ctx} (h : K.WF) : closedObj K K.bot := doubleObj_closed h 0 (bounded_zero _)

theorem bot_least {K : Ctx} (h : K.WF) {X : Nat} (hX : closedObj K X) : K.bot ⊆ᵇ X := by
  have := doubleObj_mono h (zero_sub X)
  rwa [hX.2] at this

theorem mem_nbExt {K : Ctx} (h : K.WF) {G : Nat} (hG : closedObj K G) (D : Nat) :
    D ∈ nbExt K G ↔ covers K G D := (neighbors_spec h hG).2.1 D

theorem reach_closed {K : Ctx} (h : K.WF) {x : Nat} (hr : Reach (nbExt K) K.bot x) : closedObj K x := by
  induction hr with
  | refl => exact bot_closed h
  | step _ hx ih => exact ((mem_nbExt h ih _).mp hx).1

/-- every closed extent above a closed `G` is reached from `G` through covers -/
theorem closed_reach_from {K : Ctx} (h : K.WF) {G : Nat} (hG : closedObj K G) :
    ∀ (N x : Nat), x = N → closedObj K x → G ⊆ᵇ x → Reach (nbExt K) G x := by
  intro N
  induction N using Nat.strong_induction_on with
  | _ N ih =>
    intro x hxN hx hGx
    by_cases hb : x = G
    · rw [hb]; exact Reach.refl _
    · classical
      let P : Nat → Prop := fun y => closedObj K y ∧ G ⊆ᵇ y ∧ y ⊆ᵇ x ∧ y ≠ x
      have hPG : P G := ⟨hG, sub_refl _, hGx, fun e => hb e.symm⟩
      have hPle : ∀ y, P y → y ≤ x := fun y hy => le_of_sub hy.2.2.1
      let y := Nat.findGreatest P x
      have hy : P y := Nat.findGreatest_spec (hPle _ hPG) hPG
      have hmax : ∀ z, P z → z ≤ y := fun z hz => Nat.le_findGreatest (hPle z hz) hz
      have hylt : y < N := hxN ▸ lt_of_sub_ne hy.2.2.1 hy.2.2.2
      have hRy : Reach (nbExt K) G y := ih y hylt y rfl hy.1 hy.2.1
      refine Reach.step hRy ((mem_nbExt h hy.1 x).mpr ⟨hx, hy.2.2.1, hy.2.2.2, ?_⟩)
      intro X hX hyX hXx
      by_cases hXx' : X = x
      · exact Or.inr hXx'
      · left
        have : X ≤ y := hmax X ⟨hX, sub_trans hy.2.1 hyX, hXx, hXx'⟩
        exact le_antisymm this (le_of_sub hyX)

/-- every closed extent is reached from the bottom through covers -/
theorem closed_reach {K : Ctx} (h : K.WF) : ∀ (N x : Nat), x = N → closedObj K x → Reach (nbExt K) K.bot x :=
  fun N x hx hc => closed_reach_from h (bot_closed h) N x hx hc (bot_least h hc)

/-- conversely, whatever is reached through covers from a closed `G` is a closed superset -/
theorem reach_from_closed {K : Ctx} (h : K.WF) {G x : Nat} (hG : closedObj K G) (hr : Reach (nbExt K) G x) :
    closedObj K x ∧ G ⊆ᵇ x := by
  induction hr with
  | refl => exact ⟨hG, sub_refl _⟩
  | step _ hx ih =>
    have hc := (mem_nbExt h ih.1 _).mp hx
    exact ⟨hc.1, sub_trans ih.2 hc.2.1⟩

theorem reach_iff_closed {K : Ctx} (h : K.WF) (x : Nat) : Reach (nbExt K) K.bot x ↔ closedObj K x :=
  ⟨reach_closed h, closed_reach h x x rfl⟩

theorem lindig_hyp {K : Ctx} (h : K.WF) : Hyp (nbExt K) (shortlexKey K.n) K.bot (2 ^ K.n) where
  inj := fun x y hx hy hk => shortlexKey_inj (reach_closed h hx).1 (reach_closed h hy).1 hk
  mono := fun e he x hx => by
    have hc := (mem_nbExt h (reach_closed h he) x).mp hx
    exact shortlexKey_lt_of_ssub hc.2.1 hc.1.1 hc.2.2.1
  nodup := fun e he => (neighbors_spec h (reach_closed h he)).1
  bound := fun e he => bounded_iff_lt.mp (reach_closed h he).1

/-- record-level invariant of the loop (`order` is the reversed emission order) -/
structure RecInv (K : Ctx) (recs : List Rec) (order : List Nat) : Prop where
  intent : ∀ r ∈ recs, r.intent = K.intentOf r.extent
  upper : ∀ r ∈ recs, r.upper = if r.extent ∈ order then nbExt K r.extent else []
  lower : ∀ r ∈ recs, r.lower = order.reverse.filter (fun d => decide (r.extent ∈ nbExt K d))

theorem newOnes_fst (nbs : List (Nat × Nat)) (recs : List Rec) :
    (newOnes nbs recs).map Prod.fst = (nbs.map Prod.fst).filter (fun x => decide (x ∉ Rec.exts recs)) := by
  unfold newOnes
  rw [List.filter_map]
  rfl

theorem recInv_step {K : Ctx} (h : K.WF) {heap : List Nat} {recs : List Rec} {order : List Nat} {e : Nat}
    (I : Inv (nbExt K) (shortlexKey K.n) K.bot heap (Rec.exts recs) order) (R : RecInv K recs order)
    (he : e ∈ heap) :
    RecInv K (linkResult e (neighbors K e) recs) (e :: order) := by
  have heseen : e ∈ Rec.exts recs := (I.split e).mpr (Or.inl he)
  have hec : closedObj K e := reach_closed h (I.reach e heseen)
  have hspec := neighbors_spec h hec
  have heo : e ∉ order := I.disj e he
  constructor
  · intro r hr
    rcases List.mem_append.mp hr with hr | hr
    · obtain ⟨r0, hr0, rfl⟩ := List.mem_map.mp hr
      exact R.intent r0 hr0
    · obtain ⟨p, hp, rfl⟩ := List.mem_map.mp hr
      exact hspec.2.2 p (List.mem_of_mem_filter hp)
  · intro r hr
    rcases List.mem_append.mp hr with hr | hr
    · obtain ⟨r0, hr0, rfl⟩ := List.mem_map.mp hr
      show r0.upper ++ (if r0.extent = e then _ else []) = _
      rw [R.upper r0 hr0, Rec.upd_extent]
      by_cases h1 : r0.extent = e
      · rw [h1]; simp [heo, nbExt]
      · simp [h1]
    · obtain ⟨p, hp, rfl⟩ := List.mem_map.mp hr
      have hp' : p.1 ∉ Rec.exts recs := by
        have := (List.mem_filter.mp hp).2; simpa using this
      have : p.1 ∉ e :: order := by
        intro hm
        rcases List.mem_cons.mp hm with h1 | h1
        · exact hp' (h1 ▸ heseen)
        · exact hp' ((I.split _).mpr (Or.inr h1))
      simp [this]
  · intro r hr
    rcases List.mem_append.mp hr with hr | hr
    · obtain ⟨r0, hr0, rfl⟩ := List.mem_map.mp hr
      show r0.lower ++ (if r0.extent ∈ (neighbors K e).map Prod.fst then [e] else []) = _
      rw [R.lower r0 hr0, List.reverse_cons, List.filter_append, Rec.upd_extent]
      congr 1
      by_cases h1 : r0.extent ∈ (neighbors K e).map Prod.fst
      · simp [h1, nbExt]
      · simp [h1, nbExt]
    · obtain ⟨p, hp, rfl⟩ := List.mem_map.mp hr
      have hp' : p.1 ∉ Rec.exts recs := by
        have := (List.mem_filter.mp hp).2; simpa using this
      have hpnb : p.1 ∈ nbExt K e := List.mem_map_of_mem (List.mem_of_mem_filter hp)
      show [e] = _
      rw [List.reverse_cons, List.filter_append]
      have h1 : order.reverse.filter (fun d => decide (p.1 ∈ nbExt K d)) = [] := by
        rw [List.filter_eq_nil_iff]
        intro d hd
        have hd' : d ∈ order := List.mem_reverse.mp hd
        simp only [decide_eq_true_eq]
        intro hm
        exact hp' (I.closedNb d hd' _ hm)
      rw [h1]; simp [hpnb]

/-- what the loop returns -/
structure LoopFinal (K : Ctx) (res : List Rec × List Nat) : Prop where
  final : Final (nbExt K) (shortlexKey K.n) K.bot res.2
  recs : RecInv K res.1 res.2.reverse
  keys : ∀ x, x ∈ Rec.exts res.1 ↔ x ∈ res.2
  keysNodup : (Rec.exts res.1).Nodup

theorem lindigLoop_correct {K : Ctx} (h : K.WF) :
    ∀ (fuel : Nat) (heap : List Nat) (recs : List Rec) (order : List Nat),
      Inv (nbExt K) (shortlexKey K.n) K.bot heap (Rec.exts recs) order → RecInv K recs order →
      2 ^ K.n + 1 ≤ fuel + order.length → order.Nodup →
      LoopFinal K (lindigLoop K fuel heap recs order) := by
  have H := lindig_hyp h
  intro fuel
  induction fuel with
  | zero =>
    intro heap recs order I _ hf hnd
    exfalso
    have h1 : order.length ≤ 2 ^ K.n := length_le_of_nodup_bound _ hnd
      (fun x hx => H.bound x (I.reach x ((I.split x).mpr (Or.inr hx))))
    omega
  | succ fuel ih =>
    intro heap recs order I R hf hnd
    unfold lindigLoop
    rcases minBy_spec (shortlexKey K.n) heap with ⟨rfl, hnone⟩ | ⟨e, hsome, he, hmin⟩
    · simp only [hnone]
      have hseen : ∀ y, y ∈ Rec.exts recs ↔ y ∈ order := fun y => by simpa using I.split y
      refine ⟨⟨by rw [List.pairwise_reverse]; exact I.sorted, fun x => ?_⟩, by simpa using R,
        fun x => by simp [hseen x], I.seenNodup⟩
      rw [List.mem_reverse]
      constructor
      · exact fun hx => I.reach x ((hseen x).mpr hx)
      · intro hx
        induction hx with
        | refl => exact (hseen _).mp I.hasBot
        | step _ hxd ih2 => exact (hseen _).mp (I.closedNb _ ih2 _ hxd)
    · simp only [hsome]
      have heseen : e ∈ Rec.exts recs := (I.split e).mpr (Or.inl he)
      have hec : closedObj K e := reach_closed h (I.reach e heseen)
      have hnd_nb : ((neighbors K e).map Prod.fst).Nodup := (neighbors_spec h hec).1
      rw [linkNeighbors_eq e (neighbors K e) recs (heap.erase e) hnd_nb heseen]
      simp only
      have hnd' : (e :: order).Nodup := List.nodup_cons.mpr ⟨I.disj e he, hnd⟩
      have hI := inv_step (nbExt K) (shortlexKey K.n) K.bot (2 ^ K.n) H I he hmin
      apply ih _ _ _ ?_ (recInv_step h I R he) (by simp; omega) hnd'
      rw [exts_linkResult, newOnes_fst]
      exact hI

theorem recFind_some {recs : List Rec} {e : Nat} {r : Rec} (h : recFind recs e = some r) : r ∈ recs ∧ r.extent = e := by
  unfold recFind at h
  exact ⟨List.mem_of_find?_eq_some h, by simpa using List.find?_some h⟩

theorem recFind_of_mem {recs : List Rec} {e : Nat} (h : e ∈ Rec.exts recs) : ∃ r, recFind recs e = some r := by
  have := (recFind_isSome recs e).mpr h
  exact Option.isSome_iff_exists.mp this

/-- the records of `lindig.lattice`, in yield order, read after exhaustion -/
structure LindigSpec (K : Ctx) (out : List Rec) : Prop where
  /-- strictly increasing shortlex key (hence no repeats) -/
  sorted : (out.map (·.extent)).Pairwise (fun a b => shortlexKey K.n a < shortlexKey K.n b)
  /-- exactly the closed extents -/
  mem : ∀ x, x ∈ out.map (·.extent) ↔ closedObj K x
  intent : ∀ r ∈ out, r.intent = K.intentOf r.extent
  upper : ∀ r ∈ out, r.upper = nbExt K r.extent
  lower : ∀ r ∈ out, r.lower = (out.map (·.extent)).filter (fun d => decide (r.extent ∈ nbExt K d))

theorem lindigLattice_spec {K : Ctx} (h : K.WF) : LindigSpec K (lindigLattice K) := by
  unfold lindigLattice
  rw [dpObj_eq h (bounded_zero _)]
  simp only
  have hInv0 : Inv (nbExt K) (shortlexKey K.n) K.bot [K.bot]
      (Rec.exts [⟨K.doubleObj 0, K.intentOf (K.doubleObj 0), [], []⟩]) [] := inv_init _ _ _
  have hR0 : RecInv K [⟨K.doubleObj 0, K.intentOf (K.doubleObj 0), [], []⟩] [] := by
    constructor <;> intro r hr <;> simp at hr <;> subst hr <;> simp
  have F := lindigLoop_correct h (2 ^ K.n + 1) [K.doubleObj 0] _ [] hInv0 hR0 (by simp) (by simp)
  generalize lindigLoop K (2 ^ K.n + 1) [K.doubleObj 0] [⟨K.doubleObj 0, K.intentOf (K.doubleObj 0), [], []⟩] [] = res at F
  obtain ⟨recs, order⟩ := res
  simp only at F ⊢
  -- every emitted extent has its record
  have hfm : ∀ (l : List Nat), (∀ e ∈ l, e ∈ order) →
      (l.filterMap (recFind recs)).map (·.extent) = l ∧ ∀ r ∈ l.filterMap (recFind recs), r ∈ recs := by
    intro l
    induction l with
    | nil => intro _; simp
    | cons a l ihl =>
      intro hl
      obtain ⟨r, hr⟩ := recFind_of_mem ((F.keys a).mpr (hl a (by simp)))
      have ⟨h1, h2⟩ := recFind_some hr
      obtain ⟨ih1, ih2⟩ := ihl (fun e he => hl e (by simp [he]))
      rw [List.filterMap_cons_some hr]
      refine ⟨by simp [h2, ih1], ?_⟩
      intro r' hr'
      rcases List.mem_cons.mp hr' with rfl | hr'
      · exact h1
      · exact ih2 r' hr'
  obtain ⟨hext, hmem⟩ := hfm order (fun _ he => he)
  have hRI := F.recs
  simp only [List.reverse_reverse] at hRI
  refine ⟨by rw [hext]; exact F.final.sorted, fun x => by rw [hext, F.final.mem, reach_iff_closed h],
    fun r hr => hRI.intent r (hmem r hr), ?_, ?_⟩
  · intro r hr
    have hro : r.extent ∈ order.reverse := by
      have : r.extent ∈ (order.filterMap (recFind recs)).map (·.extent) := List.mem_map_of_mem hr
      rw [hext] at this; simpa using this
    rw [hRI.upper r (hmem r hr)]; simp [hro]
  · intro r hr
    rw [hRI.lower r (hmem r hr), hext]; simp

end FCA
