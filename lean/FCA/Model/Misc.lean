import FCA.Model.Lattice
import FCA.Model.Defn
/-
Smaller modelled pieces: the order/relation predicates of `lattice_members.py` (pinned copy of the
extracted kernels), `Concept.join/meet`, the validation chains of `Context.__init__` /
`Context.fromdict`, `visualize.lattice` and `Lattice._tolist/_fromlist`.
-/
namespace FCA

/-! ### predicates (`x = self._extent`, `y = other._extent`, `t = lattice.supremum._extent`) -/
namespace Pinned
def implies (x y _t : Nat) : Bool := (x &&& y) == x
def subsumes (x y _t : Nat) : Bool := (x ||| y) == x
def properly_implies (x y _t : Nat) : Bool := ((x &&& y) == x) && (x != y)
def properly_subsumes (x y _t : Nat) : Bool := ((x ||| y) == x) && (x != y)
def incompatible_with (x y _t : Nat) : Bool := !((x &&& y) != 0)
def complement_of (x y t : Nat) : Bool := (!((x &&& y) != 0)) && ((x ||| y) == t)
def subcontrary_with (x y t : Nat) : Bool := ((x &&& y) != 0) && ((x ||| y) == t)
def orthogonal_to (x y t : Nat) : Bool :=
  let meet := x &&& y
  (!(!(meet != 0))) && (meet != x) && (meet != y) && ((x ||| y) != t)
/-- `common` of `Concept.join` -/
def join_common (x y : Nat) : Nat := x ||| y
/-- `common` of `Concept.meet` -/
def meet_common (x y : Nat) : Nat := x &&& y
end Pinned

def predByName (name : String) : Option (Nat → Nat → Nat → Bool) :=
  match name with
  | "implies" => some Pinned.implies
  | "subsumes" => some Pinned.subsumes
  | "properly_implies" => some Pinned.properly_implies
  | "properly_subsumes" => some Pinned.properly_subsumes
  | "incompatible_with" => some Pinned.incompatible_with
  | "complement_of" => some Pinned.complement_of
  | "subcontrary_with" => some Pinned.subcontrary_with
  | "orthogonal_to" => some Pinned.orthogonal_to
  | _ => none

/-- `Concept.join`: `mapping[_extents.double(x | y)]` (`_extents.double` = `Objects.double`) -/
def conceptJoin (K : Ctx) (L : Lattice) (a b : Nat) : Option Nat :=
  L.find (K.doubleObj (Pinned.join_common (L.extentAt a) (L.extentAt b)))

/-- `Concept.meet` -/
def conceptMeet (K : Ctx) (L : Lattice) (a b : Nat) : Option Nat :=
  L.find (K.doubleObj (Pinned.meet_common (L.extentAt a) (L.extentAt b)))

/-! ### validation (`Context.__init__`) on a well-typed triple -/

def hasDup : List Name → Bool
  | [] => false
  | x :: xs => xs.contains x || hasDup xs

/-- the guard chain of `Data.__init__`; `rowLens` = `len(b)` of every row -/
def ctorAccepts (objects properties : List Name) (rowLens : List Nat) : Bool :=
  !objects.isEmpty && !hasDup objects &&
  !properties.isEmpty && !hasDup properties &&
  !(objects.any properties.contains) &&
  (rowLens.length == objects.length && rowLens.all (· == properties.length))

/-- rows of truthy cells → row masks -/
def rowMask (row : List Bool) : Nat :=
  (row.zipIdx).foldl (fun acc (b, j) => if b then acc ||| 2 ^ j else acc) 0

/-- `Context(objects, properties, bools)`: the index-level context, or `ValueError` -/
def ctxOfTriple (objects properties : List Name) (bools : List (List Bool)) : Except Err Ctx :=
  if ctorAccepts objects properties (bools.map (·.length)) then
    .ok (mkCtx objects.length properties.length (bools.map rowMask).toArray)
  else .error .valueError

/-- a serialized name: a string or something else -/
inductive SName where
  | str (s : Name)
  | other
deriving Repr, BEq

/-- the `lattice` entry of a serialized dict -/
inductive SLattice where
  | absent | none | empty | present
deriving Repr, BEq

structure SDict where
  objects : Option (List SName)
  properties : Option (List SName)
  context : Option (List (List Int))
  lattice : SLattice
deriving Repr

/-- the guard chain of `Data.fromdict` up to (and including) the constructor call;
returns names and boolean rows when accepted -/
def fromdictCheck (d : SDict) (requireLattice : Bool) :
    Except Err (List Name × List Name × List (List Bool)) :=
  match d.objects, d.properties, d.context with
  | some objects, some properties, some context =>
    if !(objects.all fun v => match v with | .str _ => true | .other => false) then .error .valueError
    else if !(properties.all fun v => match v with | .str _ => true | .other => false) then .error .valueError
    else if context.length != objects.length then .error .valueError
    else if requireLattice && d.lattice == .absent then .error .valueError
    else if d.lattice == .empty then .error .valueError
    else
      let np : Int := properties.length
      let rowOk := fun (r : List Int) => r.eraseDups.length == r.length && r.all fun i => 0 ≤ i && i < np
      if !(context.all rowOk) then .error .valueError
      else
        let names := fun (l : List SName) => l.filterMap fun v => match v with | .str s => some s | .other => none
        let bools := context.map fun r => (List.range properties.length).map fun j => r.contains (j : Int)
        let os := names objects
        let ps := names properties
        if ctorAccepts os ps (bools.map (·.length)) then .ok (os, ps, bools) else .error .valueError
  | _, _, _ => .error .valueError

/-! ### `visualize.lattice`: the sequence of node / label / edge statements -/

inductive DotItem where
  | node (k : Nat)
  | objectLabel (k : Nat) (objects : List Nat)
  | propertyLabel (k : Nat) (properties : List Nat)
  | edge (k j : Nat)
deriving Repr, BEq

def dotItems (L : Lattice) : List DotItem :=
  L.flatMap fun c =>
    [DotItem.node c.index] ++
    (if c.objects.isEmpty then [] else [DotItem.objectLabel c.index c.objects]) ++
    (if c.properties.isEmpty then [] else [DotItem.propertyLabel c.index c.properties]) ++
    (sortBy id c.lower).map (DotItem.edge c.index)

/-! ### `Lattice._tolist` / `_fromlist` -/

/-- one stored concept: extent indexes, intent indexes, upper indexes, lower indexes -/
structure Stored where
  extent : List Nat
  intent : List Nat
  upper : List Nat
  lower : List Nat
deriving Repr, BEq

def toStored (K : Ctx) (L : Lattice) : List Stored :=
  L.map fun c => ⟨membersW K.n c.extent, membersW K.m c.intent, c.upper, c.lower⟩

/-- stable insertion sort of positions by key (ties keep their order: `list.sort`) -/
def insertStable (key : Nat → Nat) (x : Nat) : List Nat → List Nat
  | [] => [x]
  | y :: ys => if key x ≤ key y then x :: y :: ys else y :: insertStable key x ys
def sortStable (key : Nat → Nat) (l : List Nat) : List Nat := l.foldr (insertStable key) []

/-- `_init` + `_annotate` applied to concepts given as (extent, intent, upper idx, lower idx) in
final order -/
def finishLattice (K : Ctx) (cs : List (Nat × Nat × List Nat × List Nat)) : Lattice :=
  let extents := cs.map (·.1)
  let llKey := fun i => longlexKey K.n (extents.getD i 0)
  let dorder := sortStable llKey (List.range cs.length)
  let atoms := ((cs.head?).map (·.2.2.1)).getD []
  -- `mapping = {c._extent: c}`: the last concept with an extent wins
  let mapIdx := fun e => ((List.range cs.length).reverse.find? fun i => extents.getD i 0 == e)
  (cs.zipIdx).map fun ((e, i, up, lo), k) =>
    { extent := e, intent := i, upper := up, lower := lo, index := k
      dindex := (indexOf? k dorder).getD 0
      atoms := atoms.filter fun a => e ||| extents.getD a 0 == e
      objects := (List.range K.n).filter fun o => mapIdx (K.extentOf (K.intentOf (2 ^ o))) == some k
      properties := (List.range K.m).filter fun p => mapIdx (K.extentOf (2 ^ p)) == some k }

/-- `Lattice._fromlist(context, lattice, unordered)` -/
def fromStored (K : Ctx) (st : List Stored) (raw : Bool) : Lattice :=
  let cs := st.map fun s => (ofMembers s.extent, ofMembers s.intent, s.upper, s.lower)
  if !raw then finishLattice K cs
  else
    let extents := cs.map (·.1)
    let slKey := fun i => shortlexKey K.n (extents.getD i 0)
    let llKey := fun i => longlexKey K.n (extents.getD i 0)
    let order := sortStable slKey (List.range cs.length)      -- new position → old position
    let newPos := fun old => (indexOf? old order).getD 0
    let cs' := order.filterMap fun old => (cs[old]?).map fun (e, i, up, lo) =>
      (e, i, (sortStable slKey up).map newPos, (sortStable llKey lo).map newPos)
    finishLattice K cs'

end FCA
