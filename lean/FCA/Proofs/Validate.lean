import FCA.Model.Misc
import FCA.Proofs.Galois
/-
Helper lemmas for property C19: the guard chains of `Context.__init__` / `Context.fromdict`.
-/
namespace FCA

/-! ### duplicates -/

theorem hasDup_eq_false_iff (l : List Name) : hasDup l = false ↔ l.Nodup := by
  induction l with
  | nil => simp [hasDup]
  | cons x xs ih =>
    simp only [hasDup, Bool.or_eq_false_iff, ih, List.nodup_cons]
    simp

theorem eraseDups_length_le {α : Type} [BEq α] (l : List α) : l.eraseDups.length ≤ l.length := by
  generalize hn : l.length = n
  induction n using Nat.strong_induction_on generalizing l with
  | _ n ih =>
    cases l with
    | nil => simp
    | cons a as =>
      rw [List.eraseDups_cons, List.length_cons]
      have h1 := List.length_filter_le (fun b => !b == a) as
      have h2 := ih _ (by rw [← hn, List.length_cons]; omega) (as.filter fun b => !b == a) rfl
      rw [← hn, List.length_cons]; omega

/-- `len(set(r)) == len(r)` -/
theorem eraseDups_length_eq_iff {α : Type} [BEq α] [LawfulBEq α] (l : List α) :
    l.eraseDups.length = l.length ↔ l.Nodup := by
  induction l with
  | nil => simp
  | cons a as ih =>
    rw [List.eraseDups_cons, List.length_cons, List.length_cons, List.nodup_cons]
    have h1 := List.length_filter_le (fun b => !b == a) as
    have h2 := eraseDups_length_le (as.filter fun b => !b == a)
    constructor
    · intro h
      have hlen : (as.filter fun b => !b == a).length = as.length := by omega
      have hall := List.length_filter_eq_length_iff.mp hlen
      have hfil : (as.filter fun b => !b == a) = as := List.filter_eq_self.mpr hall
      rw [hfil] at h
      refine ⟨?_, ih.mp (by omega)⟩
      intro hmem
      have := hall a hmem
      simp at this
    · rintro ⟨hmem, hnd⟩
      have hfil : (as.filter fun b => !b == a) = as := by
        rw [List.filter_eq_self]
        intro b hb
        have : b ≠ a := fun h => hmem (h ▸ hb)
        simpa using this
      rw [hfil, ih.mpr hnd]

/-! ### the constructor guard -/

theorem ctorAccepts_iff (os ps : List Name) (lens : List Nat) :
    ctorAccepts os ps lens = true ↔
      os ≠ [] ∧ os.Nodup ∧ ps ≠ [] ∧ ps.Nodup ∧ (∀ x, x ∈ os → x ∉ ps) ∧
      lens.length = os.length ∧ ∀ l ∈ lens, l = ps.length := by
  unfold ctorAccepts
  simp only [Bool.and_eq_true, Bool.not_eq_true', hasDup_eq_false_iff, List.isEmpty_eq_false_iff,
    beq_iff_eq, List.all_eq_true, List.any_eq_false, List.contains_iff_mem]
  tauto

/-! ### row masks -/

theorem mem_rowMask_aux (row : List Bool) (k acc j : Nat) :
    j ∈ᵇ (row.zipIdx k).foldl (fun acc (b, j) => if b then acc ||| 2 ^ j else acc) acc ↔
      j ∈ᵇ acc ∨ (k ≤ j ∧ j - k < row.length ∧ row[j - k]! = true) := by
  induction row generalizing k acc with
  | nil => simp
  | cons b bs ih =>
    rw [List.zipIdx_cons, List.foldl_cons, ih]
    simp only [List.length_cons]
    rcases Nat.lt_trichotomy j k with hjk | rfl | hjk
    · have h1 : ¬ k ≤ j := by omega
      have h2 : ¬ k + 1 ≤ j := by omega
      have h3 : j ≠ k := by omega
      cases b <;> simp [h1, h2, h3]
    · have h2 : ¬ j + 1 ≤ j := by omega
      cases b <;> simp
    · have e : j - k = (j - (k + 1)) + 1 := by omega
      have h1 : k ≤ j := by omega
      have h2 : k + 1 ≤ j := by omega
      have h3 : j ≠ k := by omega
      rw [e, List.getElem!_cons_succ]
      cases b <;> simp [h1, h2, h3]

/-- bit `j` of the row mask = truthiness of cell `j` -/
theorem mem_rowMask (row : List Bool) (j : Nat) :
    j ∈ᵇ rowMask row ↔ j < row.length ∧ row[j]! = true := by
  unfold rowMask
  rw [mem_rowMask_aux]
  simp

theorem rowMask_lt (row : List Bool) : rowMask row < 2 ^ row.length := by
  rw [← bounded_iff_lt]
  intro j hj
  exact ((mem_rowMask row j).mp hj).1

theorem rowMask_nil : rowMask [] = 0 := rfl

theorem getElem!_map_rowMask (bools : List (List Bool)) (i : Nat) :
    ((bools.map rowMask).toArray)[i]! = rowMask (bools[i]!) := by
  by_cases h : i < bools.length
  · simp [h]
  · simp [h]; rfl

/-! ### `fromdict` -/

/-- a serialized name is a string -/
def SName.isStr : SName → Bool
  | .str _ => true
  | .other => false

/-- the string names of a serialized name list -/
def strNames (l : List SName) : List Name :=
  l.filterMap fun v => match v with | .str s => some s | .other => none

/-- index rows → Boolean rows of width `np` -/
def boolsOf (np : Nat) (context : List (List Int)) : List (List Bool) :=
  context.map fun r => (List.range np).map fun j => r.contains (j : Int)

theorem strNames_map_str (l : List Name) : strNames (l.map SName.str) = l := by
  induction l with
  | nil => rfl
  | cons a l ih => simp only [List.map_cons, strNames, List.filterMap_cons] at ih ⊢; rw [ih]

theorem map_str_strNames (l : List SName) (h : ∀ v ∈ l, v.isStr = true) : (strNames l).map SName.str = l := by
  induction l with
  | nil => rfl
  | cons a l ih =>
    have ha := h a (by simp)
    have := ih (fun v hv => h v (by simp [hv]))
    cases a with
    | str s => simp only [strNames, List.filterMap_cons, List.map_cons] at this ⊢; rw [this]
    | other => simp [SName.isStr] at ha

theorem strNames_length (l : List SName) (h : ∀ v ∈ l, v.isStr = true) : (strNames l).length = l.length := by
  conv_rhs => rw [← map_str_strNames l h]
  simp

theorem all_isStr_iff (l : List SName) :
    (l.all fun v => match v with | .str _ => true | .other => false) = true ↔ ∀ v ∈ l, v.isStr = true := by
  rw [List.all_eq_true]
  constructor
  · intro h v hv; have := h v hv; cases v <;> simp_all [SName.isStr]
  · intro h v hv; have := h v hv; cases v <;> simp_all [SName.isStr]

theorem slattice_beq_iff (a b : SLattice) : (a == b) = true ↔ a = b := by
  cases a <;> cases b <;>
    first
    | exact ⟨fun _ => rfl, fun _ => rfl⟩
    | exact ⟨fun h => absurd h (by decide), fun h => by cases h⟩

/-- the per-row guard of `fromdict` -/
theorem rowOk_iff (np : Nat) (r : List Int) :
    (r.eraseDups.length == r.length && r.all fun i => decide (0 ≤ i) && decide (i < (np : Int))) = true ↔
      r.Nodup ∧ ∀ i ∈ r, 0 ≤ i ∧ i < (np : Int) := by
  simp only [Bool.and_eq_true, beq_iff_eq, eraseDups_length_eq_iff, List.all_eq_true, decide_eq_true_eq]

theorem boolsOf_lengths (np : Nat) (context : List (List Int)) :
    (boolsOf np context).length = context.length ∧ ∀ l ∈ (boolsOf np context).map (·.length), l = np := by
  simp [boolsOf]

theorem all_congr_isStr {f : SName → Bool} {l : List SName} (hf : ∀ v, f v = v.isStr) :
    l.all f = l.all SName.isStr := by
  rw [funext hf]

theorem filterMap_eq_strNames {f : SName → Option Name} {l : List SName}
    (hf : ∀ v, f v = match v with | .str s => some s | .other => none) :
    l.filterMap f = strNames l := by
  rw [funext hf]; rfl

/-- all guards of `fromdict`, as the Boolean the code computes -/
def fromdictGuard (d : SDict) (req : Bool) (objects properties : List SName) (context : List (List Int)) : Bool :=
  objects.all SName.isStr && properties.all SName.isStr && (context.length == objects.length) &&
  !(req && d.lattice == SLattice.absent) && !(d.lattice == SLattice.empty) &&
  (context.all fun r => r.eraseDups.length == r.length &&
    r.all fun i => decide (0 ≤ i) && decide (i < (properties.length : Int))) &&
  ctorAccepts (strNames objects) (strNames properties) ((boolsOf properties.length context).map (·.length))

/-- all guards of `fromdict` in propositional form -/
def FromdictOk (d : SDict) (req : Bool) (objects properties : List SName) (context : List (List Int)) : Prop :=
  (∀ v ∈ objects, v.isStr = true) ∧ (∀ v ∈ properties, v.isStr = true) ∧
  context.length = objects.length ∧ (req = true → d.lattice ≠ .absent) ∧ d.lattice ≠ .empty ∧
  (∀ r ∈ context, r.Nodup ∧ ∀ i ∈ r, 0 ≤ i ∧ i < (properties.length : Int)) ∧
  ctorAccepts (strNames objects) (strNames properties) ((boolsOf properties.length context).map (·.length)) = true

theorem fromdictGuard_iff (d : SDict) (req : Bool) (objects properties : List SName) (context : List (List Int)) :
    fromdictGuard d req objects properties context = true ↔ FromdictOk d req objects properties context := by
  unfold fromdictGuard FromdictOk
  simp only [Bool.and_eq_true, List.all_eq_true, beq_iff_eq, Bool.not_eq_true',
    eraseDups_length_eq_iff, decide_eq_true_eq, ← Bool.not_eq_true, slattice_beq_iff, and_assoc,
    not_and, ne_eq]

theorem fromdictCheck_some {d : SDict} {req : Bool} {objects properties : List SName} {context : List (List Int)}
    (ho : d.objects = some objects) (hp : d.properties = some properties) (hc : d.context = some context) :
    fromdictCheck d req =
      if fromdictGuard d req objects properties context then
        .ok (strNames objects, strNames properties, boolsOf properties.length context)
      else .error .valueError := by
  unfold fromdictCheck fromdictGuard boolsOf
  rw [ho, hp, hc]
  simp only [bne]
  rw [all_congr_isStr (l := objects), all_congr_isStr (l := properties),
    filterMap_eq_strNames (l := objects), filterMap_eq_strNames (l := properties)]
  rotate_left
  · intro v; cases v <;> rfl
  · intro v; cases v <;> rfl
  · intro v; cases v <;> rfl
  · intro v; cases v <;> rfl
  generalize objects.all SName.isStr = A
  generalize properties.all SName.isStr = B
  generalize (context.length == objects.length) = C
  generalize (req && d.lattice == SLattice.absent) = D
  generalize (d.lattice == SLattice.empty) = E
  generalize (context.all fun r => r.eraseDups.length == r.length &&
    r.all fun i => decide (0 ≤ i) && decide (i < (properties.length : Int))) = F
  generalize ctorAccepts _ _ _ = G
  cases A <;> cases B <;> cases C <;> cases D <;> cases E <;> cases F <;> cases G <;> rfl

theorem fromdictCheck_none {d : SDict} {req : Bool}
    (h : d.objects = none ∨ d.properties = none ∨ d.context = none) :
    fromdictCheck d req = .error .valueError := by
  unfold fromdictCheck
  rcases h with h | h | h
  · rw [h]
  · rw [h]; cases d.objects <;> rfl
  · rw [h]; cases d.objects <;> cases d.properties <;> rfl

end FCA
