import FCA.Proofs.PyLiteralSeq
/-
Read-back of the printed int tuples, lattice entries and name tuples of the python-literal format.
-/
namespace FCA

theorem joinWith_comma_cons {α : Type} (pr : α → Str) (v : α) (vs : List α) :
    joinWith [',', ' '] ((v :: vs).map pr) = pr v ++ vs.flatMap (fun u => ',' :: ' ' :: pr u) := by
  induction vs generalizing v with
  | nil => simp [joinWith]
  | cons u vs ih =>
    rw [List.map_cons, List.map_cons, joinWith, ← List.map_cons, ih u]
    · simp
    · simp

theorem goodHead_of_digit {c : Char} {t : Str} (close : Char) (hcl : close.isDigit = false)
    (h : c.isDigit = true) : GoodHead close (c :: t) := by
  refine ⟨c, t, rfl, ?_, ?_⟩
  · cases hw : litIsWs c with
    | false => rfl
    | true =>
      simp only [litIsWs, Bool.or_eq_true, beq_iff_eq] at hw
      rcases hw with ((rfl | rfl) | rfl) | rfl <;> simp at h
  · rintro rfl
    rw [h] at hcl
    cases hcl

theorem goodHead_nat (close : Char) (hcl : close.isDigit = false) (n : Nat) :
    GoodHead close (pyReprNat n) := by
  cases h : pyReprNat n with
  | nil => exact absurd h (pyReprNat_ne_nil n)
  | cons c t => exact goodHead_of_digit close hcl (pyReprNat_digits n c (by simp [h]))

theorem pyReprIntTuple_cons2 (a b : Nat) (l : List Nat) :
    pyReprIntTuple (a :: b :: l) =
      '(' :: (pyReprNat a ++ ((b :: l).flatMap (fun u => ',' :: ' ' :: pyReprNat u) ++ [')'])) := by
  rw [pyReprIntTuple, joinWith_comma_cons, List.append_assoc]
  all_goals simp

theorem ws_rparen : litIsWs ')' = false := by decide
theorem ws_rbracket : litIsWs ']' = false := by decide
theorem ws_rbrace : litIsWs '}' = false := by decide

/-- `repr` of an int tuple is read back in front of any text -/
theorem parseSeq_intTuple (n : Nat) (l : List Nat) (r : Str)
    (hlen : (pyReprIntTuple l ++ r).length ≤ n) :
    parseSeq parseNatLit n (pyReprIntTuple l ++ r) = some (l, r) := by
  have hitem : ∀ v c r, (c = ',' ∨ c = ')') → parseNatLit (pyReprNat v ++ c :: r) = some (v, c :: r) := by
    intro v c r hc
    apply parseNatLit_repr
    apply noDigitHead_cons
    rcases hc with rfl | rfl <;> decide
  match l with
  | [] =>
    cases n with
    | zero => simp [pyReprIntTuple] at hlen
    | succ n =>
      cases n with
      | zero => simp [pyReprIntTuple] at hlen
      | succ n =>
        simp only [pyReprIntTuple, List.cons_append, List.nil_append, parseSeq,
          litSeqLoop_close parseNatLit ')' ws_rparen]
        simp
  | [a] =>
    simp only [pyReprIntTuple, List.cons_append, List.append_assoc, List.nil_append,
      List.length_cons, List.length_append] at hlen ⊢
    obtain ⟨c, t, hct, hws, hcl⟩ := goodHead_nat ')' (by decide) a
    have hi := hitem a ',' (')' :: r) (Or.inl rfl)
    rw [hct] at hi hlen ⊢
    obtain ⟨n, rfl⟩ : ∃ m, n = m + 3 := ⟨n - 3, by simp at hlen; omega⟩
    rw [List.cons_append] at hi ⊢
    simp only [parseSeq, beq_self_eq_true, if_true]
    rw [litSeqLoop_step parseNatLit ')' (n + 2) c _ _ a hws hcl hi,
      litSeqLoop_close parseNatLit ')' ws_rparen]
    simp [litSeqCons]
  | a :: b :: l =>
    rw [pyReprIntTuple_cons2] at hlen ⊢
    simp only [List.cons_append, List.append_assoc, List.nil_append, List.length_cons] at hlen ⊢
    simp only [parseSeq, beq_self_eq_true, if_true]
    rw [litSeqLoop_join parseNatLit ')' ws_rparen (by decide) pyReprNat n
      (goodHead_nat ')' (by decide)) (fun v c r hc _ => hitem v c r hc) (b :: l) a n r (le_refl _)
      (by omega)]
    simp

theorem pyReprIntTuple_head (l : List Nat) : ∃ t, pyReprIntTuple l = '(' :: t := by
  match l with
  | [] => exact ⟨_, rfl⟩
  | [a] => exact ⟨_, rfl⟩
  | a :: b :: l => exact ⟨_, rfl⟩

theorem goodHead_lparen (close : Char) (hcl : '(' ≠ close) (t : Str) : GoodHead close ('(' :: t) :=
  ⟨'(', t, rfl, by decide, hcl⟩

theorem goodHead_intTuple (close : Char) (hcl : '(' ≠ close) (l : List Nat) :
    GoodHead close (pyReprIntTuple l) := by
  obtain ⟨t, ht⟩ := pyReprIntTuple_head l
  rw [ht]
  exact goodHead_lparen close hcl t

theorem pyReprEntry_eq (e : LitEntry4) :
    pyReprEntry e = '(' :: (pyReprIntTuple e.1 ++
      ([e.2.1, e.2.2.1, e.2.2.2].flatMap (fun u => ',' :: ' ' :: pyReprIntTuple u) ++ [')'])) := by
  obtain ⟨a, b, c, d⟩ := e
  rw [pyReprEntry, show [pyReprIntTuple a, pyReprIntTuple b, pyReprIntTuple c, pyReprIntTuple d] =
    [a, b, c, d].map pyReprIntTuple from rfl, joinWith_comma_cons, List.append_assoc]

/-- `repr` of a lattice entry is read back in front of any text -/
theorem parseEntry4_repr (n : Nat) (e : LitEntry4) (r : Str)
    (hlen : (pyReprEntry e ++ r).length ≤ n) :
    parseEntry4 n (pyReprEntry e ++ r) = some (e, r) := by
  rw [pyReprEntry_eq] at hlen ⊢
  obtain ⟨a, b, c, d⟩ := e
  simp only [List.cons_append, List.append_assoc, List.nil_append, List.length_cons] at hlen ⊢
  simp only [parseEntry4, parseSeq, beq_self_eq_true, if_true]
  rw [litSeqLoop_join (parseSeq parseNatLit n) ')' ws_rparen (by decide) pyReprIntTuple n
    (goodHead_intTuple ')' (by decide)) (fun v c r _ h => parseSeq_intTuple n v (c :: r) h)
    [b, c, d] a n r (le_refl _) (by omega)]
  simp

theorem pyReprEntry_head (e : LitEntry4) : ∃ t, pyReprEntry e = '(' :: t := ⟨_, pyReprEntry_eq e⟩

end FCA
