import FCA.Proofs.Lindig
import FCA.Proofs.Assemble
/-
C03 — The lattice contains exactly the formal concepts of the context, once each.

`lindigLattice K` is the list of records `lindig.lattice` yields (what `Lattice.__init__` turns into
`Concept` objects one by one, see `assemble`).
-/
namespace FCA

/-- nothing else: every yielded pair is a formal concept -/
theorem C03_sound (K : Ctx) (h : K.WF) (r : Rec) (hr : r ∈ lindigLattice K) : isConcept K r.extent r.intent := by
  have S := lindigLattice_spec h
  rw [isConcept_iff_closed]
  exact ⟨(S.mem _).mp (List.mem_map_of_mem hr), S.intent r hr⟩

/-- every pair `(A, B)` with `A' = B` and `B' = A` is yielded -/
theorem C03_complete (K : Ctx) (h : K.WF) (A B : Nat) (hc : isConcept K A B) :
    ∃ r ∈ lindigLattice K, r.extent = A ∧ r.intent = B := by
  have S := lindigLattice_spec h
  obtain ⟨hcl, hB⟩ := isConcept_iff_closed.mp hc
  obtain ⟨r, hr, rfl⟩ := List.mem_map.mp ((S.mem A).mpr hcl)
  exact ⟨r, hr, rfl, by rw [S.intent r hr, hB]⟩

/-- no pair repeated -/
theorem C03_nodup (K : Ctx) (h : K.WF) : ((lindigLattice K).map (·.extent)).Nodup :=
  (lindigLattice_spec h).sorted.imp (fun hlt heq => by rw [heq] at hlt; exact lt_irrefl _ hlt)

/-- `len(lattice)` is the number of closed object sets -/
theorem C03_len (K : Ctx) (h : K.WF) :
    (lindigLattice K).length =
      (@Finset.filter _ (fun A => closedObj K A) (Classical.decPred _) (Finset.range (2 ^ K.n))).card := by
  classical
  have S := lindigLattice_spec h
  have hnd := C03_nodup K h
  rw [← List.length_map (f := (·.extent)), ← List.toFinset_card_of_nodup hnd]
  congr 1
  ext A
  simp only [List.mem_toFinset, S.mem, Finset.mem_filter, Finset.mem_range]
  exact ⟨fun hA => ⟨bounded_iff_lt.mp hA.1, hA⟩, fun hA => hA.2⟩

/-- the bottom (closure of the empty object set) and the top (all objects) are always present -/
theorem C03_bottom_top (K : Ctx) (h : K.WF) :
    K.doubleObj 0 ∈ (lindigLattice K).map (·.extent) ∧ full K.n ∈ (lindigLattice K).map (·.extent) := by
  have S := lindigLattice_spec h
  refine ⟨(S.mem _).mpr (bot_closed h), (S.mem _).mpr ⟨bounded_full _, ?_⟩⟩
  exact sub_antisymm (bounded_iff_sub_full.mp (bounded_extentOf h _)) (sub_extent_intent h (bounded_full _))

/-- a table that is all crosses has a one-element lattice -/
theorem C03_all_crosses (K : Ctx) (h : K.WF) (hn : 0 < K.n) (hall : ∀ i j, i < K.n → j < K.m → K.has i j) :
    (lindigLattice K).length = 1 := by
  have S := lindigLattice_spec h
  -- the only closed set is the full one
  have honly : ∀ A, closedObj K A → A = full K.n := by
    intro A hA
    apply sub_antisymm (bounded_iff_sub_full.mp hA.1)
    intro i hi
    rw [← hA.2]
    unfold Ctx.doubleObj
    rw [mem_extentOf h]
    exact ⟨mem_full.mp hi, fun j hj => hall i j (mem_full.mp hi) ((mem_intentOf A j).mp hj).1⟩
  have hnd := C03_nodup K h
  have hall' : ∀ x ∈ (lindigLattice K).map (·.extent), x = full K.n := fun x hx => honly x ((S.mem x).mp hx)
  have hne : (lindigLattice K).map (·.extent) ≠ [] := by
    intro he
    have := (C03_bottom_top K h).1
    rw [he] at this; simp at this
  rw [← List.length_map (f := (·.extent))]
  generalize hl : (lindigLattice K).map (·.extent) = l at hnd hall' hne
  match l, hne with
  | [a], _ => rfl
  | a :: b :: t, _ =>
    have ha := hall' a (by simp)
    have hb := hall' b (by simp)
    rw [ha, hb] at hnd
    simp at hnd

/-- `Lattice.__init__` turns the yielded records into concepts one by one: `iter(context.lattice)` has
exactly the (extent, intent) pairs of the generator, in the same order — so all of the above holds
for the lattice object, and `len(lattice)` is the number of records -/
theorem C03_lattice_pairs (K : Ctx) :
    (mkLattice K).map (fun c => (c.extent, c.intent)) = (lindigLattice K).map (fun r => (r.extent, r.intent)) ∧
    (mkLattice K).length = (lindigLattice K).length :=
  ⟨assemble_pairs K _, assemble_length K _⟩

theorem C03_lattice_iff (K : Ctx) (h : K.WF) (A B : Nat) :
    (A, B) ∈ (mkLattice K).map (fun c => (c.extent, c.intent)) ↔ isConcept K A B := by
  rw [(C03_lattice_pairs K).1]
  constructor
  · intro hm
    obtain ⟨r, hr, he⟩ := List.mem_map.mp hm
    simp only [Prod.mk.injEq] at he
    rw [← he.1, ← he.2]
    exact C03_sound K h r hr
  · intro hc
    obtain ⟨r, hr, h1, h2⟩ := C03_complete K h A B hc
    exact List.mem_map.mpr ⟨r, hr, by rw [h1, h2]⟩

/-- no pair repeated in `iter(lattice)` -/
theorem C03_lattice_nodup (K : Ctx) (h : K.WF) : ((mkLattice K).map fun c => (c.extent, c.intent)).Nodup := by
  rw [(C03_lattice_pairs K).1]
  have := C03_nodup K h
  have hmap : (lindigLattice K).map (·.extent) = ((lindigLattice K).map fun r => (r.extent, r.intent)).map Prod.fst := by
    rw [List.map_map]; rfl
  rw [hmap] at this
  exact List.Nodup.of_map _ this

/-- `len(lattice)` is the number of formal concepts (= closed object sets) -/
theorem C03_lattice_len (K : Ctx) (h : K.WF) :
    (mkLattice K).length =
      (@Finset.filter _ (fun A => closedObj K A) (Classical.decPred _) (Finset.range (2 ^ K.n))).card := by
  rw [(C03_lattice_pairs K).2]; exact C03_len K h

/-- the bottom concept has the least extent -/
theorem C03_bottom_least (K : Ctx) (h : K.WF) (A B : Nat) (hc : isConcept K A B) : K.doubleObj 0 ⊆ᵇ A :=
  bot_least h (isConcept_iff_closed.mp hc).1

def C03_exK : Ctx := mkCtx 3 3 #[0b011, 0b001, 0b110]
theorem C03_exK_WF : C03_exK.WF := mkCtx_WF 3 3 _ rfl (by intro i hi; interval_cases i <;> decide)
example : ((lindigLattice C03_exK).map (·.extent)).Nodup := C03_nodup _ C03_exK_WF
example : (lindigLattice C03_exK).map (fun r => (r.extent, r.intent)) = [(0, 7), (1, 3), (4, 6), (3, 1), (5, 2), (7, 0)] := by
  decide +kernel

end FCA
#print axioms FCA.C03_sound
#print axioms FCA.C03_complete
#print axioms FCA.C03_nodup
#print axioms FCA.C03_len
