import FCA.Proofs.FormatsCxt
/-
Round trip of the ASCII-art table format.
-/
namespace FCA

/-- cell text of a flag -/
def sym (b : Bool) : Str := if b then ['X'] else []

/-- one formatted table line: `indent + '|'.join('%-*s' % (w, c)) + '|'` -/
def fmtLine (indent : Nat) (wd : List Nat) (cells : List Str) : Str :=
  List.replicate indent ' ' ++ joinWith ['|'] ((wd.zip cells).map fun (w, c) => ljust w c) ++ ['|']

/-- the padded flag cells of one row -/
def flagCells (properties : List Str) (row : List Bool) : List Str :=
  ((properties.map (·.length)).zip (row.map sym)).map fun (w, c) => ljust w c

/-- width of the object column -/
def objWidth (objects : List Str) : Nat := objects.foldl (fun m o => max m o.length) 0

theorem dumpTable_eq (indent : Nat) (objects properties : List Str) (bools : List (List Bool)) :
    dumpTable indent objects properties bools =
      rstripBy isSpace (unlines
        (fmtLine indent (objWidth objects :: properties.map (·.length)) ([] :: properties) ::
          (objects.zip bools).map fun (o, row) =>
            fmtLine indent (objWidth objects :: properties.map (·.length)) (o :: row.map sym))) := rfl

theorem ljust_length (c : Str) : ljust c.length c = c := by simp [ljust]

theorem zip_ljust_self (p : List Str) :
    ((p.map (·.length)).zip p).map (fun (w, c) => ljust w c) = p := by
  induction p with
  | nil => rfl
  | cons x xs ih => simp only [List.map_cons, List.zip_cons_cons, ljust_length, ih]

theorem fmtLine_header (indent W : Nat) {p : List Str} (hp : p ≠ []) :
    fmtLine indent (W :: p.map (·.length)) ([] :: p) =
      (List.replicate indent ' ' ++ List.replicate W ' ') ++
        (['|'] ++ joinWith ['|'] p ++ ['|']) := by
  cases p with
  | nil => contradiction
  | cons x xs =>
    unfold fmtLine
    rw [List.zip_cons_cons, List.map_cons, zip_ljust_self, joinWith_cons_cons]
    simp only [ljust, List.length_nil, Nat.sub_zero, List.nil_append, List.append_assoc,
      List.cons_append]

theorem fmtLine_row (indent W : Nat) (o : Str) {p : List Str} {row : List Bool}
    (h : flagCells p row ≠ []) :
    fmtLine indent (W :: p.map (·.length)) (o :: row.map sym) =
      List.replicate indent ' ' ++
        (ljust W o ++ '|' :: (joinWith ['|'] (flagCells p row) ++ ['|'])) := by
  unfold fmtLine
  rw [List.zip_cons_cons, List.map_cons]
  change List.replicate indent ' ' ++ joinWith ['|'] (ljust W o :: flagCells p row) ++ ['|'] = _
  cases hc : flagCells p row with
  | nil => exact absurd hc h
  | cons x xs => rw [joinWith_cons_cons]; simp

theorem mem_ljust {ch : Char} {w : Nat} {c : Str} (h : ch ∈ ljust w c) : ch ∈ c ∨ ch = ' ' := by
  simp only [ljust, List.mem_append, List.mem_replicate] at h
  tauto

theorem not_mem_fmtLine {ch : Char} (hsp : ch ≠ ' ') (hbar : ch ≠ '|') (indent : Nat)
    (wd : List Nat) {cells : List Str} (h : ∀ c ∈ cells, ch ∉ c) :
    ch ∉ fmtLine indent wd cells := by
  unfold fmtLine
  simp only [List.mem_append, List.mem_replicate, List.mem_singleton, not_or]
  refine ⟨⟨by tauto, ?_⟩, hbar⟩
  apply not_mem_joinWith (by simpa using hbar)
  intro x hx
  simp only [List.mem_map, Prod.exists] at hx
  obtain ⟨w, c, hwc, rfl⟩ := hx
  intro hm
  rcases mem_ljust hm with hm | hm
  · exact h c (List.of_mem_zip hwc).2 hm
  · exact hsp hm

theorem not_mem_sym {ch : Char} (hx : ch ≠ 'X') (b : Bool) : ch ∉ sym b := by
  cases b <;> simp [sym, hx]

/-! ### flag cells -/

theorem flagCells_cons (p : Str) (ps : List Str) (b : Bool) (bs : List Bool) :
    flagCells (p :: ps) (b :: bs) = ljust p.length (sym b) :: flagCells ps bs := by
  simp [flagCells]

theorem flagCells_spec {ps : List Str} {row : List Bool} (hp : ∀ p ∈ ps, p ≠ []) :
    ∀ cell ∈ flagCells ps row, cell ≠ [] ∧ ∀ c ∈ cell, c = 'X' ∨ c = ' ' := by
  intro cell hcell
  simp only [flagCells, List.mem_map, Prod.exists] at hcell
  obtain ⟨w, c, hwc, rfl⟩ := hcell
  obtain ⟨hw, hc⟩ := List.of_mem_zip hwc
  simp only [List.mem_map] at hw hc
  obtain ⟨p, hpm, rfl⟩ := hw
  obtain ⟨b, _, rfl⟩ := hc
  have hlen : 0 < p.length := List.length_pos_iff.2 (hp p hpm)
  constructor
  · cases b
    · simp only [ljust, sym, Bool.false_eq_true, if_false, List.nil_append, List.length_nil]
      intro h
      have := congrArg List.length h
      simp only [List.length_replicate, List.length_nil] at this; omega
    · simp [ljust, sym]
  · intro ch hch
    rcases mem_ljust hch with h | h
    · cases b <;> simp_all [sym]
    · exact Or.inr h

theorem strip_sym (w : Nat) (b : Bool) : (!(strip (ljust w (sym b))).isEmpty) = b := by
  rw [strip_ljust]
  · cases b <;> rfl
  · cases b <;> simp [sym]; decide
  · cases b <;> simp [sym]; decide

theorem decode_flagCells {ps : List Str} {row : List Bool} (h : row.length = ps.length) :
    (flagCells ps row).map (fun f => !(strip f).isEmpty) = row := by
  induction ps generalizing row with
  | nil =>
    cases row with
    | nil => rfl
    | cons => simp at h
  | cons p ps ih =>
    cases row with
    | nil => simp at h
    | cons b bs =>
      rw [flagCells_cons, List.map_cons, strip_sym, ih (by simpa using h)]

theorem flagCells_ne_nil {ps : List Str} {row : List Bool} (hp : ps ≠ [])
    (h : row.length = ps.length) : flagCells ps row ≠ [] := by
  cases ps with
  | nil => contradiction
  | cons p ps =>
    cases row with
    | nil => simp at h
    | cons b bs => simp [flagCells_cons]

/-! ### processing single lines -/

theorem getLast?_bar_nonspace (s : Str) : ∀ c ∈ (s ++ ['|']).getLast?, isSpace c = false := by
  intro c hc
  rw [List.getLast?_append_of_ne_nil _ (by simp)] at hc
  simp at hc; subst hc; decide

/-- header line as seen by the loader after comment removal and `strip()` -/
theorem load_header_line (indent W : Nat) {p : List Str} (hp : p ≠ []) (hl : ∀ x ∈ p, TableLabel x) :
    strip (partitionChar '#' (fmtLine indent (W :: p.map (·.length)) ([] :: p))).1 =
      ['|'] ++ joinWith ['|'] p ++ ['|'] := by
  have hno : '#' ∉ fmtLine indent (W :: p.map (·.length)) ([] :: p) := by
    apply not_mem_fmtLine (by decide) (by decide)
    intro c hc
    rcases List.mem_cons.1 hc with rfl | hc
    · simp
    · exact (hl c hc).2.2.2.2.2
  rw [partitionChar_nosep hno, fmtLine_header indent W hp]
  have := stripBy_pad (p := isSpace) (a := List.replicate indent ' ' ++ List.replicate W ' ')
    (b := []) (s := ['|'] ++ joinWith ['|'] p ++ ['|'])
    (by
      intro c hc
      simp only [List.mem_append, List.mem_replicate] at hc
      rcases hc with hc | hc <;> (rw [hc.2]; exact isSpace_space))
    (by simp) (by simp; decide) (getLast?_bar_nonspace _)
  simpa [strip] using this

theorem stripBar_header {p : List Str} (hp : p ≠ []) (hl : ∀ x ∈ p, TableLabel x) :
    stripBar (['|'] ++ joinWith ['|'] p ++ ['|']) = joinWith ['|'] p := by
  cases p with
  | nil => contradiction
  | cons x xs =>
    apply stripBy_pad (by simp) (by simp)
    · rw [head?_joinWith (hl x (by simp)).1]
      intro c hc
      have hm := List.mem_of_mem_head? hc
      have := (hl x (by simp)).2.2.2.2.1
      simp only [beq_eq_false_iff_ne, ne_eq]
      rintro rfl; exact this hm
    · apply getLast?_joinWith (P := fun c => (c == '|') = false)
      intro l hlm
      refine ⟨(hl l hlm).1, ?_⟩
      intro c hc
      have hm := List.mem_of_getLast? hc
      have := (hl l hlm).2.2.2.2.1
      simp only [beq_eq_false_iff_ne, ne_eq]
      rintro rfl; exact this hm

/-- object line as seen by the loader after comment removal and `strip()` -/
theorem load_row_line (indent W : Nat) {o : Str} (ho : TableLabel o) {p : List Str} {row : List Bool}
    (h : flagCells p row ≠ []) :
    strip (partitionChar '#' (fmtLine indent (W :: p.map (·.length)) (o :: row.map sym))).1 =
      ljust W o ++ '|' :: (joinWith ['|'] (flagCells p row) ++ ['|']) := by
  have hno : '#' ∉ fmtLine indent (W :: p.map (·.length)) (o :: row.map sym) := by
    apply not_mem_fmtLine (by decide) (by decide)
    intro c hc
    rcases List.mem_cons.1 hc with rfl | hc
    · exact ho.2.2.2.2.2
    · simp only [List.mem_map] at hc
      obtain ⟨b, _, rfl⟩ := hc
      exact not_mem_sym (by decide) b
  rw [partitionChar_nosep hno, fmtLine_row indent W o h]
  have := stripBy_pad (p := isSpace) (a := List.replicate indent ' ')
    (b := []) (s := ljust W o ++ '|' :: (joinWith ['|'] (flagCells p row) ++ ['|']))
    (by intro c hc; rw [List.eq_of_mem_replicate hc]; exact isSpace_space)
    (by simp) ?_ ?_
  · simpa [strip] using this
  · have hne : ljust W o ≠ [] := by simp [ljust, ho.1]
    rw [List.head?_append_of_ne_nil _ hne]
    simp only [ljust]
    rw [List.head?_append_of_ne_nil _ ho.1]
    exact ho.2.1
  · intro c hc
    have : (ljust W o ++ '|' :: (joinWith ['|'] (flagCells p row) ++ ['|'])).getLast? = some '|' := by
      rw [← List.cons_append, ← List.append_assoc, List.getLast?_append_of_ne_nil _ (by simp)]
      rfl
    rw [this] at hc
    cases hc; decide

/-- the loader's treatment of an object line -/
theorem load_row_parse (W : Nat) {o : Str} (ho : TableLabel o) {p : List Str} {row : List Bool}
    (hp : p ≠ []) (hpl : ∀ x ∈ p, x ≠ []) (hlen : row.length = p.length) :
    (let (obj, _, flags) := partitionChar '|'
        (ljust W o ++ '|' :: (joinWith ['|'] (flagCells p row) ++ ['|']));
      (strip obj, (splitChar '|' (stripBar flags)).map fun f => !(strip f).isEmpty)) = (o, row) := by
  have hbar : '|' ∉ ljust W o := by
    intro hm
    rcases mem_ljust hm with hm | hm
    · exact ho.2.2.2.2.1 hm
    · exact absurd hm (by decide)
  rw [partitionChar_append_sep hbar]
  simp only []
  rw [strip_ljust W ho.2.1 ho.2.2.1]
  have hspec := flagCells_spec (row := row) hpl
  have hne := flagCells_ne_nil hp hlen
  have hnb : ∀ cell ∈ flagCells p row, '|' ∉ cell := by
    intro cell hc hm
    rcases (hspec cell hc).2 _ hm with h | h <;> exact absurd h (by decide)
  have hstrip : stripBar (joinWith ['|'] (flagCells p row) ++ ['|']) =
      joinWith ['|'] (flagCells p row) := by
    have := stripBy_pad (p := (· == '|')) (a := []) (b := ['|'])
      (s := joinWith ['|'] (flagCells p row)) (by simp) (by simp) ?_ ?_
    · simpa [stripBar] using this
    · cases hc : flagCells p row with
      | nil => exact absurd hc hne
      | cons x xs =>
        have hx : x ∈ flagCells p row := by simp [hc]
        rw [head?_joinWith (hspec x hx).1]
        intro c hcm
        have hm := List.mem_of_mem_head? hcm
        simp only [beq_eq_false_iff_ne, ne_eq]
        rintro rfl; exact hnb x hx hm
    · apply getLast?_joinWith (P := fun c => (c == '|') = false)
      intro l hlm
      refine ⟨(hspec l hlm).1, ?_⟩
      intro c hcm
      have hm := List.mem_of_getLast? hcm
      simp only [beq_eq_false_iff_ne, ne_eq]
      rintro rfl; exact hnb l hlm hm
  rw [hstrip, splitChar_joinWith hne hnb, decode_flagCells hlen]

/-! ### the whole table -/

theorem fmtLine_last (indent : Nat) (wd : List Nat) (cells : List Str) :
    fmtLine indent wd cells ≠ [] ∧ ∀ c ∈ (fmtLine indent wd cells).getLast?, isSpace c = false := by
  unfold fmtLine
  exact ⟨by simp, getLast?_bar_nonspace _⟩

theorem loadTable_dumpTable {objects properties : List Str} {bools : List (List Bool)}
    (hr : Rect objects properties bools) (ho : ∀ o ∈ objects, TableLabel o)
    (hp : ∀ p ∈ properties, TableLabel p) (indent : Nat) :
    loadTable (dumpTable indent objects properties bools) = .ok (objects, properties, bools) := by
  obtain ⟨hone, hpne, hlen, hrow⟩ := hr
  set W := objWidth objects with hW
  set wd := W :: properties.map (·.length) with hwd
  set H := fmtLine indent wd ([] :: properties) with hH
  set R := (objects.zip bools).map (fun (x : Str × List Bool) =>
    fmtLine indent wd (x.1 :: x.2.map sym)) with hR
  have hform : ∀ l ∈ H :: R, ∃ cells, l = fmtLine indent wd cells ∧ ∀ c ∈ cells, '\n' ∉ c := by
    intro l hl
    rcases List.mem_cons.1 hl with rfl | hl
    · refine ⟨_, rfl, ?_⟩
      intro c hc
      rcases List.mem_cons.1 hc with rfl | hc
      · simp
      · exact (hp c hc).2.2.2.1
    · simp only [hR, List.mem_map] at hl
      obtain ⟨⟨o, row⟩, hx, rfl⟩ := hl
      refine ⟨_, rfl, ?_⟩
      intro c hc
      rcases List.mem_cons.1 hc with rfl | hc
      · exact (ho _ (List.of_mem_zip hx).1).2.2.2.1
      · simp only [List.mem_map] at hc
        obtain ⟨b, _, rfl⟩ := hc
        exact not_mem_sym (by decide) b
  have hsrc : dumpTable indent objects properties bools = joinWith ['\n'] (H :: R) := by
    rw [dumpTable_eq, unlines_eq_joinWith (by simp), rstripBy_append_right (by simp [isSpace_nl])]
    apply rstripBy_of_last
    apply getLast?_joinWith
    intro l hl
    obtain ⟨cells, rfl, _⟩ := hform l hl
    exact fmtLine_last _ _ _
  have hsplit : splitChar '\n' (joinWith ['\n'] (H :: R)) = H :: R := by
    apply splitChar_joinWith (by simp)
    intro l hl
    obtain ⟨cells, rfl, hc⟩ := hform l hl
    exact not_mem_fmtLine (by decide) (by decide) _ _ hc
  have hrowlen : ∀ x ∈ objects.zip bools, x.2.length = properties.length := fun x hx =>
    hrow _ (List.of_mem_zip (a := x.1) (b := x.2) hx).2
  have hpl : ∀ x ∈ properties, x ≠ [] := fun x hx => (hp x hx).1
  have hRg : R.map (fun l => strip (partitionChar '#' l).1) =
      (objects.zip bools).map (fun (x : Str × List Bool) =>
        ljust W x.1 ++ '|' :: (joinWith ['|'] (flagCells properties x.2) ++ ['|'])) := by
    rw [hR, List.map_map]
    apply List.map_congr_left
    intro x hx
    exact load_row_line indent W (ho _ (List.of_mem_zip (a := x.1) (b := x.2) hx).1)
      (flagCells_ne_nil hpne (hrowlen x hx))
  have hlines : ((splitChar '\n' (dumpTable indent objects properties bools)).map
      (fun l => strip (partitionChar '#' l).1)).filter (!·.isEmpty) =
      (['|'] ++ joinWith ['|'] properties ++ ['|']) ::
      (objects.zip bools).map (fun (x : Str × List Bool) =>
        ljust W x.1 ++ '|' :: (joinWith ['|'] (flagCells properties x.2) ++ ['|'])) := by
    rw [hsrc, hsplit, List.map_cons, hRg, load_header_line indent W hpne hp]
    apply List.filter_eq_self.2
    intro l hl
    rcases List.mem_cons.1 hl with rfl | hl
    · simp
    · simp only [List.mem_map] at hl
      obtain ⟨x, _, rfl⟩ := hl
      simp
  have htable : ((objects.zip bools).map (fun (x : Str × List Bool) =>
        ljust W x.1 ++ '|' :: (joinWith ['|'] (flagCells properties x.2) ++ ['|']))).map
      (fun objflags =>
        let (obj, _, flags) := partitionChar '|' objflags
        (strip obj, (splitChar '|' (stripBar flags)).map fun f => !(strip f).isEmpty)) =
      objects.zip bools := by
    rw [List.map_map]
    conv_rhs => rw [← List.map_id (objects.zip bools)]
    apply List.map_congr_left
    intro x hx
    exact load_row_parse W (ho _ (List.of_mem_zip (a := x.1) (b := x.2) hx).1) hpne hpl
      (hrowlen x hx)
  have hprops : (splitChar '|' (stripBar (['|'] ++ joinWith ['|'] properties ++ ['|']))).map strip =
      properties := by
    rw [stripBar_header hpne hp, splitChar_joinWith hpne (fun x hx => (hp x hx).2.2.2.2.1),
      map_strip_lines (fun x hx => (hp x hx).cxt)]
  unfold loadTable
  simp only [hlines, htable, hprops]
  have hz : (objects.zip bools).isEmpty = false := by
    cases objects with
    | nil => contradiction
    | cons o os =>
      cases bools with
      | nil => simp at hlen
      | cons b bs => rfl
  rw [hz]
  simp only [Bool.false_eq_true, if_false]
  rw [List.map_fst_zip (by omega), List.map_snd_zip (by omega)]

end FCA
