"""Regenerate lean/FCA/Generated/*.lean from the source under test ($VERIF_REPO, default /repo).

Translated on every run:
  * the eight order / relation predicates of lattice_members.py and the `common` expressions of
    Concept.join/meet (Python expression AST -> Lean term; Python truthiness and chained-comparison
    semantics), -> Generated/Predicates.lean
  * the pattern / rank / kind table the metaclass of junctors.py builds from the docstrings (read from
    the imported module), -> Generated/Junctors.lean
  * the constant tables of the formats (cxt / csv symbols, suffix map, dumps_rstrip flags) and CPython's
    str.isspace() code-point set, -> Generated/Formats.lean

Anything outside the supported subset makes the translator *decline* (status 'declined'): the property
then rests on the correspondence tie alone, which main.py records in the evidence.
"""
import ast
import importlib
import os
import sys

HERE = os.path.dirname(os.path.abspath(__file__))
VERIF = os.path.dirname(HERE)
GEN = os.environ.get('VERIF_GEN_DIR') or os.path.join(VERIF, 'lean', 'FCA', 'Generated')   # override: development only
REPO = os.environ.get('VERIF_REPO', '/repo')

PREDICATES = ['implies', 'subsumes', 'properly_implies', 'properly_subsumes',
              'incompatible_with', 'complement_of', 'subcontrary_with', 'orthogonal_to']


class Decline(Exception):
    pass


ATTR = {'self._extent': 'x', 'other._extent': 'y', 'self.lattice.supremum._extent': 't'}
BINOP = {ast.BitAnd: '&&&', ast.BitOr: '|||', ast.BitXor: '^^^'}


def dotted(node):
    if isinstance(node, ast.Name):
        return node.id
    if isinstance(node, ast.Attribute):
        return dotted(node.value) + '.' + node.attr
    raise Decline('unsupported expression %s' % ast.dump(node))


class Tr:
    """Symbolic evaluator for the predicate / join / meet bodies of lattice_members.py. Values are pairs (kind, term):
    'nat' (a bit set as Lean term), 'bool', 'path' (a dotted attribute path rooted at self / other, aliases resolved),
    'closure' (`self.lattice._context._extents.double(<nat>)`), 'member' (`self.lattice._mapping[<closure>]`).
    Calls of private helpers defined in the same module (`self._h(...)`, `_h(...)`: assignments then `return`) are inlined."""

    DOUBLE = 'self.lattice._context._extents.double'
    MAPPING = 'self.lattice._mapping'

    def __init__(self, helpers=None, env=None, depth=0):
        self.env = dict(env or {})
        self.helpers = helpers or {}
        self.depth = depth

    def path(self, node):
        """dotted path of a Name / Attribute chain with local aliases resolved, or None"""
        if isinstance(node, ast.Name):
            if node.id in self.env:
                kind, val = self.env[node.id]
                return val if kind == 'path' else None
            return node.id
        if isinstance(node, ast.Attribute):
            base = self.path(node.value)
            return None if base is None else base + '.' + node.attr
        return None

    def value(self, node):
        if isinstance(node, ast.Name) and node.id in self.env:
            return self.env[node.id]
        if isinstance(node, (ast.Attribute, ast.Name)):
            path = self.path(node)
            if path is None:
                raise Decline('unsupported attribute access %s' % ast.unparse(node))
            if path in ATTR:
                return 'nat', ATTR[path]
            if path.split('.')[0] in ('self', 'other'):
                return 'path', path
            raise Decline('unsupported name %s' % path)
        if isinstance(node, ast.BinOp) and type(node.op) in BINOP:
            (ka, a), (kb, b) = self.value(node.left), self.value(node.right)
            if ka != 'nat' or kb != 'nat':
                raise Decline('bit operation on something that is not a bit set')
            return 'nat', '(%s %s %s)' % (a, BINOP[type(node.op)], b)
        if isinstance(node, ast.Compare):
            vals = [self.value(t) for t in [node.left] + list(node.comparators)]
            if any(k != 'nat' for k, _ in vals):
                raise Decline('comparison of something that is not a bit set')
            parts = []
            for (_, a), op, (_, b) in zip(vals, node.ops, vals[1:]):
                if isinstance(op, ast.Eq):
                    parts.append('(%s == %s)' % (a, b))
                elif isinstance(op, ast.NotEq):
                    parts.append('(%s != %s)' % (a, b))
                else:
                    raise Decline('unsupported comparison %s' % type(op).__name__)
            return 'bool', ('(' + ' && '.join(parts) + ')' if len(parts) > 1 else parts[0])
        if isinstance(node, ast.UnaryOp) and isinstance(node.op, ast.Not):
            return 'bool', '(!%s)' % self.truthy(node.operand)
        if isinstance(node, ast.BoolOp):
            op = ' && ' if isinstance(node.op, ast.And) else ' || '
            # truthiness of `a and b` / `a or b` is the conjunction / disjunction of the truthinesses
            return 'bool', '(' + op.join(self.truthy(v) for v in node.values) + ')'
        if isinstance(node, ast.Subscript):
            if self.path(node.value) == self.MAPPING:
                kind, term = self.value(node.slice)
                if kind == 'closure':
                    return 'member', term
            raise Decline('unsupported subscript %s' % ast.unparse(node))
        if isinstance(node, ast.Call) and not node.keywords:
            fpath = self.path(node.func)
            if fpath == self.DOUBLE and len(node.args) == 1:
                kind, term = self.value(node.args[0])
                if kind != 'nat':
                    raise Decline('closure of something that is not a bit set')
                return 'closure', term
            name = None
            if fpath is not None and fpath.startswith('self.') and fpath.count('.') == 1:
                name, bound_self = fpath.split('.')[1], True
            elif isinstance(node.func, ast.Name):
                name, bound_self = node.func.id, False
            if name and name.startswith('_') and name in self.helpers and self.depth < 4:
                fn = self.helpers[name]
                params = [a.arg for a in fn.args.args]
                if fn.args.vararg or fn.args.kwarg or fn.args.kwonlyargs or fn.args.defaults:
                    raise Decline('helper %s has an unsupported signature' % name)
                env = {}
                if bound_self:
                    if not params or params[0] != 'self':
                        raise Decline('helper %s is not a method' % name)
                    params = params[1:]
                if len(params) != len(node.args):
                    raise Decline('helper %s called with %d arguments' % (name, len(node.args)))
                for prm, arg in zip(params, node.args):
                    env[prm] = self.value(arg)
                return Tr(self.helpers, env, self.depth + 1).body(fn)
            raise Decline('unsupported call %s' % ast.unparse(node)[:60])
        raise Decline('unsupported expression %s' % type(node).__name__)

    def truthy(self, node):
        kind, term = self.value(node)
        if kind == 'bool':
            return term
        if kind == 'nat':
            return '(%s != 0)' % term
        raise Decline('truth value of %s' % kind)

    def body(self, fn):
        """assignments, then `return expr`: the symbolic value returned"""
        body = [s for s in fn.body if not (isinstance(s, ast.Expr) and isinstance(getattr(s, 'value', None), ast.Constant))]
        if not body or not isinstance(body[-1], ast.Return) or body[-1].value is None:
            raise Decline('no final return')
        for st in body[:-1]:
            if isinstance(st, ast.Assign) and len(st.targets) == 1 and isinstance(st.targets[0], ast.Name):
                self.env[st.targets[0].id] = self.value(st.value)
            else:
                raise Decline('unsupported statement %s' % type(st).__name__)
        return self.value(body[-1].value)

    def function(self, fn, want):
        kind, term = self.body(fn)
        if want == 'bool':
            if kind == 'bool':
                return term
            if kind == 'nat':
                return '(%s != 0)' % term
            raise Decline('expected a truth value, got %s' % kind)
        if kind != want:
            raise Decline('expected %s, got %s' % (want, kind))
        return term


def find_methods(tree):
    out = {}
    for node in ast.walk(tree):
        if isinstance(node, ast.ClassDef):
            for f in node.body:
                if isinstance(f, ast.FunctionDef):
                    out[(node.name, f.name)] = f
    return out


def gen_predicates():
    src = open(os.path.join(REPO, 'concepts', 'lattice_members.py')).read()
    methods = find_methods(ast.parse(src))
    by_name = {}
    for (cls, name), f in methods.items():
        by_name.setdefault(name, []).append((cls, f))
    lines = ['/- GENERATED by harness/extract.py from concepts/lattice_members.py — do not edit.',
             '   x = self._extent, y = other._extent, t = self.lattice.supremum._extent -/',
             'namespace FCA.Generated', '']
    helpers = {}
    tree0 = ast.parse(src)
    for node in tree0.body:
        if isinstance(node, ast.FunctionDef) and node.name.startswith('_'):
            helpers[node.name] = node
        if isinstance(node, ast.ClassDef) and node.name in ('OrderableMixin', 'RelationsMixin', 'TransformableMixin', 'Concept', 'Pair'):
            for f in node.body:
                if isinstance(f, ast.FunctionDef) and f.name.startswith('_') and not f.name.startswith('__'):
                    if f.name in helpers:
                        raise Decline('two private helpers named %s' % f.name)
                    helpers[f.name] = f
    for name in PREDICATES:
        cands = [f for cls, f in by_name.get(name, []) if cls in ('OrderableMixin', 'RelationsMixin', 'Concept')]
        if len(cands) != 1:
            raise Decline('%d definitions of %s' % (len(cands), name))
        if [a.arg for a in cands[0].args.args] != ['self', 'other']:
            raise Decline('signature of %s changed' % name)
        term = Tr(helpers).function(cands[0], 'bool')
        lines.append('def %s (x y t : Nat) : Bool := %s' % (name, term))
    for name, lean in (('join', 'join_common'), ('meet', 'meet_common')):
        cands = [f for cls, f in by_name.get(name, []) if cls in ('TransformableMixin', 'Concept')]
        if len(cands) != 1:
            raise Decline('%d definitions of Concept.%s' % (len(cands), name))
        if [a.arg for a in cands[0].args.args] != ['self', 'other']:
            raise Decline('signature of %s changed' % name)
        # the result must be self.lattice._mapping[self.lattice._context._extents.double(<common>)]
        term = Tr(helpers).function(cands[0], 'member')
        lines.append('def %s (x y : Nat) : Nat := %s' % (lean, term))
    # the operator aliases must still point at the named methods
    aliases = {'__le__': 'implies', '__ge__': 'subsumes', '__lt__': 'properly_implies', '__gt__': 'properly_subsumes',
               '__or__': 'join', '__and__': 'meet'}
    tree = ast.parse(src)
    found = {}
    for node in ast.walk(tree):
        if isinstance(node, ast.ClassDef):
            for st in node.body:
                if isinstance(st, ast.Assign) and isinstance(st.targets[0], ast.Name) and isinstance(st.value, ast.Name):
                    found[st.targets[0].id] = st.value.id
    for k, v in aliases.items():
        if found.get(k) != v:
            raise Decline('operator %s is no longer an alias of %s' % (k, v))
    lines += ['', 'end FCA.Generated', '']
    return '\n'.join(lines)


def lean_str(s):
    return '"' + s.replace('\\', '\\\\').replace('"', '\\"') + '"'


def gen_junctors():
    j = importlib.import_module('concepts.junctors')
    entries = {'unary': [], 'binary': []}
    for name in j.__all__:
        cls = getattr(j, name)
        if not hasattr(cls, 'pattern'):
            continue
        if cls.binary:
            code = sum(bit for bit, pair in ((1, (True, True)), (2, (True, False)), (4, (False, True)), (8, (False, False)))
                       if pair in cls.pattern)
            entries['binary'].append((cls.index, name, cls.kind, cls.order, code))
        else:
            code = sum(bit for bit, v in ((1, True), (2, False)) if v in cls.pattern)
            entries['unary'].append((cls.index, name, cls.kind, cls.order, code))
    def fmt(l):
        return ', '.join('⟨%s, %s, %d, %d⟩' % (lean_str(n), lean_str(k), o, c) for _, n, k, o, c in sorted(l))
    # the Replication -> Implication swap must still be what __call__ does
    r = j.Relation('L', 'R', [(True, True), (True, False), (False, False)])
    swap_ok = (type(r).__name__ == 'Implication' and r.left == 'R' and r.right == 'L')
    lines = ['import FCA.Model.Junctors',
             '/- GENERATED by harness/extract.py from the classes the metaclass of concepts/junctors.py built — do not edit. -/',
             'namespace FCA.Generated', '',
             'def table : JTable where',
             '  unary := [%s]' % fmt(entries['unary']),
             '  binary := [%s]' % fmt(entries['binary']), '',
             '/-- `Relation(l, r, pairs)` of a replication pattern yields `Implication(r, l)` -/',
             'def replicationSwaps : Bool := %s' % ('true' if swap_ok else 'false'), '',
             'end FCA.Generated', '']
    return '\n'.join(lines)


def gen_formats():
    f = importlib.import_module('concepts.formats')
    cxt = importlib.import_module('concepts.formats.cxt')
    csvc = importlib.import_module('concepts.formats.csv_context')
    ws = [c for c in range(sys.maxunicode + 1) if chr(c).isspace()]
    def s(x):
        return lean_str(str(x))
    suffix = sorted(f.Format.by_suffix.items())
    rstrip = sorted((n, bool(c.dumps_rstrip)) for n, c in f.Format._map.items())
    lines = ['/- GENERATED by harness/extract.py from concepts/formats/*.py and the running CPython — do not edit. -/',
             'namespace FCA.Generated', '',
             'def pyWhitespace : List Nat := [%s]' % ', '.join('0x%X' % c for c in ws),
             'def cxtSymbols : List (Bool × String) := [%s]' % ', '.join('(%s, %s)' % (str(k).lower(), s(v)) for k, v in sorted(cxt.SYMBOLS.items())),
             'def csvSymbols : List (Bool × Bool × String) := [%s]' % ', '.join(
                 '(%s, %s, %s)' % (str(a).lower(), str(b).lower(), s(v)) for a, d in sorted(csvc.SYMBOLS.items()) for b, v in sorted(d.items())),
             'def csvValueOrder : List Bool := [%s]' % ', '.join(str(k).lower() for k in csvc.VALUES),
             'def bySuffix : List (String × String) := [%s]' % ', '.join('(%s, %s)' % (s(a), s(b)) for a, b in suffix),
             'def dumpsRstrip : List (String × Bool) := [%s]' % ', '.join('(%s, %s)' % (s(a), str(b).lower()) for a, b in rstrip),
             '', 'end FCA.Generated', '']
    return '\n'.join(lines)


# ---------------------------------------------------------------- the derivation loops of matrices.py

class LoopTr:
    """Translate one `while var:` loop body of `Vectors._pair_with` (straight-line assignments, augmented
    assignments and one-armed `if not x:` blocks over ints and `arr[i]`) into a Lean state transformer
    `fun (var i acc : Nat) => (var', i', acc')`. `(x & -x).bit_length() - 1` is the trailing-zero idiom `tz x`."""

    AUG = {ast.BitAnd: '&&&', ast.BitOr: '|||', ast.Add: '+', ast.RShift: '>>>', ast.Sub: '-'}

    def __init__(self, arrays):
        self.arrays = arrays      # python name -> lean name

    def expr(self, node, env):
        if isinstance(node, ast.Constant) and isinstance(node.value, int) and node.value >= 0:
            return str(node.value)
        if isinstance(node, ast.Name):
            if node.id in env:
                return env[node.id]
            raise Decline('unknown variable %s' % node.id)
        if isinstance(node, ast.Subscript) and isinstance(node.value, ast.Name) and node.value.id in self.arrays:
            return '%s[%s]!' % (self.arrays[node.value.id], self.expr(node.slice, env))
        # (x & -x).bit_length() - 1
        if (isinstance(node, ast.BinOp) and isinstance(node.op, ast.Sub) and isinstance(node.right, ast.Constant) and node.right.value == 1
                and isinstance(node.left, ast.Call) and isinstance(node.left.func, ast.Attribute) and node.left.func.attr == 'bit_length'
                and not node.left.args):
            inner = node.left.func.value
            if (isinstance(inner, ast.BinOp) and isinstance(inner.op, ast.BitAnd) and isinstance(inner.left, ast.Name)
                    and isinstance(inner.right, ast.UnaryOp) and isinstance(inner.right.op, ast.USub)
                    and isinstance(inner.right.operand, ast.Name) and inner.right.operand.id == inner.left.id):
                return '(tz %s)' % self.expr(inner.left, env)
            raise Decline('unsupported bit_length idiom')
        if isinstance(node, ast.BinOp) and type(node.op) in self.AUG:
            return '(%s %s %s)' % (self.expr(node.left, env), self.AUG[type(node.op)], self.expr(node.right, env))
        raise Decline('unsupported loop expression %s' % ast.dump(node)[:80])

    def block(self, stmts, env, lines, indent):
        """Emit `let` lines; returns the updated env (SSA by shadowing)."""
        for st in stmts:
            if isinstance(st, ast.Assign) and len(st.targets) == 1 and isinstance(st.targets[0], ast.Name):
                name = st.targets[0].id
                lines.append('%slet %s := %s' % (indent, name, self.expr(st.value, env)))
                env = dict(env, **{name: name})
            elif isinstance(st, ast.AugAssign) and isinstance(st.target, ast.Name) and type(st.op) in self.AUG:
                name = st.target.id
                lines.append('%slet %s := %s %s %s' % (indent, name, self.expr(st.target, env), self.AUG[type(st.op)], self.expr(st.value, env)))
                env = dict(env, **{name: name})
            elif isinstance(st, ast.If):
                test = st.test
                if isinstance(test, ast.UnaryOp) and isinstance(test.op, ast.Not):
                    cond = '%s = 0' % self.expr(test.operand, env)
                else:
                    cond = '%s ≠ 0' % self.expr(test, env)

                def assigned(body):
                    names = []
                    for x in body:
                        if isinstance(x, ast.Assign) and len(x.targets) == 1 and isinstance(x.targets[0], ast.Name):
                            names.append(x.targets[0].id)
                        elif isinstance(x, ast.AugAssign) and isinstance(x.target, ast.Name):
                            names.append(x.target.id)
                        else:
                            raise Decline('unsupported statement inside an if of a loop')
                    return names
                a_then, a_else = assigned(st.body), assigned(st.orelse)
                changed = sorted(set(a_then) | set(a_else))
                for k in changed:
                    # a variable first assigned inside the if must be assigned on both paths
                    if k not in env and not (k in a_then and k in a_else):
                        raise Decline('variable %s assigned on one path of an if only' % k)
                inner_t, inner_e = [], []
                env_t = self.block(st.body, env, inner_t, indent + '    ')
                env_e = self.block(st.orelse, env, inner_e, indent + '    ')
                tup = '(%s)' % ', '.join(changed) if len(changed) > 1 else changed[0]
                tup_t = '(%s)' % ', '.join(env_t[k] for k in changed) if len(changed) > 1 else env_t[changed[0]]
                tup_e = '(%s)' % ', '.join(env_e[k] for k in changed) if len(changed) > 1 else env_e[changed[0]]
                lines.append('%slet %s :=' % (indent, tup))
                lines.append('%s  if %s then' % (indent, cond))
                lines += inner_t
                lines.append('%s    %s' % (indent, tup_t))
                lines.append('%s  else' % indent)
                lines += inner_e
                lines.append('%s    %s' % (indent, tup_e))
                env = dict(env, **{k: k for k in changed})
            else:
                raise Decline('unsupported loop statement %s' % type(st).__name__)
        return env

    def loop(self, node):
        if not isinstance(node.test, ast.Name):
            raise Decline('loop test is not a plain variable')
        var = node.test.id
        accs = [st.target.id for st in ast.walk(node) if isinstance(st, ast.AugAssign) and isinstance(st.op, ast.BitAnd)]
        idxs = [st.target.id for st in ast.walk(node) if isinstance(st, ast.AugAssign) and isinstance(st.op, ast.Add)]
        arrs = [n.value.id for n in ast.walk(node) if isinstance(n, ast.Subscript) and isinstance(n.value, ast.Name)]
        if len(set(accs)) != 1 or len(set(idxs)) != 1 or len(set(arrs)) != 1 or arrs[0] not in self.arrays:
            raise Decline('loop does not have one accumulator, one index and one array')
        acc, idx, arr = accs[0], idxs[0], arrs[0]
        lines = []
        env = self.block(node.body, {var: var, idx: idx, acc: acc}, lines, '  ')
        return {'var': var, 'idx': idx, 'acc': acc, 'arr': arr,
                'body': '\n'.join(lines) + '\n  (%s, %s, %s)' % (var, idx, acc)}


def gen_loops():
    src = open(os.path.join(REPO, 'concepts', 'matrices.py')).read()
    tree = ast.parse(src)
    pw = [f for f in ast.walk(tree) if isinstance(f, ast.FunctionDef) and f.name == '_pair_with']
    if len(pw) != 1:
        raise Decline('no unique Vectors._pair_with')
    closures = {f.name: f for f in pw[0].body if isinstance(f, ast.FunctionDef)}
    out = ['import FCA.Model.Galois',
           '/- GENERATED by harness/extract.py from the closures of Vectors._pair_with in concepts/matrices.py — do not edit.',
           '   Each `while` loop body is a state transformer on (loop variable, i, accumulator). -/',
           'namespace FCA.Generated', '']
    tr = LoopTr({'other': 'other', 'self': 'self'})
    shapes = {}
    for name in ('prime', 'double', 'doubleprime'):
        if name not in closures:
            raise Decline('closure %s missing' % name)
        fn = closures[name]
        body = [st for st in fn.body if not (isinstance(st, ast.Expr) and isinstance(getattr(st, 'value', None), ast.Constant))]
        loops, inits, k = [], {}, 0
        skeleton = []
        for st in body:
            if isinstance(st, ast.While):
                k += 1
                info = tr.loop(st)
                lname = '%s_loop%d' % (name, k)
                out.append('def %s (other self : Array Nat) (%s %s %s : Nat) : Nat × Nat × Nat :=' % (lname, info['var'], info['idx'], info['acc']))
                out.append(info['body'])
                out.append('')
                skeleton.append(('loop', lname, info))
            elif isinstance(st, ast.Assign) and isinstance(st.targets[0], ast.Name):
                skeleton.append(('assign', st.targets[0].id, ast.unparse(st.value)))
            elif isinstance(st, ast.Return):
                skeleton.append(('return', ast.unparse(st.value)))
            else:
                raise Decline('unsupported statement in closure %s' % name)
        shapes[name] = skeleton
    # the straight-line code around the loops must be the expected one
    def shape_text(sk):
        return [(a, b if a != 'loop' else (c['var'], c['idx'], c['acc'], c['arr'])) if a != 'return' else (a, b) for a, b, *c in
                [(x[0], x[1], x[2]) if x[0] == 'loop' else (x[0], x[1], None) if x[0] == 'return' else (x[0], (x[1], x[2]), None) for x in sk]]
    want = {
        'prime': [('assign', ('prime', 'Prime')), ('assign', ('i', '0')), ('loop', ('bitset', 'i', 'prime', 'other')),
                  ('return', 'make_prime(prime)')],
        'double': [('assign', ('prime', 'Prime')), ('assign', ('i', '0')), ('loop', ('bitset', 'i', 'prime', 'other')),
                   ('assign', ('double', 'Double')), ('assign', ('i', '0')), ('loop', ('prime', 'i', 'double', 'self')),
                   ('return', 'make_double(double)')],
        'doubleprime': [('assign', ('prime', 'Prime')), ('assign', ('i', '0')), ('loop', ('bitset', 'i', 'prime', 'other')),
                        ('assign', ('bitset', 'prime')), ('assign', ('double', 'Double')), ('assign', ('i', '0')),
                        ('loop', ('bitset', 'i', 'double', 'self')), ('return', 'make_double(double), make_prime(prime)')],
    }
    for name, sk in shapes.items():
        got = []
        for x in sk:
            if x[0] == 'loop':
                got.append(('loop', (x[2]['var'], x[2]['idx'], x[2]['acc'], x[2]['arr'])))
            elif x[0] == 'assign':
                got.append(('assign', (x[1], x[2])))
            else:
                got.append(('return', x[1][1:-1] if x[1].startswith('(') and x[1].endswith(')') and x[1].count('(') > 2 else x[1]))
        if got != want[name]:
            raise Decline('closure %s: the code around the loops changed: %r' % (name, got))
    # closures as compositions of the regenerated loops (fuel = the loop variable itself)
    out += ['/-- `prime(bitset)` -/',
            'def prime (other self : Array Nat) (Prime _Double bitset : Nat) : Nat :=',
            '  iterLoop (prime_loop1 other self) bitset bitset 0 Prime', '',
            '/-- `double(bitset)` -/',
            'def double (other self : Array Nat) (Prime Double bitset : Nat) : Nat :=',
            '  let prime := iterLoop (double_loop1 other self) bitset bitset 0 Prime',
            '  iterLoop (double_loop2 other self) prime prime 0 Double', '',
            '/-- `doubleprime(bitset)` -/',
            'def doubleprime (other self : Array Nat) (Prime Double bitset : Nat) : Nat × Nat :=',
            '  let prime := iterLoop (doubleprime_loop1 other self) bitset bitset 0 Prime',
            '  let double := iterLoop (doubleprime_loop2 other self) prime prime 0 Double',
            '  (double, prime)', '',
            'end FCA.Generated', '']
    return '\n'.join(out)


class BodyTr:
    """Translate the body of a `for` loop (assignments, tuple-unpacking calls of a parameter function,
    `x &= ~y`, `a[j] = e`, `if/else`, `continue`, and one kind of emission: `yield e` or `<stack>.append(e)`)
    into a Lean function from the loop variables and the state to the new state. Statements are translated
    in continuation style: `continue` ends the body with the state as it is."""

    BIN = {ast.BitAnd: '&&&', ast.BitOr: '|||', ast.Add: '+', ast.Sub: '-'}

    def __init__(self, names, funcs, arrays, state, emit_to, strip_calls=(), reads=None, drop_names=()):
        self.names = dict(names)          # python name -> lean name (read-only values)
        self.funcs = dict(funcs)          # python callable name -> lean name
        self.arrays = set(arrays)         # mutable list state variables (Array Nat)
        self.state = list(state)          # state variables, in tuple order
        self.emit_to = emit_to            # state variable collecting the emissions
        self.strip_calls = set(strip_calls)   # identity wrappers: Objects.fromint(e) -> e
        self.reads = dict(reads or {})    # dotted read-only sequence -> lean function name
        self.drop_names = set(drop_names)     # names dropped from emitted tuples (shared references)

    def expr(self, node, env):
        if isinstance(node, ast.Constant) and isinstance(node.value, int) and not isinstance(node.value, bool) and node.value >= 0:
            return str(node.value)
        if isinstance(node, ast.Name):
            if node.id in env:
                return env[node.id]
            raise Decline('unknown variable %s' % node.id)
        if isinstance(node, ast.Tuple):
            elts = [e for e in node.elts if not (isinstance(e, ast.Name) and e.id in self.drop_names)]
            return '(%s)' % ', '.join(self.expr(e, env) for e in elts)
        if isinstance(node, ast.Subscript):
            base = dotted(node.value)
            if base in self.reads:
                return '(%s %s)' % (self.reads[base], self.expr(node.slice, env))
            if isinstance(node.value, ast.Name) and node.value.id in self.arrays and node.value.id in env:
                return '%s[%s]!' % (env[node.value.id], self.expr(node.slice, env))
            raise Decline('unsupported subscript %s' % ast.unparse(node))
        if isinstance(node, ast.Call):
            name = dotted(node.func)
            if name in self.strip_calls and len(node.args) == 1 and not node.keywords:
                return self.expr(node.args[0], env)
            if name in self.funcs and len(node.args) == 1 and not node.keywords:
                return '(%s %s)' % (self.funcs[name], self.expr(node.args[0], env))
            raise Decline('unsupported call %s' % ast.unparse(node))
        if isinstance(node, ast.BinOp) and type(node.op) in self.BIN:
            # a & ~b on non-negative a is the set difference
            if isinstance(node.op, ast.BitAnd) and isinstance(node.right, ast.UnaryOp) and isinstance(node.right.op, ast.Invert):
                return '(andNot %s %s)' % (self.expr(node.left, env), self.expr(node.right.operand, env))
            return '(%s %s %s)' % (self.expr(node.left, env), self.BIN[type(node.op)], self.expr(node.right, env))
        raise Decline('unsupported expression %s' % ast.unparse(node))

    def cond(self, node, env):
        if isinstance(node, ast.UnaryOp) and isinstance(node.op, ast.Not):
            return '%s = 0' % self.expr(node.operand, env)
        if isinstance(node, ast.Compare) and len(node.ops) == 1 and isinstance(node.ops[0], ast.Eq):
            return '%s = %s' % (self.expr(node.left, env), self.expr(node.comparators[0], env))
        return '%s ≠ 0' % self.expr(node, env)

    def final(self, env):
        return '(%s)' % ', '.join(env[v] for v in self.state)

    def block(self, stmts, env, ind):
        """Returns lines of a Lean term evaluating to the final state tuple."""
        if not stmts:
            return [ind + self.final(env)]
        st, rest = stmts[0], stmts[1:]
        if isinstance(st, ast.Continue):
            return [ind + self.final(env)]
        if isinstance(st, ast.Assign) and len(st.targets) == 1:
            tgt = st.targets[0]
            if isinstance(tgt, ast.Name):
                if tgt.id in self.state and tgt.id != self.emit_to and tgt.id not in env:
                    raise Decline('state variable %s not initialised' % tgt.id)
                line = '%slet %s := %s' % (ind, tgt.id, self.expr(st.value, env))
                return [line] + self.block(rest, dict(env, **{tgt.id: tgt.id}), ind)
            if isinstance(tgt, ast.Tuple) and all(isinstance(e, ast.Name) for e in tgt.elts):
                names = [e.id for e in tgt.elts]
                line = '%slet (%s) := %s' % (ind, ', '.join(names), self.expr(st.value, env))
                return [line] + self.block(rest, dict(env, **{n: n for n in names}), ind)
            if isinstance(tgt, ast.Subscript) and isinstance(tgt.value, ast.Name) and tgt.value.id in self.arrays:
                a = tgt.value.id
                line = '%slet %s := %s.set! %s %s' % (ind, a, env[a], self.expr(tgt.slice, env), self.expr(st.value, env))
                return [line] + self.block(rest, dict(env, **{a: a}), ind)
            raise Decline('unsupported assignment %s' % ast.unparse(st))
        if isinstance(st, ast.AugAssign) and isinstance(st.target, ast.Name) and isinstance(st.op, ast.BitAnd):
            x = st.target.id
            if isinstance(st.value, ast.UnaryOp) and isinstance(st.value.op, ast.Invert):
                line = '%slet %s := andNot %s %s' % (ind, x, env[x], self.expr(st.value.operand, env))
            else:
                line = '%slet %s := %s &&& %s' % (ind, x, env[x], self.expr(st.value, env))
            return [line] + self.block(rest, dict(env, **{x: x}), ind)
        if isinstance(st, ast.Expr):
            v = st.value
            emitted = None
            if isinstance(v, ast.Yield) and v.value is not None and self.emit_to == 'out':
                emitted = v.value
            elif (isinstance(v, ast.Call) and isinstance(v.func, ast.Attribute) and v.func.attr == 'append'
                    and isinstance(v.func.value, ast.Name) and v.func.value.id == 'stack' and len(v.args) == 1):
                emitted = v.args[0]
            if emitted is None:
                raise Decline('unsupported expression statement %s' % ast.unparse(st))
            line = '%slet out := %s :: %s' % (ind, self.expr(emitted, env), env['out'])
            return [line] + self.block(rest, dict(env, out='out'), ind)
        if isinstance(st, ast.If):
            return ([ind + 'if %s then' % self.cond(st.test, env)] + self.block(list(st.body) + rest, env, ind + '  ')
                    + [ind + 'else'] + self.block(list(st.orelse) + rest, env, ind + '  '))
        raise Decline('unsupported statement %s' % type(st).__name__)


def _function(tree, name):
    fns = [f for f in tree.body if isinstance(f, ast.FunctionDef) and f.name == name]
    if len(fns) != 1:
        raise Decline('no unique function %s' % name)
    return fns[0]


def _nodoc(body):
    return [st for st in body if not (isinstance(st, ast.Expr) and isinstance(getattr(st, 'value', None), ast.Constant))]


def gen_lindig():
    """`lindig.neighbors`: the code around the loop must be the expected text; the loop body is translated."""
    tree = ast.parse(open(os.path.join(REPO, 'concepts', 'algorithms', 'lindig.py')).read())
    fn = _function(tree, 'neighbors')
    if [a.arg for a in fn.args.args] != ['objects'] or [a.arg for a in fn.args.kwonlyargs] != ['Objects']:
        raise Decline('neighbors: signature changed')
    body = _nodoc(fn.body)
    head = [ast.unparse(st) for st in body[:-1]]
    if head != ['doubleprime = Objects.doubleprime', 'minimal = ~objects'] or not isinstance(body[-1], ast.For):
        raise Decline('neighbors: the code before the loop changed: %r' % head)
    loop = body[-1]
    if ast.unparse(loop.target) != 'add' or ast.unparse(loop.iter) != 'Objects.atomic(minimal)' or loop.orelse:
        raise Decline('neighbors: loop header changed: for %s in %s' % (ast.unparse(loop.target), ast.unparse(loop.iter)))
    tr = BodyTr(names={'objects': 'objects', 'add': 'add'}, funcs={'doubleprime': 'doubleprime'}, arrays=(),
                state=['minimal', 'out'], emit_to='out')
    lines = tr.block(list(loop.body), {'objects': 'objects', 'add': 'add', 'minimal': 'minimal', 'out': 'out'}, '  ')
    out = ['import FCA.Model.Galois',
           '/- GENERATED by harness/extract.py from concepts/algorithms/lindig.py (neighbors) — do not edit.',
           '   `minimal = ~objects` is read as the in-domain mask; `a & ~b` as set difference. -/',
           'namespace FCA.Generated', '',
           '/-- body of `for add in Objects.atomic(minimal)`; `out` collects the yielded pairs, newest first -/',
           'def neighbors_body (doubleprime : Nat → Nat × Nat) (objects add minimal : Nat) (out : List (Nat × Nat)) :',
           '    Nat × List (Nat × Nat) :='] + lines + ['', 'end FCA.Generated', '']
    return '\n'.join(out)


def gen_fcbo():
    tree = ast.parse(open(os.path.join(REPO, 'concepts', 'algorithms', 'fcbo.py')).read())
    out = ['import FCA.Model.Galois',
           '/- GENERATED by harness/extract.py from concepts/algorithms/fcbo.py — do not edit.',
           '   Bodies of the inner `for j, j_x in reversed(j_atom[index:])` loops; the pushed tuple keeps the concept and',
           '   the next index (the shared `next_*_sets` reference is dropped: every child reads the final list). -/',
           'namespace FCA.Generated', '']
    spec = {
        'fast_generate_from': dict(
            head=['n_properties = context.shape.properties', 'Properties = context._Properties',
                  'j_atom = list(enumerate(Properties.supremum.atoms()))', 'Objects = context._Objects', 'prime = Objects.prime',
                  'stack = [(Objects.supremum.doubleprime(), 0, [Properties.infimum] * n_properties)]'],
            whead=['concept, property_index, property_sets = stack.pop()', 'yield concept', 'extent, intent = concept',
                   'if property_index == n_properties or not extent:\n    continue',
                   'next_property_sets = property_sets.copy()'],
            target='(j, j_property)', iter='reversed(j_atom[property_index:])', sets='next_property_sets',
            loopvars=['j', 'j_property'], read='context._extents'),
        'fcbo_dual': dict(
            head=['n_objects = context.shape.objects', 'Objects = context._Objects',
                  'j_atom = list(enumerate(Objects.supremum.atoms()))', 'Properties = context._Properties', 'prime = Properties.prime',
                  'stack = [(Objects.infimum.doubleprime(), 0, [Objects.infimum] * n_objects)]'],
            whead=['concept, object_index, object_sets = stack.pop()', 'yield concept', 'extent, intent = concept',
                   'if object_index == n_objects or not intent:\n    continue',
                   'next_object_sets = object_sets.copy()'],
            target='(j, j_object)', iter='reversed(j_atom[object_index:])', sets='next_object_sets',
            loopvars=['j', 'j_object'], read='context._intents'),
    }
    for name, sp in spec.items():
        fn = _function(tree, name)
        if [a.arg for a in fn.args.args] != ['context']:
            raise Decline('%s: signature changed' % name)
        body = _nodoc(fn.body)
        head = [ast.unparse(st) for st in body[:-1]]
        if head != sp['head'] or not isinstance(body[-1], ast.While) or ast.unparse(body[-1].test) != 'stack' or body[-1].orelse:
            raise Decline('%s: the code before the stack loop changed: %r' % (name, head))
        wbody = body[-1].body
        whead = [ast.unparse(st) for st in wbody[:-1]]
        if whead != sp['whead'] or not isinstance(wbody[-1], ast.For):
            raise Decline('%s: the code before the inner loop changed: %r' % (name, whead))
        loop = wbody[-1]
        tgt = ast.unparse(loop.target)
        if tgt.strip('()') != sp['target'].strip('()') or ast.unparse(loop.iter) != sp['iter'] or loop.orelse:
            raise Decline('%s: inner loop header changed: for %s in %s' % (name, tgt, ast.unparse(loop.iter)))
        sets = sp['sets']
        tr = BodyTr(names={}, funcs={'prime': 'prime'}, arrays=[sets], state=[sets, 'out'], emit_to='out',
                    strip_calls=['Objects.fromint', 'Properties.fromint'], reads={sp['read']: 'col'}, drop_names=[sets])
        env = {'extent': 'extent', 'intent': 'intent', sets: sets, 'out': 'out'}
        env.update({v: v for v in sp['loopvars']})
        lines = tr.block(list(loop.body), env, '  ')
        out += ['/-- inner loop body of `%s` -/' % name,
                'def %s_body (col : Nat → Nat) (prime : Nat → Nat) (extent intent %s : Nat) (%s : Array Nat)' % (name, ' '.join(sp['loopvars']), sets),
                '    (out : List ((Nat × Nat) × Nat)) : Array Nat × List ((Nat × Nat) × Nat) :='] + lines + ['']
    out += ['end FCA.Generated', '']
    return '\n'.join(out)


class GuardTr:
    """Translate the conditions of the `if cond: raise ValueError(...)` chain of `Context.__init__` into Lean Booleans over
    `objects properties : List Name` and `bools : List (List Bool)`. Python sets of names are duplicate-free lists
    (`uniq`), the set of row lengths is a list compared as a set (`pySetNe`)."""

    def __init__(self, subst):
        self.subst = subst      # python name -> lean term (lists)

    def is_set(self, node):
        return (isinstance(node, (ast.Set, ast.SetComp))
                or (isinstance(node, ast.Call) and isinstance(node.func, ast.Name) and node.func.id == 'set'))

    def lst(self, node):
        """a list- or set-valued expression as a Lean list"""
        if isinstance(node, ast.Name) and node.id in self.subst:
            return self.subst[node.id]
        if isinstance(node, ast.Call) and isinstance(node.func, ast.Name) and node.func.id == 'set' and len(node.args) == 1:
            return '(uniq %s)' % self.lst(node.args[0])
        if isinstance(node, ast.Set):
            return '[%s]' % ', '.join(self.num(e) for e in node.elts)
        if (isinstance(node, ast.SetComp) and len(node.generators) == 1 and not node.generators[0].ifs
                and isinstance(node.generators[0].target, ast.Name)):
            g = node.generators[0]
            v = g.target.id
            inner = GuardTr(dict(self.subst, **{v: v}))
            return '(%s.map fun %s => %s)' % (self.lst(g.iter), v, inner.num(node.elt))
        raise Decline('unsupported collection %s' % ast.unparse(node))

    def num(self, node):
        if isinstance(node, ast.Call) and isinstance(node.func, ast.Name) and node.func.id == 'len' and len(node.args) == 1:
            return '%s.length' % self.lst(node.args[0])
        if isinstance(node, ast.Constant) and isinstance(node.value, int) and not isinstance(node.value, bool):
            return str(node.value)
        raise Decline('unsupported number %s' % ast.unparse(node))

    def cond(self, node):
        if isinstance(node, ast.BoolOp) and isinstance(node.op, ast.Or):
            return '(%s)' % ' || '.join(self.cond(v) for v in node.values)
        if isinstance(node, ast.UnaryOp) and isinstance(node.op, ast.Not):
            inner = node.operand
            if isinstance(inner, ast.Name) and inner.id in self.subst:
                return '%s.isEmpty' % self.subst[inner.id]          # `not items`: empty tuple
            if (isinstance(inner, ast.Call) and isinstance(inner.func, ast.Attribute) and inner.func.attr == 'isdisjoint'
                    and len(inner.args) == 1):
                return '(%s.any %s.contains)' % (self.lst(inner.func.value), self.lst(inner.args[0]))
            raise Decline('unsupported negation %s' % ast.unparse(node))
        if isinstance(node, ast.Compare) and len(node.ops) == 1 and isinstance(node.ops[0], ast.NotEq):
            a, b = node.left, node.comparators[0]
            if self.is_set(a) and self.is_set(b):
                return '(pySetNe %s %s)' % (self.lst(a), self.lst(b))
            return '(%s != %s)' % (self.num(a), self.num(b))
        raise Decline('unsupported condition %s' % ast.unparse(node))


def gen_validate():
    """`Context.__init__`: the chain of `if cond: raise ValueError` statements, in order, as one Boolean."""
    tree = ast.parse(open(os.path.join(REPO, 'concepts', 'contexts.py')).read())
    inits = [f for c in tree.body if isinstance(c, ast.ClassDef) for f in c.body
             if isinstance(f, ast.FunctionDef) and f.name == '__init__'
             and [a.arg for a in f.args.args] == ['self', 'objects', 'properties', 'bools']]
    if len(inits) != 1:
        raise Decline('no unique __init__(self, objects, properties, bools)')
    body = _nodoc(inits[0].body)
    if not body or ast.unparse(body[0]) != 'objects, properties = map(tuple, (objects, properties))':
        raise Decline('the first statement of Context.__init__ changed')
    conds = []

    def raising_if(st, tr):
        if not (isinstance(st, ast.If) and not st.orelse and st.body and isinstance(st.body[-1], ast.Raise)):
            return False
        exc = st.body[-1].exc
        if not (isinstance(exc, ast.Call) and isinstance(exc.func, ast.Name) and exc.func.id == 'ValueError'):
            raise Decline('a guard raises something else than ValueError: %s' % ast.unparse(exc)[:60])
        for pre in st.body[:-1]:       # only message preparation is allowed before the raise
            if not isinstance(pre, ast.Assign):
                raise Decline('unexpected statement inside a guard')
        conds.append(tr.cond(st.test))
        return True

    base = GuardTr({'objects': 'objects', 'properties': 'properties', 'bools': 'bools'})
    rest_started = False
    for st in body[1:]:
        if isinstance(st, ast.For):
            if rest_started:
                raise Decline('a guard loop after the construction started')
            # for items, name in [(objects, 'objects'), (properties, 'properties')]: unrolled
            if not (isinstance(st.target, ast.Tuple) and len(st.target.elts) == 2 and isinstance(st.iter, ast.List)):
                raise Decline('unsupported guard loop')
            var = st.target.elts[0].id
            for elt in st.iter.elts:
                if not (isinstance(elt, ast.Tuple) and isinstance(elt.elts[0], ast.Name) and elt.elts[0].id in base.subst):
                    raise Decline('unsupported guard loop item')
                tr = GuardTr(dict(base.subst, **{var: base.subst[elt.elts[0].id]}))
                for inner in st.body:
                    if not raising_if(inner, tr):
                        raise Decline('unsupported statement in the guard loop')
        elif isinstance(st, ast.If):
            if rest_started:
                raise Decline('a guard after the construction started')
            if not raising_if(st, base):
                raise Decline('an if statement that is not a guard')
        else:
            rest_started = True
            if any(isinstance(n, ast.Raise) for n in ast.walk(st)):
                raise Decline('a raise outside the guard chain')
    out = ['import FCA.Model.Misc',
           '/- GENERATED by harness/extract.py from Context.__init__ in concepts/contexts.py — do not edit.',
           '   The conditions of the `if …: raise ValueError` chain, in source order. -/',
           'namespace FCA.Generated', '',
           '/-- true iff some guard of `Context.__init__` raises `ValueError` for a well-typed triple -/',
           'def ctorRejects (objects properties : List Name) (bools : List (List Bool)) : Bool :=',
           '  ' + ' ||\n  '.join(conds), '', 'end FCA.Generated', '']
    return '\n'.join(out)


def write_if_changed(path, text):
    old = open(path).read() if os.path.exists(path) else None
    if old != text:
        tmp = path + '.tmp%d' % os.getpid()
        with open(tmp, 'w') as f:
            f.write(text)
        os.replace(tmp, path)
        return True
    return False


def regenerate(log=print, dry=False):
    os.makedirs(GEN, exist_ok=True)
    if REPO not in sys.path:
        sys.path.insert(0, REPO)
    status = {}
    import extract2
    for name, fn in (('Predicates', gen_predicates), ('Junctors', gen_junctors), ('Formats', gen_formats), ('Loops', gen_loops),
                     ('Lindig', gen_lindig), ('Fcbo', gen_fcbo), ('Validate', gen_validate)) + tuple(extract2.GENERATORS):
        path = os.path.join(GEN, name + '.lean')
        try:
            text = fn()
        except Decline as e:
            status[name] = 'declined: %s' % e
            continue
        except Exception as e:  # noqa: BLE001 - the source may have changed arbitrarily
            status[name] = 'declined: %s: %s' % (type(e).__name__, e)
            continue
        if dry:     # development aid: report only, write nothing
            old = open(path).read() if os.path.exists(path) else None
            status[name] = 'would change' if old != text else 'identical'
            continue
        changed = write_if_changed(path, text)
        status[name] = 'regenerated (changed)' if changed else 'regenerated (identical to the committed copy)'
    return status


if __name__ == '__main__':
    print(regenerate(dry='--dry' in sys.argv))
