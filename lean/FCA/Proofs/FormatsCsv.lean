import FCA.Proofs.FormatsStr
/-
The csv reader (`csvParse`, a model of `csv.reader` with the excel dialect) inverts the csv writer
(`csvRow`, `QUOTE_MINIMAL`) on every list of non-empty rows, whatever the field contents.
-/
namespace FCA

/-! ### single steps of the reader's state machine -/

section steps
variable (f : Nat) (rest field : Str) (row : List Str) (rows : List (List Str))

theorem go_eatCrnl_end : csvParse.go (f+1) .eatCrnl [] field row rows = some rows := rfl
theorem go_startRecord_end : csvParse.go (f+1) .startRecord [] field row rows = some rows := rfl

theorem go_startRecord_char {c : Char} (h1 : c ≠ '\n') (h2 : c ≠ '\r') :
    csvParse.go (f+1) .startRecord (c :: rest) field row rows =
      csvParse.go f .startField (c :: rest) [] [] rows := by
  simp [csvParse.go, h1, h2]

theorem go_eatCrnl_char {c : Char} (h1 : c ≠ '\n') (h2 : c ≠ '\r') :
    csvParse.go (f+1) .eatCrnl (c :: rest) field row rows =
      csvParse.go f .startRecord (c :: rest) [] [] rows := by
  simp [csvParse.go, h1, h2]

theorem go_eatCrnl_nl : csvParse.go (f+1) .eatCrnl ('\n' :: rest) field row rows =
    csvParse.go f .eatCrnl rest [] [] rows := rfl

theorem go_startField_cr : csvParse.go (f+1) .startField ('\r' :: rest) field row rows =
    csvParse.go f .eatCrnl rest [] [] (rows ++ [row ++ [[]]]) := rfl

theorem go_startField_quote : csvParse.go (f+1) .startField ('"' :: rest) field row rows =
    csvParse.go f .inQuoted rest [] row rows := rfl

theorem go_startField_comma : csvParse.go (f+1) .startField (',' :: rest) field row rows =
    csvParse.go f .startField rest [] (row ++ [[]]) rows := rfl

theorem go_startField_char {c : Char} (h1 : c ≠ '\n') (h2 : c ≠ '\r') (h3 : c ≠ '"')
    (h4 : c ≠ ',') :
    csvParse.go (f+1) .startField (c :: rest) field row rows =
      csvParse.go f .inField rest [c] row rows := by
  simp [csvParse.go, h1, h2, h3, h4]

theorem go_inField_cr : csvParse.go (f+1) .inField ('\r' :: rest) field row rows =
    csvParse.go f .eatCrnl rest [] [] (rows ++ [row ++ [field.reverse]]) := rfl

theorem go_inField_comma : csvParse.go (f+1) .inField (',' :: rest) field row rows =
    csvParse.go f .startField rest [] (row ++ [field.reverse]) rows := rfl

theorem go_inField_char {c : Char} (h1 : c ≠ '\n') (h2 : c ≠ '\r') (h4 : c ≠ ',') :
    csvParse.go (f+1) .inField (c :: rest) field row rows =
      csvParse.go f .inField rest (c :: field) row rows := by
  simp [csvParse.go, h1, h2, h4]

theorem go_inQuoted_quote : csvParse.go (f+1) .inQuoted ('"' :: rest) field row rows =
    csvParse.go f .quoteInQuoted rest field row rows := rfl

theorem go_inQuoted_char {c : Char} (h : c ≠ '"') :
    csvParse.go (f+1) .inQuoted (c :: rest) field row rows =
      csvParse.go f .inQuoted rest (c :: field) row rows := by
  simp [csvParse.go, h]

theorem go_qiq_quote : csvParse.go (f+1) .quoteInQuoted ('"' :: rest) field row rows =
    csvParse.go f .inQuoted rest ('"' :: field) row rows := rfl

theorem go_qiq_comma : csvParse.go (f+1) .quoteInQuoted (',' :: rest) field row rows =
    csvParse.go f .startField rest [] (row ++ [field.reverse]) rows := rfl

theorem go_qiq_cr : csvParse.go (f+1) .quoteInQuoted ('\r' :: rest) field row rows =
    csvParse.go f .eatCrnl rest [] [] (rows ++ [row ++ [field.reverse]]) := rfl

end steps

/-! ### fields -/

/-- characters that force quoting -/
def csvSpecial (c : Char) : Bool := c == ',' || c == '"' || c == '\r' || c == '\n'

/-- quote doubling -/
def csvEsc (s : Str) : Str := s.flatMap fun c => if c == '"' then ['"', '"'] else [c]

theorem csvField_eq (s : Str) :
    csvField s = if s.any csvSpecial then ['"'] ++ csvEsc s ++ ['"'] else s := rfl

theorem csvField_raw {s : Str} (h : s.any csvSpecial = false) : csvField s = s := by
  rw [csvField_eq, h]; rfl

theorem csvField_quoted {s : Str} (h : s.any csvSpecial = true) :
    csvField s = '"' :: (csvEsc s ++ ['"']) := by
  rw [csvField_eq, h]; rfl

theorem csvEsc_cons_quote (s : Str) : csvEsc ('"' :: s) = '"' :: '"' :: csvEsc s := rfl

theorem csvEsc_cons_char {c : Char} (h : c ≠ '"') (s : Str) : csvEsc (c :: s) = c :: csvEsc s := by
  simp [csvEsc, h]

theorem not_special {s : Str} (h : s.any csvSpecial = false) :
    ∀ c ∈ s, c ≠ ',' ∧ c ≠ '"' ∧ c ≠ '\r' ∧ c ≠ '\n' := by
  intro c hc
  have := List.any_eq_false.1 h c hc
  simp only [csvSpecial, Bool.or_eq_true, beq_iff_eq, not_or] at this
  tauto

theorem go_inField_run (s : Str) (hs : ∀ c ∈ s, c ≠ ',' ∧ c ≠ '"' ∧ c ≠ '\r' ∧ c ≠ '\n')
    (f : Nat) (rest field : Str) (row : List Str) (rows : List (List Str)) :
    csvParse.go (f + s.length) .inField (s ++ rest) field row rows =
      csvParse.go f .inField rest (s.reverse ++ field) row rows := by
  induction s generalizing field with
  | nil => rfl
  | cons c cs ih =>
    have hc := hs c (by simp)
    rw [List.length_cons, ← Nat.add_assoc, List.cons_append,
      go_inField_char _ _ _ _ _ hc.2.2.2 hc.2.2.1 hc.1, ih (fun x hx => hs x (by simp [hx]))]
    simp

theorem go_inQuoted_run (s : Str) (f : Nat) (rest field : Str) (row : List Str)
    (rows : List (List Str)) :
    csvParse.go (f + (csvEsc s).length) .inQuoted (csvEsc s ++ rest) field row rows =
      csvParse.go f .inQuoted rest (s.reverse ++ field) row rows := by
  induction s generalizing field with
  | nil => rfl
  | cons c cs ih =>
    by_cases hc : c = '"'
    · subst hc
      rw [csvEsc_cons_quote, List.length_cons, List.length_cons, ← Nat.add_assoc, ← Nat.add_assoc,
        List.cons_append, List.cons_append, go_inQuoted_quote, go_qiq_quote, ih]
      simp
    · rw [csvEsc_cons_char hc, List.length_cons, ← Nat.add_assoc, List.cons_append,
        go_inQuoted_char _ _ _ _ _ hc, ih]
      simp

/-- a written field followed by the delimiter is read back as that field -/
theorem go_field_comma (s : Str) (f : Nat) (rest : Str) (row : List Str) (rows : List (List Str)) :
    csvParse.go (f + (csvField s).length + 1) .startField (csvField s ++ ',' :: rest) [] row rows =
      csvParse.go f .startField rest [] (row ++ [s]) rows := by
  by_cases h : s.any csvSpecial = true
  · rw [csvField_quoted h]
    have e1 : ('"' :: (csvEsc s ++ ['"'])) ++ ',' :: rest =
        '"' :: (csvEsc s ++ ('"' :: ',' :: rest)) := by simp
    have e2 : f + ('"' :: (csvEsc s ++ ['"'])).length + 1 = (f + 2 + (csvEsc s).length) + 1 := by
      simp only [List.length_cons, List.length_append, List.length_nil]; omega
    rw [e1, e2, go_startField_quote, go_inQuoted_run, go_inQuoted_quote, go_qiq_comma]
    simp
  · have h' : s.any csvSpecial = false := by simpa using h
    rw [csvField_raw h']
    cases s with
    | nil => exact go_startField_comma _ _ _ _ _
    | cons c cs =>
      have hs := not_special h'
      have hc := hs c (by simp)
      have e2 : f + (c :: cs).length + 1 = (f + 1 + cs.length) + 1 := by
        simp only [List.length_cons]; omega
      rw [e2, List.cons_append, go_startField_char _ _ _ _ _ hc.2.2.2 hc.2.2.1 hc.2.1 hc.1,
        go_inField_run cs (fun x hx => hs x (by simp [hx])), go_inField_comma]
      simp

/-- a written field followed by the line terminator ends the record -/
theorem go_field_cr (s : Str) (f : Nat) (rest : Str) (row : List Str) (rows : List (List Str)) :
    csvParse.go (f + (csvField s).length + 1) .startField (csvField s ++ '\r' :: rest) [] row rows =
      csvParse.go f .eatCrnl rest [] [] (rows ++ [row ++ [s]]) := by
  by_cases h : s.any csvSpecial = true
  · rw [csvField_quoted h]
    have e1 : ('"' :: (csvEsc s ++ ['"'])) ++ '\r' :: rest =
        '"' :: (csvEsc s ++ ('"' :: '\r' :: rest)) := by simp
    have e2 : f + ('"' :: (csvEsc s ++ ['"'])).length + 1 = (f + 2 + (csvEsc s).length) + 1 := by
      simp only [List.length_cons, List.length_append, List.length_nil]; omega
    rw [e1, e2, go_startField_quote, go_inQuoted_run, go_inQuoted_quote, go_qiq_cr]
    simp
  · have h' : s.any csvSpecial = false := by simpa using h
    rw [csvField_raw h']
    cases s with
    | nil => exact go_startField_cr _ _ _ _ _
    | cons c cs =>
      have hs := not_special h'
      have hc := hs c (by simp)
      have e2 : f + (c :: cs).length + 1 = (f + 1 + cs.length) + 1 := by
        simp only [List.length_cons]; omega
      rw [e2, List.cons_append, go_startField_char _ _ _ _ _ hc.2.2.2 hc.2.2.1 hc.2.1 hc.1,
        go_inField_run cs (fun x hx => hs x (by simp [hx])), go_inField_cr]
      simp

/-! ### rows -/

/-- the fields of a row joined by the delimiter -/
def csvBody (fields : List Str) : Str := joinWith [','] (fields.map csvField)

theorem csvBody_cons_cons (s t : Str) (l : List Str) :
    csvBody (s :: t :: l) = csvField s ++ ',' :: csvBody (t :: l) := by
  simp [csvBody, joinWith]

theorem csvBody_single (s : Str) : csvBody [s] = csvField s := rfl

theorem go_body (fields : List Str) (hne : fields ≠ []) (f : Nat) (rest : Str) (row : List Str)
    (rows : List (List Str)) :
    csvParse.go (f + (csvBody fields).length + 2) .startField
        (csvBody fields ++ '\r' :: '\n' :: rest) [] row rows =
      csvParse.go f .eatCrnl rest [] [] (rows ++ [row ++ fields]) := by
  induction fields generalizing row with
  | nil => contradiction
  | cons s l ih =>
    cases l with
    | nil =>
      rw [csvBody_single]
      have e : f + (csvField s).length + 2 = (f + 1) + (csvField s).length + 1 := by omega
      rw [e, go_field_cr, go_eatCrnl_nl]
    | cons t l =>
      rw [csvBody_cons_cons]
      have e : f + (csvField s ++ ',' :: csvBody (t :: l)).length + 2 =
          (f + (csvBody (t :: l)).length + 2) + (csvField s).length + 1 := by
        simp only [List.length_append, List.length_cons]; omega
      rw [e, List.append_assoc, List.cons_append, go_field_comma, ih (by simp)]
      simp

theorem csvRow_eq_body {fields : List Str} (h : fields ≠ [[]]) :
    csvRow fields = csvBody fields ++ ['\r', '\n'] := by
  unfold csvRow csvBody
  split
  · contradiction
  · rfl

theorem csvRow_single_empty : csvRow [[]] = ['"', '"', '\r', '\n'] := rfl

/-- a written row is read back as that row (from the start-of-field state) -/
theorem go_row (fields : List Str) (hne : fields ≠ []) (f : Nat) (rest : Str)
    (rows : List (List Str)) :
    csvParse.go (f + (csvRow fields).length) .startField (csvRow fields ++ rest) [] [] rows =
      csvParse.go f .eatCrnl rest [] [] (rows ++ [fields]) := by
  by_cases h : fields = [[]]
  · subst h
    rw [csvRow_single_empty]
    rfl
  · rw [csvRow_eq_body h]
    have e : f + (csvBody fields ++ ['\r', '\n']).length = f + (csvBody fields).length + 2 := by
      simp only [List.length_append, List.length_cons, List.length_nil]; omega
    rw [e, List.append_assoc]
    have := go_body fields hne f rest [] rows
    simpa using this

theorem csvField_head {a : Str} (ha : a ≠ []) :
    ∃ c cs, csvField a = c :: cs ∧ c ≠ '\n' ∧ c ≠ '\r' := by
  by_cases h : a.any csvSpecial = true
  · exact ⟨'"', _, csvField_quoted h, by decide, by decide⟩
  · have h' : a.any csvSpecial = false := by simpa using h
    cases a with
    | nil => contradiction
    | cons c cs =>
      have := not_special h' c (by simp)
      exact ⟨c, cs, csvField_raw h', this.2.2.2, this.2.2.1⟩

/-- a written row never starts with a line-break character -/
theorem csvRow_head {fields : List Str} (hne : fields ≠ []) :
    ∃ c cs, csvRow fields = c :: cs ∧ c ≠ '\n' ∧ c ≠ '\r' := by
  by_cases h : fields = [[]]
  · subst h; exact ⟨'"', _, rfl, by decide, by decide⟩
  · rw [csvRow_eq_body h]
    cases fields with
    | nil => contradiction
    | cons a l =>
      cases a with
      | nil =>
        cases l with
        | nil => contradiction
        | cons t l =>
          refine ⟨',', csvBody (t :: l) ++ ['\r', '\n'], ?_, by decide, by decide⟩
          rw [csvBody_cons_cons]; rfl
      | cons c cs =>
        obtain ⟨d, ds, hd, h1, h2⟩ := csvField_head (a := c :: cs) (by simp)
        cases l with
        | nil => exact ⟨d, ds ++ ['\r', '\n'], by rw [csvBody_single, hd]; rfl, h1, h2⟩
        | cons t l =>
          exact ⟨d, ds ++ ',' :: csvBody (t :: l) ++ ['\r', '\n'],
            by rw [csvBody_cons_cons, hd]; simp, h1, h2⟩

theorem csvRow_length_ge (fields : List Str) : 2 ≤ (csvRow fields).length := by
  unfold csvRow
  simp only [List.length_append, List.length_cons, List.length_nil]; omega

/-- a record read at the beginning of the text -/
theorem go_record_sr (fields : List Str) (hne : fields ≠ []) (f : Nat) (rest : Str)
    (rows : List (List Str)) :
    csvParse.go (f + (csvRow fields).length + 1) .startRecord (csvRow fields ++ rest) [] [] rows =
      csvParse.go f .eatCrnl rest [] [] (rows ++ [fields]) := by
  obtain ⟨c, cs, hc, h1, h2⟩ := csvRow_head hne
  have := go_row fields hne f rest rows
  rw [hc] at this ⊢
  rw [List.cons_append, go_startRecord_char _ _ _ _ _ h1 h2]
  exact this

/-- a record read after the previous line terminator -/
theorem go_record_ec (fields : List Str) (hne : fields ≠ []) (f : Nat) (rest : Str)
    (rows : List (List Str)) :
    csvParse.go (f + (csvRow fields).length + 2) .eatCrnl (csvRow fields ++ rest) [] [] rows =
      csvParse.go f .eatCrnl rest [] [] (rows ++ [fields]) := by
  obtain ⟨c, cs, hc, h1, h2⟩ := csvRow_head hne
  have := go_record_sr fields hne f rest rows
  rw [hc] at this ⊢
  rw [List.cons_append, go_eatCrnl_char _ _ _ _ _ h1 h2]
  exact this

/-! ### whole text -/

/-- steps needed to read the rows -/
def csvCost : List (List Str) → Nat
  | [] => 0
  | r :: rs => (csvRow r).length + 2 + csvCost rs

theorem csvCost_le (rs : List (List Str)) : csvCost rs ≤ 2 * (rs.flatMap csvRow).length := by
  induction rs with
  | nil => simp [csvCost]
  | cons r rs ih =>
    have := csvRow_length_ge r
    simp only [csvCost, List.flatMap_cons, List.length_append]; omega

theorem go_rows (rs : List (List Str)) (h : ∀ r ∈ rs, r ≠ []) (acc : List (List Str)) (fuel : Nat)
    (hf : csvCost rs + 1 ≤ fuel) :
    csvParse.go fuel .eatCrnl (rs.flatMap csvRow) [] [] acc = some (acc ++ rs) := by
  induction rs generalizing acc fuel with
  | nil =>
    obtain ⟨f, rfl⟩ : ∃ f, fuel = f + 1 := ⟨fuel - 1, by omega⟩
    simp [go_eatCrnl_end]
  | cons r rs ih =>
    simp only [csvCost] at hf
    obtain ⟨f, rfl⟩ : ∃ f, fuel = f + (csvRow r).length + 2 := ⟨fuel - (csvRow r).length - 2, by omega⟩
    rw [List.flatMap_cons, go_record_ec r (h r (by simp)),
      ih (fun x hx => h x (by simp [hx])) _ _ (by omega)]
    simp

/-- `csv.reader` inverts `csv.writer` on every list of non-empty rows -/
theorem csvParse_rows (rs : List (List Str)) (h : ∀ r ∈ rs, r ≠ []) :
    csvParse (rs.flatMap csvRow) = some rs := by
  unfold csvParse
  cases rs with
  | nil => rfl
  | cons r rs =>
    have hc := csvCost_le rs
    have hl := csvRow_length_ge r
    rw [List.flatMap_cons] at *
    obtain ⟨f, hf⟩ : ∃ f, 2 * (csvRow r ++ rs.flatMap csvRow).length + 4 =
        f + (csvRow r).length + 1 :=
      ⟨2 * (csvRow r ++ rs.flatMap csvRow).length + 4 - (csvRow r).length - 1, by
        simp only [List.length_append]; omega⟩
    rw [hf, go_record_sr r (h r (by simp)),
      go_rows rs (fun x hx => h x (by simp [hx])) _ _ (by
        simp only [List.length_append] at hf; omega)]
    simp

end FCA
