"""Print python files with long docstrings cut (reading aid)."""
import ast, sys
def strip(path):
    src = open(path).read()
    tree = ast.parse(src)
    lines = src.split('\n')
    rm = set()
    for node in ast.walk(tree):
        if isinstance(node, (ast.FunctionDef, ast.ClassDef, ast.Module, ast.AsyncFunctionDef)):
            b = node.body
            if b and isinstance(b[0], ast.Expr) and isinstance(getattr(b[0], 'value', None), ast.Constant) and isinstance(b[0].value.value, str):
                s, e = b[0].lineno, b[0].end_lineno
                if e - s > 2:
                    for i in range(s + 1, e):
                        rm.add(i)
    out = [f'{i}: {l}' for i, l in enumerate(lines, 1) if i not in rm]
    print('#### ', path)
    print('\n'.join(out))
for p in sys.argv[1:]:
    strip(p)
