import FCA.Proofs.Galois
import FCA.Model.Lattice
import FCA.Proofs.LatticeSpec
import FCA.Model.Misc
/-
C02 — Concept lookup returns the least formal concept containing the query.
-/
namespace FCA

/-- `context[objects]` is the pair `(A'', A')` -/
theorem C02_doubleprime_obj (K : Ctx) (A : Nat) :
    K.dpObj A = (K.extentOf (K.intentOf A), K.intentOf A) := rfl

/-- `context[properties]` is the pair `(B', B'')` (as `(intent'', intent')`) -/
theorem C02_doubleprime_prop (K : Ctx) (B : Nat) :
    K.dpProp B = (K.intentOf (K.extentOf B), K.extentOf B) := rfl

/-- always a formal concept (each side is the derivation of the other) -/
theorem C02_is_concept_obj (K : Ctx) (h : K.WF) (A : Nat) (hA : Bounded K.n A) :
    isConcept K (K.dpObj A).1 (K.dpObj A).2 := by
  show isConcept K (K.extentOf (K.intentOf A)) (K.intentOf A)
  exact ⟨bounded_extentOf h _, bounded_intentOf A, intent_extent_intent h hA, rfl⟩

theorem C02_is_concept_prop (K : Ctx) (h : K.WF) (B : Nat) (hB : Bounded K.m B) :
    isConcept K (K.dpProp B).2 (K.dpProp B).1 := by
  show isConcept K (K.extentOf B) (K.intentOf (K.extentOf B))
  exact ⟨bounded_extentOf h _, bounded_intentOf _, rfl, extent_intent_extent h hB⟩

/-- the extent contains the query … -/
theorem C02_extensive_obj (K : Ctx) (h : K.WF) (A : Nat) (hA : Bounded K.n A) : A ⊆ᵇ (K.dpObj A).1 :=
  sub_extent_intent h hA

theorem C02_extensive_prop (K : Ctx) (h : K.WF) (B : Nat) (hB : Bounded K.m B) : B ⊆ᵇ (K.dpProp B).1 :=
  sub_intent_extent h hB

/-- … and is contained in the extent of every other concept containing it -/
theorem C02_least_obj (K : Ctx) (h : K.WF) (A A₁ B₁ : Nat) (hc : isConcept K A₁ B₁) (hs : A ⊆ᵇ A₁) :
    (K.dpObj A).1 ⊆ᵇ A₁ := by
  have := doubleObj_mono h hs
  have hcl : K.doubleObj A₁ = A₁ := (isConcept_iff_closed.mp hc).1.2
  rwa [hcl] at this

theorem C02_least_prop (K : Ctx) (h : K.WF) (B A₁ B₁ : Nat) (hc : isConcept K A₁ B₁) (hs : B ⊆ᵇ B₁) :
    (K.dpProp B).1 ⊆ᵇ B₁ := by
  show K.intentOf (K.extentOf B) ⊆ᵇ B₁
  obtain ⟨_, _, h1, h2⟩ := hc
  have := intentOf_anti (K := K) (extentOf_anti h hs)
  rwa [h2, h1] at this

/-- the closure is monotone -/
theorem C02_monotone (K : Ctx) (h : K.WF) (A A' : Nat) (hs : A ⊆ᵇ A') : K.doubleObj A ⊆ᵇ K.doubleObj A' :=
  doubleObj_mono h hs

/-- the closure is idempotent -/
theorem C02_idempotent (K : Ctx) (h : K.WF) (A : Nat) (hA : Bounded K.n A) :
    K.doubleObj (K.doubleObj A) = K.doubleObj A := (doubleObj_closed h A hA).2

/-- the lookup key of `lattice[objects]` and of `lattice(properties)` is a closed extent -/
theorem C02_lookup_key_closed (K : Ctx) (h : K.WF) (A B : Nat) (hA : Bounded K.n A) (hB : Bounded K.m B) :
    closedObj K (K.dpObj A).1 ∧ closedObj K (K.extentOf B) := by
  refine ⟨doubleObj_closed h A hA, bounded_extentOf h B, ?_⟩
  unfold Ctx.doubleObj
  exact extent_intent_extent h hB

/-- `lattice(())`: the empty property set derives to all objects, the extent of the top concept -/
theorem C02_empty_properties_top (K : Ctx) (h : K.WF) : K.extentOf 0 = full K.n := by
  apply ext; intro i; rw [mem_extentOf h]; simp

/-- `lattice[objects]`: the lookup is defined and returns the position of the member whose extent and
intent are `(A'', A')` (positions are what `Concept.index` makes observable; the member object at a
position is unique) -/
theorem C02_lookup_objects (K : Ctx) (h : K.WF) (A : Nat) (hA : Bounded K.n A) :
    ∃ k c, lookupObjects K (mkLattice K) A = some k ∧ (mkLattice K)[k]? = some c ∧
      c.extent = (K.dpObj A).1 ∧ c.intent = (K.dpObj A).2 ∧ c.index = k := by
  have S := mkLattice_spec h
  obtain ⟨k, hk⟩ := S.find_of_closed (doubleObj_closed h A hA)
  obtain ⟨c, hc, he⟩ := S.find_some hk
  refine ⟨k, c, hk, hc, he, ?_, S.index hc⟩
  rw [S.intent hc, he]
  exact intent_extent_intent h hA

/-- `lattice(properties)` / `lattice[properties]`: likewise for `(B', B'')`, the empty property set included -/
theorem C02_lookup_properties (K : Ctx) (h : K.WF) (B : Nat) (hB : Bounded K.m B) :
    ∃ k c, lookupProperties K (mkLattice K) B = some k ∧ (mkLattice K)[k]? = some c ∧
      c.extent = K.extentOf B ∧ c.intent = (K.dpProp B).1 ∧ c.index = k := by
  have S := mkLattice_spec h
  obtain ⟨k, hk⟩ := S.find_of_closed (C02_lookup_key_closed K h 0 B (bounded_zero _) hB).2
  obtain ⟨c, hc, he⟩ := S.find_some hk
  exact ⟨k, c, hk, hc, he, by rw [S.intent hc, he]; rfl, S.index hc⟩

/-- `lattice[i]` is the i-th member in iteration order and carries `index = i`; `lattice[()]` is the
last member, whose extent is all objects -/
theorem C02_lookup_index_and_top (K : Ctx) (h : K.WF) :
    (∀ (k : Nat) (c : LConcept), (mkLattice K)[k]? = some c → c.index = k) ∧
    ∃ c, (mkLattice K)[(mkLattice K).length - 1]? = some c ∧ c.extent = full K.n := by
  have S := mkLattice_spec h
  exact ⟨fun k c hc => S.index hc, S.get_last⟩

/-- the closure on property sets is monotone and idempotent too -/
theorem C02_monotone_prop (K : Ctx) (h : K.WF) (B B' : Nat) (hs : B ⊆ᵇ B') : K.doubleProp B ⊆ᵇ K.doubleProp B' :=
  intentOf_anti (extentOf_anti h hs)

theorem C02_idempotent_prop (K : Ctx) (h : K.WF) (B : Nat) (hB : Bounded K.m B) :
    K.doubleProp (K.doubleProp B) = K.doubleProp B := by
  unfold Ctx.doubleProp
  rw [extent_intent_extent h hB]

/-- `context[items]`: a non-empty collection of object labels takes the object branch and yields `(A'', A')` -/
theorem C02_getitem_objects (K : Ctx) (objs props items : List Name) (hall : ∀ x ∈ items, x ∈ objs) :
    ctxGetitem K objs props items = .ok (K.dpObj (ofMembers (items.map fun x => objs.idxOf x))) := by
  have : items.all objs.contains = true := by
    rw [List.all_eq_true]; intro x hx; simpa using hall x hx
  simp [ctxGetitem, labelMask, this]

/-- … a non-empty collection of property labels (names of objects and properties are disjoint) takes the
property branch and yields `(B', B'')` as `(extent, intent)` -/
theorem C02_getitem_properties (K : Ctx) (objs props items : List Name) (hdisj : ∀ x, x ∈ objs → x ∉ props)
    (hne : items ≠ []) (hall : ∀ x ∈ items, x ∈ props) :
    ctxGetitem K objs props items =
      .ok (K.extentOf (ofMembers (items.map fun x => props.idxOf x)),
           K.intentOf (K.extentOf (ofMembers (items.map fun x => props.idxOf x)))) := by
  have h1 : items.all objs.contains = false := by
    obtain ⟨x, hx⟩ := List.exists_mem_of_ne_nil items hne
    rw [Bool.eq_false_iff]
    intro hc
    rw [List.all_eq_true] at hc
    have := hc x hx
    exact hdisj x (by simpa using this) (hall x hx)
  have h2 : items.all props.contains = true := by
    rw [List.all_eq_true]; intro x hx; simpa using hall x hx
  simp [ctxGetitem, labelMask, h1, h2, Ctx.dpProp]

/-- anything else (an unknown label, or objects and properties mixed) is a `KeyError` -/
theorem C02_getitem_keyerror (K : Ctx) (objs props items : List Name)
    (h1 : ∃ x ∈ items, x ∉ objs) (h2 : ∃ x ∈ items, x ∉ props) :
    ctxGetitem K objs props items = .error .keyError := by
  have a : items.all objs.contains = false := by
    rw [Bool.eq_false_iff]; intro hc; rw [List.all_eq_true] at hc
    obtain ⟨x, hx, hn⟩ := h1; exact hn (by simpa using hc x hx)
  have b : items.all props.contains = false := by
    rw [Bool.eq_false_iff]; intro hc; rw [List.all_eq_true] at hc
    obtain ⟨x, hx, hn⟩ := h2; exact hn (by simpa using hc x hx)
  simp [ctxGetitem, labelMask, a, b]

/-- `lattice[()]` is the last member (the top), whereas `context[()]` would be the bottom: the empty key
never reaches the dispatch -/
theorem C02_lattice_getitem_empty (K : Ctx) (h : K.WF) (objs props : List Name) :
    latticeGetitem K (mkLattice K) objs props [] = .ok ((mkLattice K).length - 1) := by
  have S := mkLattice_spec h
  have : (mkLattice K).isEmpty = false := by
    cases hL : mkLattice K with
    | nil => exact absurd hL S.ne_nil
    | cons _ _ => rfl
  simp [latticeGetitem, this]

def C02_exK : Ctx := mkCtx 3 3 #[0b011, 0b001, 0b110]
example : C02_exK.WF := mkCtx_WF 3 3 _ rfl (by intro i hi; interval_cases i <;> decide)
example : isConcept C02_exK (C02_exK.dpObj 0b010).1 (C02_exK.dpObj 0b010).2 :=
  C02_is_concept_obj _ (mkCtx_WF 3 3 _ rfl (by intro i hi; interval_cases i <;> decide)) _ (by rw [bounded_iff_lt]; decide)

end FCA
#print axioms FCA.C02_is_concept_obj
#print axioms FCA.C02_least_obj
#print axioms FCA.C02_least_prop
