#!/bin/sh
# usage: dev/try_gen.sh <dir with patch.diff> <Gen module>... -- regenerate into the scratch lake copy /tmp/lw/gen and build the Gen modules
WT=/tmp/mut/dev2; M=$1; shift
git -C $WT checkout -q -- . ; git -C $WT clean -fdq
git -C $WT apply $M/patch.diff || { echo "patch does not apply"; exit 9; }
rsync -a --exclude .lake /verif/lean/ /tmp/lw/gen/
ST=$(cd /verif && VERIF_REPO=$WT VERIF_GEN_DIR=/tmp/lw/gen/FCA/Generated /venv/bin/python harness/extract.py 2>/dev/null | grep -o "'[A-Za-z]*': '\(regenerated (changed)\|declined[^']*\)'" | tr '\n' ' ')
git -C $WT checkout -q -- .; git -C $WT clean -fdq
echo "$(basename $(dirname $M))/$(basename $M): $ST"
for mod in "$@"; do
  (cd /tmp/lw/gen && lake build FCA.Props.$mod 2>&1 | grep -E "^error|Build completed|build failed" | head -5 | sed "s/^/   $mod: /")
done
