"""C08 - order and logical-relation predicates on concepts match their extents."""
import operator
from core import guard, ApiBroken
from props import lat
import gen

NAMED = ['implies', 'subsumes', 'properly_implies', 'properly_subsumes',
         'incompatible_with', 'complement_of', 'subcontrary_with', 'orthogonal_to']
OPS = [('<=', operator.le, 'implies'), ('>=', operator.ge, 'subsumes'),
       ('<', operator.lt, 'properly_implies'), ('>', operator.gt, 'properly_subsumes')]


def run(run):
    run.rule = ('contexts as C03; all ordered pairs of concepts (<= 30 concepts) or 300 sampled pairs; truthiness of the 8 named '
                'predicates and the 4 comparison operators against the model kernels; a case = (context, pair)')
    d = run.driver
    rng = run.rng
    from concepts.lattice_members import Concept
    for nme in NAMED:
        if not hasattr(Concept, nme):
            raise ApiBroken('Concept.%s is gone' % nme)
    for tab, pc in lat.contexts(run, exh_quick=8, rand_quick=250, wide_quick=10, exh_thorough=13, nmax=8, mmax=8):
        if min(pc.n, pc.m) > 8:
            continue
        extra = {'objects': pc.objects, 'properties': pc.properties, 'bools': pc.bools}
        with guard(run, 'lattice', [pc.line]):
            cs = list(pc.ctx.lattice)
            E = [pc.omask(c.extent) for c in cs]
            I = [pc.pmask(c.intent) for c in cs]
        k = len(cs)
        top = (1 << pc.n) - 1
        pairs = [(a, b) for a in range(k) for b in range(k)] if k <= (16 if run.tier == 'quick' else 40) else \
            [(rng.randrange(k), rng.randrange(k)) for _ in range(200)]
        reqs, cases = [], []
        nt = gen.nontrivial(tab)
        for a, b in pairs:
            x, y = cs[a], cs[b]
            for nme in NAMED:
                r = 'pred %s %d %d %d' % (nme, E[a], E[b], top)
                with guard(run, 'concept[%d].%s(concept[%d])' % (a, nme, b), [pc.line, r]):
                    got = bool(getattr(x, nme)(y))
                reqs.append(r)
                cases.append(('concept[%d].%s(concept[%d])' % (a, nme, b), got))
            for sym, op, nme in OPS:
                r = 'pred %s %d %d %d' % (nme, E[a], E[b], top)
                with guard(run, 'concept[%d] %s concept[%d]' % (a, sym, b), [pc.line, r]):
                    got = bool(op(x, y))
                reqs.append(r)
                cases.append(('concept[%d] %s concept[%d]' % (a, sym, b), got))
            # x <= y iff intent(y) subset of intent(x)
            if (E[a] & E[b] == E[a]) != (I[a] | I[b] == I[a]):
                run.fail('extent inclusion and intent inclusion disagree for concepts %d, %d' % (a, b), None, None, [pc.line], extra)
        for (what, got), r, ans in zip(cases, reqs, d.ask_many(reqs)):
            run.case(pc.line + '|' + what, nt, {'context': pc.line, 'call': what, 'truth': got})
            if ans != ('1' if got else '0'):
                run.fail(what, got, ans == '1', [pc.line, r], dict(extra, extents=E))
        run.count('contexts')
