import FCA.Model.Defn
/-
Further primitives of `tools.Unique` / `set` used by the statement-by-statement translation of `Definition` mutators
(`FCA/Generated/Defn.lean`); `Defn.step` itself states the same effects in closed form.
-/
namespace FCA

/-- `Unique.remove(item)` (`MutableSet.remove`): `KeyError` if absent, else discard -/
def uRemove (l : List Name) (x : Name) : Except Err (List Name) :=
  if l.contains x then .ok (l.filter (· != x)) else .error .keyError

/-- `set.difference_update(iterable)` on the pair list -/
def pDifference (ps : List (Name × Name)) (qs : List (Name × Name)) : List (Name × Name) :=
  ps.filter fun q => !qs.contains q

end FCA
