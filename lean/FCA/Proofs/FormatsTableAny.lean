import FCA.Proofs.FormatsTable
/-
The table loader on the text of an independent writer: arbitrary blank padding on both sides of
every cell text, any marks for the true cells, any indentation, trailing blanks and `#` comments
after the lines, blank lines and comment lines between them.
-/
namespace FCA

def blanks (n : Nat) : Str := List.replicate n ' '

/-- whitespace, then possibly a `#` comment: a blank line, a comment line, or what may follow the
closing `|` of a table line -/
def noiseLine : Str × Option Str → Str
  | (ws, none) => ws
  | (ws, some t) => ws ++ '#' :: t

/-- the whitespace is whitespace, and there is no line break -/
def NoiseOk (x : Str × Option Str) : Prop :=
  (∀ c ∈ x.1, isSpace c = true ∧ c ≠ '\n') ∧ ∀ t ∈ x.2, '\n' ∉ t

instance (x : Str × Option Str) : Decidable (NoiseOk x) := by
  obtain ⟨ws, t⟩ := x
  cases t with
  | none => exact decidable_of_iff (∀ c ∈ ws, isSpace c = true ∧ c ≠ '\n') (by simp [NoiseOk])
  | some t =>
    exact decidable_of_iff ((∀ c ∈ ws, isSpace c = true ∧ c ≠ '\n') ∧ '\n' ∉ t) (by simp [NoiseOk])

/-- the layout choices of a writer. Line `0` is the header, line `i+1` the line of object `i`;
cell `0` of a line is the object column, cell `j+1` the column of property `j`. -/
structure TableStyle where
  /-- blanks in front of a line -/
  indent : Nat → Nat
  /-- blanks on the left and on the right of the text of a cell (line, cell) -/
  pads : Nat → Nat → Nat × Nat
  /-- the text written into a true cell (object, property) -/
  mark : Nat → Nat → Str
  /-- what follows the closing `|` of a line -/
  trailer : Nat → Str × Option Str
  /-- blank and comment lines in front of a line (`objects.length + 1`: after the last line) -/
  noise : Nat → List (Str × Option Str)

/-- marks are non-blank texts without `|`, `#`, line break; noise is noise -/
def TableStyle.Ok (S : TableStyle) : Prop :=
  (∀ i j, TableLabel (S.mark i j)) ∧ (∀ k, NoiseOk (S.trailer k)) ∧ ∀ k, ∀ x ∈ S.noise k, NoiseOk x

/-- a cell text between its paddings -/
def padCell (lr : Nat × Nat) (t : Str) : Str := blanks lr.1 ++ t ++ blanks lr.2

/-- a data cell: the padded mark, or at least one blank -/
def flagCellW (lr : Nat × Nat) (m : Str) (b : Bool) : Str :=
  if b then padCell lr m else blanks (lr.1 + lr.2 + 1)

/-- a table line: indentation, cells each closed by `|`, trailer -/
def contentLine (indent : Nat) (cells : List Str) (tr : Str × Option Str) : Str :=
  blanks indent ++ (joinWith ['|'] cells ++ ['|']) ++ noiseLine tr

def headerCellsW (S : TableStyle) (properties : List Str) : List Str :=
  properties.zipIdx.map fun x => padCell (S.pads 0 (x.2 + 1)) x.1

def headerLineW (S : TableStyle) (properties : List Str) : Str :=
  contentLine (S.indent 0) (blanks ((S.pads 0 0).1 + (S.pads 0 0).2) :: headerCellsW S properties)
    (S.trailer 0)

def flagCellsW (S : TableStyle) (i : Nat) (row : List Bool) : List Str :=
  row.zipIdx.map fun x => flagCellW (S.pads (i + 1) (x.2 + 1)) (S.mark i x.2) x.1

def rowLineW (S : TableStyle) (i : Nat) (o : Str) (row : List Bool) : Str :=
  contentLine (S.indent (i + 1)) (padCell (S.pads (i + 1) 0) o :: flagCellsW S i row)
    (S.trailer (i + 1))

/-- the lines of the text -/
def tableLinesW (S : TableStyle) (objects properties : List Str) (bools : List (List Bool)) :
    List Str :=
  (S.noise 0).map noiseLine ++ [headerLineW S properties] ++
    ((objects.zip bools).zipIdx.flatMap fun x =>
      (S.noise (x.2 + 1)).map noiseLine ++ [rowLineW S x.2 x.1.1 x.1.2]) ++
    (S.noise (objects.length + 1)).map noiseLine

/-- the table as written by a writer with layout choices `S` -/
def dumpTableWith (S : TableStyle) (objects properties : List Str) (bools : List (List Bool)) : Str :=
  joinWith ['\n'] (tableLinesW S objects properties bools)

/-! ### generic list lemmas -/

theorem zipIdx_map_eq {α β : Type} {f : α × Nat → β} {g : α → β} (l : List α)
    (h : ∀ a ∈ l, ∀ j, f (a, j) = g a) (k : Nat) : (l.zipIdx k).map f = l.map g := by
  induction l generalizing k with
  | nil => rfl
  | cons a l ih =>
    rw [List.zipIdx_cons, List.map_cons, List.map_cons, h a (by simp),
      ih (fun b hb j => h b (by simp [hb]) j)]

theorem mem_zipIdx_fst {α : Type} {l : List α} {k : Nat} {x : α × Nat} (h : x ∈ l.zipIdx k) :
    x.1 ∈ l := by
  induction l generalizing k with
  | nil => simp at h
  | cons a l ih =>
    rw [List.zipIdx_cons, List.mem_cons] at h
    rcases h with rfl | h
    · simp
    · exact List.mem_cons_of_mem _ (ih h)

/-- the loader's first pass over a line -/
def cleanLine (l : Str) : Str := strip (partitionChar '#' l).1

theorem filter_clean_flatMap {α : Type} (L : List α) (N : α → List (Str × Option Str))
    (R : α → Str) (hN : ∀ x ∈ L, ∀ y ∈ N x, cleanLine (noiseLine y) = [])
    (hR : ∀ x ∈ L, cleanLine (R x) ≠ []) :
    ((L.flatMap fun x => (N x).map noiseLine ++ [R x]).map cleanLine).filter (!·.isEmpty) =
      L.map fun x => cleanLine (R x) := by
  induction L with
  | nil => rfl
  | cons x xs ih =>
    have h1 : (((N x).map noiseLine).map cleanLine).filter (!·.isEmpty) = [] := by
      rw [List.filter_eq_nil_iff]
      intro a ha
      simp only [List.mem_map] at ha
      obtain ⟨_, ⟨y, hy, rfl⟩, rfl⟩ := ha
      simp [hN x (by simp) y hy]
    have h2 : (!(cleanLine (R x)).isEmpty) = true := by
      have := hR x (by simp)
      cases h : cleanLine (R x) <;> simp_all
    rw [List.flatMap_cons, List.map_append, List.filter_append, List.map_append, List.filter_append,
      h1, ih (fun y hy => hN y (by simp [hy])) (fun y hy => hR y (by simp [hy]))]
    simp [h2]

/-! ### noise -/

theorem isSpace_hash : isSpace '#' = false := by decide

theorem partition_noise {a : Str} (ha : '#' ∉ a) {x : Str × Option Str} (hx : NoiseOk x) :
    (partitionChar '#' (a ++ noiseLine x)).1 = a ++ x.1 := by
  obtain ⟨ws, t⟩ := x
  have hws : '#' ∉ ws := by
    intro h
    have := (hx.1 _ h).1
    rw [isSpace_hash] at this
    exact absurd this (by decide)
  cases t with
  | none =>
    simp only [noiseLine]
    rw [partitionChar_nosep (by simp [ha, hws])]
  | some t =>
    simp only [noiseLine]
    rw [← List.append_assoc, partitionChar_append_sep (by simp [ha, hws])]

theorem clean_noise {x : Str × Option Str} (hx : NoiseOk x) : cleanLine (noiseLine x) = [] := by
  have := partition_noise (a := []) (by simp) hx
  simp only [List.nil_append] at this
  rw [cleanLine, this]
  exact stripBy_all fun c hc => (hx.1 c hc).1

theorem not_mem_noiseLine {x : Str × Option Str} (hx : NoiseOk x) : '\n' ∉ noiseLine x := by
  obtain ⟨ws, t⟩ := x
  have hws : '\n' ∉ ws := fun h => (hx.1 _ h).2 rfl
  cases t with
  | none => simpa [noiseLine] using hws
  | some t =>
    have := hx.2 t rfl
    simp [noiseLine, hws, this]

theorem mem_blanks {c : Char} {n : Nat} (h : c ∈ blanks n) : c = ' ' := List.eq_of_mem_replicate h

theorem blanks_space {n : Nat} : ∀ c ∈ blanks n, isSpace c = true := by
  intro c hc; rw [mem_blanks hc]; exact isSpace_space

/-- a table line after comment removal and `strip()`: indentation, left padding of the first cell
and the trailer are gone -/
theorem clean_content (indent l : Nat) {body : Str} {tr : Str × Option Str} (hb : '#' ∉ body)
    (hh : ∀ c ∈ body.head?, isSpace c = false) (hl : ∀ c ∈ body.getLast?, isSpace c = false)
    (htr : NoiseOk tr) :
    cleanLine (blanks indent ++ (blanks l ++ body) ++ noiseLine tr) = body := by
  have hno : '#' ∉ blanks indent ++ (blanks l ++ body) := by
    simp only [List.mem_append, not_or]
    exact ⟨fun h => absurd (mem_blanks h) (by decide), fun h => absurd (mem_blanks h) (by decide), hb⟩
  rw [cleanLine, partition_noise hno htr]
  have e : blanks indent ++ (blanks l ++ body) ++ tr.1 = (blanks indent ++ blanks l) ++ body ++ tr.1 := by
    simp
  rw [e]
  apply stripBy_pad _ (fun c hc => (htr.1 c hc).1) hh hl
  intro c hc
  rcases List.mem_append.1 hc with hc | hc <;> exact blanks_space c hc

/-! ### cells -/

theorem mem_padCell {c : Char} {lr : Nat × Nat} {t : Str} (h : c ∈ padCell lr t) : c ∈ t ∨ c = ' ' := by
  simp only [padCell, List.mem_append] at h
  rcases h with (h | h) | h
  · exact Or.inr (mem_blanks h)
  · exact Or.inl h
  · exact Or.inr (mem_blanks h)

theorem strip_padCell (lr : Nat × Nat) {t : Str} (h : TableLabel t) : strip (padCell lr t) = t :=
  stripBy_pad blanks_space blanks_space h.2.1 h.2.2.1

theorem padCell_ne_nil (lr : Nat × Nat) {t : Str} (h : t ≠ []) : padCell lr t ≠ [] := by
  simp [padCell, h]

/-- a cell of a table line: non-empty, made of blanks and the characters of a label -/
def CellLike (cell : Str) : Prop :=
  cell ≠ [] ∧ '|' ∉ cell ∧ '#' ∉ cell ∧ '\n' ∉ cell

theorem cellLike_padCell (lr : Nat × Nat) {t : Str} (h : TableLabel t) : CellLike (padCell lr t) := by
  refine ⟨padCell_ne_nil lr h.1, ?_, ?_, ?_⟩ <;> intro hm <;> rcases mem_padCell hm with hm | hm
  · exact h.2.2.2.2.1 hm
  · exact absurd hm (by decide)
  · exact h.2.2.2.2.2 hm
  · exact absurd hm (by decide)
  · exact h.2.2.2.1 hm
  · exact absurd hm (by decide)

theorem cellLike_blanks (n : Nat) : CellLike (blanks (n + 1)) := by
  refine ⟨by simp [blanks, List.replicate_succ], ?_, ?_, ?_⟩ <;>
    exact fun hm => absurd (mem_blanks hm) (by decide)

theorem cellLike_flagCellW (lr : Nat × Nat) {m : Str} (hm : TableLabel m) (b : Bool) :
    CellLike (flagCellW lr m b) := by
  cases b
  · exact cellLike_blanks _
  · exact cellLike_padCell lr hm

theorem decode_flagCellW (lr : Nat × Nat) {m : Str} (hm : TableLabel m) (b : Bool) :
    (!(strip (flagCellW lr m b)).isEmpty) = b := by
  cases b
  · simp only [flagCellW, Bool.false_eq_true, if_false]
    rw [blanks, strip_replicate_space]; rfl
  · simp only [flagCellW, if_true]
    rw [strip_padCell lr hm]
    have := hm.1
    cases m <;> simp_all

/-- cells joined by `|` survive `strip('|')` and `split('|')` -/
theorem split_cells {cells : List Str} (hne : cells ≠ []) (h : ∀ c ∈ cells, CellLike c) :
    splitChar '|' (stripBar (joinWith ['|'] cells ++ ['|'])) = cells := by
  have hnb : ∀ cell ∈ cells, '|' ∉ cell := fun c hc => (h c hc).2.1
  have hstrip : stripBar (joinWith ['|'] cells ++ ['|']) = joinWith ['|'] cells := by
    have := stripBy_pad (p := (· == '|')) (a := []) (b := ['|'])
      (s := joinWith ['|'] cells) (by simp) (by simp) ?_ ?_
    · simpa [stripBar] using this
    · cases hc : cells with
      | nil => exact absurd hc hne
      | cons x xs =>
        have hx : x ∈ cells := by simp [hc]
        rw [head?_joinWith (h x hx).1]
        intro c hcm
        have hm := List.mem_of_mem_head? hcm
        simp only [beq_eq_false_iff_ne, ne_eq]
        rintro rfl; exact hnb x hx hm
    · apply getLast?_joinWith (P := fun c => (c == '|') = false)
      intro l hlm
      refine ⟨(h l hlm).1, ?_⟩
      intro c hcm
      have hm := List.mem_of_getLast? hcm
      simp only [beq_eq_false_iff_ne, ne_eq]
      rintro rfl; exact hnb l hlm hm
  rw [hstrip, splitChar_joinWith hne hnb]

theorem not_mem_cells {ch : Char} (hbar : ch ≠ '|') {cells : List Str} (h : ∀ c ∈ cells, ch ∉ c) :
    ch ∉ joinWith ['|'] cells ++ ['|'] := by
  simp only [List.mem_append, List.mem_singleton, not_or]
  exact ⟨not_mem_joinWith (by simpa using hbar) h, hbar⟩

/-! ### the header line -/

theorem headerCellsW_like (S : TableStyle) {properties : List Str}
    (hp : ∀ p ∈ properties, TableLabel p) : ∀ c ∈ headerCellsW S properties, CellLike c := by
  intro c hc
  simp only [headerCellsW, List.mem_map] at hc
  obtain ⟨x, hx, rfl⟩ := hc
  exact cellLike_padCell _ (hp _ (mem_zipIdx_fst hx))

theorem headerCellsW_ne_nil (S : TableStyle) {properties : List Str} (hp : properties ≠ []) :
    headerCellsW S properties ≠ [] := by
  cases properties with
  | nil => contradiction
  | cons p ps => simp [headerCellsW, List.zipIdx_cons]

theorem headerCellsW_strip (S : TableStyle) {properties : List Str}
    (hp : ∀ p ∈ properties, TableLabel p) : (headerCellsW S properties).map strip = properties := by
  rw [headerCellsW, List.map_map]
  have := zipIdx_map_eq (f := strip ∘ fun x : Str × Nat => padCell (S.pads 0 (x.2 + 1)) x.1) (g := id)
    properties (fun a ha j => strip_padCell _ (hp a ha)) 0
  simpa using this

/-- the body of a line after the first cell: `|`, the other cells, each closed by `|` -/
def barCells (cells : List Str) : Str := '|' :: (joinWith ['|'] cells ++ ['|'])

theorem contentLine_eq (indent : Nat) (c0 : Str) {cells : List Str} (hne : cells ≠ [])
    (tr : Str × Option Str) :
    contentLine indent (c0 :: cells) tr = blanks indent ++ (c0 ++ barCells cells) ++ noiseLine tr := by
  cases cells with
  | nil => contradiction
  | cons x xs => rw [contentLine, joinWith_cons_cons, barCells]; simp

theorem barCells_last (cells : List Str) : ∀ c ∈ (barCells cells).getLast?, isSpace c = false := by
  intro c hc
  have : (barCells cells).getLast? = some '|' := by
    rw [barCells, ← List.cons_append, List.getLast?_append_of_ne_nil _ (by simp)]; rfl
  rw [this] at hc
  cases hc; decide

theorem clean_headerLineW (S : TableStyle) (hS : S.Ok) {properties : List Str} (hpne : properties ≠ [])
    (hp : ∀ p ∈ properties, TableLabel p) :
    cleanLine (headerLineW S properties) = barCells (headerCellsW S properties) := by
  rw [headerLineW, contentLine_eq _ _ (headerCellsW_ne_nil S hpne)]
  apply clean_content
  · have := not_mem_cells (ch := '#') (by decide)
      (fun c hc => (headerCellsW_like S hp c hc).2.2.1)
    simpa [barCells] using this
  · simp [barCells]; decide
  · exact barCells_last _
  · exact hS.2.1 0

theorem header_parse (S : TableStyle) {properties : List Str} (hpne : properties ≠ [])
    (hp : ∀ p ∈ properties, TableLabel p) :
    (splitChar '|' (stripBar (barCells (headerCellsW S properties)))).map strip = properties := by
  have e : stripBar (barCells (headerCellsW S properties)) =
      stripBar (joinWith ['|'] (headerCellsW S properties) ++ ['|']) := by
    unfold stripBar stripBy barCells
    rw [show '|' :: (joinWith ['|'] (headerCellsW S properties) ++ ['|']) =
      ['|'] ++ (joinWith ['|'] (headerCellsW S properties) ++ ['|']) from rfl,
      lstripBy_append_left (by simp)]
  rw [e, split_cells (headerCellsW_ne_nil S hpne) (headerCellsW_like S hp), headerCellsW_strip S hp]

/-! ### an object line -/

theorem flagCellsW_like (S : TableStyle) (hS : S.Ok) (i : Nat) (row : List Bool) :
    ∀ c ∈ flagCellsW S i row, CellLike c := by
  intro c hc
  simp only [flagCellsW, List.mem_map] at hc
  obtain ⟨x, _, rfl⟩ := hc
  exact cellLike_flagCellW _ (hS.1 _ _) _

theorem flagCellsW_ne_nil (S : TableStyle) (i : Nat) {row : List Bool} (h : row ≠ []) :
    flagCellsW S i row ≠ [] := by
  cases row with
  | nil => contradiction
  | cons b bs => simp [flagCellsW, List.zipIdx_cons]

theorem flagCellsW_decode (S : TableStyle) (hS : S.Ok) (i : Nat) (row : List Bool) :
    (flagCellsW S i row).map (fun f => !(strip f).isEmpty) = row := by
  rw [flagCellsW, List.map_map]
  have := zipIdx_map_eq (f := (fun f => !(strip f).isEmpty) ∘
      fun x : Bool × Nat => flagCellW (S.pads (i + 1) (x.2 + 1)) (S.mark i x.2) x.1) (g := id)
    row (fun b _ j => decode_flagCellW _ (hS.1 i j) b) 0
  simpa using this

/-- the object line after the first pass: the object, its right padding, the flag cells -/
def cleanRowW (S : TableStyle) (i : Nat) (o : Str) (row : List Bool) : Str :=
  (o ++ blanks (S.pads (i + 1) 0).2) ++ barCells (flagCellsW S i row)

theorem clean_rowLineW (S : TableStyle) (hS : S.Ok) (i : Nat) {o : Str} (ho : TableLabel o)
    {row : List Bool} (hrow : row ≠ []) :
    cleanLine (rowLineW S i o row) = cleanRowW S i o row := by
  rw [rowLineW, contentLine_eq _ _ (flagCellsW_ne_nil S i hrow)]
  have e : padCell (S.pads (i + 1) 0) o ++ barCells (flagCellsW S i row) =
      blanks (S.pads (i + 1) 0).1 ++ cleanRowW S i o row := by
    simp [padCell, cleanRowW]
  rw [e]
  apply clean_content
  · have := not_mem_cells (ch := '#') (by decide)
      (fun c hc => (flagCellsW_like S hS i row c hc).2.2.1)
    simp only [cleanRowW, List.mem_append, not_or]
    refine ⟨⟨ho.2.2.2.2.2, fun h => absurd (mem_blanks h) (by decide)⟩, ?_⟩
    simpa [barCells] using this
  · rw [cleanRowW, List.append_assoc, List.head?_append_of_ne_nil _ ho.1]
    exact ho.2.1
  · rw [cleanRowW, List.getLast?_append_of_ne_nil _ (by simp [barCells])]
    exact barCells_last _
  · exact hS.2.1 _

theorem row_parse (S : TableStyle) (hS : S.Ok) (i : Nat) {o : Str} (ho : TableLabel o)
    {row : List Bool} (hrow : row ≠ []) :
    (let (obj, _, flags) := partitionChar '|' (cleanRowW S i o row);
      (strip obj, (splitChar '|' (stripBar flags)).map fun f => !(strip f).isEmpty)) = (o, row) := by
  have hbar : '|' ∉ o ++ blanks (S.pads (i + 1) 0).2 := by
    simp only [List.mem_append, not_or]
    exact ⟨ho.2.2.2.2.1, fun h => absurd (mem_blanks h) (by decide)⟩
  rw [cleanRowW, barCells, partitionChar_append_sep hbar]
  simp only []
  have h1 : strip (o ++ blanks (S.pads (i + 1) 0).2) = o := by
    have := stripBy_pad (p := isSpace) (a := []) (b := blanks (S.pads (i + 1) 0).2) (s := o)
      (by simp) blanks_space ho.2.1 ho.2.2.1
    simpa [strip] using this
  rw [h1, split_cells (flagCellsW_ne_nil S i hrow) (flagCellsW_like S hS i row),
    flagCellsW_decode S hS]

/-! ### the whole text -/

theorem not_mem_contentLine {indent : Nat} {cells : List Str} {tr : Str × Option Str}
    (hc : ∀ c ∈ cells, '\n' ∉ c) (htr : NoiseOk tr) : '\n' ∉ contentLine indent cells tr := by
  rw [contentLine]
  simp only [List.mem_append, not_or]
  refine ⟨⟨fun h => absurd (mem_blanks h) (by decide), ?_⟩, not_mem_noiseLine htr⟩
  have := not_mem_cells (ch := '\n') (by decide) hc
  simpa using this

theorem loadTable_dumpTableWith (S : TableStyle) (hS : S.Ok) {objects properties : List Str}
    {bools : List (List Bool)} (hr : Rect objects properties bools)
    (ho : ∀ o ∈ objects, TableLabel o) (hp : ∀ p ∈ properties, TableLabel p) :
    loadTable (dumpTableWith S objects properties bools) = .ok (objects, properties, bools) := by
  obtain ⟨hone, hpne, hlen, hrow⟩ := hr
  have hzo : ∀ x ∈ objects.zip bools, TableLabel x.1 := fun x hx =>
    ho _ (List.of_mem_zip (a := x.1) (b := x.2) hx).1
  have hzr : ∀ x ∈ objects.zip bools, x.2 ≠ [] := by
    intro x hx h
    have := hrow _ (List.of_mem_zip (a := x.1) (b := x.2) hx).2
    rw [h] at this
    exact hpne (List.eq_nil_of_length_eq_zero this.symm)
  -- no line contains a line break
  have hnl : ∀ l ∈ tableLinesW S objects properties bools, '\n' ∉ l := by
    intro l hl
    simp only [tableLinesW, List.mem_append, List.mem_map, List.mem_singleton, List.mem_flatMap] at hl
    rcases hl with ((⟨y, hy, rfl⟩ | rfl) | ⟨x, hx, ⟨y, hy, rfl⟩ | rfl⟩) | ⟨y, hy, rfl⟩
    · exact not_mem_noiseLine (hS.2.2 _ y hy)
    · apply not_mem_contentLine _ (hS.2.1 0)
      intro c hc
      rcases List.mem_cons.1 hc with rfl | hc
      · exact fun h => absurd (mem_blanks h) (by decide)
      · exact (headerCellsW_like S hp c hc).2.2.2
    · exact not_mem_noiseLine (hS.2.2 _ y hy)
    · apply not_mem_contentLine _ (hS.2.1 _)
      intro c hc
      rcases List.mem_cons.1 hc with rfl | hc
      · exact (cellLike_padCell _ (hzo _ (mem_zipIdx_fst hx))).2.2.2
      · exact (flagCellsW_like S hS _ _ c hc).2.2.2
    · exact not_mem_noiseLine (hS.2.2 _ y hy)
  have hne : tableLinesW S objects properties bools ≠ [] := by simp [tableLinesW]
  have hsplit : splitChar '\n' (dumpTableWith S objects properties bools) =
      tableLinesW S objects properties bools := splitChar_joinWith hne hnl
  -- the loader's first pass keeps the header and the object lines
  have hnoise : ∀ k, (((S.noise k).map noiseLine).map cleanLine).filter (!·.isEmpty) = [] := by
    intro k
    rw [List.filter_eq_nil_iff]
    intro a ha
    simp only [List.mem_map] at ha
    obtain ⟨_, ⟨y, hy, rfl⟩, rfl⟩ := ha
    simp [clean_noise (hS.2.2 k y hy)]
  have hhdr : cleanLine (headerLineW S properties) = barCells (headerCellsW S properties) :=
    clean_headerLineW S hS hpne hp
  have hrows : (((objects.zip bools).zipIdx.flatMap fun x =>
        (S.noise (x.2 + 1)).map noiseLine ++ [rowLineW S x.2 x.1.1 x.1.2]).map cleanLine).filter
          (!·.isEmpty) =
      (objects.zip bools).zipIdx.map fun x => cleanRowW S x.2 x.1.1 x.1.2 := by
    rw [filter_clean_flatMap _ (fun x : (Str × List Bool) × Nat => S.noise (x.2 + 1))
      (fun x : (Str × List Bool) × Nat => rowLineW S x.2 x.1.1 x.1.2)]
    · apply List.map_congr_left
      intro x hx
      exact clean_rowLineW S hS x.2 (hzo _ (mem_zipIdx_fst hx)) (hzr _ (mem_zipIdx_fst hx))
    · intro x _ y hy
      exact clean_noise (hS.2.2 _ y hy)
    · intro x hx
      rw [clean_rowLineW S hS x.2 (hzo _ (mem_zipIdx_fst hx)) (hzr _ (mem_zipIdx_fst hx))]
      simp [cleanRowW, barCells]
  have hlines : ((splitChar '\n' (dumpTableWith S objects properties bools)).map
      (fun l => strip (partitionChar '#' l).1)).filter (!·.isEmpty) =
      barCells (headerCellsW S properties) ::
        (objects.zip bools).zipIdx.map fun x => cleanRowW S x.2 x.1.1 x.1.2 := by
    rw [hsplit, tableLinesW]
    change (List.map cleanLine _).filter _ = _
    simp only [List.map_append, List.filter_append, hnoise, hrows, List.map_cons, List.map_nil,
      hhdr, List.nil_append, List.append_nil]
    simp [barCells]
  have htable : ((objects.zip bools).zipIdx.map fun x => cleanRowW S x.2 x.1.1 x.1.2).map
      (fun objflags =>
        let (obj, _, flags) := partitionChar '|' objflags
        (strip obj, (splitChar '|' (stripBar flags)).map fun f => !(strip f).isEmpty)) =
      objects.zip bools := by
    rw [List.map_map]
    have e : (objects.zip bools).zipIdx.map ((fun objflags : Str =>
        let (obj, _, flags) := partitionChar '|' objflags
        (strip obj, (splitChar '|' (stripBar flags)).map fun f => !(strip f).isEmpty)) ∘
        fun x : (Str × List Bool) × Nat => cleanRowW S x.2 x.1.1 x.1.2) =
        (objects.zip bools).zipIdx.map Prod.fst := by
      apply List.map_congr_left
      intro x hx
      exact row_parse S hS x.2 (hzo _ (mem_zipIdx_fst hx)) (hzr _ (mem_zipIdx_fst hx))
    rw [e, List.zipIdx_map_fst]
  unfold loadTable
  simp only [hlines, htable, header_parse S hpne hp]
  have hz : (objects.zip bools).isEmpty = false := by
    cases objects with
    | nil => contradiction
    | cons o os =>
      cases bools with
      | nil => simp at hlen
      | cons b bs => rfl
  rw [hz]
  simp only [Bool.false_eq_true, if_false]
  rw [List.map_fst_zip (by omega), List.map_snd_zip (by omega)]

end FCA
