"""C20 - the Graphviz export is a faithful drawing of the labelled Hasse diagram."""
import functools
import re
from collections import Counter
from core import guard
from props import lat
import gen

ATTR = re.compile(r'(\w+)=("(?:[^"\\]|\\.)*"|[^\s\]]+)')
EDGE = re.compile(r'^(\w+) -> (\w+)(?: \[(.*)\])?$')
NODE = re.compile(r'^(\w+)(?: \[(.*)\])?$')


def unquote(v):
    if v.startswith('"') and v.endswith('"'):
        return v[1:-1].replace('\\"', '"')
    return v


def parse_body(body):
    """DOT statements of graphviz.Digraph.body -> canonical items (own small parser)."""
    items = []
    for line in body:
        s = line.strip()
        if not s:
            continue
        me = EDGE.match(s)
        if me:
            a, b, attrs = me.group(1), me.group(2), me.group(3)
            attrs = {k: unquote(v) for k, v in ATTR.findall(attrs or '')}
            if 'headlabel' in attrs or 'taillabel' in attrs:
                if a != b:
                    items.append('badlabel %s' % s)
                    continue
                if 'headlabel' in attrs:
                    items.append('o%s=%s' % (a[1:], attrs['headlabel']))
                if 'taillabel' in attrs:
                    items.append('p%s=%s' % (a[1:], attrs['taillabel']))
            else:
                items.append('e%s-%s' % (a[1:], b[1:]))
            continue
        mn = NODE.match(s)
        if mn and mn.group(1) not in ('node', 'edge', 'graph'):
            items.append('n%s' % mn.group(1)[1:])
            if not mn.group(1).startswith('c'):
                items.append('badnode %s' % s)
        elif not mn:
            items.append('unparsed %s' % s)
    return items


def _opt_second(names, sep=', '):
    return 'L(%s)' % sep.join(names)


def _opt_flag(names, upper=False, *, tail='!'):
    text = '+'.join(names) + tail
    return text.upper() if upper else text


def _varargs(*args, **kwargs):
    if len(args) != 1 or kwargs:
        return 'called with %d positional and %d keyword arguments' % (len(args), len(kwargs))
    return 'V:%s' % ' '.join(args[0])


class _Labeller:
    """a callable object whose __call__ has further optional parameters"""

    def __init__(self, sep):
        self.sep = sep

    def __call__(self, names, concept=None, index=None):
        if concept is not None or index is not None:
            return 'unexpected extra argument'
        return self.sep.join(names)


CALLBACKS = [
    ('default', None, None),
    # ordinary names-only callbacks of other signatures: optional further parameters, *args wrappers, partials, callable objects,
    # bound builtins (the text must be callback(names), whatever else the callable could accept)
    ('optional-second-parameter', _opt_second, _opt_flag),
    ('varargs-wrapper', _varargs, _Labeller('~')),
    ('partial / bound builtin', functools.partial(_opt_flag, tail='?'), ', '.join),
    ('braces', lambda names: '{%s}' % ','.join(names), lambda names: '<%s>' % ';'.join(names)),
    ('count', lambda names: '%d objs' % len(list(names)), lambda names: ''),
    ('objects-only', lambda names: '[%s]' % '+'.join(names), None),
    ('properties-only', None, lambda names: '(%s)' % '/'.join(names)),
    # callbacks that look at their argument more than once
    ('two-pass', lambda names: '%d:%s' % (len(tuple(names)), '+'.join(names)), lambda names: '%s|%s' % ('/'.join(names), '/'.join(sorted(names)))),
]


def run(run):
    run.rule = ('contexts as C03 (incl. one- and two-concept lattices, several labels on one concept); lattice.graphviz() with the '
                'default and with custom label callbacks, twice on the same lattice; DOT body parsed by an independent statement '
                'parser and compared as a multiset of node / label / edge items with the model\'s drawing')
    d = run.driver
    for tab, pc in lat.contexts(run, exh_quick=8, rand_quick=200, wide_quick=10, exh_thorough=13, nmax=9, mmax=9):
        if min(pc.n, pc.m) > 10:
            continue
        extra = {'objects': pc.objects, 'properties': pc.properties, 'bools': pc.bools}
        ans = d.ask('dot').split(' ')
        with guard(run, 'lattice', [pc.line]):
            L = pc.ctx.lattice
        order = [(name, mo, mp, L) for name, mo, mp in CALLBACKS]
        run.rng.shuffle(order)
        if len(L) <= 120 and run.evaluations % 3 == 0:
            import copy
            import pickle
            with guard(run, 'pickle / copy of the lattice', [pc.line, 'dot']):
                order.append(('default on a pickle round trip', None, None, pickle.loads(pickle.dumps(L))))
                order.append(('default on copy.copy', None, None, copy.copy(L)))
                order.append(('default again on the original', None, None, L))
        for name, mo, mp, L in order:
            kw = {}
            if mo is not None:
                kw['make_object_label'] = mo
            if mp is not None:
                kw['make_property_label'] = mp
            fo = mo or ' '.join
            fp = mp or ' '.join
            with guard(run, 'lattice.graphviz(%s callbacks)' % name, [pc.line, 'dot']):
                dot = L.graphviz(**kw)
                got = parse_body(dot.body)
                undirected = dot.edge_attr.get('dir') == 'none'
            want = []
            for it in ans:
                if it[0] in 'op' and '=' in it:
                    k, idx = it[1:].split('=')
                    idx = [int(x) for x in idx.split(',')]
                    text = fo([pc.objects[i] for i in idx]) if it[0] == 'o' else fp([pc.properties[i] for i in idx])
                    want.append('%s%s=%s' % (it[0], k, text))
                else:
                    want.append(it)
            run.case(pc.line + '|' + name, gen.nontrivial(tab), {'context': pc.line, 'callbacks': name, 'items': got[:10]})
            if Counter(got) != Counter(want):
                miss = list((Counter(want) - Counter(got)).elements())
                spur = list((Counter(got) - Counter(want)).elements())
                run.fail('DOT items of lattice.graphviz(%s callbacks)' % name, sorted(got), sorted(want), [pc.line, 'dot'],
                         dict(extra, missing=miss, spurious=spur))
            if not undirected:
                run.fail('edges are not undirected (dir=none)', dict(dot.edge_attr), None, [pc.line, 'dot'], extra)
        run.count('contexts')
