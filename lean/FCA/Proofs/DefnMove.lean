import FCA.Proofs.Defn
/-
`Unique.move`: exact position semantics.
-/
namespace FCA

/-- Python's index clamping of `list.insert` -/
def clampIdx (len : Nat) (i : Int) : Nat :=
  (if i < 0 then (if i + (len : Int) < 0 then 0 else i + len) else (if i > (len : Int) then (len : Int) else i)).toNat

theorem clampIdx_le (len : Nat) (i : Int) : clampIdx len i ≤ len := by
  unfold clampIdx
  split_ifs <;> omega

theorem clampIdx_spec (len : Nat) (i : Int) :
    (clampIdx len i : Int) = if i < 0 then max 0 (i + len) else min i len := by
  unfold clampIdx
  split_ifs <;> omega

theorem pyInsert_eq (l : List Name) (i : Int) (x : Name) :
    pyInsert l i x = l.take (clampIdx l.length i) ++ x :: l.drop (clampIdx l.length i) := by
  simp [pyInsert, clampIdx]

theorem eraseIdx_eq_filter {l : List Name} {idx : Nat} {x : Name} (hn : l.Nodup)
    (hlt : idx < l.length) (hx : l[idx] = x) : l.eraseIdx idx = l.filter (· != x) := by
  have hl : l = l.take idx ++ x :: l.drop (idx + 1) := by
    rw [← hx]; simp
  have hn' := hn
  rw [hl, List.nodup_append] at hn'
  obtain ⟨_, h2, h3⟩ := hn'
  rw [List.nodup_cons] at h2
  rw [List.eraseIdx_eq_take_drop_succ]
  conv_rhs => rw [hl]
  rw [List.filter_append, List.filter_cons]
  simp only [bne_self_eq_false, Bool.false_eq_true, if_false]
  congr 1
  · symm
    rw [List.filter_eq_self]
    intro a ha
    simp only [bne_iff]
    exact h3 a ha x List.mem_cons_self
  · symm
    rw [List.filter_eq_self]
    intro a ha
    simp only [bne_iff]
    rintro rfl
    exact h2.1 ha

/-- `Unique.move(x, i)`: unknown name is rejected; if `x` already sits at index `i` nothing
changes; otherwise `x` is taken out and inserted at the (clamped) index `i` of the remaining list -/
theorem uMove_spec {l l' : List Name} {x : Name} {i : Int} (hn : l.Nodup) (h : uMove l x i = .ok l') :
    x ∈ l ∧
    ((l' = l ∧ ∃ idx : Nat, l[idx]? = some x ∧ (idx : Int) = i) ∨
     (l' = (l.filter (· != x)).take (clampIdx (l.length - 1) i) ++
            x :: (l.filter (· != x)).drop (clampIdx (l.length - 1) i) ∧
      ∀ idx : Nat, l[idx]? = some x → (idx : Int) ≠ i)) := by
  have hmem := (uMove_perm h).2
  refine ⟨hmem, ?_⟩
  unfold uMove at h
  split at h
  · cases h
  · rename_i idx hidx
    rw [List.findIdx?_eq_some_iff_getElem] at hidx
    obtain ⟨hlt, hx, _⟩ := hidx
    have hx' : l[idx] = x := by simpa using hx
    split at h
    · rename_i hi
      cases h
      exact Or.inl ⟨rfl, idx, by simp [hlt, hx'], hi⟩
    · rename_i hi
      cases h
      refine Or.inr ⟨?_, ?_⟩
      · rw [pyInsert_eq, eraseIdx_eq_filter hn hlt hx']
        have : (l.filter (· != x)).length = l.length - 1 := by
          rw [← eraseIdx_eq_filter hn hlt hx', List.length_eraseIdx]; simp [hlt]
        rw [this]
      · intro j hj hji
        rw [List.getElem?_eq_some_iff] at hj
        obtain ⟨hjlt, hjx⟩ := hj
        have : j = idx := (List.Nodup.getElem_inj_iff hn).mp (hjx.trans hx'.symm)
        subst this
        exact hi hji

/-- the other names keep their relative order (no duplicate-freeness needed) -/
theorem uMove_filter {l l' : List Name} {x : Name} {i : Int} (h : uMove l x i = .ok l') :
    l'.filter (· != x) = l.filter (· != x) := by
  unfold uMove at h
  split at h
  · cases h
  · rename_i idx hidx
    rw [List.findIdx?_eq_some_iff_getElem] at hidx
    obtain ⟨hlt, hx, _⟩ := hidx
    have hx' : l[idx] = x := by simpa using hx
    split at h
    · cases h; rfl
    · cases h
      rw [pyInsert_eq]
      have hl : l = l.take idx ++ x :: l.drop (idx + 1) := by
        rw [← hx']; simp
      rw [List.filter_append, List.filter_cons]
      simp only [bne_self_eq_false, Bool.false_eq_true, if_false]
      rw [← List.filter_append, List.take_append_drop, List.eraseIdx_eq_take_drop_succ]
      conv_rhs => rw [hl]
      rw [List.filter_append, List.filter_append, List.filter_cons]
      simp only [bne_self_eq_false, Bool.false_eq_true, if_false]

end FCA
