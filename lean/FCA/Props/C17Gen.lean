import FCA.Generated.Derive
import FCA.Generated.Defn
import FCA.Props.C17
import FCA.Props.C13Gen
/-
C17 over the regenerated source: the two places where the *order* of names reaches an observable through code that used to
(D1) or could iterate a hash-ordered collection — the pairs listed in the conflict `ValueError` and the names appended by
`set_object` / `set_property` — stated for the code translated from the current `definitions.py`.
-/
namespace FCA

/-- the conflict list of the current source is a filter of the right operand's table order: no enumeration of a `set` is involved -/
theorem C17_generated_conflicts_order (l r : Defn) :
    Generated.conflicting_pairs l r = (r.objs.flatMap fun o => r.props.map fun p => (o, p)).filter fun q =>
      l.objs.contains q.1 && (l.props.contains q.2 && (l.pairs.contains q != r.pairs.contains q)) :=
  C17_conflicts_order l r

/-- `set_object` of the current source appends the new property names in the order given (first occurrences) -/
theorem C17_generated_set_object_order (d : Defn) (o : Name) (ps : List Name) (d' : Defn)
    (h : Generated.defn_set_object d.objs d.props d.pairs o ps = .ok d') :
    d'.props = d.props ++ uniq (ps.filter (fun x => !d.props.contains x)) := by
  rw [C13_generated_set_object] at h
  cases hs : d.step (.setObject o ps) with
  | error e => rw [hs] at h; cases h
  | ok v =>
    obtain ⟨d'', r⟩ := v
    rw [hs] at h
    have : d'' = d' := by simpa [Except.map] using h
    subst this
    exact C17_set_object_order d o ps d'' r hs

/-- `set_property` likewise for the new object names -/
theorem C17_generated_set_property_order (d : Defn) (p : Name) (os : List Name) (d' : Defn)
    (h : Generated.defn_set_property d.objs d.props d.pairs p os = .ok d') :
    d'.objs = d.objs ++ uniq (os.filter (fun x => !d.objs.contains x)) := by
  rw [C13_generated_set_property] at h
  cases hs : d.step (.setProperty p os) with
  | error e => rw [hs] at h; cases h
  | ok v =>
    obtain ⟨d'', r⟩ := v
    rw [hs] at h
    have : d'' = d' := by simpa [Except.map] using h
    subst this
    exact C17_set_property_order d p os d'' r hs

end FCA
#print axioms FCA.C17_generated_conflicts_order
#print axioms FCA.C17_generated_set_object_order
#print axioms FCA.C17_generated_set_property_order
