"""C18 - attributes() enumerates exactly the generating property sets, shortest first."""
from core import guard
from props import lat
import gen


def run(run):
    run.rule = ('contexts as C03 with intents of at most 12 properties; for every concept list(attributes()) and minimal() against '
                'the model\'s shortlex-ordered filter of the powerset; every yielded set regenerates the concept via lattice(...)')
    d = run.driver
    for tab, pc in lat.contexts(run, exh_quick=10, rand_quick=300, wide_quick=0, exh_thorough=14, nmax=9, mmax=9):
        if pc.m > 12 or pc.n > 40:
            continue
        extra = {'objects': pc.objects, 'properties': pc.properties, 'bools': pc.bools}
        with guard(run, 'lattice', [pc.line]):
            L = pc.ctx.lattice
            cs = list(L)
        reqs, cases = [], []
        mlat = lat.parse_lattice(d.ask('lattice'))
        mpos = {c['extent']: k for k, c in enumerate(mlat)}
        for k, c in enumerate(cs):
            with guard(run, 'concept[%d].attributes() / minimal()' % k, [pc.line]):
                e, i = pc.omask(c.extent), pc.pmask(c.intent)
                if k % 2:
                    next(c.attributes(), None)      # a partly consumed, abandoned iterator must not matter
                attrs = list(c.attributes())
                got = [pc.pmask(a) for a in attrs]
                mini = pc.pmask(c.minimal())
                if len(cs) <= 40:
                    for a in attrs[:6]:
                        if L(a) is not c:
                            run.fail('lattice(%r) does not regenerate concept %d' % (a, k), None, None, [pc.line], extra)
            reqs.append('minimize %d %d' % (e, i))
            cases.append((k, e, got, mini))
        nt = gen.nontrivial(tab)
        for (k, e, got, mini), r, ans in zip(cases, reqs, d.ask_many(reqs)):
            want = [] if ans == '-' else [int(x) for x in ans.split(',')]
            run.case(pc.line + '|' + r, nt, {'context': pc.line, 'concept extent': e, 'attributes (masks)': got[:8]})
            if got != want:
                run.fail('list(concept[%d].attributes())' % k, got, want, [pc.line, r], extra)
            if not want or mini != want[0]:
                run.fail('concept[%d].minimal()' % k, mini, want[0] if want else None, [pc.line, r], extra)
            if e in mpos:
                rm = 'cminimal %d' % mpos[e]
                am = d.ask(rm)
                if str(mini) != am:
                    run.fail('concept[%d].minimal() (model with the Infimum override)' % k, mini, am, [pc.line, rm], extra)
            if len(want) > 1 and e:
                run.count('concepts with several generators')
        run.count('contexts')
        if cs and pc.omask(cs[0].extent):
            run.count('infimum with non-empty extent')
