import FCA.Proofs.PyLiteralStr
/-
Int literals, blanks and the display loop `litSeqLoop` / `parseSeq` of the python-literal reader:
one-step lemmas and the read-back of `repr` of int tuples and lattice entries.
-/
namespace FCA

/-! ### ints -/

/-- the text after an int must not go on with a digit -/
def NoDigitHead (r : Str) : Prop := ∀ c t, r = c :: t → c.isDigit = false

theorem noDigitHead_cons {c : Char} {t : Str} (h : c.isDigit = false) : NoDigitHead (c :: t) := by
  intro c' t' e
  cases e
  exact h

theorem takeWhile_digits_append (ds r : Str) (hd : ∀ c ∈ ds, c.isDigit = true) (hr : NoDigitHead r) :
    (ds ++ r).takeWhile Char.isDigit = ds ∧ (ds ++ r).dropWhile Char.isDigit = r := by
  induction ds with
  | nil =>
    cases r with
    | nil => simp
    | cons c t => simp [hr c t rfl]
  | cons d ds ih =>
    have h1 := hd d (by simp)
    have := ih (fun c hc => hd c (by simp [hc]))
    simp [h1, this]

theorem toDigits_head_ne_zero (n : Nat) (hn : 0 < n) : (Nat.toDigits 10 n).head? ≠ some '0' := by
  induction n using Nat.strong_induction_on with
  | _ n ih =>
    by_cases h : n < 10
    · rw [Nat.toDigits_of_lt_base h]
      interval_cases n <;> decide
    · rw [Nat.toDigits_of_base_le (by norm_num) (by omega)]
      have hne : Nat.toDigits 10 (n / 10) ≠ [] := Nat.toDigits_ne_nil
      cases hd : Nat.toDigits 10 (n / 10) with
      | nil => exact absurd hd hne
      | cons a l =>
        have := ih (n / 10) (by omega) (by omega)
        rw [hd] at this
        simpa using this

theorem pyReprNat_digits (n : Nat) : ∀ c ∈ pyReprNat n, c.isDigit = true := by
  intro c hc
  simp only [pyReprNat, Nat.toString_eq_repr, Nat.toList_repr] at hc
  exact Nat.isDigit_of_mem_toDigits (by decide) (by decide) hc

theorem pyReprNat_ne_nil (n : Nat) : pyReprNat n ≠ [] := by
  simp [pyReprNat]

/-- `int(repr(n)) == n` in front of any text that does not go on with a digit -/
theorem parseNatLit_repr (n : Nat) (r : Str) (hr : NoDigitHead r) :
    parseNatLit (pyReprNat n ++ r) = some (n, r) := by
  obtain ⟨h1, h2⟩ := takeWhile_digits_append (pyReprNat n) r (pyReprNat_digits n) hr
  have hval : (pyReprNat n).foldl (fun a c => 10 * a + (c.toNat - 48)) 0 = n := by
    have := Nat.ofDigitChars_ten_toDigits (n := n)
    simp only [Nat.ofDigitChars_eq_foldl] at this
    simpa [pyReprNat] using this
  have hne : (pyReprNat n).isEmpty = false := by
    cases h : pyReprNat n with
    | nil => exact absurd h (pyReprNat_ne_nil n)
    | cons => rfl
  have hz : ((pyReprNat n).head? == some '0' && n != 0) = false := by
    by_cases h0 : n = 0
    · simp [h0]
    · have := toDigits_head_ne_zero n (by omega)
      simp only [pyReprNat, Nat.toString_eq_repr, Nat.toList_repr]
      simp [this]
  simp only [parseNatLit, h1, h2, hne, hval, hz]
  simp

/-! ### blanks -/

def AllWs (w : Str) : Prop := ∀ c ∈ w, litIsWs c = true

theorem allWs_nil : AllWs [] := by intro c hc; cases hc

theorem litSkipWs_cons_of_not {c : Char} (s : Str) (h : litIsWs c = false) :
    litSkipWs (c :: s) = c :: s := by
  simp [litSkipWs, h]

theorem litSkipWs_ws_append (w s : Str) (hw : AllWs w) : litSkipWs (w ++ s) = litSkipWs s := by
  induction w with
  | nil => rfl
  | cons c w ih =>
    have h1 : litIsWs c = true := hw c (by simp)
    rw [List.cons_append, litSkipWs, if_pos h1]
    exact ih (fun c hc => hw c (by simp [hc]))

/-! ### the display loop -/

section loop
variable {α : Type} (item : Str → Option (α × Str)) (close : Char)

theorem litSeqLoop_ws (w s : Str) (hw : AllWs w) (f : Nat) :
    litSeqLoop item close f (w ++ s) = litSeqLoop item close f s := by
  cases f with
  | zero => rfl
  | succ f => simp only [litSeqLoop, litSkipWs_ws_append w s hw]

theorem litSeqLoop_close (hc1 : litIsWs close = false) (f : Nat) (r : Str) :
    litSeqLoop item close (f + 1) (close :: r) = some ([], true, r) := by
  simp [litSeqLoop, litSkipWs_cons_of_not r hc1]

/-- the result of the loop after one more item in front -/
def litSeqCons (v : α) : Option (List α × Bool × Str) → Option (List α × Bool × Str)
  | none => none
  | some (vs, t, r) => some (v :: vs, t, r)

theorem litSeqLoop_step (f : Nat) (c : Char) (t r : Str) (v : α) (hws : litIsWs c = false)
    (hcl : c ≠ close) (hitem : item (c :: t) = some (v, ',' :: r)) :
    litSeqLoop item close (f + 1) (c :: t) = litSeqCons v (litSeqLoop item close f r) := by
  have h1 : litIsWs ',' = false := by decide
  simp only [litSeqLoop, litSkipWs_cons_of_not t hws, beq_iff_eq, hcl, if_false, hitem,
    litSkipWs_cons_of_not r h1, if_true]
  cases litSeqLoop item close f r with
  | none => rfl
  | some x => rfl

theorem litSeqLoop_last (hc1 : litIsWs close = false) (hc2 : close ≠ ',') (f : Nat) (c : Char)
    (t r : Str) (v : α) (hws : litIsWs c = false)
    (hcl : c ≠ close) (hitem : item (c :: t) = some (v, close :: r)) :
    litSeqLoop item close (f + 1) (c :: t) = some ([v], false, r) := by
  simp [litSeqLoop, litSkipWs_cons_of_not t hws, hcl, hitem, litSkipWs_cons_of_not r hc1, hc2]

/-- the printed form of an item starts with a token character other than the closing bracket -/
def GoodHead (close : Char) (s : Str) : Prop := ∃ c t, s = c :: t ∧ litIsWs c = false ∧ c ≠ close

/-- items each followed by a comma (`w`, `w'`, `w2` are blanks) -/
theorem litSeqLoop_trailing (hc1 : litIsWs close = false) (pr : α → Str) (w w' w2 : Str)
    (hw : AllWs w) (hw' : AllWs w') (hw2 : AllWs w2) (n : Nat) (vs : List α)
    (hpr : ∀ v ∈ vs, GoodHead close (pr v))
    (hitem : ∀ v ∈ vs, ∀ r, (pr v ++ ',' :: r).length ≤ n → item (pr v ++ ',' :: r) = some (v, ',' :: r))
    (f : Nat) (rest : Str) (hfn : f ≤ n)
    (hlen : (vs.flatMap (fun v => w ++ (pr v ++ ',' :: w')) ++ (w2 ++ close :: rest)).length ≤ f) :
    litSeqLoop item close f (vs.flatMap (fun v => w ++ (pr v ++ ',' :: w')) ++ (w2 ++ close :: rest)) =
      some (vs, true, rest) := by
  induction vs generalizing f with
  | nil =>
    rw [List.flatMap_nil, List.nil_append, litSeqLoop_ws item close w2 _ hw2]
    cases f with
    | zero => simp at hlen
    | succ f => exact litSeqLoop_close item close hc1 f rest
  | cons v vs ih =>
    obtain ⟨c, t, hct, hws, hcl⟩ := hpr v (by simp)
    simp only [List.flatMap_cons, List.length_append, List.length_cons] at hlen
    simp only [List.flatMap_cons, List.append_assoc, List.cons_append]
    rw [litSeqLoop_ws item close w _ hw]
    cases f with
    | zero => omega
    | succ f =>
      have hi := hitem v (by simp)
        (w' ++ (vs.flatMap (fun v => w ++ (pr v ++ ',' :: w')) ++ (w2 ++ close :: rest)))
        (by simp only [List.length_append, List.length_cons]; omega)
      rw [hct, List.cons_append] at hi ⊢
      rw [litSeqLoop_step item close f c _ _ v hws hcl hi, litSeqLoop_ws item close w' _ hw',
        ih (fun u hu => hpr u (by simp [hu])) (fun u hu => hitem u (by simp [hu])) f (by omega)
          (by simp only [List.length_append, List.length_cons]; omega)]
      rfl

/-- items separated by `, ` without a trailing comma -/
theorem litSeqLoop_join (hc1 : litIsWs close = false) (hc2 : close ≠ ',') (pr : α → Str) (n : Nat)
    (hpr : ∀ v, GoodHead close (pr v))
    (hitem : ∀ v c r, (c = ',' ∨ c = close) → (pr v ++ c :: r).length ≤ n →
      item (pr v ++ c :: r) = some (v, c :: r))
    (vs : List α) (v : α) (f : Nat) (rest : Str) (hfn : f ≤ n)
    (hlen : (pr v ++ (vs.flatMap (fun u => ',' :: ' ' :: pr u) ++ close :: rest)).length ≤ f) :
    litSeqLoop item close f (pr v ++ (vs.flatMap (fun u => ',' :: ' ' :: pr u) ++ close :: rest)) =
      some (v :: vs, false, rest) := by
  induction vs generalizing v f with
  | nil =>
    obtain ⟨c, t, hct, hws, hcl⟩ := hpr v
    have hi := hitem v close rest (Or.inr rfl) (by simp at hlen ⊢; omega)
    simp only [List.flatMap_nil, List.nil_append] at hlen ⊢
    cases f with
    | zero => simp [hct] at hlen
    | succ f =>
      rw [hct, List.cons_append] at hi ⊢
      exact litSeqLoop_last item close hc1 hc2 f c _ rest v hws hcl hi
  | cons u vs ih =>
    obtain ⟨c, t, hct, hws, hcl⟩ := hpr v
    simp only [List.flatMap_cons, List.length_append, List.length_cons, List.cons_append] at hlen ⊢
    have hi := hitem v ',' (' ' :: (pr u ++ (vs.flatMap (fun u => ',' :: ' ' :: pr u) ++ close :: rest)))
      (Or.inl rfl) (by simp only [List.length_append, List.length_cons]; omega)
    cases f with
    | zero => omega
    | succ f =>
      have hsp : AllWs [' '] := by intro c hc; simp at hc; subst hc; decide
      rw [hct, List.cons_append] at hi ⊢
      rw [List.append_assoc, litSeqLoop_step item close f c _ _ v hws hcl hi]
      rw [show ' ' :: (pr u ++ (vs.flatMap (fun u => ',' :: ' ' :: pr u) ++ close :: rest)) =
          [' '] ++ (pr u ++ (vs.flatMap (fun u => ',' :: ' ' :: pr u) ++ close :: rest)) from rfl,
        litSeqLoop_ws item close _ _ hsp,
        ih u f (by omega) (by simp only [List.length_append, List.length_cons]; omega)]
      rfl

end loop

end FCA
