import FCA.Props.C01
import FCA.Props.C13
import FCA.Proofs.Assemble
import FCA.Model.Misc
import FCA.Props.C09
import Mathlib.Data.List.Flatten
/-
C17 — All results are deterministic across processes and hash seeds.

String-hash randomisation is a runtime behaviour; its only effect on this code is the *enumeration
order of sets*. The universally quantified part of the property is therefore: at every site where the
code iterates a set, the result does not depend on the enumeration. The model takes that enumeration
as the order (and multiplicity) of a list argument, and the theorems below state independence of it.
Sites that use a set for membership tests only are listed in harness/hash_sites.json (static inventory).
The runtime part (several `PYTHONHASHSEED` values) is explored by the check, not proved.
-/
namespace FCA

/-- site `MemberBits.frommembers` (`sum(map(_map.__getitem__, set(members)))`): any enumeration of the
same set of members, with or without repeats, gives the same bit set -/
theorem C17_frommembers_order (l l' : List Nat) (h : ∀ x, x ∈ l ↔ x ∈ l') : ofMembers l = ofMembers l' :=
  C01_ofMembers_congr l l' h

theorem mem_eraseDups_iff (l : List Nat) (x : Nat) : x ∈ l.eraseDups ↔ x ∈ l := List.mem_eraseDups

/-- site `tools.maximal` (`set(iterable)` … `permutations`): which elements are kept does not depend on
the enumeration order or on repeats of the input; the kept elements then only seed a heap
(`C17_traversal_seed_order` in C09: the traversal output does not depend on the seed order either) -/
theorem C17_maximal_members (cmp : Nat → Nat → Bool) (l l' : List Nat) (h : ∀ x, x ∈ l ↔ x ∈ l') :
    ∀ x, x ∈ maximalBy cmp l ↔ x ∈ maximalBy cmp l' := by
  intro x
  have hd : ∀ y, y ∈ l.eraseDups ↔ y ∈ l'.eraseDups := fun y => by
    rw [mem_eraseDups_iff, mem_eraseDups_iff]; exact h y
  have hany : ∀ z, (l.eraseDups.any fun y => y != z && cmp z y) = (l'.eraseDups.any fun y => y != z && cmp z y) := by
    intro z
    rw [Bool.eq_iff_iff, List.any_eq_true, List.any_eq_true]
    exact ⟨fun ⟨y, hy, hp⟩ => ⟨y, (hd y).mp hy, hp⟩, fun ⟨y, hy, hp⟩ => ⟨y, (hd y).mpr hy, hp⟩⟩
  -- the `< 2` shortcut returns everything, and with fewer than two distinct elements nothing is filtered out
  have key : ∀ (m : List Nat), m.Nodup → (x ∈ (if m.length < 2 then m else m.filter fun x => !(m.any fun y => y != x && cmp x y)) ↔
      x ∈ m ∧ (2 ≤ m.length → (m.any fun y => y != x && cmp x y) = false)) := by
    intro m _
    split
    · rename_i hlt
      constructor
      · intro hx; exact ⟨hx, fun h2 => by omega⟩
      · intro hx; exact hx.1
    · rename_i hge
      rw [List.mem_filter]
      simp only [Bool.not_eq_true']
      constructor
      · rintro ⟨h1, h2⟩; exact ⟨h1, fun _ => h2⟩
      · rintro ⟨h1, h2⟩; exact ⟨h1, h2 (by omega)⟩
  have hlen : l.eraseDups.length = l'.eraseDups.length :=
    ((List.perm_ext_iff_of_nodup (nodup_eraseDups _) (nodup_eraseDups _)).mpr hd).length_eq
  show x ∈ (if l.eraseDups.length < 2 then l.eraseDups else l.eraseDups.filter fun x => !(l.eraseDups.any fun y => y != x && cmp x y)) ↔
    x ∈ (if l'.eraseDups.length < 2 then l'.eraseDups else l'.eraseDups.filter fun x => !(l'.eraseDups.any fun y => y != x && cmp x y))
  rw [key _ (nodup_eraseDups _), key _ (nodup_eraseDups _), hd x, hany x, hlen]

/-- … and the traversal seeded with them yields the same sequence for every enumeration (and any repeats)
of the same set of concepts -/
theorem C17_traversal_seed_order (K : Ctx) (h : K.WF) (cs cs' : List Nat)
    (hv : ∀ c ∈ cs, c < (mkLattice K).length) (hm : ∀ x, x ∈ cs ↔ x ∈ cs') :
    upsetUnion (mkLattice K) cs = upsetUnion (mkLattice K) cs' ∧
    downsetUnion (mkLattice K) cs = downsetUnion (mkLattice K) cs' :=
  C09_union_congr K h cs cs' hv hm

/-- site `Lattice._annotate` (`for c in touched: c.objects = tuple(c.objects)`): in the model the labels
of a concept are a function of the context and of its extent alone — no enumeration of touched
concepts enters -/
theorem C17_annotate_touched_order (K : Ctx) (recs : List Rec) (k : Nat) (r : Rec) :
    (mkConcept K recs k r).objects = (List.range K.n).filter (fun o => K.extentOf (K.intentOf (2 ^ o)) == r.extent) ∧
    (mkConcept K recs k r).properties = (List.range K.m).filter (fun p => K.extentOf (2 ^ p) == r.extent) :=
  ⟨rfl, rfl⟩

/-- sites `set_object` / `set_property` / `add_*` / `union_update` (`Unique |= names`): new names are
appended in the order given — the order of the *argument list*, no set involved (this is what the
repaired `set_object` / `set_property` do; before the repair the argument passed through a `set`) -/
theorem C17_set_object_order (d : Defn) (o : Name) (ps : List Name) (d' : Defn) (r : List Name)
    (h : d.step (.setObject o ps) = .ok (d', r)) :
    d'.props = d.props ++ uniq (ps.filter (fun x => !d.props.contains x)) := by
  simp only [Defn.step, Except.ok.injEq, Prod.mk.injEq] at h
  rw [← h.1]
  exact C13_append_order d.props ps

theorem C17_set_property_order (d : Defn) (p : Name) (os : List Name) (d' : Defn) (r : List Name)
    (h : d.step (.setProperty p os) = .ok (d', r)) :
    d'.objs = d.objs ++ uniq (os.filter (fun x => !d.objs.contains x)) := by
  simp only [Defn.step, Except.ok.injEq, Prod.mk.injEq] at h
  rw [← h.1]
  exact C13_append_order d.objs os

/-- site `conflicting_pairs` (the pairs listed in the `ValueError` message of `union` /
`intersection` / `*_update`): `left._objects & right._objects` iterates the RIGHT operand
(`collections.abc.Set.__and__`), so the list is the table order of the right operand (objects, then
properties), filtered by "name known on the left and the two cells differ"; the symmetric-difference
*set* is only used for membership.  An equation, not just a sublist. -/
theorem C17_conflicts_order (l r : Defn) :
    l.conflictList r = (r.objs.flatMap fun o => r.props.map fun p => (o, p)).filter fun q =>
      l.objs.contains q.1 && (l.props.contains q.2 && (l.pairs.contains q != r.pairs.contains q)) :=
  conflicts_eq_filter l r

/-- in particular it is a sublist of the right operand's product order -/
theorem C17_conflicts_sublist (l r : Defn) :
    (conflicts l r).Sublist (r.objs.flatMap fun o => r.props.map fun p => (o, p)) := by
  rw [conflicts_eq_filter]; exact List.filter_sublist

/-- the replay of the review: `a.union(b)` lists the conflicts in `b`'s order, `b.union(a)` in `a`'s -/
example :
    let a : Defn := ⟨["o1", "o2"], ["p1", "p2"], [("o1", "p1"), ("o2", "p2")]⟩
    let b : Defn := ⟨["o2", "o1"], ["p2", "p1"], [("o2", "p1"), ("o1", "p2"), ("o1", "p1")]⟩
    a.conflictList b = [("o2", "p2"), ("o2", "p1"), ("o1", "p2")] ∧
    b.conflictList a = [("o1", "p2"), ("o2", "p1"), ("o2", "p2")] := by decide

/-- the message is raised exactly when the list is non-empty and conflicts are not ignored -/
theorem C17_conflicts_raised (d e : Defn) (ig : Bool) :
    (∃ err, d.step (.unionUpdate e ig) = .error err) ↔ ig = false ∧ d.conflictList e ≠ [] := by
  simp only [Defn.step, Defn.conflictList]
  cases ig <;> cases h : conflicts d e <;> simp

/-- site `Definition._pairs` (a Python `set` of pairs; several methods iterate it): the model keeps it
as a list, and nothing observable depends on the enumeration — the table, cell reads, equality, the
conflict list and the result of every mutator call depend only on membership (`C13_pairs_as_set`;
whole histories: `C13_pairs_as_set_history`, deriving methods: `C13_pairs_as_set_derived`) -/
theorem C17_pairs_enumeration (d d' : Defn) (ho : d.objs = d'.objs) (hp : d.props = d'.props)
    (hm : ∀ x, x ∈ d.pairs ↔ x ∈ d'.pairs) (ops ops' : List Op)
    (hops : List.Forall₂ Op.SameSet ops ops') :
    d.bools = d'.bools ∧ (∀ e, d.conflictList e = d'.conflictList e) ∧
    (d.runHistory ops).objs = (d'.runHistory ops').objs ∧
    (d.runHistory ops).props = (d'.runHistory ops').props ∧
    (d.runHistory ops).bools = (d'.runHistory ops').bools ∧
    (d.runTrace ops).2 = (d'.runTrace ops').2 := by
  obtain ⟨h1, _, _, _, h5, _⟩ := C13_pairs_as_set d d' ho hp hm
  obtain ⟨g1, g2, _, g4, g5⟩ := C13_pairs_as_set_history d d' ops ops' ho hp hm hops
  exact ⟨h1, fun e => (h5 e).1, g1, g2, g4, g5⟩

example : exD.objs = exD'.objs ∧ exD.props = exD'.props ∧ (∀ x, x ∈ exD.pairs ↔ x ∈ exD'.pairs) ∧
    List.Forall₂ Op.SameSet [Op.unionUpdate exD false] [Op.unionUpdate exD' false] :=
  ⟨rfl, rfl, exD_sameSet.2.2, .cons (.union false exD_sameSet) .nil⟩

end FCA

open FCA in
#print axioms C17_pairs_enumeration
open FCA in
#print axioms C17_frommembers_order
open FCA in
#print axioms C17_maximal_members
open FCA in
#print axioms C17_traversal_seed_order
open FCA in
#print axioms C17_set_object_order
open FCA in
#print axioms C17_conflicts_order
open FCA in
#print axioms C17_conflicts_sublist
open FCA in
#print axioms C17_conflicts_raised
