import FCA.Proofs.FormatsStr
/-
The csv reader (`csvRead`, a model of `csv.reader` with the excel dialect fed by the lines of an
`io.StringIO`) reads back what *any* RFC 4180 writer emits (`csvTextQ`: every field may be quoted,
records end in CR LF or LF), in particular what `csv.writer` (`csvRow`, `QUOTE_MINIMAL`) emits.
-/
namespace FCA

/-! ### the reader as one pass over the text

`csvRecords` follows `Reader_iternext` line by line. For the proofs the same computation is written
as one pass over the characters: the `EOL` event is processed after every `\n` and after the last
character of the text. -/

/-- a record is yielded in front of the remaining ones -/
def csvEmit (r : List Str) (x : List (List Str) × Bool) : List (List Str) × Bool := (r :: x.1, x.2)

def csvFlat (s : CsvSt) : Str → List (List Str) × Bool
  | [] => csvRecords s []
  | c :: cs =>
    match csvChar s (some c) with
    | none => ([], true)
    | some s1 =>
      if c == '\n' || cs.isEmpty then
        match csvChar s1 none with
        | none => ([], true)
        | some s2 =>
          if s2.state == .startRecord then csvEmit s2.row (csvFlat .init cs) else csvFlat s2 cs
      else csvFlat s1 cs

theorem csvLines_eq_nil {t : Str} : csvLines t = [] ↔ t = [] := by
  cases t with
  | nil => simp [csvLines]
  | cons c cs =>
    simp only [csvLines]
    split
    · simp
    · split <;> simp

theorem csvRecords_line1 (s : CsvSt) (c : Char) (ls : List Str) :
    csvRecords s ([c] :: ls) =
      match csvChar s (some c) with
      | none => ([], true)
      | some s1 =>
        match csvChar s1 none with
        | none => ([], true)
        | some s2 =>
          if s2.state == .startRecord then csvEmit s2.row (csvRecords .init ls)
          else csvRecords s2 ls := by
  rw [csvRecords]
  simp only [csvLine]
  cases csvChar s (some c) with
  | none => rfl
  | some s1 =>
    simp only [Option.bind_some]
    cases csvChar s1 none with
    | none => rfl
    | some s2 => rfl

theorem csvRecords_cons_cons (s : CsvSt) (c : Char) (l : Str) (ls : List Str) :
    csvRecords s ((c :: l) :: ls) =
      match csvChar s (some c) with
      | none => ([], true)
      | some s1 => csvRecords s1 (l :: ls) := by
  rw [csvRecords]
  simp only [csvLine]
  cases csvChar s (some c) with
  | none => rfl
  | some s1 =>
    simp only [Option.bind_some]
    rw [csvRecords]

/-- the line-by-line reader is the one-pass reader -/
theorem csvRecords_csvLines (s : CsvSt) (t : Str) : csvRecords s (csvLines t) = csvFlat s t := by
  induction t generalizing s with
  | nil => rfl
  | cons c cs ih =>
    by_cases hc : c = '\n'
    · subst hc
      have e : csvLines ('\n' :: cs) = ['\n'] :: csvLines cs := by simp [csvLines]
      rw [e, csvRecords_line1, csvFlat]
      simp only [beq_self_eq_true, Bool.true_or, if_true, ih]
    · by_cases hcs : cs = []
      · subst hcs
        have e : csvLines [c] = [[c]] := by simp [csvLines, hc]
        rw [e, csvRecords_line1, csvFlat]
        simp only [List.isEmpty_nil, Bool.or_true, if_true]
        rfl
      · obtain ⟨l, ls, hl⟩ : ∃ l ls, csvLines cs = l :: ls := by
          cases h : csvLines cs with
          | nil => exact absurd (csvLines_eq_nil.1 h) hcs
          | cons l ls => exact ⟨l, ls, rfl⟩
        have e : csvLines (c :: cs) = (c :: l) :: ls := by simp [csvLines, hc, hl]
        have hne : cs.isEmpty = false := by cases cs <;> simp_all
        rw [e, csvRecords_cons_cons, csvFlat]
        have hcb : (c == '\n') = false := by simpa using hc
        simp only [hcb, hne, Bool.or_self, Bool.false_eq_true, if_false, ← hl, ih]

theorem csvRead_eq (t : Str) : csvRead t = csvFlat .init t := csvRecords_csvLines _ t

/-! ### single steps -/

/-- a character that is not the line feed, in the middle of the text -/
theorem csvFlat_mid {s s1 : CsvSt} {c : Char} {rest : Str} (hc : c ≠ '\n') (hr : rest ≠ [])
    (h : csvChar s (some c) = some s1) : csvFlat s (c :: rest) = csvFlat s1 rest := by
  have hne : rest.isEmpty = false := by cases rest <;> simp_all
  rw [csvFlat, h]
  simp [hc, hne]

/-- a line feed that ends a record -/
theorem csvFlat_lf {s s1 s2 : CsvSt} {rest : Str} (h1 : csvChar s (some '\n') = some s1)
    (h2 : csvChar s1 none = some s2) (h3 : s2.state = .startRecord) :
    csvFlat s ('\n' :: rest) = csvEmit s2.row (csvFlat .init rest) := by
  rw [csvFlat, h1]
  simp [h2, h3]

section steps
variable (fld : Str) (row : List Str) (rest : Str)

theorem csvFlat_startRecord_char {c : Char} (h1 : c ≠ '\n') (h2 : c ≠ '\r') :
    csvFlat ⟨.startRecord, fld, row⟩ (c :: rest) = csvFlat ⟨.startField, fld, row⟩ (c :: rest) := by
  have : csvChar ⟨.startRecord, fld, row⟩ (some c) = csvChar ⟨.startField, fld, row⟩ (some c) := by
    simp [csvChar, h1, h2, csvStartField, CsvSt.save, CsvSt.add]
  rw [csvFlat, csvFlat, this]

theorem csvFlat_inQuoted_char {c : Char} (h : c ≠ '"') (hl : fld.length < csvFieldLimit) :
    csvFlat ⟨.inQuoted, fld, row⟩ (c :: rest) = csvFlat ⟨.inQuoted, c :: fld, row⟩ rest := by
  have h1 : csvChar ⟨.inQuoted, fld, row⟩ (some c) = some ⟨.inQuoted, c :: fld, row⟩ := by
    simp [csvChar, h, CsvSt.add, Nat.not_le.2 hl]
  have h2 : csvChar ⟨.inQuoted, c :: fld, row⟩ none = some ⟨.inQuoted, c :: fld, row⟩ := rfl
  rw [csvFlat, h1]
  simp only [h2]
  split
  · rfl
  · rfl

end steps

/-! ### fields -/

/-- characters that force quoting -/
def csvSpecial (c : Char) : Bool := c == ',' || c == '"' || c == '\r' || c == '\n'

/-- quote doubling -/
def csvEsc (s : Str) : Str := s.flatMap fun c => if c == '"' then ['"', '"'] else [c]

/-- a field as an RFC 4180 writer may write it: quoted when it has to be (`,`, `"`, CR, LF inside)
or when the writer likes (`q`); quotes inside are doubled -/
def csvFieldQ (q : Bool) (s : Str) : Str :=
  if q || s.any csvSpecial then ['"'] ++ csvEsc s ++ ['"'] else s

/-- record terminator: CR LF, or a bare LF -/
def csvTerm (crlf : Bool) : Str := if crlf then ['\r', '\n'] else ['\n']

/-- a record: fields (each with its quoting choice) joined by `,`, then the terminator -/
def csvRowQ (crlf : Bool) (fields : List (Bool × Str)) : Str :=
  joinWith [','] (fields.map fun f => csvFieldQ f.1 f.2) ++ csvTerm crlf

/-- a record can be written: it has a field, and a single empty field is quoted (otherwise the
record would be an empty line) -/
def CsvRowOk (fields : List (Bool × Str)) : Prop := fields ≠ [] ∧ fields ≠ [(false, [])]

instance (fields : List (Bool × Str)) : Decidable (CsvRowOk fields) := by
  unfold CsvRowOk; infer_instance

/-- a text: records with their choice of terminator -/
def csvTextQ (rows : List (Bool × List (Bool × Str))) : Str := rows.flatMap fun r => csvRowQ r.1 r.2

theorem csvField_eq (s : Str) : csvField s = csvFieldQ false s := by
  unfold csvField csvFieldQ csvEsc
  simp only [Bool.false_or]
  rfl

theorem csvFieldQ_raw {s : Str} (h : s.any csvSpecial = false) : csvFieldQ false s = s := by
  simp [csvFieldQ, h]

theorem csvFieldQ_quoted {q : Bool} {s : Str} (h : q = true ∨ s.any csvSpecial = true) :
    csvFieldQ q s = '"' :: (csvEsc s ++ ['"']) := by
  have : (q || s.any csvSpecial) = true := by rcases h with h | h <;> simp [h]
  simp only [csvFieldQ, this, if_true]; rfl

theorem csvEsc_cons_quote (s : Str) : csvEsc ('"' :: s) = '"' :: '"' :: csvEsc s := rfl

theorem csvEsc_cons_char {c : Char} (h : c ≠ '"') (s : Str) : csvEsc (c :: s) = c :: csvEsc s := by
  simp [csvEsc, h]

theorem not_special {s : Str} (h : s.any csvSpecial = false) :
    ∀ c ∈ s, c ≠ ',' ∧ c ≠ '"' ∧ c ≠ '\r' ∧ c ≠ '\n' := by
  intro c hc
  have := List.any_eq_false.1 h c hc
  simp only [csvSpecial, Bool.or_eq_true, beq_iff_eq, not_or] at this
  tauto

theorem csvFlat_inField_run (s : Str) (hs : ∀ c ∈ s, c ≠ ',' ∧ c ≠ '"' ∧ c ≠ '\r' ∧ c ≠ '\n')
    (fld : Str) (row : List Str) (rest : Str) (hr : rest ≠ [])
    (hl : fld.length + s.length ≤ csvFieldLimit) :
    csvFlat ⟨.inField, fld, row⟩ (s ++ rest) = csvFlat ⟨.inField, s.reverse ++ fld, row⟩ rest := by
  induction s generalizing fld with
  | nil => rfl
  | cons c cs ih =>
    have hc := hs c (by simp)
    simp only [List.length_cons] at hl
    have h1 : csvChar ⟨.inField, fld, row⟩ (some c) = some ⟨.inField, c :: fld, row⟩ := by
      simp [csvChar, hc.1, hc.2.2.1, hc.2.2.2, CsvSt.add, Nat.not_le.2 (show fld.length < csvFieldLimit by omega)]
    rw [List.cons_append, csvFlat_mid hc.2.2.2 (by simp [hr]) h1,
      ih (fun x hx => hs x (by simp [hx])) _ (by simp only [List.length_cons]; omega)]
    simp

theorem csvFlat_inQuoted_run (s : Str) (fld : Str) (row : List Str) (rest : Str) (hr : rest ≠ [])
    (hl : fld.length + s.length ≤ csvFieldLimit) :
    csvFlat ⟨.inQuoted, fld, row⟩ (csvEsc s ++ rest) =
      csvFlat ⟨.inQuoted, s.reverse ++ fld, row⟩ rest := by
  induction s generalizing fld with
  | nil => rfl
  | cons c cs ih =>
    simp only [List.length_cons] at hl
    have hlt : fld.length < csvFieldLimit := by omega
    by_cases hc : c = '"'
    · subst hc
      have h1 : csvChar ⟨.inQuoted, fld, row⟩ (some '"') = some ⟨.quoteInQuoted, fld, row⟩ := rfl
      have h2 : csvChar ⟨.quoteInQuoted, fld, row⟩ (some '"') = some ⟨.inQuoted, '"' :: fld, row⟩ := by
        simp [csvChar, CsvSt.add, Nat.not_le.2 hlt]
      rw [csvEsc_cons_quote, List.cons_append, List.cons_append,
        csvFlat_mid (by decide) (by simp) h1, csvFlat_mid (by decide) (by simp [hr]) h2,
        ih _ (by simp only [List.length_cons]; omega)]
      simp
    · rw [csvEsc_cons_char hc, List.cons_append, csvFlat_inQuoted_char _ _ _ hc hlt,
        ih _ (by simp only [List.length_cons]; omega)]
      simp

/-- the reader has seen a complete field but not yet its delimiter -/
def CsvSt.fieldDone (s : CsvSt) : Prop :=
  s.state = .startField ∨ s.state = .inField ∨ s.state = .quoteInQuoted

/-- a written field, read from the start-of-field state: afterwards the reader holds the field's
characters and waits for the delimiter or the end of the line -/
theorem csvFlat_field (q : Bool) (f : Str) (hf : f.length ≤ csvFieldLimit) (row : List Str) :
    ∃ s' : CsvSt, s'.fieldDone ∧ s'.field = f.reverse ∧ s'.row = row ∧
      ∀ rest, rest ≠ [] →
        csvFlat ⟨.startField, [], row⟩ (csvFieldQ q f ++ rest) = csvFlat s' rest := by
  by_cases h : q = true ∨ f.any csvSpecial = true
  · refine ⟨⟨.quoteInQuoted, f.reverse, row⟩, Or.inr (Or.inr rfl), rfl, rfl, ?_⟩
    intro rest hr
    rw [csvFieldQ_quoted h]
    have e1 : ('"' :: (csvEsc f ++ ['"'])) ++ rest = '"' :: (csvEsc f ++ ('"' :: rest)) := by simp
    have h1 : csvChar ⟨.startField, [], row⟩ (some '"') = some ⟨.inQuoted, [], row⟩ := rfl
    have h2 : csvChar ⟨.inQuoted, f.reverse ++ [], row⟩ (some '"') =
        some ⟨.quoteInQuoted, f.reverse ++ [], row⟩ := rfl
    rw [e1, csvFlat_mid (by decide) (by simp) h1,
      csvFlat_inQuoted_run f [] row _ (by simp) (by simpa using hf),
      csvFlat_mid (by decide) hr h2]
    simp
  · have hq : q = false := by cases q <;> simp_all
    have h' : f.any csvSpecial = false := by simpa using fun h2 => h (Or.inr h2)
    subst hq
    rw [csvFieldQ_raw h']
    cases f with
    | nil => exact ⟨⟨.startField, [], row⟩, Or.inl rfl, rfl, rfl, fun rest _ => rfl⟩
    | cons c cs =>
      refine ⟨⟨.inField, (c :: cs).reverse, row⟩, Or.inr (Or.inl rfl), rfl, rfl, ?_⟩
      intro rest hr
      have hs := not_special h'
      have hc := hs c (by simp)
      simp only [List.length_cons] at hf
      have h1 : csvChar ⟨.startField, [], row⟩ (some c) = some ⟨.inField, [c], row⟩ := by
        simp [csvChar, csvStartField, hc.1, hc.2.1, hc.2.2.1, hc.2.2.2, CsvSt.add, csvFieldLimit]
      rw [List.cons_append, csvFlat_mid hc.2.2.2 (by simp [hr]) h1,
        csvFlat_inField_run cs (fun x hx => hs x (by simp [hx])) _ _ _ hr
          (by simp only [List.length_cons, List.length_nil]; omega)]
      simp

/-- the delimiter after a complete field -/
theorem csvFlat_comma {s : CsvSt} (h : s.fieldDone) {rest : Str} (hr : rest ≠ []) :
    csvFlat s (',' :: rest) = csvFlat ⟨.startField, [], s.row ++ [s.field.reverse]⟩ rest := by
  obtain ⟨st, fld, row⟩ := s
  apply csvFlat_mid (by decide) hr
  rcases h with h | h | h <;> (simp only at h; subst h; rfl)

/-- the record terminator after a complete field: the record is yielded -/
theorem csvFlat_term {s : CsvSt} (h : s.fieldDone) (crlf : Bool) (rest : Str) :
    csvFlat s (csvTerm crlf ++ rest) =
      csvEmit (s.row ++ [s.field.reverse]) (csvFlat .init rest) := by
  obtain ⟨st, fld, row⟩ := s
  have hlf : csvFlat ⟨.eatCrnl, [], row ++ [fld.reverse]⟩ ('\n' :: rest) =
      csvEmit (row ++ [fld.reverse]) (csvFlat .init rest) := by
    exact csvFlat_lf (s1 := ⟨.eatCrnl, [], row ++ [fld.reverse]⟩)
      (s2 := ⟨.startRecord, [], row ++ [fld.reverse]⟩) rfl rfl rfl
  cases crlf
  · -- bare LF
    change csvFlat _ ('\n' :: rest) = _
    rcases h with h | h | h <;> (simp only at h; subst h)
    all_goals
      exact csvFlat_lf (s1 := ⟨.eatCrnl, [], row ++ [fld.reverse]⟩)
        (s2 := ⟨.startRecord, [], row ++ [fld.reverse]⟩) rfl rfl rfl
  · change csvFlat _ ('\r' :: '\n' :: rest) = _
    have h1 : csvChar ⟨st, fld, row⟩ (some '\r') = some ⟨.eatCrnl, [], row ++ [fld.reverse]⟩ := by
      rcases h with h | h | h <;> (simp only at h; subst h; rfl)
    rw [csvFlat_mid (by decide) (by simp) h1]
    exact hlf

/-! ### rows -/

/-- the fields of a record joined by the delimiter -/
def csvBodyQ (fields : List (Bool × Str)) : Str :=
  joinWith [','] (fields.map fun f => csvFieldQ f.1 f.2)

theorem csvBodyQ_cons_cons (f g : Bool × Str) (l : List (Bool × Str)) :
    csvBodyQ (f :: g :: l) = csvFieldQ f.1 f.2 ++ ',' :: csvBodyQ (g :: l) := by
  simp [csvBodyQ, joinWith]

theorem csvBodyQ_single (f : Bool × Str) : csvBodyQ [f] = csvFieldQ f.1 f.2 := rfl

theorem csvRowQ_eq (crlf : Bool) (fields : List (Bool × Str)) :
    csvRowQ crlf fields = csvBodyQ fields ++ csvTerm crlf := rfl

theorem csvTerm_ne_nil (crlf : Bool) : csvTerm crlf ≠ [] := by cases crlf <;> simp [csvTerm]

/-- a written record is read back (from the start-of-field state) -/
theorem csvFlat_body (fields : List (Bool × Str)) (hne : fields ≠ [])
    (hl : ∀ f ∈ fields, f.2.length ≤ csvFieldLimit) (crlf : Bool) (row : List Str) (rest : Str) :
    csvFlat ⟨.startField, [], row⟩ (csvBodyQ fields ++ (csvTerm crlf ++ rest)) =
      csvEmit (row ++ fields.map (·.2)) (csvFlat .init rest) := by
  induction fields generalizing row with
  | nil => contradiction
  | cons f l ih =>
    obtain ⟨s', hd, hfld, hrow, hrun⟩ := csvFlat_field f.1 f.2 (hl f (by simp)) row
    cases l with
    | nil =>
      rw [csvBodyQ_single, hrun _ (by simp [csvTerm_ne_nil]), csvFlat_term hd, hfld, hrow]
      simp
    | cons g l =>
      rw [csvBodyQ_cons_cons, List.append_assoc, hrun _ (by simp), List.cons_append,
        csvFlat_comma hd (by simp [csvTerm_ne_nil]), hfld, hrow,
        ih (by simp) (fun x hx => hl x (by simp [hx]))]
      simp

/-- a writable record never starts with a line-break character -/
theorem csvBodyQ_head {fields : List (Bool × Str)} (h : CsvRowOk fields) (tail : Str) :
    ∃ c cs, csvBodyQ fields ++ tail = c :: cs ∧ c ≠ '\n' ∧ c ≠ '\r' := by
  obtain ⟨hne, hse⟩ := h
  cases fields with
  | nil => contradiction
  | cons f l =>
    obtain ⟨q, a⟩ := f
    by_cases hq : q = true ∨ a.any csvSpecial = true
    · cases l with
      | nil =>
        exact ⟨'"', _, by rw [csvBodyQ_single, csvFieldQ_quoted hq]; rfl, by decide, by decide⟩
      | cons g l =>
        exact ⟨'"', _, by rw [csvBodyQ_cons_cons, csvFieldQ_quoted hq]; rfl, by decide, by decide⟩
    · have hq' : q = false := by cases q <;> simp_all
      have h' : a.any csvSpecial = false := by simpa using fun h2 => hq (Or.inr h2)
      subst hq'
      cases a with
      | nil =>
        cases l with
        | nil => exact absurd rfl hse
        | cons g l =>
          exact ⟨',', _, by rw [csvBodyQ_cons_cons, csvFieldQ_raw h']; rfl, by decide, by decide⟩
      | cons c cs =>
        have hc := not_special h' c (by simp)
        cases l with
        | nil =>
          exact ⟨c, _, by rw [csvBodyQ_single, csvFieldQ_raw h']; rfl, hc.2.2.2, hc.2.2.1⟩
        | cons g l =>
          exact ⟨c, _, by rw [csvBodyQ_cons_cons, csvFieldQ_raw h']; rfl, hc.2.2.2, hc.2.2.1⟩

/-- a written record at the beginning of a line is read back and yielded -/
theorem csvFlat_row (crlf : Bool) (fields : List (Bool × Str)) (hok : CsvRowOk fields)
    (hl : ∀ f ∈ fields, f.2.length ≤ csvFieldLimit) (rest : Str) :
    csvFlat .init (csvRowQ crlf fields ++ rest) =
      csvEmit (fields.map (·.2)) (csvFlat .init rest) := by
  rw [csvRowQ_eq, List.append_assoc]
  obtain ⟨c, cs, hc, h1, h2⟩ := csvBodyQ_head hok (csvTerm crlf ++ rest)
  have := csvFlat_body fields hok.1 hl crlf [] rest
  rw [hc] at this ⊢
  change csvFlat ⟨.startRecord, [], []⟩ _ = _
  rw [csvFlat_startRecord_char _ _ _ h1 h2, this]
  simp

/-! ### whole text -/

/-- the reader yields the records of a text written by any RFC 4180 writer, then goes on with
whatever follows -/
theorem csvFlat_textQ_append (rows : List (Bool × List (Bool × Str)))
    (h : ∀ r ∈ rows, CsvRowOk r.2 ∧ ∀ f ∈ r.2, f.2.length ≤ csvFieldLimit) (rest : Str) :
    csvFlat .init (csvTextQ rows ++ rest) =
      ((rows.map fun r => r.2.map (·.2)) ++ (csvFlat .init rest).1, (csvFlat .init rest).2) := by
  induction rows with
  | nil => rfl
  | cons r rs ih =>
    have hr := h r (by simp)
    rw [csvTextQ, List.flatMap_cons, List.append_assoc, csvFlat_row r.1 r.2 hr.1 hr.2]
    rw [csvTextQ] at ih
    rw [ih (fun x hx => h x (by simp [hx]))]
    rfl

theorem csvRead_textQ_append (rows : List (Bool × List (Bool × Str)))
    (h : ∀ r ∈ rows, CsvRowOk r.2 ∧ ∀ f ∈ r.2, f.2.length ≤ csvFieldLimit) (rest : Str) :
    csvRead (csvTextQ rows ++ rest) =
      ((rows.map fun r => r.2.map (·.2)) ++ (csvRead rest).1, (csvRead rest).2) := by
  rw [csvRead_eq, csvRead_eq, csvFlat_textQ_append rows h]

/-- the reader yields exactly the records of a text written by any RFC 4180 writer -/
theorem csvRead_textQ (rows : List (Bool × List (Bool × Str)))
    (h : ∀ r ∈ rows, CsvRowOk r.2 ∧ ∀ f ∈ r.2, f.2.length ≤ csvFieldLimit) :
    csvRead (csvTextQ rows) = (rows.map fun r => r.2.map (·.2), false) := by
  have := csvRead_textQ_append rows h []
  rw [List.append_nil] at this
  rw [this]
  simp [csvRead, csvLines, csvRecords, CsvSt.init]

/-- a blank line (CR LF or LF) at the beginning of a record is the empty record `[]` -/
theorem csvRead_blank (crlf : Bool) (rest : Str) :
    csvRead (csvTerm crlf ++ rest) = ([] :: (csvRead rest).1, (csvRead rest).2) := by
  rw [csvRead_eq, csvRead_eq]
  have hlf : ∀ rest, csvFlat ⟨.eatCrnl, [], []⟩ ('\n' :: rest) = csvEmit [] (csvFlat .init rest) := by
    intro rest
    exact csvFlat_lf (s1 := ⟨.eatCrnl, [], []⟩) (s2 := ⟨.startRecord, [], []⟩) rfl rfl rfl
  cases crlf
  · change csvFlat _ ('\n' :: rest) = _
    exact csvFlat_lf (s := .init) (s1 := ⟨.eatCrnl, [], []⟩) (s2 := ⟨.startRecord, [], []⟩)
      rfl rfl rfl
  · change csvFlat _ ('\r' :: '\n' :: rest) = _
    rw [csvFlat_mid (s := .init) (s1 := ⟨.eatCrnl, [], []⟩) (by decide) (by simp) rfl]
    exact hlf rest

/-! ### a last record without terminator (RFC 4180, rule 2)

The end of the text is the end of the last line: the `EOL` event comes right after the last
character. -/

theorem csvFlat_nil_init : csvFlat .init [] = ([], false) := by
  simp [csvFlat, csvRecords, CsvSt.init]

/-- the last character of the text, when it completes a record -/
theorem csvFlat_last {s s1 s2 : CsvSt} {c : Char} (h1 : csvChar s (some c) = some s1)
    (h2 : csvChar s1 none = some s2) (h3 : s2.state = .startRecord) :
    csvFlat s [c] = ([s2.row], false) := by
  rw [csvFlat, h1]
  simp [h2, h3, csvFlat_nil_init, csvEmit]

theorem csvFlat_inField_run_end (s : Str) (hne : s ≠ [])
    (hs : ∀ c ∈ s, c ≠ ',' ∧ c ≠ '"' ∧ c ≠ '\r' ∧ c ≠ '\n')
    (fld : Str) (row : List Str) (hl : fld.length + s.length ≤ csvFieldLimit) :
    csvFlat ⟨.inField, fld, row⟩ s = ([row ++ [(s.reverse ++ fld).reverse]], false) := by
  induction s generalizing fld with
  | nil => contradiction
  | cons c cs ih =>
    have hc := hs c (by simp)
    simp only [List.length_cons] at hl
    have h1 : csvChar ⟨.inField, fld, row⟩ (some c) = some ⟨.inField, c :: fld, row⟩ := by
      simp [csvChar, hc.1, hc.2.2.1, hc.2.2.2, CsvSt.add,
        Nat.not_le.2 (show fld.length < csvFieldLimit by omega)]
    cases cs with
    | nil =>
      rw [csvFlat_last h1 (s2 := ⟨.startRecord, [], row ++ [(c :: fld).reverse]⟩) rfl rfl]
      simp
    | cons d ds =>
      rw [csvFlat_mid hc.2.2.2 (by simp) h1,
        ih (by simp) (fun x hx => hs x (by simp [hx])) _ (by simp only [List.length_cons] at hl ⊢; omega)]
      simp

/-- a written field at the very end of the text (it is not the empty non-escaped field) -/
theorem csvFlat_field_end (q : Bool) (f : Str) (hf : f.length ≤ csvFieldLimit) (row : List Str)
    (hne : csvFieldQ q f ≠ []) :
    csvFlat ⟨.startField, [], row⟩ (csvFieldQ q f) = ([row ++ [f]], false) := by
  by_cases h : q = true ∨ f.any csvSpecial = true
  · rw [csvFieldQ_quoted h]
    have h1 : csvChar ⟨.startField, [], row⟩ (some '"') = some ⟨.inQuoted, [], row⟩ := rfl
    have h2 : csvChar ⟨.inQuoted, f.reverse ++ [], row⟩ (some '"') =
        some ⟨.quoteInQuoted, f.reverse ++ [], row⟩ := rfl
    rw [csvFlat_mid (by decide) (by simp) h1,
      csvFlat_inQuoted_run f [] row _ (by simp) (by simpa using hf),
      csvFlat_last h2 (s2 := ⟨.startRecord, [], row ++ [(f.reverse ++ []).reverse]⟩) rfl rfl]
    simp
  · have hq : q = false := by cases q <;> simp_all
    have h' : f.any csvSpecial = false := by simpa using fun h2 => h (Or.inr h2)
    subst hq
    rw [csvFieldQ_raw h'] at hne ⊢
    cases f with
    | nil => contradiction
    | cons c cs =>
      have hs := not_special h'
      have hc := hs c (by simp)
      simp only [List.length_cons] at hf
      have h1 : csvChar ⟨.startField, [], row⟩ (some c) = some ⟨.inField, [c], row⟩ := by
        simp [csvChar, csvStartField, hc.1, hc.2.1, hc.2.2.1, hc.2.2.2, CsvSt.add, csvFieldLimit]
      cases cs with
      | nil =>
        rw [csvFlat_last h1 (s2 := ⟨.startRecord, [], row ++ [[c]]⟩) rfl rfl]
      | cons d ds =>
        rw [csvFlat_mid hc.2.2.2 (by simp) h1,
          csvFlat_inField_run_end (d :: ds) (by simp) (fun x hx => hs x (by simp [hx])) _ _
            (by simp only [List.length_cons, List.length_nil] at hf ⊢; omega)]
        simp

/-- a delimiter at the very end of the text: an empty last field -/
theorem csvFlat_comma_end {s : CsvSt} (h : s.fieldDone) :
    csvFlat s [','] = ([s.row ++ [s.field.reverse] ++ [[]]], false) := by
  obtain ⟨st, fld, row⟩ := s
  have h1 : csvChar ⟨st, fld, row⟩ (some ',') = some ⟨.startField, [], row ++ [fld.reverse]⟩ := by
    rcases h with h | h | h <;> (simp only at h; subst h; rfl)
  rw [csvFlat_last h1 (s2 := ⟨.startRecord, [], row ++ [fld.reverse] ++ [[]]⟩) rfl rfl]

theorem csvFlat_body_end (fields : List (Bool × Str)) (hne : csvBodyQ fields ≠ [])
    (hl : ∀ f ∈ fields, f.2.length ≤ csvFieldLimit) (row : List Str) :
    csvFlat ⟨.startField, [], row⟩ (csvBodyQ fields) = ([row ++ fields.map (·.2)], false) := by
  induction fields generalizing row with
  | nil => exact absurd rfl hne
  | cons f l ih =>
    cases l with
    | nil =>
      rw [csvBodyQ_single] at hne ⊢
      rw [csvFlat_field_end f.1 f.2 (hl f (by simp)) row hne]
      simp
    | cons g l =>
      obtain ⟨s', hd, hfld, hrow, hrun⟩ := csvFlat_field f.1 f.2 (hl f (by simp)) row
      rw [csvBodyQ_cons_cons, hrun _ (by simp)]
      by_cases hb : csvBodyQ (g :: l) = []
      · -- the rest is a single empty non-escaped field
        have hgl : (g :: l).map (·.2) = [[]] := by
          cases l with
          | nil =>
            rw [csvBodyQ_single] at hb
            have : g.2 = [] := by
              unfold csvFieldQ at hb
              split at hb
              · simp at hb
              · exact hb
            simp [this]
          | cons x xs =>
            rw [csvBodyQ_cons_cons] at hb
            simp at hb
        rw [hb, csvFlat_comma_end hd, hfld, hrow, List.map_cons, hgl]
        simp
      · rw [csvFlat_comma hd hb, hfld, hrow, ih hb (fun x hx => hl x (by simp [hx]))]
        simp

/-- a writable record at the very end of the text, without terminator -/
theorem csvFlat_row_end (fields : List (Bool × Str)) (hok : CsvRowOk fields)
    (hl : ∀ f ∈ fields, f.2.length ≤ csvFieldLimit) :
    csvFlat .init (csvBodyQ fields) = ([fields.map (·.2)], false) := by
  obtain ⟨c, cs, hc, h1, h2⟩ := csvBodyQ_head hok []
  rw [List.append_nil] at hc
  have := csvFlat_body_end fields (by rw [hc]; simp) hl []
  rw [hc] at this ⊢
  change csvFlat ⟨.startRecord, [], []⟩ _ = _
  rw [csvFlat_startRecord_char _ _ _ h1 h2, this]
  simp

/-- records, the last one without terminator -/
theorem csvRead_textQ_open (rows : List (Bool × List (Bool × Str))) (last : List (Bool × Str))
    (h : ∀ r ∈ rows, CsvRowOk r.2 ∧ ∀ f ∈ r.2, f.2.length ≤ csvFieldLimit)
    (hok : CsvRowOk last) (hl : ∀ f ∈ last, f.2.length ≤ csvFieldLimit) :
    csvRead (csvTextQ rows ++ csvBodyQ last) =
      ((rows.map fun r => r.2.map (·.2)) ++ [last.map (·.2)], false) := by
  rw [csvRead_eq, csvFlat_textQ_append rows h, csvFlat_row_end last hok hl]

/-! ### the field size limit -/

theorem csvFlat_error {s : CsvSt} {c : Char} (h : csvChar s (some c) = none) (rest : Str) :
    csvFlat s (c :: rest) = ([], true) := by
  rw [csvFlat, h]

theorem csvEsc_append (a b : Str) : csvEsc (a ++ b) = csvEsc a ++ csvEsc b := by
  simp [csvEsc]

/-- a written field longer than the limit makes the reader fail inside the field -/
theorem csvFlat_field_too_long (q : Bool) (f : Str) (hf : csvFieldLimit < f.length) (row : List Str)
    (rest : Str) :
    csvFlat ⟨.startField, [], row⟩ (csvFieldQ q f ++ rest) = ([], true) := by
  obtain ⟨a, c, b, rfl, ha⟩ : ∃ a c b, f = a ++ c :: b ∧ a.length = csvFieldLimit := by
    have hd : f.drop csvFieldLimit ≠ [] := by
      intro h
      have := congrArg List.length h
      simp only [List.length_drop, List.length_nil] at this
      omega
    obtain ⟨c, b, hcb⟩ := List.exists_cons_of_ne_nil hd
    exact ⟨f.take csvFieldLimit, c, b, by rw [← hcb, List.take_append_drop],
      by rw [List.length_take]; omega⟩
  by_cases h : q = true ∨ (a ++ c :: b).any csvSpecial = true
  · rw [csvFieldQ_quoted h, csvEsc_append]
    have e1 : ('"' :: (csvEsc a ++ csvEsc (c :: b) ++ ['"'])) ++ rest =
        '"' :: (csvEsc a ++ (csvEsc (c :: b) ++ '"' :: rest)) := by simp
    have h1 : csvChar ⟨.startField, [], row⟩ (some '"') = some ⟨.inQuoted, [], row⟩ := rfl
    rw [e1, csvFlat_mid (by decide) (by simp) h1,
      csvFlat_inQuoted_run a [] row _ (by simp) (by simp [ha])]
    have hlen : csvFieldLimit ≤ a.length := by omega
    by_cases hc : c = '"'
    · subst hc
      have h2 : csvChar ⟨.inQuoted, a.reverse ++ [], row⟩ (some '"') =
          some ⟨.quoteInQuoted, a.reverse ++ [], row⟩ := rfl
      have h3 : csvChar ⟨.quoteInQuoted, a.reverse ++ [], row⟩ (some '"') = none := by
        simp [csvChar, CsvSt.add, hlen]
      rw [csvEsc_cons_quote, List.cons_append, List.cons_append,
        csvFlat_mid (by decide) (by simp) h2, csvFlat_error h3]
    · have h2 : csvChar ⟨.inQuoted, a.reverse ++ [], row⟩ (some c) = none := by
        simp [csvChar, CsvSt.add, hc, hlen]
      rw [csvEsc_cons_char hc, List.cons_append, csvFlat_error h2]
  · have hq : q = false := by cases q <;> simp_all
    have h' : (a ++ c :: b).any csvSpecial = false := by simpa using fun h2 => h (Or.inr h2)
    subst hq
    rw [csvFieldQ_raw h']
    have hs := not_special h'
    cases a with
    | nil => simp [csvFieldLimit] at ha
    | cons c0 a' =>
      have hc0 := hs c0 (by simp)
      have hc := hs c (by simp)
      simp only [List.length_cons] at ha
      have h1 : csvChar ⟨.startField, [], row⟩ (some c0) = some ⟨.inField, [c0], row⟩ := by
        simp [csvChar, csvStartField, hc0.1, hc0.2.1, hc0.2.2.1, hc0.2.2.2, CsvSt.add, csvFieldLimit]
      have hlen : csvFieldLimit ≤ a'.length + 1 := by omega
      have h2 : csvChar ⟨.inField, a'.reverse ++ [c0], row⟩ (some c) = none := by
        simp [csvChar, CsvSt.add, hc.1, hc.2.2.1, hc.2.2.2, hlen]
      simp only [List.cons_append, List.append_assoc]
      rw [csvFlat_mid hc0.2.2.2 (by simp) h1,
        csvFlat_inField_run a' (fun x hx => hs x (by simp [hx])) _ _ _ (by simp)
          (by simp only [List.length_cons, List.length_nil]; omega),
        csvFlat_error h2]

/-- the same at the beginning of a record -/
theorem csvFlat_init_field_too_long (q : Bool) (f : Str) (hf : csvFieldLimit < f.length)
    (rest : Str) :
    csvFlat .init (csvFieldQ q f ++ rest) = ([], true) := by
  have hne : f ≠ [] := by
    intro h; subst h; simp at hf
  obtain ⟨c, cs, hc, h1, h2⟩ : ∃ c cs, csvFieldQ q f ++ rest = c :: cs ∧ c ≠ '\n' ∧ c ≠ '\r' := by
    by_cases h : q = true ∨ f.any csvSpecial = true
    · exact ⟨'"', _, by rw [csvFieldQ_quoted h]; rfl, by decide, by decide⟩
    · have hq : q = false := by cases q <;> simp_all
      have h' : f.any csvSpecial = false := by simpa using fun h2 => h (Or.inr h2)
      subst hq
      cases f with
      | nil => contradiction
      | cons c cs =>
        have := not_special h' c (by simp)
        exact ⟨c, _, by rw [csvFieldQ_raw h']; rfl, this.2.2.2, this.2.2.1⟩
  have := csvFlat_field_too_long q f hf [] rest
  rw [hc] at this ⊢
  change csvFlat ⟨.startRecord, [], []⟩ _ = _
  rw [csvFlat_startRecord_char _ _ _ h1 h2, this]

/-! ### the library's writer is one of them -/

/-- quoting choices of `csv.writer` with `QUOTE_MINIMAL`: only a single empty field -/
def csvMarks (fields : List Str) : List (Bool × Str) :=
  if fields = [[]] then [(true, [])] else fields.map fun f => (false, f)

theorem csvMarks_snd (fields : List Str) : (csvMarks fields).map (·.2) = fields := by
  unfold csvMarks
  split
  · next h => subst h; rfl
  · simp [List.map_map, Function.comp_def]

theorem csvMarks_ok {fields : List Str} (h : fields ≠ []) : CsvRowOk (csvMarks fields) := by
  unfold csvMarks
  split
  · exact ⟨by simp, by simp⟩
  · next hne =>
    refine ⟨by simpa using h, ?_⟩
    intro he
    apply hne
    have := congrArg (List.map (·.2)) he
    simpa [List.map_map, Function.comp_def] using this

theorem csvRow_eq (fields : List Str) : csvRow fields = csvRowQ true (csvMarks fields) := by
  unfold csvRow csvMarks
  split
  · simp [csvRowQ, csvFieldQ, csvEsc, joinWith, csvTerm]
  · next hne =>
    have : ¬ fields = [[]] := fun h => hne h
    rw [if_neg this, csvRowQ, List.map_map]
    have : ((fun f : Bool × Str => csvFieldQ f.1 f.2) ∘ fun f => (false, f)) = csvField := by
      funext s; simp [csvField_eq]
    rw [this]; rfl

theorem csvText_eq (rows : List (List Str)) :
    rows.flatMap csvRow = csvTextQ (rows.map fun r => (true, csvMarks r)) := by
  rw [csvTextQ, List.flatMap_map]
  congr 1
  funext r
  exact csvRow_eq r

/-- `csv.reader` inverts `csv.writer` on every list of non-empty rows (fields within the field
size limit of the reader) -/
theorem csvRead_rows (rs : List (List Str)) (h : ∀ r ∈ rs, r ≠ [])
    (hl : ∀ r ∈ rs, ∀ f ∈ r, f.length ≤ csvFieldLimit) :
    csvRead (rs.flatMap csvRow) = (rs, false) := by
  rw [csvText_eq, csvRead_textQ]
  · simp [List.map_map, Function.comp_def, csvMarks_snd]
  · intro r hr
    simp only [List.mem_map] at hr
    obtain ⟨x, hx, rfl⟩ := hr
    refine ⟨csvMarks_ok (h x hx), ?_⟩
    intro f hf
    have : f.2 ∈ (csvMarks x).map (·.2) := List.mem_map_of_mem hf
    rw [csvMarks_snd] at this
    exact hl x hx _ this

theorem csvParse_of_read {t : Str} {rows : List (List Str)} (h : csvRead t = (rows, false)) :
    csvParse t = some rows := by
  simp [csvParse, h]

end FCA
