import FCA.Props.C01Gen
import FCA.Props.C15
/-
C15 over the regenerated source: the transposition clause stated for the derivation loops translated from the current
`matrices.py` — the six closures of the transposed context, as the source computes them, are the closures of the other side of
the original context; and a pair is a formal concept for the regenerated derivations exactly when it is one in the model (the
notion all invariance theorems `C15_*` are about).
-/
namespace FCA

/-- derivations of the transposed table by the regenerated loops = the other side's derivations of the original -/
theorem C15_generated_transpose (K : Ctx) (A B : Nat) :
    Generated.prime K.transpose.rows K.transpose.cols (full K.transpose.m) (full K.transpose.n) B = K.extentOf B ∧
    Generated.prime K.transpose.cols K.transpose.rows (full K.transpose.n) (full K.transpose.m) A = K.intentOf A ∧
    Generated.doubleprime K.transpose.rows K.transpose.cols (full K.transpose.m) (full K.transpose.n) B = K.dpProp B ∧
    Generated.doubleprime K.transpose.cols K.transpose.rows (full K.transpose.n) (full K.transpose.m) A = K.dpObj A := by
  obtain ⟨h1, _, h3, h4, _, h6⟩ := C01_generated_closures K A B
  exact ⟨h4, h1, h6, h3⟩

/-- `(A, B)` is a formal concept for the derivation loops of the current source iff it is one of the model -/
theorem C15_generated_isConcept (K : Ctx) (A B : Nat) :
    (Generated.prime K.rows K.cols (full K.m) (full K.n) A = B ∧ Generated.prime K.cols K.rows (full K.n) (full K.m) B = A) ↔
      (K.intentOf A = B ∧ K.extentOf B = A) := by
  obtain ⟨h1, _, _, h4, _, _⟩ := C01_generated_closures K A B
  rw [h1, h4]

end FCA
#print axioms FCA.C15_generated_transpose
#print axioms FCA.C15_generated_isConcept
