"""./check <property> --tier quick|thorough [--replay file]"""
import argparse
import fcntl
import glob
import hashlib
import importlib
import json
import os
import re
import subprocess
import sys
import time
import traceback

HERE = os.path.dirname(os.path.abspath(__file__))
VERIF = os.path.dirname(HERE)
sys.path.insert(0, HERE)
LEAN = os.path.join(VERIF, 'lean')
WORK = os.path.join(VERIF, '.work')
ALLOWED_AXIOMS = {'propext', 'Classical.choice', 'Quot.sound'}
FORBIDDEN = re.compile(r'\b(sorry|admit|native_decide|bv_decide|implemented_by|unsafe)\b|^\s*axiom\s|maxHeartbeats\s+0')

TRUSTED = [
    'Lean 4.33.0 kernel (theorems of FCA/Props and FCA/Proofs; axioms limited to propext, Classical.choice, Quot.sound; audited by #print axioms on this run)',
    'Mathlib v4.33.0 modules imported by FCA/Proofs (definitions and lemmas, kernel-checked)',
    'Lean compiler and runtime for the executable driver (the compiled code of the model definitions)',
    'harness/ (generators, canonicalisation, comparison) and harness/extract.py + extract2.py (source-to-Lean translation of expression kernels, tables, the loop bodies of matrices.py, lindig.neighbors, lindig.lattice, the two FCbO generators and iterunion, the configuration of the traversal entry points, of Lattice._annotate and of the sorts in Lattice.__init__/_init/_fromlist; ~x read as in-domain complement, dict of mutable tuples read as a record list, heap of (key, x) pairs read as the list of x)',
    'dependency contracts not modelled: bitsets (frommembers/members/bools/shortlex/longlex/powerset/atomic), CPython heapq/sorted/set/dict/int, csv, json, pickle, io, graphviz',
]


def sh(cmd, cwd=None, timeout=3600):
    return subprocess.run(cmd, cwd=cwd, stdout=subprocess.PIPE, stderr=subprocess.STDOUT, text=True, timeout=timeout)


def strip_comments(text):
    text = re.sub(r'/-.*?-/', '', text, flags=re.S)
    return re.sub(r'--.*', '', text)


def build(pid, log):
    """Regenerate FCA/Generated from the source under test, build the driver and the property's
    theorem module, audit axioms. Returns dict(obligations, discharged, failed, extraction, notes)."""
    os.makedirs(WORK, exist_ok=True)
    info = {'obligations': 0, 'discharged': 0, 'failed': [], 'extraction': {}, 'theorems': [], 'notes': []}
    with open(os.path.join(WORK, 'lake.lock'), 'w') as lock:
        fcntl.flock(lock, fcntl.LOCK_EX)
        import extract
        info['extraction'] = extract.regenerate(log)
        r = sh(['lake', 'build', 'driver'], cwd=LEAN)
        if r.returncode != 0:
            log(r.stdout[-3000:])
            raise RuntimeError('driver build failed')
        mods = ['FCA.Props.' + pid]
        # further theorem files about the hand-written model: FCA/Props/<pid><Suffix>.lean (all but <pid>Gen.lean)
        more = sorted(f for f in glob.glob(os.path.join(LEAN, 'FCA', 'Props', pid + '[A-Z]*.lean'))
                      if not f.endswith(pid + 'Gen.lean'))
        mods += ['FCA.Props.' + os.path.basename(f)[:-5] for f in more]
        gen = os.path.join(LEAN, 'FCA', 'Props', pid + 'Gen.lean')
        have_gen = os.path.exists(gen)
        gen_sources = {'C08': ['Predicates'], 'C16': ['Junctors', 'RelationsInit'], 'C12': ['Formats', 'CxtLines', 'TableDump'], 'C01': ['Loops'],
                       'C03': ['Lindig', 'LindigLattice'], 'C05': ['Lindig', 'Getitem'], 'C04': ['Fcbo'], 'C19': ['Validate', 'FromdictRow'],
                       'C09': ['Iterunion', 'Predicates'], 'C10': ['Annotate'], 'C06': ['SortKeys', 'Extremes'], 'C11': ['SortKeys', 'Tolist'], 'C07': ['Aggregate'], 'C18': ['Minimize'], 'C13': ['Defn', 'Unique'], 'C14': ['Derive'], 'C17': ['Derive', 'Defn'], 'C20': ['Dot'], 'C02': ['Getitem'], 'C15': ['Loops']}.get(pid, [])
        bad_sources = [g for g in gen_sources if str(info['extraction'].get(g, '')).startswith('declined')]
        declined = bool(bad_sources)
        if declined:
            info['notes'].append('extraction declined (%s): the theorems over the regenerated kernels are not checked against the '
                                 'current source on this run' % '; '.join('%s: %s' % (g, info['extraction'][g]) for g in bad_sources))
        src_files = [os.path.join(LEAN, 'FCA', 'Props', pid + '.lean')]
        have_props = os.path.exists(src_files[0])
        src_files += more
        if have_props:
            r = sh(['lake', 'build'] + mods, cwd=LEAN)
        pinned_ok = (r.returncode == 0) if have_props else True
        if not have_props:
            info['notes'].append('no theorem file lean/FCA/Props/%s.lean yet' % pid)
        if not pinned_ok:
            log(r.stdout[-3000:])
            info['notes'].append('lake build FCA.Props.%s failed' % pid)
        gen_ok = None
        if have_gen and declined:
            gen_ok = False
            src_files.append(gen)
        elif have_gen:
            r = sh(['lake', 'build', 'FCA.Props.%sGen' % pid], cwd=LEAN)
            gen_ok = r.returncode == 0
            if not gen_ok:
                log(r.stdout[-3000:])
                info['notes'].append('theorems over the regenerated kernels (FCA.Props.%sGen) no longer check' % pid)
                # which theorems of the file the errors fall into (the whole file counts as not checked, this says where it broke)
                try:
                    lines = open(gen).read().split('\n')
                    starts = [(i + 1, mt.group(1)) for i, l in enumerate(lines)
                              for mt in [re.match(r'\s*(?:theorem|def)\s+(\w+)', l)] if mt]
                    broke = []
                    for mt in re.finditer(r'error: \S*%sGen\.lean:(\d+):' % pid, r.stdout):
                        ln = int(mt.group(1))
                        owner = [n for s0, n in starts if s0 <= ln]
                        if owner and owner[-1] not in broke:
                            broke.append(owner[-1])
                    if broke:
                        info['broken_at'] = broke
                        info['notes'].append('errors inside: ' + ', '.join(broke))
                except Exception:       # diagnostics only
                    pass
            src_files.append(gen)
        # obligations = theorems named <pid>_* in the property files
        names = []
        for f in src_files:
            if not os.path.exists(f):
                continue
            text = strip_comments(open(f).read())
            for mt in re.finditer(r'^\s*theorem\s+(%s_\w+)' % pid, text, flags=re.M):
                names.append((mt.group(1), os.path.basename(f)))
        info['obligations'] = len(names)
        # forbidden tokens anywhere in the lean sources
        bad = []
        for f in glob.glob(os.path.join(LEAN, 'FCA', '**', '*.lean'), recursive=True):
            for ln, line in enumerate(strip_comments(open(f).read()).split('\n'), 1):
                if FORBIDDEN.search(line):
                    bad.append('%s:%d: %s' % (os.path.relpath(f, LEAN), ln, line.strip()))
        if bad:
            info['notes'].append('forbidden tokens: ' + '; '.join(bad[:5]))
        # axioms audit
        audit = os.path.join(WORK, 'Audit_%s_%d.lean' % (pid, os.getpid()))
        imports = []
        if pinned_ok and have_props:
            imports += ['import ' + m for m in mods]
        if have_gen and gen_ok:
            imports.append('import FCA.Props.%sGen' % pid)
        ok_names = [n for n, f in names if (f != pid + 'Gen.lean' and pinned_ok) or (f == pid + 'Gen.lean' and gen_ok)]
        info['failed'] = [n for n, f in names if n not in ok_names]
        if imports and ok_names:
            with open(audit, 'w') as f:
                f.write('\n'.join(imports) + '\nopen FCA\n' + '\n'.join('#print axioms %s' % n for n in ok_names) + '\n')
            r = sh(['lake', 'env', 'lean', audit], cwd=LEAN)
            os.unlink(audit)
            out = r.stdout
            for n in ok_names:
                mt = re.search(r"'(?:FCA\.)?%s' (does not depend on any axioms|depends on axioms: \[([^\]]*)\])" % re.escape(n), out.replace('\n', ' '))
                if not mt:
                    info['failed'].append(n)
                    info['notes'].append('no axiom report for ' + n)
                    continue
                axioms = set(a.strip() for a in (mt.group(2) or '').split(',') if a.strip())
                if axioms - ALLOWED_AXIOMS or bad:
                    info['failed'].append(n)
                    info['notes'].append('%s depends on %s' % (n, sorted(axioms - ALLOWED_AXIOMS)))
                else:
                    info['discharged'] += 1
                    info['theorems'].append(n)
        info['pinned_ok'] = pinned_ok
        info['gen_ok'] = gen_ok
        # thorough tier: independent re-check of the compiled property modules
        if os.environ.get('VERIF_LEANCHECKER') == '1' and pinned_ok and have_props:
            mods2 = ['FCA.Props.' + pid] + (['FCA.Props.%sGen' % pid] if have_gen and gen_ok else [])
            r = sh(['lake', 'env', 'leanchecker'] + mods2, cwd=LEAN, timeout=1800)
            info['leanchecker'] = 'ok' if r.returncode == 0 else 'FAILED: ' + r.stdout[-500:]
            if r.returncode != 0:
                info['failed'] = list(ok_names)
                info['discharged'] = 0
                info['notes'].append('leanchecker rejected the compiled property module')
    return info


def load_known():
    path = os.path.join(VERIF, 'known_findings.json')
    if not os.path.exists(path):
        return []
    return json.load(open(path))['findings']


def main():
    ap = argparse.ArgumentParser()
    ap.add_argument('pid')
    ap.add_argument('--tier', default=os.environ.get('VERIF_TIER', 'quick'), choices=['quick', 'thorough'])
    ap.add_argument('--replay')
    ap.add_argument('--no-build', action='store_true')
    args = ap.parse_args()
    pid = args.pid
    seed = int(os.environ.get('VERIF_SEED', '0') or 0)
    t0 = time.time()
    logs = []

    def log(s):
        logs.append(s)
        print(s, file=sys.stderr)

    if args.tier == 'thorough':
        os.environ.setdefault('VERIF_LEANCHECKER', '1')
    try:
        if args.no_build:
            info = {'obligations': 0, 'discharged': 0, 'failed': [], 'extraction': {}, 'theorems': [], 'notes': ['--no-build'], 'pinned_ok': True, 'gen_ok': None}
        else:
            info = build(pid, log)
    except Exception as e:
        traceback.print_exc()
        print('INTERNAL-ERROR build: %s' % e)
        return 2

    import core
    mod = importlib.import_module('props.' + pid.lower())
    if args.replay:
        rec = json.load(open(args.replay))
        return mod.replay(rec) if hasattr(mod, 'replay') else core_replay(rec)

    run = core.Run(pid, args.tier, seed)
    known = [k for k in load_known() if k.get('status') == 'known' and k.get('property') == pid]
    run.known = known
    run.known_hits = []
    # a broken proof / extraction tie, or an edit of the modelled source files, widens the search:
    # thorough-size exploration under a time limit
    import pins
    pins_changed = pins.changed(os.environ.get('VERIF_REPO', '/repo'), pid)
    info['pins_changed'] = pins_changed
    run.widen = bool(info['failed']) or bool(pins_changed)
    if run.widen and args.tier == 'quick':
        run.tier = 'thorough'
        run.deadline = time.time() + 300
        if info['failed']:
            run.notes.append('a theorem or the extraction no longer checks (%s): searching with thorough-size inputs for 300 s' % ', '.join(info['failed'][:4]))
        if pins_changed:
            run.notes.append('modelled source files differ from the pinned text (%s): exploring thorough-size inputs for up to 300 s' % ', '.join(pins_changed))
    status = 0
    verdict_lines = []
    api_broken = None
    try:
        mod.run(run)
    except core.Disagreement as e:
        if run.violation is None:
            run.violation = {'property': pid, 'what': str(e), 'implementation': str(e), 'model': None, 'requests': [],
                             'seed': seed, 'tier': args.tier, 'case_index': run.evaluations}
    except core.ApiBroken as e:
        api_broken = str(e)
    except Exception as e:
        traceback.print_exc()
        print('INTERNAL-ERROR harness: %r' % e)
        run.close()
        return 2
    run.close()

    for hit in run.known_hits:
        print('KNOWN-FINDING: property=%s %s' % (pid, hit))
    if run.violation is not None:
        try:
            small = shrink(mod, pid, args.tier, seed, run.violation)
        except Exception:
            small = None
        if small is not None:
            small['shrunk_from'] = run.violation.get('requests', [])[:1]
            run.violation = small
        run.violation['failed_theorems'] = info['failed']
        run.violation['proof_errors_inside'] = info.get('broken_at')
        run.violation['tree'] = tree_hash()
        path = core.write_replay(pid, run.violation)
        print('VIOLATION property=%s replay=%s' % (pid, path))
        status = 1
    elif api_broken is not None:
        rec = {'property': pid, 'what': 'correspondence no longer checks: ' + api_broken,
               'failed_theorems': info['failed'], 'proof_errors_inside': info.get('broken_at'), 'requests': [], 'tree': tree_hash()}
        path = core.write_replay(pid, rec)
        print('VIOLATION property=%s replay=%s no-failing-input-found' % (pid, path))
        status = 1
    elif info['failed']:
        # a proof obligation no longer checks (theorems about the model, or the theorems over the kernels regenerated from
        # the current source, or the translator declined the source) and the widened search found no failing input:
        # the property is no longer shown to hold for this source
        what = ('theorems about the model no longer check' if not info.get('pinned_ok', True)
                else 'the extraction tie no longer checks (theorems over the code regenerated from the current source)')
        rec = {'property': pid, 'what': what, 'failed_theorems': info['failed'], 'proof_errors_inside': info.get('broken_at'),
               'requests': [], 'tree': tree_hash(), 'notes': info['notes'], 'extraction': info.get('extraction'),
               'searched': {'evaluations': run.evaluations, 'distinct_nontrivial': len(run.distinct), 'tier': run.tier}}
        path = core.write_replay(pid, rec)
        print('VIOLATION property=%s replay=%s no-failing-input-found' % (pid, path))
        status = 1

    if not args.no_build:   # development runs without the proof audit never overwrite the evidence
        write_evidence(pid, args.tier, seed, run, info, time.time() - t0, status)
    if status == 0:
        print('PASS property=%s tier=%s evaluations=%d distinct_nontrivial=%d theorems=%d/%d wall=%.1fs%s' % (
            pid, args.tier, run.evaluations, len(run.distinct), info['discharged'], info['obligations'],
            time.time() - t0, ''))
    return status


def shrink(mod, pid, tier, seed, violation, budget=45):
    """Minimise the failing context of a violation whose first request is a `ctx` line: delete rows / columns and
    clear cells while the same observable still disagrees. Returns the smaller violation record or None."""
    import core
    import gen
    reqs = violation.get('requests') or []
    if not reqs or not str(reqs[0]).startswith('ctx '):
        return None
    parts = reqs[0].split()
    n, m, rows = int(parts[1]), int(parts[2]), [int(x) for x in parts[3:]]
    if len(rows) != n:
        return None
    key = str(violation.get('what', '')).split('(')[0][:40]
    t_end = time.time() + budget
    best = None

    def fails(tab):
        run = core.Run(pid, tier, seed)
        run.known, run.known_hits = [], []
        gen.ONLY = [tab]
        try:
            mod.run(run)
        except core.Disagreement:
            pass
        except Exception:
            run.violation = None
        finally:
            gen.ONLY = None
            run.close()
        v = run.violation
        return v if v is not None and str(v.get('what', '')).split('(')[0][:40] == key else None

    def candidates(n, m, rows):
        for i in range(n):
            if n > 1:
                yield n - 1, m, rows[:i] + rows[i + 1:]
        for j in range(m):
            if m > 1:
                low = (1 << j) - 1
                yield n, m - 1, [(r & low) | ((r >> (j + 1)) << j) for r in rows]
        for i in range(n):
            for j in range(m):
                if (rows[i] >> j) & 1:
                    yield n, m, rows[:i] + [rows[i] & ~(1 << j)] + rows[i + 1:]

    if fails((n, m, rows)) is None:
        return None        # needs more than this one context (history, two live contexts, …): keep the original
    progress = True
    while progress and time.time() < t_end:
        progress = False
        for cand in candidates(n, m, rows):
            if time.time() >= t_end:
                break
            v = fails(cand)
            if v is not None:
                n, m, rows = cand
                best = v
                progress = True
                break
    return best


def core_replay(rec):
    import core
    d = core.Driver()
    for line in rec.get('requests', []):
        print('>', line)
        print('model:', d.ask(line))
    print('implementation answer recorded:', rec.get('implementation'))
    print('model answer recorded:', rec.get('model'))
    d.close()
    return 0


def tree_hash():
    repo = os.environ.get('VERIF_REPO', '/repo')
    try:
        head = sh(['git', '-C', repo, 'rev-parse', 'HEAD']).stdout.strip()
        diff = sh(['git', '-C', repo, 'diff', 'HEAD']).stdout
        return head + ('+' + hashlib.sha1(diff.encode()).hexdigest()[:10] if diff else '')
    except Exception:
        return 'unknown'


def write_evidence(pid, tier, seed, run, info, wall, status):
    # evidence/ describes runs against /repo only; runs against another tree ($VERIF_REPO, development) go elsewhere
    evdir = 'evidence' if os.path.realpath(os.environ.get('VERIF_REPO', '/repo')) == '/repo' else os.path.join('.work', 'evidence-other-tree')
    os.makedirs(os.path.join(VERIF, evdir), exist_ok=True)
    cov = {
        'obligations': max(info['obligations'], 1) if info['obligations'] else 0,
        'discharged': info['discharged'],
        'checker_cmd': 'cd lean && lake build FCA.Props.%s && lake env lean <#print axioms for every theorem %s_*>' % (pid, pid),
        'trusted_base': TRUSTED,
        'evaluations': run.evaluations,
        'distinct_nontrivial': len(run.distinct),
        'rule': getattr(run, 'rule', ''),
        'samples': run.samples[:6] + [{'theorem': t} for t in info['theorems'][:40]],
        'theorems_checked': info['theorems'],
        'theorems_failed': info['failed'],
        'extraction': info['extraction'],
        'model_counters': run.counters,
        'notes': info['notes'] + run.notes,
        'partial': getattr(run, 'partial', []),
        'exhaustive': getattr(run, 'exhaustive', False),
        'source_pins_changed': info.get('pins_changed', []),
        'leanchecker': info.get('leanchecker', 'not run (thorough tier only)'),
        'tie': 'correspondence-only' if info['failed'] else 'proof+extraction+correspondence' if info.get('gen_ok') else 'proof+correspondence',
        'known_findings_reproduced': run.known_hits,
    }
    if not cov['obligations']:
        del cov['obligations'], cov['discharged']
    proved = info['obligations'] > 0 and info['discharged'] == info['obligations']
    ev = {'property_id': pid, 'tier': tier, 'seed': seed, 'level': 'proof' if proved else 'exploration', 'coverage': cov,
          'assumptions': TRUSTED, 'wall_s': round(wall, 2), 'violations': 1 if status == 1 else 0}
    with open(os.path.join(VERIF, evdir, pid + '.json'), 'w') as f:
        json.dump(ev, f, indent=1, sort_keys=True, default=str)
        f.write('\n')


if __name__ == '__main__':
    sys.exit(main())
