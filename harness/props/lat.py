"""Helpers shared by the lattice-level checks."""
import itertools
from core import PyCtx, Disagreement, show_list, members_of, mask_of, guard
import gen


def contexts(run, **kw):
    """The stream of (table, PyCtx) of this run; stops at the deadline.

    Every context is handed out only after the *next* one has been constructed, so that two live
    contexts (often with the same labels and different tables) always coexist when the older one is
    queried for the first time."""
    seen = 0
    pending = None
    for tab in gen.suite(run.rng, run.tier, **kw):
        if not run.time_left():
            run.notes.append('stopped at deadline after %d contexts' % seen)
            break
        seen += 1
        n, m, rows = tab
        line = 'ctx %d %d %s' % (n, m, ' '.join(map(str, rows)))
        with guard(run, 'Context(...) of a valid table', [line]):
            pc = PyCtx(tab)
        cells = n * m
        run.count('input size: ' + ('<= 4 cells' if cells <= 4 else '<= 9 cells' if cells <= 9 else '<= 16 cells' if cells <= 16 else
                                    '<= 36 cells' if cells <= 36 else '<= 100 cells' if cells <= 100 else
                                    'wide (max side >= 64)' if max(n, m) >= 64 else '> 100 cells'))
        fill = sum(bin(r).count('1') for r in rows) / float(cells)
        run.count('input fill: ' + ('empty' if fill == 0 else 'full' if fill == 1 else '< 1/3' if fill < 1 / 3 else '< 2/3' if fill < 2 / 3 else '>= 2/3'))
        if pending is not None:
            run.driver.ask(pending[1].line)
            yield pending
            if seen % 4 == 0:
                yield from _reloaded_twin(run, pending)
        pending = (tab, pc)
    if pending is not None:
        run.driver.ask(pending[1].line)
        yield pending
        yield from _reloaded_twin(run, pending)


def _reloaded_twin(run, pending):
    """The same context obtained another way: serialised with its lattice and loaded again (`Lattice._fromlist` instead
    of `Lattice.__init__`), after the original lattice exists. Every lattice-level observable must be the same."""
    import copy
    import concepts
    tab, pc = pending
    if min(pc.n, pc.m) > 8:
        return
    how = run.rng.choice(['fromdict', 'fromdict permuted raw=True', 'fromjson permuted raw=True',
                          'fromjson bogus stored lattice ignore_lattice=True',
                          'fromdict of a later todict() after the caller scrambled an earlier one',
                          'fresh context whose names are single characters and their concatenations']
                         + (['the same context with its lattice from a pickle round trip', 'the same context with a deep copy of its lattice']
                            if run.pid not in ('C11', 'C12') else []))
    if how.startswith('the same context with'):
        import pickle
        with guard(run, 'twin context: ' + how, [pc.line, 'lattice']):
            L0 = pc.ctx.lattice
            if len(L0) > 150:
                return
            twin = copy.copy(pc)
            twin.ctx = _ContextWithLattice(pc.ctx, pickle.loads(pickle.dumps(L0)) if 'pickle' in how else copy.deepcopy(L0))
            twin.reloaded = True
        run.count('twin context: ' + how)
        yield tab, twin
        return
    if how.startswith('fresh context'):
        # names such that a multi-character name is the concatenation of other names of the same kind ('a', 'b', 'ab', ...):
        # a str is an iterable of its characters, nothing may confuse the two readings

        def names(alphabet, k):
            out = []
            for size in (1, 2, 3, 4, 5):
                for t in itertools.product(alphabet, repeat=size):
                    out.append(''.join(t))
                    if len(out) == k:
                        return out
            return out
        with guard(run, 'twin context: ' + how, [pc.line, 'lattice']):
            twin = PyCtx(tab, names('abc', pc.n), names('xyz', pc.m))
            twin.reloaded = True
        run.count('twin context: ' + how)
        yield tab, twin
        return
    with guard(run, 'twin context: ' + how, [pc.line, 'lattice']):
        import io
        import json
        twin = copy.copy(pc)
        dd = pc.ctx.todict()
        bogus = [(tuple(range(pc.n)), (), (), ())]
        if how == 'fromdict':
            twin.ctx = concepts.Context.fromdict(dd)
        elif how.startswith('fromdict permuted'):
            twin.ctx = concepts.Context.fromdict(dict(dd, lattice=permute_stored(run.rng, dd['lattice'])), raw=True)
        elif how.startswith('fromjson permuted'):
            doc = json.dumps(dict(dd, lattice=[list(map(list, e)) for e in permute_stored(run.rng, dd['lattice'])]))
            twin.ctx = concepts.Context.fromjson(io.StringIO(doc), raw=True)
        elif how.startswith('fromjson'):
            # a stored lattice that does not belong to the table must not matter when it is ignored: the lattice is computed
            doc = json.dumps(dict(dd, lattice=bogus))
            twin.ctx = concepts.Context.fromjson(io.StringIO(doc), ignore_lattice=True)
        else:
            dd['lattice'][:] = bogus
            dd['context'][:] = []
            twin.ctx = concepts.Context.fromdict(pc.ctx.todict())
        twin.reloaded = True
    run.count('twin context: ' + how)
    yield tab, twin


class _ContextWithLattice:
    """The context of a check, except that `.lattice` is a given lattice object of the same context (restored from a pickle,
    deep-copied): everything else is the original context."""

    def __init__(self, ctx, lattice):
        self.__dict__['_ctx'] = ctx
        self.__dict__['lattice'] = lattice

    def __getattr__(self, name):
        return getattr(self.__dict__['_ctx'], name)

    def __getitem__(self, key):
        return self.__dict__['_ctx'][key]

    def __eq__(self, other):
        return self.__dict__['_ctx'] == getattr(other, '_ctx', other)

    def __ne__(self, other):
        return self.__dict__['_ctx'] != getattr(other, '_ctx', other)

    __hash__ = None


def permute_stored(rng, stored):
    """A permutation of the stored concept sequence with remapped indexes and shuffled tuples."""
    k = len(stored)
    perm = list(range(k))
    rng.shuffle(perm)              # new position p holds old concept perm[p]
    newpos = {old: p for p, old in enumerate(perm)}
    out = []
    for old in perm:
        ex, it, up, lo = stored[old]
        ex, it = list(ex), list(it)
        up, lo = [newpos[u] for u in up], [newpos[l] for l in lo]
        for l in (ex, it, up, lo):
            rng.shuffle(l)
        out.append((tuple(ex), tuple(it), tuple(up), tuple(lo)))
    return out


def subsets(run, k, limit_all=6, sample=20):
    """All subsets of range(k) when small, else a sample incl. empty, full, singletons."""
    if k <= limit_all:
        for r in range(k + 1):
            for c in itertools.combinations(range(k), r):
                yield mask_of(c)
    else:
        yield 0
        yield (1 << k) - 1
        yield 1
        yield 1 << (k - 1)
        if k > 28 and sample >= 20:
            # isolated members at every position, and pairs at every distance (runs of zeros of every length)
            for i in range(k):
                yield 1 << i
                yield 1 | (1 << i)
            for i in range(0, k, 7):
                for gap in (29, 30, 31, 32, 59, 60, 61, 62, 63, 64, 65):
                    if i + gap < k:
                        yield (1 << i) | (1 << (i + gap))
                        yield (1 << i) | (1 << (i + gap)) | (1 << (k - 1))
        for _ in range(sample):
            d = run.rng.choice((.1, .3, .5, .8))
            yield sum(1 << i for i in range(k) if run.rng.random() < d)


def noisy_args(run, labels):
    """The same collection with shuffles and duplicates."""
    l = list(labels)
    if l and run.rng.random() < .6:
        l = l + [run.rng.choice(l) for _ in range(run.rng.randint(1, 3))]
    run.rng.shuffle(l)
    return l


def as_iterable(run, items):
    """The same labels as one of the kinds a parameter annotated `Iterable[str]` admits: list, tuple, dict key view,
    one-shot iterator, generator."""
    k = run.rng.randrange(6)
    items = list(items)
    if items and all(isinstance(x, str) and len(x) == 1 for x in items) and run.rng.random() < .5:
        return ''.join(items)        # a str is an iterable of its characters
    if k == 0:
        return items
    if k == 1:
        return tuple(items)
    if k == 2:
        return dict.fromkeys(items).keys() if len(set(items)) == len(items) else tuple(items)
    if k == 3:
        return iter(items)
    if k == 4:
        return (x for x in items)
    return map(str, items)


def parse_lattice(ans):
    """Driver `lattice` answer → list of dicts."""
    out = []
    def lst(s):
        return [] if s == '-' else [int(x) for x in s.split(',')]
    for k, c in enumerate(ans.split(';')):
        e, i, up, lo, dindex, atoms, objs, props = c.split(' ')
        out.append({'extent': int(e), 'intent': int(i), 'upper': lst(up), 'lower': lst(lo), 'index': k,
                    'dindex': int(dindex), 'atoms': lst(atoms), 'objects': lst(objs), 'properties': lst(props)})
    return out
