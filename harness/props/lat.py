"""Helpers shared by the lattice-level checks."""
import itertools
from core import PyCtx, Disagreement, show_list, members_of, mask_of, guard
import gen


def contexts(run, **kw):
    """The stream of (table, PyCtx) of this run; stops at the deadline.

    Every context is handed out only after the *next* one has been constructed, so that two live
    contexts (often with the same labels and different tables) always coexist when the older one is
    queried for the first time."""
    seen = 0
    pending = None
    for tab in gen.suite(run.rng, run.tier, **kw):
        if not run.time_left():
            run.notes.append('stopped at deadline after %d contexts' % seen)
            break
        seen += 1
        n, m, rows = tab
        line = 'ctx %d %d %s' % (n, m, ' '.join(map(str, rows)))
        with guard(run, 'Context(...) of a valid table', [line]):
            pc = PyCtx(tab)
        cells = n * m
        run.count('input size: ' + ('<= 4 cells' if cells <= 4 else '<= 9 cells' if cells <= 9 else '<= 16 cells' if cells <= 16 else
                                    '<= 36 cells' if cells <= 36 else '<= 100 cells' if cells <= 100 else
                                    'wide (max side >= 64)' if max(n, m) >= 64 else '> 100 cells'))
        fill = sum(bin(r).count('1') for r in rows) / float(cells)
        run.count('input fill: ' + ('empty' if fill == 0 else 'full' if fill == 1 else '< 1/3' if fill < 1 / 3 else '< 2/3' if fill < 2 / 3 else '>= 2/3'))
        if pending is not None:
            run.driver.ask(pending[1].line)
            yield pending
            if seen % 4 == 0:
                yield from _reloaded_twin(run, pending)
        pending = (tab, pc)
    if pending is not None:
        run.driver.ask(pending[1].line)
        yield pending
        yield from _reloaded_twin(run, pending)


def _reloaded_twin(run, pending):
    """The same context obtained another way: serialised with its lattice and loaded again (`Lattice._fromlist` instead
    of `Lattice.__init__`), after the original lattice exists. Every lattice-level observable must be the same."""
    import copy
    import concepts
    tab, pc = pending
    if min(pc.n, pc.m) > 8:
        return
    with guard(run, 'Context.fromdict(context.todict())', [pc.line, 'lattice']):
        twin = copy.copy(pc)
        twin.ctx = concepts.Context.fromdict(pc.ctx.todict())
        twin.reloaded = True
    run.count('contexts reloaded from todict() (lattice not built by __init__)')
    yield tab, twin


def subsets(run, k, limit_all=6, sample=20):
    """All subsets of range(k) when small, else a sample incl. empty, full, singletons."""
    if k <= limit_all:
        for r in range(k + 1):
            for c in itertools.combinations(range(k), r):
                yield mask_of(c)
    else:
        yield 0
        yield (1 << k) - 1
        yield 1
        yield 1 << (k - 1)
        if k > 28 and sample >= 20:
            # isolated members at every position, and pairs at every distance (runs of zeros of every length)
            for i in range(k):
                yield 1 << i
                yield 1 | (1 << i)
            for i in range(0, k, 7):
                for gap in (29, 30, 31, 32, 59, 60, 61, 62, 63, 64, 65):
                    if i + gap < k:
                        yield (1 << i) | (1 << (i + gap))
                        yield (1 << i) | (1 << (i + gap)) | (1 << (k - 1))
        for _ in range(sample):
            d = run.rng.choice((.1, .3, .5, .8))
            yield sum(1 << i for i in range(k) if run.rng.random() < d)


def noisy_args(run, labels):
    """The same collection with shuffles and duplicates."""
    l = list(labels)
    if l and run.rng.random() < .6:
        l = l + [run.rng.choice(l) for _ in range(run.rng.randint(1, 3))]
    run.rng.shuffle(l)
    return l


def parse_lattice(ans):
    """Driver `lattice` answer → list of dicts."""
    out = []
    def lst(s):
        return [] if s == '-' else [int(x) for x in s.split(',')]
    for k, c in enumerate(ans.split(';')):
        e, i, up, lo, dindex, atoms, objs, props = c.split(' ')
        out.append({'extent': int(e), 'intent': int(i), 'upper': lst(up), 'lower': lst(lo), 'index': k,
                    'dindex': int(dindex), 'atoms': lst(atoms), 'objects': lst(objs), 'properties': lst(props)})
    return out
