import FCA.Generated.Aggregate
import FCA.Model.Lattice
/-
C07 over the regenerated source: which `bitsets` reduction `Lattice.join` / `Lattice.meet` of the current `lattices.py` fold
over the extents of their arguments, and which closure they look up in the mapping. With the operations *named by the source*
they are the model's `latticeJoin` / `latticeMeet` — about which `C07_*` are proved.
-/
namespace FCA

/-- a `bitsets` reduction by name: (binary operation, value for no arguments) in the object domain of `K` -/
def C07_reductionOfName (K : Ctx) : String → Option ((Nat → Nat → Nat) × Nat)
  | "reduce_or" => some ((· ||| ·), 0)
  | "reduce_and" => some ((· &&& ·), full K.n)
  | _ => none

/-- a closure of an object set by the name of the `Vectors` method -/
def C07_closureOfName (K : Ctx) : String → Option (Nat → Nat)
  | "double" => some K.doubleObj
  | _ => none

/-- an n-ary aggregation read off its configuration -/
def C07_aggregateCfg (K : Ctx) (L : Lattice) (cfg : String × String) (cs : List Nat) : Option (Option Nat) :=
  match C07_reductionOfName K cfg.1, C07_closureOfName K cfg.2 with
  | some (op, unit), some cl => some (L.find (cl (cs.foldl (fun u c => op u (((L[c]?).map (·.extent)).getD 0)) unit)))
  | _, _ => none

theorem C07_generated_lattice_join (K : Ctx) (L : Lattice) (cs : List Nat) :
    C07_aggregateCfg K L Generated.lattice_join_cfg cs = some (latticeJoin K L cs) := by
  simp [C07_aggregateCfg, Generated.lattice_join_cfg, C07_reductionOfName, C07_closureOfName, latticeJoin]

theorem C07_generated_lattice_meet (K : Ctx) (L : Lattice) (cs : List Nat) :
    C07_aggregateCfg K L Generated.lattice_meet_cfg cs = some (latticeMeet K L cs) := by
  simp [C07_aggregateCfg, Generated.lattice_meet_cfg, C07_reductionOfName, C07_closureOfName, latticeMeet]

end FCA
#print axioms FCA.C07_generated_lattice_join
#print axioms FCA.C07_generated_lattice_meet
