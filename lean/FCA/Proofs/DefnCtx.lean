import FCA.Proofs.DefnDerive
import FCA.Proofs.Members
/-
Helper lemmas for `Context <-> Definition`: tables read back from a constructed definition, row masks
are injective on rows of equal length, counting true cells.
-/
namespace FCA

/-! ### zip with a duplicate-free key list -/

theorem mem_zip_nodup {α β : Type} {l : List α} {bs : List β} (hn : l.Nodup) {i : Nat}
    (hi : i < l.length) (hi' : i < bs.length) (b : β) : (l[i], b) ∈ l.zip bs ↔ b = bs[i] := by
  rw [List.mem_iff_getElem]
  constructor
  · rintro ⟨k, hk, he⟩
    rw [List.getElem_zip, Prod.mk.injEq] at he
    have hk' : k < l.length := by rw [List.length_zip] at hk; omega
    have : k = i := (List.Nodup.getElem_inj_iff hn).mp he.1
    subst this
    exact he.2.symm
  · rintro rfl
    exact ⟨i, by rw [List.length_zip]; omega, by rw [List.getElem_zip]⟩

/-! ### the table of a constructed definition is the given table -/

/-- shape of an accepted table -/
def DefnRect (n m : Nat) (bs : List (List Bool)) : Prop := bs.length = n ∧ ∀ row ∈ bs, row.length = m

theorem ofTriple_bools {os ps : List Name} {bs : List (List Bool)} {d : Defn}
    (h : Defn.ofTriple os ps bs = .ok d) (hr : DefnRect os.length ps.length bs) : d.bools = bs := by
  obtain ⟨h1, h2, rfl⟩ := ofTriple_ok h
  obtain ⟨hl, hrow⟩ := hr
  apply List.ext_getElem
  · simp [Defn.bools, hl]
  · intro i hi1 hi2
    have hi : i < os.length := by omega
    have hrl : bs[i].length = ps.length := hrow _ (List.getElem_mem hi2)
    apply List.ext_getElem
    · simp [Defn.bools, hrl]
    · intro j hj1 hj2
      have hj : j < ps.length := by omega
      simp only [Defn.bools, List.getElem_map]
      rw [Bool.eq_iff_iff, List.contains_iff_mem, List.mem_eraseDups, mem_triple_cells]
      constructor
      · rintro ⟨row, hz1, hz2⟩
        rw [mem_zip_nodup h1 hi hi2] at hz1
        subst hz1
        rw [mem_zip_nodup h2 hj hj2] at hz2
        exact hz2.symm
      · intro hb
        refine ⟨bs[i], (mem_zip_nodup h1 hi hi2 _).mpr rfl, ?_⟩
        rw [mem_zip_nodup h2 hj hj2]
        exact hb.symm

theorem rect_of_accepts {os ps : List Name} {bs : List (List Bool)}
    (h : ctorAccepts os ps (bs.map (·.length)) = true) : DefnRect os.length ps.length bs := by
  rw [defn_ctorAccepts_iff] at h
  obtain ⟨_, _, _, _, _, hl, hrow⟩ := h
  refine ⟨by simpa using hl, fun row hr => hrow _ (List.mem_map.mpr ⟨row, hr, rfl⟩)⟩

theorem ctxOfTriple_ok_iff {os ps : List Name} {bs : List (List Bool)} {K : Ctx} :
    ctxOfTriple os ps bs = .ok K ↔
      ctorAccepts os ps (bs.map (·.length)) = true ∧
      K = mkCtx os.length ps.length (bs.map rowMask).toArray := by
  unfold ctxOfTriple
  split
  · rename_i h; simp [h, eq_comm]
  · rename_i h; simp [h]

/-! ### row masks determine rows of a given length -/

theorem rowMask_inj {r r' : List Bool} (hl : r.length = r'.length) (h : rowMask r = rowMask r') :
    r = r' := by
  apply List.ext_getElem hl
  intro j h1 h2
  have := congrArg (fun s => Nat.testBit s j) h
  simp only [testBit_rowMask] at this
  simpa [List.getD_eq_getElem?_getD, h1, h2] using this

theorem map_rowMask_inj {m : Nat} {bs bs' : List (List Bool)} (hr : ∀ row ∈ bs, row.length = m)
    (hr' : ∀ row ∈ bs', row.length = m) (h : bs.map rowMask = bs'.map rowMask) : bs = bs' := by
  have hl : bs.length = bs'.length := by simpa using congrArg List.length h
  apply List.ext_getElem hl
  intro i h1 h2
  have e : (bs.map rowMask)[i]'(by simpa using h1) = (bs'.map rowMask)[i]'(by simpa using h2) := by
    simp only [h]
  simp only [List.getElem_map] at e
  exact rowMask_inj ((hr _ (List.getElem_mem h1)).trans (hr' _ (List.getElem_mem h2)).symm) e

/-! ### counting true cells -/

theorem card_eq_count (w s : Nat) : card w s = ((List.range w).map fun j => s.testBit j).count true := by
  unfold card
  rw [membersW_eq, List.count_eq_countP, List.countP_map, List.countP_eq_length_filter]
  congr 1
  apply List.filter_congr
  intro j _
  simp

theorem length_filterMap_ite {α β : Type} (f : α → Bool) (g : α → β) (l : List α) :
    (l.filterMap fun x => if f x then some (g x) else none).length = (l.map f).count true := by
  induction l with
  | nil => rfl
  | cons a t ih =>
    rw [List.filterMap_cons, List.map_cons, List.count_cons]
    by_cases h : f a = true
    · simp only [h, if_true, List.length_cons, ih, beq_self_eq_true]
    · have h' : f a = false := by simpa using h
      simp only [h', Bool.false_eq_true, if_false, ih]
      simp

/-- number of `True` entries of `bools` = number of cells inside `objs × props` -/
theorem bools_count (d : Defn) :
    (d.bools.map (·.count true)).sum =
      (d.objs.flatMap fun o => d.props.filterMap fun p =>
        if d.pairs.contains (o, p) then some (o, p) else none).length := by
  rw [List.length_flatMap]
  simp only [Defn.bools, List.map_map]
  congr 1
  apply List.map_congr_left
  intro o _
  simp only [Function.comp]
  exact (length_filterMap_ite (fun p => d.pairs.contains (o, p)) (fun p => (o, p)) d.props).symm

theorem bools_count_inv {d : Defn} (h : d.Inv) : (d.bools.map (·.count true)).sum = d.pairs.length := by
  rw [bools_count]
  apply List.Perm.length_eq
  rw [List.perm_ext_iff_of_nodup (nodup_subtable h.1 h.2.1) h.2.2.1]
  rintro ⟨o, p⟩
  rw [mem_subtable]
  exact ⟨fun hh => hh.2.2, fun hh => ⟨(h.2.2.2 o p hh).1, (h.2.2.2 o p hh).2, hh⟩⟩

end FCA
