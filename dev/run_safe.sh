#!/bin/sh
# wait for the harmless re-run to finish, then run the "safe optimisation" set
while pgrep -f "harmless/" >/dev/null 2>&1 && pgrep -f "try_refactor.sh /verif/harmless" >/dev/null 2>&1; do sleep 20; done
for k in 1 2 3 4 5 6; do for r in r1 r2 r3; do [ -f /tmp/mut/outS/$k/$r/patch.diff ] && /verif/dev/try_refactor.sh /tmp/mut/outS/$k/$r; done; done
