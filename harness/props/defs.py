"""Helpers for the Definition world (C13, C14, C17)."""
from core import guard


def names(l):
    l = list(l)
    return ','.join(l) if l else '-'


def bools_str(bools):
    bools = list(bools)
    if not bools:
        return '-'
    return '/'.join(''.join('1' if b else '0' for b in row) if len(row) else '.' for row in bools)


def state(d):
    """Canonical state of a real Definition, in the driver's format."""
    from concepts import Definition
    objs, props, bools = d.objects, d.properties, d.bools
    fresh = d == Definition(objs, props, bools)
    return '%s|%s|%s|%d' % (names(objs), names(props), bools_str(bools), 1 if fresh else 0)


def dnew_line(slot, objs, props, bools):
    return 'dnew %d %s %s %s' % (slot, names(objs), names(props), bools_str(bools))


def triple_of_state(st):
    o, p, b, _ = st.split('|')
    objs = [] if o == '-' else o.split(',')
    props = [] if p == '-' else p.split(',')
    bools = [] if b == '-' else [[] if r == '.' else [c == '1' for c in r] for r in b.split('/')]
    return objs, props, bools


def apply_op(d, op, world=None):
    """Apply an op tuple to a real Definition; returns ('ok', ret) or (exception class name,)."""
    kind = op[0]
    try:
        if kind == 'setitem':
            d[op[1], op[2]] = op[3]
            ret = None
        elif kind in ('union_update', 'intersection_update'):
            ret = getattr(d, kind)(world[op[1]], ignore_conflicts=op[2])
        elif kind in ('remove_empty_objects', 'remove_empty_properties'):
            ret = getattr(d, kind)()
        elif kind in ('add_object', 'add_property', 'set_object', 'set_property'):
            # the names arrive as a list, a tuple or a dict key view (re-iterable, insertion ordered): same outcome
            import zlib
            v = zlib.crc32(repr(op).encode()) % 3
            arg = list(op[2]) if v == 0 else tuple(op[2]) if v == 1 else dict.fromkeys(op[2]).keys()
            ret = getattr(d, kind)(op[1], arg)
        else:
            ret = getattr(d, kind)(*op[1:])
    except (ValueError, KeyError, IndexError, TypeError) as e:
        return (type(e).__name__, str(e))
    return ('ok', ret)


def op_line(slot, op):
    kind = op[0]
    if kind == 'setitem':
        return 'dop %d setitem %s %s %d' % (slot, op[1], op[2], 1 if op[3] else 0)
    if kind in ('union_update', 'intersection_update'):
        return 'dop %d %s %d %d' % (slot, kind, op[1], 1 if op[2] else 0)
    if kind in ('add_object', 'add_property', 'set_object', 'set_property'):
        return 'dop %d %s %s %s' % (slot, kind, op[1], names(op[2]))
    return 'dop %d %s' % (slot, ' '.join([kind] + [str(x) for x in op[1:]]))


def conflict_pairs(message):
    """The pair list printed in 'conflicting values for object/property pairs: [...]' as 'o:p o:p'."""
    import ast
    marker = 'conflicting values for object/property pairs:'
    if marker not in message:
        return None
    pairs = ast.literal_eval(message.split(marker, 1)[1].strip())
    return ' '.join('%s:%s' % (o, p) for o, p in pairs) or '-'


def ret_str(ret):
    if ret is None:
        return '-'
    return names(ret)
