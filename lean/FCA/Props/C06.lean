import FCA.Proofs.LatticeSpec
import FCA.Model.Misc
import FCA.Proofs.OrderSpec
import FCA.Proofs.LexOrder
/-
C06 — Canonical order: shortlex iteration, index/dindex ranks, bottom first, top last.

`L = mkLattice K` is the list of concepts in iteration order; neighbor references are positions in `L`.
-/
namespace FCA
open LexAux

-- `shortlexLt` / `longlexLt` (the documented orders: fewer resp. more objects first; ties: the set containing
-- the first object, by position in the context, on which the two differ comes first) are defined in
-- FCA/Proofs/OrderSpec.lean

/-- the numeric sort key `(count, reinverted)` of the code realises the documented shortlex order -/
theorem C06_key_is_shortlex {w a b : Nat} (ha : Bounded w a) (hb : Bounded w b) :
    shortlexKey w a < shortlexKey w b ↔ shortlexLt w a b := by
  unfold shortlexKey shortlexLt
  rw [lex_lt_iff (reinv_lt w a) (reinv_lt w b), reinv_lt_iff ha hb]

/-- the numeric sort key `(-count, reinverted)` realises the documented longlex order -/
theorem C06_key_is_longlex {w a b : Nat} (ha : Bounded w a) (hb : Bounded w b) :
    longlexKey w a < longlexKey w b ↔ longlexLt w a b := by
  unfold longlexKey longlexLt
  rw [lex_lt_iff (reinv_lt w a) (reinv_lt w b), reinv_lt_iff ha hb]
  have h1 := card_le_width w a
  have h2 := card_le_width w b
  constructor
  · rintro (h | ⟨h, h'⟩)
    · left; omega
    · right; exact ⟨by omega, h'⟩
  · rintro (h | ⟨h, h'⟩)
    · left; omega
    · right; exact ⟨by omega, h'⟩

example : shortlexLt 3 0b100 0b011 := Or.inl (by decide)
example : shortlexLt 3 0b011 0b101 :=
  Or.inr ⟨by decide, 1, by decide, by decide, fun k hk => by interval_cases k; decide⟩
example : longlexLt 3 0b011 0b100 := Or.inl (by decide)
example : Bounded 3 0b011 ∧ Bounded 3 0b101 := ⟨bounded_iff_lt.mpr (by decide), bounded_iff_lt.mpr (by decide)⟩

/-- a strict order: nothing is before itself (so a `shortlexLt`-sorted list has no repeats) -/
theorem C06_shortlexLt_irrefl (w a : Nat) : ¬ shortlexLt w a a := by
  rintro (h | ⟨_, i, h1, h2, _⟩)
  · omega
  · exact h2 h1

/-- iterating the lattice visits the concepts in strictly increasing shortlex order of their extents
(numeric key form) -/
theorem C06_iter_shortlex_key (K : Ctx) (h : K.WF) :
    ((mkLattice K).map (·.extent)).Pairwise (fun a b => shortlexKey K.n a < shortlexKey K.n b) :=
  (mkLattice_spec h).sorted

/-- iterating the lattice visits the concepts in (strict) short-lexicographic order of their extents:
fewer objects first, ties by object position in the context -/
theorem C06_iter_shortlex (K : Ctx) (h : K.WF) :
    ((mkLattice K).map (·.extent)).Pairwise (shortlexLt K.n) := by
  have S := mkLattice_spec h
  refine List.Pairwise.imp_of_mem ?_ S.sorted
  intro a b ha hb hab
  exact (C06_key_is_shortlex ((S.mem a).mp ha).1 ((S.mem b).mp hb).1).mp hab

/-- and the iteration is complete and duplicate free: the extents visited are exactly the closed sets -/
theorem C06_iter_members (K : Ctx) (h : K.WF) (x : Nat) :
    x ∈ (mkLattice K).map (·.extent) ↔ closedObj K x := (mkLattice_spec h).mem x

/-- `concept.index` is the position in iteration (= shortlex) order -/
theorem C06_index (K : Ctx) (h : K.WF) {k : Nat} {c : LConcept} (hc : (mkLattice K)[k]? = some c) :
    c.index = k := (mkLattice_spec h).index hc

/-- hence `index` order is shortlex order of the extents -/
theorem C06_index_order (K : Ctx) (h : K.WF) {c d : LConcept} (hc : c ∈ mkLattice K) (hd : d ∈ mkLattice K) :
    c.index < d.index ↔ shortlexLt K.n c.extent d.extent := by
  have S := mkLattice_spec h
  obtain ⟨i, hi⟩ := List.getElem?_of_mem hc
  obtain ⟨j, hj⟩ := List.getElem?_of_mem hd
  rw [S.index hi, S.index hj, S.pos_lt_iff hi hj, C06_key_is_shortlex (S.bounded hi) (S.bounded hj)]

/-- `concept.dindex` = number of concepts that come strictly before it in longlex order -/
theorem C06_dindex (K : Ctx) (h : K.WF) {k : Nat} {c : LConcept} (hc : (mkLattice K)[k]? = some c) :
    c.dindex = (mkLattice K).countP (fun d => decide (longlexKey K.n d.extent < longlexKey K.n c.extent)) :=
  (mkLattice_spec h).dindex_eq_count hc

/-- `dindex` order is long-lexicographic order of the extents (more objects first, ties by position) -/
theorem C06_dindex_order (K : Ctx) (h : K.WF) {c d : LConcept} (hc : c ∈ mkLattice K) (hd : d ∈ mkLattice K) :
    c.dindex < d.dindex ↔ longlexLt K.n c.extent d.extent := by
  have S := mkLattice_spec h
  obtain ⟨i, hi⟩ := List.getElem?_of_mem hc
  obtain ⟨j, hj⟩ := List.getElem?_of_mem hd
  rw [← S.dindex_lt_iff hi hj, C06_key_is_longlex (S.bounded hi) (S.bounded hj)]

/-- `dindex` is a rank: a bijection between the concepts and `0 .. len-1` -/
theorem C06_dindex_bijective (K : Ctx) (h : K.WF) :
    (∀ c ∈ mkLattice K, c.dindex < (mkLattice K).length) ∧
    (∀ c ∈ mkLattice K, ∀ d ∈ mkLattice K, c.dindex = d.dindex → c = d) ∧
    (∀ i, i < (mkLattice K).length → ∃ c ∈ mkLattice K, c.dindex = i) := by
  have S := mkLattice_spec h
  refine ⟨?_, ?_, ?_⟩
  · intro c hc
    obtain ⟨i, hi⟩ := List.getElem?_of_mem hc
    exact S.dindex_lt hi
  · intro c hc d hd he
    obtain ⟨i, hi⟩ := List.getElem?_of_mem hc
    obtain ⟨j, hj⟩ := List.getElem?_of_mem hd
    have := S.dindex_inj hi hj he
    subst this
    rw [hi] at hj
    simpa using hj
  · intro i hi
    obtain ⟨k, c, hk, hd⟩ := S.dindex_surj hi
    exact ⟨c, List.mem_of_getElem? hk, hd⟩

/-- `index` likewise: positions `0 .. len-1`, pairwise different -/
theorem C06_index_bijective (K : Ctx) (h : K.WF) :
    (mkLattice K).map (·.index) = List.range (mkLattice K).length := by
  have S := mkLattice_spec h
  apply List.ext_getElem?
  intro k
  rw [List.getElem?_map]
  by_cases hk : k < (mkLattice K).length
  · have hc : (mkLattice K)[k]? = some (mkLattice K)[k] := List.getElem?_eq_getElem hk
    rw [hc]
    simp [S.index hc, hk]
  · rw [List.getElem?_eq_none (by omega), List.getElem?_eq_none (by simp; omega)]
    rfl

/-- both orders are linear extensions of the lattice order (resp. its dual): a concept with a
properly smaller extent has the smaller `index` and the larger `dindex` -/
theorem C06_linear_extension (K : Ctx) (h : K.WF) {c d : LConcept} (hc : c ∈ mkLattice K) (hd : d ∈ mkLattice K)
    (hs : c.extent ⊆ᵇ d.extent) (hne : c.extent ≠ d.extent) : c.index < d.index ∧ d.dindex < c.dindex := by
  have S := mkLattice_spec h
  obtain ⟨i, hi⟩ := List.getElem?_of_mem hc
  obtain ⟨j, hj⟩ := List.getElem?_of_mem hd
  rw [S.index hi, S.index hj]
  exact ⟨S.pos_lt_of_ssub hi hj hs hne, S.dindex_lt_of_ssub hi hj hs hne⟩

/-- `lattice.infimum` (the concept of the empty object set, `mapping[∅'']`) is the first concept and the
least one -/
theorem C06_infimum (K : Ctx) (h : K.WF) :
    ∃ c, (mkLattice K)[0]? = some c ∧ c.extent = K.doubleObj 0 ∧ c.index = 0 ∧
      (mkLattice K).find (K.doubleObj 0) = some 0 ∧
      ∀ d ∈ mkLattice K, c.extent ⊆ᵇ d.extent := by
  have S := mkLattice_spec h
  obtain ⟨c, hc, he⟩ := S.get_zero
  refine ⟨c, hc, he, S.index hc, he ▸ S.find_get hc, fun d hd => ?_⟩
  obtain ⟨j, hj⟩ := List.getElem?_of_mem hd
  rw [he]
  exact bot_least h (S.closed hj)

/-- `lattice.supremum` (the concept of all objects) is the last concept and the greatest one -/
theorem C06_supremum (K : Ctx) (h : K.WF) :
    ∃ c, (mkLattice K).getLast? = some c ∧ (mkLattice K)[(mkLattice K).length - 1]? = some c ∧
      c.extent = full K.n ∧ c.index = (mkLattice K).length - 1 ∧ c.dindex = 0 ∧
      ∀ d ∈ mkLattice K, d.extent ⊆ᵇ c.extent := by
  have S := mkLattice_spec h
  obtain ⟨c, hc, he⟩ := S.get_last
  have hall : ∀ d ∈ mkLattice K, d.extent ⊆ᵇ c.extent := by
    intro d hd
    obtain ⟨j, hj⟩ := List.getElem?_of_mem hd
    rw [he]
    exact bounded_iff_sub_full.mp (S.bounded hj)
  refine ⟨c, by rw [List.getLast?_eq_getElem?, hc], hc, he, S.index hc, ?_, hall⟩
  -- nothing comes before the top in longlex order
  rw [S.dindex_eq_count hc, List.countP_eq_zero]
  intro d hd
  obtain ⟨j, hj⟩ := List.getElem?_of_mem hd
  simp only [decide_eq_true_eq, not_lt]
  by_cases hde : d.extent = c.extent
  · rw [hde]
  · exact le_of_lt (longlexKey_lt_of_ssub (hall d hd) (S.bounded hc) hde)

/-- the infimum has `dindex = len - 1` (it is last in longlex order) -/
theorem C06_infimum_dindex (K : Ctx) (h : K.WF) {c : LConcept} (hc : (mkLattice K)[0]? = some c) :
    c.dindex = (mkLattice K).length - 1 := by
  have S := mkLattice_spec h
  obtain ⟨c', hc', he⟩ := S.get_zero
  rw [hc] at hc'
  simp only [Option.some.injEq] at hc'
  subst hc'
  -- every other concept is before it, and `dindex` is injective with values `< len`
  by_contra hne
  have hlt := S.dindex_lt hc
  obtain ⟨k, d, hk, hd⟩ := S.dindex_surj (i := (mkLattice K).length - 1) (by omega)
  have hkc : d.extent ≠ c.extent := by
    intro heq
    have := S.pos_inj hk hc heq
    subst this
    rw [hc] at hk
    simp only [Option.some.injEq] at hk
    subst hk
    exact hne hd
  have := S.dindex_lt_of_ssub hc hk (by rw [he]; exact bot_least h (S.closed hk)) (Ne.symm hkc)
  omega

/-- `lattice.atoms` (= `infimum.upper_neighbors`): exactly the upper covers of the infimum, each once,
in shortlex order -/
theorem C06_atoms (K : Ctx) (h : K.WF) :
    (∀ j, j ∈ (mkLattice K).upperAt 0 ↔
      ∃ d, (mkLattice K)[j]? = some d ∧ covers K (K.doubleObj 0) d.extent) ∧
    ((mkLattice K).upperAt 0).Nodup ∧ ((mkLattice K).upperAt 0).Pairwise (· < ·) := by
  have S := mkLattice_spec h
  obtain ⟨c0, h0, he, hu⟩ := S.upperAt_zero
  rw [hu]
  refine ⟨fun j => ?_, S.upper_nodup h0, S.upper_sorted h0⟩
  rw [S.mem_upper h0, he]
  constructor
  · rintro ⟨e, hj, hcv⟩
    obtain ⟨d, hd, rfl⟩ := S.get_of_extent hj
    exact ⟨d, hd, hcv⟩
  · rintro ⟨d, hd, hcv⟩
    exact ⟨d.extent, S.extent_get hd, hcv⟩

/-- `concept.atoms`: the atoms of the lattice below the concept -/
theorem C06_concept_atoms (K : Ctx) (h : K.WF) {k : Nat} {c : LConcept} (hc : (mkLattice K)[k]? = some c) (a : Nat) :
    a ∈ c.atoms ↔ ∃ d, (mkLattice K)[a]? = some d ∧ covers K (K.doubleObj 0) d.extent ∧ d.extent ⊆ᵇ c.extent := by
  have S := mkLattice_spec h
  rw [S.mem_atoms hc]
  constructor
  · rintro ⟨e, hj, hcv, hs⟩
    obtain ⟨d, hd, rfl⟩ := S.get_of_extent hj
    exact ⟨d, hd, hcv, hs⟩
  · rintro ⟨d, hd, hcv, hs⟩
    exact ⟨d.extent, S.extent_get hd, hcv, hs⟩

/-- `lattice.infimum` is element 0, `lattice.supremum` element -1, `lattice.atoms` the upper neighbors of the
infimum (`Lattice.infimum/supremum/atomsOf` in the model are these accessors); with `C06_infimum`,
`C06_supremum`, `C06_atoms` they are the least concept, the greatest concept and the upper covers of the least -/
theorem C06_accessors (K : Ctx) (h : K.WF) :
    (∃ c, (mkLattice K).infimum = some c ∧ c.extent = K.doubleObj 0 ∧ ∀ d ∈ mkLattice K, c.extent ⊆ᵇ d.extent) ∧
    (∃ c, (mkLattice K).supremum = some c ∧ c.extent = full K.n ∧ ∀ d ∈ mkLattice K, d.extent ⊆ᵇ c.extent) ∧
    (∀ j, j ∈ (mkLattice K).atomsOf ↔ ∃ d, (mkLattice K)[j]? = some d ∧ covers K (K.doubleObj 0) d.extent) := by
  obtain ⟨c, hc, he, _, _, hle⟩ := C06_infimum K h
  obtain ⟨t, _, ht, hte, _, _, hge⟩ := C06_supremum K h
  exact ⟨⟨c, hc, he, hle⟩, ⟨t, ht, hte, hge⟩, (C06_atoms K h).1⟩

/-- every `upper_neighbors` tuple is in shortlex order (and consists of the upper covers, each once) -/
theorem C06_upper_sorted (K : Ctx) (h : K.WF) {k : Nat} {c : LConcept} (hc : (mkLattice K)[k]? = some c) :
    c.upper.Pairwise (fun a b => shortlexLt K.n ((mkLattice K).extentAt a) ((mkLattice K).extentAt b)) ∧
    c.upper.Pairwise (· < ·) ∧
    ∀ j, j ∈ c.upper ↔ ∃ d, (mkLattice K)[j]? = some d ∧ covers K c.extent d.extent := by
  have S := mkLattice_spec h
  refine ⟨?_, S.upper_sorted hc, fun j => ?_⟩
  · refine List.Pairwise.imp_of_mem ?_ (S.upper_shortlex hc)
    intro a b ha hb hab
    obtain ⟨d, hd, _⟩ := S.upper_get hc ha
    obtain ⟨d', hd', _⟩ := S.upper_get hc hb
    rw [LatticeSpec.extentAt_eq, LatticeSpec.extentAt_eq]
    rw [S.getD_extent hd, S.getD_extent hd'] at hab ⊢
    exact (C06_key_is_shortlex (S.bounded hd) (S.bounded hd')).mp hab
  · constructor
    · exact fun hj => S.upper_get hc hj
    · rintro ⟨d, hd, hcv⟩
      exact (S.mem_upper hc j).mpr ⟨d.extent, S.extent_get hd, hcv⟩

/-- every `lower_neighbors` tuple is in longlex order (and consists of the lower covers, each once) -/
theorem C06_lower_sorted (K : Ctx) (h : K.WF) {k : Nat} {c : LConcept} (hc : (mkLattice K)[k]? = some c) :
    c.lower.Pairwise (fun a b => longlexLt K.n ((mkLattice K).extentAt a) ((mkLattice K).extentAt b)) ∧
    c.lower.Pairwise (fun a b => (mkLattice K).dindexAt a < (mkLattice K).dindexAt b) ∧
    c.lower.Nodup ∧
    ∀ j, j ∈ c.lower ↔ ∃ d, (mkLattice K)[j]? = some d ∧ covers K d.extent c.extent := by
  have S := mkLattice_spec h
  refine ⟨?_, ?_, S.lower_nodup hc, fun j => ?_⟩
  · refine List.Pairwise.imp_of_mem ?_ (S.lower_sorted hc)
    intro a b ha hb hab
    obtain ⟨d, hd, _⟩ := S.lower_get hc ha
    obtain ⟨d', hd', _⟩ := S.lower_get hc hb
    rw [LatticeSpec.extentAt_eq, LatticeSpec.extentAt_eq]
    rw [S.getD_extent hd, S.getD_extent hd'] at hab ⊢
    exact (C06_key_is_longlex (S.bounded hd) (S.bounded hd')).mp hab
  · refine List.Pairwise.imp_of_mem ?_ (S.lower_sorted hc)
    intro a b ha hb hab
    obtain ⟨d, hd, _⟩ := S.lower_get hc ha
    obtain ⟨d', hd', _⟩ := S.lower_get hc hb
    rw [S.getD_extent hd, S.getD_extent hd'] at hab
    unfold Lattice.dindexAt
    rw [hd, hd']
    exact (S.dindex_lt_iff hd hd').mp hab
  · constructor
    · exact fun hj => S.lower_get hc hj
    · rintro ⟨d, hd, hcv⟩
      exact (S.mem_lower hc j).mpr ⟨d.extent, S.extent_get hd, S.closed hd, hcv⟩

/-! ### a concrete instance (non-vacuity): objects `0,1,2`, rows `{p0,p1}`, `{p0}`, `{p1,p2}` -/

def C06_exK : Ctx := mkCtx 3 3 #[0b011, 0b001, 0b110]
theorem C06_exK_WF : C06_exK.WF := mkCtx_WF 3 3 _ rfl (by intro i hi; interval_cases i <;> decide)

/-- extents in iteration order `∅, {0}, {2}, {0,1}, {0,2}, {0,1,2}` (note `{2}` before `{0,1}`: fewer objects
first, and `{0,1}` before `{0,2}`: first differing object decides) with `(extent, index, dindex)` -/
example : (mkLattice C06_exK).map (fun c => (c.extent, c.index, c.dindex)) =
    [(0, 0, 5), (1, 1, 3), (4, 2, 4), (3, 3, 1), (5, 4, 2), (7, 5, 0)] := by
  decide +kernel

/-- `(extent, upper, lower, atoms)`; e.g. `{0,2}` has `lower = [1, 2]` (= `{0}`, `{2}`: longlex order) -/
example : (mkLattice C06_exK).map (fun c => (c.extent, c.upper, c.lower, c.atoms)) =
    [(0, [1, 2], [], []), (1, [3, 4], [0], [1]), (4, [4], [0], [2]), (3, [5], [1], [1]),
     (5, [5], [1, 2], [1, 2]), (7, [], [3, 4], [1, 2])] := by
  decide +kernel

/-- hypotheses of `C06_linear_extension` are satisfiable: `{0} ⊊ {0,2}` at positions 1 and 4 -/
example : ((mkLattice C06_exK)[1]?.map (·.extent), (mkLattice C06_exK)[4]?.map (·.extent)) = (some 1, some 5) := by
  decide +kernel

example : (1 : Nat) ⊆ᵇ 5 := and_eq_left_iff.mp (by decide)

end FCA
#print axioms FCA.C06_key_is_shortlex
#print axioms FCA.C06_key_is_longlex
#print axioms FCA.C06_iter_shortlex
#print axioms FCA.C06_index
#print axioms FCA.C06_index_order
#print axioms FCA.C06_index_bijective
#print axioms FCA.C06_dindex
#print axioms FCA.C06_dindex_order
#print axioms FCA.C06_dindex_bijective
#print axioms FCA.C06_linear_extension
#print axioms FCA.C06_infimum
#print axioms FCA.C06_infimum_dindex
#print axioms FCA.C06_supremum
#print axioms FCA.C06_atoms
#print axioms FCA.C06_concept_atoms
#print axioms FCA.C06_upper_sorted
#print axioms FCA.C06_lower_sorted
