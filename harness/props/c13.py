"""C13 - every edit history of a Definition matches the ordered-table model."""
from collections import deque
from core import guard
from props import defs

OBJ = ['a', 'b', 'c']
PROP = ['p', 'q', 'r']

POOL = [
    ((), (), ()),
    (('a',), ('p',), ((True,),)),
    (('a', 'b'), ('p', 'q'), ((True, False), (False, True))),
    (('b', 'a'), ('q', 'p'), ((True, True), (False, True))),
    (('a', 'c'), ('q', 'r'), ((False, False), (True, True))),
    (('c',), ('p', 'q', 'r'), ((True, True, False),)),
    (('x', 'a'), ('p', 'x'), ((False, False), (True, False))),    # new names, no new true cell for the seeds having (a, p)
    (('e',), ('t',), ((False,),)),                                # names only
]


def op_instances(objs=OBJ, props=PROP, extra=('x',)):
    ops = []
    on = list(objs) + list(extra)
    pn = list(props) + list(extra)
    for o in on:
        for p in pn:
            for v in (True, False):
                ops.append(('setitem', o, p, v))
    for a in on:
        for b in on + [props[0]]:
            ops.append(('rename_object', a, b))
    for a in pn:
        for b in pn + [objs[0]]:
            ops.append(('rename_property', a, b))
    for o in on:
        for i in (-2, -1, 0, 1, 2, 3):
            ops.append(('move_object', o, i))
    for p in pn:
        for i in (-2, -1, 0, 1, 2, 3):
            ops.append(('move_property', p, i))
    lists_p = [[], [props[0]], [props[1], props[0]], [props[2], 'x'], [props[0], props[0]]]
    lists_o = [[], [objs[0]], [objs[1], objs[0]], [objs[2], 'x'], [objs[0], objs[0]]]
    for o in on:
        for l in lists_p:
            ops.append(('add_object', o, l))
            ops.append(('set_object', o, l))
    for p in pn:
        for l in lists_o:
            ops.append(('add_property', p, l))
            ops.append(('set_property', p, l))
    for o in on:
        ops.append(('remove_object', o))
    for p in pn:
        ops.append(('remove_property', p))
    ops.append(('remove_empty_objects',))
    ops.append(('remove_empty_properties',))
    for k in range(len(POOL)):
        for ig in (False, True):
            ops.append(('union_update', 10 + k, ig))
            ops.append(('intersection_update', 10 + k, ig))
    return ops


def step_compare(run, d, world, op, hist, outcome=None):
    """Apply one op to implementation and model and compare everything observable."""
    drv = run.driver
    before = defs.state(d)
    res = defs.apply_op(d, op, world)
    if outcome is not None:
        outcome['rejected'] = res[0] != 'ok'
    after = defs.state(d)
    line = defs.op_line(0, op)
    ans = drv.ask(line)
    if res[0] == 'ok':
        got = 'ok %s %s' % (defs.ret_str(res[1]), after)
    else:
        got = '%s %s' % (res[0], after)
        if after != before:
            run.fail('rejected call %r changed the definition' % (op,), after, before, hist + [line])
        if op[0] in ('union_update', 'intersection_update') and res[0] == 'ValueError':
            rq = 'dconflicts 0 %d' % op[1]
            listed = defs.conflict_pairs(res[1])
            want = drv.ask(rq)
            if listed != want:
                run.fail('pairs listed in the conflict message of %r' % (op,), listed, want, hist + [line, rq], {'message': res[1]})
    if got != ans:
        reqs, note = hist + [line], {'state before': before}
        if len(hist) > 1:
            # try to reproduce from a fresh definition holding the state before the step: a two-line replay
            try:
                from concepts import Definition
                t = defs.triple_of_state(before)
                setup = defs.dnew_line(0, *t)
                d2 = Definition(*t)
                drv.ask(setup)
                r2 = defs.apply_op(d2, op, world)
                a2 = drv.ask(line)
                g2 = ('ok %s %s' % (defs.ret_str(r2[1]), defs.state(d2))) if r2[0] == 'ok' else '%s %s' % (r2[0], defs.state(d2))
                if g2 != a2:
                    reqs, got, ans = [setup, line], g2, a2
                    note['shrunk'] = 'reproduced from a fresh definition of the state before the step (history of %d steps dropped)' % (len(hist) - 1)
                else:
                    note['shrunk'] = 'not reproducible from a fresh definition of the same triple: the history matters'
            except Exception as e:      # the shrinker must never mask the finding
                note['shrunk'] = 'shrinker failed: %r' % (e,)
        run.fail('after %r' % (op,), got, ans, reqs, note)
    no, npr = len(d.objects), len(d.properties)
    shape = tuple(d.shape)
    if shape != (no, npr):
        run.fail('shape after %r' % (op,), shape, (no, npr), hist + [line])
    if no * npr:
        fr = d.fill_ratio
        true_cells = sum(sum(1 for b in row if b) for row in d.bools)
        if fr.numerator * no * npr != true_cells * fr.denominator:
            run.fail('fill_ratio after %r' % (op,), str(fr), '%d/%d' % (true_cells, no * npr), hist + [line])
    return after


def run(run):
    from concepts import Definition
    run.rule = ('bounded-exhaustive: breadth-first from the empty definition and 5 seeds over names {a,b,c,x} x {p,q,r,x}, every op '
                'instance (all mutators; name lists of <= 2 names incl. repeats and new names; indexes -2..3; operands from a pool '
                'of 6 definitions) with state dedup; random: long histories over 8+8 names; after every step objects, properties, '
                'bools, return value / exception class, unchangedness after rejection and d == Definition(*d) are compared; '
                'a case = one (state, op) application; distinct = distinct (state, op)')
    drv = run.driver
    rng = run.rng
    world = {}
    for k, t in enumerate(POOL):
        world[10 + k] = Definition(*t)
        drv.ask(defs.dnew_line(10 + k, *t))
    ops = op_instances()
    # second use after a rejected call: the *same* object goes on being edited with every op instance that mentions a name the
    # rejected call mentioned (a rejected call must leave no residue - also none that only a later edit brings to light)
    def names_of(op):
        out = set()
        for a in op[1:]:
            if isinstance(a, str):
                out.add(a)
            elif isinstance(a, (list, tuple)):
                out.update(x for x in a if isinstance(x, str))
        return out
    seeds = POOL[1:4] if run.tier == 'quick' else POOL
    follow = 0
    for t in seeds:
        if not run.time_left():
            break
        setup = defs.dnew_line(0, *t)
        rejected = []
        for op in ops:
            if op[0] in ('union_update', 'intersection_update'):
                continue
            oc = {}
            d = Definition(*t)
            drv.ask(setup)
            with guard(run, lambda: 'history %r' % ([op],), lambda: [setup, defs.op_line(0, op)]):
                step_compare(run, d, world, op, [setup], oc)
            if oc.get('rejected'):
                rejected.append(op)
        for k, op in enumerate(rejected):
            if run.tier == 'quick' and k % 2 == 1 and len(rejected) > 60:
                continue
            mentioned = names_of(op)
            for op2 in ops:
                if op2[0] in ('union_update', 'intersection_update') or not (names_of(op2) & mentioned):
                    continue
                if not run.time_left():
                    break
                line1 = defs.op_line(0, op)
                with guard(run, lambda: 'history %r' % ([op, op2],), lambda: [setup, line1, defs.op_line(0, op2)]):
                    d = Definition(*t)
                    drv.ask(setup)
                    defs.apply_op(d, op, world)
                    drv.ask(line1)
                    step_compare(run, d, world, op2, [setup, line1])
                follow += 1
                run.case(defs.state(d) + '|' + repr(op) + '|' + repr(op2), True)
        run.count('rejected calls followed up', len(rejected))
    run.counters['edits after a rejected call (same object)'] = follow
    max_states = 260 if run.tier == 'quick' else 6000
    max_depth = 3 if run.tier == 'quick' else 5
    seen = set()
    queue = deque()
    for t in POOL:
        st = defs.state(Definition(*t))
        if st not in seen:
            seen.add(st)
            queue.append((st, 0, []))
    expanded = 0
    import time
    bfs_deadline = None if run.deadline is None else time.time() + 0.5 * (run.deadline - time.time())   # leave time for the random histories
    while queue and expanded < max_states and (bfs_deadline is None or time.time() < bfs_deadline):
        st, depth, hist = queue.popleft()
        expanded += 1
        t = defs.triple_of_state(st)
        setup = defs.dnew_line(0, *t)
        for op in ops:
            with guard(run, lambda: 'history %r' % (hist + [op],), lambda: [setup, defs.op_line(0, op)]):
                d = Definition(*t)
                drv.ask(setup)
                after = step_compare(run, d, world, op, [setup])
            run.case(st + '|' + repr(op), True, {'state': st, 'op': repr(op), 'after': after})
            run.count(op[0])
            if after not in seen and depth + 1 < max_depth:
                seen.add(after)
                queue.append((after, depth + 1, hist + [op]))
    run.counters['bfs states expanded'] = expanded
    run.counters['bfs states discovered'] = len(seen)
    # long random histories
    big_o = ['o%d' % i for i in range(8)]
    big_p = ['p%d' % i for i in range(8)]
    n_hist = 120 if run.tier == 'quick' else 3000
    for h in range(n_hist):
        if not run.time_left():
            run.notes.append('random histories stopped at the deadline after %d' % h)
            break
        if h % 3 == 0:
            d = Definition()
            hist = [defs.dnew_line(0, (), (), ())]
        else:
            # a sparse start: many empty rows / columns (remove_empty_* then has several survivors and many removals)
            keep_o, keep_p = rng.sample(big_o, 3), rng.sample(big_p, 3)
            so, sp = rng.sample(big_o, 8), rng.sample(big_p, 8)
            sb = [[(o in keep_o and p in keep_p and rng.random() < .7) for p in sp] for o in so]
            d = Definition(so, sp, sb)
            hist = [defs.dnew_line(0, so, sp, sb)]
        drv.ask(hist[0])
        parked = []
        for stepno in range(40):
            if rng.random() < .06:
                # fork: go on editing an independent equal definition; the one left behind must keep its triple for good
                how = rng.choice(['copy()', 'union(empty)', 'd | empty', 'Definition(*d)'])
                with guard(run, lambda: 'fork by %s after history %r' % (how, hist), lambda: hist):
                    old = d
                    d = {'copy()': lambda: old.copy(), 'union(empty)': lambda: old.union(Definition()),
                         'd | empty': lambda: old | Definition(),
                         'Definition(*d)': lambda: Definition(*old)}[how]()
                    if defs.state(d) != defs.state(old) or d is old:
                        run.fail('%s of a definition is not an equal, distinct definition' % how, defs.state(d), defs.state(old), hist)
                    parked.append((how, old, defs.state(old)))
                run.count('fork: ' + how)
            k = rng.randrange(17)
            ro, rp = rng.choice(big_o), rng.choice(big_p)
            cur_o, cur_p = list(d.objects) or big_o, list(d.properties) or big_p
            if k <= 2:
                op = ('setitem', ro, rp, rng.random() < .7)
            elif k == 3:
                op = ('rename_object', rng.choice(cur_o) if rng.random() < .8 else rng.choice(big_o), ro)
            elif k == 4:
                op = ('rename_property', rng.choice(cur_p) if rng.random() < .8 else rng.choice(big_p), rp)
            elif k == 5:
                op = ('move_object', rng.choice(cur_o) if rng.random() < .85 else rng.choice(big_o), rng.randint(-3, 6))
            elif k == 6:
                op = ('move_property', rng.choice(cur_p) if rng.random() < .85 else rng.choice(big_p), rng.randint(-3, 6))
            elif k == 7:
                op = ('add_object', ro, rng.sample(big_p, rng.randint(0, 4)))
            elif k == 8:
                op = ('add_property', rp, rng.sample(big_o, rng.randint(0, 4)))
            elif k == 9:
                op = ('remove_object', rng.choice(cur_o))
            elif k == 10:
                op = ('remove_property', rng.choice(cur_p))
            elif k == 11:
                op = (rng.choice(['remove_empty_objects', 'remove_empty_properties']),)
            elif k == 12:
                op = ('set_object', ro, rng.sample(big_p, rng.randint(0, 5)))
            elif k == 13:
                op = ('set_property', rp, rng.sample(big_o, rng.randint(0, 5)))
            elif k == 14:
                op = ('remove_object', ro)
            else:
                # operand: a snapshot of an earlier state of this history, stored in slot 20
                snap = Definition(*d)
                snap_t = (d.objects, d.properties, d.bools)
                if rng.random() < .5 and snap.objects and snap.properties:
                    snap[rng.choice(snap.objects), rng.choice(snap.properties)] = rng.random() < .5
                    snap_t = (snap.objects, snap.properties, snap.bools)
                world[20] = snap
                line = defs.dnew_line(20, *snap_t)
                drv.ask(line)
                hist.append(line)
                op = (rng.choice(['union_update', 'intersection_update']), 20, rng.random() < .5)
            with guard(run, lambda: 'history %r' % (hist,), lambda: hist + [defs.op_line(0, op)]):
                before = defs.state(d)
                step_compare(run, d, world, op, hist)
            hist.append(defs.op_line(0, op))
            for how, old, st in parked:
                if defs.state(old) != st:
                    run.fail('a definition left behind by %s changed when its successor was edited with %r' % (how, op), defs.state(old), st, hist)
            run.case('|'.join(hist[-3:]) + before, True)
            run.count(op[0])
