import FCA.Proofs.FormatsTable
/-
Wiki table export: a reference reader written from the layout description
(`{| …`, `!`, `!p1!!p2…`, then per object `|-`, `!object`, `|c1||c2…`, finally `|}`)
recovers objects, properties and cells from `dumpWiki`.
-/
namespace FCA

/-! ### splitting at a doubled character (`s.split('!!')`, `s.split('||')`) -/

/-- `s.split(c + c)` -/
def split2 (c : Char) : Str → List Str
  | [] => [[]]
  | [a] => [[a]]
  | a :: b :: cs =>
    if a == c && b == c then [] :: split2 c cs
    else
      match split2 c (b :: cs) with
      | [] => [[]]
      | hd :: tl => (a :: hd) :: tl

theorem split2_ne_nil (c : Char) (s : Str) : split2 c s ≠ [] := by
  fun_induction split2 c s <;> simp_all

theorem split2_cc (c : Char) (s : Str) : split2 c (c :: c :: s) = [] :: split2 c s := by
  rw [split2]; simp

theorem split2_cons_ne {c a : Char} (h : a ≠ c) (s : Str) :
    split2 c (a :: s) = (a :: (split2 c s).headD []) :: (split2 c s).tail := by
  cases s with
  | nil => simp [split2]
  | cons b cs =>
    have h' := split2_ne_nil c (b :: cs)
    rw [split2]
    simp only [beq_iff_eq, h, false_and, if_false, Bool.and_eq_true]
    split
    · contradiction
    · rename_i hd tl heq; simp [heq]

theorem split2_nosep {c : Char} {s : Str} (h : c ∉ s) : split2 c s = [s] := by
  induction s with
  | nil => rfl
  | cons a cs ih =>
    simp only [List.mem_cons, not_or] at h
    rw [split2_cons_ne (Ne.symm h.1), ih h.2]; simp

theorem split2_append_sep {c : Char} {a : Str} (h : c ∉ a) (b : Str) :
    split2 c (a ++ c :: c :: b) = a :: split2 c b := by
  induction a with
  | nil => simpa using split2_cc c b
  | cons x xs ih =>
    simp only [List.mem_cons, not_or] at h
    rw [List.cons_append, split2_cons_ne (Ne.symm h.1), ih h.2]; simp

/-- `(c+c).join(parts).split(c+c) == parts` when no part contains `c` -/
theorem split2_joinWith {c : Char} {parts : List Str} (hne : parts ≠ [])
    (h : ∀ p ∈ parts, c ∉ p) : split2 c (joinWith [c, c] parts) = parts := by
  induction parts with
  | nil => contradiction
  | cons x xs ih =>
    cases xs with
    | nil => simpa [joinWith] using split2_nosep (h x (by simp))
    | cons y ys =>
      have e : x ++ [c, c] ++ joinWith [c, c] (y :: ys) = x ++ c :: c :: joinWith [c, c] (y :: ys) := by
        simp
      rw [joinWith_cons_cons, e, split2_append_sep (h x (by simp)), ih (by simp)]
      intro p hp; exact h p (by simp [hp])

/-! ### the reference reader -/

/-- object blocks: separator line, `!object`, `|cell||cell…` -/
def readWikiBody : List Str → List (Str × List Bool)
  | _ :: o :: cells :: rest =>
    (o.drop 1, (split2 '|' (cells.drop 1)).map fun c => !(strip c).isEmpty) :: readWikiBody rest
  | _ => []

/-- reader for the wiki table layout -/
def readWiki (src : Str) : Option Triple :=
  match splitChar '\n' src with
  | _ :: _ :: props :: rest =>
    let t := readWikiBody rest
    some (t.map (·.1), split2 '!' (props.drop 1), t.map (·.2))
  | _ => none

/-- property label representable in the wiki header line -/
def WikiLabel (s : Str) : Prop := s ≠ [] ∧ '\n' ∉ s ∧ '!' ∉ s

instance (s : Str) : Decidable (WikiLabel s) := by unfold WikiLabel; infer_instance

/-! ### layout of the dump -/

def wikiHead : Str := "{| class=\"featuresystem\"".toList

/-- the three lines of one object -/
def wikiBlock (properties : List Str) (x : Str × List Bool) : List Str :=
  [['|', '-'], '!' :: x.1, '|' :: joinWith ['|', '|'] (flagCells properties x.2)]

theorem wikiCells_eq (properties : List Str) (row : List Bool) :
    ((properties.map (·.length)).zip row).map (fun (w, b) => ljust w (if b then ['X'] else [])) =
      flagCells properties row := by
  induction properties generalizing row with
  | nil => simp [flagCells]
  | cons p ps ih =>
    cases row with
    | nil => simp [flagCells]
    | cons b bs =>
      rw [flagCells_cons, ← ih bs]
      simp [sym]

theorem dumpWiki_eq (objects properties : List Str) (bools : List (List Bool)) :
    dumpWiki objects properties bools =
      rstripBy isSpace (unlines ([wikiHead, ['!'], '!' :: joinWith ['!', '!'] properties] ++
        (objects.zip bools).flatMap (wikiBlock properties) ++ [['|', '}']])) := by
  unfold dumpWiki
  have : ((objects.zip bools).flatMap fun (x : Str × List Bool) =>
      [['|', '-'], '!' :: x.1,
       '|' :: joinWith ['|', '|'] (((properties.map (·.length)).zip x.2).map
          fun (w, b) => ljust w (if b then ['X'] else []))]) =
      (objects.zip bools).flatMap (wikiBlock properties) := by
    apply List.flatMap_congr
    intro x _
    simp only [wikiBlock, wikiCells_eq]
  exact congrArg (fun b => rstripBy isSpace (unlines
    ([wikiHead, ['!'], '!' :: joinWith ['!', '!'] properties] ++ b ++ [['|', '}']]))) this

theorem joinWith_cons_of_ne_nil (sep x : Str) {t : List Str} (h : t ≠ []) :
    joinWith sep (x :: t) = x ++ sep ++ joinWith sep t := by
  cases t with
  | nil => contradiction
  | cons y ys => exact joinWith_cons_cons sep x y ys

/-- the last character of joined lines is the last character of the last line -/
theorem getLast?_joinWith_concat (sep : Str) (ls : List Str) {x : Str} (hx : x ≠ []) :
    (joinWith sep (ls ++ [x])).getLast? = x.getLast? := by
  induction ls with
  | nil => simp [joinWith]
  | cons y ys ih =>
    have hne : joinWith sep (ys ++ [x]) ≠ [] := by
      intro h
      rw [h] at ih
      cases x with
      | nil => contradiction
      | cons a as => exact absurd ih.symm (by simp [List.getLast?_eq_none_iff])
    rw [List.cons_append, joinWith_cons_of_ne_nil _ _ (by simp),
      List.getLast?_append_of_ne_nil _ hne, ih]

theorem readWikiBody_blocks {properties : List Str} (hp : properties ≠ [])
    (hpl : ∀ p ∈ properties, p ≠ []) (l : List (Str × List Bool))
    (hl : ∀ x ∈ l, x.2.length = properties.length) (e : Str) :
    readWikiBody (l.flatMap (wikiBlock properties) ++ [e]) = l := by
  induction l with
  | nil => rfl
  | cons x xs ih =>
    rw [List.flatMap_cons]
    have hlen := hl x (by simp)
    have hspec := flagCells_spec (row := x.2) hpl
    have hnb : ∀ cell ∈ flagCells properties x.2, '|' ∉ cell := by
      intro cell hc hm
      rcases (hspec cell hc).2 _ hm with h | h <;> exact absurd h (by decide)
    simp only [wikiBlock, List.cons_append, List.nil_append, readWikiBody, List.drop_succ_cons,
      List.drop_zero]
    rw [split2_joinWith (flagCells_ne_nil hp hlen) hnb, decode_flagCells hlen,
      ih (fun y hy => hl y (by simp [hy]))]

/-- the reference reader recovers the context from the wiki table text -/
theorem readWiki_dumpWiki {objects properties : List Str} {bools : List (List Bool)}
    (hpne : properties ≠ []) (hlen : bools.length = objects.length)
    (hrow : ∀ r ∈ bools, r.length = properties.length)
    (ho : ∀ o ∈ objects, '\n' ∉ o) (hp : ∀ p ∈ properties, WikiLabel p) :
    readWiki (dumpWiki objects properties bools) = some (objects, properties, bools) := by
  set body := (objects.zip bools).flatMap (wikiBlock properties) with hbody
  set J := joinWith ['!', '!'] properties with hJ
  have hpl : ∀ p ∈ properties, p ≠ [] := fun p h => (hp p h).1
  have hrowlen : ∀ x ∈ objects.zip bools, x.2.length = properties.length := fun x hx =>
    hrow _ (List.of_mem_zip (a := x.1) (b := x.2) hx).2
  have hJnl : '\n' ∉ J := not_mem_joinWith (by decide) (fun p h => (hp p h).2.1)
  have hbodynl : ∀ l ∈ body, '\n' ∉ l := by
    intro l hl
    simp only [hbody, List.mem_flatMap, wikiBlock, List.mem_cons, List.not_mem_nil, or_false] at hl
    obtain ⟨x, hx, rfl | rfl | rfl⟩ := hl
    · decide
    · have := ho _ (List.of_mem_zip (a := x.1) (b := x.2) hx).1
      simp only [List.mem_cons, not_or]; exact ⟨by decide, this⟩
    · simp only [List.mem_cons, not_or]
      refine ⟨by decide, not_mem_joinWith (by decide) ?_⟩
      intro cell hc hm
      rcases (flagCells_spec (row := x.2) hpl cell hc).2 _ hm with h | h <;>
        exact absurd h (by decide)
  have hsrc : dumpWiki objects properties bools =
      joinWith ['\n'] (([wikiHead, ['!'], '!' :: J] ++ body) ++ [['|', '}']]) := by
    rw [dumpWiki_eq, unlines_eq_joinWith (by simp), rstripBy_append_right (by simp [isSpace_nl])]
    apply rstripBy_of_last
    rw [getLast?_joinWith_concat _ _ (by simp)]
    decide
  have hsplit : splitChar '\n' (dumpWiki objects properties bools) =
      wikiHead :: ['!'] :: ('!' :: J) :: (body ++ [['|', '}']]) := by
    rw [hsrc, splitChar_joinWith (by simp)]
    · simp
    · intro l hl
      simp only [List.mem_append, List.mem_cons, List.not_mem_nil, or_false] at hl
      rcases hl with ((rfl | rfl | rfl) | hl) | rfl
      · decide
      · decide
      · simp only [List.mem_cons, not_or]; exact ⟨by decide, hJnl⟩
      · exact hbodynl l hl
      · decide
  unfold readWiki
  rw [hsplit]
  simp only [List.drop_succ_cons, List.drop_zero]
  rw [hbody, readWikiBody_blocks hpne hpl _ hrowlen, hJ,
    split2_joinWith hpne (fun p h => (hp p h).2.2)]
  have e1 : (objects.zip bools).map (fun x => x.1) = objects := List.map_fst_zip (by omega)
  have e2 : (objects.zip bools).map (fun x => x.2) = bools := List.map_snd_zip (by omega)
  rw [e1, e2]

end FCA
