import FCA.Proofs.Galois
/-
Abstract closure operators on masks with a bounded domain, the instance given by a context, and
the correctness of the `lindig.neighbors` loop over an abstract closure operator:
its output is, without repetition, exactly the set of upper covers.
-/
namespace FCA
open Classical

/-- closure operator on subsets of `{0..n-1}` given as masks -/
structure Clo where
  n : Nat
  cl : Nat → Nat
  ext' : ∀ a, Bounded n a → a ⊆ᵇ cl a
  mono : ∀ a b, a ⊆ᵇ b → cl a ⊆ᵇ cl b
  idem : ∀ a, Bounded n a → cl (cl a) = cl a
  bnd : ∀ a, Bounded n (cl a)

/-- the closure `A ↦ A''` on object sets of a well-formed context -/
def Ctx.clo (K : Ctx) (h : K.WF) : Clo where
  n := K.n
  cl := K.doubleObj
  ext' := fun _ ha => sub_extent_intent h ha
  mono := fun _ _ hs => doubleObj_mono h hs
  idem := fun a ha => (doubleObj_closed h a ha).2
  bnd := fun _ => bounded_extentOf h _

namespace Clo
variable (C : Clo)

/-- candidate closure for generator `g` over closed `G` -/
def E (G g : Nat) : Nat := C.cl (G ||| 2 ^ g)

/-- the neighbors loop: candidates in list order, `min` mask, accumulated output (reversed) -/
def nbLoop (G : Nat) : List Nat → Nat → List Nat → List Nat
  | [], _, acc => acc.reverse
  | g :: gs, min, acc =>
    if andNot (E C G g) (G ||| 2 ^ g) &&& min = 0
    then nbLoop G gs min (E C G g :: acc)
    else nbLoop G gs (andNot min (2 ^ g)) acc

theorem bounded_or_pow {G g : Nat} (hGb : Bounded C.n G) (hg : g < C.n) : Bounded C.n (G ||| 2 ^ g) := by
  intro i hi
  rcases mem_or.mp hi with h | h
  · exact hGb i h
  · rw [mem_pow.mp h]; exact hg

theorem exists_max (l : List Nat) (P : Nat → Prop) (h : ∃ x ∈ l, P x) :
    ∃ m ∈ l, P m ∧ ∀ x ∈ l, P x → x ≤ m := by
  induction l with
  | nil => simp at h
  | cons a l ih =>
    by_cases hl : ∃ x ∈ l, P x
    · obtain ⟨m, hm, hPm, hmax⟩ := ih hl
      by_cases ha : P a ∧ m < a
      · refine ⟨a, by simp, ha.1, ?_⟩
        intro x hx hPx
        rcases List.mem_cons.mp hx with rfl | hx
        · exact le_rfl
        · exact le_trans (hmax x hx hPx) (le_of_lt ha.2)
      · refine ⟨m, by simp [hm], hPm, ?_⟩
        intro x hx hPx
        rcases List.mem_cons.mp hx with rfl | hx
        · by_contra hlt; exact ha ⟨hPx, by omega⟩
        · exact hmax x hx hPx
    · obtain ⟨x, hx, hPx⟩ := h
      rcases List.mem_cons.mp hx with rfl | hx
      · refine ⟨x, by simp, hPx, ?_⟩
        intro y hy hPy
        rcases List.mem_cons.mp hy with rfl | hy
        · exact le_rfl
        · exact absurd ⟨y, hy, hPy⟩ hl
      · exact absurd ⟨x, hx, hPx⟩ hl

section
variable (G : Nat) (gs : List Nat)

def Min (g : Nat) : Prop := ∀ h ∈ gs, E C G h ⊆ᵇ E C G g → E C G h = E C G g
def Good (g : Nat) : Prop := Min C G gs g ∧ ∀ h ∈ gs, h ∈ᵇ E C G g → h ≤ g

variable (hG : C.cl G = G) (hGb : Bounded C.n G)
include hG hGb

theorem G_sub_E {g : Nat} (hg : g < C.n) : G ⊆ᵇ E C G g := fun i hi =>
  C.ext' _ (bounded_or_pow C hGb hg) i (by simp [hi])

theorem g_mem_E {g : Nat} (hg : g < C.n) : g ∈ᵇ E C G g :=
  C.ext' _ (bounded_or_pow C hGb hg) g (by simp)

theorem E_sub_of_mem {h g : Nat} (hg : g < C.n) (hm : h ∈ᵇ E C G g) : E C G h ⊆ᵇ E C G g := by
  have : (G ||| 2 ^ h) ⊆ᵇ E C G g := by
    intro i hi
    rcases mem_or.mp hi with hi | hi
    · exact G_sub_E C G hG hGb hg i hi
    · rw [mem_pow.mp hi]; exact hm
  have := C.mono _ _ this
  unfold E at this ⊢
  rwa [C.idem _ (bounded_or_pow C hGb hg)] at this

theorem exists_min_below (hgs : ∀ g ∈ gs, g < C.n) : ∀ (N : Nat) (h : Nat), h ∈ gs → E C G h = N →
    ∃ h' ∈ gs, E C G h' ⊆ᵇ E C G h ∧ Min C G gs h' := by
  intro N
  induction N using Nat.strong_induction_on with
  | _ N ih =>
    intro h hh hN
    by_cases hmin : Min C G gs h
    · exact ⟨h, hh, sub_refl _, hmin⟩
    · unfold Min at hmin
      push Not at hmin
      obtain ⟨k, hk, hsub, hne⟩ := hmin
      have hlt : E C G k < N := hN ▸ lt_of_sub_ne hsub hne
      obtain ⟨h', hh', hsub', hmin'⟩ := ih _ hlt k hk rfl
      exact ⟨h', hh', sub_trans hsub' hsub, hmin'⟩

/-- the acceptance test at `g`, given the invariant on `min`, is exactly `Good g` -/
theorem test_iff_good (hgs : ∀ g ∈ gs, g < C.n) (pre post : List Nat) (g min : Nat)
    (hsplit : gs = pre ++ g :: post) (hsorted : gs.Pairwise (· < ·))
    (hnotG : ∀ h ∈ gs, ¬ h ∈ᵇ G)
    (I1 : ∀ i, i ∈ᵇ min ↔ i ∈ gs ∧ (i ∈ pre → Good C G gs i)) :
    (andNot (E C G g) (G ||| 2 ^ g) &&& min = 0) ↔ Good C G gs g := by
  have hg : g ∈ gs := by rw [hsplit]; simp
  have hgn : g < C.n := hgs g hg
  have hpw := hsorted
  rw [hsplit, List.pairwise_append] at hpw
  obtain ⟨_, hpost, hpre⟩ := hpw
  have hpre_lt : ∀ h ∈ pre, h < g := fun h hh => hpre h hh g (by simp)
  have hpost_gt : ∀ h ∈ post, g < h := fun h hh => (List.pairwise_cons.mp hpost).1 h hh
  have mem_cases : ∀ h ∈ gs, h ∈ pre ∨ h = g ∨ h ∈ post := by
    intro h hh; rw [hsplit] at hh; simpa [List.mem_append, List.mem_cons] using hh
  rw [eq_zero_iff]
  constructor
  · intro T
    have hLast : ∀ h ∈ gs, h ∈ᵇ E C G g → h ≤ g := by
      intro h hh hm
      by_contra hlt
      have hpostm : h ∈ post := by
        rcases mem_cases h hh with hp | rfl | hp
        · exact absurd (le_of_lt (hpre_lt h hp)) hlt
        · exact absurd le_rfl hlt
        · exact hp
      have hnpre : h ∉ pre := fun hp => hlt (le_of_lt (hpre_lt h hp))
      apply T h
      simp only [mem_and, mem_andNot, mem_or, mem_pow]
      refine ⟨⟨hm, ?_⟩, (I1 h).mpr ⟨hh, fun hp => absurd hp hnpre⟩⟩
      rintro (hGm | rfl)
      · exact hnotG h hh hGm
      · exact hlt le_rfl
    refine ⟨?_, hLast⟩
    intro h hh hsub
    by_contra hne
    obtain ⟨h', hh', hsub', hmin'⟩ := exists_min_below C G gs hG hGb hgs _ h hh rfl
    obtain ⟨s, hs, hsm, hsmax⟩ := exists_max gs (fun k => k ∈ᵇ E C G h') ⟨h', hh', g_mem_E C G hG hGb (hgs h' hh')⟩
    have hEs : E C G s = E C G h' := hmin' s hs (E_sub_of_mem C G hG hGb (hgs h' hh') hsm)
    have hgood : Good C G gs s := by
      refine ⟨?_, ?_⟩
      · intro k hk hksub; rw [hEs] at hksub ⊢; exact hmin' k hk hksub
      · intro k hk hkm; rw [hEs] at hkm; exact hsmax k hk hkm
    have hsEg : s ∈ᵇ E C G g := hsub s (hsub' s hsm)
    have hsg : s ≠ g := by
      rintro rfl
      apply hne
      apply sub_antisymm hsub
      exact sub_trans (E_sub_of_mem C G hG hGb (hgs h' hh') hsm) hsub'
    apply T s
    simp only [mem_and, mem_andNot, mem_or, mem_pow]
    refine ⟨⟨hsEg, ?_⟩, (I1 s).mpr ⟨hs, fun _ => hgood⟩⟩
    rintro (hGm | h2)
    · exact hnotG s hs hGm
    · exact hsg h2
  · rintro ⟨hMin, hLast⟩ i hi
    simp only [mem_and, mem_andNot, mem_or, mem_pow, not_or] at hi
    obtain ⟨⟨hiE, hiG, hig⟩, himin⟩ := hi
    obtain ⟨higs, hgoodi⟩ := (I1 i).mp himin
    have hile : i ≤ g := hLast i higs hiE
    have hipre : i ∈ pre := by
      rcases mem_cases i higs with hp | rfl | hp
      · exact hp
      · exact absurd rfl hig
      · exact absurd (hpost_gt i hp) (by omega)
    have hGi := hgoodi hipre
    have hEi : E C G i = E C G g := hMin i higs (E_sub_of_mem C G hG hGb hgn hiE)
    have : g ≤ i := hGi.2 g hg (by rw [hEi]; exact g_mem_E C G hG hGb hgn)
    exact hig (le_antisymm hile this)

theorem nbLoop_spec (hgs : ∀ g ∈ gs, g < C.n) (hsorted : gs.Pairwise (· < ·))
    (hnotG : ∀ h ∈ gs, ¬ h ∈ᵇ G) :
    ∀ (rest pre : List Nat) (min : Nat) (acc : List Nat),
      gs = pre ++ rest →
      (∀ i, i ∈ᵇ min ↔ i ∈ gs ∧ (i ∈ pre → Good C G gs i)) →
      nbLoop C G rest min acc = acc.reverse ++ (rest.filter (fun g => Good C G gs g)).map (E C G) := by
  intro rest
  induction rest with
  | nil => intro pre min acc _ _; simp [nbLoop]
  | cons g post ih =>
    intro pre min acc hsplit I1
    have htest := test_iff_good C G gs hG hGb hgs pre post g min hsplit hsorted hnotG I1
    have hsplit' : gs = (pre ++ [g]) ++ post := by simp [hsplit]
    have hnodup : gs.Nodup := hsorted.imp (fun h => ne_of_lt h)
    unfold nbLoop
    by_cases hgood : Good C G gs g
    · have ht : andNot (E C G g) (G ||| 2 ^ g) &&& min = 0 := htest.mpr hgood
      simp only [ht, if_true]
      rw [ih (pre ++ [g]) min (E C G g :: acc) hsplit' ?_]
      · simp [List.filter_cons, hgood]
      · intro i
        rw [I1 i]
        constructor
        · rintro ⟨hi, hp⟩
          refine ⟨hi, fun hm => ?_⟩
          rcases List.mem_append.mp hm with hm | hm
          · exact hp hm
          · simp at hm; subst hm; exact hgood
        · rintro ⟨hi, hp⟩
          exact ⟨hi, fun hm => hp (List.mem_append.mpr (Or.inl hm))⟩
    · have ht : ¬ (andNot (E C G g) (G ||| 2 ^ g) &&& min = 0) := fun h => hgood (htest.mp h)
      simp only [ht, if_false]
      rw [ih (pre ++ [g]) (andNot min (2 ^ g)) acc hsplit' ?_]
      · simp [List.filter_cons, hgood]
      · intro i
        rw [mem_andNot, I1 i, mem_pow]
        constructor
        · rintro ⟨⟨hi, hp⟩, hne⟩
          refine ⟨hi, fun hm => ?_⟩
          rcases List.mem_append.mp hm with hm | hm
          · exact hp hm
          · simp at hm; exact absurd hm hne
        · rintro ⟨hi, hp⟩
          refine ⟨⟨hi, fun hm => hp (List.mem_append.mpr (Or.inl hm))⟩, ?_⟩
          rintro rfl
          exact hgood (hp (by simp))

/-- output of the loop started with `min` = the candidate set: the closures of the good generators,
in generator order -/
theorem nbLoop_eq (hgs : ∀ g ∈ gs, g < C.n) (hsorted : gs.Pairwise (· < ·))
    (hnotG : ∀ h ∈ gs, ¬ h ∈ᵇ G) (min : Nat) (hmin : ∀ i, i ∈ᵇ min ↔ i ∈ gs) :
    nbLoop C G gs min [] = (gs.filter (fun g => Good C G gs g)).map (E C G) := by
  have := nbLoop_spec C G gs hG hGb hgs hsorted hnotG gs [] min [] (by simp) (by intro i; simp [hmin i])
  simpa using this

end

/-- `D` is an upper cover of the closed set `G` among the closed sets -/
def Covers (G D : Nat) : Prop :=
  C.cl D = D ∧ Bounded C.n D ∧ G ⊆ᵇ D ∧ G ≠ D ∧
    ∀ X, C.cl X = X → Bounded C.n X → G ⊆ᵇ X → X ⊆ᵇ D → X = G ∨ X = D

/-- with `gs` = all non-members of `G` below `n`: the loop output lists every upper cover of `G`
exactly once -/
theorem nbLoop_covers (G : Nat) (gs : List Nat) (hG : C.cl G = G) (hGb : Bounded C.n G)
    (hgs : ∀ g, g ∈ gs ↔ g < C.n ∧ ¬ g ∈ᵇ G) (hsorted : gs.Pairwise (· < ·))
    (min : Nat) (hmin : ∀ i, i ∈ᵇ min ↔ i ∈ gs) :
    (nbLoop C G gs min []).Nodup ∧ ∀ D, D ∈ nbLoop C G gs min [] ↔ Covers C G D := by
  have hgs' : ∀ g ∈ gs, g < C.n := fun g hg => ((hgs g).mp hg).1
  have hnotG : ∀ h ∈ gs, ¬ h ∈ᵇ G := fun g hg => ((hgs g).mp hg).2
  rw [nbLoop_eq C G gs hG hGb hgs' hsorted hnotG min hmin]
  have hnodup : gs.Nodup := hsorted.imp (fun h => ne_of_lt h)
  constructor
  · -- distinct good generators have distinct closures
    apply List.Nodup.map_on _ (hnodup.filter _)
    intro g hg g' hg' heq
    rw [List.mem_filter] at hg hg'
    have h1 : Good C G gs g := by simpa using hg.2
    have h2 : Good C G gs g' := by simpa using hg'.2
    have a : g' ≤ g := h1.2 g' hg'.1 (by rw [heq]; exact g_mem_E C G hG hGb (hgs' g' hg'.1))
    have b : g ≤ g' := h2.2 g hg.1 (by rw [← heq]; exact g_mem_E C G hG hGb (hgs' g hg.1))
    omega
  · intro D
    simp only [List.mem_map, List.mem_filter, decide_eq_true_eq]
    constructor
    · rintro ⟨g, ⟨hg, hgood⟩, rfl⟩
      have hgn := hgs' g hg
      refine ⟨C.idem _ (bounded_or_pow C hGb hgn), C.bnd _, G_sub_E C G hG hGb hgn, ?_, ?_⟩
      · intro heq
        exact hnotG g hg (by rw [heq]; exact g_mem_E C G hG hGb hgn)
      · intro X hX hXb hGX hXD
        by_cases hXG : X = G
        · exact Or.inl hXG
        · right
          have : ∃ i, i ∈ᵇ X ∧ ¬ i ∈ᵇ G := by
            by_contra hcon
            push Not at hcon
            exact hXG (sub_antisymm hcon hGX)
          obtain ⟨h, hhX, hhG⟩ := this
          have hh : h ∈ gs := (hgs h).mpr ⟨hXb h hhX, hhG⟩
          have hEh : E C G h ⊆ᵇ X := by
            have : (G ||| 2 ^ h) ⊆ᵇ X := by
              intro i hi
              rcases mem_or.mp hi with hi | hi
              · exact hGX i hi
              · rw [mem_pow.mp hi]; exact hhX
            have := C.mono _ _ this
            rwa [hX] at this
          have := hgood.1 h hh (sub_trans hEh hXD)
          exact sub_antisymm hXD (this ▸ hEh)
    · rintro ⟨hD, hDb, hGD, hne, hmin'⟩
      have : ∃ i, i ∈ᵇ D ∧ ¬ i ∈ᵇ G := by
        by_contra hcon
        push Not at hcon
        exact hne (sub_antisymm hGD hcon)
      obtain ⟨g0, hg0D, hg0G⟩ := this
      have hg0 : g0 ∈ gs := (hgs g0).mpr ⟨hDb g0 hg0D, hg0G⟩
      -- every generator inside D generates D
      have gen : ∀ g ∈ gs, g ∈ᵇ D → E C G g = D := by
        intro g hg hgD
        have hsub : E C G g ⊆ᵇ D := by
          have : (G ||| 2 ^ g) ⊆ᵇ D := by
            intro i hi
            rcases mem_or.mp hi with hi | hi
            · exact hGD i hi
            · rw [mem_pow.mp hi]; exact hgD
          have := C.mono _ _ this
          rwa [hD] at this
        rcases hmin' _ (C.idem _ (bounded_or_pow C hGb (hgs' g hg))) (C.bnd _) (G_sub_E C G hG hGb (hgs' g hg)) hsub with h | h
        · exact absurd (by rw [← h]; exact g_mem_E C G hG hGb (hgs' g hg)) (hnotG g hg)
        · exact h
      obtain ⟨s, hs, hsD, hsmax⟩ := exists_max gs (fun k => k ∈ᵇ D) ⟨g0, hg0, hg0D⟩
      refine ⟨s, ⟨hs, ?_, ?_⟩, gen s hs hsD⟩
      · intro h hh hsub
        rw [gen s hs hsD] at hsub ⊢
        have hhD : h ∈ᵇ D := hsub h (g_mem_E C G hG hGb (hgs' h hh))
        exact gen h hh hhD
      · intro h hh hm
        rw [gen s hs hsD] at hm
        exact hsmax h hh hm

end Clo
end FCA
