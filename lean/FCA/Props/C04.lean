import FCA.Proofs.CboInst
import FCA.Props.C03
import FCA.Proofs.CboPlain
/-
Property C04 — all concept generators agree on the set of concepts.

`fcbo K` (Fast Close-by-One by intents) and `fcboDual K` (by extents) each emit every formal
concept of `K` exactly once and nothing else; hence they are permutations of each other.
The emission order is deliberately not part of the property.
-/
namespace FCA
open Cbo

/-! ### 1. the generic generator `fcboNode S` over an abstract side -/

/-- Generic FCbO: for a side satisfying `SideOK` (closure `cl = prime ∘ der`, with
`der B ∩ col j = der (B ∪ {j})`), started at a node whose `own` is closed, whose `other` is its
derivation and whose `sets` satisfy the invariant `sets[j] ⊆ cl (own ∪ {j})`, with enough fuel,
`fcboNode` emits – without duplicates, even after projecting to `own` – exactly the nodes
`⟨D, der D⟩` with `D` closed, `own ⊆ D` and `D ∩ [0, idx) ⊆ own`. The `sets` pruning of FCbO
therefore never loses (or adds) anything with respect to plain Close-by-One. -/
theorem C04_fcboNode_spec {S : Side} {der : Nat → Nat} (ok : SideOK S der)
    (fuel : Nat) (nd : FNode) (idx : Nat) (sets : Array Nat)
    (hfuel : S.width - idx ≤ fuel) (hclosed : S.prime (der nd.own) = nd.own)
    (hother : nd.other = der nd.own)
    (hsets : ∀ j, j < S.width → sets[j]! ⊆ᵇ S.prime (der (nd.own ||| 2 ^ j))) :
    ((fcboNode S fuel nd idx sets).map (·.own)).Nodup ∧
    ∀ x, x ∈ fcboNode S fuel nd idx sets ↔
      (x.other = der x.own ∧ S.prime (der x.own) = x.own ∧ nd.own ⊆ᵇ x.own ∧
        ∀ i, i < idx → i ∈ᵇ x.own → i ∈ᵇ nd.own) := by
  obtain ⟨h1, h2, h3⟩ := fcboNode_spec ok fuel nd idx sets hfuel hclosed hother hsets
  refine ⟨h1, fun x => ⟨fun hx => ⟨h2 x hx, ?_⟩, ?_⟩⟩
  · exact (h3 x.own).mp (List.mem_map.mpr ⟨x, hx, rfl⟩)
  · rintro ⟨hx1, hx2⟩
    obtain ⟨x', hx', he⟩ := List.mem_map.mp ((h3 x.own).mpr hx2)
    have ho : x'.other = x.other := by rw [h2 _ hx', hx1, he]
    have : x' = x := by
      cases x; cases x'
      simp only at he ho
      simp only [FNode.mk.injEq]
      exact ⟨he, ho⟩
    rw [← this]; exact hx'

/-- the inner loop of FCbO returns exactly the canonical children of plain Close-by-One
(`Cbo.child`, which has no `sets` test), in loop order -/
theorem C04_fcboInner_children {S : Side} {der : Nat → Nat} (ok : SideOK S der) (nd : FNode)
    (hother : nd.other = der nd.own) (js : List Nat) (sets : Array Nat)
    (hjs : ∀ j ∈ js, j < S.width)
    (hsets : ∀ j, j < S.width → sets[j]! ⊆ᵇ S.prime (der (nd.own ||| 2 ^ j))) :
    (fcboInner S nd js sets []).1 = js.filterMap (child S nd) := by
  have := (fcboInner_spec ok nd hother js sets [] hjs hsets).1
  simpa using this

/-- Fast Close-by-One is plain Close-by-One (`Cbo.cboNode`: no `sets` list, no empty-`other` cut):
under the `sets` invariant both produce literally the same list, for every fuel. -/
theorem C04_fcboNode_eq_cboNode {S : Side} {der : Nat → Nat} (ok : SideOK S der)
    (fuel : Nat) (nd : FNode) (idx : Nat) (sets : Array Nat)
    (hclosed : S.prime (der nd.own) = nd.own) (hother : nd.other = der nd.own)
    (hsets : ∀ j, j < S.width → sets[j]! ⊆ᵇ S.prime (der (nd.own ||| 2 ^ j))) :
    fcboNode S fuel nd idx sets = cboNode S fuel nd idx :=
  fcboNode_eq_cboNode ok fuel nd idx sets hclosed hother hsets

/-- both sides of a well-formed context satisfy the abstract requirements (non-vacuity of `SideOK`) -/
example (K : Ctx) (h : K.WF) : SideOK (sideP K) K.extentOf ∧ SideOK (sideO K) K.intentOf :=
  ⟨sideP_ok h, sideO_ok h⟩

/-! ### 2. `fcbo K` -/

/-- membership in `fcbo K` is being a formal concept -/
theorem C04_fcbo_iff {K : Ctx} (h : K.WF) (p : Nat × Nat) : p ∈ fcbo K ↔ isConcept K p.1 p.2 := by
  obtain ⟨_, h2, h3⟩ := fcbo_root_spec h
  rw [fcbo_eq, List.mem_map]
  constructor
  · rintro ⟨x, hx, rfl⟩
    have hc : K.intentOf (K.extentOf x.own) = x.own := (h3 x.own).mp (List.mem_map.mpr ⟨x, hx, rfl⟩)
    refine ⟨?_, ?_, ?_, (h2 x hx).symm⟩
    · show Bounded K.n x.other
      rw [h2 x hx]; exact bounded_extentOf h _
    · show Bounded K.m x.own
      rw [← hc]; exact bounded_intentOf _
    · show K.intentOf x.other = x.own
      rw [h2 x hx]; exact hc
  · rintro ⟨_, _, hi, he⟩
    have hc : K.intentOf (K.extentOf p.2) = p.2 := by rw [he, hi]
    obtain ⟨x, hx, hxo⟩ := List.mem_map.mp ((h3 p.2).mpr hc)
    refine ⟨x, hx, ?_⟩
    rw [h2 x hx, hxo, he]

theorem C04_fcbo_sound {K : Ctx} (h : K.WF) (p : Nat × Nat) (hp : p ∈ fcbo K) :
    isConcept K p.1 p.2 := (C04_fcbo_iff h p).mp hp

theorem C04_fcbo_complete {K : Ctx} (h : K.WF) (A B : Nat) (hc : isConcept K A B) :
    (A, B) ∈ fcbo K := (C04_fcbo_iff h (A, B)).mpr hc

theorem C04_fcbo_nodup {K : Ctx} (h : K.WF) : (fcbo K).Nodup := by
  obtain ⟨h1, _, _⟩ := fcbo_root_spec h
  rw [fcbo_eq]
  apply List.Nodup.of_map Prod.snd
  rw [List.map_map]
  exact h1

/-! ### 2'. `fcboDual K` -/

theorem C04_fcboDual_iff {K : Ctx} (h : K.WF) (p : Nat × Nat) :
    p ∈ fcboDual K ↔ isConcept K p.1 p.2 := by
  obtain ⟨_, h2, h3⟩ := fcboDual_root_spec h
  rw [fcboDual_eq, List.mem_map]
  constructor
  · rintro ⟨x, hx, rfl⟩
    obtain ⟨hb, hc⟩ := (h3 x.own).mp (List.mem_map.mpr ⟨x, hx, rfl⟩)
    refine ⟨hb, ?_, (h2 x hx).symm, ?_⟩
    · show Bounded K.m x.other
      rw [h2 x hx]; exact bounded_intentOf _
    · show K.extentOf x.other = x.own
      rw [h2 x hx]; exact hc
  · rintro ⟨hb, _, hi, he⟩
    have hc : K.extentOf (K.intentOf p.1) = p.1 := by rw [hi, he]
    obtain ⟨x, hx, hxo⟩ := List.mem_map.mp ((h3 p.1).mpr ⟨hb, hc⟩)
    refine ⟨x, hx, ?_⟩
    rw [h2 x hx, hxo, hi]

theorem C04_fcboDual_sound {K : Ctx} (h : K.WF) (p : Nat × Nat) (hp : p ∈ fcboDual K) :
    isConcept K p.1 p.2 := (C04_fcboDual_iff h p).mp hp

theorem C04_fcboDual_complete {K : Ctx} (h : K.WF) (A B : Nat) (hc : isConcept K A B) :
    (A, B) ∈ fcboDual K := (C04_fcboDual_iff h (A, B)).mpr hc

theorem C04_fcboDual_nodup {K : Ctx} (h : K.WF) : (fcboDual K).Nodup := by
  obtain ⟨h1, _, _⟩ := fcboDual_root_spec h
  rw [fcboDual_eq]
  apply List.Nodup.of_map Prod.fst
  rw [List.map_map]
  exact h1

/-! ### 3. agreement -/

/-- the two generators emit the same concepts, each exactly once (order may differ) -/
theorem C04_agree {K : Ctx} (h : K.WF) : (fcbo K).Perm (fcboDual K) :=
  (List.perm_ext_iff_of_nodup (C04_fcbo_nodup h) (C04_fcboDual_nodup h)).mpr fun p => by
    rw [C04_fcbo_iff h, C04_fcboDual_iff h]

/-- same number of concepts -/
theorem C04_agree_length {K : Ctx} (h : K.WF) : (fcbo K).length = (fcboDual K).length :=
  (C04_agree h).length_eq

/-! ### non-vacuity: the doctest context of `fcbo.py` (4 objects, 6 properties, 12 concepts) -/

/-- the list / iterator wrappers yield the very pairs of `fast_generate_from`, in the same order -/
theorem C04_wrappers (K : Ctx) : iterconcepts K = fcbo K ∧ getConcepts K = fcbo K := by
  constructor <;> simp [iterconcepts, getConcepts]

/-- all generators agree with `context.lattice` as sets of (extent, intent) pairs, each pair once -/
theorem C04_agree_lattice {K : Ctx} (h : K.WF) :
    (fcbo K).Perm ((mkLattice K).map fun c => (c.extent, c.intent)) ∧
    (fcboDual K).Perm ((mkLattice K).map fun c => (c.extent, c.intent)) ∧
    (getConcepts K).Perm ((mkLattice K).map fun c => (c.extent, c.intent)) ∧
    (iterconcepts K).Perm ((mkLattice K).map fun c => (c.extent, c.intent)) := by
  have hl := C03_lattice_nodup K h
  have h1 : (fcbo K).Perm ((mkLattice K).map fun c => (c.extent, c.intent)) :=
    (List.perm_ext_iff_of_nodup (C04_fcbo_nodup h) hl).mpr fun p => by
      rw [C04_fcbo_iff h]; exact (C03_lattice_iff K h p.1 p.2).symm
  have h2 : (fcboDual K).Perm ((mkLattice K).map fun c => (c.extent, c.intent)) :=
    (List.perm_ext_iff_of_nodup (C04_fcboDual_nodup h) hl).mpr fun p => by
      rw [C04_fcboDual_iff h]; exact (C03_lattice_iff K h p.1 p.2).symm
  refine ⟨h1, h2, ?_, ?_⟩
  · rw [(C04_wrappers K).2]; exact h1
  · rw [(C04_wrappers K).1]; exact h1

/-- `A|X|X|X| | | |`, `B|X| |X|X|X|X|`, `C|X|X| | |X| |`, `D| |X|X| | | |` -/
def C04_K : Ctx := mkCtx 4 6 #[7, 61, 19, 6]

example : C04_K.WF := mkCtx_WF _ _ _ rfl (by decide)
/-- `({A,B}, {0,2})` is a concept: the hypothesis of the completeness theorems is satisfiable -/
example : isConcept C04_K 3 5 :=
  ⟨bounded_iff_lt.mpr (by decide), bounded_iff_lt.mpr (by decide), by decide +kernel, by decide +kernel⟩
/-- the hypothesis of the soundness theorems is satisfiable; emission orders as in the doctests -/
example : (3, 5) ∈ fcbo C04_K ∧ (3, 5) ∈ fcboDual C04_K := by decide +kernel
example : fcbo C04_K = [(15, 0), (7, 1), (5, 3), (1, 7), (0, 63), (4, 19), (3, 5), (2, 61), (6, 17),
    (13, 2), (9, 6), (11, 4)] := by decide +kernel
example : fcboDual C04_K = [(0, 63), (1, 7), (3, 5), (7, 1), (15, 0), (11, 4), (5, 3), (13, 2),
    (9, 6), (2, 61), (6, 17), (4, 19)] := by decide +kernel
/-- the two orders really differ, so `Perm` is the right notion of agreement -/
example : fcbo C04_K ≠ fcboDual C04_K := by decide +kernel

end FCA

#print axioms FCA.C04_fcboNode_spec
#print axioms FCA.C04_fcboInner_children
#print axioms FCA.C04_fcboNode_eq_cboNode
#print axioms FCA.C04_fcbo_iff
#print axioms FCA.C04_fcbo_sound
#print axioms FCA.C04_fcbo_complete
#print axioms FCA.C04_fcbo_nodup
#print axioms FCA.C04_fcboDual_iff
#print axioms FCA.C04_fcboDual_sound
#print axioms FCA.C04_fcboDual_complete
#print axioms FCA.C04_fcboDual_nodup
#print axioms FCA.C04_agree
#print axioms FCA.C04_agree_length
