#!/bin/sh
# usage: dev/try_refactor.sh <dir with patch.diff> -- behaviour-preserving change: every check must still PASS (correspondence,
# --no-build) and the extraction should not decline. Uses the second private worktree.
WT=/tmp/mut/dev2; M=$1
git -C $WT checkout -q -- . || exit 9
git -C $WT clean -fdq
git -C $WT apply $M/patch.diff || { echo "patch does not apply"; exit 9; }
EX=$(cd /verif && VERIF_REPO=$WT /venv/bin/python harness/extract.py --dry 2>/dev/null | tr -d '\n')
OUT=$(cd /verif && for i in 01 02 03 04 05 06 07 08 09 10 11 12 13 14 15 16 17 18 19 20; do echo C$i; done | \
  xargs -P 10 -I{} sh -c "VERIF_REPO=$WT timeout 900 ./check {} --no-build 2>/dev/null | grep -E '^(VIOLATION|INTERNAL)' | sed 's/^/{}: /'" | tr '\n' ' ')
git -C $WT checkout -q -- .; git -C $WT clean -fdq
echo "$(basename $(dirname $M))/$(basename $M): alarms=[$OUT] extraction=$(echo $EX | grep -o "'[A-Za-z]*': '\(would change\|declined[^']*\)'" | tr '\n' ' ')"
