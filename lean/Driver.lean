import FCA.Model.Bits
import FCA.Model.Galois
import FCA.Model.Lindig
import FCA.Model.Lattice
import FCA.Model.Fcbo
import FCA.Model.FcboStack
import FCA.Model.Defn
import FCA.Model.Junctors
import FCA.Model.Misc
import FCA.Model.Formats
import FCA.Model.Render
import FCA.Model.PyLiteral
/-
Line protocol driver: one request per line on stdin, one canonical answer per line on stdout.
See harness/drive.py for the client side.
-/
open FCA

structure St where
  K : Ctx := ⟨0, 0, #[], #[]⟩
  L : Option Lattice := none
  defs : List (Nat × Defn) := []

def nat! (s : String) : Nat := s.toNat?.getD 0
def int! (s : String) : Int := s.toInt?.getD 0

def showList (l : List Nat) : String := if l.isEmpty then "-" else ",".intercalate (l.map toString)
def showPairs (l : List (Nat × Nat)) : String :=
  if l.isEmpty then "-" else " ".intercalate (l.map fun (a, b) => s!"{a}:{b}")
def showOpt : Option Nat → String
  | some k => toString k
  | none => "KeyError"

def parseList (s : String) : List String := if s == "-" then [] else s.splitOn ","
def parseNatList (s : String) : List Nat := (parseList s).map nat!

def showConcept (c : LConcept) : String :=
  s!"{c.extent} {c.intent} {showList c.upper} {showList c.lower} {c.dindex} {showList c.atoms} {showList c.objects} {showList c.properties}"

def showLattice (L : Lattice) : String := ";".intercalate (L.map showConcept)

def getLattice (st : St) : St × Lattice :=
  match st.L with
  | some L => (st, L)
  | none => let L := mkLattice st.K; ({ st with L := some L }, L)

def showDefn (d : Defn) : String :=
  let names := fun (l : List Name) => if l.isEmpty then "-" else ",".intercalate l
  let bools := if d.objs.isEmpty then "-" else "/".intercalate (d.bools.map fun row =>
    if row.isEmpty then "." else String.ofList (row.map fun b => if b then '1' else '0'))
  s!"{names d.objs}|{names d.props}|{bools}|{if d.freshEq then 1 else 0}"

def parseBools (s : String) : List (List Bool) :=
  if s == "-" then [] else (s.splitOn "/").map fun row =>
    if row == "." then [] else row.toList.map (· == '1')

def getDef (st : St) (s : Nat) : Defn := ((st.defs.find? (·.1 == s)).map (·.2)).getD Defn.empty
def setDef (st : St) (s : Nat) (d : Defn) : St :=
  { st with defs := (s, d) :: st.defs.filter (·.1 != s) }

def parseOp (st : St) : List String → Option Op
  | ["setitem", o, p, v] => some (.setItem o p (v == "1"))
  | ["rename_object", a, b] => some (.renameObject a b)
  | ["rename_property", a, b] => some (.renameProperty a b)
  | ["move_object", o, i] => some (.moveObject o (int! i))
  | ["move_property", p, i] => some (.moveProperty p (int! i))
  | ["add_object", o, ps] => some (.addObject o (parseList ps))
  | ["add_property", p, os] => some (.addProperty p (parseList os))
  | ["remove_object", o] => some (.removeObject o)
  | ["remove_property", p] => some (.removeProperty p)
  | ["remove_empty_objects"] => some .removeEmptyObjects
  | ["remove_empty_properties"] => some .removeEmptyProperties
  | ["set_object", o, ps] => some (.setObject o (parseList ps))
  | ["set_property", p, os] => some (.setProperty p (parseList os))
  | ["union_update", u, ig] => some (.unionUpdate (getDef st (nat! u)) (ig == "1"))
  | ["intersection_update", u, ig] => some (.intersectionUpdate (getDef st (nat! u)) (ig == "1"))
  | _ => none

def optList (s : String) : Option (List String) := if s == "None" then none else some (parseList s)

def showDot : DotItem → String
  | .node k => s!"n{k}"
  | .objectLabel k os => s!"o{k}={showList os}"
  | .propertyLabel k ps => s!"p{k}={showList ps}"
  | .edge k j => s!"e{k}-{j}"

def parseSNames (s : String) : Option (List SName) :=
  if s == "MISSING" then none
  else some ((parseList s).map fun t => if t.startsWith "#" then SName.other else SName.str t)

def parseRows (s : String) : Option (List (List Int)) :=
  if s == "MISSING" then none
  else if s == "-" then some []
  else some ((s.splitOn "/").map fun row => if row == "." then [] else (row.splitOn ",").map int!)

def parseStored (s : String) : List Stored :=
  if s == "-" then [] else (s.splitOn ";").map fun c =>
    match c.splitOn " " with
    | [e, i, u, l] => ⟨parseNatList e, parseNatList i, parseNatList u, parseNatList l⟩
    | _ => ⟨[], [], [], []⟩

/-! python-literal protocol: int tuples `0+1+2` (`e` = empty tuple), lists of tuples separated by `;` (`_` = empty list),
lattice entries `a|b|c|d`, `none` = no lattice -/
def litTupleOfStr (s : String) : List Nat := if s == "e" then [] else (s.splitOn "+").map String.toNat!
def litStrOfTuple (t : List Nat) : String := if t.isEmpty then "e" else "+".intercalate (t.map toString)
def litRowsOfStr (s : String) : List (List Nat) := if s == "_" then [] else (s.splitOn ";").map litTupleOfStr
def litStrOfRows (r : List (List Nat)) : String := if r.isEmpty then "_" else ";".intercalate (r.map litStrOfTuple)
def litEntryOfStr (s : String) : LitEntry4 :=
  match s.splitOn "|" with
  | [a, b, c, d] => (litTupleOfStr a, litTupleOfStr b, litTupleOfStr c, litTupleOfStr d)
  | _ => ([], [], [], [])
def litStrOfEntry : LitEntry4 → String
  | (a, b, c, d) => "|".intercalate [litStrOfTuple a, litStrOfTuple b, litStrOfTuple c, litStrOfTuple d]
def litLatticeOfStr (s : String) : Option (List LitEntry4) :=
  if s == "none" then none else if s == "_" then some [] else some ((s.splitOn ";").map litEntryOfStr)
def litStrOfLattice : Option (List LitEntry4) → String
  | none => "none"
  | some [] => "_"
  | some l => ";".intercalate (l.map litStrOfEntry)

def litRequest : List String → String
  | ["dump", printable, os, ps, rows, lat] =>
    let pr : List Nat := if printable == "-" then [] else (printable.splitOn ",").map String.toNat!
    hexOfStr (dumpLiteral (fun c => pr.contains c) ⟨strListOfHex os, strListOfHex ps, litRowsOfStr rows, litLatticeOfStr lat⟩)
  | ["load", src] =>
    match loadLiteral (strOfHex src) with
    | some d => s!"ok {hexOfStrList d.objects} {hexOfStrList d.properties} {litStrOfRows d.context} {litStrOfLattice d.lattice}"
    | none => "none"
  | _ => "bad-request"



def step (st : St) (line : String) : St × String :=
  match line.splitOn " " with
  | "ctx" :: n :: m :: rows =>
    let K := mkCtx (nat! n) (nat! m) (rows.map nat!).toArray
    ({ st with K := K, L := none }, "ok")
  | ["cols"] => (st, showList st.K.cols.toList)
  | ["intent", a] => (st, toString (st.K.intentOf (nat! a)))
  | ["extent", b] => (st, toString (st.K.extentOf (nat! b)))
  | ["dblo", a] => (st, toString (st.K.doubleObj (nat! a)))
  | ["dblp", b] => (st, toString (st.K.doubleProp (nat! b)))
  | ["dpo", a] => let (e, i) := st.K.dpObj (nat! a); (st, s!"{e} {i}")
  | ["dpp", b] => let (i, e) := st.K.dpProp (nat! b); (st, s!"{e} {i}")
  | ["neighbors", a] => (st, showPairs (neighbors st.K (nat! a)))
  | ["cneighbors", a] => (st, showPairs (contextNeighbors st.K (nat! a)))
  | ["lindig"] => (st, ";".intercalate ((lindigLattice st.K).map fun r =>
      s!"{r.extent} {r.intent} {showList r.upper} {showList r.lower}"))
  | ["lattice"] => let (st, L) := getLattice st; (st, showLattice L)
  | ["fcbo"] => (st, showPairs (fcbo st.K))
  | ["fcbodual"] => (st, showPairs (fcboDual st.K))
  | ["fcbostack"] => (st, showPairs (fcboStack st.K))
  | ["fcbodualstack"] => (st, showPairs (fcboDualStack st.K))
  | ["iterconcepts"] => (st, showPairs (iterconcepts st.K))
  | ["getconcepts"] => (st, showPairs (getConcepts st.K))
  | ["getitem", os, ps, items] =>
    (st, match ctxGetitem st.K (parseList os) (parseList ps) (parseList items) with
         | .ok (e, i) => s!"{e} {i}"
         | .error e => e.name)
  | ["lgetitem", os, ps, items] =>
    let (st, L) := getLattice st
    (st, match latticeGetitem st.K L (parseList os) (parseList ps) (parseList items) with
         | .ok k => toString k
         | .error e => e.name)
  | ["lookupo", a] => let (st, L) := getLattice st; (st, showOpt (lookupObjects st.K L (nat! a)))
  | ["lookupp", b] => let (st, L) := getLattice st; (st, showOpt (lookupProperties st.K L (nat! b)))
  | ["join", cs] => let (st, L) := getLattice st; (st, showOpt (latticeJoin st.K L (parseNatList cs)))
  | ["meet", cs] => let (st, L) := getLattice st; (st, showOpt (latticeMeet st.K L (parseNatList cs)))
  | ["cjoin", a, b] => let (st, L) := getLattice st; (st, showOpt (conceptJoin st.K L (nat! a) (nat! b)))
  | ["cmeet", a, b] => let (st, L) := getLattice st; (st, showOpt (conceptMeet st.K L (nat! a) (nat! b)))
  | ["upset", cs] => let (st, L) := getLattice st; (st, showList (upsetUnion L (parseNatList cs)))
  | ["downset", cs] => let (st, L) := getLattice st; (st, showList (downsetUnion L (parseNatList cs)))
  | ["attrs", k] =>
    let (st, L) := getLattice st
    match L[nat! k]? with
    | some c => (st, showList (minimize st.K c.extent c.intent))
    | none => (st, "IndexError")
  | ["minimize", e, i] => (st, showList (minimize st.K (nat! e) (nat! i)))
  | ["powerset", w, s] => (st, showList (powersetShortlex (nat! w) (nat! s)))
  | ["relations", u] =>
    (st, let l := relations pinnedTable st.K (u == "1")
         if l.isEmpty then "-" else " ".intercalate (l.map fun r =>
           s!"{r.kind}:{r.left}:{match r.right with | some x => toString x | none => "-"}:{r.order}"))
  | ["relstr", u, ex, names] =>
    let nm := strListOfHex names
    (st, hexOfStr (relationsToString pinnedTable st.K (fun p => nm.getD p []) (u == "1") (ex == "1")))
  | ["cminimal", k] =>
    let (st, L) := getLattice st
    (st, match conceptMinimal st.K L (nat! k) with | some b => toString b | none => "None")
  | ["dot"] => let (st, L) := getLattice st
               (st, " ".intercalate ((dotItems L).map showDot))
  | ["tolist"] => let (st, L) := getLattice st
                  (st, ";".intercalate ((toStored st.K L).map fun s =>
                    s!"{showList s.extent} {showList s.intent} {showList s.upper} {showList s.lower}"))
  | "fromlist" :: raw :: rest =>
    (st, showLattice (fromStored st.K (parseStored (" ".intercalate rest)) (raw == "1")))
  | ["pred", name, x, y, t] =>
    match predByName name with
    | some f => (st, if f (nat! x) (nat! y) (nat! t) then "1" else "0")
    | none => (st, "bad-pred")
  | ["keys", w, s] => (st, s!"{shortlexKey (nat! w) (nat! s)} {longlexKey (nat! w) (nat! s)} {reinv (nat! w) (nat! s)} {card (nat! w) (nat! s)}")
  | ["members", w, s] => (st, showList (membersW (nat! w) (nat! s)))
  | ["ofmembers", l] => (st, toString (ofMembers (parseNatList l)))
  | ["sortsl", w, l] => (st, showList (sortStable (shortlexKey (nat! w)) (parseNatList l)))
  | ["sortll", w, l] => (st, showList (sortStable (longlexKey (nat! w)) (parseNatList l)))
  | ["mincovers", w, e, l] =>
    let e := nat! e
    let above := (parseNatList l).filter fun d => d != e && (e &&& d == e)
    let mins := above.filter fun d => !(above.any fun x => x != d && (x &&& d == x))
    (st, showList (sortStable (shortlexKey (nat! w)) mins.eraseDups))
  | ["labels", e] => (st, s!"{showList (objectLabels st.K (nat! e))} {showList (propertyLabels st.K (nat! e))}")
  | ["tz", b] => (st, toString (tz (nat! b)))
  -- Definition world
  | ["dnew", s, os, ps, bs] =>
    match Defn.ofTriple (parseList os) (parseList ps) (parseBools bs) with
    | .ok d => (setDef st (nat! s) d, "ok " ++ showDefn d)
    | .error e => (st, e.name)
  | "dop" :: s :: rest =>
    match parseOp st rest with
    | none => (st, "bad-op")
    | some op =>
      let d := getDef st (nat! s)
      match d.step op with
      | .ok (d', ret) => (setDef st (nat! s) d', s!"ok {if ret.isEmpty then "-" else ",".intercalate ret} {showDefn d'}")
      | .error e => (st, e.name ++ " " ++ showDefn d)
  | ["dget", s] => (st, showDefn (getDef st (nat! s)))
  | ["dconflicts", s, u] =>
    let l := (getDef st (nat! s)).conflictList (getDef st (nat! u))
    (st, if l.isEmpty then "-" else " ".intercalate (l.map fun (o, p) => s!"{o}:{p}"))
  | ["dshape", s] => let d := getDef st (nat! s); (st, s!"{d.shape.1} {d.shape.2} {d.fillCount}")
  | ["dgetitem", s, o, p] =>
    match (getDef st (nat! s)).getItem o p with
    | .ok b => (st, if b then "1" else "0")
    | .error e => (st, e.name)
  | ["dcopy", s, t] => let d := (getDef st (nat! s)).copy; (setDef st (nat! t) d, "ok " ++ showDefn d)
  | ["dinverted", s, t] => let d := (getDef st (nat! s)).inverted; (setDef st (nat! t) d, "ok " ++ showDefn d)
  | ["dtransposed", s, t] => let d := (getDef st (nat! s)).transposed; (setDef st (nat! t) d, "ok " ++ showDefn d)
  | ["dunion", s, u, ig, t] =>
    match (getDef st (nat! s)).union (getDef st (nat! u)) (ig == "1") with
    | .ok d => (setDef st (nat! t) d, "ok " ++ showDefn d)
    | .error e => (st, e.name)
  | ["dinter", s, u, ig, t] =>
    match (getDef st (nat! s)).intersection (getDef st (nat! u)) (ig == "1") with
    | .ok d => (setDef st (nat! t) d, "ok " ++ showDefn d)
    | .error e => (st, e.name)
  | ["dtake", s, os, ps, ro, t] =>
    match (getDef st (nat! s)).take (optList os) (optList ps) (ro == "1") with
    | .ok d => (setDef st (nat! t) d, "ok " ++ showDefn d)
    | .error (e, names) => (st, e.name ++ " " ++ (if names.isEmpty then "-" else ",".intercalate names))
  | ["deqv", s, t] => (st, if (getDef st (nat! s)).eqv (getDef st (nat! t)) then "1" else "0")
  | ["dctx", s] =>
    let d := getDef st (nat! s)
    match ctxOfTriple d.objs d.props d.bools with
    | .ok K => ({ st with K := K, L := none }, s!"ok {K.n} {K.m} {showList K.rows.toList}")
    | .error e => (st, e.name)
  -- validation
  | ["overlap", os, ps] =>
    (st, let l := overlapNames (parseList os) (parseList ps); if l.isEmpty then "-" else ",".intercalate l)
  | ["ctor", os, ps, lens] =>
    (st, if ctorAccepts (parseList os) (parseList ps) (parseNatList lens) then "ok" else "ValueError")
  | ["fromdict", req, os, ps, rows, lat] =>
    let lattice := match lat with
      | "absent" => SLattice.absent | "none" => SLattice.none | "empty" => SLattice.empty | _ => SLattice.present
    match fromdictCheck ⟨parseSNames os, parseSNames ps, parseRows rows, lattice⟩ (req == "1") with
    | .ok (o, p, b) => (st, s!"ok {",".intercalate o}|{",".intercalate p}|{"/".intercalate (b.map fun row => String.ofList (row.map fun x => if x then '1' else '0'))}")
    | .error e => (st, e.name)
  -- formats
  | "fmt" :: rest => (st, fmtRequest rest)
  | "lit" :: rest => (st, litRequest rest)
  | _ => (st, "bad-request")

partial def loop (h : IO.FS.Stream) (out : IO.FS.Stream) (st : St) : IO Unit := do
  let line ← h.getLine
  if line.isEmpty then return ()
  let line := String.ofList ((line.toList.reverse.dropWhile (fun c => c == '\n' || c == '\r')).reverse)
  let (st', ans) := step st line
  out.putStrLn ans
  out.flush
  loop h out st'

def main : IO Unit := do
  loop (← IO.getStdin) (← IO.getStdout) {}
