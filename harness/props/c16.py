"""C16 - relations() classifies each pair of contingent properties once and correctly."""
from core import guard
from props import lat
import gen


def view(pc, rels):
    out = []
    for r in rels:
        right = getattr(r, 'right', '')
        if r.left not in pc.ppos:
            from core import Disagreement
            raise Disagreement('relations() names %r, which is not a property of the context' % (r.left,))
        out.append('%s:%d:%s:%d' % (r.kind, pc.ppos[r.left], pc.ppos[right] if right in pc.ppos else '-', r.order))
    return ' '.join(out) if out else '-'


def render(pc, items, exclude_orthogonal):
    """The documented rendering, from the model's entries."""
    rows = []
    for it in items:
        kind, l, r, _ = it.split(':')
        rows.append((pc.properties[int(l)], kind, pc.properties[int(r)] if r != '-' else ''))
    width = max([len(l) for l, _, _ in rows], default=0)
    if exclude_orthogonal:
        rows = [x for x in rows if x[1] != 'orthogonal']
    return '\n'.join('%-*s %-12s %s' % (width, l, k, r) for l, k, r in rows)


def run(run):
    run.rule = ('contexts: exhaustive tables up to 4x3 / 3x4 cells and the shared stream (notably 0 or 1 contingent property, only '
                'orthogonal pairs, equal and complementary columns); relations() and relations(include_unary=True) as '
                '(kind, left, right, order) sequences, str() and tostring() text or exception')
    d = run.driver
    for tab, pc in lat.contexts(run, exh_quick=10, rand_quick=400, wide_quick=20, exh_thorough=13, nmax=8, mmax=7):
        if pc.m > 14:
            continue
        extra = {'objects': pc.objects, 'properties': pc.properties, 'bools': pc.bools}
        nt = gen.nontrivial(tab)
        for unary in (False, True):
            r = 'relations %d' % unary
            ans = d.ask(r)
            with guard(run, 'relations(include_unary=%r)' % unary, [pc.line, r], ans):
                rels = pc.ctx.relations(include_unary=unary)
                got = view(pc, rels)
            run.case(pc.line + '|' + r, nt, {'context': pc.line, 'relations': got[:200]})
            if got != ans:
                run.fail('relations(include_unary=%r)' % unary, got, ans, [pc.line, r], extra)
            items = [] if ans == '-' else ans.split(' ')
            with guard(run, 'str(relations(include_unary=%r))' % unary, [pc.line, r], 'defined'):
                s1 = str(rels)
                s2 = rels.tostring()
            from props.c12 import hexs, hexl, unhex
            r1 = 'relstr %d 1 %s' % (unary, hexl(pc.properties))
            r2 = 'relstr %d 0 %s' % (unary, hexl(pc.properties))
            m1, m2 = (unhex(x) for x in d.ask_many([r1, r2]))
            if s1 != m1 or s1 != render(pc, items, True):
                run.fail('str(relations(include_unary=%r))' % unary, s1, m1, [pc.line, r1], extra)
            if s2 != m2 or s2 != render(pc, items, False):
                run.fail('relations(include_unary=%r).tostring()' % unary, s2, m2, [pc.line, r2], extra)
            with guard(run, 'relations(include_unary=%r) again after the caller emptied the first result' % unary, [pc.line, r], ans):
                del rels[:]
                again = view(pc, pc.ctx.relations(include_unary=unary))
            if again != ans:
                run.fail('relations(include_unary=%r) after the caller emptied an earlier result' % unary, again, ans, [pc.line, r], extra)
            if not items:
                run.count('empty results')
            # a second context with the same table and other property labels (statements are about labels)
            if unary is False and run.evaluations % 3 == 0:
                from concepts import Context
                alt = ['q%d' % ((j * 31 + 5) % 211) for j in range(pc.m)]
                # labels that are awkward for a renderer / dispatcher: empty, percent signs, blanks
                for j, awkward in zip(run.rng.sample(range(pc.m), min(pc.m, 4)), ['%s', '', '5% off', '%(x)d %%']):
                    alt[j] = awkward
                with guard(run, 'relations() of a relabelled copy', [pc.line, r], ans):
                    twin = Context(pc.objects, alt, pc.bools)
                    rt = twin.relations()
                    pos = {p: j for j, p in enumerate(alt)}
                    for x in rt:
                        if x.left not in pos or (x.right != '' and x.right not in pos):
                            run.fail('relations() of a relabelled copy names a property that is not in the context',
                                     [x.kind, x.left, x.right], ans, [pc.line, r], dict(extra, labels=alt))
                    got_t = ' '.join('%s:%d:%s:%d' % (x.kind, pos[x.left], pos[x.right] if x.right in pos else '-', x.order) for x in rt) or '-'
                    text_t = str(rt)
                if got_t != ans:
                    run.fail('relations() of a context with the same table and other property labels', got_t, ans, [pc.line, r], dict(extra, labels=alt))
                want_text = render(type('T', (), {'properties': alt})(), items, True)
                if text_t != want_text:
                    run.fail('str(relations()) of a relabelled copy', text_t, want_text, [pc.line, r], dict(extra, labels=alt))
        run.count('contexts')
