#!/bin/sh
# development aid: run every seeded change against its property's quick check (private worktree /tmp/mut/dev)
cd /verif
for d in seeded/*/; do
  id=$(basename $d); P=${id%%-*}
  out=$(dev/try2.sh /verif/$d $P 2>&1 | tail -1)
  echo "$id :: $out"
done
