import FCA.Model.Lattice
import FCA.Proofs.Members
import FCA.Proofs.OrderSpec
/-
`bitsets.combos.shortlex` (breadth-first queue of unions) enumerates the subsets level by level:
level `k` lists the `k`-subsets in lexicographic order.  `outs k cur atoms` is the closed form of
one level; `powersetShortlex_eq` shows that the queue (with the fuel of the model) produces exactly
the concatenation of the levels.
-/
namespace FCA

/-! ### one step of the queue -/

/-- values yielded while processing one queue entry -/
def slYs (e : Nat × List Nat) : List Nat := (shortlexQueue.inner e.1 e.2).1
/-- entries appended to the queue while processing one queue entry -/
def slQs (e : Nat × List Nat) : List (Nat × List Nat) := (shortlexQueue.inner e.1 e.2).2

@[simp] theorem slYs_nil (c : Nat) : slYs (c, []) = [] := by simp [slYs, shortlexQueue.inner]
@[simp] theorem slQs_nil (c : Nat) : slQs (c, []) = [] := by simp [slQs, shortlexQueue.inner]
theorem slYs_cons (c a : Nat) (rest : List Nat) :
    slYs (c, a :: rest) = (c ||| a) :: slYs (c, rest) := by
  simp [slYs, shortlexQueue.inner]
theorem slQs_cons (c a : Nat) (rest : List Nat) :
    slQs (c, a :: rest) = if rest.isEmpty then slQs (c, rest) else (c ||| a, rest) :: slQs (c, rest) := by
  simp [slQs, shortlexQueue.inner]

@[simp] theorem shortlexQueue_nil (fuel : Nat) : shortlexQueue fuel [] = [] := by
  cases fuel <;> simp [shortlexQueue]

theorem shortlexQueue_cons (fuel : Nat) (e : Nat × List Nat) (Q : List (Nat × List Nat)) :
    shortlexQueue (fuel + 1) (e :: Q) = slYs e ++ shortlexQueue fuel (Q ++ slQs e) := by
  obtain ⟨c, l⟩ := e
  rw [shortlexQueue]
  simp [slYs, slQs]

/-- processing a whole prefix `Q` of the queue: its yields, then the rest followed by its children -/
theorem shortlexQueue_level (Q R : List (Nat × List Nat)) (fuel : Nat) :
    shortlexQueue (fuel + Q.length) (Q ++ R) =
      Q.flatMap slYs ++ shortlexQueue fuel (R ++ Q.flatMap slQs) := by
  induction Q generalizing R with
  | nil => simp
  | cons e Q ih =>
    rw [List.length_cons, ← Nat.add_assoc, List.cons_append, shortlexQueue_cons,
      List.append_assoc, ih]
    simp [List.append_assoc]

/-! ### fuel -/

/-- number of queue pops an entry can cause (itself and all its descendants), upper bound -/
def qCost (Q : List (Nat × List Nat)) : Nat := (Q.map (fun e => 2 ^ e.2.length)).sum

@[simp] theorem qCost_nil : qCost [] = 0 := rfl
@[simp] theorem qCost_cons (e : Nat × List Nat) (Q : List (Nat × List Nat)) :
    qCost (e :: Q) = 2 ^ e.2.length + qCost Q := by simp [qCost]
@[simp] theorem qCost_append (Q R : List (Nat × List Nat)) : qCost (Q ++ R) = qCost Q + qCost R := by
  simp [qCost]

theorem qCost_slQs (c : Nat) (l : List Nat) : qCost (slQs (c, l)) + 1 ≤ 2 ^ l.length := by
  induction l with
  | nil => simp
  | cons a rest ih =>
    rw [slQs_cons]
    split
    · rw [List.length_cons, pow_succ]; omega
    · rw [qCost_cons, List.length_cons, pow_succ]; simp only; omega

theorem qCost_flatMap (Q : List (Nat × List Nat)) : qCost (Q.flatMap slQs) + Q.length ≤ qCost Q := by
  induction Q with
  | nil => simp
  | cons e Q ih =>
    obtain ⟨c, l⟩ := e
    have := qCost_slQs c l
    rw [List.flatMap_cons, qCost_append, qCost_cons, List.length_cons]
    simp only; omega

theorem slQs_length_lt (c : Nat) (l : List Nat) : ∀ e ∈ slQs (c, l), e.2.length < l.length := by
  induction l with
  | nil => simp
  | cons a rest ih =>
    intro e he
    rw [slQs_cons] at he
    split at he
    · have := ih e he; simp; omega
    · rcases List.mem_cons.mp he with rfl | he
      · simp
      · have := ih e he; simp; omega

/-! ### closed form of one level -/

/-- unions of `cur` with `k` of the atoms, lexicographically (earlier atoms first) -/
def outs : Nat → Nat → List Nat → List Nat
  | 0, cur, _ => [cur]
  | _+1, _, [] => []
  | k+1, cur, a :: rest => outs k (cur ||| a) rest ++ outs (k+1) cur rest

@[simp] theorem outs_zero (c : Nat) (l : List Nat) : outs 0 c l = [c] := by
  cases l <;> rfl
@[simp] theorem outs_succ_nil (k c : Nat) : outs (k+1) c [] = [] := rfl
theorem outs_succ_cons (k c a : Nat) (rest : List Nat) :
    outs (k+1) c (a :: rest) = outs k (c ||| a) rest ++ outs (k+1) c rest := rfl

theorem slYs_eq_outs (c : Nat) (l : List Nat) : slYs (c, l) = outs 1 c l := by
  induction l with
  | nil => simp
  | cons a rest ih => rw [slYs_cons, ih, outs_succ_cons, outs_zero]; rfl

theorem flatMap_slQs_outs (k c : Nat) (l : List Nat) :
    (slQs (c, l)).flatMap (fun e => outs (k+1) e.1 e.2) = outs (k+2) c l := by
  induction l with
  | nil => simp
  | cons a rest ih =>
    rw [slQs_cons, outs_succ_cons]
    split
    · rename_i h
      have : rest = [] := List.isEmpty_iff.mp h
      subst this
      simp
    · rw [List.flatMap_cons, ih]

/-- the queue yields level after level -/
theorem shortlexQueue_eq (D : Nat) : ∀ (fuel : Nat) (Q : List (Nat × List Nat)),
    (∀ e ∈ Q, e.2.length ≤ D) → qCost Q ≤ fuel →
    shortlexQueue fuel Q =
      (List.range D).flatMap (fun d => Q.flatMap (fun e => outs (d+1) e.1 e.2)) := by
  induction D with
  | zero =>
    intro fuel Q hD hf
    have hlen := qCost_flatMap Q
    obtain ⟨f', rfl⟩ : ∃ f', fuel = f' + Q.length := ⟨fuel - Q.length, by omega⟩
    have h := shortlexQueue_level Q [] f'
    rw [List.append_nil] at h
    rw [h]
    have hnil : ∀ e ∈ Q, e.2 = [] := fun e he => List.length_eq_zero_iff.mp (by have := hD e he; omega)
    have h1 : Q.flatMap slYs = [] := by
      rw [List.flatMap_eq_nil_iff]; intro e he
      obtain ⟨c, l⟩ := e; have := hnil _ he; simp only at this; subst this; simp
    have h2 : Q.flatMap slQs = [] := by
      rw [List.flatMap_eq_nil_iff]; intro e he
      obtain ⟨c, l⟩ := e; have := hnil _ he; simp only at this; subst this; simp
    simp [h1, h2]
  | succ D ih =>
    intro fuel Q hD hf
    have hlen := qCost_flatMap Q
    obtain ⟨f', rfl⟩ : ∃ f', fuel = f' + Q.length := ⟨fuel - Q.length, by omega⟩
    have h := shortlexQueue_level Q [] f'
    rw [List.append_nil] at h
    rw [h, List.nil_append]
    rw [ih f' (Q.flatMap slQs) ?_ (by omega)]
    · rw [List.range_succ_eq_map, List.flatMap_cons, List.flatMap_map]
      congr 1
      · apply List.flatMap_congr; intro e _; obtain ⟨c, l⟩ := e; exact slYs_eq_outs c l
      · apply List.flatMap_congr; intro d _
        rw [List.flatMap_assoc]
        apply List.flatMap_congr; intro e _; obtain ⟨c, l⟩ := e
        exact flatMap_slQs_outs d c l
    · intro e he
      obtain ⟨e0, he0, he⟩ := List.mem_flatMap.mp he
      obtain ⟨c, l⟩ := e0
      have := slQs_length_lt c l e he
      have := hD _ he0
      simp only at this; omega

/-- `intent.powerset()` is the concatenation of the levels `0 .. n` -/
theorem powersetShortlex_eq (w intent : Nat) :
    powersetShortlex w intent =
      (List.range ((membersW w intent).length + 1)).flatMap
        (fun k => outs k 0 ((membersW w intent).map (2 ^ ·))) := by
  unfold powersetShortlex
  simp only
  rw [shortlexQueue_eq ((membersW w intent).length)]
  · rw [List.range_succ_eq_map (n := (membersW w intent).length), List.flatMap_cons, List.flatMap_map]
    simp
  · simp
  · simp

/-! ### what a level contains -/

theorem mem_outs {k c x : Nat} {l : List Nat} :
    x ∈ outs k c l ↔ ∃ S : List Nat, S.Sublist l ∧ S.length = k ∧ x = S.foldl (· ||| ·) c := by
  induction l generalizing k c with
  | nil =>
    cases k with
    | zero => simp
    | succ k =>
      simp only [outs_succ_nil, List.not_mem_nil, List.sublist_nil, false_iff]
      rintro ⟨S, rfl, h, _⟩; simp at h
  | cons a rest ih =>
    cases k with
    | zero =>
      simp only [outs_zero, List.mem_singleton]
      constructor
      · rintro rfl; exact ⟨[], by simp, rfl, rfl⟩
      · rintro ⟨S, _, h, rfl⟩
        have : S = [] := List.length_eq_zero_iff.mp h
        subst this; rfl
    | succ k =>
      rw [outs_succ_cons, List.mem_append, ih, ih]
      constructor
      · rintro (⟨S, hs, hl, rfl⟩ | ⟨S, hs, hl, rfl⟩)
        · exact ⟨a :: S, hs.cons_cons a, by simp [hl], rfl⟩
        · exact ⟨S, hs.cons a, hl, rfl⟩
      · rintro ⟨S, hs, hl, rfl⟩
        rcases List.sublist_cons_iff.mp hs with hs | ⟨r, rfl, hr⟩
        · exact Or.inr ⟨S, hs, hl, rfl⟩
        · exact Or.inl ⟨r, hr, by simpa using hl, rfl⟩

theorem mem_foldl_map_pow (S : List Nat) (c i : Nat) :
    i ∈ᵇ (S.map (2 ^ ·)).foldl (· ||| ·) c ↔ i ∈ᵇ c ∨ i ∈ S := by
  induction S generalizing c with
  | nil => simp
  | cons a S ih =>
    rw [List.map_cons, List.foldl_cons, ih, mem_or, mem_pow, List.mem_cons]
    tauto

theorem mem_outs_idx {k c x : Nat} {idx : List Nat} :
    x ∈ outs k c (idx.map (2 ^ ·)) ↔
      ∃ S : List Nat, S.Sublist idx ∧ S.length = k ∧ ∀ i, i ∈ᵇ x ↔ i ∈ᵇ c ∨ i ∈ S := by
  rw [mem_outs]
  constructor
  · rintro ⟨S, hs, hl, rfl⟩
    obtain ⟨S', hs', rfl⟩ := List.sublist_map_iff.mp hs
    exact ⟨S', hs', by simpa using hl, fun i => mem_foldl_map_pow S' c i⟩
  · rintro ⟨S, hs, hl, hx⟩
    refine ⟨S.map (2 ^ ·), hs.map _, by simpa using hl, ?_⟩
    apply ext; intro i; rw [hx, mem_foldl_map_pow]

/-! ### order inside a level -/

/-- lexicographic order of masks by member position: the first position where they differ belongs to `a` -/
def lexLt (a b : Nat) : Prop := ∃ i, i ∈ᵇ a ∧ ¬ i ∈ᵇ b ∧ ∀ k < i, (k ∈ᵇ a ↔ k ∈ᵇ b)

theorem outs_pairwise (idx : List Nat) : ∀ (k c : Nat), idx.Pairwise (· < ·) → (∀ i ∈ idx, ¬ i ∈ᵇ c) →
    (outs k c (idx.map (2 ^ ·))).Pairwise lexLt := by
  induction idx with
  | nil => intro k c _ _; cases k <;> simp
  | cons a rest ih =>
    intro k c hp hc
    cases k with
    | zero => simp
    | succ k =>
      rw [List.pairwise_cons] at hp
      obtain ⟨ha, hp⟩ := hp
      have hac : ¬ a ∈ᵇ c := hc a (by simp)
      rw [List.map_cons, outs_succ_cons, List.pairwise_append]
      refine ⟨ih _ _ hp ?_, ih _ _ hp (fun i hi => hc i (by simp [hi])), ?_⟩
      · intro i hi
        rw [mem_or, mem_pow]
        have := ha i hi
        have := hc i (by simp [hi])
        rintro (h | h)
        · contradiction
        · omega
      · intro x hx y hy
        obtain ⟨S1, hs1, _, hx⟩ := mem_outs_idx.mp hx
        obtain ⟨S2, hs2, _, hy⟩ := mem_outs_idx.mp hy
        refine ⟨a, ?_, ?_, ?_⟩
        · rw [hx]; simp
        · rw [hy]; rintro (h | h)
          · exact hac h
          · have := ha a (hs2.subset h); omega
        · intro j hj
          rw [hx, hy, mem_or, mem_pow]
          constructor
          · rintro ((h | h) | h)
            · exact Or.inl h
            · omega
            · have := ha j (hs1.subset h); omega
          · rintro (h | h)
            · exact Or.inl (Or.inl h)
            · have := ha j (hs2.subset h); omega

/-- short-lexicographic order on masks of width `w`: size first, then position -/

theorem shortlexLt_irrefl (w a : Nat) : ¬ shortlexLt w a a := by
  rintro (h | ⟨_, i, h1, h2, _⟩)
  · omega
  · exact h2 h1

/-- members of level `k` have `k` members -/
theorem card_of_mem_outs {w k x : Nat} {idx : List Nat} (hnd : idx.Nodup) (hlt : ∀ i ∈ idx, i < w)
    (hx : x ∈ outs k 0 (idx.map (2 ^ ·))) : card w x = k := by
  obtain ⟨S, hs, hl, hm⟩ := mem_outs_idx.mp hx
  rw [← hl]
  apply card_eq_length (hs.nodup hnd) (fun i hi => hlt i (hs.subset hi))
  intro i; rw [hm]; simp

/-! ### the three facts about `powersetShortlex` -/

theorem powersetShortlex_mem {w intent b : Nat} (hb : Bounded w intent) :
    b ∈ powersetShortlex w intent ↔ b ⊆ᵇ intent := by
  rw [powersetShortlex_eq, List.mem_flatMap]
  constructor
  · rintro ⟨k, _, hk⟩
    obtain ⟨S, hs, _, hm⟩ := mem_outs_idx.mp hk
    intro i hi
    rcases (hm i).mp hi with h | h
    · exact absurd h not_mem_zero
    · exact (mem_membersW.mp (hs.subset h)).2
  · intro hsub
    have hsl := card_membersW_sub (w := w) hsub
    refine ⟨(membersW w b).length, ?_, ?_⟩
    · rw [List.mem_range]
      have := hsl.length_le
      omega
    · rw [mem_outs_idx]
      refine ⟨membersW w b, hsl, rfl, fun i => ?_⟩
      rw [mem_membersW]
      constructor
      · intro hi; exact Or.inr ⟨hb i (hsub i hi), hi⟩
      · rintro (h | h)
        · exact absurd h not_mem_zero
        · exact h.2

theorem powersetShortlex_sorted (w intent : Nat) :
    (powersetShortlex w intent).Pairwise (shortlexLt w) := by
  rw [powersetShortlex_eq, List.pairwise_flatMap]
  have hnd := membersW_nodup w intent
  have hlt : ∀ i ∈ membersW w intent, i < w := fun i hi => (mem_membersW.mp hi).1
  constructor
  · intro k _
    have hp := outs_pairwise (membersW w intent) k 0 (membersW_pairwise w intent) (fun _ _ => not_mem_zero)
    refine hp.imp_of_mem ?_
    intro x y hx hy hxy
    right
    exact ⟨by rw [card_of_mem_outs hnd hlt hx, card_of_mem_outs hnd hlt hy], hxy⟩
  · refine List.pairwise_lt_range.imp ?_
    intro k1 k2 hk x hx y hy
    left
    rw [card_of_mem_outs hnd hlt hx, card_of_mem_outs hnd hlt hy]
    exact hk

theorem powersetShortlex_nodup (w intent : Nat) : (powersetShortlex w intent).Nodup :=
  (powersetShortlex_sorted w intent).imp (fun {a b} h hab => by
    subst hab; exact shortlexLt_irrefl w a h)

/-- the enumeration starts with the empty set -/
theorem powersetShortlex_head (w intent : Nat) : (powersetShortlex w intent).head? = some 0 := rfl

end FCA
