import FCA.Proofs.FormatsCsv
/-
`loadCsv` (with sniffing of the symbol set) inverts `dumpCsv` for both symbol sets.
-/
namespace FCA

/-- cell text of a flag for the two csv symbol sets -/
def csym (asInt b : Bool) : Str :=
  if asInt then (if b then ['1'] else ['0']) else (if b then ['X'] else [])

/-- the loader's cell decoding for a symbol set -/
def csvValue (a : Bool) (s : Str) : Option Bool :=
  if a then (if s == ['1'] then some true else if s == ['0'] then some false else none)
  else (if s == ['X'] then some true else if s == [] then some false else none)

theorem dumpCsv_eq (asInt : Bool) (objects properties : List Str) (bools : List (List Bool)) :
    dumpCsv asInt objects properties bools =
      (([] :: properties) ::
        (objects.zip bools).map (fun x => x.1 :: x.2.map (csym asInt))).flatMap csvRow := by
  rw [List.flatMap_cons, List.flatMap_map]
  rfl

theorem csvValue_csym (a b : Bool) : csvValue a (csym a b) = some b := by
  cases a <;> cases b <;> decide

theorem csvValue_row (a : Bool) (row : List Bool) :
    (row.map (csym a)).map (csvValue a) = row.map some := by
  rw [List.map_map]
  apply List.map_congr_left
  intro b _
  exact csvValue_csym a b

/-- what the sniffing of the first data row yields -/
theorem csv_sniff (asInt : Bool) (r1 : List Bool) :
    ∃ a', (if ((r1.map (csym asInt)).all fun s => s == [] || s == ['X']) = true then some false
        else if ((r1.map (csym asInt)).all fun s => s == ['0'] || s == ['1']) = true then some true
        else none) = some a' ∧ (a' = asInt ∨ r1 = []) := by
  cases asInt
  · refine ⟨false, ?_, Or.inl rfl⟩
    rw [if_pos]
    rw [List.all_eq_true]
    intro s hs
    simp only [List.mem_map] at hs
    obtain ⟨b, _, rfl⟩ := hs
    cases b <;> decide
  · cases r1 with
    | nil => exact ⟨false, by simp, Or.inr rfl⟩
    | cons b bs =>
      refine ⟨true, ?_, Or.inl rfl⟩
      rw [if_neg, if_pos]
      · rw [List.all_eq_true]
        intro s hs
        simp only [List.mem_map] at hs
        obtain ⟨b, _, rfl⟩ := hs
        cases b <;> decide
      · rw [List.map_cons, List.all_cons]
        cases b <;> simp [csym]

theorem csv_finish (asInt a' : Bool) (objects properties : List Str) (bools : List (List Bool))
    (hlen : bools.length = objects.length)
    (hval : ∀ row ∈ bools, (row.map (csym asInt)).map (csvValue a') = row.map some) :
    (if (((objects.zip bools).map (fun x => x.1 :: x.2.map (csym asInt))).any fun x => x.isEmpty) = true
      then Except.error Err.valueError
      else
        if ((((objects.zip bools).map (fun x => x.1 :: x.2.map (csym asInt))).map
            fun r => (r.headD [], (r.drop 1).map (csvValue a'))).all
              fun x => x.2.all Option.isSome) = true then
          Except.ok
            ((((objects.zip bools).map (fun x => x.1 :: x.2.map (csym asInt))).map
              fun r => (r.headD [], (r.drop 1).map (csvValue a'))).map (fun x => x.1),
             properties,
             (((objects.zip bools).map (fun x => x.1 :: x.2.map (csym asInt))).map
              fun r => (r.headD [], (r.drop 1).map (csvValue a'))).map
                (fun x => x.2.map (fun x => x.getD false)))
        else Except.error Err.keyError) = Except.ok (objects, properties, bools) := by
  have hparsed : (((objects.zip bools).map (fun x => x.1 :: x.2.map (csym asInt))).map
      fun r => (r.headD [], (r.drop 1).map (csvValue a'))) =
      (objects.zip bools).map (fun x => (x.1, x.2.map some)) := by
    rw [List.map_map]
    apply List.map_congr_left
    intro x hx
    have := hval x.2 (List.of_mem_zip (a := x.1) (b := x.2) hx).2
    simp [this]
  rw [hparsed]
  have h1 : (((objects.zip bools).map (fun x => x.1 :: x.2.map (csym asInt))).any
      fun x => x.isEmpty) = false := by
    simp [List.any_eq_false]
  have h2 : (((objects.zip bools).map (fun x => (x.1, x.2.map some))).all
      fun x => x.2.all Option.isSome) = true := by
    simp [List.all_eq_true]
  rw [h1, h2]
  simp only [Bool.false_eq_true, if_false, if_true, List.map_map]
  have e1 : (objects.zip bools).map ((fun x : Str × List (Option Bool) => x.1) ∘
      fun x => (x.1, x.2.map some)) = objects := by
    have : ((fun x : Str × List (Option Bool) => x.1) ∘
      fun x : Str × List Bool => (x.1, x.2.map some)) = Prod.fst := rfl
    rw [this, List.map_fst_zip (by omega)]
  have e2 : (objects.zip bools).map ((fun x : Str × List (Option Bool) =>
      x.2.map (fun x => x.getD false)) ∘ fun x => (x.1, x.2.map some)) = bools := by
    have : ((fun x : Str × List (Option Bool) => x.2.map (fun x => x.getD false)) ∘
      fun x : Str × List Bool => (x.1, x.2.map some)) = Prod.snd := by
      funext x; simp [Function.comp_def]
    rw [this, List.map_snd_zip (by omega)]
  rw [e1, e2]

/-- csv round trip for both symbol sets, any labels (empty ones, commas, quotes, line breaks) -/
theorem loadCsv_dumpCsv (asInt : Bool) {objects properties : List Str} {bools : List (List Bool)}
    (hone : objects ≠ []) (hlen : bools.length = objects.length)
    (hrow : ∀ r ∈ bools, r.length = properties.length) :
    loadCsv (dumpCsv asInt objects properties bools) = .ok (objects, properties, bools) := by
  cases objects with
  | nil => contradiction
  | cons o1 os =>
  cases bools with
  | nil => simp at hlen
  | cons r1 rs =>
  have hparse : csvParse (dumpCsv asInt (o1 :: os) properties (r1 :: rs)) =
      some (([] :: properties) :: (o1 :: r1.map (csym asInt)) ::
        (os.zip rs).map (fun x => x.1 :: x.2.map (csym asInt))) := by
    rw [dumpCsv_eq, csvParse_rows]
    · simp
    · intro r hr
      simp only [List.mem_cons, List.mem_map] at hr
      rcases hr with rfl | ⟨x, _, rfl⟩ <;> simp
  obtain ⟨a', hsn, ha'⟩ := csv_sniff asInt r1
  have hval : ∀ row ∈ r1 :: rs, (row.map (csym asInt)).map (csvValue a') = row.map some := by
    intro row hr
    rcases ha' with rfl | rfl
    · exact csvValue_row _ row
    · have h0 : properties.length = 0 := by simpa using (hrow [] (by simp)).symm
      have : row = [] := List.eq_nil_of_length_eq_zero (by rw [hrow row hr, h0])
      subst this; rfl
  unfold loadCsv
  rw [hparse]
  simp only [List.isEmpty_cons, Bool.false_eq_true, if_false, List.drop_succ_cons, List.drop_zero]
  rw [hsn]
  exact csv_finish asInt a' (o1 :: os) properties (r1 :: rs) hlen hval

end FCA
