#!/bin/sh
# Build the Lean model, the proofs and the driver from files on disk (offline).
cd "$(dirname "$0")" || exit 2
/venv/bin/python harness/extract.py || exit 2
cd lean || exit 2
lake build FCA driver 2>&1 | tail -5
test -x .lake/build/bin/driver
