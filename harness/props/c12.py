"""C12 - text formats round-trip every representable context."""
import itertools
import os
import shutil
from core import guard, VERIF, Disagreement
import gen

LINEBREAKS = '\n\r\x0b\x0c\x1c\x1d\x1e\x85  '

WORDS = ['a', 'b1', 'King Arthur', 'X', '.', 'x', '0', '1', '12', 'B', 'é', 'ß-ü', '日本', 'Ωmega', 'tab\there', 'a  b',
         'semi;colon', "quote'", '-', '=', '{|', '|}', '!x', 'a!!b', 'back\\slash', '[list]', '(tuple,)', 'None', 'True',
         ' nbsp in'[1:-3], 'é', '%s', '%(x)s', '{0}', 'a​b']
TABLE_EXTRA = ['a,b', '"q"', 'say "hi"', 'comma, space', "it's"]
CXT_EXTRA = TABLE_EXTRA + ['a|b', '#1', 'p#q', '|', 'X|', 'c#']
LIT_EXTRA = ["'", "both ' and \"", '\\', '\\n', "\\'", '\\x41', '\x00\x01\x1f\x7f', '\x80\x9f\xa0\xad\xff', '\u2028\u2029',
             '\ud7ff\ue000\ufffe', '\U0001f600', '\U000e0001', '\U0010ffff', 'a\u0300', '\u200b', '\ufeff', '\u0378', '\u0660', '{', '}', '(', ')', ':', '[',
             "'''", '"""', '\\"', "\\\\'",
             'a rather long label made of many short words so that a line of the emitted text exceeds a hundred columns by far',
             'x' * 60 + ' ' + 'y' * 60, 'left right ' * 12 + 'end']
CSV_EXTRA = CXT_EXTRA + [' lead', 'trail ', 'line\nbreak', 'cr\rinside', 'crlf\r\nin', '"', '""', ',', ',,', '\ttab', 'a\n', '\n', ' ', 'a\n\nb', 'x\n  \ny', 'a\r\n\r\nb', '\n\n']


def hexs(s):
    return '.'.join('%x' % ord(c) for c in s) if s else '_'


def hexl(l):
    return ','.join(hexs(s) for s in l) if l else '-'


def unhex(h):
    return '' if h == '_' else ''.join(chr(int(t, 16)) for t in h.split('.'))


def bstr(bools):
    return '/'.join(''.join('1' if b else '0' for b in r) if r else '.' for r in bools) if bools else '-'


def parse_triple(ans):
    if not ans.startswith('ok '):
        return ans
    _, o, p, b = ans.split(' ')
    objs = [] if o == '-' else [unhex(x) for x in o.split(',')]
    props = [] if p == '-' else [unhex(x) for x in p.split(',')]
    bools = [] if b == '-' else [tuple(c == '1' for c in r) if r != '.' else () for r in b.split('/')]
    return objs, props, bools


def representable(label, frmat):
    if not label:
        return False
    if frmat in ('csv', 'python-literal'):
        return True
    if label != label.strip() or any(c in LINEBREAKS for c in label):
        return False
    if frmat in ('table', 'wiki-table') and ('|' in label or '#' in label):
        return False
    if frmat == 'wiki-table' and '!' in label:
        return False
    return True


# ---------------------------------------------------------------- independent strict readers

def strict_table(text, indent):
    lines = text.split('\n')
    out = []
    for line in lines:
        if not line.startswith(' ' * indent) or not line.endswith('|'):
            raise ValueError('bad table line %r' % line)
        out.append([c.strip(' ') for c in line[indent:-1].split('|')])
    if out[0][0] != '':
        raise ValueError('header starts with %r' % out[0][0])
    props = out[0][1:]
    objs, bools = [], []
    for cells in out[1:]:
        if len(cells) != len(props) + 1 or any(c not in ('', 'X') for c in cells[1:]):
            raise ValueError('bad row %r' % cells)
        objs.append(cells[0])
        bools.append(tuple(c == 'X' for c in cells[1:]))
    return objs, props, bools


def strict_cxt(text):
    lines = text.split('\n')
    if lines[0] != 'B' or lines[1] != '' or lines[4] != '':
        raise ValueError('bad cxt header')
    n, m = int(lines[2]), int(lines[3])
    objs = lines[5:5 + n]
    props = lines[5 + n:5 + n + m]
    rows = lines[5 + n + m:5 + n + m + n]
    rest = lines[5 + n + m + n:]
    if rest != [''] or len(rows) != n:
        raise ValueError('bad cxt length')
    bools = []
    for r in rows:
        if len(r) != m or any(c not in 'X.' for c in r):
            raise ValueError('bad cxt row %r' % r)
        bools.append(tuple(c == 'X' for c in r))
    return objs, props, bools


def rfc4180(text, delimiter=','):
    """Records of an RFC 4180 document (CRLF terminated, quotes doubled)."""
    rows, row, field, i, n = [], [], '', 0, len(text)
    while i < n:
        if text[i] == '"':
            i += 1
            while True:
                j = text.index('"', i)
                field += text[i:j]
                if text[j + 1:j + 2] == '"':
                    field += '"'
                    i = j + 2
                else:
                    i = j + 1
                    break
            if i < n and text[i] not in (delimiter, '\r'):
                raise ValueError('garbage after quoted field')
        else:
            j = i
            while j < n and text[j] not in (delimiter, '\r', '\n', '"'):
                j += 1
            field += text[i:j]
            i = j
        if i < n and text[i] == delimiter:
            row.append(field)
            field = ''
            i += 1
            if i == n or text[i] == '\r':
                pass
            continue
        if text[i:i + 2] == '\r\n':
            row.append(field)
            rows.append(row)
            row, field = [], ''
            i += 2
            continue
        raise ValueError('unexpected character %r at %d' % (text[i:i + 1], i))
    if row or field:
        raise ValueError('missing final CRLF')
    return rows


def strict_csv(text, as_int, delimiter=','):
    rows = rfc4180(text, delimiter)
    header = rows[0]
    if header[0] != '':
        raise ValueError('object header %r' % header[0])
    props = header[1:]
    t, f = ('1', '0') if as_int else ('X', '')
    objs, bools = [], []
    for r in rows[1:]:
        if len(r) != len(props) + 1 or any(c not in (t, f) for c in r[1:]):
            raise ValueError('bad csv row %r' % r)
        objs.append(r[0])
        bools.append(tuple(c == t for c in r[1:]))
    return objs, props, bools


def strict_wiki(text):
    lines = text.split('\n')
    if lines[0] != '{| class="featuresystem"' or lines[1] != '!' or lines[-1] != '|}' or not lines[2].startswith('!'):
        raise ValueError('bad wiki frame')
    props = lines[2][1:].split('!!')
    body = lines[3:-1]
    if len(body) % 3:
        raise ValueError('bad wiki body')
    objs, bools = [], []
    for k in range(0, len(body), 3):
        if body[k] != '|-' or not body[k + 1].startswith('!') or not body[k + 2].startswith('|'):
            raise ValueError('bad wiki row')
        objs.append(body[k + 1][1:])
        cells = [c.strip(' ') for c in body[k + 2][1:].split('||')]
        if len(cells) != len(props) or any(c not in ('', 'X') for c in cells):
            raise ValueError('bad wiki cells %r' % cells)
        bools.append(tuple(c == 'X' for c in cells))
    return objs, props, bools


def csv_variant(rng, objs, props, bools, as_int):
    """Text of the same table as another RFC-4180 writer (or a sloppy hand) would produce it.
    Returns (text, valid) - valid variants must load as the same context."""
    t, f = ('1', '0') if as_int else ('X', '')
    rows = [[''] + list(props)] + [[o] + [t if b else f for b in r] for o, r in zip(objs, bools)]
    style = rng.randrange(7)
    def field(s, force):
        if force or any(c in s for c in ',"\r\n'):
            return '"' + s.replace('"', '""') + '"'
        return s
    eol = '\n' if style in (1, 2) else '\r\n'
    force_all = style in (0, 2)
    lines = [','.join(field(x, force_all or rng.random() < .3) for x in r) for r in rows]
    text = eol.join(lines) + eol
    valid = True
    if style == 3:
        text = text[:-len(eol)]                      # no terminator after the last record
    elif style == 4:
        k = rng.randrange(len(lines) + 1)
        text = eol.join(lines[:k] + [''] + lines[k:]) + eol   # a blank line somewhere
        valid = False
    elif style == 5:
        text = text + eol                            # trailing blank line
        valid = False
    elif style == 6 and not any(c in ''.join(objs + props) for c in ',"\r\n'):
        text = text.replace(',', '\r', 1) if rng.random() < .5 else 'a\rb' + text   # bare CR outside quotes
        valid = False
    return text, valid


def table_variant(rng, text):
    """A hand-style rewriting of a canonical table that denotes the same context."""
    lines = text.split('\n')
    out = []
    if rng.random() < .5:
        out.append('# a comment line')
    for k, line in enumerate(lines):
        cells = line.strip().split('|')
        assert cells[-1] == ''
        cells = cells[:-1]
        new = []
        for j, c in enumerate(cells):
            c = c.strip(' ')
            padl, padr = ' ' * rng.randint(0, 2), ' ' * rng.randint(0, 2)
            if k and j and c == 'X' and rng.random() < .3:
                c = rng.choice(['X', 'x', '*', '1', 'yes'])
            if not c and not (padl + padr):
                padr = ' '
            new.append(padl + c + padr)
        s = ' ' * rng.randint(0, 3) + '|'.join(new) + '|'
        if rng.random() < .3:
            s += '  # trailing comment | with bar'
        out.append(s)
        if rng.random() < .2:
            out.append(rng.choice(['', '   ', '#', '\t']))
    return '\n'.join(out) + rng.choice(['', '\n', '\n\n'])


def run(run):
    import concepts
    from concepts import Context, Definition
    run.rule = ('contexts: every fill pattern of shapes up to 2x3 / 3x2 (quick: sampled) x label draws from alphabets (ASCII words, '
                'punctuation, delimiters of the other formats, digits, X, ., non-ASCII, inner whitespace; for csv also commas, quotes, '
                'line breaks, leading/trailing blanks); per format: text == Lean dumper text, fromstring(tostring) == context (table with '
                'indents 0/3), Lean loader and independent strict reader recover the triple, hand-style table variants load equally in '
                'Python and Lean; files x {utf-8, utf-16, latin-1 where encodable}, load() with mixed-case suffixes, load_cxt, load_csv, '
                'make_context, Definition.fromfile/tostring, csv dialects (excel-tab, semicolon), FIMI rows, concept .dat files')
    run.partial = ['codecs, universal-newline translation, the csv C module, repr/ast.literal_eval are runtime behaviour: executed for '
                   'real; the Lean csv writer/reader is a model of the excel dialect that is differential-tested against them here']
    drv = run.driver
    rng = run.rng
    work = os.path.join(VERIF, '.work', 'c12-%d' % os.getpid())
    os.makedirs(work, exist_ok=True)
    try:
        shapes = [(1, 1), (1, 2), (2, 1), (2, 2), (1, 3), (3, 1), (2, 3), (3, 2)]
        tables = [(n, m, list(rows)) for n, m in shapes for rows in itertools.product(range(1 << m), repeat=n)]
        draws = 2 if run.tier == 'quick' else 12
        if run.tier == 'quick':
            tables = [t for t in tables if t[0] * t[1] <= 4] + rng.sample([t for t in tables if t[0] * t[1] > 4], 120)
        tables += [gen.random_table(rng, rng.randint(1, 6), rng.randint(1, 6), rng.choice((.1, .5, .9))) for _ in range(60 if run.tier == 'quick' else 1500)]
        if run.deadline is not None:
            rng.shuffle(tables)       # under a deadline every kind of table gets its turn
        fileno = 0
        for n, m, rows in tables:
            if not run.time_left():
                run.notes.append('stopped at the deadline')
                break
            bools = [tuple(bool((r >> j) & 1) for j in range(m)) for r in rows]
            for frmat, pool in (('table', WORDS + TABLE_EXTRA), ('cxt', WORDS + CXT_EXTRA), ('csv', WORDS + CSV_EXTRA),
                                ('wiki-table', WORDS + TABLE_EXTRA), ('python-literal', WORDS + CSV_EXTRA + LIT_EXTRA)):
                pool = [w for w in pool if representable(w, frmat)]
                for _ in range(draws):
                    labels = rng.sample(pool, n + m)
                    objs, props = labels[:n], labels[n:]
                    args = '%s %s %s' % (hexl(objs), hexl(props), bstr(bools))
                    extra = {'objects': objs, 'properties': props, 'bools': bools, 'format': frmat}
                    what = 'format %s' % frmat
                    reqs = []
                    with guard(run, lambda: what, lambda: reqs, extra=extra):
                        ctx = Context(objs, props, bools)
                        if frmat == 'table':
                            indent = rng.choice([0, 0, 3, 7])
                            text = ctx.tostring('table', indent=indent) if indent else ctx.tostring()
                            reqs = ['fmt dump table %d %s' % (indent, args), 'fmt load table ' + hexs(text)]
                            mtext, mload = drv.ask_many(reqs)
                            if hexs(text) != mtext:
                                run.fail('table text', text, unhex(mtext), reqs, extra)
                            back = Context.fromstring(text, 'table')
                            strict = strict_table(text, indent)
                            rs = 'fmt strict table %d %s' % (indent, hexs(text))
                            reqs.append(rs)
                            if parse_triple(drv.ask(rs)) != (objs, props, bools):
                                run.fail('Lean strict table reader on the emitted text', drv.ask(rs), [objs, props, bools], reqs, dict(extra, text=text))
                            var = table_variant(rng, text)
                            r3 = 'fmt load table ' + hexs(var)
                            reqs.append(r3)
                            mvar = parse_triple(drv.ask(r3))
                            pvar = Context.fromstring(var)
                            if mvar != (list(pvar.objects), list(pvar.properties), list(pvar.bools)):
                                run.fail('hand-style table variant: Python and Lean loaders disagree', [pvar.objects, pvar.properties, pvar.bools], mvar, reqs, dict(extra, text=var))
                            if pvar != ctx:
                                run.fail('hand-style table variant loads as a different context', [pvar.objects, pvar.properties, pvar.bools], [objs, props, bools], reqs, dict(extra, text=var))
                            if concepts.make_context(text) != ctx:
                                run.fail('make_context(table text)', None, None, reqs, extra)
                        elif frmat == 'cxt':
                            text = ctx.tostring('cxt')
                            reqs = ['fmt dump cxt ' + args, 'fmt load cxt ' + hexs(text)]
                            mtext, mload = drv.ask_many(reqs)
                            if hexs(text) != mtext:
                                run.fail('cxt text', text, unhex(mtext), reqs, extra)
                            back = Context.fromstring(text, 'cxt')
                            strict = strict_cxt(text)
                            rs = 'fmt strict cxt ' + hexs(text)
                            reqs.append(rs)
                            if parse_triple(drv.ask(rs)) != (objs, props, bools):
                                run.fail('Lean strict cxt reader on the emitted text', drv.ask(rs), [objs, props, bools], reqs, dict(extra, text=text))
                        elif frmat == 'csv':
                            as_int = rng.random() < .5
                            text = ctx.tostring('csv', bools_as_int=as_int)
                            reqs = ['fmt dump csv %d %s' % (as_int, args), 'fmt load csv ' + hexs(text)]
                            mtext, mload = drv.ask_many(reqs)
                            if hexs(text) != mtext:
                                run.fail('csv text', text, unhex(mtext), reqs, extra)
                            back = Context.fromstring(text, 'csv')
                            if Context.fromstring(text, 'csv', bools_as_int=as_int) != ctx:
                                run.fail('csv round trip with explicit bools_as_int', None, None, reqs, extra)
                            strict = strict_csv(text, as_int)
                            rs = 'fmt strict csv %d %s' % (as_int, hexs(text))
                            reqs.append(rs)
                            if parse_triple(drv.ask(rs)) != (objs, props, bools):
                                run.fail('Lean strict csv reader on the emitted text', drv.ask(rs), [objs, props, bools], reqs, dict(extra, text=text))
                            for _v in range(2):
                                vtext, valid = csv_variant(rng, objs, props, bools, as_int)
                                rv = 'fmt load csv ' + hexs(vtext)
                                reqs.append(rv)
                                mv = parse_triple(drv.ask(rv))
                                try:
                                    cv = Context.fromstring(vtext, 'csv')
                                    pv = (list(cv.objects), list(cv.properties), list(cv.bools))
                                except Exception as exc:  # noqa: BLE001 - the class is the observable
                                    cv, pv = None, type(exc).__name__
                                if pv != mv:
                                    run.fail('csv text of another writer: Python and Lean loaders disagree', pv, mv, reqs, dict(extra, text=vtext))
                                if valid and cv != ctx:
                                    run.fail('csv text of another RFC 4180 writer loads as a different context', pv, [objs, props, bools], reqs, dict(extra, text=vtext))
                                run.count('csv variant ' + ('valid' if valid else 'invalid'))
                            # other dialects
                            for dialect, delim in (('excel-tab', '\t'),):
                                if any('\t' in l for l in labels):
                                    continue
                                t2 = ctx.tostring('csv', dialect=dialect)
                                if Context.fromstring(t2, 'csv', dialect=dialect) != ctx:
                                    run.fail('csv round trip with dialect %s' % dialect, t2, None, reqs, extra)
                                if strict_csv(t2, False, delim) != (objs, props, bools):
                                    run.fail('csv text with dialect %s is not tab separated' % dialect, t2, None, reqs, extra)
                        elif frmat == 'wiki-table':
                            text = ctx.tostring('wiki-table')
                            reqs = ['fmt dump wiki ' + args]
                            mtext = drv.ask(reqs[0])
                            if hexs(text) != mtext:
                                run.fail('wiki-table text', text, unhex(mtext), reqs, extra)
                            if ctx.tostring('wikitable') != text:
                                run.fail('wikitable alias', None, None, reqs, extra)
                            back, mload = ctx, None
                            strict = strict_wiki(text)
                        else:
                            def tup(t):
                                return '+'.join(map(str, t)) if t else 'e'
                            lat_s = 'none'
                            if rng.random() < .5:
                                lat = ctx.todict()['lattice']
                                lat_s = ';'.join('|'.join(tup(x) for x in e) for e in lat) if lat else '_'
                            text = ctx.tostring('python-literal')
                            if ("'lattice'" in text) != (lat_s != 'none'):
                                run.fail('python-literal: lattice section present iff the lattice was computed', text, lat_s, reqs, extra)
                            printable = sorted({ord(c) for l in labels for c in l if ord(c) >= 0x80 and c.isprintable()})
                            rows_s = ';'.join(tup([j for j, b in enumerate(r) if b]) for r in bools) if bools else '_'
                            reqs = ['lit dump %s %s %s %s %s' % (','.join(map(str, printable)) or '-', hexl(objs), hexl(props), rows_s, lat_s),
                                    'lit load ' + hexs(text + '\n')]
                            mtext, mback = drv.ask_many(reqs)
                            if hexs(text + '\n') != mtext:
                                run.fail('python-literal text', text + '\n', unhex(mtext), reqs, extra)
                            want_back = 'ok %s %s %s %s' % (hexl(objs), hexl(props), rows_s, lat_s)
                            if mback != want_back:
                                run.fail('Lean python-literal reader on the emitted text', mback, want_back, reqs, dict(extra, text=text))
                            back, mload, strict = Context.fromstring(text, 'python-literal'), None, None
                            if (lat_s != 'none') != ("'lattice'" in back.tostring('python-literal')):
                                run.fail('python-literal: the stored lattice is loaded iff it was written', None, None, reqs, extra)
                            if lat_s != 'none' and back.todict()['lattice'] != ctx.todict()['lattice']:
                                run.fail('python-literal: reloaded lattice', back.todict()['lattice'], ctx.todict()['lattice'], reqs, extra)
                        if back != ctx or not (back == ctx):
                            run.fail('fromstring(tostring(%s)) != context' % frmat, [back.objects, back.properties, back.bools], [objs, props, bools], reqs, dict(extra, text=text))
                        if mload is not None and parse_triple(mload) != (objs, props, bools):
                            run.fail('Lean %s loader on the emitted text' % frmat, parse_triple(mload), [objs, props, bools], reqs, dict(extra, text=text))
                        if strict is not None and (list(strict[0]), list(strict[1]), list(strict[2])) != (objs, props, bools):
                            run.fail('independent strict %s reader on the emitted text' % frmat, strict, [objs, props, bools], reqs, dict(extra, text=text))
                        # files
                        fileno += 1
                        if fileno % (6 if run.tier == 'quick' else 3) == 0 and frmat != 'wiki-table':
                            suffix = {'table': '.txt', 'cxt': '.cxt', 'csv': '.csv', 'python-literal': '.py'}[frmat]
                            for enc in ('utf-8', 'utf-16', 'latin-1'):
                                try:
                                    ''.join(labels).encode(enc)
                                except UnicodeEncodeError:
                                    continue
                                sfx = rng.choice([suffix, suffix.upper(), suffix.capitalize()])
                                path = os.path.join(work, 'f%d%s' % (fileno, sfx))
                                ctx.tofile(path, frmat=frmat, encoding=enc)
                                if Context.fromfile(path, frmat=frmat, encoding=enc) != ctx:
                                    run.fail('fromfile(tofile(%s, %s))' % (frmat, enc), None, None, reqs, extra)
                                if concepts.load(path, encoding=enc) != ctx:
                                    run.fail('load() with suffix %r (%s)' % (sfx, enc), None, None, reqs, extra)
                                if frmat == 'cxt' and concepts.load_cxt(path, encoding=enc) != ctx:
                                    run.fail('load_cxt (%s)' % enc, None, None, reqs, extra)
                                if frmat == 'csv' and concepts.load_csv(path, encoding=enc) != ctx:
                                    run.fail('load_csv (%s)' % enc, None, None, reqs, extra)
                                if frmat in ('table', 'cxt', 'csv'):
                                    dfn = Definition.fromfile(path, frmat=frmat, encoding=enc)
                                    if dfn != ctx.definition() or dfn.tostring(frmat) != ctx.tostring(frmat):
                                        run.fail('Definition.fromfile/tostring (%s, %s)' % (frmat, enc), None, None, reqs, extra)
                                os.unlink(path)
                                run.count('file ' + enc)
                    run.case('%s|%s' % (frmat, args), n * m > 1, {'format': frmat, 'objects': objs, 'properties': props, 'bools': bstr(bools)})
                    run.count(frmat)
            if fileno % 97 == 1:
                for bn, bm in ((1000 + rng.randint(0, 30), 1), (1, 1000 + rng.randint(0, 30))):
                    with guard(run, 'cxt text of a %d x %d context' % (bn, bm), []):
                        bo, bp = ['g%d' % i for i in range(bn)], ['a%d' % j for j in range(bm)]
                        bb = [tuple(rng.random() < .5 for _ in range(bm)) for _ in range(bn)]
                        btext = Context(bo, bp, bb).tostring('cxt')
                        blines = btext.split('\n')
                        if blines[:5] != ['B', '', str(bn), str(bm), '']:
                            run.fail('cxt header of a %d x %d context' % (bn, bm), blines[:5], ['B', '', str(bn), str(bm), ''], [])
                        got_big = strict_cxt(btext)
                        if got_big is None or (list(got_big[0]), list(got_big[1]), [tuple(r) for r in got_big[2]]) != (bo, bp, bb):
                            run.fail('independent strict cxt reader on a %d x %d context' % (bn, bm), None, None, [])
                    run.count('cxt with 1000+ rows / columns')
            # characters that str.splitlines() treats as line boundaries but the formats do not: inside labels they are data
            if n * m <= 4:
                seps = ['\x0b', '\x0c', '\x1c', '\x1d', '\x1e', '\x85', '\u2028', '\u2029']
                labels = ['w%d%sz' % (k, rng.choice(seps)) for k in range(n + m)]
                with guard(run, 'labels with inner separator characters %r' % (labels,), []):
                    ctx = Context(labels[:n], labels[n:], bools)
                    for frmat in ('table', 'cxt', 'csv', 'python-literal'):
                        if Context.fromstring(ctx.tostring(frmat), frmat) != ctx:
                            run.fail('fromstring(tostring(%s)) with %r inside labels' % (frmat, labels), None, None, [], {'labels': labels})
                run.count('inner separator labels')
            # FIMI rows and concept .dat files
            objs = ['o%d' % i for i in range(n)]
            props = ['p%d' % j for j in range(m)]
            r1 = 'fmt dump fimi ' + bstr(bools)
            with guard(run, 'fimi export', [r1]):
                ctx = Context(objs, props, bools)
                text = ctx.tostring('fimi')
                if hexs(text) != drv.ask(r1):
                    run.fail('FIMI rows', text, None, [r1])
                want = [[j for j in range(m) if (r >> j) & 1] for r in rows]
                if [[int(x) for x in l.split(' ')] if l else [] for l in text.split('\n')[:-1]] != want or not text.endswith('\n'):
                    run.fail('FIMI rows do not list the true cells', text, want, [r1])
                cl = concepts.algorithms.get_concepts(ctx)
                for ext in (False, True):
                    path = os.path.join(work, 'concepts.dat')
                    cl.tofile(path, extents=ext)
                    got = list(concepts.formats.read_concepts_dat(path))
                    want = [tuple(c.extent.iter_set()) if ext else tuple(c.intent.iter_set()) for c in cl]
                    exp2 = [tuple(sorted(objs.index(o) for o in c.objects)) if ext else tuple(sorted(props.index(p) for p in c.properties)) for c in cl]
                    if got != want or got != exp2:
                        run.fail('concept .dat file (extents=%r)' % ext, got, exp2, [r1])
            run.case('fimi|' + r1, n * m > 1)
            run.count('fimi')
    finally:
        shutil.rmtree(work, ignore_errors=True)
