"""C17 - all results are deterministic across processes and hash seeds."""
import hashlib
import os
import subprocess
import sys
from core import VERIF, REPO


def transcript(seed, scale):
    env = dict(os.environ, PYTHONHASHSEED=str(seed), VERIF_REPO=REPO)
    r = subprocess.run([sys.executable, os.path.join(VERIF, 'harness', 'hashseed_runner.py'), str(scale)], env=env,
                       stdout=subprocess.PIPE, stderr=subprocess.PIPE, text=True)
    return r.returncode, r.stdout, r.stderr


def run(run):
    run.rule = ('one fixed corpus (contexts with word labels: every text/dict/JSON form, lattice order and indices, neighbor and '
                'traversal orders, unions with several seeds, relations, DOT source, error messages listing names; definition edit '
                'histories of 30 steps incl. set_object/set_property with many new names, in-place and derived union/intersection, '
                'take with unknown names) executed in separate interpreter processes under different PYTHONHASHSEED values; all '
                'transcripts must be identical line by line (addresses masked) and the definition steps must equal the Lean model; '
                'a case = one transcript line under one seed')
    run.partial = ['string-hash randomisation is runtime behaviour: explored with the listed seeds, not proved; the proved part is the '
                   'order-independence of the model at every site where the code iterates a set']
    seeds = [0, 1, 2] if run.tier == 'quick' else [0, 1, 2, 3, 5, 8, 13, 21, 34, 55, 89, 'random']
    scale = 1 if run.tier == 'quick' else 4
    # static inventory of hash-ordered iteration sites: an unlisted site does not alarm, it widens the exploration
    import json
    import hashsites
    listed = json.load(open(os.path.join(VERIF, 'harness', 'hash_sites.json')))['sites']
    found = sorted({hashsites.key(s) + ' | ' + s['how'] for s in hashsites.scan(REPO)})
    unlisted = [f for f in found if f.split(' | ')[0] not in listed]
    run.counters['hash-ordered iteration sites found'] = len(found)
    run.counters['of which not in harness/hash_sites.json'] = len(unlisted)
    if unlisted:
        run.notes.append('unlisted hash-ordered iteration sites (more seeds and a larger corpus used): ' + '; '.join(unlisted[:8]))
        seeds = sorted(set(seeds) | {3, 4, 5, 6, 7, 11}, key=str)
        scale = max(scale, 2)
    outs = {}
    from concurrent.futures import ThreadPoolExecutor
    with ThreadPoolExecutor(max_workers=min(len(seeds), 12)) as ex:
        for seed, (rc, out, err) in zip(seeds, ex.map(lambda s: transcript(s, scale), seeds)):
            if rc != 0:
                # the corpus itself must run: a crash of the implementation under some seed is an observable
                run.fail('corpus run under PYTHONHASHSEED=%s crashed' % seed, err[-1500:], 'runs', ['PYTHONHASHSEED=%s harness/hashseed_runner.py %d' % (seed, scale)])
            outs[seed] = out.split('\n')
    ref_seed = seeds[0]
    ref = outs[ref_seed]
    for seed in seeds[1:]:
        lines = outs[seed]
        for k in range(max(len(ref), len(lines))):
            a = ref[k] if k < len(ref) else '<missing>'
            b = lines[k] if k < len(lines) else '<missing>'
            if a != b and a.startswith('KNOWN-D7 ') and b.startswith('KNOWN-D7 ') and a.split('\t')[0] == b.split('\t')[0] \
                    and 'raised KeyError' in a and 'raised KeyError' in b:
                known = [kf for kf in run.known if kf['match'].get('site') == 'bitsets frommembers(set(members)) KeyError']
                if known:
                    hit = ('with two or more labels unknown to the family that is looked up, the name carried by the KeyError of '
                           'Context.intension / extension / __getitem__ differs between PYTHONHASHSEED values (%s)' % a.split('\t')[0][9:].split(' ', 1)[1])
                    hit = hit.rsplit(' (', 1)[0]
                    if hit not in run.known_hits:
                        run.known_hits.append(hit)
                    continue
            if a != b:
                run.fail('observable differs between PYTHONHASHSEED=%s and %s: %s' % (ref_seed, seed, a.split('\t')[0]),
                         {str(ref_seed): a[:1500], str(seed): b[:1500]}, 'identical',
                         ['PYTHONHASHSEED=%s harness/hashseed_runner.py %d' % (s, scale) for s in (ref_seed, seed)])
        for l in lines:
            run.case('%s|%s' % (seed, hashlib.sha1(l.encode()).hexdigest()), True)
    # model comparison of the definition steps (one transcript is enough: all are equal)
    drv = run.driver
    hist = []
    cur = None
    for l in ref:
        run.case('%s|%s' % (ref_seed, hashlib.sha1(l.encode()).hexdigest()), True,
                 {'seed': ref_seed, 'line': l[:200]} if l.startswith(('ctx3 order', 'h2 final')) else None)
        if not l.startswith('MODEL '):
            continue
        tag, req, want = l.split('\t')
        if tag != cur:
            cur, hist = tag, []
        hist.append(req)
        ans = drv.ask(req)
        run.count('model-checked definition steps')
        if ans != want:
            run.fail('definition history %s' % tag, want, ans, hist)
